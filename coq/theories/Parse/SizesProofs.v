(** C03 (e)(f)(g) — the validated page size is a power of two with a shift
    below 64, so the read path's [%] and [>>] are defined; the diskdump and
    LKCD copy lengths fit their buffers. *)
From Coq Require Import NArith ZArith List Bool Lia ZifyBool ZifyNat ZifyN.
From KdV Require Import Parse.Bounded Parse.BoundedProofs Parse.RleModel Parse.RleSpec Parse.RleProofs
     Parse.SizesModel.
Import ListNotations.
Local Open Scope N_scope.
#[local] Hint Resolve good_ok good_noprobe : core.
#[local] Hint Extern 1 (good (Err _ _)) => (apply good_err; [reflexivity|discriminate]) : core.

(** ** (g) *)
Lemma lowbit_pow2 p : Npos p = lowbit (Npos p) -> Npos p = 2 ^ ctz_pos p.
Proof.
  induction p as [p IH|p IH|]; cbn [lowbit lowbit_pos ctz_pos]; intros H.
  - discriminate.
  - injection H as H. rewrite N.pow_add_r. change (2 ^ 1) with 2.
    rewrite <- IH; [reflexivity|]. cbn [lowbit]. now rewrite <- H.
  - reflexivity.
Qed.

Lemma ctz_pos_le_log2 p : ctz_pos p <= N.log2 (Npos p).
Proof.
  induction p as [p IH|p IH|]; cbn [ctz_pos].
  - lia.
  - change (N.pos p~0) with (2 * N.pos p). rewrite N.log2_double by lia. lia.
  - cbn. lia.
Qed.

(** what [set_page_size] establishes *)
Theorem set_page_size_spec : forall v ps shift,
  set_page_size true v = Ok (ps, shift) ->
  ps = v /\ v = 2 ^ shift /\ shift < 64 /\ v <> 0.
Proof.
  intros v ps shift. unfold set_page_size, page_size_pre_hook, page_shift_hooks. cbn [andb].
  destruct (v =? 0) eqn:E0; [discriminate|]. apply N.eqb_neq in E0.
  destruct (negb (v =? lowbit v)) eqn:El; [discriminate|].
  apply negb_false_iff, N.eqb_eq in El. cbn [bind].
  destruct v as [|p]; [lia|]. cbn [ffsl_minus1].
  destruct (64 <=? ctz_pos p) eqn:E64; [discriminate|]. apply N.leb_gt in E64.
  unfold checked_shl. assert (Hlt : ctz_pos p <? 64 = true) by now apply N.ltb_lt. rewrite Hlt. cbn [bind].
  intros H. injection H as <- <-.
  pose proof (lowbit_pow2 p El) as Hp.
  change (N.pos (Pos.shiftl 1 (ctz_pos p))) with (N.shiftl 1 (ctz_pos p)).
  change (N.pos (2 ^ 64)) with (2 ^ 64).
  rewrite N.shiftl_1_l. rewrite N.mod_small by (apply N.pow_lt_mono_r; lia).
  repeat split; auto.
Qed.

Theorem set_page_size_no_ub : forall v, good (set_page_size true v).
Proof.
  intros v. unfold set_page_size, page_size_pre_hook, page_shift_hooks. cbn [andb].
  destruct (v =? 0); cbn [bind]; [auto|]. destruct (negb (v =? lowbit v)); cbn [bind]; [auto|].
  destruct (64 <=? ffsl_minus1 v) eqn:E; cbn [bind]; [auto|]. apply N.leb_gt in E.
  unfold checked_shl. assert (Hlt : ffsl_minus1 v <? 64 = true) by now apply N.ltb_lt. rewrite Hlt.
  cbn [bind]. auto.
Qed.

(** the read path splits an address without division by zero or bad shift *)
Theorem read_split_defined : forall v ps shift addr,
  set_page_size true v = Ok (ps, shift) ->
  exists pfn off, read_split true ps shift addr = Ok (pfn, off) /\ off < ps /\ addr = pfn * ps + off.
Proof.
  intros v ps shift addr H. destruct (set_page_size_spec v ps shift H) as [-> [Hv [Hs Hnz]]].
  unfold read_split, checked_mod, checked_shr.
  assert (E0 : v =? 0 = false) by now apply N.eqb_neq. rewrite E0. cbn [andb bind].
  assert (Hlt : shift <? 64 = true) by now apply N.ltb_lt. rewrite Hlt. cbn [bind].
  exists (N.shiftr addr shift), (addr mod v). split; [reflexivity|].
  split; [now apply N.mod_lt|].
  rewrite N.shiftr_div_pow2, <- Hv. rewrite N.mul_comm. now apply N.div_mod.
Qed.

Theorem read_split_unset : forall shift addr,
  read_split true 0 shift addr = Err KNODATA (StPageSize 0).
Proof. reflexivity. Qed.

(** the pinned tree's logic: page size 0 passes the power-of-two test and the
    shift becomes 2^64-1 (item 10); an unset page size is a division by zero
    (item 33) *)
Theorem set_page_size_unrepaired_refuted : set_page_size false 0 = BadShift.
Proof. reflexivity. Qed.
Theorem read_split_unrepaired_refuted : forall addr, read_split false 0 0 addr = DivZero.
Proof. reflexivity. Qed.

(** ** (e) *)
Theorem try_header_good : forall bs bmp mapnr, good (try_header true bs bmp mapnr).
Proof.
  intros. unfold try_header.
  destruct (_ || _); [auto|]. destruct (_ <? mapnr); [auto|]. apply set_page_size_no_ub.
Qed.

Theorem try_header_spec : forall bs bmp mapnr ps shift,
  try_header true bs bmp mapnr = Ok (ps, shift) ->
  ps = bs /\ MIN_PAGE_SIZE <= ps <= MAX_PAGE_SIZE /\ ps = 2 ^ shift /\ mapnr <= (8 * bmp * bs) mod W64.
Proof.
  intros bs bmp mapnr ps shift. unfold try_header, MIN_PAGE_SIZE, MAX_PAGE_SIZE.
  destruct (bs <? 2147483648) eqn:Eb.
  - destruct ((bs <? 4096) || (262144 <? bs)) eqn:Er; [discriminate|].
    apply orb_false_iff in Er. destruct Er as [E1 E2]. apply N.ltb_ge in E1. apply N.ltb_ge in E2.
    destruct (_ <? mapnr) eqn:Em; [discriminate|]. apply N.ltb_ge in Em.
    intros H. destruct (set_page_size_spec _ _ _ H) as [-> [Hv _]]. repeat split; auto.
  - apply N.ltb_ge in Eb.
    assert (E : (bs + 18446744069414584320 <? 4096) || (262144 <? bs + 18446744069414584320) = true).
    { apply orb_true_iff. right. apply N.ltb_lt. lia. }
    rewrite E. discriminate.
Qed.

Lemma copy_into_ok cap n : n <= cap -> copy_into cap n = Ok tt.
Proof. intros H. unfold copy_into. apply N.leb_le in H. now rewrite H. Qed.

Theorem dd_page_good : forall alim f flen ps flags size off, good (dd_page alim f flen ps flags size off).
Proof.
  intros. unfold dd_page, dd_page_gen.
  destruct (negb (extent_ok flen off size)); [auto|].
  destruct (negb (N.land flags DUMP_DH_COMPRESSED =? 0)).
  - destruct (get_chunk_cases alim f size off) as [[c [H _]]|[st [H Hs]]]; rewrite H; cbn [bind];
      [auto|now apply good_chunk_err].
  - destruct (negb (size =? ps)) eqn:E; [auto|]. apply negb_false_iff, N.eqb_eq in E. subst.
    destruct (pread_cases f ps off) as [[c [H _]]|[st [H ->]]]; rewrite H; cbn [bind]; [|auto].
    rewrite copy_into_ok by lia. cbn [bind]. auto.
Qed.

Lemma dd_fields_ok be is64 h : clen h = 464 -> exists l, dd_fields be is64 h = Ok l.
Proof.
  intros Hl. unfold dd_fields. destruct is64; repeat rd; cbn [bind]; eauto.
Qed.

Lemma dd_do_header_good is64 be l : good (dd_do_header is64 be l).
Proof. unfold dd_do_header. destruct (_ <=? _); auto. Qed.

Lemma dd_try_good is64 h : clen h = 464 -> good (dd_try true is64 h).
Proof.
  intros Hl. unfold dd_try.
  destruct (dd_fields_ok false is64 h Hl) as [l ->]. cbn [bind].
  pose proof (try_header_good (dl_bs l) (dl_bmp l) (dl_mapnr l)) as [H1 [H2 H3]].
  destruct (try_header true (dl_bs l) (dl_bmp l) (dl_mapnr l)) as [a|st w| | | | |] eqn:E;
    try discriminate; try (exfalso; now apply H2).
  - apply dd_do_header_good.
  - destruct st; try (apply good_err; [reflexivity|discriminate]).
    + destruct (H3 _ _ eq_refl) as [Hx _]. discriminate.
    + destruct (dd_fields_ok true is64 h Hl) as [l' ->]. cbn [bind].
      pose proof (try_header_good (dl_bs l') (dl_bmp l') (dl_mapnr l')) as [H1' [H2' H3']].
      destruct (try_header true (dl_bs l') (dl_bmp l') (dl_mapnr l')) as [a|st' w'| | | | |] eqn:E';
        try discriminate; try (exfalso; now apply H2').
      * apply dd_do_header_good.
      * split; [reflexivity|split; [discriminate|]]. intros s1 s2 Hx. injection Hx as <- <-.
        now apply H3'.
    + destruct (H3 _ _ eq_refl) as [_ Hx]. specialize (Hx eq_refl). subst. apply good_noprobe.
Qed.

Theorem dd_choose_good : forall h, clen h = 464 -> good (dd_choose true h).
Proof.
  intros h Hl. unfold dd_choose.
  pose proof (dd_try_good false h Hl) as H32. pose proof (dd_try_good true h Hl) as H64.
  destruct (dd_try true false h) as [a|st w| | | | |]; try exact H32.
  destruct st; try exact H32.
  destruct (dd_try true true h) as [a'|st' w'| | | | |]; try exact H64.
  destruct st'; try exact H64. auto.
Qed.

(** ** (f) *)
Theorem lkcd_page_good : forall f ps comp dp_size dp_flags off,
  good (lkcd_page true f ps comp dp_size dp_flags off).
Proof.
  intros. unfold lkcd_page.
  destruct (N.land dp_flags 3 =? DUMP_COMPRESSED).
  - destruct (ps <? dp_size) eqn:E; [auto|]. apply N.ltb_ge in E.
    destruct (pread_cases f dp_size off) as [[c [H Hl]]|[st [H ->]]]; rewrite H; cbn [bind]; [|auto].
    rewrite copy_into_ok by lia. cbn [bind].
    destruct (comp =? DUMP_COMPRESS_RLE).
    + destruct (cbytes_in c 0 dp_size) as [src Hs]; [lia|]. rewrite Hs. cbn [bind].
      destruct (rle_in_bounds src ps) as [R1 [R2 R3]].
      destruct (uncompress_rle src ps); try contradiction; auto.
      destruct (_ =? ps); auto.
    + destruct (comp =? DUMP_COMPRESS_GZIP); auto.
  - destruct (N.land dp_flags 3 =? DUMP_RAW); [|auto].
    destruct (negb (dp_size =? ps)) eqn:E; [auto|]. apply negb_false_iff, N.eqb_eq in E. subst.
    destruct (pread_cases f ps off) as [[c [H Hl]]|[st [H ->]]]; rewrite H; cbn [bind]; [|auto].
    rewrite copy_into_ok by lia. cbn [bind].
    destruct (cbytes_in c 0 ps) as [bs Hs]; [lia|]. rewrite Hs. cbn [bind]. auto.
Qed.

(** a page that is returned has exactly the page size *)
Theorem lkcd_page_length : forall f ps comp dp_size dp_flags off out,
  lkcd_page true f ps comp dp_size dp_flags off = Ok (Some out) -> N.of_nat (length out) = ps.
Proof.
  intros f ps comp dp_size dp_flags off out. unfold lkcd_page.
  destruct (N.land dp_flags 3 =? DUMP_COMPRESSED).
  - destruct (ps <? dp_size); [discriminate|].
    destruct (pread f dp_size off); cbn [bind]; try discriminate.
    destruct (copy_into ps dp_size); cbn [bind]; try discriminate.
    destruct (comp =? DUMP_COMPRESS_RLE).
    + destruct (cbytes a 0 dp_size); cbn [bind]; try discriminate.
      destruct (uncompress_rle a1 ps); try discriminate.
      destruct (N.of_nat (length out0) =? ps) eqn:E; [|discriminate].
      intros H. injection H as <-. now apply N.eqb_eq.
    + destruct (comp =? DUMP_COMPRESS_GZIP); discriminate.
  - destruct (N.land dp_flags 3 =? DUMP_RAW); [|discriminate].
    destruct (negb (dp_size =? ps)) eqn:E; [discriminate|]. apply negb_false_iff, N.eqb_eq in E. subst.
    destruct (pread f ps off) as [c| | | | | |] eqn:Ep; cbn [bind]; try discriminate.
    destruct (copy_into ps ps); cbn [bind]; try discriminate.
    unfold cbytes. destruct (cbytes_from c 0 (N.to_nat ps)) as [l|] eqn:El; cbn [of_opt bind]; [|discriminate].
    intros H. injection H as <-.
    assert (Hlen : forall n c o l, cbytes_from c o n = Some l -> length l = n).
    { clear. induction n as [|n IH]; intros c o l; cbn [cbytes_from].
      - intros H. injection H as <-. reflexivity.
      - destruct (cget c o); [|discriminate].
        destruct (cbytes_from c (o + 1) n) eqn:E; [|discriminate].
        intros H. injection H as <-. cbn. f_equal. eapply IH. exact E. }
    rewrite (Hlen _ _ _ _ El). lia.
Qed.

(** the pinned tree's check against MAX_PAGE_SIZE lets 6000 compressed bytes
    into a 4096-byte buffer (item 9) *)
Theorem lkcd_page_unrepaired_refuted :
  lkcd_page false (fun _ => 0) 4096 DUMP_COMPRESS_RLE 6000 DUMP_COMPRESSED 0 = OOB.
Proof. vm_compute. reflexivity. Qed.

(** a raw page that is copied has exactly the size of the slot it is copied
    into, and a decompressor is told the size of that slot *)
Theorem dd_page_fits_slot : forall alim f flen ps flags size off a,
  dd_page alim f flen ps flags size off = Ok a ->
  match a with DdRaw => size = ps | DdDecompress _ cap => cap = ps end.
Proof.
  intros alim f flen ps flags size off a. unfold dd_page, dd_page_gen.
  destruct (negb (extent_ok flen off size)); [discriminate|].
  destruct (negb (N.land flags DUMP_DH_COMPRESSED =? 0)).
  - destruct (get_chunk alim f size off); cbn [bind]; try discriminate.
    intros H. injection H as <-. reflexivity.
  - destruct (negb (size =? ps)) eqn:E; [discriminate|]. apply negb_false_iff, N.eqb_eq in E.
    destruct (pread f size off); cbn [bind]; try discriminate.
    destruct (copy_into ps size); cbn [bind]; try discriminate.
    intros H. injection H as <-. exact E.
Qed.

(** checked against the header's block size (4096) while the slot has the
    page size a later VMCOREINFO set (512): the copy leaves the slot *)
Theorem dd_page_block_size_refuted :
  dd_page_gen 1073741824 (fun _ => 0) 8192 4096 512 0 4096 0 = OOB.
Proof. vm_compute. reflexivity. Qed.
