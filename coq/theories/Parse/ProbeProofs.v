(** C03 — the probing chain: KDUMP_NOPROBE never escapes the loop, every
    status that comes out of [open_dump] is a documented error status, and the
    whole modelled open is free of forbidden outcomes. *)
From Coq Require Import NArith ZArith List Bool Lia ZifyBool ZifyNat ZifyN.
From KdV Require Import Parse.Bounded Parse.BoundedProofs Parse.NotesModel Parse.PElfModel Parse.ElfProofs
     Parse.FlatInit Parse.FlatInitProofs Parse.SizesModel Parse.SizesProofs Parse.ProbeModel.
Import ListNotations.
Local Open Scope N_scope.
#[local] Hint Resolve good_ok good_noprobe : core.
#[local] Hint Extern 1 (good (Err _ _)) => (apply good_err; [reflexivity|discriminate]) : core.

(** for *any* list of probe functions *)
Theorem probe_loop_never_noprobe : forall probes f stg,
  probe_loop probes f <> Err KNOPROBE stg.
Proof.
  induction probes as [|p rest IH]; intros f stg; cbn [probe_loop]; [discriminate|].
  destruct (p f) as [a|st w| | | | |]; try discriminate.
  destruct st; try discriminate. apply IH.
Qed.

(** [good'] : like [good], and additionally no NOPROBE at all *)
Definition settled {A} (r : res A) : Prop :=
  is_ub r = false /\ r <> OutOfFuel /\
  forall st stg, r = Err st stg -> is_error st = true /\ documented st = true.

Lemma probe_loop_settled : forall probes f,
  Forall (fun p => good (p f)) probes -> settled (probe_loop probes f).
Proof.
  induction probes as [|p rest IH]; intros f H; cbn [probe_loop].
  - split; [reflexivity|split; [discriminate|]]. intros st stg E. injection E as <- <-. split; reflexivity.
  - inversion H as [|? ? Hp Hrest]; subst. destruct Hp as [H1 [H2 H3]].
    destruct (p f) as [a|st w| | | | |] eqn:E; try discriminate; try (exfalso; now apply H2).
    + split; [reflexivity|split; [discriminate|discriminate]].
    + destruct st; try (split; [reflexivity|split; [discriminate|]]; intros s1 s2 Ex;
        injection Ex as <- <-; split; [reflexivity|reflexivity]).
      * destruct (H3 _ _ eq_refl) as [Hx _]. discriminate.
      * apply IH. exact Hrest.
Qed.

(** ** the individual probes *)
Lemma magic_stub_good magic f : good (magic_stub magic f).
Proof.
  unfold magic_stub.
  destruct (pread_cases f (N.of_nat (length magic)) 0) as [[h [H Hl]]|[st [H ->]]]; rewrite H; cbn [bind]; [|auto].
  destruct (cbytes_in h 0 (N.of_nat (length magic))) as [b Hb]; [lia|]. rewrite Hb. cbn [bind].
  destruct (bytes_eqb b magic); auto.
Qed.

Lemma xc_core_probe_good f : good (xc_core_probe f).
Proof.
  unfold xc_core_probe.
  destruct (pread_cases f 4 0) as [[h [H Hl]]|[st [H ->]]]; rewrite H; cbn [bind]; [|auto].
  destruct (cbytes_in h 0 4) as [b Hb]; [lia|]. rewrite Hb. cbn [bind]. auto.
Qed.

Lemma diskdump_probe_good f : good (diskdump_probe true f).
Proof.
  unfold diskdump_probe.
  destruct (pread_cases f 464 0) as [[h [H Hl]]|[st [H ->]]]; rewrite H; cbn [bind]; [|auto].
  destruct (cbytes_in h 0 8) as [b Hb]; [lia|]. rewrite Hb. cbn [bind].
  destruct (negb _); [auto|].
  apply good_bind; [apply dd_choose_good; exact Hl|].
  intros [[is64 be] l] _. auto.
Qed.

Lemma lkcd_probe_good alim f : good (lkcd_probe true alim f).
Proof.
  unfold lkcd_probe.
  destruct (pread_cases f 742 0) as [[h [H Hl]]|[st [H ->]]]; rewrite H; cbn [bind]; [|auto].
  destruct (cbytes_in h 0 8) as [b Hb]; [lia|]. rewrite Hb. cbn [bind].
  apply good_bind.
  { destruct (bytes_eqb b LKCD_MAGIC_LE); [auto|]. destruct (bytes_eqb b LKCD_MAGIC_BE); auto. }
  intros be _. repeat rd. cbn [bind].
  apply good_bind; [apply set_page_size_no_ub|].
  intros pss _. destruct (_ || _); [auto|]. destruct (existsb _ _); auto.
Qed.

Lemma s390_probe_good alim f : good (s390_probe true alim f).
Proof.
  unfold s390_probe.
  destruct (get_chunk_cases alim f 4096 0) as [[h [H [Hl _]]]|[st [H Hs]]]; rewrite H; cbn [bind];
    [|now apply good_chunk_err].
  repeat rd. cbn [bind].
  destruct (negb _); [auto|].
  repeat rd. cbn [bind].
  match goal with |- good (match get_chunk ?a ?b ?c ?d with _ => _ end) =>
    destruct (get_chunk_cases a b c d) as [[m [Hm [Hml _]]]|[st [Hm Hs]]]; rewrite Hm end;
    [|now apply good_chunk_err].
  destruct (cbytes_in m 0 8) as [str Hstr]; [lia|]. rewrite Hstr. cbn [bind].
  repeat rd. cbn [bind].
  destruct (_ || _); [auto|].
  repeat rd. cbn [bind].
  apply good_bind; [apply set_page_size_no_ub|].
  intros pss _. destruct (_ <? _); [auto|].
  repeat rd. cbn [bind]. destruct (_ || _); auto.
Qed.

Lemma probes_good alim flen f : Forall (fun p => good (p f)) (probes true alim flen).
Proof.
  unfold probes.
  apply Forall_cons; [apply good_bind; [apply elf_probe_good|auto]|].
  apply Forall_cons; [apply magic_stub_good|].
  apply Forall_cons; [apply magic_stub_good|].
  apply Forall_cons; [apply magic_stub_good|].
  apply Forall_cons; [apply xc_core_probe_good|].
  apply Forall_cons; [apply diskdump_probe_good|].
  apply Forall_cons; [apply lkcd_probe_good|].
  apply Forall_cons; [apply magic_stub_good|].
  apply Forall_cons; [apply s390_probe_good|].
  apply Forall_cons; [auto|]. apply Forall_nil.
Qed.

(** ** [open_dump] *)
Lemma flat_body_not_noprobe alim f s stg : flat_body alim f s <> inr (Err KNOPROBE stg).
Proof.
  unfold flat_body.
  destruct (pread_cases f 16 (fl_pos s)) as [[hh [Hh Hl]]|[stt [Hh ->]]]; rewrite Hh; [|discriminate].
  destruct (cu64_in true hh 0) as [? ->]; [lia|]. destruct (cu64_in true hh 8) as [? ->]; [lia|].
  repeat match goal with |- context [if ?b then _ else _] => destruct b end; discriminate.
Qed.

Lemma flat_loop_not_noprobe alim f stg : forall n s,
  loop_nat (flat_body alim f) n s <> inr (Err KNOPROBE stg).
Proof.
  induction n as [|n IH]; intros s; cbn [loop_nat]; [discriminate|].
  destruct (flat_body alim f s) as [s'|r] eqn:E; [apply IH|].
  intros H. injection H as ->. now apply (flat_body_not_noprobe alim f s stg).
Qed.

Lemma flatmap_init_not_noprobe alim f flen stg : flatmap_init alim f flen <> Err KNOPROBE stg.
Proof.
  unfold flatmap_init.
  destruct (pread_cases f 32 0) as [[h [H Hl]]|[st [H ->]]]; rewrite H; cbn [bind]; [|discriminate].
  destruct (cbytes_in h 0 16) as [sig ->]; [lia|]. cbn [bind].
  destruct (negb _); [discriminate|].
  destruct (cu64_in true h 16) as [? ->]; [lia|]. destruct (cu64_in true h 24) as [? ->]; [lia|]. cbn [bind].
  destruct (negb _); [discriminate|]. destruct (negb _); [discriminate|].
  unfold flatmap_file_init. rewrite loopN_nat.
  pose proof (flat_loop_not_noprobe alim f stg (N.to_nat (flat_fuel flen))
    {| fl_pos := MDF_HEADER_SIZE; fl_idx := 0; fl_alloc := 0; fl_acc := [] |}) as Hn.
  destruct (loop_nat _ _ _) as [s|r]; cbn [bind]; [discriminate|].
  destruct r; cbn [bind]; try discriminate.
  intros E. injection E as -> ->. now apply Hn.
Qed.

Theorem open_dump_settled : forall alim f flen,
  (forall p, flen <= p -> f p = 0) -> settled (open_dump true alim f flen).
Proof.
  intros alim f flen Hz. unfold open_dump.
  pose proof (flatmap_init_good alim f flen Hz) as [F1 [F2 F3]].
  destruct (flatmap_init alim f flen) as [fm|st w| | | | |] eqn:Ef; try discriminate;
    try (exfalso; now apply F2); cbn [bind].
  - destruct fm as [segs|].
    + split; [reflexivity|split; [discriminate|discriminate]].
    + pose proof (probe_loop_settled (probes true alim flen) f (probes_good alim flen f)) as [P1 [P2 P3]].
      destruct (probe_loop (probes true alim flen) f) as [p|st w| | | | |] eqn:Ep; try discriminate;
        try (exfalso; now apply P2); cbn [bind].
      * split; [reflexivity|split; [discriminate|discriminate]].
      * split; [reflexivity|split; [discriminate|]]. intros s1 s2 E. injection E as <- <-.
        exact (P3 st w eq_refl).
  - split; [reflexivity|split; [discriminate|]]. intros s1 s2 E. injection E as <- <-.
    destruct (F3 _ _ eq_refl) as [Hx Hy]. split; [exact Hx|].
    destruct st; try reflexivity.
    exfalso. specialize (Hy eq_refl). subst w. now apply (flatmap_init_not_noprobe alim f flen StSignature).
Qed.

(** the statement about statuses alone *)
Theorem open_dump_status_documented : forall alim f flen st stg,
  (forall p, flen <= p -> f p = 0) ->
  open_dump true alim f flen = Err st stg -> documented st = true /\ st <> KOK.
Proof.
  intros alim f flen st stg Hz H.
  destruct (open_dump_settled alim f flen Hz) as [_ [_ H3]].
  destruct (H3 st stg H) as [Ha Hb]. split; [exact Hb|]. intros ->. discriminate.
Qed.
