(** C03 — lemmas about the vocabulary of [Bounded]: the two loop combinators
    agree, an invariant rule for loops, and the checked accessors succeed
    exactly inside the chunk. *)
From Coq Require Import NArith ZArith List Bool Lia.
From KdV Require Import Parse.Bounded.
Import ListNotations.
Local Open Scope N_scope.

(** ** loops *)
Section LoopFacts.
  Context {S R : Type}.
  Variable body : S -> S + R.

  Lemma loop_nat_add a b s :
    loop_nat body (a + b) s =
    match loop_nat body a s with inl s' => loop_nat body b s' | inr r => inr r end.
  Proof.
    revert s; induction a as [|a IH]; intros s; cbn [loop_nat Nat.add]; [reflexivity|].
    destruct (body s) as [s'|r]; [apply IH|reflexivity].
  Qed.

  Lemma loop_pos_nat p s : loop_pos body p s = loop_nat body (Pos.to_nat p) s.
  Proof.
    revert s; induction p as [p IH|p IH|]; intros s; cbn [loop_pos].
    - rewrite Pos2Nat.inj_xI. cbn [loop_nat].
      destruct (body s) as [s1|r]; [|reflexivity].
      replace (2 * Pos.to_nat p)%nat with (Pos.to_nat p + Pos.to_nat p)%nat by lia.
      rewrite loop_nat_add, IH.
      destruct (loop_nat body (Pos.to_nat p) s1) as [s2|r]; [apply IH|reflexivity].
    - rewrite Pos2Nat.inj_xO.
      replace (2 * Pos.to_nat p)%nat with (Pos.to_nat p + Pos.to_nat p)%nat by lia.
      rewrite loop_nat_add, IH.
      destruct (loop_nat body (Pos.to_nat p) s) as [s2|r]; [apply IH|reflexivity].
    - change (Pos.to_nat 1) with 1%nat. cbn [loop_nat]. destruct (body s); reflexivity.
  Qed.

  (** binary and unary fuel run the body the same number of times *)
  Lemma loopN_nat n s : loopN body n s = loop_nat body (N.to_nat n) s.
  Proof. destruct n as [|p]; cbn; [reflexivity|apply loop_pos_nat]. Qed.

  (** invariant rule *)
  Lemma loop_nat_inv (I : nat -> S -> Prop) (Q : R -> Prop) :
    (forall n s, I (Datatypes.S n) s ->
       match body s with inl s' => I n s' | inr r => Q r end) ->
    forall n s, I n s ->
      match loop_nat body n s with inl s' => I O s' | inr r => Q r end.
  Proof.
    intros Hstep. induction n as [|n IH]; intros s Hs; cbn [loop_nat]; [exact Hs|].
    specialize (Hstep n s Hs). destruct (body s) as [s'|r]; [apply IH; exact Hstep|exact Hstep].
  Qed.
End LoopFacts.

(** ** outcomes *)
Lemma is_ub_bind {A B} (r : res A) (k : A -> res B) :
  is_ub r = false -> (forall a, r = Ok a -> is_ub (k a) = false) -> is_ub (bind r k) = false.
Proof. intros H1 H2. destruct r; cbn in *; try discriminate; auto. Qed.

Lemma bind_ok {A B} (r : res A) (k : A -> res B) a : r = Ok a -> bind r k = k a.
Proof. intros ->. reflexivity. Qed.

(** ** accessors succeed inside the chunk *)
Lemma cget_in c off : off < clen c -> cget c off = Some (fbyte (cfile c) (cpos c + off)).
Proof. intros H. unfold cget. apply N.ltb_lt in H. now rewrite H. Qed.

Lemma cget_out c off : clen c <= off -> cget c off = None.
Proof. intros H. unfold cget. apply N.ltb_ge in H. now rewrite H. Qed.

Lemma cget_le_in c : forall n off, off + N.of_nat n <= clen c -> exists v, cget_le c off n = Some v.
Proof.
  induction n as [|n IH]; intros off H; cbn [cget_le]; [eauto|].
  rewrite cget_in by lia. destruct (IH (off + 1)) as [r Hr]; [lia|]. rewrite Hr. eauto.
Qed.

Lemma cget_be_in c : forall n off acc, off + N.of_nat n <= clen c -> exists v, cget_be c off n acc = Some v.
Proof.
  induction n as [|n IH]; intros off acc H; cbn [cget_be]; [eauto|].
  rewrite cget_in by lia. apply IH. lia.
Qed.

Lemma cuint_in be c off n : off + N.of_nat n <= clen c -> exists v, cuint be c off n = Ok v.
Proof.
  intros H. unfold cuint. destruct be.
  - destruct (cget_be_in c n off 0 H) as [v Hv]. rewrite Hv. cbn. eauto.
  - destruct (cget_le_in c n off H) as [v Hv]. rewrite Hv. cbn. eauto.
Qed.

Lemma cu8_in c off : off + 1 <= clen c -> exists v, cu8 c off = Ok v.
Proof. intros H. unfold cu8. rewrite cget_in by lia. cbn. eauto. Qed.
Lemma cu16_in be c off : off + 2 <= clen c -> exists v, cu16 be c off = Ok v.
Proof. intros H. apply cuint_in. cbn. lia. Qed.
Lemma cu32_in be c off : off + 4 <= clen c -> exists v, cu32 be c off = Ok v.
Proof. intros H. apply cuint_in. cbn. lia. Qed.
Lemma cu64_in be c off : off + 8 <= clen c -> exists v, cu64 be c off = Ok v.
Proof. intros H. apply cuint_in. cbn. lia. Qed.

Lemma csub_in c off len : off + len <= clen c ->
  csub c off len = Some {| cfile := cfile c; cpos := cpos c + off; clen := len |}.
Proof. intros H. unfold csub. apply N.leb_le in H. now rewrite H. Qed.

Lemma cbytes_from_in c : forall n off, off + N.of_nat n <= clen c -> exists l, cbytes_from c off n = Some l.
Proof.
  induction n as [|n IH]; intros off H; cbn [cbytes_from]; [eauto|].
  rewrite cget_in by lia. destruct (IH (off + 1)) as [r Hr]; [lia|]. rewrite Hr. eauto.
Qed.

Lemma cbytes_in c off len : off + len <= clen c -> exists l, cbytes c off len = Ok l.
Proof.
  intros H. unfold cbytes.
  destruct (cbytes_from_in c (N.to_nat len) off) as [l Hl]; [lia|]. rewrite Hl. cbn. eauto.
Qed.

(** ** the file cache hands out exactly what was asked for, or a status *)
Lemma get_chunk_cases alim f len pos :
  (exists c, get_chunk alim f len pos = Ok c /\ clen c = len /\ cfile c = f) \/
  (exists st, get_chunk alim f len pos = Err st StNone /\ (st = KNODATA \/ st = KSYSTEM)).
Proof.
  unfold get_chunk.
  destruct (len =? 0) eqn:E0.
  { left. eexists. split; [reflexivity|]. cbn. apply N.eqb_eq in E0. auto. }
  destruct (OFF_MAX <? Z.of_N (len - 1))%Z; [right; eexists; split; [reflexivity|auto]|].
  destruct ((0 <? pos)%Z && (OFF_MAX - pos <? Z.of_N (len - 1))%Z); [right; eexists; split; [reflexivity|auto]|].
  destruct (pos <? 0)%Z; [right; eexists; split; [reflexivity|auto]|].
  destruct (alim <? len); [right; eexists; split; [reflexivity|auto]|].
  left. eexists. split; [reflexivity|]. cbn. auto.
Qed.

Lemma get_chunk_no_ub alim f len pos : is_ub (get_chunk alim f len pos) = false.
Proof.
  destruct (get_chunk_cases alim f len pos) as [[c [H _]]|[st [H _]]]; rewrite H; reflexivity.
Qed.

Lemma pread_cases f len pos :
  (exists c, pread f len pos = Ok c /\ clen c = len) \/
  (exists st, pread f len pos = Err st StNone /\ st = KSYSTEM).
Proof.
  unfold pread.
  destruct (len =? 0) eqn:E0.
  { left. eexists. split; [reflexivity|]. cbn. apply N.eqb_eq in E0. auto. }
  destruct (pos <? 0)%Z; [right; eexists; split; reflexivity|].
  destruct (OFF_MAX - pos <? Z.of_N (len - 1))%Z; [right; eexists; split; reflexivity|].
  left. eexists. split; [reflexivity|]. reflexivity.
Qed.

(** ** outcomes that the theorems allow *)
(** "good": neither a forbidden outcome nor out of fuel, and an error carries
    an error status; the internal KDUMP_NOPROBE only for a wrong signature *)
Definition is_error (st : status) : bool := negb (status_eqb st KOK).

Definition good {A} (r : res A) : Prop :=
  is_ub r = false /\ r <> OutOfFuel /\
  forall st stg, r = Err st stg -> is_error st = true /\ (st = KNOPROBE -> stg = StSignature).

Lemma good_ok {A} (a : A) : good (Ok a).
Proof. split; [reflexivity|split; [discriminate|discriminate]]. Qed.
Lemma good_err {A} st stg : is_error st = true -> st <> KNOPROBE -> good (@Err A st stg).
Proof.
  intros H1 H2. split; [reflexivity|split; [discriminate|]].
  intros st' stg' E. injection E as <- <-. split; [exact H1|]. intros E. now elim H2.
Qed.
Lemma good_noprobe {A} : good (@Err A KNOPROBE StSignature).
Proof.
  split; [reflexivity|split; [discriminate|]].
  intros st' stg' E. injection E as <- <-. split; reflexivity.
Qed.

Lemma good_bind {A B} (r : res A) (k : A -> res B) :
  good r -> (forall a, r = Ok a -> good (k a)) -> good (bind r k).
Proof.
  intros [H1 [H2 H3]] Hk. destruct r; cbn in *; try discriminate; auto; try (exfalso; now apply H2).
  split; [reflexivity|split; [discriminate|]]. intros st' stg' E. injection E as <- <-. now apply H3.
Qed.

Lemma good_chunk_err {A} st stg : st = KNODATA \/ st = KSYSTEM -> good (@Err A st stg).
Proof. intros [->| ->]; (apply good_err; [reflexivity|discriminate]). Qed.


(** destruct the next checked read in the goal, discharging its bound by [lia] *)
Ltac rd :=
  match goal with
  | |- context [cu8 ?c ?o] =>
    let v := fresh "v" in let E := fresh "E" in
    destruct (cu8_in c o) as [v E]; [lia|rewrite E; clear E]
  | |- context [cu16 ?be ?c ?o] =>
    let v := fresh "v" in let E := fresh "E" in
    destruct (cu16_in be c o) as [v E]; [try (destruct be); lia|rewrite E; clear E]
  | |- context [cu32 ?be ?c ?o] =>
    let v := fresh "v" in let E := fresh "E" in
    destruct (cu32_in be c o) as [v E]; [lia|rewrite E; clear E]
  | |- context [cu64 ?be ?c ?o] =>
    let v := fresh "v" in let E := fresh "E" in
    destruct (cu64_in be c o) as [v E]; [lia|rewrite E; clear E]
  end.

