(** C03 (c) — [do_notes] stays inside the buffer it was given, for every
    buffer content, and stops within [size/12 + 1] iterations. *)
From Coq Require Import NArith ZArith List Bool Lia ZifyBool ZifyNat ZifyN.
From KdV Require Import Parse.Bounded Parse.BoundedProofs Parse.NotesModel.
Import ListNotations.
Local Open Scope N_scope.
Ltac Zify.zify_post_hook ::= Z.div_mod_to_equations.

Lemma roundup4_ge x : x <= roundup4 x.
Proof. unfold roundup4. lia. Qed.

(** the name and descriptor handed to the callback lie inside the buffer *)
Definition inside (c sub : chunk) : Prop :=
  cfile sub = cfile c /\ cpos c <= cpos sub /\ cpos sub + clen sub <= cpos c + clen c.

Definition note_inside (c : chunk) (n : note) : Prop :=
  inside c (n_name n) /\ inside c (n_desc n).

Lemma notes_loop be c : forall n o size acc,
  size < NHDR * N.of_nat n ->
  (size < NHDR \/ o + size <= clen c) ->
  Forall (note_inside c) acc ->
  exists l, loop_nat (notes_body be c) n (o, size, acc) = inr (Ok l) /\ Forall (note_inside c) l.
Proof.
  unfold NHDR.
  induction n as [|n IH]; intros o size acc Hfuel Hinv Hacc; [lia|].
  cbn [loop_nat]. unfold notes_body at 1, notes_body_w, wrap32. unfold NHDR.
  destruct (size <? 12) eqn:Hsz.
  { eexists. split; [reflexivity|]. rewrite <- rev_alt. now apply Forall_rev. }
  apply N.ltb_ge in Hsz. destruct Hinv as [Hinv|Hinv]; [lia|].
  destruct (cu32_in be c o) as [namesz Hn]; [lia|].
  destruct (cu32_in be c (o + 4)) as [descsz Hd]; [lia|].
  destruct (cu32_in be c (o + 8)) as [type Ht]; [lia|].
  rewrite Hn, Hd, Ht.
  destruct (size <? 12 + roundup4 namesz + descsz) eqn:Hbrk.
  { eexists. split; [reflexivity|]. rewrite <- rev_alt. now apply Forall_rev. }
  apply N.ltb_ge in Hbrk.
  pose proof (roundup4_ge namesz) as Hrn.
  rewrite (csub_in c (o + 12) namesz) by lia.
  rewrite (csub_in c (o + (12 + roundup4 namesz)) descsz) by lia.
  apply IH.
  - destruct (roundup4 descsz <=? size - (12 + roundup4 namesz)) eqn:E.
    + apply N.leb_le in E. lia.
    + lia.
  - destruct (roundup4 descsz <=? size - (12 + roundup4 namesz)) eqn:E.
    + apply N.leb_le in E. right. lia.
    + left. lia.
  - constructor; [|exact Hacc].
    split; unfold inside; cbn [n_name n_desc cfile cpos clen]; repeat split; try reflexivity; lia.
Qed.

Theorem do_notes_in_bounds : forall be c,
  exists l, do_notes be c = Ok l /\ Forall (note_inside c) l.
Proof.
  intros be c. unfold do_notes, do_notes_w. fold (notes_body be c). rewrite loopN_nat.
  destruct (notes_loop be c (N.to_nat (notes_fuel (clen c))) 0 (clen c) []) as [l [Hl Hin]].
  - unfold notes_fuel, NHDR. lia.
  - right. lia.
  - constructor.
  - rewrite Hl. eauto.
Qed.

(** the name comparison of the callbacks reads only the name *)
Lemma note_equal_ok lit n : exists b, note_equal lit n = Ok b.
Proof.
  unfold note_equal.
  destruct ((N.of_nat (length lit) <=? clen (n_name n)) && (clen (n_name n) <=? N.of_nat (length lit) + 1)).
  - destruct (cbytes_in (n_name n) 0 (clen (n_name n))) as [bs Hbs]; [lia|].
    rewrite Hbs. cbn. eauto.
  - eauto.
Qed.

Lemma noarch_note_ok n : exists a, noarch_note n = Ok a.
Proof.
  unfold noarch_note.
  destruct (note_equal_ok VMCOREINFO n) as [a ->]. cbn.
  destruct a; [eauto|].
  destruct (note_equal_ok VMCOREINFO_XEN n) as [b ->]. cbn.
  destruct b; [eauto|].
  destruct (note_equal_ok ERASEINFO n) as [c ->]. cbn.
  destruct c; eauto.
Qed.

(** number of iterations: linear in the buffer size *)
Theorem do_notes_linear_fuel : forall be c,
  exists r, loop_nat (notes_body be c) (N.to_nat (clen c / 12 + 1)) (0, clen c, []) = inr r.
Proof.
  intros be c.
  destruct (notes_loop be c (N.to_nat (clen c / 12 + 1)) 0 (clen c) []) as [l [Hl _]].
  - unfold NHDR. lia.
  - right. lia.
  - constructor.
  - rewrite Hl. eauto.
Qed.

(** with [descoff] (and hence the bounds check) in 32 bits, a 12-byte buffer
    holding a note header with [n_descsz = 0xfffffff4] passes the check
    ([12 + 0xfffffff4 = 2^32 = 0 mod 2^32]) and the descriptor handed to the
    callback lies outside the buffer *)
Theorem do_notes_narrow_refuted :
  exists be c, do_notes_w true be c = OOB.
Proof.
  exists false.
  exists {| cfile := fun p => nth (N.to_nat p) [0;0;0;0; 244;255;255;255; 0;0;0;0] 0; cpos := 0; clen := 12 |}.
  vm_compute. reflexivity.
Qed.
