(** C10 — a translation map behaves as a total function from addresses to
    methods.  Statements only; every proof is [exact <lemma>]. *)
From Coq Require Import NArith ZArith List Bool.
From KdV Require Import Base.Wrap64 Map.MapModel Map.MapSpec Map.MapProofs.
Import ListNotations.
Local Open Scope N_scope.

(** search returns the function's value for every address *)
Theorem C10_search_is_denote : forall m addr,
  tiles m -> addr < W -> map_search m addr = denote m addr.
Proof. exact search_is_denote. Qed.
Print Assumptions C10_search_is_denote.

(** setting a range changes the function on exactly that range and nowhere
    else (for every map that tiles the space, every start, length, method,
    including ranges that touch 0 or 2^64-1) *)
Theorem C10_set_pointwise : forall m addr r,
  tiles m -> addr + endoff r < W ->
  exists m', map_set m addr r true = Ok m' /\
    forall x, denote m' x = set_spec (denote m) addr (endoff r) (meth r) x.
Proof. exact set_pointwise. Qed.
Print Assumptions C10_set_pointwise.

(** the exposed range list always tiles [0, 2^64): non-empty, lengths
    ([endoff + 1 >= 1]) add up to exactly 2^64, every [endoff] fits 64 bits *)
Theorem C10_set_tiles : forall m addr r ok m',
  tiles m -> addr + endoff r < W -> map_set m addr r ok = Ok m' ->
  total m' = W /\ m' <> [] /\ Forall (fun q => endoff q < W) m'.
Proof. exact set_tiles. Qed.
Print Assumptions C10_set_tiles.

(** no array access outside the range array is reachable *)
Theorem C10_set_no_oob : forall m addr r ok,
  tiles m -> addr + endoff r < W -> map_set m addr r ok <> OOB.
Proof. exact set_no_oob. Qed.
Print Assumptions C10_set_no_oob.

(** the reallocated size is exactly what the stores need *)
Theorem C10_set_length : forall m addr r m',
  tiles m -> addr + endoff r < W -> map_set m addr r true = Ok m' ->
  exists delta, set_delta m addr r = Some delta /\
    Z.of_nat (length m') = (Z.of_nat (length m) + delta)%Z.
Proof. exact set_length. Qed.
Print Assumptions C10_set_length.

(** out of memory happens only when the array must grow (and then nothing is
    stored: the model returns no new map, the caller keeps the old one) *)
Theorem C10_set_nomem_iff_grow : forall m addr r,
  tiles m -> addr + endoff r < W ->
  exists delta, set_delta m addr r = Some delta /\
    (map_set m addr r false = NoMem <-> (0 < delta)%Z).
Proof. exact set_nomem_iff_grow. Qed.
Print Assumptions C10_set_nomem_iff_grow.

(** copying yields an equal map *)
Theorem C10_copy_equal : forall m, map_copy m true true = Some m.
Proof. exact map_copy_eq. Qed.
Print Assumptions C10_copy_equal.

(** all of the above along every history of sets (with any allocation
    failure schedule), searches and copies, from any tiled map *)
Theorem C10_history : forall ops m,
  tiles m -> Forall op_ok ops -> run_post m ops (run m ops).
Proof. exact history_refines. Qed.
Print Assumptions C10_history.

(** non-vacuity: the empty map tiles; a concrete history reaches a
    three-range map touching both ends of the address space *)
Example C10_nonvacuous :
  tiles [] /\
  List.map (fun '(_, m) => List.map (fun r => (endoff r, meth r)) m)
    (run [] [OpSet 0 0xfff 1 true; OpSet 0xfffffffffffff000 0xfff 1 true; OpSearch 0x1000])
  = [ [(0xfff, 1%Z); (0xffffffffffffefff, (-1)%Z)];
      [(0xfff, 1%Z); (0xffffffffffffdfff, (-1)%Z); (0xfff, 1%Z)];
      [(0xfff, 1%Z); (0xffffffffffffdfff, (-1)%Z); (0xfff, 1%Z)] ].
Proof. split; [exact tiles_nil|vm_compute; reflexivity]. Qed.
