(** C09, proofs: the chain interpreter of sys.c (Sys/ChainInterp.v) against
    the conversion spec (Sys/SysSpec.v). *)
From Coq Require Import NArith ZArith List Bool Lia.
From KdV Require Import Base.Wrap64 Map.MapModel Sys.ChainInterp Sys.SysSpec.
From KdV Require Xlat.Step Hist.ReadCache Hist.ReadCacheProofs.
Import ListNotations.
Local Open Scope N_scope.

(** * The mask-based 64-bit arithmetic of the model is Wrap64's *)

Lemma MASK64_ones : MASK64 = N.ones 64.
Proof. reflexivity. Qed.

Lemma xw_w x : xw x = w x.
Proof.
  unfold xw, w. rewrite MASK64_ones, N.land_ones.
  rewrite W_val. reflexivity.
Qed.

Lemma xadd_wadd a b : xadd a b = wadd a b.
Proof. unfold xadd, wadd. apply xw_w. Qed.

Lemma xmul_wmul a b : xmul a b = wmul a b.
Proof. unfold xmul, wmul. apply xw_w. Qed.

Lemma xshl_wshl a k : xshl a k = wshl a k.
Proof. unfold xshl, wshl. apply xw_w. Qed.

Lemma xsub_wsub a b : xsub a b = wsub a b.
Proof. unfold xsub, wsub. rewrite !xw_w. reflexivity. Qed.

Lemma xmap_search_from_eq m : forall raddr addr,
  xmap_search_from m raddr addr = map_search_from m raddr addr.
Proof.
  induction m as [|r m IH]; intros raddr addr; cbn [xmap_search_from map_search_from].
  - reflexivity.
  - rewrite !xadd_wadd. destruct (addr <=? wadd raddr (endoff r)); [reflexivity|apply IH].
Qed.

(** the model's map lookup is C10's [map_search] (hence, under C10's
    hypotheses, the total function the map denotes) *)
Lemma xmap_search_eq m addr : xmap_search m addr = map_search m addr.
Proof. apply xmap_search_from_eq. Qed.

Lemma wadd_comm a b : wadd a b = wadd b a.
Proof. unfold wadd. now rewrite N.add_comm. Qed.

(** * Capabilities *)

Lemma caps_has_true caps a : caps_has caps a = Some true <-> in_caps caps a.
Proof.
  unfold caps_has, in_caps.
  destruct ((0 <=? a)%Z && (a <? 64)%Z) eqn:E.
  - apply andb_prop in E. destruct E as [E1 E2].
    apply Z.leb_le in E1. apply Z.ltb_lt in E2.
    split; [intros [= H]; auto|intros [_ H]; now rewrite H].
  - split; [discriminate|]. intros [[H1 H2] _].
    apply Z.leb_le in H1. apply Z.ltb_lt in H2. rewrite H1, H2 in E. discriminate.
Qed.

Lemma in_capsb_spec caps a : in_capsb caps a = true <-> in_caps caps a.
Proof.
  unfold in_capsb, in_caps. rewrite !andb_true_iff, Z.leb_le, Z.ltb_lt. tauto.
Qed.

Lemma caps_has_in_capsb caps a : caps_has caps a = Some true <-> in_capsb caps a = true.
Proof. now rewrite caps_has_true, in_capsb_spec. Qed.

(** * In-flight keys *)

Lemma chain_eqb_eq a b : chain_eqb a b = true <-> a = b.
Proof. destruct a, b; cbn; split; congruence. Qed.

Lemma key_eqb_eq a b : key_eqb a b = true <-> a = b.
Proof.
  destruct a as [[aa asa] ca], b as [[ab asb] cb]. cbn [key_eqb].
  rewrite !andb_true_iff, N.eqb_eq, Z.eqb_eq, chain_eqb_eq.
  split; [intros [[-> ->] ->]; reflexivity|intros [= -> -> ->]; auto].
Qed.

Lemma existsb_key k l : existsb (key_eqb k) l = true <-> In k l.
Proof.
  rewrite existsb_exists. split.
  - intros [x [Hin He]]. apply key_eqb_eq in He. now subst.
  - intros H. exists k. split; [assumption|now apply key_eqb_eq].
Qed.

(** every map index in the chain tables is one of the five system maps *)
Lemma chain_tbl_maps c :
  Forall (fun alts => Forall (fun i => In i ALL_MAPS) alts) (chain_tbl c).
Proof.
  destruct c; cbn [chain_tbl]; repeat (apply Forall_cons || apply Forall_nil);
    vm_compute; tauto.
Qed.

(** * The interpreter computes compositions (soundness w.r.t. [convB]) *)

Lemma lookup_find_spec tbl endoff addr orig dest :
  lookup_find tbl endoff addr = Some (orig, dest) ->
  In (orig, dest) tbl /\ orig <= addr /\ addr <= orig + endoff.
Proof.
  induction tbl as [|[o d] tl IH]; cbn [lookup_find]; [discriminate|].
  destruct ((o <=? addr) && (addr <=? xadd o endoff)) eqn:E.
  - intros [= -> ->]. apply andb_prop in E. destruct E as [E1 E2].
    apply N.leb_le in E1. apply N.leb_le in E2.
    split; [now left|]. split; [assumption|].
    rewrite xadd_wadd in E2. unfold wadd, w in E2.
    pose proof (N.mod_le (orig + endoff) W W_nz). lia.
  - intros H. destruct (IH H) as [H1 H2]. split; [now right|assumption].
Qed.

Lemma path_mono s fmt_first fmt_next fmt_ptesz wf rd caps len a b :
  path s fmt_first fmt_next fmt_ptesz wf rd caps len a b ->
  forall len', (len <= len')%nat -> path s fmt_first fmt_next fmt_ptesz wf rd caps len' a b.
Proof.
  induction 1 as [len a Hc|len a c b Hn Hs Hp IH]; intros len' Hle.
  - now constructor.
  - destruct len' as [|l']; [lia|]. eapply path_step; try eassumption. apply IH. lia.
Qed.

Section Sound.
  Variable s : sys.
  Variable rcaps : N.
  Variable mem : Z -> N -> N -> option (Z * N).
  Variable fmt_first : Step.aspace -> N -> Step.pform -> N -> Step.status * Step.step.
  Variable fmt_next : Step.aspace -> N -> Step.pform -> Step.step -> N -> Step.status * Step.step.
  Variable fmt_ptesz : Step.pform -> option N.
  Variable wfuel : nat.
  Variable nested : list key -> fulladdr -> cres.
  (** what nested conversions are known to compute *)
  Variable C : fulladdr -> fulladdr -> Prop.
  Hypothesis nested_sound : forall infl fa x, nested infl fa = Call x -> C fa x.
  Hypothesis C_refl : forall fa, in_caps rcaps (fa_as fa) -> C fa fa.

  Definition rdC (fa : fulladdr) (sz v : N) : Prop :=
    exists fa', C fa fa' /\ mem (fa_as fa') (fa_addr fa') sz = Some (ST_OK, v).

  Notation xlatC := (xlat fmt_first fmt_next fmt_ptesz wfuel rdC).
  Notation step1C := (step1 s fmt_first fmt_next fmt_ptesz wfuel rdC).
  Notation pathC := (path s fmt_first fmt_next fmt_ptesz wfuel rdC).

  Lemma do_read_sound fa sz v :
    do_read mem fa sz = RVal v -> mem (fa_as fa) (fa_addr fa) sz = Some (ST_OK, v).
  Proof.
    unfold do_read. destruct (mem (fa_as fa) (fa_addr fa) sz) as [[st v']|]; [|discriminate].
    destruct (st =? ST_OK)%Z eqn:E; [|discriminate].
    intros [= ->]. apply Z.eqb_eq in E. now subst.
  Qed.

  Lemma read_sound infl fa sz v :
    read rcaps mem nested infl fa sz = RVal v -> rdC fa sz v.
  Proof.
    unfold read. destruct (caps_has rcaps (fa_as fa)) as [[|]|] eqn:Ec; [| |discriminate].
    - intros H. apply do_read_sound in H.
      exists fa. split; [apply C_refl; now apply caps_has_true|exact H].
    - destruct (nested infl fa) as [x|st| |] eqn:En; try discriminate.
      intros H. apply do_read_sound in H.
      exists x. split; [eapply nested_sound; eassumption|exact H].
  Qed.

  Lemma pgt_levels_sound infl tas pte64 mask sh0 idxs : forall base b,
    pgt_levels rcaps mem nested infl tas pte64 mask sh0 idxs base = WOk b ->
    tables rdC tas pte64 mask sh0 idxs base b.
  Proof.
    induction idxs as [|i tl IH]; intros base b; cbn [pgt_levels].
    - intros [= ->]. constructor.
    - rewrite xadd_wadd, xmul_wmul.
      destruct (read rcaps mem nested infl _ _) as [raw|st| |] eqn:Er; try discriminate.
      destruct (N.ldiff raw mask =? 0) eqn:Ez; [discriminate|].
      intros H. apply N.eqb_neq in Ez. rewrite xshl_wshl in H.
      eapply tables_cons; [eapply read_sound; exact Er|exact Ez|now apply IH].
  Qed.

  Lemma st_of_ok st : st_of st = Some ST_OK -> st = Step.OK.
  Proof.
    destruct st; cbn; intro H; try discriminate; auto.
    destruct (code =? ST_OK)%Z eqn:E; [discriminate|].
    injection H as H. apply Z.eqb_neq in E. contradiction.
  Qed.

  Lemma fwalk_loop_sound infl tgt mask pf : forall wf st b,
    fwalk_loop rcaps mem fmt_next fmt_ptesz nested wf infl tgt mask pf st = WOk b ->
    fwalk fmt_next fmt_ptesz rdC tgt mask pf wf st b.
  Proof.
    induction wf as [|wf IH]; intros st b; cbn [fwalk_loop]; [discriminate|].
    destruct (Step.s_remain st) as [|r] eqn:Er; [discriminate|].
    destruct (Step.advance st r) as [s1|] eqn:Ea; [|discriminate].
    destruct r as [|r'].
    - intros [= <-]. eapply fwalk_last; eassumption.
    - assert (Hcont : forall raw,
        match fmt_ptesz pf with
        | Some sz => rdC (FA (Step.s_base s1) (as_of (Step.s_as s1))) sz raw
        | None => raw = 0
        end ->
        (let '(st0, s2) := fmt_next tgt mask pf s1 raw in
         match st_of st0 with
         | Some e => if (e =? ST_OK)%Z
                     then fwalk_loop rcaps mem fmt_next fmt_ptesz nested wf infl tgt mask pf s2
                     else WErr e
         | None => WUB
         end) = WOk b ->
        fwalk fmt_next fmt_ptesz rdC tgt mask pf (S wf) st b).
      { intros raw Hraw. destruct (fmt_next tgt mask pf s1 raw) as [st0 s2] eqn:En.
        destruct (st_of st0) as [e|] eqn:Es; [|discriminate].
        destruct (e =? ST_OK)%Z eqn:Ee; [|discriminate].
        apply Z.eqb_eq in Ee. subst e. intros H.
        assert (st0 = Step.OK) by (now apply st_of_ok). subst st0.
        eapply fwalk_level; try eassumption. now apply IH. }
      destruct (fmt_ptesz pf) as [sz|] eqn:Ep.
      + destruct (read rcaps mem nested infl _ sz) as [raw|e| |] eqn:Erd; try discriminate.
        apply Hcont. eapply read_sound; exact Erd.
      + apply Hcont. reflexivity.
  Qed.

  Lemma walk_sound infl m addr b :
    walk rcaps mem fmt_first fmt_next fmt_ptesz wfuel nested infl m addr = WOk b -> xlatC m addr b.
  Proof.
    destruct m as [| |f|tas off|tas root pte64 mask fields|tgt ras root mask pf|tas endoff tbl
                   |tas base shift elemsz valsz];
      cbn [walk]; try discriminate.
    - destruct (f addr) as [st fa] eqn:Ef. destruct (st =? ST_OK)%Z eqn:E; [|discriminate].
      intros [= ->]. apply Z.eqb_eq in E. subst st. now constructor.
    - intros [= <-]. rewrite xadd_wadd, wadd_comm. constructor.
    - destruct (fa_as root =? AS_NOADDR)%Z eqn:En; [discriminate|].
      destruct (8 <? length fields)%nat; [discriminate|].
      destruct (split_fields fields addr) as [[idx top]|] eqn:Es; [|discriminate].
      destruct (top =? 0) eqn:Et; cbn [negb]; [|discriminate].
      apply N.eqb_eq in Et. subst top. apply Z.eqb_neq in En.
      destruct idx as [|i0 upper].
      + intros [= <-].
        exact (xlat_pgt fmt_first fmt_next fmt_ptesz wfuel rdC tas root pte64 mask fields addr [] root
                        En Es (tables_nil rdC _ _ _ _ _)).
      + destruct (pgt_levels rcaps mem nested infl tas pte64 mask (hd 0 fields) (rev upper) root)
          as [b'|st| |] eqn:Ep; try discriminate.
        intros [= <-]. rewrite xadd_wadd.
        apply pgt_levels_sound in Ep.
        exact (xlat_pgt fmt_first fmt_next fmt_ptesz wfuel rdC tas root pte64 mask fields addr
                        (i0 :: upper) b' En Es Ep).
    - destruct (fmt_first ras root pf addr) as [st0 st] eqn:Ef.
      destruct (st_of st0) as [e|] eqn:Es; [|discriminate].
      destruct (e =? ST_OK)%Z eqn:Ee; cbn [negb]; [|discriminate].
      apply Z.eqb_eq in Ee. subst e.
      assert (st0 = Step.OK) by (now apply st_of_ok). subst st0.
      destruct (Step.s_remain st) as [|r] eqn:Er.
      + intros [= <-]. now apply xlat_pgtf_done.
      + intros H. apply fwalk_loop_sound in H.
        eapply xlat_pgtf_walk; [exact Ef|rewrite Er; discriminate|exact H].
    - destruct (lookup_find tbl endoff addr) as [[orig dest]|] eqn:El; [|discriminate].
      intros [= <-]. rewrite xadd_wadd, xsub_wsub.
      destruct (lookup_find_spec _ _ _ _ _ El) as [H1 [H2 H3]].
      now constructor.
    - destruct (64 <=? shift) eqn:Es; [discriminate|]. apply N.leb_gt in Es.
      rewrite xadd_wadd, xmul_wmul.
      destruct ((valsz =? 4) || (valsz =? 8)) eqn:Ev; [|discriminate].
      destruct (read rcaps mem nested infl _ valsz) as [v|st| |] eqn:Er; try discriminate.
      intros [= <-]. rewrite xadd_wadd, xshl_wshl.
      apply orb_prop in Ev. rewrite !N.eqb_eq in Ev.
      constructor; [assumption|assumption|]. eapply read_sound; exact Er.
  Qed.

  Lemma do_alts_sound infl caps alts : forall pa,
    Forall (fun i => In i ALL_MAPS) alts ->
    match do_alts rcaps mem fmt_first fmt_next fmt_ptesz wfuel nested s infl caps alts pa with
    | AReturn (Call b) => step1C pa b /\ in_caps caps (fa_as b)
    | ABreak pa' => step1C pa pa' /\ caps_has caps (fa_as pa') = Some false
    | _ => True
    end.
  Proof.
    induction alts as [|mapidx rest IH]; intros pa Hall; cbn [do_alts]; [exact I|].
    inversion Hall as [|? ? Hin Hrest]; subst.
    destruct (fa_as pa =? map_expect_as mapidx)%Z eqn:Eas; cbn [negb]; [|now apply IH].
    apply Z.eqb_eq in Eas.
    destruct (s_map s mapidx) as [mp|] eqn:Emp; [|now apply IH].
    destruct (xmap_search mp (fa_addr pa) =? NONE)%Z eqn:En; [now apply IH|].
    destruct (get_meth s (xmap_search mp (fa_addr pa))) as [m|] eqn:Em; [|exact I].
    rewrite xmap_search_eq in Em.
    assert (Hstep : forall b, xlatC m (fa_addr pa) b -> step1C pa b).
    { intros b Hx. eapply step1_map; eassumption. }
    assert (Hwalk :
      match (match walk rcaps mem fmt_first fmt_next fmt_ptesz wfuel nested infl m (fa_addr pa) with
             | WOk b =>
                 match caps_has caps (fa_as b) with
                 | Some true => AReturn (Call b)
                 | Some false => ABreak b
                 | None => AReturn UB
                 end
             | WErr st =>
                 if ((st =? ST_NOMETH)%Z || (st =? ST_NODATA)%Z)%bool
                 then do_alts rcaps mem fmt_first fmt_next fmt_ptesz wfuel nested s infl caps rest pa
                 else AReturn (Err st)
             | WFuel => AReturn OutOfFuel
             | WUB => AReturn UB
             end) with
      | AReturn (Call b) => step1C pa b /\ in_caps caps (fa_as b)
      | ABreak pa' => step1C pa pa' /\ caps_has caps (fa_as pa') = Some false
      | _ => True
      end).
    { destruct (walk rcaps mem fmt_first fmt_next fmt_ptesz wfuel nested infl m (fa_addr pa))
        as [b|st| |] eqn:Ew; try exact I.
      - apply walk_sound in Ew.
        destruct (caps_has caps (fa_as b)) as [[|]|] eqn:Ec; try exact I.
        + split; [now apply Hstep|now apply caps_has_true].
        + split; [now apply Hstep|exact Ec].
      - destruct ((st =? ST_NOMETH)%Z || (st =? ST_NODATA)%Z)%bool; [now apply IH|exact I]. }
    destruct m as [| |f|tas off|tas root pte64 mask fields|tgt ras root mask pf|tas endoff tbl
                   |tas base shift elemsz valsz]; try exact Hwalk.
    (* the LINEAR shortcut *)
    assert (Hx : xlatC (MLinear tas off) (fa_addr pa) (FA (xadd (fa_addr pa) off) tas)).
    { rewrite xadd_wadd. constructor. }
    destruct (caps_has caps tas) as [[|]|] eqn:Ec; try exact I.
    - split; [now apply Hstep|now apply caps_has_true].
    - split; [now apply Hstep|exact Ec].
  Qed.

  Lemma caps_has_false_not caps a : caps_has caps a = Some false -> ~ in_caps caps a.
  Proof. intros H Hc. apply caps_has_true in Hc. congruence. Qed.

  Lemma do_chain_sound infl caps ch : forall pa b,
    Forall (fun alts => Forall (fun i => In i ALL_MAPS) alts) ch ->
    caps_has caps (fa_as pa) = Some false ->
    do_chain rcaps mem fmt_first fmt_next fmt_ptesz wfuel nested s infl caps ch pa = Call b ->
    pathC caps (length ch) pa b.
  Proof.
    induction ch as [|alts rest IH]; intros pa b Hall Hpa; cbn [do_chain]; [discriminate|].
    inversion Hall as [|? ? Ha Hrest]; subst.
    pose proof (do_alts_sound infl caps alts pa Ha) as Hs.
    destruct (do_alts rcaps mem fmt_first fmt_next fmt_ptesz wfuel nested s infl caps alts pa)
      as [r|pa'|].
    - intros ->. destruct Hs as [Hs Hc]. cbn [length].
      eapply path_step; [now apply caps_has_false_not|exact Hs|now apply path_done].
    - intros H. destruct Hs as [Hs Hc]. cbn [length].
      eapply path_step; [now apply caps_has_false_not|exact Hs|now apply IH].
    - intros H. cbn [length]. eapply path_mono; [apply IH; eassumption|lia].
  Qed.
End Sound.

(** ** [op_core]: success is a conversion of read-nesting depth at most the
    fuel and of at most two methods in a row, ending in a usable space *)

Lemma op_pre_call lim osys infl caps a b :
  op_pre lim osys infl caps a = inl (Call b) -> b = a /\ in_caps caps (fa_as a).
Proof.
  unfold op_pre. destruct (caps_has caps (fa_as a)) as [[|]|] eqn:Ec; try discriminate.
  - intros [= <-]. split; [reflexivity|now apply caps_has_true].
  - destruct (N.land caps 7 =? 0); [discriminate|].
    destruct osys as [s|]; [|discriminate].
    destruct (choose_chain caps (fa_as a)) as [c|]; [|discriminate].
    destruct (existsb _ infl); [discriminate|].
    destruct (over_limit lim infl); discriminate.
Qed.

Lemma op_pre_inr lim osys infl caps a s k c :
  op_pre lim osys infl caps a = inr (s, k, c) ->
  osys = Some s /\ k = (fa_addr a, fa_as a, c) /\
  caps_has caps (fa_as a) = Some false /\ N.land caps 7 <> 0 /\
  choose_chain caps (fa_as a) = Some c /\
  ~ In k infl /\ over_limit lim infl = false.
Proof.
  unfold op_pre. destruct (caps_has caps (fa_as a)) as [[|]|] eqn:Ec; try discriminate.
  destruct (N.land caps 7 =? 0) eqn:E7; [discriminate|].
  destruct osys as [s'|]; [|discriminate].
  destruct (choose_chain caps (fa_as a)) as [c'|]; [|discriminate].
  destruct (existsb _ infl) eqn:Ee; [discriminate|].
  destruct (over_limit lim infl) eqn:Eo; [discriminate|].
  intros [= <- <- <-]. apply N.eqb_neq in E7.
  repeat split; try assumption; try reflexivity.
  intros Hin. apply existsb_key in Hin. congruence.
Qed.

Lemma chain_tbl_len c : (length (chain_tbl c) <= 2)%nat.
Proof. destruct c; cbn; lia. Qed.

Section OpSound.
  Variable lim : option nat.
  Variable s : sys.
  Variable rcaps : N.
  Variable mem : Z -> N -> N -> option (Z * N).
  Variable fmt_first : Step.aspace -> N -> Step.pform -> N -> Step.status * Step.step.
  Variable fmt_next : Step.aspace -> N -> Step.pform -> Step.step -> N -> Step.status * Step.step.
  Variable fmt_ptesz : Step.pform -> option N.
  Variable wfuel : nat.

  Notation convB' := (convB s rcaps mem fmt_first fmt_next fmt_ptesz wfuel).
  Notation op_core' := (op_core lim (Some s) rcaps mem fmt_first fmt_next fmt_ptesz wfuel).

  Lemma convB_refl d len caps a : in_caps caps (fa_as a) -> convB' d len caps a a.
  Proof.
    intros H. destruct d; cbn [convB]; [now split|now apply path_done].
  Qed.

  Theorem op_core_sound : forall fuel infl caps a b,
    op_core' fuel infl caps a = Call b -> convB' fuel 2 caps a b.
  Proof.
    induction fuel as [|f IH]; intros infl caps a b; cbn [op_core]; unfold op_body.
    - destruct (op_pre lim (Some s) infl caps a) as [r|] eqn:Ep; [|discriminate].
      intros ->. apply op_pre_call in Ep. destruct Ep as [-> Hc]. now split.
    - destruct (op_pre lim (Some s) infl caps a) as [r|[[s' k] c]] eqn:Ep.
      + intros ->. apply op_pre_call in Ep. destruct Ep as [-> Hc]. now apply convB_refl.
      + apply op_pre_inr in Ep. destruct Ep as [[= <-] [_ [Hcf _]]].
        intros H. cbn [convB].
        eapply path_mono; [|apply (chain_tbl_len c)].
        assert (Hn : forall i fa x, op_core' f i rcaps fa = Call x -> convB' f 2 rcaps fa x)
          by (intros i fa x Hx; exact (IH i rcaps fa x Hx)).
        assert (Hr : forall fa, in_caps rcaps (fa_as fa) -> convB' f 2 rcaps fa fa)
          by (intros; now apply convB_refl).
        exact (do_chain_sound s rcaps mem fmt_first fmt_next fmt_ptesz wfuel
                 (fun i a0 => op_core' f i rcaps a0) (convB' f 2 rcaps) Hn Hr (k :: infl) caps (chain_tbl c) a b
                 (chain_tbl_maps c) Hcf H).
  Qed.

  Corollary op_core_conv fuel infl caps a b :
    op_core' fuel infl caps a = Call b -> conv s rcaps mem fmt_first fmt_next fmt_ptesz wfuel caps a b.
  Proof. intros H. exists fuel, 2%nat. eapply op_core_sound; exact H. Qed.
End OpSound.

(** * Everything else holds for any page-table format *)
Section AnyFormat.
  Variable fmt_first : Step.aspace -> N -> Step.pform -> N -> Step.status * Step.step.
  Variable fmt_next : Step.aspace -> N -> Step.pform -> Step.step -> N -> Step.status * Step.step.
  Variable fmt_ptesz : Step.pform -> option N.
  Variable wfuel : nat.

(** without a translation system only pass-through succeeds *)
Lemma op_core_nosys lim rcaps mem fuel infl caps a b :
  op_core lim None rcaps mem fmt_first fmt_next fmt_ptesz wfuel fuel infl caps a = Call b -> b = a /\ in_caps caps (fa_as a).
Proof.
  destruct fuel; cbn [op_core]; unfold op_body;
    destruct (op_pre lim None infl caps a) as [r|[[s' k] c]] eqn:Ep;
    try discriminate;
    try (intros ->; now apply op_pre_call in Ep);
    apply op_pre_inr in Ep; destruct Ep as [Hs _]; discriminate.
Qed.

(** the result lies in a usable address space, whatever serves nested calls *)
Lemma do_alts_caps rcaps mem nested s infl caps alts : forall pa b,
  do_alts rcaps mem fmt_first fmt_next fmt_ptesz wfuel nested s infl caps alts pa = AReturn (Call b) -> in_caps caps (fa_as b).
Proof.
  induction alts as [|mapidx rest IH]; intros pa b; cbn [do_alts]; [discriminate|].
  destruct (negb _); [apply IH|].
  destruct (s_map s mapidx) as [mp|]; [|apply IH].
  destruct (_ =? NONE)%Z; [apply IH|].
  destruct (get_meth s _) as [m|]; [|discriminate].
  assert (Hw : forall b,
    match walk rcaps mem fmt_first fmt_next fmt_ptesz wfuel nested infl m (fa_addr pa) with
    | WOk b0 => match caps_has caps (fa_as b0) with
                | Some true => AReturn (Call b0) | Some false => ABreak b0 | None => AReturn UB end
    | WErr st => if ((st =? ST_NOMETH)%Z || (st =? ST_NODATA)%Z)%bool
                 then do_alts rcaps mem fmt_first fmt_next fmt_ptesz wfuel nested s infl caps rest pa else AReturn (Err st)
    | WFuel => AReturn OutOfFuel
    | WUB => AReturn UB
    end = AReturn (Call b) -> in_caps caps (fa_as b)).
  { intros b0. destruct (walk rcaps mem fmt_first fmt_next fmt_ptesz wfuel nested infl m (fa_addr pa)) as [b1|st| |]; try discriminate.
    - destruct (caps_has caps (fa_as b1)) as [[|]|] eqn:Ec; try discriminate.
      intros [= <-]. now apply caps_has_true.
    - destruct (_ || _)%bool; [apply IH|discriminate]. }
  destruct m; try apply Hw.
  destruct (caps_has caps tas) as [[|]|] eqn:Ec; try discriminate.
  intros [= <-]. now apply caps_has_true.
Qed.

Lemma do_chain_caps rcaps mem nested s infl caps ch : forall pa b,
  do_chain rcaps mem fmt_first fmt_next fmt_ptesz wfuel nested s infl caps ch pa = Call b -> in_caps caps (fa_as b).
Proof.
  induction ch as [|alts rest IH]; intros pa b; cbn [do_chain]; [discriminate|].
  destruct (do_alts rcaps mem fmt_first fmt_next fmt_ptesz wfuel nested s infl caps alts pa) as [r|pa'|] eqn:Ea.
  - intros ->. eapply do_alts_caps; exact Ea.
  - apply IH.
  - apply IH.
Qed.

Theorem op_core_in_caps lim osys rcaps mem fuel infl caps a b :
  op_core lim osys rcaps mem fmt_first fmt_next fmt_ptesz wfuel fuel infl caps a = Call b -> in_caps caps (fa_as b).
Proof.
  destruct fuel; cbn [op_core]; unfold op_body;
    destruct (op_pre lim osys infl caps a) as [r|[[s' k] c]] eqn:Ep; try discriminate.
  - intros ->. apply op_pre_call in Ep. now destruct Ep as [-> ?].
  - intros ->. apply op_pre_call in Ep. now destruct Ep as [-> ?].
  - apply do_chain_caps.
Qed.

(** ** Pass-through *)
Theorem op_core_passthrough lim osys rcaps mem fuel infl caps a :
  in_caps caps (fa_as a) -> op_core lim osys rcaps mem fmt_first fmt_next fmt_ptesz wfuel fuel infl caps a = Call a.
Proof.
  intros H. apply caps_has_true in H.
  destruct fuel; cbn [op_core]; unfold op_body, op_pre; rewrite H; reflexivity.
Qed.

(** ** A failure always carries a non-zero status *)
Section ErrNonzero.
  Variable rcaps : N.
  Variable mem : Z -> N -> N -> option (Z * N).
  Variable nested : list key -> fulladdr -> cres.
  Hypothesis nested_err : forall infl fa st, nested infl fa = Err st -> st <> ST_OK.

  Lemma read_err infl fa sz st :
    read rcaps mem nested infl fa sz = RErr st -> st <> ST_OK.
  Proof.
    unfold read, do_read.
    destruct (caps_has rcaps (fa_as fa)) as [[|]|]; [| |discriminate].
    - destruct (mem _ _ _) as [[st' v]|]; [|discriminate].
      destruct (st' =? ST_OK)%Z eqn:E; [discriminate|].
      intros [= <-]. now apply Z.eqb_neq.
    - destruct (nested infl fa) as [x|st'| |] eqn:En; try discriminate.
      + destruct (mem _ _ _) as [[st' v]|]; [|discriminate].
        destruct (st' =? ST_OK)%Z eqn:E; [discriminate|].
        intros [= <-]. now apply Z.eqb_neq.
      + intros [= <-]. eapply nested_err; exact En.
  Qed.

  Lemma pgt_levels_err infl tas pte64 mask sh0 idxs : forall base st,
    pgt_levels rcaps mem nested infl tas pte64 mask sh0 idxs base = WErr st -> st <> ST_OK.
  Proof.
    induction idxs as [|i tl IH]; intros base st; cbn [pgt_levels]; [discriminate|].
    destruct (read rcaps mem nested infl _ _) as [raw|st'| |] eqn:Er; try discriminate.
    - destruct (N.ldiff raw mask =? 0); [intros [= <-]; discriminate|apply IH].
    - intros [= <-]. eapply read_err; exact Er.
  Qed.

  Lemma fwalk_loop_err infl tgt mask pf : forall wf s st,
    fwalk_loop rcaps mem fmt_next fmt_ptesz nested wf infl tgt mask pf s = WErr st -> st <> ST_OK.
  Proof.
    induction wf as [|wf IH]; intros s st; cbn [fwalk_loop]; [discriminate|].
    destruct (Step.s_remain s) as [|r]; [discriminate|].
    destruct (Step.advance s r) as [s1|]; [|discriminate].
    destruct r as [|r']; [discriminate|].
    assert (Hcont : forall raw,
      (let '(st0, s2) := fmt_next tgt mask pf s1 raw in
       match st_of st0 with
       | Some e => if (e =? ST_OK)%Z
                   then fwalk_loop rcaps mem fmt_next fmt_ptesz nested wf infl tgt mask pf s2
                   else WErr e
       | None => WUB
       end) = WErr st -> st <> ST_OK).
    { intros raw. destruct (fmt_next tgt mask pf s1 raw) as [st0 s2].
      destruct (st_of st0) as [e|]; [|discriminate].
      destruct (e =? ST_OK)%Z eqn:Ee; [apply IH|].
      intros [= <-]. now apply Z.eqb_neq. }
    destruct (fmt_ptesz pf) as [sz|]; [|apply Hcont].
    destruct (read rcaps mem nested infl _ sz) as [raw|e| |] eqn:Erd; try discriminate.
    - apply Hcont.
    - intros [= <-]. eapply read_err; exact Erd.
  Qed.

  Lemma walk_err infl m addr st :
    walk rcaps mem fmt_first fmt_next fmt_ptesz wfuel nested infl m addr = WErr st -> st <> ST_OK.
  Proof.
    destruct m as [| |f|tas off|tas root pte64 mask fields|tgt ras root mask pf|tas endoff tbl|tas base shift elemsz valsz];
      cbn [walk]; try discriminate; try (intros [= <-]; discriminate).
    - destruct (f addr) as [st' fa]. destruct (st' =? ST_OK)%Z eqn:E; [discriminate|].
      intros [= <-]. now apply Z.eqb_neq.
    - destruct (fa_as root =? AS_NOADDR)%Z; [intros [= <-]; discriminate|].
      destruct (8 <? length fields)%nat; [intros [= <-]; discriminate|].
      destruct (split_fields fields addr) as [[idx top]|]; [|discriminate].
      destruct (negb (top =? 0)); [intros [= <-]; discriminate|].
      destruct idx as [|i0 upper]; [discriminate|].
      destruct (pgt_levels rcaps mem nested infl tas pte64 mask (hd 0 fields) (rev upper) root)
        as [b'|st'| |] eqn:Ep; try discriminate.
      intros [= <-]. eapply pgt_levels_err; exact Ep.
    - destruct (fmt_first ras root pf addr) as [st0 s0].
      destruct (st_of st0) as [e|]; [|discriminate].
      destruct (e =? ST_OK)%Z eqn:Ee; cbn [negb].
      + destruct (Step.s_remain s0); [discriminate|]. apply fwalk_loop_err.
      + intros [= <-]. now apply Z.eqb_neq.
    - destruct (lookup_find tbl endoff addr) as [[orig dest]|]; [discriminate|].
      intros [= <-]; discriminate.
    - destruct (64 <=? shift); [discriminate|].
      destruct ((valsz =? 4) || (valsz =? 8)); [|intros [= <-]; discriminate].
      destruct (read rcaps mem nested infl _ valsz) as [v|st'| |] eqn:Er; try discriminate.
      intros [= <-]. eapply read_err; exact Er.
  Qed.

  Lemma do_alts_err s infl caps alts : forall pa st,
    do_alts rcaps mem fmt_first fmt_next fmt_ptesz wfuel nested s infl caps alts pa = AReturn (Err st) -> st <> ST_OK.
  Proof.
    induction alts as [|mapidx rest IH]; intros pa st; cbn [do_alts]; [discriminate|].
    destruct (negb _); [apply IH|].
    destruct (s_map s mapidx) as [mp|]; [|apply IH].
    destruct (_ =? NONE)%Z; [apply IH|].
    destruct (get_meth s _) as [m|]; [|discriminate].
    assert (Hw :
      match walk rcaps mem fmt_first fmt_next fmt_ptesz wfuel nested infl m (fa_addr pa) with
      | WOk b0 => match caps_has caps (fa_as b0) with
                  | Some true => AReturn (Call b0) | Some false => ABreak b0 | None => AReturn UB end
      | WErr st => if ((st =? ST_NOMETH)%Z || (st =? ST_NODATA)%Z)%bool
                   then do_alts rcaps mem fmt_first fmt_next fmt_ptesz wfuel nested s infl caps rest pa else AReturn (Err st)
      | WFuel => AReturn OutOfFuel
      | WUB => AReturn UB
      end = AReturn (Err st) -> st <> ST_OK).
    { destruct (walk rcaps mem fmt_first fmt_next fmt_ptesz wfuel nested infl m (fa_addr pa)) as [b1|st'| |] eqn:Ew; try discriminate.
      - destruct (caps_has caps (fa_as b1)) as [[|]|]; discriminate.
      - destruct (_ || _)%bool; [apply IH|]. intros [= <-]. eapply walk_err; exact Ew. }
    destruct m; try apply Hw.
    destruct (caps_has caps tas) as [[|]|]; discriminate.
  Qed.

  Lemma do_chain_err s infl caps ch : forall pa st,
    do_chain rcaps mem fmt_first fmt_next fmt_ptesz wfuel nested s infl caps ch pa = Err st -> st <> ST_OK.
  Proof.
    induction ch as [|alts rest IH]; intros pa st; cbn [do_chain].
    - intros [= <-]; discriminate.
    - destruct (do_alts rcaps mem fmt_first fmt_next fmt_ptesz wfuel nested s infl caps alts pa) as [r|pa'|] eqn:Ea.
      + intros ->. eapply do_alts_err; exact Ea.
      + apply IH.
      + apply IH.
  Qed.
End ErrNonzero.

Lemma op_pre_err lim osys infl caps a st :
  op_pre lim osys infl caps a = inl (Err st) -> st <> ST_OK.
Proof.
  unfold op_pre. destruct (caps_has caps (fa_as a)) as [[|]|]; try discriminate.
  destruct (N.land caps 7 =? 0); [intros [= <-]; discriminate|].
  destruct osys as [s|]; [|intros [= <-]; discriminate].
  destruct (choose_chain caps (fa_as a)) as [c|]; [|intros [= <-]; discriminate].
  destruct (existsb _ infl); [intros [= <-]; discriminate|].
  destruct (over_limit lim infl); [intros [= <-]; discriminate|discriminate].
Qed.

Theorem op_core_err_nonzero lim osys rcaps mem : forall fuel infl caps a st,
  op_core lim osys rcaps mem fmt_first fmt_next fmt_ptesz wfuel fuel infl caps a = Err st -> st <> ST_OK.
Proof.
  induction fuel as [|f IH]; intros infl caps a st; cbn [op_core]; unfold op_body;
    destruct (op_pre lim osys infl caps a) as [r|[[s' k] c]] eqn:Ep; try discriminate.
  - intros ->. eapply op_pre_err; exact Ep.
  - intros ->. eapply op_pre_err; exact Ep.
  - apply do_chain_err. intros i fa st'. apply IH.
Qed.

(** * [addrxlat_op]: the operation is invoked at most once; exactly once on success *)

Theorem addrxlat_op_callback lim osys rcaps mem fuel opret caps a st calls :
  addrxlat_op lim osys rcaps mem fmt_first fmt_next fmt_ptesz wfuel fuel opret caps a = Done st calls ->
  (calls = [] /\ st <> ST_OK) \/ (exists x, calls = [x] /\ st = opret x).
Proof.
  unfold addrxlat_op.
  destruct (op_core lim osys rcaps mem fmt_first fmt_next fmt_ptesz wfuel fuel [] caps a) as [x|st'| |] eqn:E; try discriminate.
  - intros [= <- <-]. right. now exists x.
  - intros [= <- <-]. left. split; [reflexivity|]. eapply op_core_err_nonzero; exact E.
Qed.

Corollary addrxlat_op_once lim osys rcaps mem fuel opret caps a st calls :
  addrxlat_op lim osys rcaps mem fmt_first fmt_next fmt_ptesz wfuel fuel opret caps a = Done st calls ->
  (length calls <= 1)%nat /\ (st = ST_OK -> length calls = 1%nat).
Proof.
  intros H. apply addrxlat_op_callback in H.
  destruct H as [[-> Hs]|[x [-> _]]]; cbn; split; auto; intros; congruence.
Qed.

(** * The recursion guard *)

Theorem guard_reports_nometh lim s rcaps mem fuel infl caps a c :
  caps_has caps (fa_as a) = Some false -> N.land caps 7 <> 0 ->
  choose_chain caps (fa_as a) = Some c ->
  In (fa_addr a, fa_as a, c) infl ->
  op_core lim (Some s) rcaps mem fmt_first fmt_next fmt_ptesz wfuel fuel infl caps a = Err ST_NOMETH.
Proof.
  intros Hc H7 Hch Hin. apply N.eqb_neq in H7. apply existsb_key in Hin.
  destruct fuel; cbn [op_core]; unfold op_body, op_pre; rewrite Hc, H7, Hch, Hin; reflexivity.
Qed.

Theorem limit_reports_nometh n s rcaps mem fuel infl caps a c :
  caps_has caps (fa_as a) = Some false -> N.land caps 7 <> 0 ->
  choose_chain caps (fa_as a) = Some c ->
  (n <= length infl)%nat ->
  op_core (Some n) (Some s) rcaps mem fmt_first fmt_next fmt_ptesz wfuel fuel infl caps a = Err ST_NOMETH.
Proof.
  intros Hc H7 Hch Hlen. apply N.eqb_neq in H7.
  assert (Ho : over_limit (Some n) infl = true) by (cbn; now apply Nat.leb_le).
  destruct fuel; cbn [op_core]; unfold op_body, op_pre; rewrite Hc, H7, Hch, Ho;
    destruct (existsb _ infl); reflexivity.
Qed.

(** * Nested calls: [do_chain] consults the function serving nested calls only
    on the in-flight list it was given *)
Section Congr.
  Variable rcaps : N.
  Variable mem : Z -> N -> N -> option (Z * N).
  Variables nested nested' : list key -> fulladdr -> cres.
  Variable infl : list key.
  Hypothesis same : forall fa, nested infl fa = nested' infl fa.

  Lemma read_congr fa sz :
    read rcaps mem nested infl fa sz = read rcaps mem nested' infl fa sz.
  Proof. unfold read. now rewrite same. Qed.

  Lemma pgt_levels_congr tas pte64 mask sh0 idxs : forall base,
    pgt_levels rcaps mem nested infl tas pte64 mask sh0 idxs base =
    pgt_levels rcaps mem nested' infl tas pte64 mask sh0 idxs base.
  Proof.
    induction idxs as [|i tl IH]; intros base; cbn [pgt_levels]; [reflexivity|].
    rewrite read_congr. destruct (read rcaps mem nested' infl _ _); try reflexivity.
    destruct (_ =? 0); [reflexivity|apply IH].
  Qed.

  Lemma fwalk_loop_congr tgt mask pf : forall wf s,
    fwalk_loop rcaps mem fmt_next fmt_ptesz nested wf infl tgt mask pf s =
    fwalk_loop rcaps mem fmt_next fmt_ptesz nested' wf infl tgt mask pf s.
  Proof.
    induction wf as [|wf IH]; intros s; cbn [fwalk_loop]; [reflexivity|].
    destruct (Step.s_remain s) as [|r]; [reflexivity|].
    destruct (Step.advance s r) as [s1|]; [|reflexivity].
    destruct r as [|r']; [reflexivity|].
    assert (Hc : forall raw,
      (let '(st0, s2) := fmt_next tgt mask pf s1 raw in
       match st_of st0 with
       | Some e => if (e =? ST_OK)%Z
                   then fwalk_loop rcaps mem fmt_next fmt_ptesz nested wf infl tgt mask pf s2
                   else WErr e
       | None => WUB
       end) =
      (let '(st0, s2) := fmt_next tgt mask pf s1 raw in
       match st_of st0 with
       | Some e => if (e =? ST_OK)%Z
                   then fwalk_loop rcaps mem fmt_next fmt_ptesz nested' wf infl tgt mask pf s2
                   else WErr e
       | None => WUB
       end)).
    { intros raw. destruct (fmt_next tgt mask pf s1 raw) as [st0 s2].
      destruct (st_of st0) as [e|]; [|reflexivity].
      destruct (e =? ST_OK)%Z; [apply IH|reflexivity]. }
    destruct (fmt_ptesz pf) as [sz|]; [|apply Hc].
    rewrite read_congr.
    destruct (read rcaps mem nested' infl _ sz); try reflexivity. apply Hc.
  Qed.

  Lemma walk_congr m addr :
    walk rcaps mem fmt_first fmt_next fmt_ptesz wfuel nested infl m addr = walk rcaps mem fmt_first fmt_next fmt_ptesz wfuel nested' infl m addr.
  Proof.
    destruct m as [| |f|tas off|tas root pte64 mask fields|tgt ras root mask pf|tas endoff tbl|tas base shift elemsz valsz];
      cbn [walk]; try reflexivity.
    - destruct (_ =? AS_NOADDR)%Z; [reflexivity|].
      destruct (8 <? length fields)%nat; [reflexivity|].
      destruct (split_fields fields addr) as [[idx top]|]; [|reflexivity].
      destruct (negb (top =? 0)); [reflexivity|].
      destruct idx as [|i0 upper]; [reflexivity|].
      rewrite pgt_levels_congr. reflexivity.
    - destruct (fmt_first ras root pf addr) as [st0 s0].
      destruct (st_of st0) as [e|]; [|reflexivity].
      destruct (negb (e =? ST_OK)%Z); [reflexivity|].
      destruct (Step.s_remain s0); [reflexivity|apply fwalk_loop_congr].
    - rewrite read_congr. reflexivity.
  Qed.

  Lemma do_alts_congr s caps alts : forall pa,
    do_alts rcaps mem fmt_first fmt_next fmt_ptesz wfuel nested s infl caps alts pa = do_alts rcaps mem fmt_first fmt_next fmt_ptesz wfuel nested' s infl caps alts pa.
  Proof.
    induction alts as [|mapidx rest IH]; intros pa; cbn [do_alts]; [reflexivity|].
    destruct (negb _); [apply IH|].
    destruct (s_map s mapidx) as [mp|]; [|apply IH].
    destruct (_ =? NONE)%Z; [apply IH|].
    destruct (get_meth s _) as [m|]; [|reflexivity].
    destruct m; try reflexivity; rewrite walk_congr;
      match goal with |- match ?w with _ => _ end = _ => destruct w end; try reflexivity;
      rewrite IH; reflexivity.
  Qed.

  Lemma do_chain_congr s caps ch : forall pa,
    do_chain rcaps mem fmt_first fmt_next fmt_ptesz wfuel nested s infl caps ch pa = do_chain rcaps mem fmt_first fmt_next fmt_ptesz wfuel nested' s infl caps ch pa.
  Proof.
    induction ch as [|alts rest IH]; intros pa; cbn [do_chain]; [reflexivity|].
    rewrite do_alts_congr. destruct (do_alts _ _ _ _ _ _ _ _); try reflexivity; apply IH.
  Qed.
End Congr.

(** the invariant of the in-flight list: no duplicates, and never longer than the limit *)
Definition infl_ok (lim : option nat) (infl : list key) : Prop :=
  NoDup infl /\ match lim with Some n => (length infl <= n)%nat | None => True end.

(** [op_body] calls the function serving nested calls only on lists that
    satisfy the invariant: changing that function elsewhere changes nothing *)
Theorem op_body_nested_ok lim osys rcaps mem nested nested' infl caps a :
  infl_ok lim infl ->
  (forall i fa, infl_ok lim i -> nested i fa = nested' i fa) ->
  op_body lim osys rcaps mem fmt_first fmt_next fmt_ptesz wfuel nested infl caps a = op_body lim osys rcaps mem fmt_first fmt_next fmt_ptesz wfuel nested' infl caps a.
Proof.
  intros [Hnd Hlen] Hsame. unfold op_body.
  destruct (op_pre lim osys infl caps a) as [r|[[s k] c]] eqn:Ep; [reflexivity|].
  apply op_pre_inr in Ep. destruct Ep as [_ [_ [_ [_ [_ [Hnotin Hover]]]]]].
  apply do_chain_congr. intros fa. apply Hsame. split.
  - now constructor.
  - destruct lim as [n|]; [|exact I]. cbn in Hover. apply Nat.leb_gt in Hover. cbn [length]. lia.
Qed.

(** the interpreter with the invariant asserted at every entry *)
Fixpoint nodupb (l : list key) : bool :=
  match l with
  | [] => true
  | k :: tl => negb (existsb (key_eqb k) tl) && nodupb tl
  end.

Definition infl_okb (lim : option nat) (infl : list key) : bool :=
  nodupb infl && match lim with Some n => (length infl <=? n)%nat | None => true end.

Lemma nodupb_spec l : nodupb l = true <-> NoDup l.
Proof.
  induction l as [|k tl IH]; cbn [nodupb].
  - split; [constructor|reflexivity].
  - rewrite andb_true_iff, negb_true_iff, IH. split.
    + intros [H1 H2]. constructor; [|assumption]. intros Hin. apply existsb_key in Hin. congruence.
    + intros H. inversion H as [|? ? Hn Hd]; subst. split; [|assumption].
      destruct (existsb (key_eqb k) tl) eqn:E; [|reflexivity]. apply existsb_key in E. contradiction.
Qed.

Lemma infl_okb_spec lim l : infl_okb lim l = true <-> infl_ok lim l.
Proof.
  unfold infl_okb, infl_ok. rewrite andb_true_iff, nodupb_spec.
  destruct lim as [n|]; [rewrite Nat.leb_le|]; tauto.
Qed.

Fixpoint op_core_chk (lim : option nat) (osys : option sys) (rcaps : N)
         (mem : Z -> N -> N -> option (Z * N)) (fuel : nat) (infl : list key) (caps : N) (fa : fulladdr)
  : cres :=
  if negb (infl_okb lim infl) then UB      (* assertion: the invariant holds on entry *)
  else match fuel with
       | O => match op_pre lim osys infl caps fa with inl r => r | inr _ => OutOfFuel end
       | S f => op_body lim osys rcaps mem fmt_first fmt_next fmt_ptesz wfuel
                        (fun i a => op_core_chk lim osys rcaps mem f i rcaps a) infl caps fa
       end.

Theorem op_core_invariant lim osys rcaps mem : forall fuel infl caps a,
  infl_ok lim infl ->
  op_core_chk lim osys rcaps mem fuel infl caps a = op_core lim osys rcaps mem fmt_first fmt_next fmt_ptesz wfuel fuel infl caps a.
Proof.
  induction fuel as [|f IH]; intros infl caps a Hok; cbn [op_core_chk op_core];
    rewrite (proj2 (infl_okb_spec lim infl) Hok); cbn [negb]; [reflexivity|].
  apply op_body_nested_ok; [assumption|]. intros i fa Hi. now apply IH.
Qed.

Lemma infl_ok_nil lim : infl_ok lim [].
Proof. split; [constructor|]. destruct lim; [cbn; lia|exact I]. Qed.

(** * Depth: with the limit, fuel [n + 1] is always enough, and more fuel changes nothing *)

Section Fuel.
  Variable rcaps : N.
  Variable mem : Z -> N -> N -> option (Z * N).
  Variable nested : list key -> fulladdr -> cres.
  Variable infl : list key.
  Hypothesis nested_fuel : forall fa, nested infl fa <> OutOfFuel.

  Lemma read_fuel fa sz : read rcaps mem nested infl fa sz <> RFuel.
  Proof.
    unfold read, do_read. destruct (caps_has rcaps (fa_as fa)) as [[|]|]; try discriminate.
    - destruct (mem _ _ _) as [[st v]|]; [|discriminate]. destruct (st =? ST_OK)%Z; discriminate.
    - specialize (nested_fuel fa). destruct (nested infl fa); try discriminate; [|contradiction].
      destruct (mem _ _ _) as [[st v]|]; [|discriminate]. destruct (st =? ST_OK)%Z; discriminate.
  Qed.

  Lemma pgt_levels_fuel tas pte64 mask sh0 idxs : forall base,
    pgt_levels rcaps mem nested infl tas pte64 mask sh0 idxs base <> WFuel.
  Proof.
    induction idxs as [|i tl IH]; intros base; cbn [pgt_levels]; [discriminate|].
    pose proof (read_fuel (FA (xadd (fa_addr base) (xmul i (if pte64 then 8 else 4))) (fa_as base))
                          (if pte64 then 8 else 4)) as Hr.
    destruct (read rcaps mem nested infl _ _); try discriminate; [|contradiction].
    destruct (_ =? 0); [discriminate|apply IH].
  Qed.

  Lemma fwalk_loop_fuel tgt mask pf : forall wf s,
    fwalk_loop rcaps mem fmt_next fmt_ptesz nested wf infl tgt mask pf s <> WFuel.
  Proof.
    induction wf as [|wf IH]; intros s; cbn [fwalk_loop]; [discriminate|].
    destruct (Step.s_remain s) as [|r]; [discriminate|].
    destruct (Step.advance s r) as [s1|]; [|discriminate].
    destruct r as [|r']; [discriminate|].
    assert (Hc : forall raw,
      (let '(st0, s2) := fmt_next tgt mask pf s1 raw in
       match st_of st0 with
       | Some e => if (e =? ST_OK)%Z
                   then fwalk_loop rcaps mem fmt_next fmt_ptesz nested wf infl tgt mask pf s2
                   else WErr e
       | None => WUB
       end) <> WFuel).
    { intros raw. destruct (fmt_next tgt mask pf s1 raw) as [st0 s2].
      destruct (st_of st0) as [e|]; [|discriminate].
      destruct (e =? ST_OK)%Z; [apply IH|discriminate]. }
    destruct (fmt_ptesz pf) as [sz|]; [|apply Hc].
    pose proof (read_fuel (FA (Step.s_base s1) (as_of (Step.s_as s1))) sz) as Hr.
    destruct (read rcaps mem nested infl _ sz); try discriminate; [apply Hc|contradiction].
  Qed.

  Lemma walk_fuel m addr : walk rcaps mem fmt_first fmt_next fmt_ptesz wfuel nested infl m addr <> WFuel.
  Proof.
    destruct m as [| |f|tas off|tas root pte64 mask fields|tgt ras root mask pf|tas endoff tbl|tas base shift elemsz valsz];
      cbn [walk]; try discriminate.
    - destruct (f addr) as [st fa]. destruct (st =? ST_OK)%Z; discriminate.
    - destruct (_ =? AS_NOADDR)%Z; [discriminate|].
      destruct (8 <? length fields)%nat; [discriminate|].
      destruct (split_fields fields addr) as [[idx top]|]; [|discriminate].
      destruct (negb (top =? 0)); [discriminate|].
      destruct idx as [|i0 upper]; [discriminate|].
      pose proof (pgt_levels_fuel tas pte64 mask (hd 0 fields) (rev upper) root) as Hp.
      destruct (pgt_levels rcaps mem nested infl tas pte64 mask (hd 0 fields) (rev upper) root);
        try discriminate. contradiction.
    - destruct (fmt_first ras root pf addr) as [st0 s0].
      destruct (st_of st0) as [e|]; [|discriminate].
      destruct (negb (e =? ST_OK)%Z); [discriminate|].
      destruct (Step.s_remain s0); [discriminate|apply fwalk_loop_fuel].
    - destruct (lookup_find tbl endoff addr) as [[o d]|]; discriminate.
    - destruct (64 <=? shift); [discriminate|].
      destruct ((valsz =? 4) || (valsz =? 8)); [|discriminate].
      pose proof (read_fuel (FA (xadd (fa_addr base) (xmul (N.shiftr addr shift) elemsz)) (fa_as base))
                            valsz) as Hr.
      destruct (read rcaps mem nested infl _ valsz); try discriminate. contradiction.
  Qed.

  Lemma do_alts_fuel s caps alts : forall pa,
    do_alts rcaps mem fmt_first fmt_next fmt_ptesz wfuel nested s infl caps alts pa <> AReturn OutOfFuel.
  Proof.
    induction alts as [|mapidx rest IH]; intros pa; cbn [do_alts]; [discriminate|].
    destruct (negb _); [apply IH|].
    destruct (s_map s mapidx) as [mp|]; [|apply IH].
    destruct (_ =? NONE)%Z; [apply IH|].
    destruct (get_meth s _) as [m|]; [|discriminate].
    assert (Hw :
      match walk rcaps mem fmt_first fmt_next fmt_ptesz wfuel nested infl m (fa_addr pa) with
      | WOk b0 => match caps_has caps (fa_as b0) with
                  | Some true => AReturn (Call b0) | Some false => ABreak b0 | None => AReturn UB end
      | WErr st => if ((st =? ST_NOMETH)%Z || (st =? ST_NODATA)%Z)%bool
                   then do_alts rcaps mem fmt_first fmt_next fmt_ptesz wfuel nested s infl caps rest pa else AReturn (Err st)
      | WFuel => AReturn OutOfFuel
      | WUB => AReturn UB
      end <> AReturn OutOfFuel).
    { pose proof (walk_fuel m (fa_addr pa)) as Hwf.
      destruct (walk rcaps mem fmt_first fmt_next fmt_ptesz wfuel nested infl m (fa_addr pa)) as [b1|st'| |]; try discriminate.
      - destruct (caps_has caps (fa_as b1)) as [[|]|]; discriminate.
      - destruct (_ || _)%bool; [apply IH|discriminate].
      - contradiction. }
    destruct m; try apply Hw.
    destruct (caps_has caps tas) as [[|]|]; discriminate.
  Qed.

  Lemma do_chain_fuel s caps ch : forall pa,
    do_chain rcaps mem fmt_first fmt_next fmt_ptesz wfuel nested s infl caps ch pa <> OutOfFuel.
  Proof.
    induction ch as [|alts rest IH]; intros pa; cbn [do_chain]; [discriminate|].
    pose proof (do_alts_fuel s caps alts pa) as Ha.
    destruct (do_alts rcaps mem fmt_first fmt_next fmt_ptesz wfuel nested s infl caps alts pa) as [r|pa'|]; try apply IH.
    intros ->. now apply Ha.
  Qed.
End Fuel.

Lemma op_pre_fuel lim osys infl caps a : op_pre lim osys infl caps a <> inl OutOfFuel.
Proof.
  unfold op_pre. destruct (caps_has caps (fa_as a)) as [[|]|]; try discriminate.
  destruct (N.land caps 7 =? 0); [discriminate|].
  destruct osys as [s|]; [|discriminate].
  destruct (choose_chain caps (fa_as a)) as [c|]; [|discriminate].
  destruct (existsb _ infl); [discriminate|].
  destruct (over_limit lim infl); discriminate.
Qed.

Theorem depth_bounded n osys rcaps mem : forall fuel infl caps a,
  (n + 1 <= fuel + length infl)%nat ->
  op_core (Some n) osys rcaps mem fmt_first fmt_next fmt_ptesz wfuel fuel infl caps a <> OutOfFuel.
Proof.
  induction fuel as [|f IH]; intros infl caps a Hlen; cbn [op_core]; unfold op_body;
    destruct (op_pre (Some n) osys infl caps a) as [r|[[s k] c]] eqn:Ep.
  - intros ->. eapply op_pre_fuel; exact Ep.
  - apply op_pre_inr in Ep. destruct Ep as [_ [_ [_ [_ [_ [_ Hover]]]]]].
    cbn in Hover. apply Nat.leb_gt in Hover. cbn in Hlen. lia.
  - intros ->. eapply op_pre_fuel; exact Ep.
  - apply do_chain_fuel. intros fa. apply IH. cbn [length]. lia.
Qed.

Theorem fuel_irrelevant n osys rcaps mem : forall fuel fuel' infl caps a,
  (n + 1 <= fuel + length infl)%nat -> (n + 1 <= fuel' + length infl)%nat ->
  op_core (Some n) osys rcaps mem fmt_first fmt_next fmt_ptesz wfuel fuel infl caps a = op_core (Some n) osys rcaps mem fmt_first fmt_next fmt_ptesz wfuel fuel' infl caps a.
Proof.
  induction fuel as [|f IH]; intros fuel' infl caps a H1 H2.
  - destruct fuel' as [|f']; [reflexivity|].
    cbn [op_core]; unfold op_body.
    destruct (op_pre (Some n) osys infl caps a) as [r|[[s k] c]] eqn:Ep; [reflexivity|].
    apply op_pre_inr in Ep. destruct Ep as [_ [_ [_ [_ [_ [_ Hover]]]]]].
    cbn in Hover. apply Nat.leb_gt in Hover. cbn in H1. lia.
  - destruct fuel' as [|f'].
    + cbn [op_core]; unfold op_body.
      destruct (op_pre (Some n) osys infl caps a) as [r|[[s k] c]] eqn:Ep; [reflexivity|].
      apply op_pre_inr in Ep. destruct Ep as [_ [_ [_ [_ [_ [_ Hover]]]]]].
      cbn in Hover. apply Nat.leb_gt in Hover. cbn in H2. lia.
    + cbn [op_core]; unfold op_body.
      destruct (op_pre (Some n) osys infl caps a) as [r|[[s k] c]] eqn:Ep; [reflexivity|].
      apply do_chain_congr. intros fa. apply IH; cbn [length]; lia.
Qed.

(** * Statements at the level of [addrxlat_op] *)

Theorem addrxlat_op_passthrough lim osys rcaps mem fuel opret caps a :
  in_caps caps (fa_as a) ->
  addrxlat_op lim osys rcaps mem fmt_first fmt_next fmt_ptesz wfuel fuel opret caps a = Done (opret a) [a].
Proof.
  intros H. unfold addrxlat_op. now rewrite op_core_passthrough.
Qed.

Theorem addrxlat_op_in_caps lim osys rcaps mem fuel opret caps a st calls :
  addrxlat_op lim osys rcaps mem fmt_first fmt_next fmt_ptesz wfuel fuel opret caps a = Done st calls ->
  forall x, In x calls -> in_caps caps (fa_as x).
Proof.
  unfold addrxlat_op.
  destruct (op_core lim osys rcaps mem fmt_first fmt_next fmt_ptesz wfuel fuel [] caps a) as [y|st'| |] eqn:E; try discriminate.
  - intros [= <- <-] x [<-|[]]. eapply op_core_in_caps; exact E.
  - intros [= <- <-] x [].
Qed.

Theorem addrxlat_op_composition lim s rcaps mem fuel opret caps a st calls :
  addrxlat_op lim (Some s) rcaps mem fmt_first fmt_next fmt_ptesz wfuel fuel opret caps a = Done st calls ->
  forall x, In x calls ->
    convB s rcaps mem fmt_first fmt_next fmt_ptesz wfuel fuel 2 caps a x /\
    conv s rcaps mem fmt_first fmt_next fmt_ptesz wfuel caps a x.
Proof.
  unfold addrxlat_op.
  destruct (op_core lim (Some s) rcaps mem fmt_first fmt_next fmt_ptesz wfuel fuel [] caps a) as [y|st'| |] eqn:E; try discriminate.
  - intros [= <- <-] x [<-|[]].
    pose proof (op_core_sound lim s rcaps mem fmt_first fmt_next fmt_ptesz wfuel
                  fuel [] caps a y E) as H.
    split; [exact H|]. exists fuel, 2%nat. exact H.
  - intros [= <- <-] x [].
Qed.

Theorem addrxlat_op_nosys lim rcaps mem fuel opret caps a st calls :
  addrxlat_op lim None rcaps mem fmt_first fmt_next fmt_ptesz wfuel fuel opret caps a = Done st calls ->
  forall x, In x calls -> x = a /\ in_caps caps (fa_as a).
Proof.
  unfold addrxlat_op.
  destruct (op_core lim None rcaps mem fmt_first fmt_next fmt_ptesz wfuel fuel [] caps a) as [y|st'| |] eqn:E; try discriminate.
  - intros [= <- <-] x [<-|[]]. eapply op_core_nosys; exact E.
  - intros [= <- <-] x [].
Qed.

Theorem addrxlat_op_depth_bounded n osys rcaps mem fuel opret caps a :
  (n + 1 <= fuel)%nat ->
  addrxlat_op (Some n) osys rcaps mem fmt_first fmt_next fmt_ptesz wfuel fuel opret caps a <> NoFuel /\
  addrxlat_op (Some n) osys rcaps mem fmt_first fmt_next fmt_ptesz wfuel fuel opret caps a =
  addrxlat_op (Some n) osys rcaps mem fmt_first fmt_next fmt_ptesz wfuel (n + 1) opret caps a.
Proof.
  intros H. unfold addrxlat_op. split.
  - pose proof (depth_bounded n osys rcaps mem fuel [] caps a) as Hd.
    destruct (op_core (Some n) osys rcaps mem fmt_first fmt_next fmt_ptesz wfuel fuel [] caps a); try discriminate.
    exfalso. apply Hd; [cbn [length]; lia|reflexivity].
  - rewrite (fuel_irrelevant n osys rcaps mem fuel (n + 1) [] caps a) by (cbn [length]; lia).
    reflexivity.
Qed.
(** * [addrxlat_fulladdr_conv] *)

Lemma in_caps_of k x : in_caps (caps_of k) x -> x = k /\ (0 <= k < 64)%Z.
Proof.
  unfold caps_of. destruct ((0 <=? k)%Z && (k <? 64)%Z) eqn:Er.
  - apply andb_prop in Er. destruct Er as [E0 E1]. apply Z.leb_le in E0. apply Z.ltb_lt in E1.
    intros [[H0 H64] Hb].
    rewrite N.shiftl_1_l, N.pow2_bits_eqb in Hb. apply N.eqb_eq in Hb.
    apply (f_equal Z.of_N) in Hb. rewrite !Z2N.id in Hb by lia. split; [congruence|lia].
  - intros [_ Hb]. rewrite N.bits_0 in Hb. discriminate.
Qed.

Theorem fulladdr_conv_spec lim s rcaps mem fuel fa as_ st fa' :
  fulladdr_conv lim (Some s) rcaps mem fmt_first fmt_next fmt_ptesz wfuel fuel fa as_ = Conv st fa' ->
  (st = ST_OK /\ fa_as fa' = as_ /\ (0 <= as_ < 64)%Z /\
   conv s rcaps mem fmt_first fmt_next fmt_ptesz wfuel (caps_of as_) fa fa')
  \/ (st <> ST_OK /\ fa' = fa).
Proof.
  unfold fulladdr_conv, addrxlat_op.
  destruct (op_core lim (Some s) rcaps mem fmt_first fmt_next fmt_ptesz wfuel fuel [] (caps_of as_) fa)
    as [x|st'| |] eqn:E; try discriminate.
  - intros [= <- <-]. left. split; [reflexivity|].
    pose proof E as Hc. apply op_core_in_caps in Hc. apply in_caps_of in Hc.
    destruct Hc as [Hx Hr]. split; [exact Hx|]. split; [exact Hr|].
    exact (op_core_conv lim s rcaps mem fmt_first fmt_next fmt_ptesz wfuel fuel [] _ fa x E).
  - intros [= <- <-]. right. split; [|reflexivity]. eapply op_core_err_nonzero; exact E.
Qed.

End AnyFormat.

(** * The enumeration of SysSpec.v is exact: it lists the conversions of
    measure (d, len), all of them and nothing else *)

Lemma lookup_all_iff tbl endoff a tas b :
  In b (lookup_all tbl endoff a tas) <->
  exists orig dest, In (orig, dest) tbl /\ orig <= a /\ a <= orig + endoff /\
                    b = FA (wadd dest (wsub a orig)) tas.
Proof.
  induction tbl as [|[o d] tl IH]; cbn [lookup_all].
  - split; [intros []|intros [o [d [[] _]]]].
  - rewrite in_app_iff, IH. split.
    + intros [H|[o' [d' [H1 H2]]]].
      * destruct ((o <=? a) && (a <=? o + endoff)) eqn:E; [|destruct H].
        destruct H as [<-|[]]. apply andb_prop in E. destruct E as [E1 E2].
        apply N.leb_le in E1. apply N.leb_le in E2.
        exists o, d. repeat split; try assumption. now left.
      * exists o', d'. split; [now right|assumption].
    + intros [o' [d' [[Heq|Hin] [H1 [H2 ->]]]]].
      * injection Heq as <- <-. left.
        apply N.leb_le in H1. apply N.leb_le in H2. rewrite H1, H2. now left.
      * right. exists o', d'. repeat split; assumption.
Qed.

Section Exact.
  Variable s : sys.
  Variable rcaps : N.
  Variable mem : Z -> N -> N -> option (Z * N).
  Variable fmt_first : Step.aspace -> N -> Step.pform -> N -> Step.status * Step.step.
  Variable fmt_next : Step.aspace -> N -> Step.pform -> Step.step -> N -> Step.status * Step.step.
  Variable fmt_ptesz : Step.pform -> option N.
  Variable wf : nat.

  Section WithRd.
    Variable rdl : fulladdr -> N -> list N.
    Variable rdr : fulladdr -> N -> N -> Prop.
    Hypothesis rd_iff : forall fa sz v, In v (rdl fa sz) <-> rdr fa sz v.

    Lemma tables_all_iff tas pte64 mask sh0 idxs : forall base b,
      In b (tables_all rdl tas pte64 mask sh0 idxs base) <->
      tables rdr tas pte64 mask sh0 idxs base b.
    Proof.
      induction idxs as [|i tl IH]; intros base b; cbn [tables_all].
      - split; [intros [<-|[]]; constructor|intros H; inversion H; now left].
      - rewrite in_flat_map. split.
        + intros [raw [Hr Hb]].
          destruct (N.ldiff raw mask =? 0) eqn:Ez; [destruct Hb|]. apply N.eqb_neq in Ez.
          eapply tables_cons; [apply rd_iff; exact Hr|exact Ez|now apply IH].
        + intros H. inversion H as [|? ? ? raw ? Hrd Hnz Ht]; subst.
          exists raw. split; [now apply rd_iff|].
          apply N.eqb_neq in Hnz. rewrite Hnz. now apply IH.
    Qed.

    Lemma fwalk_all_iff tgt mask pf : forall n st b,
      In b (fwalk_all fmt_next fmt_ptesz rdl n tgt mask pf st) <->
      fwalk fmt_next fmt_ptesz rdr tgt mask pf n st b.
    Proof.
      induction n as [|n IH]; intros st b; cbn [fwalk_all].
      - split; [intros []|intros H; inversion H].
      - split.
        + destruct (Step.s_remain st) as [|r] eqn:Er; [intros []|].
          destruct (Step.advance st r) as [s1|] eqn:Ea; [|intros []].
          destruct r as [|r'].
          * intros [<-|[]]. eapply fwalk_last; eassumption.
          * rewrite in_flat_map. intros [raw [Hraw Hb]].
            destruct (fmt_next tgt mask pf s1 raw) as [st0 s2] eqn:En.
            destruct st0; try (destruct Hb; fail).
            eapply fwalk_level; try eassumption.
            -- destruct (fmt_ptesz pf) as [sz|]; [now apply rd_iff|].
               destruct Hraw as [<-|[]]. reflexivity.
            -- now apply IH.
        + intros H. inversion H as [? ? s1 Hr Ha|? ? r s1 raw s2 ? Hr Ha Hraw Hn Hw]; subst.
          * rewrite Hr, Ha. now left.
          * rewrite Hr, Ha. rewrite in_flat_map. exists raw. split.
            -- destruct (fmt_ptesz pf) as [sz|]; [now apply rd_iff|]. subst raw. now left.
            -- rewrite Hn. now apply IH.
    Qed.

    Notation xlatR := (xlat fmt_first fmt_next fmt_ptesz wf rdr).
    Notation xlatL := (xlat_all fmt_first fmt_next fmt_ptesz wf rdl).

    Lemma xlat_all_iff m a b : In b (xlatL m a) <-> xlatR m a b.
    Proof.
      split.
      - destruct m as [| |f|tas off|tas root pte64 mask fields|tgt ras root mask pf|tas endoff tbl
                       |tas base shift elemsz valsz];
          cbn [xlat_all]; try (intros H; solve [destruct H]).
        + destruct (f a) as [st x] eqn:Ef. destruct (st =? ST_OK)%Z eqn:E; [|intros []].
          intros [<-|[]]. apply Z.eqb_eq in E. subst. now constructor.
        + intros [<-|[]]. constructor.
        + destruct (fa_as root =? AS_NOADDR)%Z eqn:En; [intros []|]. apply Z.eqb_neq in En.
          destruct (split_fields fields a) as [[idx top]|] eqn:Es; [|intros []].
          destruct top as [|p]; [|intros []].
          rewrite in_map_iff. intros [b' [<- Hb']].
          apply tables_all_iff in Hb'.
          exact (xlat_pgt fmt_first fmt_next fmt_ptesz wf rdr tas root pte64 mask fields a idx b'
                          En Es Hb').
        + destruct (fmt_first ras root pf a) as [st0 st] eqn:Ef.
          destruct st0; try (intros H; solve [destruct H]).
          destruct (Step.s_remain st) as [|r] eqn:Er.
          * intros [<-|[]]. now apply xlat_pgtf_done.
          * intros H. apply fwalk_all_iff in H.
            eapply xlat_pgtf_walk; [exact Ef|rewrite Er; discriminate|exact H].
        + intros H. apply lookup_all_iff in H. destruct H as [o [d [H1 [H2 [H3 ->]]]]].
          now constructor.
        + destruct ((shift <? 64) && ((valsz =? 4) || (valsz =? 8))) eqn:E; [|intros []].
          apply andb_prop in E. destruct E as [E1 E2]. apply N.ltb_lt in E1.
          apply orb_prop in E2. rewrite !N.eqb_eq in E2.
          rewrite in_map_iff. intros [v [<- Hv]].
          constructor; [assumption|assumption|now apply rd_iff].
      - intros H. destruct H as [f a b Hf|tas off a|tas endoff tbl a orig dest Hin H1 H2
                                 |tas base shift elemsz valsz a v Hs Hv Hrd
                                 |tas root pte64 mask fields a idx b Hn Hsp Ht
                                 |tgt ras root mask pf a st Hf Hr
                                 |tgt ras root mask pf a st b Hf Hr Hw]; cbn [xlat_all].
        + rewrite Hf. rewrite Z.eqb_refl. now left.
        + now left.
        + apply lookup_all_iff. exists orig, dest. repeat split; assumption.
        + apply N.ltb_lt in Hs. rewrite Hs.
          assert (E : (valsz =? 4) || (valsz =? 8) = true).
          { destruct Hv as [->| ->]; reflexivity. }
          rewrite E. cbn [andb]. apply in_map_iff. exists v. split; [reflexivity|now apply rd_iff].
        + apply Z.eqb_neq in Hn. rewrite Hn, Hsp.
          apply in_map_iff. exists b. split; [reflexivity|now apply tables_all_iff].
        + rewrite Hf, Hr. now left.
        + rewrite Hf. destruct (Step.s_remain st) as [|r]; [contradiction|].
          now apply fwalk_all_iff.
    Qed.

    Notation step1R := (step1 s fmt_first fmt_next fmt_ptesz wf rdr).
    Notation pathR := (path s fmt_first fmt_next fmt_ptesz wf rdr).

    Lemma step_all_iff a b :
      In b (step_all s fmt_first fmt_next fmt_ptesz wf rdl a) <-> step1R a b.
    Proof.
      unfold step_all. rewrite in_flat_map. split.
      - intros [mapidx [Hin H]].
        destruct (fa_as a =? map_expect_as mapidx)%Z eqn:Eas; [|destruct H].
        apply Z.eqb_eq in Eas.
        destruct (s_map s mapidx) as [mp|] eqn:Emp; [|destruct H].
        destruct (get_meth s (map_search mp (fa_addr a))) as [m|] eqn:Em; [|destruct H].
        eapply step1_map; try eassumption. now apply xlat_all_iff.
      - intros H. destruct H as [a b mapidx mp m Hin Has Hmp Hm Hx].
        exists mapidx. split; [exact Hin|].
        rewrite Has, Z.eqb_refl, Hmp, Hm. now apply xlat_all_iff.
    Qed.

    Lemma path_all_iff caps : forall len a b,
      In b (path_all s fmt_first fmt_next fmt_ptesz wf rdl len caps a) <-> pathR caps len a b.
    Proof.
      induction len as [|l IH]; intros a b; cbn [path_all];
        destruct (in_capsb caps (fa_as a)) eqn:E.
      - apply in_capsb_spec in E. split.
        + intros [<-|[]]. now apply path_done.
        + intros H. inversion H; subst. now left.
      - split; [intros []|].
        intros H. inversion H; subst. apply in_capsb_spec in H0. congruence.
      - apply in_capsb_spec in E. split.
        + intros [<-|[]]. now apply path_done.
        + intros H. inversion H; subst; [now left|contradiction].
      - rewrite in_flat_map. split.
        + intros [c [Hc Hb]]. eapply path_step.
          * intros Hi. apply in_capsb_spec in Hi. congruence.
          * apply step_all_iff. exact Hc.
          * now apply IH.
        + intros H. inversion H as [? ? Hi|? ? c ? Hn Hs Hp]; subst.
          * apply in_capsb_spec in Hi. congruence.
          * exists c. split; [now apply step_all_iff|now apply IH].
    Qed.
  End WithRd.

  Notation convB' := (convB s rcaps mem fmt_first fmt_next fmt_ptesz wf).
  Notation conv_all' := (conv_all s rcaps mem fmt_first fmt_next fmt_ptesz wf).

  Lemma rd_via_iff cv (Cv : fulladdr -> fulladdr -> Prop) :
    (forall fa x, In x (cv fa) <-> Cv fa x) ->
    forall fa sz v, In v (rd_via mem cv fa sz) <->
                    exists fa', Cv fa fa' /\ mem (fa_as fa') (fa_addr fa') sz = Some (ST_OK, v).
  Proof.
    intros Hcv fa sz v. unfold rd_via. rewrite in_flat_map. split.
    - intros [fa' [Hfa Hv]].
      destruct (mem (fa_as fa') (fa_addr fa') sz) as [[st v']|] eqn:Em; [|destruct Hv].
      destruct (st =? ST_OK)%Z eqn:E; [|destruct Hv]. destruct Hv as [<-|[]].
      apply Z.eqb_eq in E. subst st. exists fa'. split; [now apply Hcv|exact Em].
    - intros [fa' [Hc Hm]]. exists fa'. split; [now apply Hcv|].
      rewrite Hm, Z.eqb_refl. now left.
  Qed.

  Theorem conv_all_exact len : forall d caps a b,
    In b (conv_all' d len caps a) <-> convB' d len caps a b.
  Proof.
    induction d as [|d IH]; intros caps a b; cbn [conv_all convB].
    - destruct (in_capsb caps (fa_as a)) eqn:E.
      + apply in_capsb_spec in E. split; [intros [<-|[]]; now split|intros [_ ->]; now left].
      + split; [intros []|]. intros [H _]. apply in_capsb_spec in H. congruence.
    - apply path_all_iff. apply rd_via_iff. intros fa x. apply IH.
  Qed.

  Lemma fa_eqb_eq x y : fa_eqb x y = true <-> x = y.
  Proof.
    unfold fa_eqb. rewrite andb_true_iff, N.eqb_eq, Z.eqb_eq.
    destruct x, y; cbn. split; [intros [-> ->]; reflexivity|intros [= -> ->]; auto].
  Qed.

  (** what the property demands of one observed run, with the composition
      clause restricted to conversions of nesting at most [d] and at most
      [len] methods in a row *)
  Definition run_ok (d len : nat) (caps : N) (opret : Z) (a : fulladdr)
             (st : Z) (calls : list fulladdr) (depth : nat) : Prop :=
    (depth <= MAX_OP_DEPTH)%nat /\
    ((calls = [] /\ st <> ST_OK /\ ~ in_caps caps (fa_as a)) \/
     (exists x, calls = [x] /\ st = opret /\ in_caps caps (fa_as x) /\
                exists d', (d' <= d)%nat /\ convB' d' len caps a x)).

  Notation judge' := (judge s rcaps mem fmt_first fmt_next fmt_ptesz wf).

  (** the judge is exact *)
  Theorem judge_exact d len caps opret a st calls depth :
    judge' d len caps opret a st calls depth = 0 <-> run_ok d len caps opret a st calls depth.
  Proof.
    unfold judge, run_ok. split.
    - destruct (MAX_OP_DEPTH <? depth)%nat eqn:Ed; [discriminate|].
      apply Nat.ltb_ge in Ed. intros H. split; [assumption|].
      destruct calls as [|x [|y tl]]; [| |discriminate].
      + left. destruct (st =? ST_OK)%Z eqn:Es; [discriminate|]. apply Z.eqb_neq in Es.
        destruct (in_capsb caps (fa_as a)) eqn:Ec; [discriminate|].
        repeat split; try assumption. intros Hc. apply in_capsb_spec in Hc. congruence.
      + right. exists x.
        destruct (st =? opret)%Z eqn:Es; cbn [negb] in H; [|discriminate]. apply Z.eqb_eq in Es.
        destruct (in_capsb caps (fa_as x)) eqn:Ex; cbn [negb] in H; [|discriminate].
        destruct (existsb _ (seq 0 (S d))) eqn:Ee; cbn [negb] in H; [|discriminate].
        split; [reflexivity|]. split; [assumption|]. split; [now apply in_capsb_spec|].
        apply existsb_exists in Ee. destruct Ee as [d' [Hd' Ee]].
        apply in_seq in Hd'.
        apply existsb_exists in Ee. destruct Ee as [y [Hy He]]. apply fa_eqb_eq in He. subst y.
        exists d'. split; [lia|]. now apply conv_all_exact.
    - intros [Hd H]. apply Nat.ltb_ge in Hd. rewrite Hd.
      destruct H as [[-> [Hs Hc]]|[x [-> [-> [Hx [d' [Hd' Hcv]]]]]]].
      + apply Z.eqb_neq in Hs. rewrite Hs.
        destruct (in_capsb caps (fa_as a)) eqn:E; [|reflexivity].
        apply in_capsb_spec in E. contradiction.
      + rewrite Z.eqb_refl. cbn [negb].
        apply in_capsb_spec in Hx. rewrite Hx. cbn [negb].
        assert (E : existsb (fun d0 => existsb (fa_eqb x) (conv_all' d0 len caps a)) (seq 0 (S d)) = true).
        { apply existsb_exists. exists d'. split; [apply in_seq; lia|].
          apply existsb_exists. exists x. split; [now apply conv_all_exact|now apply fa_eqb_eq]. }
        rewrite E. reflexivity.
  Qed.
End Exact.

(** * Every run of the model is accepted by the judge *)
Theorem model_passes_judge lim s rcaps mem fmt_first fmt_next fmt_ptesz wfuel
        fuel opret caps a st calls depth :
  addrxlat_op lim (Some s) rcaps mem fmt_first fmt_next fmt_ptesz wfuel fuel (fun _ => opret) caps a
  = Done st calls ->
  (depth <= MAX_OP_DEPTH)%nat ->
  judge s rcaps mem fmt_first fmt_next fmt_ptesz wfuel fuel 2 caps opret a st calls depth = 0.
Proof.
  intros H Hd. apply judge_exact. split; [exact Hd|].
  pose proof (addrxlat_op_callback fmt_first fmt_next fmt_ptesz wfuel lim (Some s) rcaps mem fuel
                (fun _ => opret) caps a st calls H) as Hcb.
  destruct Hcb as [[-> Hs]|[x [-> ->]]].
  - left. split; [reflexivity|]. split; [exact Hs|].
    intros Hc.
    rewrite (addrxlat_op_passthrough fmt_first fmt_next fmt_ptesz wfuel lim (Some s) rcaps mem fuel
               (fun _ => opret) caps a Hc) in H.
    discriminate.
  - right. exists x. split; [reflexivity|]. split; [reflexivity|]. split.
    + eapply (addrxlat_op_in_caps fmt_first fmt_next fmt_ptesz wfuel); [exact H|now left].
    + exists fuel. split; [lia|].
      apply (addrxlat_op_composition fmt_first fmt_next fmt_ptesz wfuel lim s rcaps mem fuel
               (fun _ => opret) caps a opret [x] H x). now left.
Qed.
