(** Model of the x86-64 part of [addrxlat_sys_os_init] for Linux images
    (src/addrxlat/x86_64.c: [sys_x86_64], [init_pgt_meth], [get_virt_bits],
    [map_linux_x86_64], [get_linux_pgt_root], [linux_rdirect_map],
    [linux_ktext_meth], [linux_ktext_extents], [linux_ktext_map],
    [linux_directmap_by_pgt], [linux_directmap_by_ver], [linux_directmap],
    [vtop_pgt], [is_directmap], [remove_rdirect], [set_pgt_fallback]) and of the
    generic translation operation it relies on (src/addrxlat/sys.c:
    [addrxlat_op], [do_op], [addrxlat_fulladdr_conv]; ctx.c [read32]/[read64]
    going through [addrxlat_op] when the callback cannot read the address
    space directly).

    The image is: the parsed options, the symbol / register / number callbacks
    (as the values of the nine names x86_64.c asks for), the read capabilities
    of the read callback and its memory [raw].

    Not modelled (outcome [UNMODELLED]): Xen ([os_type = xen], [xen_xlat]).
    Allocation succeeds.  No proofs in this file. *)
From Coq Require Import NArith ZArith List Bool.
From KdV Require Import Base.Wrap64 Map.MapModel Xlat.Step Sys.LayoutModel Sys.ScanModel.
Import ListNotations.
Local Open Scope N_scope.

(** * The image *)

Inductive cbres := CbOk (v : N) | CbErr (st : status).

Inductive ostype := OS_UNKNOWN | OS_LINUX | OS_XEN.

Record image := {
  (* options *)
  i_os : ostype;
  i_version : option N;                 (* version_code *)
  i_phys_base : option N;
  i_rootpgt : option (aspace * N);
  i_virt_bits : option N;
  i_xen_xlat : option bool;
  i_page_shift : option N;
  (* callbacks *)
  sym_init_top_pgt : cbres;
  sym_init_level4_pgt : cbres;
  sym_stext : cbres;
  sym_text : cbres;
  sym_page_offset_base : cbres;
  reg_cr3 : cbres;
  reg_cr4 : cbres;
  num_sme_mask : cbres;
  num_pgtable_l5_enabled : cbres;
  (* callbacks of the riscv64 / aarch64 set-ups (Sys/LinuxRvA64Model.v) *)
  sym_swapper_pg_dir : cbres;
  num_va_kernel_pa_offset : cbres;
  num_PAGE_OFFSET : cbres;
  num_VA_BITS : cbres;
  num_kimage_voffset : cbres;
  num_TCR_EL1_T1SZ : cbres;
  (* read callback *)
  caps_kphys : bool; caps_machphys : bool; caps_kv : bool;
  raw : aspace -> N -> rdres
}.

Definition rcaps (img : image) (a : aspace) : bool :=
  match a with
  | KPHYSADDR => caps_kphys img | MACHPHYSADDR => caps_machphys img | KVADDR => caps_kv img
  | NOADDR => false
  end.

(** outcome of the initialisation *)
Inductive ostatus :=
| O_ST (st : status)            (* an [addrxlat_status] *)
| O_L (l : lstatus)             (* undefined behaviour inside the layout code *)
| O_UNMODELLED.

Definition ost_of_l (l : lstatus) : ostatus :=
  match l with L_OK => O_ST OK | L_ERR st => O_ST st | _ => O_L l end.

(** * Constants of x86_64.c *)
Definition PHYSADDR_MASK : N := N.ones 52.
Definition PAGE_MASK : N := N.ones 12.
Definition NONCANONICAL_START : N := 2^47.
Definition NONCANONICAL_END : N := MAXA - 2^47.
Definition NONCANONICAL_5L_START : N := 2^56.
Definition NONCANONICAL_5L_END : N := MAXA - 2^56.
Definition LINUX_KTEXT_START : N := 0xffffffff80000000.
Definition LINUX_KTEXT_END_NOKASLR : N := 0xffffffff9fffffff.
Definition LINUX_KTEXT_END : N := 0xffffffffbfffffff.
Definition DM_START_2_6_0 : N := 0x0000010000000000.
Definition DM_END_2_6_0 : N := 0x000001ffffffffff.
Definition DM_START_2_6_11 : N := 0xffff810000000000.
Definition DM_END_2_6_11 : N := 0xffffc0ffffffffff.
Definition DM_START_2_6_27 : N := 0xffff880000000000.
Definition DM_END_2_6_27 : N := 0xffffc0ffffffffff.
Definition DM_START_2_6_31 : N := DM_START_2_6_27.
Definition DM_END_2_6_31 : N := 0xffffc7ffffffffff.
Definition DM_START_5LEVEL : N := 0xff11000000000000.
Definition DM_END_5LEVEL : N := 0xff90ffffffffffff.
Definition VER_LINUX (a b c : N) : N := a * 65536 + b * 256 + c.

(** * The generic translation operation (sys.c) *)

Inductive chain := CH_KV2PHYS | CH_KPHYS2MACHPHYS | CH_KPHYS2DIRECT | CH_KPHYS2ANY | CH_MACHPHYS2DIRECT.

Definition chain_alts (c : chain) : list (list sysmap) :=
  match c with
  | CH_KV2PHYS => [[MAP_KV_PHYS; MAP_HW]; [MAP_MACHPHYS_KPHYS; MAP_KPHYS_MACHPHYS]]
  | CH_KPHYS2MACHPHYS => [[MAP_KPHYS_MACHPHYS]]
  | CH_KPHYS2DIRECT => [[MAP_KPHYS_DIRECT]]
  | CH_KPHYS2ANY => [[MAP_KPHYS_MACHPHYS; MAP_KPHYS_DIRECT]]
  | CH_MACHPHYS2DIRECT => [[MAP_MACHPHYS_KPHYS]; [MAP_KPHYS_DIRECT]]
  end.

Definition map_expect_as (m : sysmap) : aspace :=
  match m with
  | MAP_HW | MAP_KV_PHYS => KVADDR
  | MAP_KPHYS_DIRECT | MAP_KPHYS_MACHPHYS => KPHYSADDR
  | MAP_MACHPHYS_KPHYS => MACHPHYSADDR
  end.

Definition aspace_eqb (a b : aspace) : bool :=
  match a, b with
  | KPHYSADDR, KPHYSADDR | MACHPHYSADDR, MACHPHYSADDR | KVADDR, KVADDR | NOADDR, NOADDR => true
  | _, _ => false
  end.

Definition chain_eqb (a b : chain) : bool :=
  match a, b with
  | CH_KV2PHYS, CH_KV2PHYS | CH_KPHYS2MACHPHYS, CH_KPHYS2MACHPHYS | CH_KPHYS2DIRECT, CH_KPHYS2DIRECT
  | CH_KPHYS2ANY, CH_KPHYS2ANY | CH_MACHPHYS2DIRECT, CH_MACHPHYS2DIRECT => true
  | _, _ => false
  end.

Definition inflight : Type := (aspace * N * chain)%type.

Definition walk_fuel : nat := 16.

Section Op.
Variable img : image.

(** what one alternative of [do_op] does *)
Inductive altres :=
| A_DONE (a : aspace) (x : N)          (* reached an address space in [caps]: [ctl->op] is called *)
| A_NEXT (a : aspace) (x : N)          (* translated, continue with the next element of the chain *)
| A_SKIP                               (* [continue] *)
| A_FAIL (st : status).

(** [addrxlat_op] up to the call of [ctl->op]: the full address the operation
    is applied to, or the failure status.  [caps] = [ctl->caps]. *)
Fixpoint op (fuel : nat) (s : sys) (infl : list inflight) (caps : aspace -> bool)
         (pa : aspace * N) {struct fuel} : status * (aspace * N) :=
  match fuel with
  | O => (NOFUEL, pa)
  | S fuel' =>
    let '(pas, paddr) := pa in
    if caps pas then (OK, pa) else
    if negb (caps KVADDR || caps KPHYSADDR || caps MACHPHYSADDR) then (NOMETH, pa) else
    let ch := match pas with
              | KVADDR => Some CH_KV2PHYS
              | KPHYSADDR => Some (if caps MACHPHYSADDR
                                   then (if caps KVADDR then CH_KPHYS2ANY else CH_KPHYS2MACHPHYS)
                                   else CH_KPHYS2DIRECT)
              | MACHPHYSADDR => Some CH_MACHPHYS2DIRECT
              | NOADDR => None
              end in
    match ch with
    | None => (NOTIMPL, pa)
    | Some ch =>
      if existsb (fun i => let '(a, x, c) := i in aspace_eqb a pas && (x =? paddr) && chain_eqb c ch) infl
      then (NOMETH, pa) else
      let infl' := (pas, paddr, ch) :: infl in
      (* ctx.c read32/read64 during the walks of do_op *)
      let rd (a : aspace) (x : N) : rdres :=
        if rcaps img a then raw img a x else
        match op fuel' s infl' (rcaps img) (a, x) with
        | (OK, (a', x')) => raw img a' x'
        | (st, _) => RdErr st
        end in
      (* one map of one alternative *)
      let try_map (cur : aspace * N) (mi : sysmap) : altres :=
        let '(cas, caddr) := cur in
        if negb (aspace_eqb cas (map_expect_as mi)) then A_SKIP else
        match get_map s mi with
        | None => A_SKIP
        | Some mp =>
          let methidx := MapModel.map_search mp caddr in
          if (methidx <? 0)%Z then A_SKIP else
          let me := get_meth s (Z.to_nat methidx) in
          match m_kind (sm me) with
          | KLinear off =>
              let la := m_target (sm me) in
              let lx := w (caddr + Z.to_N (off mod 2^64)%Z) in
              if caps la then A_DONE la lx else A_NEXT la lx
          | _ =>
              match addrxlat_walk rd (sm me) walk_fuel (init_step caddr) with
              | (OK, st) => if caps (s_as st) then A_DONE (s_as st) (s_base st)
                            else A_NEXT (s_as st) (s_base st)
              | (NOMETH, _) | (NODATA, _) => A_SKIP
              | (e, _) => A_FAIL e
              end
          end
        end in
      let fix alt_loop (cur : aspace * N) (maps : list sysmap) : altres :=
        match maps with
        | [] => A_SKIP
        | mi :: rest =>
          match try_map cur mi with
          | A_SKIP => alt_loop cur rest
          | r => r
          end
        end in
      let fix chain_loop (cur : aspace * N) (alts : list (list sysmap)) : status * (aspace * N) :=
        match alts with
        | [] => (NOMETH, cur)
        | alt :: rest =>
          match alt_loop cur alt with
          | A_DONE a x => (OK, (a, x))
          | A_NEXT a x => chain_loop (a, x) rest
          | A_SKIP => chain_loop cur rest
          | A_FAIL st => (st, cur)
          end
        end in
      chain_loop pa (chain_alts ch)
    end
  end.

Definition op_fuel : nat := 8.

(** memory as the step machine sees it during initialisation *)
Definition rd (s : sys) (a : aspace) (x : N) : rdres :=
  if rcaps img a then raw img a x else
  match op op_fuel s [] (rcaps img) (a, x) with
  | (OK, (a', x')) => raw img a' x'
  | (st, _) => RdErr st
  end.

(** [addrxlat_fulladdr_conv(faddr, as, ctx, sys)] *)
Definition fulladdr_conv (s : sys) (fa : aspace * N) (target : aspace) : status * N :=
  match op op_fuel s [] (aspace_eqb target) fa with
  | (OK, (_, x)) => (OK, x)
  | (st, _) => (st, snd fa)
  end.

(** * x86_64.c *)

Definition pgt_meth (s : sys) : meth := sm (get_meth s METH_PGT).
Definition pgt_pf (s : sys) : pform :=
  match m_kind (pgt_meth s) with
  | KPgt _ _ _ pf => pf
  | _ => {| pte_format := PTE_NONE; fieldsz := [] |}
  end.

(** [vtop_pgt]: walk + conversion of the result to KPHYSADDR *)
Definition vtop_pgt (s : sys) (addr : N) : status * N :=
  match addrxlat_walk (rd s) (pgt_meth s) walk_fuel (init_step addr) with
  | (OK, st) => fulladdr_conv s (s_as st, s_base st) KPHYSADDR
  | (e, _) => (e, addr)
  end.

(** [is_directmap] *)
Definition is_directmap (s : sys) (addr : N) : bool :=
  match vtop_pgt s addr with
  | (OK, p) => p =? 0
  | _ => false
  end.

(** [remove_rdirect] *)
Definition remove_rdirect (s : sys) : sys :=
  let me := get_meth s METH_RDIRECT in
  let s1 := set_meth s METH_RDIRECT
              {| sm := {| m_kind := KNone; m_target := m_target (sm me) |}; sm_off := lin_off me |} in
  set_map s1 MAP_KPHYS_DIRECT None.

(** [linux_directmap_by_ver] *)
Definition linux_directmap_by_ver (ver : N) : status * (N * N) :=
  if VER_LINUX 4 8 0 <=? ver then (NOMETH, (0, 0)) else
  if VER_LINUX 2 6 31 <=? ver then (OK, (DM_START_2_6_31, DM_END_2_6_31)) else
  if VER_LINUX 2 6 27 <=? ver then (OK, (DM_START_2_6_27, DM_END_2_6_27)) else
  if VER_LINUX 2 6 11 <=? ver then (OK, (DM_START_2_6_11, DM_END_2_6_11)) else
  if VER_LINUX 2 6 0 <=? ver then (OK, (DM_START_2_6_0, DM_END_2_6_0)) else
  (NOTIMPL, (0, 0)).

Definition lvl_fuel : nat := 12.
Variable hl_fuel : nat.

(** the scanning primitives on the kernel page table of [s] *)
Definition kv2kphys (s : sys) (a : N) : status * N := fulladdr_conv s (KVADDR, a) KPHYSADDR.
Definition s_lowest_mapped (s : sys) (addr limit : N) : scanres :=
  lowest_mapped (rd s) (pgt_meth s) (pgt_pf s) lvl_fuel addr limit.
Definition s_highest_linear (s : sys) (addr limit off : N) : status * N :=
  highest_linear (rd s) (pgt_meth s) (pgt_pf s) (kv2kphys s) hl_fuel lvl_fuel addr limit off.

(** [linux_directmap_by_pgt]: status and the region [first, last] *)
Definition linux_directmap_by_pgt (s : sys) : status * (N * N) :=
  if is_directmap s DM_START_2_6_0 then
    let '(st, last) := s_highest_linear s DM_START_2_6_0 DM_END_2_6_0 (wsub 0 DM_START_2_6_0) in
    (st, (DM_START_2_6_0, last))
  else if is_directmap s DM_START_2_6_11 then
    let '(st, last) := s_highest_linear s DM_START_2_6_11 DM_END_2_6_11 (wsub 0 DM_START_2_6_11) in
    (st, (DM_START_2_6_11, last))
  else
    let '(first0, end_) := if Nat.eqb (length (fieldsz (pgt_pf s))) 6
                           then (DM_START_5LEVEL, DM_END_5LEVEL)
                           else (DM_START_2_6_31, DM_END_2_6_31) in
    match s_lowest_mapped s first0 end_ with
    | (OK, _, first) =>
        let '(st, last) := s_highest_linear s first end_ (wsub 0 first) in
        (st, (first, last))
    | _ => (NOTIMPL, (first0, first0))
    end.

(** [linux_directmap] *)
Definition linux_directmap (s : sys) : ostatus * sys :=
  let '(st, rgn) := linux_directmap_by_pgt s in
  let '(st, rgn) := match st, i_version img with
                    | OK, _ => (st, rgn)
                    | _, Some ver => linux_directmap_by_ver ver
                    | _, None => (st, rgn)
                    end in
  let s := remove_rdirect s in
  match st with
  | OK =>
    match sys_set_layout s MAP_KV_PHYS
            [ {| r_first := fst rgn; r_last := snd rgn; r_meth := METH_DIRECT; r_act := ACT_DIRECT |} ] with
    | (L_OK, s') => (O_ST OK, s')
    | (l, s') => (ost_of_l l, s')
    end
  | _ => (O_ST OK, s)
  end.

(** [set_ktext_offset] *)
Definition set_ktext_offset (s : sys) (off : N) : sys :=
  set_meth s METH_KTEXT (mk_linear KPHYSADDR (s64 off)).

(** [set_pgt_fallback] *)
Definition set_pgt_fallback (s : sys) (idx : nat) : sys :=
  match m_kind (sm (get_meth s idx)) with
  | KNone => set_meth s idx (get_meth s METH_PGT)
  | _ => s
  end.

(** [meth->param.linear.off = off] on a method whose kind is left alone *)
Definition set_lin_off (s : sys) (idx : nat) (off : Z) : sys :=
  let me := get_meth s idx in
  match m_kind (sm me) with
  | KLinear _ => set_meth s idx {| sm := {| m_kind := KLinear off; m_target := m_target (sm me) |}; sm_off := off |}
  | _ => set_meth s idx {| sm := sm me; sm_off := off |}
  end.

(** [linux_rdirect_map] *)
Definition rdirect_layout : list region :=
  [ {| r_first := 0; r_last := PHYSADDR_MASK; r_meth := METH_RDIRECT; r_act := ACT_RDIRECT |} ].

Fixpoint rdirect_fixed (s : sys) (locs : list N) : ostatus * sys :=
  match locs with
  | [] => (O_ST OK, s)                      (* "return ADDRXLAT_NOMETH": the kind enumerator, = 0 *)
  | loc :: rest =>
    let s1 := set_lin_off s METH_DIRECT (neg_u64 loc) in
    match sys_set_layout s1 MAP_KPHYS_DIRECT rdirect_layout with
    | (L_OK, s2) =>
        if is_directmap s2 loc then (O_ST OK, s2)
        else rdirect_fixed (remove_rdirect s2) rest
    | (l, s2) => (ost_of_l l, s2)
    end
  end.

Definition linux_rdirect_map (s : sys) : ostatus * sys :=
  if negb (caps_kv img) then (O_ST NOMETH, s) else
  let fixed := [DM_START_2_6_0; DM_START_2_6_11; DM_START_2_6_31] in
  match sym_page_offset_base img with
  | CbOk po =>
    match raw img KVADDR po with
    | RdErr e => (O_ST e, s)
    | RdOk v =>
      let val := v mod 2^64 in
      let s1 := set_lin_off s METH_DIRECT (neg_u64 val) in
      match sys_set_layout s1 MAP_KPHYS_DIRECT rdirect_layout with
      | (L_OK, s2) => if is_directmap s2 val then (O_ST OK, s2) else rdirect_fixed s2 fixed
      | (l, s2) => (ost_of_l l, s2)
      end
    end
  | CbErr _ => rdirect_fixed s fixed
  end.

(** [linux_ktext_meth] *)
Definition linux_ktext_meth (s : sys) : status * sys :=
  match i_phys_base img with
  | Some pb => (OK, set_ktext_offset s (wsub pb LINUX_KTEXT_START))
  | None =>
    let by_sym (stext : N) : status * sys :=
      match vtop_pgt s stext with
      | (OK, paddr) => (OK, set_ktext_offset s (wsub paddr stext))
      | (e, _) => (e, s)
      end in
    let by_scan : status * sys :=
      match s_lowest_mapped s LINUX_KTEXT_START LINUX_KTEXT_END with
      | (OK, st, stext) =>
        match fulladdr_conv s (s_as st, s_base st) KPHYSADDR with
        | (OK, p) => (OK, set_ktext_offset s (wsub p stext))
        | (e, _) => (e, s)
        end
      | (e, _, _) => (e, s)
      end in
    match sym_stext img with
    | CbOk v => by_sym v
    | CbErr NODATA =>
      match sym_text img with
      | CbOk v => by_sym v
      | CbErr NODATA => by_scan
      | CbErr e => (e, s)
      end
    | CbErr e => (e, s)
    end
  end.

(** [linux_ktext_extents] *)
Definition linux_ktext_extents (s : sys) : status * (N * N) :=
  match s_lowest_mapped s LINUX_KTEXT_START LINUX_KTEXT_END with
  | (OK, _, low) =>
    let linearoff := Z.to_N (lin_off (get_meth s METH_KTEXT) mod 2^64)%Z in
    let '(st, high) :=
      if low <=? LINUX_KTEXT_END_NOKASLR
      then s_highest_linear s low LINUX_KTEXT_END_NOKASLR linearoff
      else (OK, low) in
    match st with
    | OK =>
      if LINUX_KTEXT_END_NOKASLR <=? high then
        let high1 := wadd high 1 in
        match s_highest_linear s high1 LINUX_KTEXT_END linearoff with
        | (NOTPRESENT, h) => (OK, (low, wsub h 1))
        | (st2, h) => (st2, (low, h))
        end
      else (OK, (low, high))
    | _ => (st, (low, high))
    end
  | (e, _, low) => (e, (low, low))
  end.

Definition nonfatal (st : status) : bool :=
  match st with NOMETH | NODATA | NOTPRESENT => true | _ => false end.

Definition kv_map_set (s : sys) (addr endoff : N) (meth : nat) : ostatus * sys :=
  match get_map s MAP_KV_PHYS with
  | None => (O_L L_MAPOOB, s)              (* NULL map dereferenced *)
  | Some m =>
    match MapModel.map_set m addr {| MapModel.endoff := endoff; MapModel.meth := Z.of_nat meth |} true with
    | MapModel.Ok m' => (O_ST OK, set_map s MAP_KV_PHYS (Some m'))
    | MapModel.NoMem => (O_ST NOMEM, s)
    | MapModel.OOB => (O_L L_MAPOOB, s)
    end
  end.

(** [linux_ktext_map] *)
Definition linux_ktext_map (s : sys) : ostatus * sys :=
  match linux_ktext_meth s with
  | (OK, s1) =>
    let after_root (s2 : sys) : ostatus * sys :=
      match linux_ktext_extents s2 with
      | (OK, (low, high)) => kv_map_set s2 low (wsub high low) METH_KTEXT
      | (e, _) => if nonfatal e then (O_ST OK, s2) else (O_ST e, s2)
      end in
    match m_kind (pgt_meth s1) with
    | KPgt KVADDR root _ _ =>
      match kv_map_set s1 root PAGE_MASK METH_KTEXT with
      | (O_ST OK, s2) => after_root s2
      | bad => bad
      end
    | _ => after_root s1
    end
  | (e, s1) => if nonfatal e then (O_ST OK, s1) else (O_ST e, s1)
  end.

(** [get_linux_pgt_root] *)
Definition get_linux_pgt_root (root : aspace * N) : status * (aspace * N) :=
  match fst root with
  | NOADDR =>
    match sym_init_top_pgt img with
    | CbOk v => (OK, (KVADDR, v))
    | CbErr NODATA =>
      match sym_init_level4_pgt img with
      | CbOk v => (OK, (KVADDR, v))
      | CbErr NODATA =>
        match reg_cr3 img with
        | CbOk v => (OK, (MACHPHYSADDR, v))
        | CbErr NODATA => (OK, root)
        | CbErr e => (e, root)
        end
      | CbErr e => (e, root)
      end
    | CbErr e => (e, root)
    end
  | _ => (OK, root)
  end.

Definition set_pgt (s : sys) (root : aspace * N) (mask : N) (pf : pform) : sys :=
  set_meth s METH_PGT
    {| sm := {| m_kind := KPgt (fst root) (snd root) mask pf; m_target := MACHPHYSADDR |};
       sm_off := sm_off (get_meth s METH_PGT) |}.

(** [map_linux_x86_64] *)
Definition map_linux_x86_64 (s : sys) : ostatus * sys :=
  match m_kind (pgt_meth s) with
  | KPgt ras raddr mask pf =>
    match get_linux_pgt_root (ras, raddr) with
    | (OK, root) =>
      let root := (fst root, N.ldiff (snd root) PAGE_MASK) in
      let s1 := set_pgt s root mask pf in
      let sme := match num_sme_mask img with
                 | CbOk v => inl v
                 | CbErr NODATA => inl mask
                 | CbErr e => inr e
                 end in
      match sme with
      | inr e => (O_ST e, s1)
      | inl mask' =>
        let s2 := set_pgt s1 root mask' pf in
        match i_xen_xlat img with
        | Some true => (O_UNMODELLED, s2)
        | _ =>
          let '(st3, s3) :=
            if negb (caps_machphys img) && negb (caps_kphys img) then
              match linux_rdirect_map s2 with
              | (O_ST st, s') => if is_ok st || nonfatal st then (O_ST OK, s') else (O_ST st, s')
              | bad => bad
              end
            else (O_ST OK, s2) in
          match st3 with
          | O_ST OK =>
            match linux_ktext_map s3 with
            | (O_ST OK, s4) => linux_directmap (set_pgt_fallback s4 METH_KTEXT)
            | bad => bad
            end
          | _ => (st3, s3)
          end
        end
      end
    | (e, root) => (O_ST e, set_pgt s root mask pf)
    end
  | _ => (O_UNMODELLED, s)
  end.

(** [get_virt_bits] *)
Definition get_virt_bits : status * N :=
  match i_virt_bits img with
  | Some v => (OK, v)
  | None =>
    match reg_cr4 img with
    | CbOk cr4 => (OK, if N.testbit cr4 12 then 57 else 48)
    | CbErr NODATA =>
      match i_os img with
      | OS_LINUX =>
        match num_pgtable_l5_enabled img with
        | CbOk v => (OK, if v =? 0 then 48 else 57)
        | CbErr NODATA =>
          match sym_stext img with
          | CbOk _ => (OK, 48)
          | CbErr NODATA =>
            match i_version img with
            | Some ver => if ver <? VER_LINUX 4 13 0 then (OK, 48) else (NODATA, 0)
            | None => (NODATA, 0)
            end
          | CbErr e => (e, 0)
          end
        | CbErr e => (e, 0)
        end
      | OS_XEN => (OK, 48)
      | OS_UNKNOWN => (NOTIMPL, 0)
      end
    | CbErr e => (e, 0)
    end
  end.

Definition x86_64_fields (n : nat) : list N := firstn n [12; 9; 9; 9; 9; 9].

Definition layout_generic : list region :=
  [ {| r_first := 0; r_last := NONCANONICAL_START - 1; r_meth := METH_PGT; r_act := ACT_NONE |};
    {| r_first := NONCANONICAL_END + 1; r_last := MAXA; r_meth := METH_PGT; r_act := ACT_NONE |} ].
Definition layout_5level : list region :=
  [ {| r_first := 0; r_last := NONCANONICAL_5L_START - 1; r_meth := METH_PGT; r_act := ACT_NONE |};
    {| r_first := NONCANONICAL_5L_END + 1; r_last := MAXA; r_meth := METH_PGT; r_act := ACT_NONE |} ].

(** [sys_x86_64] (after [init_pgt_meth]) on a fresh translation system *)
Definition sys_x86_64 : ostatus * sys :=
  let s0 := sys_new in
  let root := match i_rootpgt img with Some r => r | None => (NOADDR, 0) end in
  let pgt n := {| pte_format := PTE_X86_64; fieldsz := x86_64_fields n |} in
  let s1 := set_pgt s0 root 0 (pgt 5%nat) in
  match get_virt_bits with
  | (OK, vb) =>
    let nf := if vb =? 48 then Some 5%nat else if vb =? 57 then Some 6%nat else None in
    match nf with
    | None => (O_ST NOTIMPL, s1)
    | Some n =>
      let s2 := set_pgt s1 root 0 (pgt n) in
      match sys_set_layout s2 MAP_HW (if Nat.eqb n 6 then layout_5level else layout_generic) with
      | (L_OK, s3) =>
        let s4 := set_map s3 MAP_KV_PHYS (get_map s3 MAP_HW) in      (* internal_map_copy *)
        match sys_set_physmaps s4 PHYSADDR_MASK with
        | (L_OK, s5) =>
          match i_os img with
          | OS_LINUX => map_linux_x86_64 s5
          | OS_XEN => (O_UNMODELLED, s5)
          | OS_UNKNOWN => (O_ST OK, s5)
          end
        | (l, s5) => (ost_of_l l, s5)
        end
      | (l, s3) => (ost_of_l l, s3)
      end
    end
  | (e, _) => (O_ST e, s1)
  end.

(** what a client does with the result: look the address up in one map, walk
    the method, convert the result (the driver's [xlat_via]) *)
Definition xlat_via (s : sys) (mi : sysmap) (target : aspace) (addr : N) : status * N :=
  match get_map s mi with
  | None => (NOMETH, addr)
  | Some mp =>
    let i := MapModel.map_search mp addr in
    if (i <? 0)%Z then (NOMETH, addr) else
    match addrxlat_walk (rd s) (sm (get_meth s (Z.to_nat i))) walk_fuel (init_step addr) with
    | (OK, st) => fulladdr_conv s (s_as st, s_base st) target
    | (e, _) => (e, addr)
    end
  end.

End Op.
