(** C09: the page-table formats of the walk agent's step machine
    (Xlat/Step.v) as the format parameters of Sys/ChainInterp.v.

    ChainInterp.v needs, per format, the first-step function, the transition
    on the raw PTE that was read at [step->base], and the PTE size.  Step.v's
    per-format next-step functions take the memory as a function [readmem];
    [step_next] runs them on the constant memory that answers with the given
    raw PTE.  [next_step_one_read] shows that this loses nothing: every
    next-step function of Step.v reads exactly once, at [step->base], with
    the format's PTE size (or not at all), and does with the value what
    [step_next] does. *)
From Coq Require Import NArith ZArith List Bool.
From KdV Require Import Base.Wrap64 Xlat.Step.
Import ListNotations.
Local Open Scope N_scope.

(** pf_max_fields (step.c, fixes/90-pgt-too-many-fields.patch): the number of
    paging levels the architecture defines plus one *)
Definition pf_max_fields (f : ptefmt) : nat :=
  match f with
  | PTE_ARM | PTE_IA32 => 3
  | PTE_IA32_PAE => 4
  | PTE_PPC64_LINUX_RPN30 => 5
  | PTE_AARCH64 | PTE_AARCH64_LPA | PTE_AARCH64_LPA2 | PTE_RISCV64 | PTE_S390X | PTE_X86_64 => 6
  | _ => 8
  end%nat.

(** first_step_pgt with the check of the repaired tree in front *)
Definition step_first (ras : aspace) (root : N) (pf : pform) (addr : N) : status * step :=
  if (pf_max_fields (pte_format pf) <? length (fieldsz pf))%nat then (NOTIMPL, init_step addr)
  else first_step_pgt ras root pf (init_step addr) addr.

Definition step_next (tgt : aspace) (mask : N) (pf : pform) (s : step) (raw : N) : status * step :=
  next_step_pgt (fun _ _ => RdOk raw) tgt mask pf s.

Definition step_ptesz (pf : pform) : option N :=
  match pte_format pf with
  | PTE_NONE | PTE_RISCV32 => None
  | f => pte_size f
  end.

Lemma next_step_one_read rm tgt mask pf s :
  (forall a x, rm a x <> RdErr OK) ->          (* a failed read has a status *)
  next_step_pgt rm tgt mask pf s =
  match step_ptesz pf with
  | None => step_next tgt mask pf s 0
  | Some _ =>
      match rm (s_as s) (s_base s) with
      | RdOk v => step_next tgt mask pf s v
      | RdErr e => (e, s)
      end
  end.
Proof.
  intros Hrm. unfold step_ptesz, step_next, next_step_pgt.
  pose proof (Hrm (s_as s) (s_base s)) as Hn.
  destruct (pte_format pf); cbn [pte_size]; try reflexivity;
    unfold next_step_pfn32, next_step_pfn64, pgt_aarch64, pgt_aarch64_lpa, pgt_aarch64_lpa2,
      pgt_aarch64_common, pgt_ia32, pgt_ia32_pae, pgt_x86_64, pgt_s390x, pgt_arm, pgt_riscv64,
      pgt_ppc64_linux_rpn30, pgt_ppc64_linux, read_pte32, read_pte64, read32, read64;
    (destruct (rm (s_as s) (s_base s)) as [v|e]; [reflexivity|]);
    (destruct e; try reflexivity; contradiction).
Qed.
