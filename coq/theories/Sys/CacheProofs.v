(** C09, proofs about the cached interpreter (section [Cached] of
    Sys/ChainInterp.v): for a get-page callback that does not re-enter the
    library the read cache is invisible -- the cached interpreter computes
    what the interpreter over the memory function [mem_of gp big] computes,
    whatever the cache holds; with a re-entrant callback every run still ends
    within the library's depth bound, and a read that lands in the slot whose
    fill is in progress is refused with ADDRXLAT_ERR_NODATA. *)
From Coq Require Import NArith ZArith List Bool Lia.
From KdV Require Import Base.Wrap64 Map.MapModel Sys.ChainInterp Sys.SysSpec Sys.SysProofs.
From KdV Require Xlat.Step Hist.ReadCache Hist.ReadCacheProofs.
Import ListNotations.
Local Open Scope N_scope.

Module RC := ReadCache.
Module RCP := ReadCacheProofs.

Lemma read_slot_not_fail sl a n : RC.read_slot sl a n <> RC.RFail.
Proof.
  unfold RC.read_slot. destruct (RC.ptr sl); [|discriminate].
  destruct (_ <? _); [discriminate|]. unfold RC.cut. destruct (_ <? _); discriminate.
Qed.

Section Transparent.
  Variable lim : option nat.
  Variable osys : option sys.
  Variable rcaps : N.
  Variable gp : N -> N -> Z + (N * N * list N).
  Variable big : N -> N -> bool.
  Variable fmt_first : Step.aspace -> N -> Step.pform -> N -> Step.status * Step.step.
  Variable fmt_next : Step.aspace -> N -> Step.pform -> Step.step -> N -> Step.status * Step.step.
  Variable fmt_ptesz : Step.pform -> option N.
  Variable wfuel : nat.

  Notation gpo := (gp_region gp).
  Notation nobacking := (fun _ : N => @None N).

  (** the callback answers with a region that contains the requested address,
      of the advertised length, not wrapping; it is a function of the region;
      and when it fails it fails with a status other than ADDRXLAT_OK *)
  Hypothesis gp_ok : forall a_as a b s d,
    gpo a_as a = Some (b, s, d) -> b <= a < b + s /\ N.of_nat (length d) = s /\ b + s <= W.
  Hypothesis gp_reg : forall a_as a b s d a',
    gpo a_as a = Some (b, s, d) -> b <= a' < b + s -> gpo a_as a' = Some (b, s, d).
  Hypothesis gp_fail : forall a_as a st, gp a_as a = inl st -> st <> ST_OK.

  Notation inv := (RCP.inv gpo).
  Notation mem := (mem_of gp big).

  (** what an operation of kind [kind] yields once the interpreter over [mem]
      has produced [r] *)
  Definition xres_of_rres (r : rres) : xres :=
    match r with RVal v => XVal v | RErr st => XErr st | RFuel => XFuel | RUB => XUB end.
  Definition expected (kind : opkind) (r : cres) : xres :=
    match r with
    | Call x => match kind with KStore => XCall x | KRead sz => xres_of_rres (do_read mem x sz) end
    | Err st => XErr st
    | OutOfFuel => XFuel
    | UB => XUB
    end.

  Section Level.
    Variable nested_c : list key -> N -> opkind -> fulladdr -> cache -> xres * cache.
    Variable nested : list key -> fulladdr -> cres.
    Hypothesis nested_ok : forall infl sz fa c, inv c ->
      exists c', nested_c infl rcaps (KRead sz) fa c = (expected (KRead sz) (nested infl fa), c') /\ inv c'.

    Lemma get_cache_buf_plain infl c a_as a :
      get_cache_buf gp nobacking nested_c infl c a_as a =
      (let '(c', _, r) := RC.get_cache_buf gpo c a_as a in
       (match r with
        | RC.GOk i => BSlot i
        | RC.GRecursion => BErr ST_NODATA
        | RC.GFail => match gp a_as a with
                      | inl st => if (st =? ST_OK)%Z then BUB else BErr st
                      | inr _ => BErr ST_NODATA
                      end
        end, c')).
    Proof.
      unfold get_cache_buf, RC.get_cache_buf, RC.get_cache_buf_re, run_callback.
      destruct (RC.find_slot c a_as a) as [i|].
      - unfold RC.finish. destruct (RC.ptr (RC.get_slot c i)); reflexivity.
      - destruct (RC.miss_begin c a_as a) as [[c1 ev1] v].
        unfold gp_region. destruct (gp a_as a) as [st|r].
        + cbn [RC.miss_end]. destruct (st =? ST_OK)%Z; reflexivity.
        + destruct r as [[b sz] d]. cbn [RC.miss_end].
          destruct (RC.finish _ v) as [c4 r4] eqn:Ef.
          unfold RC.finish in Ef. destruct (RC.ptr _); injection Ef as <- <-; reflexivity.
    Qed.

    Lemma do_read_c_ok infl c fa sz :
      inv c ->
      exists c', do_read_c gp big nobacking nested_c infl c fa sz = (do_read mem fa sz, c') /\ inv c'.
    Proof.
      intros Hinv. unfold do_read_c, do_read, mem_of.
      destruct (negb (N.land (fa_addr fa) (sz - 1) =? 0) || (W <=? fa_addr fa)) eqn:Eal.
      - exists c. split; [reflexivity|exact Hinv].
      - apply orb_false_elim in Eal. destruct Eal as [_ Ew]. apply N.leb_gt in Ew.
        rewrite get_cache_buf_plain.
        destruct (RC.get_cache_buf gpo c (Z.to_N (fa_as fa)) (fa_addr fa)) as [[c' ev] r] eqn:Eg.
        pose proof (RCP.read_ok gpo gp_ok gp_reg c (Z.to_N (fa_as fa)) (fa_addr fa) sz) as Hr.
        unfold RC.read in Hr. rewrite Eg in Hr.
        destruct (Hr c' ev _ Hinv Ew eq_refl) as [Hinv' Hd].
        exists c'. split; [|exact Hinv'].
        unfold RC.direct, gp_region in Hd.
        destruct (gp (Z.to_N (fa_as fa)) (fa_addr fa)) as [st|[[b s] d]] eqn:Egp.
        + destruct r as [i| |]; cbn [RC.gres_to_rres] in Hd.
          * exfalso. exact (read_slot_not_fail _ _ _ Hd).
          * pose proof (gp_fail _ _ _ Egp) as Hn. apply Z.eqb_neq in Hn. rewrite Hn. reflexivity.
          * discriminate.
        + destruct r as [i| |]; cbn [RC.gres_to_rres] in Hd.
          * rewrite Hd. destruct (s <? fa_addr fa - b + sz); [reflexivity|].
            destruct (RC.cut d (fa_addr fa - b) sz); reflexivity.
          * destruct (s <? fa_addr fa - b + sz); [discriminate|].
            unfold RC.cut in Hd. destruct (_ <? _); discriminate.
          * destruct (s <? fa_addr fa - b + sz); [discriminate|].
            unfold RC.cut in Hd. destruct (_ <? _); discriminate.
    Qed.

    Notation read_c' := (read_c rcaps gp big nobacking nested_c).
    Notation read' := (read rcaps mem nested).

    Lemma read_c_ok infl c fa sz :
      inv c -> exists c', read_c' infl c fa sz = (read' infl fa sz, c') /\ inv c'.
    Proof.
      intros Hinv. unfold read_c, read.
      destruct (caps_has rcaps (fa_as fa)) as [[|]|].
      - now apply do_read_c_ok.
      - destruct (nested_ok infl sz fa c Hinv) as [c1 [Hn Hinv1]]. rewrite Hn.
        exists c1. split; [|exact Hinv1].
        destruct (nested infl fa) as [x|st| |]; cbn [expected]; try reflexivity.
        destruct (do_read mem x sz); reflexivity.
      - exists c. now split.
    Qed.

    Lemma pgt_levels_c_ok infl tas pte64 mask sh0 idxs : forall base c,
      inv c ->
      exists c', pgt_levels_c rcaps gp big nobacking nested_c infl tas pte64 mask sh0 idxs base c =
                 (pgt_levels rcaps mem nested infl tas pte64 mask sh0 idxs base, c') /\ inv c'.
    Proof.
      induction idxs as [|i tl IH]; intros base c Hinv; cbn [pgt_levels_c pgt_levels].
      - exists c. now split.
      - destruct (read_c_ok infl c
                    (FA (xadd (fa_addr base) (xmul i (if pte64 then 8 else 4))) (fa_as base))
                    (if pte64 then 8 else 4) Hinv) as [c1 [Hr Hinv1]].
        rewrite Hr. destruct (read' infl _ _) as [raw|st| |].
        + destruct (N.ldiff raw mask =? 0); [exists c1; now split|now apply IH].
        + exists c1. now split.
        + exists c1. now split.
        + exists c1. now split.
    Qed.

    Lemma fwalk_loop_c_ok infl tgt mask pf : forall wf s c,
      inv c ->
      exists c', fwalk_loop_c rcaps gp big nobacking fmt_next fmt_ptesz nested_c wf infl tgt mask pf s c =
                 (fwalk_loop rcaps mem fmt_next fmt_ptesz nested wf infl tgt mask pf s, c') /\ inv c'.
    Proof.
      induction wf as [|wf IH]; intros s c Hinv; cbn [fwalk_loop_c fwalk_loop].
      - exists c. now split.
      - destruct (Step.s_remain s) as [|r]; [exists c; now split|].
        destruct (Step.advance s r) as [s1|]; [|exists c; now split].
        destruct r as [|r']; [exists c; now split|].
        assert (Hc : forall raw c0, inv c0 ->
          exists c',
            (let '(st, s2) := fmt_next tgt mask pf s1 raw in
             match st_of st with
             | Some e => if (e =? ST_OK)%Z
                         then fwalk_loop_c rcaps gp big nobacking fmt_next fmt_ptesz nested_c wf infl
                                           tgt mask pf s2 c0
                         else (WErr e, c0)
             | None => (WUB, c0)
             end) =
            ((let '(st, s2) := fmt_next tgt mask pf s1 raw in
              match st_of st with
              | Some e => if (e =? ST_OK)%Z
                          then fwalk_loop rcaps mem fmt_next fmt_ptesz nested wf infl tgt mask pf s2
                          else WErr e
              | None => WUB
              end), c') /\ inv c').
        { intros raw c0 H0. destruct (fmt_next tgt mask pf s1 raw) as [st s2].
          destruct (st_of st) as [e|]; [|exists c0; now split].
          destruct (e =? ST_OK)%Z; [now apply IH|exists c0; now split]. }
        destruct (fmt_ptesz pf) as [sz|]; [|now apply Hc].
        destruct (read_c_ok infl c (FA (Step.s_base s1) (as_of (Step.s_as s1))) sz Hinv)
          as [c1 [Hr Hinv1]].
        rewrite Hr. destruct (read' infl _ sz) as [raw|st| |].
        + now apply Hc.
        + exists c1. now split.
        + exists c1. now split.
        + exists c1. now split.
    Qed.

    Notation walk_c' := (walk_c rcaps gp big nobacking fmt_first fmt_next fmt_ptesz wfuel nested_c).
    Notation walk' := (walk rcaps mem fmt_first fmt_next fmt_ptesz wfuel nested).

    Lemma walk_c_ok infl m addr c :
      inv c -> exists c', walk_c' infl m addr c = (walk' infl m addr, c') /\ inv c'.
    Proof.
      intros Hinv.
      destruct m as [| |f|tas off|tas root pte64 mask fields|tgt ras root mask pf|tas endoff tbl
                     |tas base shift elemsz valsz]; cbn [walk_c walk];
        try (exists c; now split).
      - destruct (f addr) as [st fa]. destruct (st =? ST_OK)%Z; exists c; now split.
      - destruct (fa_as root =? AS_NOADDR)%Z; [exists c; now split|].
        destruct (8 <? length fields)%nat; [exists c; now split|].
        destruct (split_fields fields addr) as [[idx top]|]; [|exists c; now split].
        destruct (negb (top =? 0)); [exists c; now split|].
        destruct idx as [|i0 upper]; [exists c; now split|].
        destruct (pgt_levels_c_ok infl tas pte64 mask (hd 0 fields) (rev upper) root c Hinv)
          as [c1 [Hp Hinv1]].
        rewrite Hp. destruct (pgt_levels rcaps mem nested infl tas pte64 mask (hd 0 fields) (rev upper) root);
          exists c1; now split.
      - destruct (fmt_first ras root pf addr) as [st0 s0].
        destruct (st_of st0) as [e|]; [|exists c; now split].
        destruct (negb (e =? ST_OK)%Z); [exists c; now split|].
        destruct (Step.s_remain s0); [exists c; now split|now apply fwalk_loop_c_ok].
      - destruct (lookup_find tbl endoff addr) as [[o d]|]; exists c; now split.
      - destruct (64 <=? shift); [exists c; now split|].
        destruct ((valsz =? 4) || (valsz =? 8)); [|exists c; now split].
        destruct (read_c_ok infl c
                    (FA (xadd (fa_addr base) (xmul (N.shiftr addr shift) elemsz)) (fa_as base))
                    valsz Hinv) as [c1 [Hr Hinv1]].
        rewrite Hr. destruct (read' infl _ valsz); exists c1; now split.
    Qed.

    Notation do_alts_c' := (do_alts_c rcaps gp big nobacking fmt_first fmt_next fmt_ptesz wfuel nested_c).
    Notation do_alts' := (do_alts rcaps mem fmt_first fmt_next fmt_ptesz wfuel nested).

    Lemma do_alts_c_ok s infl caps alts : forall pa c,
      inv c -> exists c', do_alts_c' s infl caps alts pa c = (do_alts' s infl caps alts pa, c') /\ inv c'.
    Proof.
      induction alts as [|mapidx rest IH]; intros pa c Hinv; cbn [do_alts_c do_alts].
      - exists c. now split.
      - destruct (negb _); [now apply IH|].
        destruct (s_map s mapidx) as [mp|]; [|now apply IH].
        destruct (_ =? NONE)%Z; [now apply IH|].
        destruct (get_meth s _) as [m|]; [|exists c; now split].
        assert (Hw : exists c',
          match walk_c' infl m (fa_addr pa) c with
          | (WOk b, c') =>
              match caps_has caps (fa_as b) with
              | Some true => (AReturn (Call b), c')
              | Some false => (ABreak b, c')
              | None => (AReturn UB, c')
              end
          | (WErr st, c') =>
              if ((st =? ST_NOMETH)%Z || (st =? ST_NODATA)%Z)%bool
              then do_alts_c' s infl caps rest pa c' else (AReturn (Err st), c')
          | (WFuel, c') => (AReturn OutOfFuel, c')
          | (WUB, c') => (AReturn UB, c')
          end =
          (match walk' infl m (fa_addr pa) with
           | WOk b =>
               match caps_has caps (fa_as b) with
               | Some true => AReturn (Call b)
               | Some false => ABreak b
               | None => AReturn UB
               end
           | WErr st =>
               if ((st =? ST_NOMETH)%Z || (st =? ST_NODATA)%Z)%bool
               then do_alts' s infl caps rest pa else AReturn (Err st)
           | WFuel => AReturn OutOfFuel
           | WUB => AReturn UB
           end, c') /\ inv c').
        { destruct (walk_c_ok infl m (fa_addr pa) c Hinv) as [c1 [Hwk Hinv1]]. rewrite Hwk.
          destruct (walk' infl m (fa_addr pa)) as [b|st| |].
          - destruct (caps_has caps (fa_as b)) as [[|]|]; exists c1; now split.
          - destruct (_ || _)%bool; [now apply IH|exists c1; now split].
          - exists c1. now split.
          - exists c1. now split. }
        destruct m; try exact Hw.
        destruct (caps_has caps tas) as [[|]|]; exists c; now split.
    Qed.

    Lemma do_chain_c_ok s infl caps ch : forall pa c,
      inv c ->
      exists c', do_chain_c rcaps gp big nobacking fmt_first fmt_next fmt_ptesz wfuel nested_c
                            s infl caps ch pa c =
                 (do_chain rcaps mem fmt_first fmt_next fmt_ptesz wfuel nested s infl caps ch pa, c')
                 /\ inv c'.
    Proof.
      induction ch as [|alts rest IH]; intros pa c Hinv; cbn [do_chain_c do_chain].
      - exists c. now split.
      - destruct (do_alts_c_ok s infl caps alts pa c Hinv) as [c1 [Ha Hinv1]]. rewrite Ha.
        destruct (do_alts' s infl caps alts pa) as [r|pa'|].
        + exists c1. now split.
        + now apply IH.
        + now apply IH.
    Qed.
  End Level.

  Notation op_core_c' := (op_core_c lim osys rcaps gp big nobacking fmt_first fmt_next fmt_ptesz wfuel).
  Notation op_core' := (op_core lim osys rcaps mem fmt_first fmt_next fmt_ptesz wfuel).

  Lemma finish_op_ok nested_c kind infl x c :
    inv c ->
    exists c', finish_op gp big nobacking nested_c kind infl x c = (expected kind (Call x), c') /\ inv c'.
  Proof.
    intros Hinv. destruct kind as [|sz]; cbn [finish_op expected]; [exists c; now split|].
    destruct (do_read_c_ok nested_c infl c x sz Hinv) as [c1 [Hr Hinv1]]. rewrite Hr.
    exists c1. split; [|exact Hinv1]. destruct (do_read mem x sz); reflexivity.
  Qed.

  Lemma op_body_c_ok nested_c nested kind infl caps fa c :
    (forall i sz a c0, inv c0 ->
       exists c', nested_c i rcaps (KRead sz) a c0 = (expected (KRead sz) (nested i a), c') /\ inv c') ->
    inv c ->
    exists c', op_body_c lim osys rcaps gp big nobacking fmt_first fmt_next fmt_ptesz wfuel
                         nested_c kind infl caps fa c =
               (expected kind (op_body lim osys rcaps mem fmt_first fmt_next fmt_ptesz wfuel
                                       nested infl caps fa), c') /\ inv c'.
  Proof.
    intros Hn Hinv. unfold op_body_c, op_body.
    destruct (op_pre lim osys infl caps fa) as [[a|st| |]|[[s k] ch]].
    - now apply finish_op_ok.
    - exists c. now split.
    - exists c. now split.
    - exists c. now split.
    - destruct (do_chain_c_ok nested_c nested Hn s (k :: infl) caps (chain_tbl ch) fa c Hinv)
        as [c1 [Hc Hinv1]].
      rewrite Hc.
      destruct (do_chain rcaps mem fmt_first fmt_next fmt_ptesz wfuel nested s (k :: infl) caps
                         (chain_tbl ch) fa) as [x|st| |].
      + now apply finish_op_ok.
      + exists c1. now split.
      + exists c1. now split.
      + exists c1. now split.
  Qed.

  (** the cached interpreter computes what the interpreter over [mem_of gp big]
      computes, from any cache that satisfies the cache's invariant (the four
      slots hold what the callback answered for them), and keeps the invariant *)
  Theorem op_core_c_ok : forall fuel kind infl caps fa c,
    inv c ->
    exists c', op_core_c' fuel infl caps kind fa c = (expected kind (op_core' fuel infl caps fa), c')
               /\ inv c'.
  Proof.
    induction fuel as [|f IH]; intros kind infl caps fa c Hinv; cbn [op_core_c op_core].
    - destruct (op_pre lim osys infl caps fa) as [r|[[s k] ch]] eqn:Ep.
      + unfold op_body_c. rewrite Ep. destruct r as [a|st| |].
        * now apply finish_op_ok.
        * exists c. now split.
        * exists c. now split.
        * exists c. now split.
      + exists c. now split.
    - apply (op_body_c_ok (op_core_c' f) (fun i a => op_core' f i rcaps a)); [|exact Hinv].
      intros i sz a c0 H0. now apply IH.
  Qed.

  Theorem addrxlat_op_c_ok fuel opret caps fa c :
    inv c ->
    exists c', addrxlat_op_c lim osys rcaps gp big nobacking fmt_first fmt_next fmt_ptesz wfuel
                             fuel opret caps fa c =
               (addrxlat_op lim osys rcaps mem fmt_first fmt_next fmt_ptesz wfuel fuel opret caps fa, c')
               /\ inv c'.
  Proof.
    intros Hinv. unfold addrxlat_op_c, addrxlat_op.
    destruct (op_core_c_ok fuel KStore [] caps fa c Hinv) as [c' [H Hinv']]. rewrite H.
    destruct (op_core' fuel [] caps fa); exists c'; now split.
  Qed.

  (** the outcome does not depend on what the cache holds *)
  Corollary readcache_irrelevant fuel opret caps fa c1 c2 :
    inv c1 -> inv c2 ->
    fst (addrxlat_op_c lim osys rcaps gp big nobacking fmt_first fmt_next fmt_ptesz wfuel
                       fuel opret caps fa c1) =
    fst (addrxlat_op_c lim osys rcaps gp big nobacking fmt_first fmt_next fmt_ptesz wfuel
                       fuel opret caps fa c2).
  Proof.
    intros H1 H2.
    destruct (addrxlat_op_c_ok fuel opret caps fa c1 H1) as [c1' [E1 _]].
    destruct (addrxlat_op_c_ok fuel opret caps fa c2 H2) as [c2' [E2 _]].
    now rewrite E1, E2.
  Qed.

  (** a sequence of calls on one context (the cache persists between them)
      answers like the cache-less interpreter, call by call *)
  Fixpoint run_calls (fuel : nat) (opret : fulladdr -> Z) (qs : list (N * fulladdr)) (c : cache)
    : list outcome :=
    match qs with
    | [] => []
    | (caps, fa) :: tl =>
        let '(o, c') := addrxlat_op_c lim osys rcaps gp big nobacking fmt_first fmt_next fmt_ptesz
                                      wfuel fuel opret caps fa c in
        o :: run_calls fuel opret tl c'
    end.

  Theorem run_calls_ok fuel opret : forall qs c,
    inv c ->
    run_calls fuel opret qs c =
    List.map (fun q => addrxlat_op lim osys rcaps mem fmt_first fmt_next fmt_ptesz wfuel
                                   fuel opret (fst q) (snd q)) qs.
  Proof.
    induction qs as [|[caps fa] tl IH]; intros c Hinv; cbn [run_calls List.map]; [reflexivity|].
    destruct (addrxlat_op_c_ok fuel opret caps fa c Hinv) as [c' [E Hinv']]. rewrite E.
    cbn [fst snd]. f_equal. now apply IH.
  Qed.
End Transparent.


(** * Re-entrant callbacks *)

Section Reentrant.
  Variable osys : option sys.
  Variable rcaps : N.
  Variable gp : N -> N -> Z + (N * N * list N).
  Variable big : N -> N -> bool.
  Variable backing : N -> option N.
  Variable fmt_first : Step.aspace -> N -> Step.pform -> N -> Step.status * Step.step.
  Variable fmt_next : Step.aspace -> N -> Step.pform -> Step.step -> N -> Step.status * Step.step.
  Variable fmt_ptesz : Step.pform -> option N.
  Variable wfuel : nat.

  (** the guard of get_cache_buf: a read that lands in a slot whose fill is
      in progress (the callback has not answered yet: [ptr = NULL]) is refused
      with ADDRXLAT_ERR_NODATA ("Infinite read recursion"), the cache is left
      as it is and the callback is not called again *)
  Theorem read_guard nested infl c fa sz i :
    N.land (fa_addr fa) (sz - 1) = 0 -> fa_addr fa < W ->
    RC.find_slot c (Z.to_N (fa_as fa)) (fa_addr fa) = Some i ->
    RC.ptr (RC.get_slot c i) = None ->
    do_read_c gp big backing nested infl c fa sz = (RErr ST_NODATA, c).
  Proof.
    intros Hal Hw Hf Hp. unfold do_read_c, get_cache_buf.
    apply N.eqb_eq in Hal. rewrite Hal. apply N.leb_gt in Hw. rewrite Hw. cbn [negb orb].
    rewrite Hf. unfold RC.finish. rewrite Hp. reflexivity.
  Qed.

  (** every path from a (re-entrant) callback back into the library goes
      through [addrxlat_op], so the nesting of callbacks and translations
      together is bounded by the in-flight list *)
  Section FuelC.
    Variable nested : list key -> N -> opkind -> fulladdr -> cache -> xres * cache.
    Variable infl : list key.
    (** (a read operation is only ever requested for an address that is not
        readable as it is) *)
    Hypothesis nested_fuel : forall caps kind fa c,
      kind = KStore \/ caps_has caps (fa_as fa) = Some false ->
      fst (nested infl caps kind fa c) <> XFuel.

    Lemma get_cache_buf_fuel c a_as a :
      fst (get_cache_buf gp backing nested infl c a_as a) <> BFuel.
    Proof.
      unfold get_cache_buf. destruct (RC.find_slot c a_as a) as [i|].
      - destruct (RC.finish c i) as [c' [j| |]]; discriminate.
      - destruct (RC.miss_begin c a_as a) as [[c1 ev] v].
        unfold run_callback. destruct (backing a_as) as [as'|].
        + pose proof (nested_fuel (caps_of (Z.of_N as')) KStore (FA a (Z.of_N a_as)) c1 (or_introl eq_refl)) as Hn.
          destruct (nested infl (caps_of (Z.of_N as')) KStore (FA a (Z.of_N a_as)) c1) as [[x|v0|st| |] c2];
            cbn [fst] in Hn; try contradiction.
          * destruct (gp as' (fa_addr x)) as [st|[[b sz] d]].
            -- destruct (RC.miss_end c2 v None) as [[c3 e3] r3]. destruct (st =? ST_OK)%Z; discriminate.
            -- destruct (RC.miss_end c2 v _) as [[c3 e3] [j| |]]; discriminate.
          * discriminate.
          * destruct (RC.miss_end c2 v None) as [[c3 e3] r3]. destruct (st =? ST_OK)%Z; discriminate.
          * discriminate.
        + destruct (gp a_as a) as [st|r].
          * destruct (RC.miss_end c1 v None) as [[c3 e3] r3]. destruct (st =? ST_OK)%Z; discriminate.
          * destruct (RC.miss_end c1 v (Some r)) as [[c3 e3] [j| |]]; discriminate.
    Qed.

    Lemma do_read_c_fuel c fa sz : fst (do_read_c gp big backing nested infl c fa sz) <> RFuel.
    Proof.
      unfold do_read_c. destruct (_ || _); [discriminate|].
      pose proof (get_cache_buf_fuel c (Z.to_N (fa_as fa)) (fa_addr fa)) as Hg.
      destruct (get_cache_buf gp backing nested infl c _ _) as [[i|st| |] c']; cbn [fst] in *;
        try discriminate; [|contradiction].
      destruct (RC.read_slot _ _ _); discriminate.
    Qed.

    Lemma read_c_fuel c fa sz : fst (read_c rcaps gp big backing nested infl c fa sz) <> RFuel.
    Proof.
      unfold read_c. destruct (caps_has rcaps (fa_as fa)) as [[|]|] eqn:Ec;
        [apply do_read_c_fuel| |discriminate].
      pose proof (nested_fuel rcaps (KRead sz) fa c (or_intror Ec)) as Hn.
      destruct (nested infl rcaps (KRead sz) fa c) as [[x|v|st| |] c']; cbn [fst] in *;
        try discriminate. contradiction.
    Qed.

    Lemma pgt_levels_c_fuel tas pte64 mask sh0 idxs : forall base c,
      fst (pgt_levels_c rcaps gp big backing nested infl tas pte64 mask sh0 idxs base c) <> WFuel.
    Proof.
      induction idxs as [|i tl IH]; intros base c; cbn [pgt_levels_c]; [discriminate|].
      pose proof (read_c_fuel c (FA (xadd (fa_addr base) (xmul i (if pte64 then 8 else 4))) (fa_as base))
                              (if pte64 then 8 else 4)) as Hr.
      destruct (read_c rcaps gp big backing nested infl c _ _) as [[raw|st| |] c']; cbn [fst] in *;
        try discriminate; [|contradiction].
      destruct (_ =? 0); [discriminate|apply IH].
    Qed.

    Lemma fwalk_loop_c_fuel tgt mask pf : forall wf s c,
      fst (fwalk_loop_c rcaps gp big backing fmt_next fmt_ptesz nested wf infl tgt mask pf s c) <> WFuel.
    Proof.
      induction wf as [|wf IH]; intros s c; cbn [fwalk_loop_c]; [discriminate|].
      destruct (Step.s_remain s) as [|r]; [discriminate|].
      destruct (Step.advance s r) as [s1|]; [|discriminate].
      destruct r as [|r']; [discriminate|].
      assert (Hc : forall raw c0,
        fst (let '(st, s2) := fmt_next tgt mask pf s1 raw in
             match st_of st with
             | Some e => if (e =? ST_OK)%Z
                         then fwalk_loop_c rcaps gp big backing fmt_next fmt_ptesz nested wf infl
                                           tgt mask pf s2 c0
                         else (WErr e, c0)
             | None => (WUB, c0)
             end) <> WFuel).
      { intros raw c0. destruct (fmt_next tgt mask pf s1 raw) as [st s2].
        destruct (st_of st) as [e|]; [|discriminate].
        destruct (e =? ST_OK)%Z; [apply IH|discriminate]. }
      destruct (fmt_ptesz pf) as [sz|]; [|apply Hc].
      pose proof (read_c_fuel c (FA (Step.s_base s1) (as_of (Step.s_as s1))) sz) as Hr.
      destruct (read_c rcaps gp big backing nested infl c _ sz) as [[raw|st| |] c']; cbn [fst] in *;
        try discriminate; [apply Hc|contradiction].
    Qed.

    Lemma walk_c_fuel m addr c :
      fst (walk_c rcaps gp big backing fmt_first fmt_next fmt_ptesz wfuel nested infl m addr c) <> WFuel.
    Proof.
      destruct m as [| |f|tas off|tas root pte64 mask fields|tgt ras root mask pf|tas endoff tbl
                     |tas base shift elemsz valsz]; cbn [walk_c]; try discriminate.
      - destruct (f addr) as [st fa]. destruct (st =? ST_OK)%Z; discriminate.
      - destruct (_ =? AS_NOADDR)%Z; [discriminate|].
        destruct (8 <? length fields)%nat; [discriminate|].
        destruct (split_fields fields addr) as [[idx top]|]; [|discriminate].
        destruct (negb (top =? 0)); [discriminate|].
        destruct idx as [|i0 upper]; [discriminate|].
        pose proof (pgt_levels_c_fuel tas pte64 mask (hd 0 fields) (rev upper) root c) as Hp.
        destruct (pgt_levels_c rcaps gp big backing nested infl tas pte64 mask (hd 0 fields)
                               (rev upper) root c) as [[b|st| |] c']; cbn [fst] in *;
          try discriminate. contradiction.
      - destruct (fmt_first ras root pf addr) as [st0 s0].
        destruct (st_of st0) as [e|]; [|discriminate].
        destruct (negb (e =? ST_OK)%Z); [discriminate|].
        destruct (Step.s_remain s0); [discriminate|apply fwalk_loop_c_fuel].
      - destruct (lookup_find tbl endoff addr) as [[o d]|]; discriminate.
      - destruct (64 <=? shift); [discriminate|].
        destruct ((valsz =? 4) || (valsz =? 8)); [|discriminate].
        pose proof (read_c_fuel c (FA (xadd (fa_addr base) (xmul (N.shiftr addr shift) elemsz)) (fa_as base))
                                valsz) as Hr.
        destruct (read_c rcaps gp big backing nested infl c _ valsz) as [[v|st| |] c']; cbn [fst] in *;
          try discriminate. contradiction.
    Qed.

    Lemma do_alts_c_fuel s caps alts : forall pa c,
      fst (do_alts_c rcaps gp big backing fmt_first fmt_next fmt_ptesz wfuel nested s infl caps alts pa c)
      <> AReturn OutOfFuel.
    Proof.
      induction alts as [|mapidx rest IH]; intros pa c; cbn [do_alts_c]; [discriminate|].
      destruct (negb _); [apply IH|].
      destruct (s_map s mapidx) as [mp|]; [|apply IH].
      destruct (_ =? NONE)%Z; [apply IH|].
      destruct (get_meth s _) as [m|]; [|discriminate].
      assert (Hw :
        fst (match walk_c rcaps gp big backing fmt_first fmt_next fmt_ptesz wfuel nested infl m (fa_addr pa) c with
             | (WOk b, c') =>
                 match caps_has caps (fa_as b) with
                 | Some true => (AReturn (Call b), c')
                 | Some false => (ABreak b, c')
                 | None => (AReturn UB, c')
                 end
             | (WErr st, c') =>
                 if ((st =? ST_NOMETH)%Z || (st =? ST_NODATA)%Z)%bool
                 then do_alts_c rcaps gp big backing fmt_first fmt_next fmt_ptesz wfuel nested
                                s infl caps rest pa c'
                 else (AReturn (Err st), c')
             | (WFuel, c') => (AReturn OutOfFuel, c')
             | (WUB, c') => (AReturn UB, c')
             end) <> AReturn OutOfFuel).
      { pose proof (walk_c_fuel m (fa_addr pa) c) as Hwf.
        destruct (walk_c rcaps gp big backing fmt_first fmt_next fmt_ptesz wfuel nested infl m (fa_addr pa) c)
          as [[b|st| |] c']; cbn [fst] in *; try discriminate.
        - destruct (caps_has caps (fa_as b)) as [[|]|]; discriminate.
        - destruct (_ || _)%bool; [apply IH|discriminate].
        - contradiction. }
      destruct m; try apply Hw.
      destruct (caps_has caps tas) as [[|]|]; discriminate.
    Qed.

    Lemma do_chain_c_fuel s caps ch : forall pa c,
      fst (do_chain_c rcaps gp big backing fmt_first fmt_next fmt_ptesz wfuel nested s infl caps ch pa c)
      <> OutOfFuel.
    Proof.
      induction ch as [|alts rest IH]; intros pa c; cbn [do_chain_c]; [discriminate|].
      pose proof (do_alts_c_fuel s caps alts pa c) as Ha.
      destruct (do_alts_c rcaps gp big backing fmt_first fmt_next fmt_ptesz wfuel nested s infl caps alts pa c)
        as [[r|pa'|] c']; cbn [fst] in *; try apply IH.
      intros ->. now apply Ha.
    Qed.

    Lemma finish_op_fuel kind x c :
      fst (finish_op gp big backing nested kind infl x c) <> XFuel.
    Proof.
      destruct kind as [|sz]; cbn [finish_op]; [discriminate|].
      pose proof (do_read_c_fuel c x sz) as Hr.
      destruct (do_read_c gp big backing nested infl c x sz) as [[v|st| |] c']; cbn [fst] in *;
        try discriminate. contradiction.
    Qed.
  End FuelC.

  (** with the depth limit [n], fuel [n + 1] is enough for every system,
      every callback -- re-entrant or not --, every cache content, every
      address: the run ends with the operation called, with a status, or in
      one of the situations that are undefined in C; it never needs deeper
      nesting *)
  Theorem depth_bounded_c n : forall fuel infl caps kind fa c,
    (n + 1 <= fuel + length infl)%nat ->
    kind = KStore \/ caps_has caps (fa_as fa) = Some false ->
    fst (op_core_c (Some n) osys rcaps gp big backing fmt_first fmt_next fmt_ptesz wfuel
                   fuel infl caps kind fa c) <> XFuel.
  Proof.
    induction fuel as [|f IH]; intros infl caps kind fa c Hlen Hk; cbn [op_core_c].
    - destruct (op_pre (Some n) osys infl caps fa) as [r|[[s k] ch]] eqn:Ep.
      + unfold op_body_c. rewrite Ep. destruct r as [a|st| |]; cbn [fst]; try discriminate.
        * apply op_pre_call in Ep. destruct Ep as [-> Hc]. apply caps_has_true in Hc.
          destruct Hk as [->|Hk]; [discriminate|congruence].
        * exfalso. eapply op_pre_fuel; exact Ep.
      + apply op_pre_inr in Ep. destruct Ep as [_ [_ [_ [_ [_ [_ Hover]]]]]].
        cbn in Hover. apply Nat.leb_gt in Hover. cbn in Hlen. lia.
    - unfold op_body_c.
      destruct (op_pre (Some n) osys infl caps fa) as [r|[[s k] ch]] eqn:Ep.
      + destruct r as [a|st| |]; cbn [fst]; try discriminate.
        * apply op_pre_call in Ep. destruct Ep as [-> Hc]. apply caps_has_true in Hc.
          destruct Hk as [->|Hk]; [discriminate|congruence].
        * exfalso. eapply op_pre_fuel; exact Ep.
      + assert (Hn : forall caps' kind' fa' c',
                  kind' = KStore \/ caps_has caps' (fa_as fa') = Some false ->
                  fst (op_core_c (Some n) osys rcaps gp big backing fmt_first fmt_next fmt_ptesz wfuel
                                 f (k :: infl) caps' kind' fa' c') <> XFuel).
        { intros caps' kind' fa' c' Hk'. apply IH; [cbn [length]; lia|exact Hk']. }
        pose proof (do_chain_c_fuel _ (k :: infl) Hn s caps (chain_tbl ch) fa c) as Hc.
        destruct (do_chain_c rcaps gp big backing fmt_first fmt_next fmt_ptesz wfuel
                             (op_core_c (Some n) osys rcaps gp big backing fmt_first fmt_next
                                        fmt_ptesz wfuel f) s (k :: infl) caps (chain_tbl ch) fa c)
          as [[x|st| |] c1]; cbn [fst] in *; try discriminate.
        * now apply finish_op_fuel.
        * contradiction.
  Qed.

  Corollary addrxlat_op_c_bounded n fuel opret caps fa c :
    (n + 1 <= fuel)%nat ->
    fst (addrxlat_op_c (Some n) osys rcaps gp big backing fmt_first fmt_next fmt_ptesz wfuel
                       fuel opret caps fa c) <> NoFuel.
  Proof.
    intros H. unfold addrxlat_op_c.
    pose proof (depth_bounded_c n fuel [] caps KStore fa c) as Hd.
    destruct (op_core_c (Some n) osys rcaps gp big backing fmt_first fmt_next fmt_ptesz wfuel
                        fuel [] caps KStore fa c) as [[x|v|st| |] c']; cbn [fst] in *; try discriminate.
    exfalso. apply Hd; [cbn [length]; lia|now left|reflexivity].
  Qed.
End Reentrant.
