(** C08, layout level for the other architectures: ia32 [set_linux_directmap]
    (forward and reverse map both end at VMALLOC_START; the reverse map's
    domain is exactly the image of the forward direct region; without the
    vmalloc symbols it is not) and the linear direct mapping of arm / riscv64 /
    aarch64 ([map_direct]). *)
From Coq Require Import NArith ZArith List Bool Lia.
From KdV Require Import Base.Wrap64 Map.MapModel Map.MapSpec Map.MapProofs
  Xlat.Step Xlat.XBits Sys.LayoutModel Sys.LayoutSpec Sys.LayoutProofs Sys.LayoutArchModel.
Import ListNotations.
Local Open Scope N_scope.

Lemma raw_map_set_spec m addr endoff meth :
  tiles m -> addr + endoff < W ->
  exists m', raw_map_set m addr endoff meth = Some m' /\ tiles m' /\
    forall x, denote m' x = set_spec (denote m) addr endoff meth x.
Proof.
  intros Ht Hr. unfold raw_map_set.
  set (rg := {| MapModel.endoff := endoff; MapModel.meth := meth |}).
  destruct (set_pointwise m addr rg Ht Hr) as (m' & Hs & Hp).
  rewrite Hs. exists m'. split; [reflexivity|]. split.
  - destruct (set_tiles m addr rg true m' Ht Hr Hs) as (Htot & _). now apply tiles_of_total.
  - exact Hp.
Qed.

Lemma MAXA_W : MAXA = W - 1.
Proof. reflexivity. Qed.

(** * ia32 *)

Theorem ia32_layout (s : sys) (vs : N) :
  wf_sys s -> get_map s MAP_KPHYS_DIRECT = None ->
  IA32_LINUX_DIRECTMAP < vs -> vs <= 2^32 ->
  exists s', ia32_linux_maps s (Some vs) = (L_OK, s') /\
    get_meth s' METH_DIRECT = mk_linear KPHYSADDR (neg_u64 IA32_LINUX_DIRECTMAP) /\
    get_meth s' METH_RDIRECT = mk_linear KVADDR (- neg_u64 IA32_LINUX_DIRECTMAP)%Z /\
    (forall x, mdenote (get_map s' MAP_KV_PHYS) x = ia32_fwd_spec vs x) /\
    (forall p, mdenote (get_map s' MAP_KPHYS_DIRECT) p = ia32_rev_spec vs p).
Proof.
  intros Hwf Hnone Hlo Hhi. change (2^32) with 4294967296 in Hhi. unfold ia32_linux_maps, ia32_linux_directmap.
  set (r := {| r_first := IA32_LINUX_DIRECTMAP; r_last := IA32_VIRTADDR_MAX; r_meth := METH_DIRECT; r_act := ACT_DIRECT |}).
  assert (Hr : wf_region r).
  { unfold wf_region, r, IA32_LINUX_DIRECTMAP, IA32_VIRTADDR_MAX, METH_DIRECT, METH_NUM. cbn. lia. }
  assert (Hmin : r_first r <> 2^63) by (cbn; unfold IA32_LINUX_DIRECTMAP; lia).
  cbn [sys_set_layout]. change (r_act r) with ACT_DIRECT. cbv iota.
  destruct (act_direct_spec s r Hwf Hr eq_refl Hmin) as (s1 & H1 & Hwf1 & Hmd & Hmr & _ & Hk1 & Hd1).
  rewrite H1. cbv iota beta.
  destruct (layout_map_set_spec s1 MAP_KV_PHYS r Hwf1 Hr) as (s2 & H2 & Hwf2 & Hm2 & Ho2 & _).
  rewrite H2. cbv iota beta.
  assert (Hg2 : exists m2, get_map s2 MAP_KV_PHYS = Some m2).
  { unfold layout_map_set in H2. destruct (MapModel.map_set _ _ _ _) as [m'| |]; try discriminate.
    injection H2 as <-. eexists. reflexivity. }
  destruct Hg2 as (m2 & Eg2). rewrite Eg2.
  (* the final forward map *)
  destruct (raw_map_set_spec [] 0 IA32_VIRTADDR_MAX (Z.of_nat METH_PGT) tiles_nil
              ltac:(rewrite W_val; unfold IA32_VIRTADDR_MAX; lia)) as (nm & Hnm & Htnm & Hdnm).
  rewrite Hnm.
  unfold ia32_set_linux_directmap.
  destruct (N.leb_spec vs IA32_LINUX_DIRECTMAP) as [Hc|_]; [lia|].
  (* the reverse map after the temporary layout *)
  assert (Hrev2 : forall x, mdenote (get_map s2 MAP_KPHYS_DIRECT) x =
                            if x <=? IA32_VIRTADDR_MAX - IA32_LINUX_DIRECTMAP then Z.of_nat METH_RDIRECT else NONE).
  { intro x. rewrite (Ho2 MAP_KPHYS_DIRECT) by discriminate. rewrite Hd1. cbn [r r_first r_last].
    rewrite Hnone. reflexivity. }
  destruct (get_map s2 MAP_KPHYS_DIRECT) as [rmap|] eqn:Erm.
  2:{ exfalso. specialize (Hrev2 0). cbn [mdenote] in Hrev2. cbn in Hrev2. discriminate. }
  assert (Htr : tiles rmap).
  { destruct Hwf2 as [_ Hmaps]. specialize (Hmaps MAP_KPHYS_DIRECT). now rewrite Erm in Hmaps. }
  assert (Hw1 : wsub vs IA32_LINUX_DIRECTMAP = vs - IA32_LINUX_DIRECTMAP)
    by (apply wsub_le; [lia|rewrite W_pow; lia]).
  rewrite Hw1.
  assert (Hw2 : wsub MAXA (vs - IA32_LINUX_DIRECTMAP) = MAXA - (vs - IA32_LINUX_DIRECTMAP)).
  { apply wsub_le; [rewrite MAXA_val; unfold IA32_LINUX_DIRECTMAP in *; lia|rewrite MAXA_val, W_val; lia]. }
  rewrite Hw2.
  destruct (raw_map_set_spec rmap (vs - IA32_LINUX_DIRECTMAP) (MAXA - (vs - IA32_LINUX_DIRECTMAP)) METH_NONE Htr
              ltac:(rewrite MAXA_val, W_val; unfold IA32_LINUX_DIRECTMAP in *; lia)) as (rm' & Hrm' & Htrm' & Hdrm').
  rewrite Hrm'.
  assert (Hw3 : wsub (wsub vs 1) IA32_LINUX_DIRECTMAP = vs - 1 - IA32_LINUX_DIRECTMAP).
  { rewrite (wsub_le vs 1) by (try lia; rewrite W_pow; lia).
    apply wsub_le; [lia|rewrite W_pow; lia]. }
  rewrite Hw3.
  destruct (raw_map_set_spec nm IA32_LINUX_DIRECTMAP (vs - 1 - IA32_LINUX_DIRECTMAP) (Z.of_nat METH_DIRECT) Htnm
              ltac:(rewrite W_pow; unfold IA32_LINUX_DIRECTMAP in *; lia)) as (vt & Hvt & Htvt & Hdvt).
  rewrite Hvt.
  eexists. split; [reflexivity|].
  assert (Hgm : forall j, get_meth s2 j = get_meth s1 j) by (intro j; unfold get_meth; now rewrite Hm2).
  split; [unfold get_meth; rewrite !meths_set_map; fold (get_meth s2 METH_DIRECT); now rewrite Hgm|].
  split; [unfold get_meth; rewrite !meths_set_map; fold (get_meth s2 METH_RDIRECT); now rewrite Hgm|].
  split.
  - intro x. rewrite get_set_map_same. cbn [mdenote]. rewrite Hdvt. unfold set_spec, ia32_fwd_spec.
    rewrite Hdnm. unfold set_spec. rewrite denote_nil.
    change 0xc0000000 with IA32_LINUX_DIRECTMAP. change 0xffffffff with IA32_VIRTADDR_MAX.
    replace (IA32_LINUX_DIRECTMAP + (vs - 1 - IA32_LINUX_DIRECTMAP)) with (vs - 1) by lia.
    destruct (N.leb_spec IA32_LINUX_DIRECTMAP x); destruct (N.leb_spec x (vs - 1));
      destruct (N.ltb_spec x vs); cbn [andb]; try lia; try reflexivity;
      rewrite N.add_0_l; destruct (N.leb_spec 0 x); try lia; cbn [andb]; reflexivity.
  - intro p. rewrite get_set_map_other by discriminate. rewrite get_set_map_same. cbn [mdenote].
    rewrite Hdrm'. unfold set_spec, ia32_rev_spec.
    specialize (Hrev2 p). cbn [mdenote] in Hrev2. rewrite Hrev2.
    change 0xc0000000 with IA32_LINUX_DIRECTMAP.
    replace (vs - IA32_LINUX_DIRECTMAP + (MAXA - (vs - IA32_LINUX_DIRECTMAP))) with MAXA
      by (rewrite MAXA_val; unfold IA32_LINUX_DIRECTMAP in *; lia).
    unfold IA32_VIRTADDR_MAX, IA32_LINUX_DIRECTMAP in *.
    destruct (N.leb_spec (vs - 3221225472) p); destruct (N.ltb_spec p (vs - 3221225472)); try lia; cbn [andb].
    + destruct (N.leb_spec p MAXA) as [|Hgt]; [reflexivity|]. rewrite MAXA_val in Hgt.
      destruct (N.leb_spec p (4294967295 - 3221225472)); [lia|reflexivity].
    + destruct (N.leb_spec p (4294967295 - 3221225472)); [reflexivity|lia].
Qed.

(** the reverse map accepts exactly the physical addresses the forward direct
    region produces *)
Corollary ia32_rev_is_image vs : IA32_LINUX_DIRECTMAP < vs -> vs <= 2^32 ->
  forall p, ia32_rev_spec vs p = Z.of_nat METH_RDIRECT <->
            exists v, ia32_fwd_spec vs v = Z.of_nat METH_DIRECT /\ lin (neg_u64 IA32_LINUX_DIRECTMAP) v = p.
Proof.
  intros Hlo Hhi p. change (2^32) with 4294967296 in Hhi. unfold ia32_rev_spec, ia32_fwd_spec, IA32_LINUX_DIRECTMAP in *. split.
  - destruct (N.ltb_spec p (vs - 3221225472)) as [Hp|Hp]; [|discriminate]. intros _.
    exists (3221225472 + p).
    destruct (N.leb_spec 3221225472 (3221225472 + p)); [|lia].
    destruct (N.ltb_spec (3221225472 + p) vs); [|lia]. cbn [andb]. split; [reflexivity|].
    rewrite lin_neg_first by lia. lia.
  - intros (v & Hv & Hp).
    destruct (N.leb_spec 3221225472 v) as [H1|H1]; destruct (N.ltb_spec v vs) as [H2|H2]; cbn [andb] in Hv;
      try (destruct (v <=? 4294967295); discriminate).
    rewrite lin_neg_first in Hp by lia.
    destruct (N.ltb_spec p (vs - 3221225472)); [reflexivity|lia].
Qed.

(** without vmap_area_list / vmlist the final forward map has no direct region
    but the reverse map of the temporary layout stays: it accepts physical
    addresses that no forward direct translation produces *)
Theorem ia32_layout_nosym_refuted :
  exists s', ia32_linux_maps sys_new None = (L_OK, s') /\
    exists p, mdenote (get_map s' MAP_KPHYS_DIRECT) p = Z.of_nat METH_RDIRECT /\
              forall v, mdenote (get_map s' MAP_KV_PHYS) v <> Z.of_nat METH_DIRECT.
Proof.
  eexists. split; [vm_compute; reflexivity|].
  exists 0x38000000. split; [vm_compute; reflexivity|].
  intro v. cbn [get_map map_kv_phys mdenote]. unfold denote. cbn [denote_from MapModel.endoff MapModel.meth].
  destruct (v <=? 0 + 4294967295); [discriminate|].
  destruct (v <=? _); discriminate.
Qed.

(** * arm / riscv64 / aarch64: a linear direct mapping *)

Theorem map_direct_layout (s : sys) (first last : N) (off : Z) :
  wf_sys s -> first <= last -> last < 2^64 ->
  (0 <= Z.of_N first + off)%Z -> (Z.of_N last + off < 2^64)%Z ->    (* the image does not wrap *)
  (- 2^63 < off < 2^63)%Z ->
  exists s', map_direct s first last off = (L_OK, s') /\
    get_meth s' METH_DIRECT = mk_linear KPHYSADDR off /\
    get_meth s' METH_RDIRECT = mk_linear KVADDR (- off)%Z /\
    (forall x, mdenote (get_map s' MAP_KV_PHYS) x =
               if (first <=? x) && (x <=? last) then Z.of_nat METH_DIRECT else mdenote (get_map s MAP_KV_PHYS) x) /\
    (forall p, mdenote (get_map s' MAP_KPHYS_DIRECT) p =
               if (lin off first <=? p) && (p <=? lin off last) then Z.of_nat METH_RDIRECT
               else mdenote (get_map s MAP_KPHYS_DIRECT) p) /\
    (* the reverse region is the image of the forward region, and the methods are inverse *)
    (forall v, first <= v <= last -> lin off first <= lin off v <= lin off last /\ lin (- off) (lin off v) = v) /\
    (forall p, lin off first <= p <= lin off last -> first <= lin (- off) p <= last /\ lin off (lin (- off) p) = p).
Proof.
  intros Hwf Hfl Hl Hlo Hhi Hoff. unfold map_direct.
  set (s1 := set_meth s METH_DIRECT (mk_linear KPHYSADDR off)).
  assert (Hwf1 : wf_sys s1) by now apply wf_set_meth.
  assert (Hlinv : forall v, first <= v <= last -> lin off v = Z.to_N (Z.of_N v + off)).
  { intros v Hv. unfold lin. rewrite Z.mod_small by lia. reflexivity. }
  set (r1 := {| r_first := first; r_last := last; r_meth := METH_DIRECT; r_act := ACT_NONE |}).
  assert (Hr1 : wf_region r1) by (unfold wf_region, r1, METH_DIRECT, METH_NUM; cbn; lia).
  cbn [sys_set_layout]. change (r_act r1) with ACT_NONE. cbv iota.
  destruct (layout_map_set_spec s1 MAP_KV_PHYS r1 Hwf1 Hr1) as (s2 & H2 & Hwf2 & Hm2 & Ho2 & Hd2).
  fold r1. rewrite H2. cbv iota beta.
  assert (Hg2 : exists m2, get_map s2 MAP_KV_PHYS = Some m2).
  { unfold layout_map_set in H2. destruct (MapModel.map_set _ _ _ _) as [m'| |]; try discriminate.
    injection H2 as <-. eexists. reflexivity. }
  destruct Hg2 as (m2 & Eg2). rewrite Eg2.
  assert (Ho : Z.to_N (off mod 2^64) = Z.to_N (off mod 2^64)) by reflexivity.
  assert (Hwa : forall v, first <= v <= last -> wadd v (Z.to_N (off mod 2^64)) = lin off v).
  { intros v Hv. unfold wadd, w, lin. rewrite W_pow.
    apply N2Z.inj. rewrite N2Z.inj_mod, N2Z.inj_add by lia.
    rewrite !Z2N.id by (apply Z.mod_pos_bound; lia).
    change (Z.of_N (2^64)) with (2^64)%Z. now rewrite Zplus_mod_idemp_r. }
  rewrite (Hwa first) by lia. rewrite (Hwa last) by lia.
  set (r2 := {| r_first := lin off first; r_last := lin off last; r_meth := METH_RDIRECT; r_act := ACT_RDIRECT |}).
  assert (Hr2 : wf_region r2).
  { unfold wf_region, r2, METH_RDIRECT, METH_NUM. cbn [r_first r_last r_meth].
    rewrite (Hlinv first), (Hlinv last) by lia. split; [apply Z2N.inj_le; lia|]. split; [|lia].
    change (2^64) with (Z.to_N (2^64)). apply Z2N.inj_lt; lia. }
  cbn [sys_set_layout]. change (r_act r2) with ACT_RDIRECT. cbv iota.
  unfold act_rdirect. cbn [r_meth r2 Nat.leb METH_NUM METH_RDIRECT].
  assert (Hd : get_meth s2 METH_DIRECT = mk_linear KPHYSADDR off).
  { unfold get_meth. rewrite Hm2. fold (get_meth s1 METH_DIRECT). unfold s1.
    apply get_set_meth_same; [exact Hwf|unfold METH_DIRECT, METH_NUM; lia]. }
  rewrite Hd. cbn [lin_off mk_linear sm m_kind].
  destruct (Z.eqb_spec off INT64_MIN) as [E|_]; [unfold INT64_MIN in E; lia|].
  set (s3 := set_meth s2 METH_RDIRECT (mk_linear KVADDR (- off)%Z)).
  assert (Hwf3 : wf_sys s3) by now apply wf_set_meth.
  destruct (layout_map_set_spec s3 MAP_KPHYS_DIRECT r2 Hwf3 Hr2) as (s4 & H4 & Hwf4 & Hm4 & Ho4 & Hd4).
  fold r2. rewrite H4. cbv iota beta.
  assert (Hg4 : exists m4, get_map s4 MAP_KPHYS_DIRECT = Some m4).
  { unfold layout_map_set in H4. destruct (MapModel.map_set _ _ _ _) as [m'| |]; try discriminate.
    injection H4 as <-. eexists. reflexivity. }
  destruct Hg4 as (m4 & Eg4). rewrite Eg4.
  exists s4. split; [reflexivity|].
  assert (Hgm4 : forall j, get_meth s4 j = get_meth s3 j) by (intro j; unfold get_meth; now rewrite Hm4).
  split.
  { rewrite Hgm4. unfold s3. rewrite get_set_meth_other by (unfold METH_RDIRECT, METH_DIRECT; lia). exact Hd. }
  split.
  { rewrite Hgm4. unfold s3. apply get_set_meth_same; [exact Hwf2|unfold METH_RDIRECT, METH_NUM; lia]. }
  split.
  { intro x. rewrite (Ho4 MAP_KV_PHYS) by discriminate. unfold s3. rewrite get_map_set_meth.
    rewrite Hd2. unfold region_denote, r1. cbn [r_first r_last r_meth]. unfold s1. now rewrite get_map_set_meth. }
  split.
  { intro p. rewrite Eg4 in Hd4. rewrite Eg4, Hd4. unfold region_denote, r2. cbn [r_first r_last r_meth].
    unfold s3. rewrite get_map_set_meth. rewrite (Ho2 MAP_KPHYS_DIRECT) by discriminate.
    unfold s1. now rewrite get_map_set_meth. }
  split.
  - intros v Hv. rewrite (Hlinv v Hv), (Hlinv first), (Hlinv last) by lia. split.
    + split; apply Z2N.inj_le; lia.
    + rewrite <- (Hlinv v Hv). apply lin_inverse. lia.
  - intros p Hp. rewrite (Hlinv first), (Hlinv last) in Hp by lia.
    assert (Hpz : (Z.of_N first + off <= Z.of_N p <= Z.of_N last + off)%Z) by lia.
    assert (Hback : lin (- off) p = Z.to_N (Z.of_N p - off)).
    { unfold lin. rewrite Z.mod_small by lia. f_equal; try lia. }
    rewrite Hback. split.
    + lia.
    + rewrite <- Hback. rewrite <- (Z.opp_involutive off) at 1. apply lin_inverse.
      apply N2Z.inj_lt. change (Z.of_N (2^64)) with (2^64)%Z. lia.
Qed.
