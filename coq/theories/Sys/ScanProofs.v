(** C08, scanning primitives: [lowest_mapped] is sound — the address it returns
    lies in the range, is mapped by the architectural walk (C02's [arch_walk]),
    and the returned step holds its translation.  Generic in the PTE format:
    it uses only the per-format simulation [sim] of C02 (proved there for
    eleven formats).

    Invariant of the scan: the step is exactly the state of the walk of [*addr]
    that has descended to the current table ([s_idx] is the index split of
    [*addr], [s_base] the table the architectural walk of [*addr] is at). *)
From Coq Require Import NArith ZArith List Bool Lia.
From KdV Require Import Base.Wrap64 Xlat.Step Xlat.ArchSpec Xlat.XBits Xlat.WalkProofs Sys.ScanModel.
Import ListNotations.
Local Open Scope N_scope.

(** * Arithmetic of "the next entry of the level-[l] table" *)

Lemma lor_ones_div va k : N.lor va (N.ones k) = va / 2^k * 2^k + N.ones k.
Proof.
  rewrite <- lor_disjoint_add by apply ones_lt.
  apply N.bits_inj. intro i. rewrite !N.lor_spec.
  destruct (N.ltb_spec i k) as [Hlt|Hge].
  - rewrite N.ones_spec_low by exact Hlt. now rewrite !orb_true_r.
  - rewrite N.ones_spec_high by exact Hge. rewrite !orb_false_r.
    rewrite N.mul_pow2_bits_high by exact Hge. rewrite N.div_pow2_bits. f_equal. lia.
Qed.

Lemma next_entry_addr va k : w (N.lor va (N.ones k) + 1) = w ((va / 2^k + 1) * 2^k).
Proof.
  rewrite lor_ones_div, N.ones_equiv. pose proof (pow2_pos k). f_equal. nia.
Qed.

Lemma div_succ_same q d f : f <= d -> q mod 2^f + 1 < 2^f -> (q + 1) / 2^d = q / 2^d.
Proof.
  intros Hfd Hq.
  assert (Hm : q mod 2^d + 1 < 2^d).
  { replace d with (f + (d - f)) by lia. rewrite N.pow_add_r.
    rewrite N.mod_mul_r by apply pow2_nz.
    pose proof (N.mod_upper_bound (q / 2^f) (2^(d - f)) (pow2_nz _)).
    pose proof (pow2_pos f). pose proof (pow2_pos (d - f)). nia. }
  symmetry. apply N.div_unique with (r := q mod 2^d + 1); [exact Hm|].
  pose proof (N.div_mod q (2^d) (pow2_nz d)). lia.
Qed.

Lemma field_next_below fs va l j :
  (j < l)%nat -> (l <= length fs)%nat ->
  field fs j ((va / 2^(lo fs l) + 1) * 2^(lo fs l)) = 0.
Proof.
  intros Hj Hl. unfold field, bits.
  assert (Hlo : lo fs (S j) <= lo fs l) by (apply lo_mono; lia).
  rewrite lo_S in Hlo by lia.
  set (q := va / 2^(lo fs l) + 1).
  replace (lo fs l) with (lo fs j + (nth j fs 0 + (lo fs l - lo fs j - nth j fs 0))) by lia.
  rewrite !N.pow_add_r. rewrite (N.mul_comm (2^(lo fs j))), N.mul_assoc.
  rewrite N.div_mul by apply pow2_nz.
  rewrite (N.mul_comm (2^(nth j fs 0))), N.mul_assoc.
  apply N.mod_mul, pow2_nz.
Qed.

Lemma div_next_above fs va l d :
  field fs l va + 1 < 2^(nth l fs 0) -> nth l fs 0 <= d ->
  ((va / 2^(lo fs l) + 1) * 2^(lo fs l)) / 2^(lo fs l + d) = va / 2^(lo fs l + d).
Proof.
  intros Hf Hd. rewrite !N.pow_add_r, <- !N.div_div by apply pow2_nz.
  rewrite N.div_mul by apply pow2_nz.
  apply div_succ_same with (f := nth l fs 0); [exact Hd|exact Hf].
Qed.

Lemma field_next_at fs va l :
  field fs l va + 1 < 2^(nth l fs 0) ->
  field fs l ((va / 2^(lo fs l) + 1) * 2^(lo fs l)) = field fs l va + 1.
Proof.
  intro Hf. unfold field, bits in *. rewrite N.div_mul by apply pow2_nz.
  rewrite <- N.add_mod_idemp_l by apply pow2_nz. now apply N.mod_small.
Qed.

Lemma field_next_above fs va l j :
  (l < j)%nat -> (j < length fs)%nat -> field fs l va + 1 < 2^(nth l fs 0) ->
  field fs j ((va / 2^(lo fs l) + 1) * 2^(lo fs l)) = field fs j va.
Proof.
  intros Hlj Hj Hf. pose proof Hf as Hf2. unfold field, bits.
  assert (Hlo : lo fs (S l) <= lo fs j) by (apply lo_mono; lia).
  rewrite lo_S in Hlo by lia.
  replace (lo fs j) with (lo fs l + (lo fs j - lo fs l)) by lia.
  rewrite div_next_above by (try exact Hf2; lia). reflexivity.
Qed.

(** the index vector after "zero the lower indices, increment this one" is the
    index split of the first address of the next entry *)
Lemma nthN_set_nth l : forall i j v, (i < length l)%nat ->
  nthN (set_nth l i v) j = if Nat.eqb j i then v else nthN l j.
Proof.
  induction l as [|h t IH]; intros [|i] [|j] v Hi; cbn [length] in Hi; try lia;
    cbn [set_nth]; unfold nthN; cbn [nth Nat.eqb]; try reflexivity.
  apply IH. lia.
Qed.

Lemma length_set_nth l : forall i v, length (set_nth l i v) = length l.
Proof. induction l as [|h t IH]; intros [|i] v; cbn [set_nth length]; auto. Qed.

Lemma length_zero_below : forall n l, length (zero_below l n) = length l.
Proof. induction n as [|n IH]; intros [|h t]; cbn [zero_below length]; auto. Qed.


Lemma nthN_zero_below : forall n l j, nthN (zero_below l n) j = if (j <? n)%nat then 0 else nthN l j.
Proof.
  induction n as [|n IH]; intros l j.
  - destruct l; reflexivity.
  - destruct l as [|h t]; destruct j as [|j]; cbn [zero_below]; unfold nthN; cbn [nth]; try reflexivity.
    + destruct (S j <? S n)%nat; reflexivity.
    + change (nth j (zero_below t n) 0) with (nthN (zero_below t n) j). rewrite IH.
      change (S j <? S n)%nat with (j <? n)%nat. reflexivity.
Qed.

Lemma nthN_ext (l1 l2 : list N) : length l1 = length l2 ->
  (forall j, (j < length l1)%nat -> nthN l1 j = nthN l2 j) -> l1 = l2.
Proof.
  revert l2. induction l1 as [|h t IH]; intros [|h2 t2] Hl Hn; cbn [length] in *; try lia; [reflexivity|].
  f_equal.
  - apply (Hn 0%nat). lia.
  - apply IH; [lia|]. intros j Hj. apply (Hn (S j)). lia.
Qed.

Lemma split_next_entry fs va l :
  (l < length fs)%nat -> field fs l va + 1 < 2^(nth l fs 0) ->
  split_fields fs ((va / 2^(lo fs l) + 1) * 2^(lo fs l))
  = set_nth (zero_below (split_fields fs va) l) l (field fs l va + 1).
Proof.
  intros Hl Hf.
  set (va' := (va / 2^(lo fs l) + 1) * 2^(lo fs l)).
  apply nthN_ext.
  - rewrite length_set_nth, length_zero_below, !split_fields_length. reflexivity.
  - intros j Hj. rewrite split_fields_length in Hj.
    rewrite nthN_set_nth by (rewrite length_zero_below, split_fields_length; lia).
    rewrite nthN_zero_below.
    destruct (Nat.eqb_spec j l) as [->|Hne].
    + rewrite split_fields_nth by lia. now apply field_next_at.
    + destruct (Nat.ltb_spec j l) as [Hjl|Hjl].
      * rewrite split_fields_nth by lia. apply field_next_below; lia.
      * destruct (Nat.eq_dec j (length fs)) as [->|Hjn].
        -- rewrite !split_fields_last. unfold va'.
           assert (Hlo : lo fs (S l) <= total fs) by apply lo_le_total.
           rewrite lo_S in Hlo by lia.
           replace (total fs) with (lo fs l + (total fs - lo fs l)) by lia.
           apply div_next_above; [exact Hf|lia].
        -- rewrite !split_fields_nth by lia. apply field_next_above; try lia; exact Hf.
Qed.

Section ScanSound.
Variable readmem : aspace -> N -> rdres.
Variable af : archfmt.
Variable tgt : aspace.
Variable mask : N.
Variable pf : pform.
Variable ras : aspace.
Variable root : N.

Notation fs := (fieldsz pf).
Notation m := {| m_kind := KPgt ras root mask pf; m_target := tgt |}.

Hypothesis Hsim : forall va, sim readmem af tgt mask pf va.
Hypothesis Herr : forall a x, readmem a x <> RdErr OK.
Hypothesis Hlt : all_lt64 fs = true.
Hypothesis Htot : total fs <= 64.
Hypothesis Hlen : (2 <= length fs <= 8)%nat.
(** huge-page directories (Linux ppc64) are not covered *)
Hypothesis Hnodir : forall l e va a b sh, af_decode af tgt fs l e va <> DHugeDir a b sh.

(** the architectural walk of [va] from the level-[l] table at [(tas, tbase)] *)
Notation W := (fun va l tas tbase => arch_levels readmem af tgt mask fs va l tas tbase).

(** the step is the walk state of [va] at the level-[l] table *)
Definition at_level (va : N) (l : nat) (s : step) : Prop :=
  s_remain s = S l /\ s_idx s = split_fields fs va /\
  s_elemsz s = (if Nat.eqb l 0 then 1 else af_ptesz af).

(** one [internal_step] of such a state *)
Lemma step_at_level va l s : (l < length fs)%nat -> at_level va l s ->
  match l with
  | O => internal_step readmem m s =
         (OK, set_elemsz (set_as (mkstep (s_as s) (w (s_base s + va mod 2^(nth 0 fs 0))) 0 (s_elemsz s)
                                         (s_idx s) (s_raw s)) tgt) 0)
  | S l' =>
    match rd_entry readmem af mask (s_as s) (w (s_base s + field fs l va * af_ptesz af)) with
    | RdErr e => exists s', internal_step readmem m s = (e, s') /\ e <> OK
    | RdOk pte =>
      match af_decode af tgt fs l pte va with
      | DTable a b => exists s', internal_step readmem m s = (OK, s') /\ at_level va l' s' /\
                                 s_as s' = a /\ s_base s' = b
      | DLeaf b sz => exists s', internal_step readmem m s = (OK, s') /\ s_remain s' = 1%nat /\
                                 s_elemsz s' = 1 /\ (1 <= length (s_idx s'))%nat /\
                                 w (s_base s' + nthN (s_idx s') 0) = w (b + va mod 2^sz)
      | DHugeDir _ _ _ => False
      | DNotPresent => exists s', internal_step readmem m s = (NOTPRESENT, s')
      | DInvalid => exists s', internal_step readmem m s = (INVALID, s')
      end
    end
  end.
Proof.
  intros Hl (Hr & Hidx & Hes). unfold internal_step, addrxlat_step. rewrite Hr.
  unfold advance. rewrite Hidx, split_fields_length.
  destruct (Nat.leb_spec (S (length fs)) l); [lia|].
  destruct l as [|l'].
  - cbn [Nat.eqb] in Hes. rewrite Hes. rewrite split_fields_0 by lia.
    unfold wadd, wmul. rewrite N.mul_1_r, w_add_r. rewrite <- Hidx. reflexivity.
  - cbn [Nat.eqb] in Hes. rewrite Hes.
    rewrite split_fields_nth by lia. cbn [next_step m_kind m_target].
    set (s1 := mkstep _ _ _ _ _ _).
    assert (Hb1 : s_base s1 = w (s_base s + field fs (S l') va * af_ptesz af)).
    { unfold s1. cbn [s_base]. unfold wadd, wmul. now rewrite w_add_r. }
    assert (Hs1 : sim_at readmem af tgt mask pf va (S l') s1).
    { apply Hsim; try lia; unfold s1; reflexivity. }
    unfold sim_at in Hs1. rewrite Hb1 in Hs1. change (s_as s1) with (s_as s) in Hs1.
    destruct (rd_entry readmem af mask (s_as s) (w (s_base s + field fs (S l') va * af_ptesz af)))
      as [pte|e] eqn:Erd.
    + destruct (af_decode af tgt fs (S l') pte va) as [a b|b sz|a b sh| |] eqn:Edec.
      * destruct Hs1 as (s' & Hn & Has & Hbs & Hrem & Hes' & Hix).
        exists s'. split; [exact Hn|]. split; [|auto].
        split; [exact Hrem|]. split; [rewrite Hix; reflexivity|].
        rewrite Hes'. unfold s1. cbn [s_elemsz]. destruct l'; reflexivity.
      * destruct Hs1 as (s' & Hn & Hrem & Hes' & Hlen' & Hfin). exists s'. auto.
      * exact (Hnodir _ _ _ _ _ _ Edec).
      * exact Hs1.
      * exact Hs1.
    + assert (He : e <> OK).
      { unfold rd_entry in Erd. destruct (readmem (s_as s) _) as [v|e'] eqn:E; [discriminate|].
        injection Erd as <-. intro He. subst e'. exact (Herr _ _ E). }
      destruct (Hs1 He) as (s' & Hn). exists s'. auto.
Qed.

(** the last step of a state with [remain = 1] *)
Lemma final_step (s : step) : s_remain s = 1%nat -> (1 <= length (s_idx s))%nat ->
  exists s', internal_step readmem m s = (OK, s') /\ s_as s' = tgt /\
             s_base s' = w (s_base s + nthN (s_idx s) 0 * s_elemsz s).
Proof.
  intros Hr Hl. unfold internal_step, addrxlat_step. rewrite Hr. unfold advance.
  destruct (Nat.leb_spec (length (s_idx s)) 0); [lia|].
  eexists. split; [reflexivity|]. cbn [set_elemsz set_as s_as s_base].
  split; [reflexivity|]. unfold wadd, wmul. now rewrite w_add_r.
Qed.

Hypothesis Hdecva : forall l e va va', af_decode af tgt fs l e va = af_decode af tgt fs l e va'.
Hypothesis Hpos : forall j, (j < length fs)%nat -> 1 <= nth j fs 0.

Variable limit : N.

(** first address after the span of the level-[l] entry that contains [a] *)
Definition next_at (l : nat) (a : N) : N := w ((a / 2^(lo fs l) + 1) * 2^(lo fs l)).

(** what a [_tbl] worker (table level [l], entered with [*addr = a0], table
    [(tas, tbase)]) may answer *)
Definition tbl_post (l : nat) (a0 : N) (tas : aspace) (tbase : N) (res : scanres) : Prop :=
  match res with
  | (OK, s', r) =>
      a0 <= r /\ r <= limit /\ r < 2^64 /\ r / 2^(lo fs (S l)) = a0 / 2^(lo fs (S l)) /\
      s_as s' = tgt /\ W r l tas tbase = (OK, Some (tgt, s_base s'))
  | (NOTPRESENT, _, a2) => limit < a2 \/ a2 = next_at (S l) a0
  | _ => True
  end.

Lemma lo_lt_64 l : (l < length fs)%nat -> lo fs l < 64.
Proof.
  intro Hl. pose proof (lo_S fs l Hl). pose proof (Hpos l Hl).
  pose proof (lo_le_total fs (S l)). lia.
Qed.

Lemma same_fields_above l a b j : (l <= j)%nat ->
  a / 2^(lo fs l) = b / 2^(lo fs l) -> field fs j a = field fs j b.
Proof.
  intros Hj H. unfold field, bits.
  assert (Hlo : lo fs l <= lo fs j) by now apply lo_mono.
  replace (lo fs j) with (lo fs l + (lo fs j - lo fs l)) by lia.
  rewrite !N.pow_add_r, <- !N.div_div by apply pow2_nz. now rewrite H.
Qed.

(** [W] only looks at the fields of the address up to the level it starts at *)
Lemma W_entry r a l tas tbase : (1 <= l)%nat ->
  r / 2^(lo fs l) = a / 2^(lo fs l) ->
  forall pte, rd_entry readmem af mask tas (w (tbase + field fs l a * af_ptesz af)) = RdOk pte ->
  forall ta tb, af_decode af tgt fs l pte a = DTable ta tb ->
  W r l tas tbase = W r (l - 1)%nat ta tb.
Proof.
  intros Hl Hra pte Hrd ta tb Hdec. destruct l as [|l']; [lia|]. cbn [arch_levels].
  rewrite (same_fields_above (S l') r a (S l')) by (auto; lia).
  rewrite Hrd. rewrite (Hdecva _ _ r a), Hdec. replace (S l' - 1)%nat with l' by lia. reflexivity.
Qed.

Lemma lm_loop_sound (rec : step -> N -> scanres) l tas tbase :
  (1 <= l)%nat -> (l < length fs)%nat ->
  (forall s1 a ta tb, (2 <= l)%nat -> at_level a (l - 1) s1 -> s_as s1 = ta -> s_base s1 = tb -> a < 2^64 ->
     tbl_post (l - 1) a ta tb (rec s1 a)) ->
  forall k mystep addr,
  at_level addr l mystep -> s_as mystep = tas -> s_base mystep = tbase -> addr < 2^64 ->
  tbl_post l addr tas tbase
    (lm_loop readmem m rec k limit (2^(nth l fs 0)) (N.ones (lo fs l)) mystep mystep addr).
Proof.
  intros Hl1 Hl Hrec. induction k as [|k IH]; intros mystep addr Hat Has Hbs Ha; [exact I|].
  cbn [lm_loop].
  destruct (N.leb_spec addr limit) as [Hle|Hgt]; cbn [negb]; [|left; exact Hgt].
  pose proof Hat as (Hr & Hidx & Hes).
  assert (Hf64 : nth l fs 0 < 64) by (apply all_lt64_nth; assumption).
  pose proof (lo_lt_64 l Hl) as Hlo64.
  (* what happens to the index vector and the address when this entry is skipped *)
  assert (Hafter : forall s2 a2, (limit < a2 \/ a2 = next_at l addr) ->
            tbl_post l addr tas tbase
              (let i := (s_remain mystep - 1)%nat in
               let idx := zero_below (s_idx mystep) i in
               let v := wadd (nthN idx i) 1 in
               let mystep' := set_idx mystep (set_nth idx i v) in
               if 2^(nth l fs 0) <=? v then (NOTPRESENT, s2, a2)
               else lm_loop readmem m rec k limit (2^(nth l fs 0)) (N.ones (lo fs l)) mystep' mystep' a2)).
  { intros s2 a2 Ha2. rewrite Hr. replace (S l - 1)%nat with l by lia. cbv zeta.
    rewrite nthN_zero_below. rewrite Nat.ltb_irrefl. rewrite Hidx, split_fields_nth by exact Hl.
    pose proof (field_lt fs l addr) as Hfl.
    assert (Hv : wadd (field fs l addr) 1 = field fs l addr + 1).
    { apply wadd_small. rewrite W_pow.
      apply N.lt_le_trans with (2^(nth l fs 0) + 1); [lia|].
      pose proof (pow2_lt_mono (nth l fs 0) 64 Hf64). lia. }
    rewrite Hv.
    assert (HS : lo fs (S l) = lo fs l + nth l fs 0) by now apply lo_S.
    destruct (N.leb_spec (2^(nth l fs 0)) (field fs l addr + 1)) as [Hfull|Hroom].
    - (* last entry of the table *)
      cbn [tbl_post]. destruct Ha2 as [Hlim | ->]; [left; exact Hlim|]. right.
      unfold next_at. f_equal. rewrite HS, N.pow_add_r.
      assert (Hfield : field fs l addr = 2^(nth l fs 0) - 1) by lia.
      unfold field, bits in Hfield.
      pose proof (N.div_mod (addr / 2^(lo fs l)) (2^(nth l fs 0)) (pow2_nz _)) as Hdm.
      rewrite <- N.div_div by apply pow2_nz.
      pose proof (pow2_pos (nth l fs 0)). pose proof (pow2_pos (lo fs l)). nia.
    - destruct Ha2 as [Hlim | ->].
      + (* beyond the limit: the next iteration stops at once *)
        destruct k as [|k']; [exact I|]. cbn [lm_loop].
        destruct (N.leb_spec a2 limit); [lia|]. cbn [negb tbl_post]. left. exact Hlim.
      + assert (Hnw : (addr / 2^(lo fs l) + 1) * 2^(lo fs l) < 2^64).
        { assert (Hq : addr / 2^(lo fs l) + 1 <= 2^(64 - lo fs l)).
          { assert (addr / 2^(lo fs l) < 2^(64 - lo fs l)); [|lia].
            apply N.div_lt_upper_bound; [apply pow2_nz|]. rewrite <- N.pow_add_r.
            replace (lo fs l + (64 - lo fs l)) with 64 by lia. exact Ha. }
          (* equality would make the field maximal *)
          destruct (N.eq_dec (addr / 2^(lo fs l) + 1) (2^(64 - lo fs l))) as [Heq|Hne].
          - exfalso. unfold field, bits in Hroom.
            assert (Hdiv : (2^(nth l fs 0) | 2^(64 - lo fs l))).
            { exists (2^(64 - lo fs l - nth l fs 0)). rewrite <- N.pow_add_r. f_equal.
              pose proof (lo_le_total fs (S l)). lia. }
            destruct Hdiv as [c Hc].
            assert (Hm : (addr / 2^(lo fs l) + 1) mod 2^(nth l fs 0) = 0)
              by (rewrite Heq, Hc; apply N.mod_mul, pow2_nz).
            rewrite <- N.add_mod_idemp_l in Hm by apply pow2_nz.
            rewrite N.mod_small in Hm by exact Hroom. rewrite N.add_1_r in Hm. now apply N.neq_succ_0 in Hm.
          - replace (2^64) with (2^(64 - lo fs l) * 2^(lo fs l))
              by (rewrite <- N.pow_add_r; f_equal; lia).
            apply N.mul_lt_mono_pos_r; [apply pow2_pos|lia]. }
        assert (Hnext : next_at l addr = (addr / 2^(lo fs l) + 1) * 2^(lo fs l))
          by (unfold next_at; now apply w_small').
        rewrite Hnext.
        set (a2 := (addr / 2^(lo fs l) + 1) * 2^(lo fs l)) in *.
        assert (Hat2 : at_level a2 l (set_idx mystep
                         (set_nth (zero_below (split_fields fs addr) l) l (field fs l addr + 1)))).
        { split; [exact Hr|]. split; [|exact Hes]. cbn [set_idx s_idx].
          symmetry. apply split_next_entry; [exact Hl|exact Hroom]. }
        specialize (IH _ a2 Hat2 Has Hbs Hnw).
        (* same table: the fields above [l] did not change *)
        assert (Hsame : a2 / 2^(lo fs (S l)) = addr / 2^(lo fs (S l))).
        { rewrite HS. unfold a2. apply div_next_above; [exact Hroom|lia]. }
        destruct (lm_loop readmem m rec k limit _ _ _ _ a2) as [[st s'] r].
        destruct st; try exact I.
        * destruct IH as (H0 & H1 & H2 & H3 & H4 & H5). repeat split; auto; [|now rewrite H3].
          assert (addr < a2); [|lia]. unfold a2.
          pose proof (N.div_mod addr (2^(lo fs l)) (pow2_nz _)).
          pose proof (N.mod_upper_bound addr (2^(lo fs l)) (pow2_nz _)). nia.
        * destruct IH as [H1|H1]; [left; exact H1|right]. rewrite H1. unfold next_at. now rewrite Hsame. }
  (* the entry itself *)
  pose proof (step_at_level addr l mystep Hl Hat) as Hstep.
  destruct l as [|l']; [lia|]. rewrite Has, Hbs in Hstep.
  destruct (rd_entry readmem af mask tas (w (tbase + field fs (S l') addr * af_ptesz af))) as [pte|e] eqn:Erd.
  2:{ destruct Hstep as (s' & Hn & He). rewrite Hn. destruct e; try exact I; try contradiction.
      (* a failing read that reports "not present" is treated like an absent entry by the C code *)
      apply Hafter. right. unfold next_at, wadd. apply next_entry_addr. }
  destruct (af_decode af tgt fs (S l') pte addr) as [ta tb|b sz|ta tb sh| |] eqn:Edec.
  - (* table *)
    destruct Hstep as (s1 & Hn & Hat1 & Has1 & Hbs1). rewrite Hn.
    pose proof Hat1 as (Hr1 & Hidx1 & Hes1). rewrite Hr1.
    destruct l' as [|l''].
    + (* the table maps pages: one more step *)
      cbn [Nat.leb].
      pose proof (step_at_level addr 0 s1 ltac:(lia) Hat1) as Hfin. cbn beta iota in Hfin.
      rewrite Hfin. cbn [tbl_post set_elemsz set_as s_as s_base].
      repeat split; auto; try lia.
      cbn [arch_levels]. rewrite Erd, Edec. cbn [arch_levels]. now rewrite Hbs1.
    + replace (S (S l'') <=? 1)%nat with false by reflexivity.
      specialize (Hrec s1 addr ta tb ltac:(lia)).
      replace (S (S l'') - 1)%nat with (S l'') in Hrec by lia.
      specialize (Hrec Hat1 Has1 Hbs1 Ha).
      destruct (rec s1 addr) as [[st2 s2] addr2].
      destruct st2; try exact I.
      * destruct Hrec as (H0 & H1 & H2 & H3 & H4 & H5). cbn [tbl_post]. repeat split; auto.
        -- assert (Hlo : lo fs (S (S l'')) <= lo fs (S (S (S l'')))) by (apply lo_mono; lia).
           replace (lo fs (S (S (S l'')))) with (lo fs (S (S l'')) + (lo fs (S (S (S l''))) - lo fs (S (S l'')))) by lia.
           rewrite !N.pow_add_r, <- !N.div_div by apply pow2_nz. now rewrite H3.
        -- rewrite (W_entry addr2 addr (S (S l'')) tas tbase ltac:(lia) H3 pte Erd ta tb Edec).
           replace (S (S l'') - 1)%nat with (S l'') by lia. exact H5.
      * apply Hafter. exact Hrec.
  - (* leaf (huge page) *)
    destruct Hstep as (s1 & Hn & Hr1 & Hes1 & Hlen1 & Hfin). rewrite Hn, Hr1. cbn [Nat.leb].
    destruct (final_step s1 Hr1 Hlen1) as (s2 & Hn2 & Has2 & Hbs2). rewrite Hn2.
    cbn [tbl_post]. repeat split; auto; try lia.
    cbn [arch_levels]. rewrite Erd, Edec. rewrite Hbs2, Hes1, N.mul_1_r, Hfin. reflexivity.
  - contradiction.
  - destruct Hstep as (s1 & Hn). rewrite Hn.
    apply Hafter. right. unfold next_at, wadd. apply next_entry_addr.
  - destruct Hstep as (s1 & Hn). rewrite Hn. exact I.
Qed.

Lemma pf_table_size_spec l : (l < length fs)%nat ->
  pf_table_size pf l = Some (2^(nth l fs 0)).
Proof.
  intro Hl. unfold pf_table_size, nthN.
  assert (H64 : nth l fs 0 < 64) by (apply all_lt64_nth; assumption).
  destruct (N.ltb_spec (nth l fs 0) 64); [|lia]. f_equal.
  rewrite wshl_small; rewrite N.mul_1_l; [reflexivity|now apply pow2_lt_mono].
Qed.

Theorem lowest_mapped_tbl_sound : forall lf l s addr tas tbase,
  (1 <= l)%nat -> (l < length fs)%nat ->
  at_level addr l s -> s_as s = tas -> s_base s = tbase -> addr < 2^64 ->
  tbl_post l addr tas tbase (lowest_mapped_tbl readmem m pf lf limit s addr).
Proof.
  induction lf as [|lf IH]; intros l s addr tas tbase Hl1 Hl Hat Has Hbs Ha; [exact I|].
  cbn [lowest_mapped_tbl]. pose proof Hat as (Hr & _ & _). rewrite Hr.
  rewrite pf_table_size_spec by exact Hl.
  rewrite pf_table_mask_spec by (try assumption; try lia; now apply lo_lt_64).
  apply lm_loop_sound; try assumption.
  intros s1 a ta tb Hl2 Hat1 Has1 Hbs1 Ha1. apply IH; try assumption; lia.
Qed.

(** [addrxlat_launch] on a page-table method *)
Lemma launch_shape a s :
  pte_size (pte_format pf) = Some (af_ptesz af) ->
  addrxlat_launch m (init_step a) a = (OK, s) ->
  at_level a (length fs - 1) s /\ s_as s = ras /\ s_base s = root.
Proof.
  intros Hps. unfold addrxlat_launch, first_step, init_step. cbn [m_kind].
  assert (Hgen : forall st s', first_step_pgt_generic ras root pf (mkstep NOADDR a 0 0 [] 0) a = (st, s') ->
                 st = OK -> s' = mkstep ras root (length fs) (af_ptesz af) (split_fields fs a) 0).
  { unfold first_step_pgt_generic. intros st s' Hfs Hst.
    destruct (Nat.ltb_spec 8 (length fs)) as [H8|H8]; [lia|].
    destruct (Nat.ltb_spec 1 (length fs)) as [H1|H1]; [|lia].
    rewrite Hps, Hlt in Hfs. cbn [negb] in Hfs.
    destruct ras; injection Hfs as <- <-; try reflexivity; discriminate. }
  assert (Hshape : forall s', s' = mkstep ras root (length fs) (af_ptesz af) (split_fields fs a) 0 ->
                   at_level a (length fs - 1) s' /\ s_as s' = ras /\ s_base s' = root).
  { intros s' ->. repeat split; cbn [s_remain s_idx s_elemsz s_as s_base]; try lia.
    destruct (Nat.eqb_spec (length fs - 1) 0); [lia|reflexivity]. }
  assert (Hu : forall x y, step_check_uaddr pf x = (OK, y) -> y = x).
  { intros x y. unfold step_check_uaddr. destruct (_ =? 0); intro H; [now injection H as <-|discriminate]. }
  assert (Hs : forall x y, step_check_saddr pf x = (OK, y) -> y = x).
  { intros x y. unfold step_check_saddr. destruct (length fs); [discriminate|].
    destruct (_ =? 0); [discriminate|]. destruct (64 <=? _); [discriminate|].
    destruct (_ =? _); intro H; [now injection H as <-|discriminate]. }
  unfold first_step_pgt.
  destruct (pf_max_fields (pte_format pf) <? length fs)%nat; [discriminate|].
  destruct (first_step_pgt_generic ras root pf _ a) as [st0 s0] eqn:Eg.
  assert (Hok : st0 = OK -> at_level a (length fs - 1) s0 /\ s_as s0 = ras /\ s_base s0 = root).
  { intro Hst. apply Hshape. now apply (Hgen st0 s0). }
  destruct (pte_format pf); intro H;
    try (injection H as -> <-; now apply Hok);
    try discriminate;
    (destruct st0; try discriminate;
     first [apply Hu in H | apply Hs in H]; subst s; now apply Hok).
Qed.

(** ** [lowest_mapped] is sound: an address it returns lies in the range, the
    architectural walk of the table tree maps it, and the returned step holds
    its translation *)
Theorem lowest_mapped_sound lf addr0 s' r :
  pte_size (pte_format pf) = Some (af_ptesz af) ->
  addr0 < 2^64 ->
  lowest_mapped readmem m pf lf addr0 limit = (OK, s', r) ->
  addr0 / 2^(nth 0 fs 0) * 2^(nth 0 fs 0) <= r /\ r <= limit /\ r < 2^64 /\ r / 2^(total fs) = addr0 / 2^(total fs) /\
  W r (length fs - 1)%nat ras root = (OK, Some (tgt, s_base s')) /\ s_as s' = tgt.
Proof.
  intros Hps Ha0 Hlm. unfold lowest_mapped in Hlm.
  assert (Hf0 : nth 0 fs 0 < 64) by (apply all_lt64_nth; [assumption|lia]).
  rewrite pf_page_mask_spec in Hlm by exact Hf0.
  set (a := N.ldiff addr0 (N.ones (nth 0 fs 0))) in *.
  assert (Ha : a < 2^64) by (unfold a; now apply ldiff_lt).
  destruct (addrxlat_launch m (init_step a) a) as [st s] eqn:El.
  destruct st; try (injection Hlm as Hst _ _; discriminate).
  destruct (launch_shape a s Hps El) as (Hat & Has & Hbs).
  pose proof (lowest_mapped_tbl_sound lf (length fs - 1) s a ras root ltac:(lia) ltac:(lia) Hat Has Hbs Ha) as Hpost.
  rewrite Hlm in Hpost. cbn [tbl_post] in Hpost.
  destruct Hpost as (H0 & H1 & H2 & H3 & H4 & H5).
  replace (S (length fs - 1)) with (length fs) in H3 by lia. rewrite lo_length in H3.
  split; [unfold a in H0; now rewrite ldiff_ones_div in H0|].
  repeat split; auto.
  rewrite H3. unfold a. rewrite ldiff_ones_div.
  assert (Hle : nth 0 fs 0 <= total fs).
  { rewrite <- lo_1. apply lo_le_total. }
  replace (total fs) with (nth 0 fs 0 + (total fs - nth 0 fs 0)) by lia.
  rewrite !N.pow_add_r, <- !N.div_div by apply pow2_nz.
  now rewrite N.div_mul by apply pow2_nz.
Qed.

End ScanSound.

(** * Instance: x86-64 (4- and 5-level) *)
From KdV Require Import Xlat.FmtX86.

Theorem x86_64_lowest_mapped_sound readmem tgt mask pf ras root limit lf addr0 s' r :
  pte_format pf = PTE_X86_64 -> x86_64_form (fieldsz pf) ->
  (forall a x, readmem a x <> RdErr OK) -> addr0 < 2^64 ->
  lowest_mapped readmem {| m_kind := KPgt ras root mask pf; m_target := tgt |} pf lf addr0 limit = (OK, s', r) ->
  addr0 / 2^12 * 2^12 <= r /\ r <= limit /\ r < 2^64 /\
  r / 2^(total (fieldsz pf)) = addr0 / 2^(total (fieldsz pf)) /\
  arch_levels readmem af_x86_64 tgt mask (fieldsz pf) r (length (fieldsz pf) - 1) ras root
    = (OK, Some (tgt, s_base s')) /\ s_as s' = tgt.
Proof.
  intros Hfmt Hform Herr Ha Hlm.
  assert (Hf0 : nth 0 (fieldsz pf) 0 = 12) by (destruct Hform as [-> | ->]; reflexivity).
  rewrite <- Hf0.
  apply (lowest_mapped_sound readmem af_x86_64 tgt mask pf ras root) with (lf := lf); try assumption.
  - intro va. now apply sim_x86_64.
  - destruct Hform as [-> | ->]; reflexivity.
  - destruct Hform as [-> | ->]; cbn; lia.
  - destruct Hform as [-> | ->]; cbn; lia.
  - intros l e va a b sh. cbn [af_decode af_x86_64]. unfold dec_x86_64.
    destruct (negb (bit 0 e)); [discriminate|].
    destruct l as [|[|[|[|l]]]]; try discriminate; destruct (bit 7 e); discriminate.
  - intros l e va va'. reflexivity.
  - intros j Hj. destruct Hform as [Hf | Hf]; rewrite Hf in *; cbn [length] in Hj;
      do 7 (destruct j as [|j]; [cbn; lia|]); lia.
  - now rewrite Hfmt.
Qed.
