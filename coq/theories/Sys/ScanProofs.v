(** C08, scanning primitives: the specifications of [lowest_mapped],
    [lowest_unmapped], [highest_mapped] and [highest_linear] over C02's
    architectural walk of the table tree ([arch_levels]).  Generic in the PTE
    format: only the per-format simulation [sim] of C02 is used (proved there
    for eleven formats); huge-page directories are excluded.

    - [lowest_mapped]: the answer is the least mapped address of the range
      (it is mapped, the step holds its translation, everything before it is
      unmapped); "not present" means nothing in the range is mapped.
    - [lowest_unmapped]: the least unmapped address; everything before it is mapped.
    - [highest_mapped]: the greatest mapped address, scanning down.
    - [highest_linear]: the relation [lin_runs] (mapped runs whose first
      address has the offset asked for), and the closed form for a single run.

    Invariant of the scans: the step is exactly the state of the walk of [*addr]
    that has descended to the current table ([s_idx] is the index split of
    [*addr], [s_base] the table the architectural walk of [*addr] is at);
    skipping an entry is the index split of the first address of the next
    entry ([split_next_entry]) resp. of the last address of the previous one
    ([split_prev_entry]).  The loops share their tails ([after_up],
    [after_down]); the postconditions are instances of [gpost] / [gpost_d]. *)
From Coq Require Import NArith ZArith List Bool Lia.
From KdV Require Import Base.Wrap64 Xlat.Step Xlat.ArchSpec Xlat.XBits Xlat.WalkProofs Sys.ScanModel.
Import ListNotations.
Local Open Scope N_scope.

(** * Arithmetic of "the next entry of the level-[l] table" *)

Lemma lor_ones_div va k : N.lor va (N.ones k) = va / 2^k * 2^k + N.ones k.
Proof.
  rewrite <- lor_disjoint_add by apply ones_lt.
  apply N.bits_inj. intro i. rewrite !N.lor_spec.
  destruct (N.ltb_spec i k) as [Hlt|Hge].
  - rewrite N.ones_spec_low by exact Hlt. now rewrite !orb_true_r.
  - rewrite N.ones_spec_high by exact Hge. rewrite !orb_false_r.
    rewrite N.mul_pow2_bits_high by exact Hge. rewrite N.div_pow2_bits. f_equal. lia.
Qed.

Lemma next_entry_addr va k : w (N.lor va (N.ones k) + 1) = w ((va / 2^k + 1) * 2^k).
Proof.
  rewrite lor_ones_div, N.ones_equiv. pose proof (pow2_pos k). f_equal. nia.
Qed.

Lemma div_succ_same q d f : f <= d -> q mod 2^f + 1 < 2^f -> (q + 1) / 2^d = q / 2^d.
Proof.
  intros Hfd Hq.
  assert (Hm : q mod 2^d + 1 < 2^d).
  { replace d with (f + (d - f)) by lia. rewrite N.pow_add_r.
    rewrite N.mod_mul_r by apply pow2_nz.
    pose proof (N.mod_upper_bound (q / 2^f) (2^(d - f)) (pow2_nz _)).
    pose proof (pow2_pos f). pose proof (pow2_pos (d - f)). nia. }
  symmetry. apply N.div_unique with (r := q mod 2^d + 1); [exact Hm|].
  pose proof (N.div_mod q (2^d) (pow2_nz d)). lia.
Qed.

Lemma field_next_below fs va l j :
  (j < l)%nat -> (l <= length fs)%nat ->
  field fs j ((va / 2^(lo fs l) + 1) * 2^(lo fs l)) = 0.
Proof.
  intros Hj Hl. unfold field, bits.
  assert (Hlo : lo fs (S j) <= lo fs l) by (apply lo_mono; lia).
  rewrite lo_S in Hlo by lia.
  set (q := va / 2^(lo fs l) + 1).
  replace (lo fs l) with (lo fs j + (nth j fs 0 + (lo fs l - lo fs j - nth j fs 0))) by lia.
  rewrite !N.pow_add_r. rewrite (N.mul_comm (2^(lo fs j))), N.mul_assoc.
  rewrite N.div_mul by apply pow2_nz.
  rewrite (N.mul_comm (2^(nth j fs 0))), N.mul_assoc.
  apply N.mod_mul, pow2_nz.
Qed.

Lemma div_next_above fs va l d :
  field fs l va + 1 < 2^(nth l fs 0) -> nth l fs 0 <= d ->
  ((va / 2^(lo fs l) + 1) * 2^(lo fs l)) / 2^(lo fs l + d) = va / 2^(lo fs l + d).
Proof.
  intros Hf Hd. rewrite !N.pow_add_r, <- !N.div_div by apply pow2_nz.
  rewrite N.div_mul by apply pow2_nz.
  apply div_succ_same with (f := nth l fs 0); [exact Hd|exact Hf].
Qed.

Lemma field_next_at fs va l :
  field fs l va + 1 < 2^(nth l fs 0) ->
  field fs l ((va / 2^(lo fs l) + 1) * 2^(lo fs l)) = field fs l va + 1.
Proof.
  intro Hf. unfold field, bits in *. rewrite N.div_mul by apply pow2_nz.
  rewrite <- N.add_mod_idemp_l by apply pow2_nz. now apply N.mod_small.
Qed.

Lemma field_next_above fs va l j :
  (l < j)%nat -> (j < length fs)%nat -> field fs l va + 1 < 2^(nth l fs 0) ->
  field fs j ((va / 2^(lo fs l) + 1) * 2^(lo fs l)) = field fs j va.
Proof.
  intros Hlj Hj Hf. pose proof Hf as Hf2. unfold field, bits.
  assert (Hlo : lo fs (S l) <= lo fs j) by (apply lo_mono; lia).
  rewrite lo_S in Hlo by lia.
  replace (lo fs j) with (lo fs l + (lo fs j - lo fs l)) by lia.
  rewrite div_next_above by (try exact Hf2; lia). reflexivity.
Qed.

(** the index vector after "zero the lower indices, increment this one" is the
    index split of the first address of the next entry *)
Lemma nthN_set_nth l : forall i j v, (i < length l)%nat ->
  nthN (set_nth l i v) j = if Nat.eqb j i then v else nthN l j.
Proof.
  induction l as [|h t IH]; intros [|i] [|j] v Hi; cbn [length] in Hi; try lia;
    cbn [set_nth]; unfold nthN; cbn [nth Nat.eqb]; try reflexivity.
  apply IH. lia.
Qed.

Lemma length_set_nth l : forall i v, length (set_nth l i v) = length l.
Proof. induction l as [|h t IH]; intros [|i] v; cbn [set_nth length]; auto. Qed.

Lemma length_zero_below : forall n l, length (zero_below l n) = length l.
Proof. induction n as [|n IH]; intros [|h t]; cbn [zero_below length]; auto. Qed.


Lemma nthN_zero_below : forall n l j, nthN (zero_below l n) j = if (j <? n)%nat then 0 else nthN l j.
Proof.
  induction n as [|n IH]; intros l j.
  - destruct l; reflexivity.
  - destruct l as [|h t]; destruct j as [|j]; cbn [zero_below]; unfold nthN; cbn [nth]; try reflexivity.
    + destruct (S j <? S n)%nat; reflexivity.
    + change (nth j (zero_below t n) 0) with (nthN (zero_below t n) j). rewrite IH.
      change (S j <? S n)%nat with (j <? n)%nat. reflexivity.
Qed.

Lemma nthN_ext (l1 l2 : list N) : length l1 = length l2 ->
  (forall j, (j < length l1)%nat -> nthN l1 j = nthN l2 j) -> l1 = l2.
Proof.
  revert l2. induction l1 as [|h t IH]; intros [|h2 t2] Hl Hn; cbn [length] in *; try lia; [reflexivity|].
  f_equal.
  - apply (Hn 0%nat). lia.
  - apply IH; [lia|]. intros j Hj. apply (Hn (S j)). lia.
Qed.

Lemma split_next_entry fs va l :
  (l < length fs)%nat -> field fs l va + 1 < 2^(nth l fs 0) ->
  split_fields fs ((va / 2^(lo fs l) + 1) * 2^(lo fs l))
  = set_nth (zero_below (split_fields fs va) l) l (field fs l va + 1).
Proof.
  intros Hl Hf.
  set (va' := (va / 2^(lo fs l) + 1) * 2^(lo fs l)).
  apply nthN_ext.
  - rewrite length_set_nth, length_zero_below, !split_fields_length. reflexivity.
  - intros j Hj. rewrite split_fields_length in Hj.
    rewrite nthN_set_nth by (rewrite length_zero_below, split_fields_length; lia).
    rewrite nthN_zero_below.
    destruct (Nat.eqb_spec j l) as [->|Hne].
    + rewrite split_fields_nth by lia. now apply field_next_at.
    + destruct (Nat.ltb_spec j l) as [Hjl|Hjl].
      * rewrite split_fields_nth by lia. apply field_next_below; lia.
      * destruct (Nat.eq_dec j (length fs)) as [->|Hjn].
        -- rewrite !split_fields_last. unfold va'.
           assert (Hlo : lo fs (S l) <= total fs) by apply lo_le_total.
           rewrite lo_S in Hlo by lia.
           replace (total fs) with (lo fs l + (total fs - lo fs l)) by lia.
           apply div_next_above; [exact Hf|lia].
        -- rewrite !split_fields_nth by lia. apply field_next_above; try lia; exact Hf.
Qed.

(** * Arithmetic of "the previous entry of the level-[l] table" ([highest_mapped]) *)

Lemma div_pred_mul X k : 1 <= X -> (X * 2^k - 1) / 2^k = X - 1.
Proof.
  intro HX. pose proof (pow2_pos k). symmetry. apply N.div_unique with (r := 2^k - 1); [lia|].
  replace X with (X - 1 + 1) at 1 by lia. rewrite N.mul_add_distr_r, N.mul_1_l. lia.
Qed.

Lemma mod_pred_mul Y k : 1 <= Y -> (Y * 2^k - 1) mod 2^k = 2^k - 1.
Proof.
  intro HY. pose proof (pow2_pos k). symmetry. apply N.mod_unique with (q := Y - 1); [lia|].
  replace Y with (Y - 1 + 1) at 1 by lia. rewrite N.mul_add_distr_r, N.mul_1_l. lia.
Qed.

Lemma mod_pred q n : 1 <= q mod 2^n -> (q - 1) mod 2^n = q mod 2^n - 1.
Proof.
  intro H. pose proof (N.mod_upper_bound q (2^n) (pow2_nz _)).
  pose proof (N.div_mod q (2^n) (pow2_nz _)).
  symmetry. apply N.mod_unique with (q := q / 2^n); [lia|].
  set (m := q mod 2^n) in *. set (d := q / 2^n) in *. set (P := 2^n) in *. lia.
Qed.

Lemma div_pred_same q d f : f <= d -> 1 <= q mod 2^f -> (q - 1) / 2^d = q / 2^d.
Proof.
  intros Hfd Hq.
  assert (Hm : 1 <= q mod 2^d).
  { replace d with (f + (d - f)) by lia. rewrite N.pow_add_r.
    rewrite N.mod_mul_r by apply pow2_nz.
    apply N.le_trans with (q mod 2^f); [exact Hq|]. apply N.le_add_r. }
  pose proof (N.mod_upper_bound q (2^d) (pow2_nz _)).
  pose proof (N.div_mod q (2^d) (pow2_nz _)).
  symmetry. apply N.div_unique with (r := q mod 2^d - 1); [lia|].
  set (m := q mod 2^d) in *. set (e := q / 2^d) in *. set (P := 2^d) in *. lia.
Qed.

Lemma field_ge1_div fs va l : 1 <= field fs l va -> 1 <= va / 2^(lo fs l).
Proof.
  unfold field, bits. intro H.
  pose proof (N.mod_le (va / 2^(lo fs l)) (2^(nth l fs 0)) (pow2_nz _)). lia.
Qed.

Lemma field_prev_below fs va l j :
  (j < l)%nat -> (l <= length fs)%nat -> 1 <= va / 2^(lo fs l) ->
  field fs j (va / 2^(lo fs l) * 2^(lo fs l) - 1) = 2^(nth j fs 0) - 1.
Proof.
  intros Hj Hl Hq. unfold field, bits.
  assert (Hlo : lo fs (S j) <= lo fs l) by (apply lo_mono; lia).
  rewrite lo_S in Hlo by lia.
  set (q := va / 2^(lo fs l)) in *.
  replace (lo fs l) with (lo fs j + (nth j fs 0 + (lo fs l - lo fs j - nth j fs 0))) by lia.
  rewrite !N.pow_add_r. rewrite (N.mul_comm (2^(lo fs j))), N.mul_assoc.
  set (C := 2^(lo fs l - lo fs j - nth j fs 0)).
  assert (HC : 0 < C) by apply pow2_pos.
  pose proof (pow2_pos (nth j fs 0)) as HB.
  rewrite div_pred_mul by nia.
  rewrite (N.mul_comm (2^(nth j fs 0))), N.mul_assoc.
  apply mod_pred_mul. nia.
Qed.

Lemma div_prev_above fs va l d :
  1 <= field fs l va -> nth l fs 0 <= d ->
  (va / 2^(lo fs l) * 2^(lo fs l) - 1) / 2^(lo fs l + d) = va / 2^(lo fs l + d).
Proof.
  intros Hf Hd. pose proof (field_ge1_div _ _ _ Hf) as Hq.
  rewrite !N.pow_add_r, <- !N.div_div by apply pow2_nz.
  rewrite div_pred_mul by exact Hq.
  apply div_pred_same with (f := nth l fs 0); [exact Hd|exact Hf].
Qed.

Lemma field_prev_at fs va l :
  1 <= field fs l va ->
  field fs l (va / 2^(lo fs l) * 2^(lo fs l) - 1) = field fs l va - 1.
Proof.
  intro Hf. pose proof (field_ge1_div _ _ _ Hf) as Hq. unfold field, bits in *.
  rewrite div_pred_mul by exact Hq. now apply mod_pred.
Qed.

Lemma field_prev_above fs va l j :
  (l < j)%nat -> (j < length fs)%nat -> 1 <= field fs l va ->
  field fs j (va / 2^(lo fs l) * 2^(lo fs l) - 1) = field fs j va.
Proof.
  intros Hlj Hj Hf. unfold field, bits.
  assert (Hlo : lo fs (S l) <= lo fs j) by (apply lo_mono; lia).
  rewrite lo_S in Hlo by lia.
  replace (lo fs j) with (lo fs l + (lo fs j - lo fs l)) by lia.
  rewrite div_prev_above by (try exact Hf; lia). reflexivity.
Qed.

Lemma ones_below_spec : forall n fs idx,
  all_lt64 fs = true -> (n <= length fs)%nat ->
  exists idx', ones_below fs idx n = Some idx' /\ length idx' = length idx /\
    forall j, nthN idx' j = if ((j <? n) && (j <? length idx))%nat then 2^(nth j fs 0) - 1 else nthN idx j.
Proof.
  induction n as [|n IH]; intros fs idx Hlt Hn.
  - exists idx. cbn [ones_below]. split; [destruct idx; reflexivity|]. split; [reflexivity|]. intro j. reflexivity.
  - destruct fs as [|b fs']; [cbn [length] in Hn; lia|]. cbn [length] in Hn.
    cbn [all_lt64 forallb] in Hlt. apply andb_true_iff in Hlt. destruct Hlt as [Hb Hlt'].
    destruct idx as [|h t].
    + exists []. cbn [ones_below]. repeat split. intro j. cbn [length]. rewrite andb_false_r. reflexivity.
    + cbn [ones_below tl]. rewrite Hb.
      destruct (IH fs' t Hlt' ltac:(lia)) as (t' & Et & Hlen & Hnth). rewrite Et.
      eexists. split; [reflexivity|]. split; [cbn [length]; now rewrite Hlen|].
      apply N.ltb_lt in Hb.
      assert (Hw : wsub (wshl 1 b) 1 = 2^b - 1).
      { pose proof (pow2_lt_mono b 64 Hb). pose proof (pow2_pos b).
        rewrite wshl_small by lia. rewrite N.mul_1_l. apply wsub_le; [lia|]. rewrite W_pow. lia. }
      intros [|j]; unfold nthN; cbn [nth length].
      * exact Hw.
      * change (nth j t' 0) with (nthN t' j). rewrite Hnth.
        change (S j <? S n)%nat with (j <? n)%nat. change (S j <? S (length t))%nat with (j <? length t)%nat.
        reflexivity.
Qed.

(** the index vector after "all ones in the lower indices, decrement this one"
    is the index split of the last address of the previous entry *)
Lemma split_prev_entry fs va l idx' :
  (l < length fs)%nat -> 1 <= field fs l va ->
  length idx' = S (length fs) ->
  (forall j, nthN idx' j = if ((j <? l) && (j <? S (length fs)))%nat
                           then 2^(nth j fs 0) - 1 else nthN (split_fields fs va) j) ->
  split_fields fs (va / 2^(lo fs l) * 2^(lo fs l) - 1) = set_nth idx' l (field fs l va - 1).
Proof.
  intros Hl Hf Hlen Hnth. pose proof (field_ge1_div _ _ _ Hf) as Hq.
  apply nthN_ext.
  - rewrite length_set_nth, Hlen, split_fields_length. reflexivity.
  - intros j Hj. rewrite split_fields_length in Hj.
    rewrite nthN_set_nth by (rewrite Hlen; lia).
    destruct (Nat.eqb_spec j l) as [->|Hne].
    + rewrite split_fields_nth by lia. now apply field_prev_at.
    + rewrite Hnth. destruct (Nat.ltb_spec j l) as [Hjl|Hjl]; cbn [andb].
      * destruct (Nat.ltb_spec j (S (length fs))); [|lia].
        rewrite split_fields_nth by lia. apply field_prev_below; try lia.
      * destruct (Nat.eq_dec j (length fs)) as [->|Hjn].
        -- rewrite !split_fields_last.
           assert (Hlo : lo fs (S l) <= total fs) by apply lo_le_total.
           rewrite lo_S in Hlo by lia.
           replace (total fs) with (lo fs l + (total fs - lo fs l)) by lia.
           apply div_prev_above; [exact Hf|lia].
        -- rewrite !split_fields_nth by lia. apply field_prev_above; try lia; exact Hf.
Qed.

(** an address the architectural walk produces is a 64-bit value *)
Lemma arch_levels_lt readmem af tgt mask fs va : forall l tas tbase a p,
  arch_levels readmem af tgt mask fs va l tas tbase = (OK, Some (a, p)) -> p < 2^64.
Proof.
  assert (Hw : forall x a p, (OK, Some (tgt, w x)) = (OK, Some (a, p)) -> p < 2^64).
  { intros x a p H. injection H as _ <-. rewrite <- W_pow. apply w_lt. }
  induction l as [|l IH]; intros tas tbase a p; cbn [arch_levels].
  - apply Hw.
  - destruct (rd_entry _ _ _ _ _) as [pte|e]; [|discriminate].
    destruct (af_decode af tgt fs (S l) pte va) as [ta tb|b sz|ta tb sh| |]; try discriminate.
    + apply IH.
    + apply Hw.
    + destruct (rd_entry _ _ _ _ _) as [hpte|e]; [|discriminate].
      destruct (af_decode af tgt fs 1 hpte va); try discriminate; apply Hw.
Qed.

Section ScanSound.
Variable readmem : aspace -> N -> rdres.
Variable af : archfmt.
Variable tgt : aspace.
Variable mask : N.
Variable pf : pform.
Variable ras : aspace.
Variable root : N.

Notation fs := (fieldsz pf).
Notation m := {| m_kind := KPgt ras root mask pf; m_target := tgt |}.

Hypothesis Hsim : forall va, sim readmem af tgt mask pf va.
Hypothesis Herr : forall a x, readmem a x <> RdErr OK.
Hypothesis Hlt : all_lt64 fs = true.
Hypothesis Htot : total fs <= 64.
Hypothesis Hlen : (2 <= length fs <= 8)%nat.
(** huge-page directories (Linux ppc64) are not covered *)
Hypothesis Hnodir : forall l e va a b sh, af_decode af tgt fs l e va <> DHugeDir a b sh.

(** the architectural walk of [va] from the level-[l] table at [(tas, tbase)] *)
Notation W := (fun va l tas tbase => arch_levels readmem af tgt mask fs va l tas tbase).

(** the step is the walk state of [va] at the level-[l] table *)
Definition at_level (va : N) (l : nat) (s : step) : Prop :=
  s_remain s = S l /\ s_idx s = split_fields fs va /\
  s_elemsz s = (if Nat.eqb l 0 then 1 else af_ptesz af).

(** one [internal_step] of such a state *)
Lemma step_at_level va l s : (l < length fs)%nat -> at_level va l s ->
  match l with
  | O => internal_step readmem m s =
         (OK, set_elemsz (set_as (mkstep (s_as s) (w (s_base s + va mod 2^(nth 0 fs 0))) 0 (s_elemsz s)
                                         (s_idx s) (s_raw s)) tgt) 0)
  | S l' =>
    match rd_entry readmem af mask (s_as s) (w (s_base s + field fs l va * af_ptesz af)) with
    | RdErr e => exists s', internal_step readmem m s = (e, s') /\ e <> OK
    | RdOk pte =>
      match af_decode af tgt fs l pte va with
      | DTable a b => exists s', internal_step readmem m s = (OK, s') /\ at_level va l' s' /\
                                 s_as s' = a /\ s_base s' = b
      | DLeaf b sz => exists s', internal_step readmem m s = (OK, s') /\ s_remain s' = 1%nat /\
                                 s_elemsz s' = 1 /\ (1 <= length (s_idx s'))%nat /\
                                 w (s_base s' + nthN (s_idx s') 0) = w (b + va mod 2^sz)
      | DHugeDir _ _ _ => False
      | DNotPresent => exists s', internal_step readmem m s = (NOTPRESENT, s')
      | DInvalid => exists s', internal_step readmem m s = (INVALID, s')
      end
    end
  end.
Proof.
  intros Hl (Hr & Hidx & Hes). unfold internal_step, addrxlat_step. rewrite Hr.
  unfold advance. rewrite Hidx, split_fields_length.
  destruct (Nat.leb_spec (S (length fs)) l); [lia|].
  destruct l as [|l'].
  - cbn [Nat.eqb] in Hes. rewrite Hes. rewrite split_fields_0 by lia.
    unfold wadd, wmul. rewrite N.mul_1_r, w_add_r. rewrite <- Hidx. reflexivity.
  - cbn [Nat.eqb] in Hes. rewrite Hes.
    rewrite split_fields_nth by lia. cbn [next_step m_kind m_target].
    set (s1 := mkstep _ _ _ _ _ _).
    assert (Hb1 : s_base s1 = w (s_base s + field fs (S l') va * af_ptesz af)).
    { unfold s1. cbn [s_base]. unfold wadd, wmul. now rewrite w_add_r. }
    assert (Hs1 : sim_at readmem af tgt mask pf va (S l') s1).
    { apply Hsim; try lia; unfold s1; reflexivity. }
    unfold sim_at in Hs1. rewrite Hb1 in Hs1. change (s_as s1) with (s_as s) in Hs1.
    destruct (rd_entry readmem af mask (s_as s) (w (s_base s + field fs (S l') va * af_ptesz af)))
      as [pte|e] eqn:Erd.
    + destruct (af_decode af tgt fs (S l') pte va) as [a b|b sz|a b sh| |] eqn:Edec.
      * destruct Hs1 as (s' & Hn & Has & Hbs & Hrem & Hes' & Hix).
        exists s'. split; [exact Hn|]. split; [|auto].
        split; [exact Hrem|]. split; [rewrite Hix; reflexivity|].
        rewrite Hes'. unfold s1. cbn [s_elemsz]. destruct l'; reflexivity.
      * destruct Hs1 as (s' & Hn & Hrem & Hes' & Hlen' & Hfin). exists s'. auto.
      * exact (Hnodir _ _ _ _ _ _ Edec).
      * exact Hs1.
      * exact Hs1.
    + assert (He : e <> OK).
      { unfold rd_entry in Erd. destruct (readmem (s_as s) _) as [v|e'] eqn:E; [discriminate|].
        injection Erd as <-. intro He. subst e'. exact (Herr _ _ E). }
      destruct (Hs1 He) as (s' & Hn). exists s'. auto.
Qed.

(** the last step of a state with [remain = 1] *)
Lemma final_step (s : step) : s_remain s = 1%nat -> (1 <= length (s_idx s))%nat ->
  exists s', internal_step readmem m s = (OK, s') /\ s_as s' = tgt /\
             s_base s' = w (s_base s + nthN (s_idx s) 0 * s_elemsz s).
Proof.
  intros Hr Hl. unfold internal_step, addrxlat_step. rewrite Hr. unfold advance.
  destruct (Nat.leb_spec (length (s_idx s)) 0); [lia|].
  eexists. split; [reflexivity|]. cbn [set_elemsz set_as s_as s_base].
  split; [reflexivity|]. unfold wadd, wmul. now rewrite w_add_r.
Qed.

Hypothesis Hdecva : forall l e va va', af_decode af tgt fs l e va = af_decode af tgt fs l e va'.
Hypothesis Hpos : forall j, (j < length fs)%nat -> 1 <= nth j fs 0.

Variable limit : N.

(** first address after the span of the level-[l] entry that contains [a]
    ([next_nat]: as a number, possibly 2^64; [next_at]: as the C code computes it) *)
Definition next_nat (l : nat) (a : N) : N := (a / 2^(lo fs l) + 1) * 2^(lo fs l).
Definition next_at (l : nat) (a : N) : N := w (next_nat l a).

Notation NP := (NOTPRESENT, @None (aspace * N)).

(** the shape of what an upward [_tbl] worker (table level [l], entered with
    [*addr = a0]) may answer: [P] holds of every address it has passed over,
    [Q] of the address it stops at *)
Definition gpost (P : N -> Prop) (Q : step -> N -> Prop) (l : nat) (a0 : N) (res : scanres) : Prop :=
  match res with
  | (OK, s', r) =>
      a0 <= r /\ r <= limit /\ r < 2^64 /\ r / 2^(lo fs (S l)) = a0 / 2^(lo fs (S l)) /\
      Q s' r /\ (forall a, a0 <= a -> a < r -> P a)
  | (NOTPRESENT, _, a2) =>
      a2 < 2^64 /\ a2 <= next_nat (S l) a0 /\ (limit < a2 \/ a2 = next_at (S l) a0) /\
      (forall a, a0 <= a -> a <= limit -> a / 2^(lo fs (S l)) = a0 / 2^(lo fs (S l)) -> P a)
  | _ => True
  end.

Definition mapped (l : nat) (tas : aspace) (tbase : N) (a : N) : Prop :=
  exists p, W a l tas tbase = (OK, Some (tgt, p)).
Definition unmapped (l : nat) (tas : aspace) (tbase : N) (a : N) : Prop :=
  W a l tas tbase = NP.

(** [lowest_mapped_tbl]: stops at a mapped address, has passed over unmapped ones *)
Definition tbl_post (l : nat) (a0 : N) (tas : aspace) (tbase : N) : scanres -> Prop :=
  gpost (unmapped l tas tbase)
        (fun s' r => s_as s' = tgt /\ W r l tas tbase = (OK, Some (tgt, s_base s'))) l a0.
(** [lowest_unmapped_tbl]: the other way round *)
Definition tbl_post_u (l : nat) (a0 : N) (tas : aspace) (tbase : N) : scanres -> Prop :=
  gpost (mapped l tas tbase) (fun _ r => unmapped l tas tbase r) l a0.

Lemma lo_lt_64 l : (l < length fs)%nat -> lo fs l < 64.
Proof.
  intro Hl. pose proof (lo_S fs l Hl). pose proof (Hpos l Hl).
  pose proof (lo_le_total fs (S l)). lia.
Qed.

Lemma same_fields_above l a b j : (l <= j)%nat ->
  a / 2^(lo fs l) = b / 2^(lo fs l) -> field fs j a = field fs j b.
Proof.
  intros Hj H. unfold field, bits.
  assert (Hlo : lo fs l <= lo fs j) by now apply lo_mono.
  replace (lo fs j) with (lo fs l + (lo fs j - lo fs l)) by lia.
  rewrite !N.pow_add_r, <- !N.div_div by apply pow2_nz. now rewrite H.
Qed.

(** [W] only looks at the fields of the address up to the level it starts at *)
Lemma W_entry r a l tas tbase : (1 <= l)%nat ->
  r / 2^(lo fs l) = a / 2^(lo fs l) ->
  forall pte, rd_entry readmem af mask tas (w (tbase + field fs l a * af_ptesz af)) = RdOk pte ->
  forall ta tb, af_decode af tgt fs l pte a = DTable ta tb ->
  W r l tas tbase = W r (l - 1)%nat ta tb.
Proof.
  intros Hl Hra pte Hrd ta tb Hdec. destruct l as [|l']; [lia|]. cbn [arch_levels].
  rewrite (same_fields_above (S l') r a (S l')) by (auto; lia).
  rewrite Hrd. rewrite (Hdecva _ _ r a), Hdec. replace (S l' - 1)%nat with l' by lia. reflexivity.
Qed.

Lemma W_entry_np r a l tas tbase : (1 <= l)%nat ->
  r / 2^(lo fs l) = a / 2^(lo fs l) ->
  (rd_entry readmem af mask tas (w (tbase + field fs l a * af_ptesz af)) = RdErr NOTPRESENT \/
   exists pte, rd_entry readmem af mask tas (w (tbase + field fs l a * af_ptesz af)) = RdOk pte /\
               af_decode af tgt fs l pte a = DNotPresent) ->
  W r l tas tbase = NP.
Proof.
  intros Hl Hra H. destruct l as [|l']; [lia|]. cbn [arch_levels].
  rewrite (same_fields_above (S l') r a (S l')) by (auto; lia).
  destruct H as [-> | (pte & -> & Hd)]; [reflexivity|]. now rewrite (Hdecva _ _ r a), Hd.
Qed.

(** arithmetic of spans *)
Lemma lt_next_nat l a : a < next_nat l a.
Proof.
  unfold next_nat. pose proof (N.div_mod a (2^(lo fs l)) (pow2_nz _)).
  pose proof (N.mod_upper_bound a (2^(lo fs l)) (pow2_nz _)). nia.
Qed.

Lemma in_entry_below_next l a x : a <= x -> x < next_nat l a -> x / 2^(lo fs l) = a / 2^(lo fs l).
Proof.
  intros H1 H2. unfold next_nat in H2. apply N.le_antisymm.
  - assert (x / 2^(lo fs l) < a / 2^(lo fs l) + 1); [|lia].
    apply N.div_lt_upper_bound; [apply pow2_nz|]. lia.
  - apply N.div_le_mono; [apply pow2_nz|exact H1].
Qed.

Lemma not_in_entry_ge_next l a x : a <= x -> x / 2^(lo fs l) <> a / 2^(lo fs l) -> next_nat l a <= x.
Proof.
  intros H1 H2. unfold next_nat.
  assert (Hm : a / 2^(lo fs l) <= x / 2^(lo fs l)) by (apply N.div_le_mono; [apply pow2_nz|exact H1]).
  apply N.le_trans with (x / 2^(lo fs l) * 2^(lo fs l)).
  - apply N.mul_le_mono_r. lia.
  - rewrite N.mul_comm. apply N.mul_div_le, pow2_nz.
Qed.

Lemma div_sandwich K a x r : a <= x -> x <= r -> r / 2^K = a / 2^K -> x / 2^K = a / 2^K.
Proof.
  intros H1 H2 H3. apply N.le_antisymm.
  - rewrite <- H3. apply N.div_le_mono; [apply pow2_nz|exact H2].
  - apply N.div_le_mono; [apply pow2_nz|exact H1].
Qed.

Lemma span_up l a x : (l < length fs)%nat ->
  x / 2^(lo fs l) = a / 2^(lo fs l) -> x / 2^(lo fs (S l)) = a / 2^(lo fs (S l)).
Proof.
  intros Hl H. rewrite lo_S by exact Hl. rewrite !N.pow_add_r, <- !N.div_div by apply pow2_nz. now rewrite H.
Qed.

Lemma next_nat_same l a b : a / 2^(lo fs l) = b / 2^(lo fs l) -> next_nat l a = next_nat l b.
Proof. intro H. unfold next_nat. now rewrite H. Qed.

Lemma next_nat_up l a : (l < length fs)%nat -> next_nat l a <= next_nat (S l) a.
Proof.
  intro Hl. unfold next_nat. rewrite lo_S by exact Hl. rewrite N.pow_add_r, <- N.div_div by apply pow2_nz.
  set (q := a / 2^(lo fs l)).
  pose proof (N.div_mod q (2^(nth l fs 0)) (pow2_nz _)).
  pose proof (N.mod_upper_bound q (2^(nth l fs 0)) (pow2_nz _)).
  pose proof (pow2_pos (lo fs l)). nia.
Qed.

Lemma w_le x : w x <= x.
Proof. unfold w. apply N.mod_le, W_nz. Qed.

(** skipping to the next entry of the table: the common tail of the upward loops *)
Lemma after_up (P : N -> Prop) (Q : step -> N -> Prop) l (cont : step -> N -> scanres) mystep addr :
  (1 <= l)%nat -> (l < length fs)%nat ->
  at_level addr l mystep -> addr < 2^64 -> addr <= limit ->
  (forall mystep' a2, at_level a2 l mystep' -> s_as mystep' = s_as mystep -> s_base mystep' = s_base mystep ->
     a2 < 2^64 -> gpost P Q l a2 (cont mystep' a2)) ->
  (forall st a2, limit < a2 ->
     match cont st a2 with (NOTPRESENT, _, a2') => a2' = a2 | (OK, _, _) => False | _ => True end) ->
  forall s2 a2, a2 < 2^64 -> a2 <= next_nat l addr -> (limit < a2 \/ a2 = next_at l addr) ->
    (forall a, addr <= a -> a <= limit -> a / 2^(lo fs l) = addr / 2^(lo fs l) -> P a) ->
    gpost P Q l addr
      (let i := (s_remain mystep - 1)%nat in
       let idx := zero_below (s_idx mystep) i in
       let v := wadd (nthN idx i) 1 in
       let mystep' := set_idx mystep (set_nth idx i v) in
       if 2^(nth l fs 0) <=? v then (NOTPRESENT, s2, a2) else cont mystep' a2).
Proof.
  intros Hl1 Hl Hat Ha Hle IH Hguard.
  pose proof Hat as (Hr & Hidx & Hes).
  assert (Hf64 : nth l fs 0 < 64) by (apply all_lt64_nth; assumption).
  pose proof (lo_lt_64 l Hl) as Hlo64.
  assert (HS : lo fs (S l) = lo fs l + nth l fs 0) by now apply lo_S.
  intros s2 a2 Hw2 Hle2 Ha2 HE. rewrite Hr. replace (S l - 1)%nat with l by lia. cbv zeta.
  rewrite nthN_zero_below. rewrite Nat.ltb_irrefl. rewrite Hidx, split_fields_nth by exact Hl.
  pose proof (field_lt fs l addr) as Hfl.
  assert (Hv : wadd (field fs l addr) 1 = field fs l addr + 1).
  { apply wadd_small. rewrite W_pow.
    apply N.lt_le_trans with (2^(nth l fs 0) + 1); [lia|].
    pose proof (pow2_lt_mono (nth l fs 0) 64 Hf64). lia. }
  rewrite Hv.
  destruct (N.leb_spec (2^(nth l fs 0)) (field fs l addr + 1)) as [Hfull|Hroom].
  - (* last entry of the table *)
    assert (Hfield : field fs l addr = 2^(nth l fs 0) - 1) by lia.
    assert (Hnn : next_nat l addr = next_nat (S l) addr).
    { unfold next_nat. rewrite HS, N.pow_add_r.
      unfold field, bits in Hfield.
      pose proof (N.div_mod (addr / 2^(lo fs l)) (2^(nth l fs 0)) (pow2_nz _)) as Hdm.
      rewrite <- N.div_div by apply pow2_nz.
      pose proof (pow2_pos (nth l fs 0)). pose proof (pow2_pos (lo fs l)). nia. }
    cbn [gpost]. split; [exact Hw2|]. split; [lia|]. split.
    { destruct Ha2 as [Hlim| ->]; [left; exact Hlim|right]. unfold next_at. now rewrite Hnn. }
    intros a H1 H2 H3. apply HE; try assumption.
    (* same table and the entry is the last one: same entry *)
    apply N.le_antisymm.
    + unfold field, bits in Hfield. rewrite HS in H3. rewrite !N.pow_add_r, <- !N.div_div in H3 by apply pow2_nz.
      pose proof (N.div_mod (a / 2^(lo fs l)) (2^(nth l fs 0)) (pow2_nz _)) as D1.
      pose proof (N.div_mod (addr / 2^(lo fs l)) (2^(nth l fs 0)) (pow2_nz _)) as D2.
      pose proof (N.mod_upper_bound (a / 2^(lo fs l)) (2^(nth l fs 0)) (pow2_nz _)). nia.
    + apply N.div_le_mono; [apply pow2_nz|exact H1].
  - destruct Ha2 as [Hlim| ->].
    + (* beyond the limit: the next iteration stops at once *)
      match goal with |- gpost _ _ _ _ (cont ?st a2) => specialize (Hguard st a2 Hlim);
        destruct (cont st a2) as [[st' s'] r] end.
      destruct st'; try exact I; try contradiction. subst r. cbn [gpost]. split; [exact Hw2|].
      split; [pose proof (next_nat_up l addr Hl); lia|]. split; [left; exact Hlim|].
      intros a H1 H2 H3. apply HE; try assumption. apply in_entry_below_next; lia.
    + assert (Hnw : next_nat l addr < 2^64).
      { unfold next_nat.
        assert (Hq : addr / 2^(lo fs l) + 1 <= 2^(64 - lo fs l)).
        { assert (addr / 2^(lo fs l) < 2^(64 - lo fs l)); [|lia].
          apply N.div_lt_upper_bound; [apply pow2_nz|]. rewrite <- N.pow_add_r.
          replace (lo fs l + (64 - lo fs l)) with 64 by lia. exact Ha. }
        destruct (N.eq_dec (addr / 2^(lo fs l) + 1) (2^(64 - lo fs l))) as [Heq|Hne].
        - exfalso. unfold field, bits in Hroom.
          assert (Hdiv : (2^(nth l fs 0) | 2^(64 - lo fs l))).
          { exists (2^(64 - lo fs l - nth l fs 0)). rewrite <- N.pow_add_r. f_equal.
            pose proof (lo_le_total fs (S l)). lia. }
          destruct Hdiv as [c Hc].
          assert (Hm : (addr / 2^(lo fs l) + 1) mod 2^(nth l fs 0) = 0)
            by (rewrite Heq, Hc; apply N.mod_mul, pow2_nz).
          rewrite <- N.add_mod_idemp_l in Hm by apply pow2_nz.
          rewrite N.mod_small in Hm by exact Hroom. rewrite N.add_1_r in Hm. now apply N.neq_succ_0 in Hm.
        - replace (2^64) with (2^(64 - lo fs l) * 2^(lo fs l))
            by (rewrite <- N.pow_add_r; f_equal; lia).
          apply N.mul_lt_mono_pos_r; [apply pow2_pos|lia]. }
      assert (Hnext : next_at l addr = next_nat l addr) by (unfold next_at; now apply w_small').
      rewrite Hnext.
      set (a2 := next_nat l addr) in *.
      assert (Hat2 : at_level a2 l (set_idx mystep
                       (set_nth (zero_below (split_fields fs addr) l) l (field fs l addr + 1)))).
      { split; [exact Hr|]. split; [|exact Hes]. cbn [set_idx s_idx].
        symmetry. apply split_next_entry; [exact Hl|exact Hroom]. }
      specialize (IH _ a2 Hat2 eq_refl eq_refl Hnw).
      assert (Hsame : a2 / 2^(lo fs (S l)) = addr / 2^(lo fs (S l))).
      { rewrite HS. unfold a2, next_nat. apply div_next_above; [exact Hroom|lia]. }
      pose proof (lt_next_nat l addr) as Hlt2. fold a2 in Hlt2.
      destruct (cont _ a2) as [[st s'] r].
      destruct st; try exact I.
      * destruct IH as (H0 & H1 & H2 & H3 & H4 & H6).
        split; [lia|]. split; [exact H1|]. split; [exact H2|]. split; [now rewrite H3|].
        split; [exact H4|].
        intros a Ha1 Ha2'. destruct (N.lt_ge_cases a a2) as [Hb|Hb].
        -- apply HE; try lia. apply in_entry_below_next; assumption.
        -- apply H6; assumption.
      * destruct IH as (Hw & H0 & H1 & H2). split; [exact Hw|]. split; [now rewrite <- (next_nat_same (S l) a2 addr Hsame)|].
        split; [destruct H1 as [H1|H1]; [left; exact H1|right]; rewrite H1; unfold next_at;
                now rewrite (next_nat_same (S l) a2 addr Hsame)|].
        intros a Ha1 Ha2' Ha3. destruct (N.lt_ge_cases a a2) as [Hb|Hb].
        -- apply HE; try assumption. apply in_entry_below_next; assumption.
        -- apply H2; try assumption. now rewrite Hsame.
Qed.

Lemma skip_entry l addr :
  wadd (N.lor addr (N.ones (lo fs l))) 1 <= next_nat l addr /\
  wadd (N.lor addr (N.ones (lo fs l))) 1 = next_at l addr.
Proof. unfold next_at, wadd. rewrite next_entry_addr. split; [apply w_le|reflexivity]. Qed.

Lemma lm_loop_spec (rec : step -> N -> scanres) l tas tbase :
  (1 <= l)%nat -> (l < length fs)%nat ->
  (forall s1 a ta tb, (2 <= l)%nat -> at_level a (l - 1) s1 -> s_as s1 = ta -> s_base s1 = tb -> a < 2^64 ->
     tbl_post (l - 1) a ta tb (rec s1 a)) ->
  forall k mystep addr,
  at_level addr l mystep -> s_as mystep = tas -> s_base mystep = tbase -> addr < 2^64 ->
  tbl_post l addr tas tbase
    (lm_loop readmem m rec k limit (2^(nth l fs 0)) (N.ones (lo fs l)) mystep mystep addr).
Proof.
  intros Hl1 Hl Hrec. induction k as [|k IH]; intros mystep addr Hat Has Hbs Ha; [exact I|].
  cbn [lm_loop]. unfold tbl_post.
  destruct (N.leb_spec addr limit) as [Hle|Hgt]; cbn [negb].
  2:{ cbn [gpost]. split; [exact Ha|]. split; [pose proof (lt_next_nat (S l) addr); lia|]. split; [left; exact Hgt|].
      intros a H1 H2. lia. }
  pose proof Hat as (Hr & Hidx & Hes).
  pose proof (after_up (unmapped l tas tbase)
                (fun s' r => s_as s' = tgt /\ W r l tas tbase = (OK, Some (tgt, s_base s')))
                l (fun ms a => lm_loop readmem m rec k limit (2^(nth l fs 0)) (N.ones (lo fs l)) ms ms a)
                mystep addr Hl1 Hl Hat Ha Hle) as Hafter.
  cbv beta in Hafter.
  assert (Hafter' := Hafter
            (fun ms a2 H1 H2 H3 H4 => IH ms a2 H1 (eq_trans H2 Has) (eq_trans H3 Hbs) H4)).
  clear Hafter. rename Hafter' into Hafter.
  assert (Hg : forall st a2, limit < a2 ->
            match lm_loop readmem m rec k limit (2^(nth l fs 0)) (N.ones (lo fs l)) st st a2 with
            | (NOTPRESENT, _, a2') => a2' = a2 | (OK, _, _) => False | _ => True end).
  { intros st a2 Hlim. destruct k; [exact I|]. cbn [lm_loop].
    destruct (N.leb_spec a2 limit); [lia|]. reflexivity. }
  specialize (Hafter Hg). clear Hg.
  (* the entry itself *)
  pose proof (step_at_level addr l mystep Hl Hat) as Hstep.
  destruct l as [|l']; [lia|]. rewrite Has, Hbs in Hstep.
  pose proof (skip_entry (S l') addr) as Hskip.
  destruct (rd_entry readmem af mask tas (w (tbase + field fs (S l') addr * af_ptesz af))) as [pte|e] eqn:Erd.
  2:{ destruct Hstep as (s' & Hn & He). rewrite Hn. destruct e; try exact I; try contradiction.
      (* a failing read that reports "not present" is treated like an absent entry by the C code *)
      apply Hafter; [rewrite <- W_pow; apply wadd_lt|apply Hskip|right; apply Hskip|].
      intros a H1 H2 H3. apply (W_entry_np a addr (S l')); [lia|exact H3|left; exact Erd]. }
  destruct (af_decode af tgt fs (S l') pte addr) as [ta tb|b sz|ta tb sh| |] eqn:Edec.
  - (* table *)
    destruct Hstep as (s1 & Hn & Hat1 & Has1 & Hbs1). rewrite Hn.
    pose proof Hat1 as (Hr1 & Hidx1 & Hes1). rewrite Hr1.
    destruct l' as [|l''].
    + (* the table maps pages: one more step *)
      cbn [Nat.leb].
      pose proof (step_at_level addr 0 s1 ltac:(lia) Hat1) as Hfin. cbn beta iota in Hfin.
      rewrite Hfin. cbn [gpost set_elemsz set_as s_as s_base].
      repeat split; auto; try lia.
      cbn [arch_levels]. rewrite Erd, Edec. cbn [arch_levels]. now rewrite Hbs1.
    + replace (S (S l'') <=? 1)%nat with false by reflexivity.
      specialize (Hrec s1 addr ta tb ltac:(lia)).
      replace (S (S l'') - 1)%nat with (S l'') in Hrec by lia.
      specialize (Hrec Hat1 Has1 Hbs1 Ha). unfold tbl_post in Hrec.
      destruct (rec s1 addr) as [[st2 s2] addr2].
      destruct st2; try exact I.
      * destruct Hrec as (H0 & H1 & H2 & H3 & (H4 & H5) & H6). cbn [gpost].
        split; [exact H0|]. split; [exact H1|]. split; [exact H2|].
        split; [apply span_up; [lia|exact H3]|]. split; [split; [exact H4|]|].
        -- rewrite (W_entry addr2 addr (S (S l'')) tas tbase ltac:(lia) H3 pte Erd ta tb Edec).
           replace (S (S l'') - 1)%nat with (S l'') by lia. exact H5.
        -- intros a Ha1 Ha2.
           assert (Hsp : a / 2^(lo fs (S (S l''))) = addr / 2^(lo fs (S (S l'')))).
           { apply (div_sandwich _ addr a addr2); lia. }
           unfold unmapped.
           rewrite (W_entry a addr (S (S l'')) tas tbase ltac:(lia) Hsp pte Erd ta tb Edec).
           replace (S (S l'') - 1)%nat with (S l'') by lia. apply H6; assumption.
      * destruct Hrec as (Hw & H0 & H1 & H2). apply Hafter; [exact Hw|exact H0|exact H1|].
        intros a Ha1 Ha2 Ha3. unfold unmapped.
        rewrite (W_entry a addr (S (S l'')) tas tbase ltac:(lia) Ha3 pte Erd ta tb Edec).
        replace (S (S l'') - 1)%nat with (S l'') by lia. apply H2; assumption.
  - (* leaf (huge page) *)
    destruct Hstep as (s1 & Hn & Hr1 & Hes1 & Hlen1 & Hfin). rewrite Hn, Hr1. cbn [Nat.leb].
    destruct (final_step s1 Hr1 Hlen1) as (s2 & Hn2 & Has2 & Hbs2). rewrite Hn2.
    cbn [gpost]. repeat split; auto; try lia.
    cbn [arch_levels]. rewrite Erd, Edec. rewrite Hbs2, Hes1, N.mul_1_r, Hfin. reflexivity.
  - contradiction.
  - destruct Hstep as (s1 & Hn). rewrite Hn.
    apply Hafter; [rewrite <- W_pow; apply wadd_lt|apply Hskip|right; apply Hskip|].
    intros a H1 H2 H3. apply (W_entry_np a addr (S l')); [lia|exact H3|right; exists pte; auto].
  - destruct Hstep as (s1 & Hn). rewrite Hn. exact I.
Qed.

Lemma W_entry_leaf r a l tas tbase : (1 <= l)%nat ->
  r / 2^(lo fs l) = a / 2^(lo fs l) ->
  forall pte, rd_entry readmem af mask tas (w (tbase + field fs l a * af_ptesz af)) = RdOk pte ->
  forall b sz, af_decode af tgt fs l pte a = DLeaf b sz ->
  mapped l tas tbase r.
Proof.
  intros Hl Hra pte Hrd b sz Hdec. destruct l as [|l']; [lia|]. unfold mapped. cbn [arch_levels].
  rewrite (same_fields_above (S l') r a (S l')) by (auto; lia).
  rewrite Hrd. rewrite (Hdecva _ _ r a), Hdec. eexists. reflexivity.
Qed.

Lemma lu_loop_spec (rec : step -> N -> scanres) l tas tbase :
  (1 <= l)%nat -> (l < length fs)%nat ->
  (forall s1 a ta tb, (2 <= l)%nat -> at_level a (l - 1) s1 -> s_as s1 = ta -> s_base s1 = tb -> a < 2^64 ->
     tbl_post_u (l - 1) a ta tb (rec s1 a)) ->
  forall k mystep addr,
  at_level addr l mystep -> s_as mystep = tas -> s_base mystep = tbase -> addr < 2^64 ->
  tbl_post_u l addr tas tbase
    (lu_loop readmem m rec k limit (2^(nth l fs 0)) (N.ones (lo fs l)) mystep mystep addr).
Proof.
  intros Hl1 Hl Hrec. induction k as [|k IH]; intros mystep addr Hat Has Hbs Ha; [exact I|].
  cbn [lu_loop]. unfold tbl_post_u.
  destruct (N.leb_spec addr limit) as [Hle|Hgt]; cbn [negb].
  2:{ cbn [gpost]. split; [exact Ha|]. split; [pose proof (lt_next_nat (S l) addr); lia|]. split; [left; exact Hgt|].
      intros a H1 H2. lia. }
  pose proof Hat as (Hr & Hidx & Hes).
  pose proof (after_up (mapped l tas tbase) (fun _ r => unmapped l tas tbase r)
                l (fun ms a => lu_loop readmem m rec k limit (2^(nth l fs 0)) (N.ones (lo fs l)) ms ms a)
                mystep addr Hl1 Hl Hat Ha Hle) as Hafter.
  cbv beta in Hafter.
  assert (Hafter' := Hafter
            (fun ms a2 H1 H2 H3 H4 => IH ms a2 H1 (eq_trans H2 Has) (eq_trans H3 Hbs) H4)).
  clear Hafter. rename Hafter' into Hafter.
  assert (Hg : forall st a2, limit < a2 ->
            match lu_loop readmem m rec k limit (2^(nth l fs 0)) (N.ones (lo fs l)) st st a2 with
            | (NOTPRESENT, _, a2') => a2' = a2 | (OK, _, _) => False | _ => True end).
  { intros st a2 Hlim. destruct k; [exact I|]. cbn [lu_loop].
    destruct (N.leb_spec a2 limit); [lia|]. reflexivity. }
  specialize (Hafter Hg). clear Hg.
  assert (Hhere : unmapped l tas tbase addr -> forall s1, gpost (mapped l tas tbase)
                    (fun _ r => unmapped l tas tbase r) l addr (OK, s1, addr)).
  { intros Hu s1. cbn [gpost]. repeat split; auto; try lia. }
  pose proof (step_at_level addr l mystep Hl Hat) as Hstep.
  destruct l as [|l']; [lia|]. rewrite Has, Hbs in Hstep.
  pose proof (skip_entry (S l') addr) as Hskip.
  destruct (rd_entry readmem af mask tas (w (tbase + field fs (S l') addr * af_ptesz af))) as [pte|e] eqn:Erd.
  2:{ destruct Hstep as (s' & Hn & He). rewrite Hn. destruct e; try exact I; try contradiction.
      apply Hhere. apply (W_entry_np addr addr (S l')); [lia|reflexivity|left; exact Erd]. }
  destruct (af_decode af tgt fs (S l') pte addr) as [ta tb|b sz|ta tb sh| |] eqn:Edec.
  - (* table *)
    destruct Hstep as (s1 & Hn & Hat1 & Has1 & Hbs1). rewrite Hn.
    pose proof Hat1 as (Hr1 & Hidx1 & Hes1). rewrite Hr1.
    destruct l' as [|l''].
    + (* a table of pages: every address of the entry is mapped *)
      cbn [Nat.ltb Nat.leb].
      apply Hafter; [rewrite <- W_pow; apply wadd_lt|apply Hskip|right; apply Hskip|].
      intros a H1 H2 H3. unfold mapped.
      rewrite (W_entry a addr 1 tas tbase ltac:(lia) H3 pte Erd ta tb Edec).
      cbn [Nat.sub arch_levels]. eexists. reflexivity.
    + replace (1 <? S (S l''))%nat with true by reflexivity.
      specialize (Hrec s1 addr ta tb ltac:(lia)).
      replace (S (S l'') - 1)%nat with (S l'') in Hrec by lia.
      specialize (Hrec Hat1 Has1 Hbs1 Ha). unfold tbl_post_u in Hrec.
      destruct (rec s1 addr) as [[st2 s2] addr2].
      destruct st2; try exact I.
      * destruct Hrec as (H0 & H1 & H2 & H3 & H5 & H6). cbn [gpost].
        split; [exact H0|]. split; [exact H1|]. split; [exact H2|].
        split; [apply span_up; [lia|exact H3]|]. split.
        -- unfold unmapped.
           rewrite (W_entry addr2 addr (S (S l'')) tas tbase ltac:(lia) H3 pte Erd ta tb Edec).
           replace (S (S l'') - 1)%nat with (S l'') by lia. exact H5.
        -- intros a Ha1 Ha2.
           assert (Hsp : a / 2^(lo fs (S (S l''))) = addr / 2^(lo fs (S (S l'')))).
           { apply (div_sandwich _ addr a addr2); lia. }
           unfold mapped.
           rewrite (W_entry a addr (S (S l'')) tas tbase ltac:(lia) Hsp pte Erd ta tb Edec).
           replace (S (S l'') - 1)%nat with (S l'') by lia. apply H6; assumption.
      * destruct Hrec as (Hw & H0 & H1 & H2). apply Hafter; [exact Hw|exact H0|exact H1|].
        intros a Ha1 Ha2 Ha3. unfold mapped.
        rewrite (W_entry a addr (S (S l'')) tas tbase ltac:(lia) Ha3 pte Erd ta tb Edec).
        replace (S (S l'') - 1)%nat with (S l'') by lia. apply H2; assumption.
  - (* leaf (huge page): every address of the entry is mapped *)
    destruct Hstep as (s1 & Hn & Hr1 & Hes1 & Hlen1 & Hfin). rewrite Hn, Hr1. cbn [Nat.ltb Nat.leb].
    apply Hafter; [rewrite <- W_pow; apply wadd_lt|apply Hskip|right; apply Hskip|].
    intros a H1 H2 H3. apply (W_entry_leaf a addr (S l') tas tbase ltac:(lia) H3 pte Erd b sz Edec).
  - contradiction.
  - destruct Hstep as (s1 & Hn). rewrite Hn.
    apply Hhere. apply (W_entry_np addr addr (S l')); [lia|reflexivity|right; exists pte; auto].
  - destruct Hstep as (s1 & Hn). rewrite Hn. exact I.
Qed.

Lemma pf_table_size_spec l : (l < length fs)%nat ->
  pf_table_size pf l = Some (2^(nth l fs 0)).
Proof.
  intro Hl. unfold pf_table_size, nthN.
  assert (H64 : nth l fs 0 < 64) by (apply all_lt64_nth; assumption).
  destruct (N.ltb_spec (nth l fs 0) 64); [|lia]. f_equal.
  rewrite wshl_small; rewrite N.mul_1_l; [reflexivity|now apply pow2_lt_mono].
Qed.

Theorem lowest_mapped_tbl_spec : forall lf l s addr tas tbase,
  (1 <= l)%nat -> (l < length fs)%nat ->
  at_level addr l s -> s_as s = tas -> s_base s = tbase -> addr < 2^64 ->
  tbl_post l addr tas tbase (lowest_mapped_tbl readmem m pf lf limit s addr).
Proof.
  induction lf as [|lf IH]; intros l s addr tas tbase Hl1 Hl Hat Has Hbs Ha; [exact I|].
  cbn [lowest_mapped_tbl]. pose proof Hat as (Hr & _ & _). rewrite Hr.
  rewrite pf_table_size_spec by exact Hl.
  rewrite pf_table_mask_spec by (try assumption; try lia; now apply lo_lt_64).
  apply lm_loop_spec; try assumption.
  intros s1 a ta tb Hl2 Hat1 Has1 Hbs1 Ha1. apply IH; try assumption; lia.
Qed.

Theorem lowest_unmapped_tbl_spec : forall lf l s addr tas tbase,
  (1 <= l)%nat -> (l < length fs)%nat ->
  at_level addr l s -> s_as s = tas -> s_base s = tbase -> addr < 2^64 ->
  tbl_post_u l addr tas tbase (lowest_unmapped_tbl readmem m pf lf limit s addr).
Proof.
  induction lf as [|lf IH]; intros l s addr tas tbase Hl1 Hl Hat Has Hbs Ha; [exact I|].
  cbn [lowest_unmapped_tbl]. pose proof Hat as (Hr & _ & _). rewrite Hr.
  rewrite pf_table_size_spec by exact Hl.
  rewrite pf_table_mask_spec by (try assumption; try lia; now apply lo_lt_64).
  apply lu_loop_spec; try assumption.
  intros s1 a ta tb Hl2 Hat1 Has1 Hbs1 Ha1. apply IH; try assumption; lia.
Qed.

(** [addrxlat_launch] on a page-table method *)
Lemma launch_shape a s :
  pte_size (pte_format pf) = Some (af_ptesz af) ->
  addrxlat_launch m (init_step a) a = (OK, s) ->
  at_level a (length fs - 1) s /\ s_as s = ras /\ s_base s = root.
Proof.
  intros Hps. unfold addrxlat_launch, first_step, init_step. cbn [m_kind].
  assert (Hgen : forall st s', first_step_pgt_generic ras root pf (mkstep NOADDR a 0 0 [] 0) a = (st, s') ->
                 st = OK -> s' = mkstep ras root (length fs) (af_ptesz af) (split_fields fs a) 0).
  { unfold first_step_pgt_generic. intros st s' Hfs Hst.
    destruct (Nat.ltb_spec 8 (length fs)) as [H8|H8]; [lia|].
    destruct (Nat.ltb_spec 1 (length fs)) as [H1|H1]; [|lia].
    rewrite Hps, Hlt in Hfs. cbn [negb] in Hfs.
    destruct ras; injection Hfs as <- <-; try reflexivity; discriminate. }
  assert (Hshape : forall s', s' = mkstep ras root (length fs) (af_ptesz af) (split_fields fs a) 0 ->
                   at_level a (length fs - 1) s' /\ s_as s' = ras /\ s_base s' = root).
  { intros s' ->. repeat split; cbn [s_remain s_idx s_elemsz s_as s_base]; try lia.
    destruct (Nat.eqb_spec (length fs - 1) 0); [lia|reflexivity]. }
  assert (Hu : forall x y, step_check_uaddr pf x = (OK, y) -> y = x).
  { intros x y. unfold step_check_uaddr. destruct (_ =? 0); intro H; [now injection H as <-|discriminate]. }
  assert (Hs : forall x y, step_check_saddr pf x = (OK, y) -> y = x).
  { intros x y. unfold step_check_saddr. destruct (length fs); [discriminate|].
    destruct (_ =? 0); [discriminate|]. destruct (64 <=? _); [discriminate|].
    destruct (_ =? _); intro H; [now injection H as <-|discriminate]. }
  unfold first_step_pgt.
  destruct (pf_max_fields (pte_format pf) <? length fs)%nat; [discriminate|].
  destruct (first_step_pgt_generic ras root pf _ a) as [st0 s0] eqn:Eg.
  assert (Hok : st0 = OK -> at_level a (length fs - 1) s0 /\ s_as s0 = ras /\ s_base s0 = root).
  { intro Hst. apply Hshape. now apply (Hgen st0 s0). }
  destruct (pte_format pf); intro H;
    try (injection H as -> <-; now apply Hok);
    try discriminate;
    (destruct st0; try discriminate;
     first [apply Hu in H | apply Hs in H]; subst s; now apply Hok).
Qed.

Lemma generic_not_np a s0 st s' :
  first_step_pgt_generic ras root pf s0 a = (st, s') -> st <> NOTPRESENT.
Proof.
  unfold first_step_pgt_generic.
  repeat match goal with
         | |- context [match ?x with _ => _ end] => destruct x
         end; intro H; injection H as <- _; discriminate.
Qed.

Lemma launch_not_np a st s : addrxlat_launch m (init_step a) a = (st, s) -> st <> NOTPRESENT.
Proof.
  unfold addrxlat_launch, first_step. cbn [m_kind]. unfold first_step_pgt.
  destruct (pf_max_fields (pte_format pf) <? length fs)%nat; [intro H; injection H as <- _; discriminate|].
  destruct (first_step_pgt_generic ras root pf (init_step a) a) as [st0 s0] eqn:Eg.
  pose proof (generic_not_np _ _ _ _ Eg) as Hg.
  assert (Hu : forall x st1 y, step_check_uaddr pf x = (st1, y) -> st1 <> NOTPRESENT).
  { intros x st1 y. unfold step_check_uaddr. destruct (_ =? 0); intro H; injection H as <- _; discriminate. }
  assert (Hs : forall x st1 y, step_check_saddr pf x = (st1, y) -> st1 <> NOTPRESENT).
  { intros x st1 y. unfold step_check_saddr.
    repeat match goal with
           | |- context [match ?x with _ => _ end] => destruct x
           end; intro H; injection H as <- _; discriminate. }
  destruct (pte_format pf); intro H;
    try (injection H as <- _; first [exact Hg | discriminate]);
    (destruct st0; first [now apply Hu in H | now apply Hs in H
                         | exfalso; apply Hg; reflexivity
                         | injection H as <- _; discriminate]).
Qed.

(** ** The specifications of [lowest_mapped] and [lowest_unmapped]

    The scan starts at the first address of the page of [addr0] and covers the
    addresses up to [limit] that the root table spans (those that agree with
    [addr0] above the translated bits). *)
Definition page_down (a : N) : N := a / 2^(nth 0 fs 0) * 2^(nth 0 fs 0).
Notation top := (length fs - 1)%nat.

Definition scan_post (P : N -> Prop) (Q : step -> N -> Prop) (addr0 : N) (res : scanres) : Prop :=
  match res with
  | (OK, s', r) =>
      page_down addr0 <= r /\ r <= limit /\ r < 2^64 /\ r / 2^(total fs) = addr0 / 2^(total fs) /\
      Q s' r /\ (forall a, page_down addr0 <= a -> a < r -> P a)
  | (NOTPRESENT, _, a2) =>
      (* where the scan stopped: beyond the limit, or at the end of what the root table spans *)
      a2 < 2^64 /\ (limit < a2 \/ a2 = next_at (length fs) (page_down addr0)) /\
      (forall a, page_down addr0 <= a -> a <= limit -> a / 2^(total fs) = addr0 / 2^(total fs) -> P a)
  | _ => True
  end.

Lemma page_down_span addr0 : page_down addr0 / 2^(total fs) = addr0 / 2^(total fs).
Proof.
  unfold page_down.
  assert (Hle : nth 0 fs 0 <= total fs) by (rewrite <- lo_1; apply lo_le_total).
  replace (total fs) with (nth 0 fs 0 + (total fs - nth 0 fs 0)) by lia.
  rewrite !N.pow_add_r, <- !N.div_div by apply pow2_nz.
  now rewrite N.div_mul by apply pow2_nz.
Qed.

Lemma gpost_top P Q a0 addr0 res : a0 = page_down addr0 ->
  gpost P Q top a0 res -> scan_post P Q addr0 res.
Proof.
  intros -> H. destruct res as [[st s'] r]. destruct st; try exact I; cbn [gpost scan_post] in *;
    replace (S top) with (length fs) in H by lia; rewrite lo_length, page_down_span in H.
  - exact H.
  - destruct H as (Hw & _ & H). exact (conj Hw H).
Qed.

(** [lowest_mapped]: the least mapped address: the answer is in the range, the
    architectural walk of the table tree maps it (and the returned step holds
    its translation), and the walk finds every address before it not present;
    "not present" means that no address of the range is mapped *)
Theorem lowest_mapped_spec lf addr0 :
  pte_size (pte_format pf) = Some (af_ptesz af) ->
  addr0 < 2^64 ->
  scan_post (unmapped top ras root)
            (fun s' r => s_as s' = tgt /\ W r top ras root = (OK, Some (tgt, s_base s')))
            addr0 (lowest_mapped readmem m pf lf addr0 limit).
Proof.
  intros Hps Ha0. unfold lowest_mapped.
  assert (Hf0 : nth 0 fs 0 < 64) by (apply all_lt64_nth; [assumption|lia]).
  rewrite pf_page_mask_spec by exact Hf0.
  set (a := N.ldiff addr0 (N.ones (nth 0 fs 0))) in *.
  assert (Ha : a < 2^64) by (unfold a; now apply ldiff_lt).
  assert (Hpd : a = page_down addr0) by (unfold a, page_down; now rewrite ldiff_ones_div).
  destruct (addrxlat_launch m (init_step a) a) as [st s] eqn:El.
  pose proof (launch_not_np a st s El) as Hnp.
  destruct st; try exact I; try contradiction.
  destruct (launch_shape a s Hps El) as (Hat & Has & Hbs).
  apply (gpost_top _ _ a); [exact Hpd|].
  exact (lowest_mapped_tbl_spec lf top s a ras root ltac:(lia) ltac:(lia) Hat Has Hbs Ha).
Qed.

(** [lowest_unmapped]: the least address that is not mapped; "not present"
    means that every address of the range is mapped *)
Theorem lowest_unmapped_spec lf addr0 :
  pte_size (pte_format pf) = Some (af_ptesz af) ->
  addr0 < 2^64 ->
  scan_post (mapped top ras root) (fun _ r => unmapped top ras root r)
            addr0 (lowest_unmapped readmem m pf lf addr0 limit).
Proof.
  intros Hps Ha0. unfold lowest_unmapped.
  assert (Hf0 : nth 0 fs 0 < 64) by (apply all_lt64_nth; [assumption|lia]).
  rewrite pf_page_mask_spec by exact Hf0.
  set (a := N.ldiff addr0 (N.ones (nth 0 fs 0))) in *.
  assert (Ha : a < 2^64) by (unfold a; now apply ldiff_lt).
  assert (Hpd : a = page_down addr0) by (unfold a, page_down; now rewrite ldiff_ones_div).
  destruct (addrxlat_launch m (init_step a) a) as [st s] eqn:El.
  pose proof (launch_not_np a st s El) as Hnp.
  destruct st; try exact I; try contradiction.
  destruct (launch_shape a s Hps El) as (Hat & Has & Hbs).
  apply (gpost_top _ _ a); [exact Hpd|].
  exact (lowest_unmapped_tbl_spec lf top s a ras root ltac:(lia) ltac:(lia) Hat Has Hbs Ha).
Qed.

(** the earlier, weaker form *)
Theorem lowest_mapped_sound lf addr0 s' r :
  pte_size (pte_format pf) = Some (af_ptesz af) ->
  addr0 < 2^64 ->
  lowest_mapped readmem m pf lf addr0 limit = (OK, s', r) ->
  addr0 / 2^(nth 0 fs 0) * 2^(nth 0 fs 0) <= r /\ r <= limit /\ r < 2^64 /\ r / 2^(total fs) = addr0 / 2^(total fs) /\
  W r (length fs - 1)%nat ras root = (OK, Some (tgt, s_base s')) /\ s_as s' = tgt.
Proof.
  intros Hps Ha0 Hlm. pose proof (lowest_mapped_spec lf addr0 Hps Ha0) as H. rewrite Hlm in H.
  cbn [scan_post] in H. destruct H as (H0 & H1 & H2 & H3 & (H4 & H5) & _). auto 7.
Qed.

(** ** [highest_mapped]: the same, downwards *)

(** first address of the span of the level-[l] entry that contains [a], and
    the address before it as the C code computes it *)
Definition es (l : nat) (a : N) : N := a / 2^(lo fs l) * 2^(lo fs l).
Definition prev_at (l : nat) (a : N) : N := wsub (es l a) 1.

Definition gpost_d (P : N -> Prop) (Q : step -> N -> Prop) (l : nat) (a0 : N) (res : scanres) : Prop :=
  match res with
  | (OK, s', r) =>
      limit <= r /\ r <= a0 /\ r / 2^(lo fs (S l)) = a0 / 2^(lo fs (S l)) /\
      Q s' r /\ (forall a, r < a -> a <= a0 -> P a)
  | (NOTPRESENT, _, a2) =>
      a2 < 2^64 /\ (a2 < limit \/ a2 = prev_at (S l) a0) /\ es (S l) a0 <= a2 + 1 /\
      (forall a, limit <= a -> a <= a0 -> a / 2^(lo fs (S l)) = a0 / 2^(lo fs (S l)) -> P a)
  | _ => True
  end.

Definition tbl_post_d (l : nat) (a0 : N) (tas : aspace) (tbase : N) : scanres -> Prop :=
  gpost_d (unmapped l tas tbase)
          (fun s' r => s_as s' = tgt /\ W r l tas tbase = (OK, Some (tgt, s_base s'))) l a0.

Lemma es_le l a : es l a <= a.
Proof. unfold es. rewrite N.mul_comm. apply N.mul_div_le, pow2_nz. Qed.

Lemma in_entry_above_start l a x : es l a <= x -> x <= a -> x / 2^(lo fs l) = a / 2^(lo fs l).
Proof.
  intros H1 H2. apply N.le_antisymm.
  - apply N.div_le_mono; [apply pow2_nz|exact H2].
  - apply (N.div_le_mono _ _ (2^(lo fs l)) (pow2_nz _)) in H1. unfold es in H1.
    rewrite N.div_mul in H1 by apply pow2_nz. exact H1.
Qed.

Lemma es_up l a : (l < length fs)%nat -> es (S l) a <= es l a.
Proof.
  intro Hl. unfold es. rewrite lo_S by exact Hl. rewrite N.pow_add_r, <- N.div_div by apply pow2_nz.
  set (q := a / 2^(lo fs l)).
  pose proof (N.mul_div_le q (2^(nth l fs 0)) (pow2_nz _)).
  set (d := q / 2^(nth l fs 0)) in *. set (B := 2^(nth l fs 0)) in *. set (L := 2^(lo fs l)) in *. nia.
Qed.

Lemma after_down (P : N -> Prop) (Q : step -> N -> Prop) l (cont : step -> N -> scanres) mystep addr :
  (1 <= l)%nat -> (l < length fs)%nat ->
  at_level addr l mystep -> addr < 2^64 -> limit <= addr ->
  (forall mystep' a2, at_level a2 l mystep' -> s_as mystep' = s_as mystep -> s_base mystep' = s_base mystep ->
     a2 < 2^64 -> gpost_d P Q l a2 (cont mystep' a2)) ->
  (forall st a2, a2 < limit ->
     match cont st a2 with (NOTPRESENT, _, a2') => a2' = a2 | (OK, _, _) => False | _ => True end) ->
  forall s2 a2, a2 < 2^64 -> es l addr <= a2 + 1 -> (a2 < limit \/ a2 = prev_at l addr) ->
    (forall a, limit <= a -> a <= addr -> a / 2^(lo fs l) = addr / 2^(lo fs l) -> P a) ->
    gpost_d P Q l addr
      (let i := (s_remain mystep - 1)%nat in
       match ones_below fs (s_idx mystep) i with
       | None => (BADSHIFT, s2, a2)
       | Some idx =>
         let v := nthN idx i in
         let mystep' := set_idx mystep (set_nth idx i (wsub v 1)) in
         if v =? 0 then (NOTPRESENT, s2, a2) else cont mystep' a2
       end).
Proof.
  intros Hl1 Hl Hat Ha Hle IH Hguard.
  pose proof Hat as (Hr & Hidx & Hes).
  assert (Hf64 : nth l fs 0 < 64) by (apply all_lt64_nth; assumption).
  assert (HS : lo fs (S l) = lo fs l + nth l fs 0) by now apply lo_S.
  intros s2 a2 Hw2 Hb2 Ha2 HE. rewrite Hr. replace (S l - 1)%nat with l by lia. cbv zeta.
  rewrite Hidx.
  destruct (ones_below_spec l fs (split_fields fs addr) Hlt ltac:(lia)) as (idx' & Eob & Hlen' & Hnth').
  rewrite split_fields_length in Hlen', Hnth'.
  rewrite Eob.
  assert (Hv : nthN idx' l = field fs l addr).
  { rewrite Hnth', Nat.ltb_irrefl. cbn [andb]. apply split_fields_nth; exact Hl. }
  rewrite Hv.
  destruct (N.eqb_spec (field fs l addr) 0) as [Hz|Hnz].
  - (* first entry of the table *)
    assert (Hes_eq : es l addr = es (S l) addr).
    { unfold es. rewrite HS, N.pow_add_r. unfold field, bits in Hz.
      pose proof (N.div_mod (addr / 2^(lo fs l)) (2^(nth l fs 0)) (pow2_nz _)) as D.
      rewrite Hz, N.add_0_r in D. rewrite <- N.div_div by apply pow2_nz.
      set (q := addr / 2^(lo fs l)) in *. set (d := q / 2^(nth l fs 0)) in *.
      set (B := 2^(nth l fs 0)) in *. set (L := 2^(lo fs l)) in *. rewrite D. nia. }
    cbn [gpost_d]. split; [exact Hw2|]. split.
    { destruct Ha2 as [Hlim | ->]; [left; exact Hlim|right]. unfold prev_at. now rewrite Hes_eq. }
    split; [rewrite <- Hes_eq; exact Hb2|].
    intros a H1 H2 H3. apply HE; try assumption.
    apply in_entry_above_start; [|exact H2].
    rewrite Hes_eq. replace (es (S l) addr) with (es (S l) a) by (unfold es; now rewrite H3). apply es_le.
  - (* there is a previous entry *)
    assert (Hf1 : 1 <= field fs l addr) by lia.
    pose proof (field_ge1_div _ _ _ Hf1) as Hq1.
    assert (Hes1 : 1 <= es l addr) by (unfold es; pose proof (pow2_pos (lo fs l)); nia).
    pose proof (es_le l addr) as Hesle.
    assert (Hv1 : wsub (field fs l addr) 1 = field fs l addr - 1).
    { apply wsub_le; [exact Hf1|]. rewrite W_pow. pose proof (field_lt fs l addr).
      pose proof (pow2_lt_mono (nth l fs 0) 64 Hf64). lia. }
    rewrite Hv1.
    pose proof (es_up l addr Hl) as Hup.
    destruct Ha2 as [Hlim | ->].
    + match goal with |- gpost_d _ _ _ _ (cont ?st a2) => specialize (Hguard st a2 Hlim);
        destruct (cont st a2) as [[st' s'] r] end.
      destruct st'; try exact I; try contradiction. subst r. cbn [gpost_d]. split; [exact Hw2|].
      split; [left; exact Hlim|]. split; [lia|].
      intros a H1 H2 H3. apply HE; try assumption. apply in_entry_above_start; lia.
    + assert (Hprev : prev_at l addr = es l addr - 1).
      { unfold prev_at. apply wsub_le; [exact Hes1|]. rewrite W_pow. lia. }
      rewrite Hprev. set (a2 := es l addr - 1) in *.
      assert (Hat2 : at_level a2 l (set_idx mystep (set_nth idx' l (field fs l addr - 1)))).
      { split; [exact Hr|]. split; [|exact Hes]. cbn [set_idx s_idx].
        symmetry. unfold a2, es. apply split_prev_entry; assumption. }
      specialize (IH _ a2 Hat2 eq_refl eq_refl ltac:(lia)).
      assert (Hsame : a2 / 2^(lo fs (S l)) = addr / 2^(lo fs (S l))).
      { rewrite HS. unfold a2, es. apply div_prev_above; [exact Hf1|lia]. }
      assert (Hes_s : es (S l) a2 = es (S l) addr) by (unfold es; now rewrite Hsame).
      destruct (cont _ a2) as [[st s'] r].
      destruct st; try exact I.
      * destruct IH as (H0 & H1 & H3 & H4 & H6).
        split; [exact H0|]. split; [lia|]. split; [now rewrite H3|]. split; [exact H4|].
        intros a Ha1 Ha2'. destruct (N.le_gt_cases a a2) as [Hb|Hb].
        -- apply H6; assumption.
        -- apply HE; try lia. apply in_entry_above_start; lia.
      * destruct IH as (Hw & H0 & H1 & H2). split; [exact Hw|].
        split; [destruct H0 as [H0|H0]; [left; exact H0|right]; rewrite H0; unfold prev_at; now rewrite Hes_s|].
        split; [now rewrite <- Hes_s|].
        intros a Ha1 Ha2' Ha3. destruct (N.le_gt_cases a a2) as [Hb|Hb].
        -- apply H2; try assumption. now rewrite Hsame.
        -- apply HE; try assumption. apply in_entry_above_start; lia.
Qed.

Lemma skip_entry_down l addr : addr < 2^64 ->
  wsub (N.ldiff addr (N.ones (lo fs l))) 1 < 2^64 /\
  es l addr <= wsub (N.ldiff addr (N.ones (lo fs l))) 1 + 1 /\
  wsub (N.ldiff addr (N.ones (lo fs l))) 1 = prev_at l addr.
Proof.
  intro Ha. rewrite ldiff_ones_div. fold (es l addr).
  split; [rewrite <- W_pow; apply wsub_lt|]. split; [|reflexivity].
  destruct (N.eq_dec (es l addr) 0) as [-> | Hne]; [lia|].
  pose proof (es_le l addr). rewrite wsub_le; [lia|lia|rewrite W_pow; lia].
Qed.

Lemma hm_loop_spec (rec : step -> N -> scanres) l tas tbase :
  (1 <= l)%nat -> (l < length fs)%nat ->
  (forall s1 a ta tb, (2 <= l)%nat -> at_level a (l - 1) s1 -> s_as s1 = ta -> s_base s1 = tb -> a < 2^64 ->
     tbl_post_d (l - 1) a ta tb (rec s1 a)) ->
  forall k mystep addr,
  at_level addr l mystep -> s_as mystep = tas -> s_base mystep = tbase -> addr < 2^64 ->
  tbl_post_d l addr tas tbase
    (hm_loop readmem m pf rec k limit (N.ones (lo fs l)) mystep mystep addr).
Proof.
  intros Hl1 Hl Hrec. induction k as [|k IH]; intros mystep addr Hat Has Hbs Ha; [exact I|].
  cbn [hm_loop]. unfold tbl_post_d.
  destruct (N.leb_spec limit addr) as [Hle|Hgt]; cbn [negb].
  2:{ cbn [gpost_d]. split; [exact Ha|]. split; [left; exact Hgt|].
      split; [pose proof (es_le (S l) addr); lia|]. intros a H1 H2. lia. }
  pose proof Hat as (Hr & Hidx & Hes).
  pose proof (after_down (unmapped l tas tbase)
                (fun s' r => s_as s' = tgt /\ W r l tas tbase = (OK, Some (tgt, s_base s')))
                l (fun ms a => hm_loop readmem m pf rec k limit (N.ones (lo fs l)) ms ms a)
                mystep addr Hl1 Hl Hat Ha Hle) as Hafter.
  cbv beta in Hafter.
  assert (Hafter' := Hafter
            (fun ms a2 H1 H2 H3 H4 => IH ms a2 H1 (eq_trans H2 Has) (eq_trans H3 Hbs) H4)).
  clear Hafter. rename Hafter' into Hafter.
  assert (Hg : forall st a2, a2 < limit ->
            match hm_loop readmem m pf rec k limit (N.ones (lo fs l)) st st a2 with
            | (NOTPRESENT, _, a2') => a2' = a2 | (OK, _, _) => False | _ => True end).
  { intros st a2 Hlim. destruct k; [exact I|]. cbn [hm_loop].
    destruct (N.leb_spec limit a2); [lia|]. reflexivity. }
  specialize (Hafter Hg). clear Hg.
  pose proof (step_at_level addr l mystep Hl Hat) as Hstep.
  destruct l as [|l']; [lia|]. rewrite Has, Hbs in Hstep.
  destruct (skip_entry_down (S l') addr Ha) as (Hsk1 & Hsk2 & Hsk3).
  destruct (rd_entry readmem af mask tas (w (tbase + field fs (S l') addr * af_ptesz af))) as [pte|e] eqn:Erd.
  2:{ destruct Hstep as (s' & Hn & He). rewrite Hn. destruct e; try exact I; try contradiction.
      apply Hafter; [exact Hsk1|exact Hsk2|right; exact Hsk3|].
      intros a H1 H2 H3. apply (W_entry_np a addr (S l')); [lia|exact H3|left; exact Erd]. }
  destruct (af_decode af tgt fs (S l') pte addr) as [ta tb|b sz|ta tb sh| |] eqn:Edec.
  - (* table *)
    destruct Hstep as (s1 & Hn & Hat1 & Has1 & Hbs1). rewrite Hn.
    pose proof Hat1 as (Hr1 & Hidx1 & Hes1). rewrite Hr1.
    destruct l' as [|l''].
    + cbn [Nat.leb].
      pose proof (step_at_level addr 0 s1 ltac:(lia) Hat1) as Hfin. cbn beta iota in Hfin.
      rewrite Hfin. cbn [gpost_d set_elemsz set_as s_as s_base].
      repeat split; auto; try lia.
      cbn [arch_levels]. rewrite Erd, Edec. cbn [arch_levels]. now rewrite Hbs1.
    + replace (S (S l'') <=? 1)%nat with false by reflexivity.
      specialize (Hrec s1 addr ta tb ltac:(lia)).
      replace (S (S l'') - 1)%nat with (S l'') in Hrec by lia.
      specialize (Hrec Hat1 Has1 Hbs1 Ha). unfold tbl_post_d in Hrec.
      destruct (rec s1 addr) as [[st2 s2] addr2].
      destruct st2; try exact I.
      * destruct Hrec as (H0 & H1 & H3 & (H4 & H5) & H6). cbn [gpost_d].
        split; [exact H0|]. split; [exact H1|].
        split; [apply span_up; [lia|exact H3]|]. split; [split; [exact H4|]|].
        -- rewrite (W_entry addr2 addr (S (S l'')) tas tbase ltac:(lia) H3 pte Erd ta tb Edec).
           replace (S (S l'') - 1)%nat with (S l'') by lia. exact H5.
        -- intros a Ha1 Ha2.
           assert (Hsp : a / 2^(lo fs (S (S l''))) = addr / 2^(lo fs (S (S l'')))).
           { rewrite <- H3. apply (div_sandwich _ addr2 a addr); lia. }
           unfold unmapped.
           rewrite (W_entry a addr (S (S l'')) tas tbase ltac:(lia) Hsp pte Erd ta tb Edec).
           replace (S (S l'') - 1)%nat with (S l'') by lia. apply H6; assumption.
      * destruct Hrec as (Hw & H0 & H1 & H2). apply Hafter; [exact Hw|exact H1|exact H0|].
        intros a Ha1 Ha2 Ha3. unfold unmapped.
        rewrite (W_entry a addr (S (S l'')) tas tbase ltac:(lia) Ha3 pte Erd ta tb Edec).
        replace (S (S l'') - 1)%nat with (S l'') by lia. apply H2; assumption.
  - (* leaf (huge page) *)
    destruct Hstep as (s1 & Hn & Hr1 & Hes1 & Hlen1 & Hfin). rewrite Hn, Hr1. cbn [Nat.leb].
    destruct (final_step s1 Hr1 Hlen1) as (s2 & Hn2 & Has2 & Hbs2). rewrite Hn2.
    cbn [gpost_d]. repeat split; auto; try lia.
    cbn [arch_levels]. rewrite Erd, Edec. rewrite Hbs2, Hes1, N.mul_1_r, Hfin. reflexivity.
  - contradiction.
  - destruct Hstep as (s1 & Hn). rewrite Hn.
    apply Hafter; [exact Hsk1|exact Hsk2|right; exact Hsk3|].
    intros a H1 H2 H3. apply (W_entry_np a addr (S l')); [lia|exact H3|right; exists pte; auto].
  - destruct Hstep as (s1 & Hn). rewrite Hn. exact I.
Qed.

Theorem highest_mapped_tbl_spec : forall lf l s addr tas tbase,
  (1 <= l)%nat -> (l < length fs)%nat ->
  at_level addr l s -> s_as s = tas -> s_base s = tbase -> addr < 2^64 ->
  tbl_post_d l addr tas tbase (highest_mapped_tbl readmem m pf lf limit s addr).
Proof.
  induction lf as [|lf IH]; intros l s addr tas tbase Hl1 Hl Hat Has Hbs Ha; [exact I|].
  cbn [highest_mapped_tbl]. pose proof Hat as (Hr & _ & _). rewrite Hr.
  rewrite pf_table_mask_spec by (try assumption; try lia; now apply lo_lt_64).
  apply hm_loop_spec; try assumption.
  intros s1 a ta tb Hl2 Hat1 Has1 Hbs1 Ha1. apply IH; try assumption; lia.
Qed.

(** [highest_mapped] starts at the last address of the page of [addr0] and
    scans down to [limit] *)
Definition page_up (a : N) : N := page_down a + (2^(nth 0 fs 0) - 1).

Lemma page_up_div a : page_up a / 2^(nth 0 fs 0) = a / 2^(nth 0 fs 0).
Proof.
  unfold page_up, page_down. pose proof (pow2_pos (nth 0 fs 0)).
  symmetry. apply N.div_unique with (r := 2^(nth 0 fs 0) - 1); lia.
Qed.

Lemma page_up_span a : page_up a / 2^(total fs) = a / 2^(total fs).
Proof.
  assert (Hle : nth 0 fs 0 <= total fs) by (rewrite <- lo_1; apply lo_le_total).
  replace (total fs) with (nth 0 fs 0 + (total fs - nth 0 fs 0)) by lia.
  rewrite !N.pow_add_r, <- !N.div_div by apply pow2_nz. now rewrite page_up_div.
Qed.

Lemma page_up_lt a : nth 0 fs 0 < 64 -> a < 2^64 -> page_up a < 2^64.
Proof.
  intros Hp Ha. unfold page_up, page_down.
  assert (Hq : a / 2^(nth 0 fs 0) < 2^(64 - nth 0 fs 0)).
  { apply N.div_lt_upper_bound; [apply pow2_nz|]. rewrite <- N.pow_add_r.
    replace (nth 0 fs 0 + (64 - nth 0 fs 0)) with 64 by lia. exact Ha. }
  replace (2^64) with (2^(64 - nth 0 fs 0) * 2^(nth 0 fs 0)) by (rewrite <- N.pow_add_r; f_equal; lia).
  pose proof (pow2_pos (nth 0 fs 0)).
  set (q := a / 2^(nth 0 fs 0)) in *. set (P := 2^(nth 0 fs 0)) in *. set (M := 2^(64 - nth 0 fs 0)) in *. nia.
Qed.

Definition scan_post_d (P : N -> Prop) (Q : step -> N -> Prop) (addr0 : N) (res : scanres) : Prop :=
  match res with
  | (OK, s', r) =>
      limit <= r /\ r <= page_up addr0 /\ r / 2^(total fs) = addr0 / 2^(total fs) /\
      Q s' r /\ (forall a, r < a -> a <= page_up addr0 -> P a)
  | (NOTPRESENT, _, a2) =>
      a2 < 2^64 /\ (a2 < limit \/ a2 = prev_at (length fs) (page_up addr0)) /\
      (forall a, limit <= a -> a <= page_up addr0 -> a / 2^(total fs) = addr0 / 2^(total fs) -> P a)
  | _ => True
  end.

(** [highest_mapped]: the greatest mapped address of the range *)
Theorem highest_mapped_spec lf addr0 :
  pte_size (pte_format pf) = Some (af_ptesz af) ->
  addr0 < 2^64 ->
  scan_post_d (unmapped top ras root)
              (fun s' r => s_as s' = tgt /\ W r top ras root = (OK, Some (tgt, s_base s')))
              addr0 (highest_mapped readmem m pf lf addr0 limit).
Proof.
  intros Hps Ha0. unfold highest_mapped.
  assert (Hf0 : nth 0 fs 0 < 64) by (apply all_lt64_nth; [assumption|lia]).
  rewrite pf_page_mask_spec by exact Hf0.
  set (a := N.lor addr0 (N.ones (nth 0 fs 0))) in *.
  assert (Hpu : a = page_up addr0).
  { unfold a, page_up, page_down. rewrite lor_ones_div, N.ones_equiv.
    pose proof (pow2_pos (nth 0 fs 0)). lia. }
  assert (Ha : a < 2^64) by (rewrite Hpu; now apply page_up_lt).
  clearbody a. subst a. set (a := page_up addr0) in *.
  destruct (addrxlat_launch m (init_step a) a) as [st s] eqn:El.
  pose proof (launch_not_np a st s El) as Hnp.
  destruct st; try exact I; try contradiction.
  destruct (launch_shape a s Hps El) as (Hat & Has & Hbs).
  pose proof (highest_mapped_tbl_spec lf top s a ras root ltac:(lia) ltac:(lia) Hat Has Hbs Ha) as H.
  unfold tbl_post_d in H.
  destruct (highest_mapped_tbl readmem m pf lf limit s a) as [[st' s'] r]. subst a.
  destruct st'; try exact I; cbn [gpost_d scan_post_d] in *;
    replace (S top) with (length fs) in H by lia.
  - rewrite lo_length, page_up_span in H. exact H.
  - destruct H as (Hw & Hd & _ & H). rewrite lo_length, page_up_span in H. auto.
Qed.

Theorem highest_mapped_greatest lf addr0 st s' r :
  pte_size (pte_format pf) = Some (af_ptesz af) -> addr0 < 2^64 ->
  highest_mapped readmem m pf lf addr0 limit = (st, s', r) ->
  let start := addr0 / 2^(nth 0 fs 0) * 2^(nth 0 fs 0) + (2^(nth 0 fs 0) - 1) in
  (st = OK ->
     limit <= r /\ r <= start /\ r / 2^(total fs) = addr0 / 2^(total fs) /\
     s_as s' = tgt /\ W r top ras root = (OK, Some (tgt, s_base s')) /\
     forall a, r < a -> a <= start -> W a top ras root = (NOTPRESENT, None)) /\
  (st = NOTPRESENT ->
     forall a, limit <= a -> a <= start -> a / 2^(total fs) = addr0 / 2^(total fs) ->
               W a top ras root = (NOTPRESENT, None)).
Proof.
  intros Hps Ha H. pose proof (highest_mapped_spec lf addr0 Hps Ha) as Hs. rewrite H in Hs.
  cbv zeta. split; intros ->; cbn [scan_post_d] in Hs.
  - destruct Hs as (H0 & H1 & H3 & (H4 & H5) & H6). repeat split; assumption.
  - exact (proj2 (proj2 Hs)).
Qed.

(** the two specifications spelled out *)
Theorem lowest_mapped_least lf addr0 st s' r :
  pte_size (pte_format pf) = Some (af_ptesz af) -> addr0 < 2^64 ->
  lowest_mapped readmem m pf lf addr0 limit = (st, s', r) ->
  let start := addr0 / 2^(nth 0 fs 0) * 2^(nth 0 fs 0) in
  (st = OK ->
     start <= r /\ r <= limit /\ r < 2^64 /\ r / 2^(total fs) = addr0 / 2^(total fs) /\
     s_as s' = tgt /\ W r top ras root = (OK, Some (tgt, s_base s')) /\
     forall a, start <= a -> a < r -> W a top ras root = (NOTPRESENT, None)) /\
  (st = NOTPRESENT ->
     forall a, start <= a -> a <= limit -> a / 2^(total fs) = addr0 / 2^(total fs) ->
               W a top ras root = (NOTPRESENT, None)).
Proof.
  intros Hps Ha H. pose proof (lowest_mapped_spec lf addr0 Hps Ha) as Hs. rewrite H in Hs.
  cbv zeta. split; intros ->; cbn [scan_post] in Hs.
  - destruct Hs as (H0 & H1 & H2 & H3 & (H4 & H5) & H6). repeat split; assumption.
  - exact (proj2 (proj2 Hs)).
Qed.

Theorem lowest_unmapped_least lf addr0 st s' r :
  pte_size (pte_format pf) = Some (af_ptesz af) -> addr0 < 2^64 ->
  lowest_unmapped readmem m pf lf addr0 limit = (st, s', r) ->
  let start := addr0 / 2^(nth 0 fs 0) * 2^(nth 0 fs 0) in
  (st = OK ->
     start <= r /\ r <= limit /\ r < 2^64 /\ r / 2^(total fs) = addr0 / 2^(total fs) /\
     W r top ras root = (NOTPRESENT, None) /\
     forall a, start <= a -> a < r -> exists p, W a top ras root = (OK, Some (tgt, p))) /\
  (st = NOTPRESENT ->
     forall a, start <= a -> a <= limit -> a / 2^(total fs) = addr0 / 2^(total fs) ->
               exists p, W a top ras root = (OK, Some (tgt, p))).
Proof.
  intros Hps Ha H. pose proof (lowest_unmapped_spec lf addr0 Hps Ha) as Hs. rewrite H in Hs.
  cbv zeta. split; intros ->; cbn [scan_post] in Hs.
  - destruct Hs as (H0 & H1 & H2 & H3 & H4 & H6). repeat split; assumption.
  - exact (proj2 (proj2 Hs)).
Qed.

(** ** [highest_linear]

    In terms of the architectural walk, the loop does this: from [from] on it
    looks for the next mapped run [n, u) (the least mapped address [n], then the
    least unmapped address [u] after it); when the first address of the run is
    mapped with the offset [off], the answer becomes [u - 1] and the search goes
    on from [u]; else, or when nothing more is mapped up to the limit, the
    answer stands.  ("Assume that the whole range is linear": only the first
    address of every run is tested.) *)
Variable kv2kphys : N -> status * N.
Variable off : N.
Hypothesis Hps : pte_size (pte_format pf) = Some (af_ptesz af).

Notation Mp := (mapped top ras root).
Notation Up := (unmapped top ras root).

Definition least_mapped (from n : N) : Prop :=
  page_down from <= n /\ n <= limit /\ n < 2^64 /\ n / 2^(total fs) = from / 2^(total fs) /\
  Mp n /\ forall a, page_down from <= a -> a < n -> Up a.
Definition none_mapped (from : N) : Prop :=
  forall a, page_down from <= a -> a <= limit -> a / 2^(total fs) = from / 2^(total fs) -> Up a.
Definition run_end (n u : N) : Prop :=
  (page_down n <= u /\ u <= limit /\ u / 2^(total fs) = n / 2^(total fs) /\ Up u /\
   forall a, page_down n <= a -> a < u -> Mp a) \/
  ((limit < u \/ u = next_at (length fs) (page_down n)) /\
   forall a, page_down n <= a -> a <= limit -> a / 2^(total fs) = n / 2^(total fs) -> Mp a).

(** [lin_runs from ans ret e]: the loop entered with [nextaddr = from],
    [*addr = ans], [ret] may return [(OK, e)] *)
Inductive lin_runs : N -> N -> status -> N -> Prop :=
| LR_none from ans : none_mapped from -> lin_runs from ans OK ans
| LR_other from ans n p :
    least_mapped from n -> kv2kphys n = (OK, p) -> wsub p n <> off -> lin_runs from ans OK ans
| LR_run from ans ret n p u e :
    least_mapped from n -> kv2kphys n = (OK, p) -> wsub p n = off ->
    run_end n u -> u < 2^64 -> lin_runs u (wsub u 1) OK e -> lin_runs from ans ret e.

Lemma hl_loop_spec lf : forall fuel from ans ret e, from < 2^64 ->
  hl_loop readmem m pf kv2kphys fuel lf limit off from ans ret = (OK, e) ->
  lin_runs from ans ret e.
Proof.
  induction fuel as [|fuel IH]; intros from ans ret e Hfrom H; [discriminate|].
  cbn [hl_loop] in H.
  pose proof (lowest_mapped_spec lf from Hps Hfrom) as Hlm.
  destruct (lowest_mapped readmem m pf lf from limit) as [[st s'] n].
  destruct st; try discriminate.
  - cbn [scan_post] in Hlm. destruct Hlm as (H0 & H1 & H2 & H3 & (H4 & H5) & H6).
    assert (Hleast : least_mapped from n).
    { repeat split; auto. eexists; exact H5. }
    destruct (kv2kphys n) as [st2 p] eqn:Ekv. destruct st2; try discriminate.
    destruct (N.eqb_spec (wsub p n) off) as [Hoff|Hoff]; cbn [negb] in H.
    + pose proof (lowest_unmapped_spec lf n Hps H2) as Hlu.
      destruct (lowest_unmapped readmem m pf lf n limit) as [[st3 s3] u].
      destruct st3; try discriminate.
      * cbn [scan_post] in Hlu. destruct Hlu as (U0 & U1 & U2 & U3 & U4 & U5).
        apply (LR_run from ans ret n p u e Hleast Ekv Hoff); [left; auto|exact U2|].
        apply IH; assumption.
      * cbn [scan_post] in Hlu. destruct Hlu as (U0 & U1 & U2).
        apply (LR_run from ans ret n p u e Hleast Ekv Hoff); [right; auto|exact U0|].
        apply IH; assumption.
    + injection H as Hr He. subst ret e. exact (LR_other from ans n p Hleast Ekv Hoff).
  - injection H as Hr He. subst ret e. apply LR_none. cbn [scan_post] in Hlm. exact (proj2 (proj2 Hlm)).
Qed.

Theorem highest_linear_spec fuel lf addr e : addr < 2^64 ->
  highest_linear readmem m pf kv2kphys fuel lf addr limit off = (OK, e) ->
  lin_runs addr addr NOTPRESENT e.
Proof. intros Ha H. unfold highest_linear in H. now apply hl_loop_spec in H. Qed.

Lemma mapped_not_unmapped a : Mp a -> Up a -> False.
Proof. intros (p & H1) H2. unfold unmapped in H2. rewrite H1 in H2. discriminate. Qed.

(** so on a tree that maps exactly one run [base, top_] of the range (whole
    pages), an [OK] answer is the end of the run, and its first address is mapped
    with the offset asked for: the scan finds the whole region *)
Theorem highest_linear_single_run fuel lf base top_ e :
  page_down base = base -> page_down (top_ + 1) = top_ + 1 ->
  base <= top_ -> top_ < limit -> limit < 2^64 ->
  (top_ + 1) / 2^(total fs) = base / 2^(total fs) ->
  (forall a, base <= a -> a <= top_ -> Mp a) ->
  (forall a, top_ < a -> a <= limit -> Up a) ->
  highest_linear readmem m pf kv2kphys fuel lf base limit off = (OK, e) ->
  e = top_ /\ exists p, kv2kphys base = (OK, p) /\ wsub p base = off.
Proof.
  intros Hb Ht Hbt Htl Hl64 Hspan Hm Hu H.
  apply highest_linear_spec in H; [|lia].
  inversion H as [| |from ans ret n p u e' Hleast Ekv Hoff Hend Hu64 Hrest]; subst.
  destruct Hleast as (L0 & L1 & L2 & L3 & L4 & L5). rewrite Hb in L0, L5.
  assert (n = base).
  { destruct (N.eq_dec n base) as [|Hne]; [assumption|exfalso].
    apply (mapped_not_unmapped base); [apply Hm; lia|apply L5; lia]. }
  subst n. unfold run_end in Hend. rewrite Hb in Hend.
  assert (u = top_ + 1).
  { destruct Hend as [(E0 & E1 & E2 & E3 & E4)|(E0 & E1)].
    - destruct (N.le_gt_cases u top_) as [Hle|Hgt].
      { exfalso. apply (mapped_not_unmapped u); [apply Hm; lia|exact E3]. }
      destruct (N.le_gt_cases u (top_ + 1)) as [Hle1|Hgt1]; [lia|exfalso].
      apply (mapped_not_unmapped (top_ + 1)); [apply E4; lia|apply Hu; lia].
    - exfalso. apply (mapped_not_unmapped (top_ + 1)); [apply E1; try lia; exact Hspan|apply Hu; lia]. }
  subst u. split; [|exists p; auto].
  assert (Hans : wsub (top_ + 1) 1 = top_).
  { rewrite wsub_le; [lia|lia|rewrite W_pow; lia]. }
  rewrite Hans in Hrest.
  inversion Hrest as [| |from ans ret n q u e' Hleast' _ _ _ _ _]; subst; try reflexivity.
  exfalso. destruct Hleast' as (L0' & L1' & L2' & L3' & L4' & L5'). rewrite Ht in L0'.
  apply (mapped_not_unmapped n); [exact L4'|apply Hu; lia].
Qed.

(** the same when something else is mapped behind the run, as long as its
    first address does not have the offset asked for (the kernel image behind
    the riscv64 linear map) *)
Theorem highest_linear_first_run fuel lf base top_ e :
  page_down base = base -> page_down (top_ + 1) = top_ + 1 ->
  base <= top_ -> top_ < limit -> limit < 2^64 ->
  (top_ + 1) / 2^(total fs) = base / 2^(total fs) ->
  (forall a, base <= a -> a <= top_ -> Mp a) ->
  Up (top_ + 1) ->
  ((forall a, top_ < a -> a <= limit -> a / 2^(total fs) = base / 2^(total fs) -> Up a) \/
   (exists n2, top_ < n2 /\ Mp n2 /\ (forall a, top_ < a -> a < n2 -> Up a) /\
               forall p, kv2kphys n2 = (OK, p) -> wsub p n2 <> off)) ->
  highest_linear readmem m pf kv2kphys fuel lf base limit off = (OK, e) ->
  e = top_ /\ exists p, kv2kphys base = (OK, p) /\ wsub p base = off.
Proof.
  intros Hb Ht Hbt Htl Hl64 Hspan Hm Hu1 Hafter H.
  apply highest_linear_spec in H; [|lia].
  inversion H as [| |from ans ret n p u e' Hleast Ekv Hoff Hend Hu64 Hrest]; subst.
  destruct Hleast as (L0 & L1 & L2 & L3 & L4 & L5). rewrite Hb in L0, L5.
  assert (n = base).
  { destruct (N.eq_dec n base) as [|Hne]; [assumption|exfalso].
    apply (mapped_not_unmapped base); [apply Hm; lia|apply L5; lia]. }
  subst n. unfold run_end in Hend. rewrite Hb in Hend.
  assert (u = top_ + 1).
  { destruct Hend as [(E0 & E1 & E2 & E3 & E4)|(E0 & E1)].
    - destruct (N.le_gt_cases u top_) as [Hle|Hgt].
      { exfalso. apply (mapped_not_unmapped u); [apply Hm; lia|exact E3]. }
      destruct (N.le_gt_cases u (top_ + 1)) as [Hle1|Hgt1]; [lia|exfalso].
      apply (mapped_not_unmapped (top_ + 1)); [apply E4; lia|exact Hu1].
    - exfalso. apply (mapped_not_unmapped (top_ + 1)); [apply E1; try lia; exact Hspan|exact Hu1]. }
  subst u. split; [|exists p; auto].
  assert (Hans : wsub (top_ + 1) 1 = top_).
  { rewrite wsub_le; [lia|lia|rewrite W_pow; lia]. }
  rewrite Hans in Hrest.
  inversion Hrest as [| |from ans ret n q u e' Hleast' Ekv' Hoff' _ _ _]; subst; try reflexivity.
  exfalso. destruct Hleast' as (L0' & L1' & L2' & L3' & L4' & L5'). rewrite Ht in L0', L5'.
  destruct Hafter as [Hu|(n2 & N0 & N1 & N2 & N3)].
  - apply (mapped_not_unmapped n); [exact L4'|apply Hu; try lia; now rewrite L3', Hspan].
  - assert (n = n2).
    { destruct (N.lt_trichotomy n n2) as [Hl|[He|Hg]]; [exfalso|exact He|exfalso].
      - apply (mapped_not_unmapped n); [exact L4'|apply N2; lia].
      - apply (mapped_not_unmapped n2); [exact N1|apply L5'; lia]. }
    subst n. exact (N3 q Ekv' Hoff').
Qed.

(** [highest_mapped] finds the end of the last mapped run *)
Theorem highest_mapped_finds lf last0 top_ s' r :
  last0 < 2^64 -> top_ <= page_up last0 ->
  (forall a, top_ < a -> a <= page_up last0 -> Up a) -> Mp top_ ->
  highest_mapped readmem m pf lf last0 limit = (OK, s', r) -> r = top_.
Proof.
  intros H0 Hle Hu Hm H. pose proof (highest_mapped_spec lf last0 Hps H0) as Hs. rewrite H in Hs.
  cbn [scan_post_d] in Hs. destruct Hs as (S0 & S1 & S3 & (S4 & S5) & S6).
  destruct (N.lt_trichotomy r top_) as [Hlt'|[Heq|Hgt]]; [exfalso|exact Heq|exfalso].
  - apply (mapped_not_unmapped top_); [exact Hm|apply S6; lia].
  - apply (mapped_not_unmapped r); [eexists; exact S5|apply Hu; lia].
Qed.

(** [lowest_mapped] finds the start of the first mapped run *)
Theorem lowest_mapped_finds lf first0 base s' r :
  first0 < 2^64 -> page_down first0 <= base ->
  (forall a, page_down first0 <= a -> a < base -> Up a) -> Mp base ->
  lowest_mapped readmem m pf lf first0 limit = (OK, s', r) -> r = base.
Proof.
  intros H0 Hle Hu Hm H. pose proof (lowest_mapped_spec lf first0 Hps H0) as Hs. rewrite H in Hs.
  cbn [scan_post] in Hs. destruct Hs as (S0 & S1 & S2 & S3 & (S4 & S5) & S6).
  destruct (N.lt_trichotomy r base) as [Hlt'|[Heq|Hgt]]; [exfalso|exact Heq|exfalso].
  - apply (mapped_not_unmapped r); [eexists; exact S5|apply Hu; lia].
  - apply (mapped_not_unmapped base); [exact Hm|apply S6; lia].
Qed.

(** ** All four together *)
Theorem scan_specs lf fuel addr0 :
  addr0 < 2^64 ->
  let lo_start := addr0 / 2^(nth 0 fs 0) * 2^(nth 0 fs 0) in
  let hi_start := lo_start + (2^(nth 0 fs 0) - 1) in
  let same_span a := a / 2^(total fs) = addr0 / 2^(total fs) in
  let Mapped a := exists p, W a top ras root = (OK, Some (tgt, p)) in
  let Unmapped a := W a top ras root = (NOTPRESENT, None) in
  (* lowest_mapped: the least mapped address in [lo_start, limit] *)
  (forall st s' r, lowest_mapped readmem m pf lf addr0 limit = (st, s', r) ->
     (st = OK -> lo_start <= r /\ r <= limit /\ r < 2^64 /\ same_span r /\
                 s_as s' = tgt /\ W r top ras root = (OK, Some (tgt, s_base s')) /\
                 forall a, lo_start <= a -> a < r -> Unmapped a) /\
     (st = NOTPRESENT -> forall a, lo_start <= a -> a <= limit -> same_span a -> Unmapped a)) /\
  (* lowest_unmapped: the least unmapped address in [lo_start, limit] *)
  (forall st s' r, lowest_unmapped readmem m pf lf addr0 limit = (st, s', r) ->
     (st = OK -> lo_start <= r /\ r <= limit /\ r < 2^64 /\ same_span r /\ Unmapped r /\
                 forall a, lo_start <= a -> a < r -> Mapped a) /\
     (st = NOTPRESENT -> forall a, lo_start <= a -> a <= limit -> same_span a -> Mapped a)) /\
  (* highest_mapped: the greatest mapped address in [limit, hi_start] *)
  (forall st s' r, highest_mapped readmem m pf lf addr0 limit = (st, s', r) ->
     (st = OK -> limit <= r /\ r <= hi_start /\ same_span r /\
                 s_as s' = tgt /\ W r top ras root = (OK, Some (tgt, s_base s')) /\
                 forall a, r < a -> a <= hi_start -> Unmapped a) /\
     (st = NOTPRESENT -> forall a, limit <= a -> a <= hi_start -> same_span a -> Unmapped a)) /\
  (* highest_linear: the end of the last of the consecutive mapped runs whose
     first address is mapped with the offset [off] *)
  (forall e, highest_linear readmem m pf kv2kphys fuel lf addr0 limit off = (OK, e) ->
     lin_runs addr0 addr0 NOTPRESENT e).
Proof.
  intro Ha. cbv zeta. split; [|split; [|split]].
  - intros st s' r H. exact (lowest_mapped_least lf addr0 st s' r Hps Ha H).
  - intros st s' r H. exact (lowest_unmapped_least lf addr0 st s' r Hps Ha H).
  - intros st s' r H. exact (highest_mapped_greatest lf addr0 st s' r Hps Ha H).
  - intros e H. exact (highest_linear_spec fuel lf addr0 e Ha H).
Qed.

End ScanSound.

(** * Instance: x86-64 (4- and 5-level) *)
From KdV Require Import Xlat.FmtX86.

Ltac x86_64_side Hform Hfmt :=
  try assumption;
  try first
  [ (intro va; now apply sim_x86_64)
  | (destruct Hform as [-> | ->]; reflexivity)
  | (destruct Hform as [-> | ->]; cbn; lia)
  | (intros xl xe xva xa xb xsh; cbn [af_decode af_x86_64]; unfold dec_x86_64;
     destruct (negb (bit 0 xe)); [discriminate|];
     destruct xl as [|[|[|[|xl]]]]; try discriminate; destruct (bit 7 xe); discriminate)
  | (intros xl xe xva xva'; reflexivity)
  | (intros j Hj; destruct Hform as [Hf | Hf]; rewrite Hf in *; cbn [length] in Hj;
     do 7 (destruct j as [|j]; [cbn; lia|]); lia)
  | (now rewrite Hfmt) ].

Notation x86_mapped readmem tgt mask pf ras root :=
  (mapped readmem af_x86_64 tgt mask pf (length (fieldsz pf) - 1) ras root).
Notation x86_unmapped readmem tgt mask pf ras root :=
  (unmapped readmem af_x86_64 tgt mask pf (length (fieldsz pf) - 1) ras root).

Theorem x86_64_lowest_mapped_spec readmem tgt mask pf ras root limit lf addr0 :
  pte_format pf = PTE_X86_64 -> x86_64_form (fieldsz pf) ->
  (forall a x, readmem a x <> RdErr OK) -> addr0 < 2^64 ->
  scan_post pf limit (x86_unmapped readmem tgt mask pf ras root)
    (fun s' r => s_as s' = tgt /\
       arch_levels readmem af_x86_64 tgt mask (fieldsz pf) r (length (fieldsz pf) - 1) ras root
         = (OK, Some (tgt, s_base s')))
    addr0 (lowest_mapped readmem {| m_kind := KPgt ras root mask pf; m_target := tgt |} pf lf addr0 limit).
Proof.
  intros Hfmt Hform Herr Ha.
  apply (lowest_mapped_spec readmem af_x86_64 tgt mask pf ras root); x86_64_side Hform Hfmt.
Qed.

Theorem x86_64_lowest_unmapped_spec readmem tgt mask pf ras root limit lf addr0 :
  pte_format pf = PTE_X86_64 -> x86_64_form (fieldsz pf) ->
  (forall a x, readmem a x <> RdErr OK) -> addr0 < 2^64 ->
  scan_post pf limit (x86_mapped readmem tgt mask pf ras root)
    (fun _ r => x86_unmapped readmem tgt mask pf ras root r)
    addr0 (lowest_unmapped readmem {| m_kind := KPgt ras root mask pf; m_target := tgt |} pf lf addr0 limit).
Proof.
  intros Hfmt Hform Herr Ha.
  apply (lowest_unmapped_spec readmem af_x86_64 tgt mask pf ras root); x86_64_side Hform Hfmt.
Qed.

Theorem x86_64_highest_linear_spec readmem tgt mask pf ras root limit kv2kphys off fuel lf addr e :
  pte_format pf = PTE_X86_64 -> x86_64_form (fieldsz pf) ->
  (forall a x, readmem a x <> RdErr OK) -> addr < 2^64 ->
  highest_linear readmem {| m_kind := KPgt ras root mask pf; m_target := tgt |} pf kv2kphys fuel lf addr limit off
    = (OK, e) ->
  lin_runs readmem af_x86_64 tgt mask pf ras root limit kv2kphys off addr addr NOTPRESENT e.
Proof.
  intros Hfmt Hform Herr Ha.
  apply (highest_linear_spec readmem af_x86_64 tgt mask pf ras root); x86_64_side Hform Hfmt.
Qed.

Theorem x86_64_highest_linear_single_run readmem tgt mask pf ras root limit kv2kphys off fuel lf base top_ e :
  pte_format pf = PTE_X86_64 -> x86_64_form (fieldsz pf) ->
  (forall a x, readmem a x <> RdErr OK) ->
  base mod 2^12 = 0 -> (top_ + 1) mod 2^12 = 0 ->
  base <= top_ -> top_ < limit -> limit < 2^64 ->
  (top_ + 1) / 2^(total (fieldsz pf)) = base / 2^(total (fieldsz pf)) ->
  (forall a, base <= a -> a <= top_ -> x86_mapped readmem tgt mask pf ras root a) ->
  (forall a, top_ < a -> a <= limit -> x86_unmapped readmem tgt mask pf ras root a) ->
  highest_linear readmem {| m_kind := KPgt ras root mask pf; m_target := tgt |} pf kv2kphys fuel lf base limit off
    = (OK, e) ->
  e = top_ /\ exists p, kv2kphys base = (OK, p) /\ wsub p base = off.
Proof.
  intros Hfmt Hform Herr Hb Ht.
  assert (Hf0 : nth 0 (fieldsz pf) 0 = 12) by (destruct Hform as [-> | ->]; reflexivity).
  apply (highest_linear_single_run readmem af_x86_64 tgt mask pf ras root); x86_64_side Hform Hfmt;
    unfold page_down; rewrite Hf0.
  - pose proof (N.div_mod base (2^12) (pow2_nz _)). lia.
  - pose proof (N.div_mod (top_ + 1) (2^12) (pow2_nz _)). lia.
Qed.

Theorem x86_64_lowest_mapped_finds readmem tgt mask pf ras root limit lf first0 base s' r :
  pte_format pf = PTE_X86_64 -> x86_64_form (fieldsz pf) ->
  (forall a x, readmem a x <> RdErr OK) ->
  first0 < 2^64 -> first0 mod 2^12 = 0 -> first0 <= base ->
  (forall a, first0 <= a -> a < base -> x86_unmapped readmem tgt mask pf ras root a) ->
  x86_mapped readmem tgt mask pf ras root base ->
  lowest_mapped readmem {| m_kind := KPgt ras root mask pf; m_target := tgt |} pf lf first0 limit = (OK, s', r) ->
  r = base.
Proof.
  intros Hfmt Hform Herr H0 Hal Hle Hu Hm.
  assert (Hf0 : nth 0 (fieldsz pf) 0 = 12) by (destruct Hform as [-> | ->]; reflexivity).
  assert (Hpd : page_down pf first0 = first0).
  { unfold page_down. rewrite Hf0. pose proof (N.div_mod first0 (2^12) (pow2_nz _)). lia. }
  apply (lowest_mapped_finds readmem af_x86_64 tgt mask pf ras root); x86_64_side Hform Hfmt;
    rewrite Hpd; assumption.
Qed.

Theorem x86_64_lowest_mapped_sound readmem tgt mask pf ras root limit lf addr0 s' r :
  pte_format pf = PTE_X86_64 -> x86_64_form (fieldsz pf) ->
  (forall a x, readmem a x <> RdErr OK) -> addr0 < 2^64 ->
  lowest_mapped readmem {| m_kind := KPgt ras root mask pf; m_target := tgt |} pf lf addr0 limit = (OK, s', r) ->
  addr0 / 2^12 * 2^12 <= r /\ r <= limit /\ r < 2^64 /\
  r / 2^(total (fieldsz pf)) = addr0 / 2^(total (fieldsz pf)) /\
  arch_levels readmem af_x86_64 tgt mask (fieldsz pf) r (length (fieldsz pf) - 1) ras root
    = (OK, Some (tgt, s_base s')) /\ s_as s' = tgt.
Proof.
  intros Hfmt Hform Herr Ha Hlm.
  assert (Hf0 : nth 0 (fieldsz pf) 0 = 12) by (destruct Hform as [-> | ->]; reflexivity).
  rewrite <- Hf0.
  apply (lowest_mapped_sound readmem af_x86_64 tgt mask pf ras root) with (lf := lf); try assumption.
  - intro va. now apply sim_x86_64.
  - destruct Hform as [-> | ->]; reflexivity.
  - destruct Hform as [-> | ->]; cbn; lia.
  - destruct Hform as [-> | ->]; cbn; lia.
  - intros l e va a b sh. cbn [af_decode af_x86_64]. unfold dec_x86_64.
    destruct (negb (bit 0 e)); [discriminate|].
    destruct l as [|[|[|[|l]]]]; try discriminate; destruct (bit 7 e); discriminate.
  - intros l e va va'. reflexivity.
  - intros j Hj. destruct Hform as [Hf | Hf]; rewrite Hf in *; cbn [length] in Hj;
      do 7 (destruct j as [|j]; [cbn; lia|]); lia.
  - now rewrite Hfmt.
Qed.
