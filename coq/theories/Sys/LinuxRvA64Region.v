(** C08, riscv64 / aarch64 Linux: on a canonical image the scans of
    [add_linux_linear_map] find the whole linear mapping, and the direct method
    installed agrees with the page tables on all of it.

    Canonical = the kernel page table (any PTE format with a C02 simulation
    lemma), walked architecturally, maps one run [base, top_] of whole pages
    where the code looks, the run is mapped linearly, and
    - riscv64: NOTHING is mapped between PAGE_OFFSET and [base] (the scan starts
      exactly at the linear map: the offset of the whole region is taken from
      the first mapped address at or above PAGE_OFFSET), the page after the run
      is unmapped, and whatever is mapped next (the kernel image) does not
      continue with the same offset;
    - aarch64: nothing else is mapped in the half of the kernel range that
      [linux_page_offset] selects. *)
From Coq Require Import NArith ZArith List Bool Lia.
From KdV Require Import Base.Wrap64 Map.MapModel Map.MapSpec Map.MapProofs Xlat.Step Xlat.ArchSpec Xlat.XBits
  Xlat.WalkProofs Xlat.FmtA64 Xlat.FmtRiscvPfn
  Sys.LayoutModel Sys.LayoutSpec Sys.LayoutProofs Sys.ScanModel Sys.ScanProofs
  Sys.LinuxX86Model Sys.LinuxX86Proofs Sys.LinuxRvA64Model Sys.LinuxRvA64Proofs.
Import ListNotations.
Local Open Scope N_scope.

Section Finds.
Variable img : image.
Variable hl_fuel : nat.
Variable af : archfmt.
Variable s : sys.
Variables (ras : aspace) (root mask : N) (pf : pform) (tgt : aspace).
Hypothesis Hm : pgt_meth s = {| m_kind := KPgt ras root mask pf; m_target := tgt |}.
Hypothesis Hsim : forall va, sim (rd img s) af tgt mask pf va.
Hypothesis Herr : forall a x, rd img s a x <> RdErr OK.
Hypothesis Hlt : all_lt64 (fieldsz pf) = true.
Hypothesis Htot : total (fieldsz pf) <= 64.
Hypothesis Hlen : (2 <= length (fieldsz pf) <= 8)%nat.
Hypothesis Hnodir : forall l e va a b sh, af_decode af tgt (fieldsz pf) l e va <> DHugeDir a b sh.
Hypothesis Hdecva : forall l e va va', af_decode af tgt (fieldsz pf) l e va = af_decode af tgt (fieldsz pf) l e va'.
Hypothesis Hpos : forall j, (j < length (fieldsz pf))%nat -> 1 <= nth j (fieldsz pf) 0.
Hypothesis Hps : pte_size (pte_format pf) = Some (af_ptesz af).

Notation walk := (fun a => arch_levels (rd img s) af tgt mask (fieldsz pf) a (length (fieldsz pf) - 1) ras root).
Notation Mp := (mapped (rd img s) af tgt mask pf (length (fieldsz pf) - 1) ras root).
Notation Up := (unmapped (rd img s) af tgt mask pf (length (fieldsz pf) - 1) ras root).
Notation pd := (page_down pf).

Lemma pgt_pf_eq : pgt_pf s = pf.
Proof. unfold pgt_pf. now rewrite Hm. Qed.

Lemma walk_agrees base top_ p1 a p :
  top_ < 2^64 -> walk base = (OK, Some (tgt, p1)) ->
  (forall a p, base <= a -> a <= top_ -> walk a = (OK, Some (tgt, p)) -> wsub p a = wsub p1 base) ->
  base <= a -> a <= top_ -> walk a = (OK, Some (tgt, p)) ->
  lin (s64 (wsub p1 base)) a = p.
Proof.
  intros Ht Hb Hlin H1 H2 Hw.
  apply (ktext_linear_agrees (wsub p1 base) a p base p1); try lia; auto.
  exact (arch_levels_lt _ _ _ _ _ _ _ _ _ _ _ Hw).
Qed.

(** ** riscv64 *)
Theorem rv_linux_agree po base top_ p1 s' :
  wf_sys s ->
  num_PAGE_OFFSET img = CbOk po -> po < 2^64 ->
  (* the scan starts exactly at the linear map *)
  pd po <= base -> (forall a, pd po <= a -> a < base -> Up a) ->
  (* one run of whole pages, mapped linearly *)
  pd base = base -> pd (top_ + 1) = top_ + 1 -> base <= top_ -> top_ < MAXA ->
  (top_ + 1) / 2^(total (fieldsz pf)) = base / 2^(total (fieldsz pf)) ->
  (forall a, base <= a -> a <= top_ -> Mp a) -> Up (top_ + 1) ->
  walk base = (OK, Some (tgt, p1)) ->
  (forall a p, base <= a -> a <= top_ -> walk a = (OK, Some (tgt, p)) -> wsub p a = wsub p1 base) ->
  (* what is mapped behind it does not go on with the same offset *)
  ((forall a, top_ < a -> a <= MAXA -> a / 2^(total (fieldsz pf)) = base / 2^(total (fieldsz pf)) -> Up a) \/
   (exists n2, top_ < n2 /\ Mp n2 /\ (forall a, top_ < a -> a < n2 -> Up a) /\
               forall p, kv2kphys img s n2 = (OK, p) -> wsub p n2 <> wsub p1 base)) ->
  rv_add_linux_linear_map img hl_fuel s = (O_ST OK, s') ->
  install_linear s base top_ (wsub p1 base) (wadd base (wsub p1 base)) (wadd top_ (wsub p1 base)) = (O_ST OK, s') /\
  get_meth s' METH_DIRECT = mk_linear KPHYSADDR (s64 (wsub p1 base)) /\
  (exists p, kv2kphys img s base = (OK, p) /\ wsub p base = wsub p1 base) /\
  (forall a p, base <= a -> a <= top_ -> walk a = (OK, Some (tgt, p)) -> lin (s64 (wsub p1 base)) a = p).
Proof.
  intros Hwf Hpo Hpo64 Hle Hbelow Hb Ht Hbt Htm Hspan Hrun Hu1 Hw1 Hlin Hafter H.
  assert (Hcb : num_PAGE_OFFSET img <> CbErr OK) by (rewrite Hpo; discriminate).
  destruct (rv_linear_map_witness img hl_fuel s s' Hcb H) as (po' & st & first & last & Epo & Hlm & Hhl & Hinst).
  rewrite Hpo in Epo. injection Epo as <-.
  unfold s_lowest_mapped in Hlm. unfold s_highest_linear in Hhl. rewrite pgt_pf_eq, Hm in Hlm, Hhl.
  assert (Hmb : Mp base) by (apply Hrun; lia).
  assert (first = base).
  { eapply (lowest_mapped_finds (rd img s) af tgt mask pf ras root); try eassumption. }
  subst first.
  destruct (lowest_mapped_least (rd img s) af tgt mask pf ras root Hsim Herr Hlt Htot Hlen Hnodir Hdecva Hpos
              MAXA lvl_fuel po OK st base Hps Hpo64 Hlm) as [Hok _].
  destruct (Hok eq_refl) as (_ & _ & _ & _ & _ & L5 & _).
  cbv beta in Hw1. rewrite Hw1 in L5. injection L5 as L5. rewrite <- L5 in *.
  assert (Hmax : MAXA < 2^64) by (rewrite MAXA_val; reflexivity).
  destruct (highest_linear_first_run (rd img s) af tgt mask pf ras root Hsim Herr Hlt Htot Hlen Hnodir Hdecva Hpos
              MAXA (kv2kphys img s) (wsub p1 base) Hps hl_fuel lvl_fuel base top_ last
              Hb Ht Hbt Htm Hmax Hspan Hrun Hu1 Hafter Hhl) as (-> & Hkv).
  split; [exact Hinst|]. split; [exact (install_linear_direct _ _ _ _ _ _ _ Hwf Hinst)|].
  split; [exact Hkv|].
  intros a p H1 H2 Hw. apply (walk_agrees base top_ p1 a p); auto. lia.
Qed.

(** ** aarch64 *)
Theorem a64_linux_agree vb po base top_ p1 s' :
  wf_sys s -> vb <= 64 ->
  a64_linux_page_offset img vb = (OK, po) ->
  let last0 := N.lor po (ADDR_MASK (vb - 1)) in
  po < 2^64 -> last0 < 2^64 ->
  (* in the half of the kernel range that is scanned, exactly one run is mapped *)
  pd po <= base -> (forall a, pd po <= a -> a < base -> Up a) ->
  base <= top_ -> top_ <= page_up pf last0 -> (forall a, top_ < a -> a <= page_up pf last0 -> Up a) ->
  (forall a, base <= a -> a <= top_ -> Mp a) ->
  walk base = (OK, Some (tgt, p1)) ->
  (forall a p, base <= a -> a <= top_ -> walk a = (OK, Some (tgt, p)) -> wsub p a = wsub p1 base) ->
  a64_add_linux_linear_map img vb s = (O_ST OK, s') ->
  exists p2,
    walk top_ = (OK, Some (tgt, p2)) /\
    install_linear s base top_ (wsub p1 base) p1 p2 = (O_ST OK, s') /\
    get_meth s' METH_DIRECT = mk_linear KPHYSADDR (s64 (wsub p1 base)) /\
    (forall a p, base <= a -> a <= top_ -> walk a = (OK, Some (tgt, p)) -> lin (s64 (wsub p1 base)) a = p).
Proof.
  intros Hwf Hvb Hpo last0 Hpo64 Hl064 Hle Hbelow Hbt Htop Habove Hrun Hw1 Hlin H.
  destruct (a64_linear_map_witness img vb s s' H) as (po' & st & first & st2 & last & Epo & Hlm & Hhm & Heq & Hinst).
  rewrite Hpo in Epo. injection Epo as <-. fold last0 in Hlm, Hhm.
  unfold s_lowest_mapped in Hlm. unfold s_highest_mapped in Hhm. rewrite pgt_pf_eq, Hm in Hlm, Hhm.
  assert (Hmb : Mp base) by (apply Hrun; lia).
  assert (Hmt : Mp top_) by (apply Hrun; lia).
  assert (first = base).
  { eapply (lowest_mapped_finds (rd img s) af tgt mask pf ras root) with (first0 := po); try eassumption. }
  subst first.
  assert (last = top_).
  { eapply (highest_mapped_finds (rd img s) af tgt mask pf ras root) with (last0 := last0); try eassumption. }
  subst last.
  destruct (lowest_mapped_least (rd img s) af tgt mask pf ras root Hsim Herr Hlt Htot Hlen Hnodir Hdecva Hpos
              last0 lvl_fuel po OK st base Hps Hpo64 Hlm) as [Hok _].
  destruct (Hok eq_refl) as (_ & _ & _ & _ & _ & L5 & _).
  cbv beta in Hw1. rewrite Hw1 in L5. injection L5 as L5. rewrite <- L5 in *.
  destruct (highest_mapped_greatest (rd img s) af tgt mask pf ras root Hsim Herr Hlt Htot Hlen Hnodir Hdecva Hpos
              base lvl_fuel last0 OK st2 top_ Hps Hl064 Hhm) as [Hok2 _].
  destruct (Hok2 eq_refl) as (_ & _ & _ & _ & G4 & _).
  assert (Ht64 : top_ < 2^64).
  { eapply N.le_lt_trans; [exact Htop|].
    apply page_up_lt; try assumption. apply all_lt64_nth; [exact Hlt|lia]. }
  exists (s_base st2). split; [exact G4|]. split; [exact Hinst|].
  split; [exact (install_linear_direct _ _ _ _ _ _ _ Hwf Hinst)|].
  intros a p H1 H2 Hw. apply (walk_agrees base top_ p1 a p); auto.
Qed.

End Finds.

(** * The instances: RISC-V Sv39/48/57 and the AArch64 formats with C02's level layouts *)

Definition rv_walk img s ras root mask pf tgt a :=
  arch_levels (rd img s) af_riscv64 tgt mask (fieldsz pf) a (length (fieldsz pf) - 1) ras root.
Definition a64_walk v img s ras root mask pf tgt a :=
  arch_levels (rd img s) (af_aarch64 v) tgt mask (fieldsz pf) a (length (fieldsz pf) - 1) ras root.

Theorem riscv64_linux_agree img hl_fuel s ras root mask pf tgt po base top_ p1 s' :
  pgt_meth s = {| m_kind := KPgt ras root mask pf; m_target := tgt |} ->
  pte_format pf = PTE_RISCV64 -> riscv64_form (fieldsz pf) ->
  (forall a x, rd img s a x <> RdErr OK) ->
  wf_sys s ->
  num_PAGE_OFFSET img = CbOk po -> po < 2^64 ->
  let walk := rv_walk img s ras root mask pf tgt in
  let Mp a := exists p, walk a = (OK, Some (tgt, p)) in
  let Up a := walk a = (NOTPRESENT, None) in
  let pd a := a / 2^12 * 2^12 in
  pd po <= base -> (forall a, pd po <= a -> a < base -> Up a) ->
  pd base = base -> pd (top_ + 1) = top_ + 1 -> base <= top_ -> top_ < MAXA ->
  (top_ + 1) / 2^(total (fieldsz pf)) = base / 2^(total (fieldsz pf)) ->
  (forall a, base <= a -> a <= top_ -> Mp a) -> Up (top_ + 1) ->
  walk base = (OK, Some (tgt, p1)) ->
  (forall a p, base <= a -> a <= top_ -> walk a = (OK, Some (tgt, p)) -> wsub p a = wsub p1 base) ->
  ((forall a, top_ < a -> a <= MAXA -> a / 2^(total (fieldsz pf)) = base / 2^(total (fieldsz pf)) -> Up a) \/
   (exists n2, top_ < n2 /\ Mp n2 /\ (forall a, top_ < a -> a < n2 -> Up a) /\
               forall p, kv2kphys img s n2 = (OK, p) -> wsub p n2 <> wsub p1 base)) ->
  rv_add_linux_linear_map img hl_fuel s = (O_ST OK, s') ->
  install_linear s base top_ (wsub p1 base) (wadd base (wsub p1 base)) (wadd top_ (wsub p1 base)) = (O_ST OK, s') /\
  get_meth s' METH_DIRECT = mk_linear KPHYSADDR (s64 (wsub p1 base)) /\
  (exists p, kv2kphys img s base = (OK, p) /\ wsub p base = wsub p1 base) /\
  (forall a p, base <= a -> a <= top_ -> walk a = (OK, Some (tgt, p)) -> lin (s64 (wsub p1 base)) a = p).
Proof.
  intros Hm Hfmt Hform Herr Hwf Hpo Hpo64. cbv zeta.
  destruct (riscv64_layout _ Hform) as (Hff & Hlen & Hg & Ht & _).
  assert (Hpd : forall a, page_down pf a = a / 2^12 * 2^12) by (intro a; unfold page_down; now rewrite Hg).
  rewrite <- !Hpd.
  apply (rv_linux_agree img hl_fuel af_riscv64 s ras root mask pf tgt); try assumption.
  - intro va. now apply sim_riscv64.
  - exact (ff_lt _ Hff).
  - lia.
  - lia.
  - intros l e va a b sh. cbn [af_decode af_riscv64]. unfold dec_riscv64.
    destruct (negb (bit 0 e)); [discriminate|].
    destruct (_ =? 0); [destruct l as [|[|l]]; discriminate|discriminate].
  - intros l e va va'. reflexivity.
  - intros j Hj. repeat (destruct Hform as [Hf | Hform]; [rewrite Hf in * | ]); try rewrite Hform in *;
      cbn [length] in Hj; do 7 (destruct j as [|j]; [cbn; lia|]); lia.
  - now rewrite Hfmt.
Qed.

Theorem aarch64_linux_agree img v s ras root mask pf tgt vb po base top_ p1 s' :
  pgt_meth s = {| m_kind := KPgt ras root mask pf; m_target := tgt |} ->
  pte_format pf = a64_fmt v -> a64_form v (fieldsz pf) ->
  (forall a x, rd img s a x <> RdErr OK) ->
  wf_sys s -> vb <= 64 ->
  a64_linux_page_offset img vb = (OK, po) ->
  let last0 := N.lor po (ADDR_MASK (vb - 1)) in
  po < 2^64 -> last0 < 2^64 ->
  let walk := a64_walk v img s ras root mask pf tgt in
  let Mp a := exists p, walk a = (OK, Some (tgt, p)) in
  let Up a := walk a = (NOTPRESENT, None) in
  page_down pf po <= base -> (forall a, page_down pf po <= a -> a < base -> Up a) ->
  base <= top_ -> top_ <= page_up pf last0 -> (forall a, top_ < a -> a <= page_up pf last0 -> Up a) ->
  (forall a, base <= a -> a <= top_ -> Mp a) ->
  walk base = (OK, Some (tgt, p1)) ->
  (forall a p, base <= a -> a <= top_ -> walk a = (OK, Some (tgt, p)) -> wsub p a = wsub p1 base) ->
  a64_add_linux_linear_map img vb s = (O_ST OK, s') ->
  exists p2,
    walk top_ = (OK, Some (tgt, p2)) /\
    install_linear s base top_ (wsub p1 base) p1 p2 = (O_ST OK, s') /\
    get_meth s' METH_DIRECT = mk_linear KPHYSADDR (s64 (wsub p1 base)) /\
    (forall a p, base <= a -> a <= top_ -> walk a = (OK, Some (tgt, p)) -> lin (s64 (wsub p1 base)) a = p).
Proof.
  intros Hm Hfmt Hform Herr Hwf Hvb Hpo. cbv zeta.
  destruct (a64_layout v _ Hform) as (Hff & Hlen & _ & Ht & _).
  apply (a64_linux_agree img (af_aarch64 v) s ras root mask pf tgt); try assumption.
  - intro va. now apply sim_aarch64.
  - exact (ff_lt _ Hff).
  - lia.
  - lia.
  - intros l e va a b sh. cbn [af_decode af_aarch64]. unfold dec_aarch64.
    destruct (negb (bit 0 e)); [discriminate|].
    destruct (bit 1 e); destruct l as [|[|l]]; try discriminate;
      destruct (a64_block_ok _ _ _); discriminate.
  - intros l e va va'. reflexivity.
  - intros j Hj. destruct v; cbn [a64_form] in Hform;
      repeat (destruct Hform as [Hf | Hform]; [rewrite Hf in * | ]); try rewrite Hform in *;
      cbn [length] in Hj; do 7 (destruct j as [|j]; [cbn; lia|]); lia.
  - rewrite Hfmt. destruct v; reflexivity.
Qed.
