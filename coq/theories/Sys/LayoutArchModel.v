(** Layout-level models of the other architectures' Linux set-ups (no proofs):

    - ia32.c [set_linux_directmap] inside the Linux part of [sys_ia32]: the
      temporary layout [linux_directmap] (direct region 0xc0000000..0xffffffff,
      which also creates the reverse map 0..0x3fffffff), the final KV -> PHYS
      map (everything below 4G through the page tables), and the trim of both
      maps at VMALLOC_START when [try_vmap_area_list] / [try_vmlist] find it
      ([None]: neither symbol is available, [ADDRXLAT_ERR_NODATA]).
    - arm.c [map_direct] = the tail of riscv64.c / aarch64.c
      [add_linux_linear_map]: the direct method gets the offset [off], the
      region [first, last] goes to it in KV -> PHYS and [first + off, last + off]
      to the reverse direct method in KPHYS -> DIRECT. *)
From Coq Require Import NArith ZArith List Bool.
From KdV Require Import Base.Wrap64 Map.MapModel Xlat.Step Sys.LayoutModel.
Import ListNotations.
Local Open Scope N_scope.

Definition IA32_LINUX_DIRECTMAP : N := 0xc0000000.
Definition IA32_VIRTADDR_MAX : N := 0xffffffff.

(** [static const struct sys_region linux_directmap[]] *)
Definition ia32_linux_directmap : list region :=
  [ {| r_first := IA32_LINUX_DIRECTMAP; r_last := IA32_VIRTADDR_MAX; r_meth := METH_DIRECT; r_act := ACT_DIRECT |} ].

Definition raw_map_set (m : MapModel.map) (addr endoff : N) (meth : Z) : option MapModel.map :=
  match MapModel.map_set m addr {| MapModel.endoff := endoff; MapModel.meth := meth |} true with
  | MapModel.Ok m' => Some m'
  | _ => None
  end.

(** [set_linux_directmap(ctl, vtop)] *)
Definition ia32_set_linux_directmap (s : sys) (vtop : MapModel.map) (vmalloc_start : option N)
  : lstatus * sys * MapModel.map :=
  match vmalloc_start with
  | None => (L_OK, s, vtop)
  | Some vs =>
    if vs <=? IA32_LINUX_DIRECTMAP then (L_ERR INVALID, s, vtop) else
    match get_map s MAP_KPHYS_DIRECT with
    | None => (L_MAPOOB, s, vtop)
    | Some rmap =>
      match raw_map_set rmap (wsub vs IA32_LINUX_DIRECTMAP) (wsub MAXA (wsub vs IA32_LINUX_DIRECTMAP)) METH_NONE with
      | None => (L_MAPOOB, s, vtop)
      | Some rmap' =>
        let s1 := set_map s MAP_KPHYS_DIRECT (Some rmap') in
        match raw_map_set vtop IA32_LINUX_DIRECTMAP (wsub (wsub vs 1) IA32_LINUX_DIRECTMAP) (Z.of_nat METH_DIRECT) with
        | None => (L_MAPOOB, s1, vtop)
        | Some vtop' => (L_OK, s1, vtop')
        end
      end
    end
  end.

(** the map part of [sys_ia32] for Linux: temporary layout, final map, trim *)
Definition ia32_linux_maps (s : sys) (vmalloc_start : option N) : lstatus * sys :=
  match sys_set_layout s MAP_KV_PHYS ia32_linux_directmap with
  | (L_OK, s1) =>
    match raw_map_set [] 0 IA32_VIRTADDR_MAX (Z.of_nat METH_PGT) with
    | None => (L_MAPOOB, s1)
    | Some newmap =>
      match ia32_set_linux_directmap s1 newmap vmalloc_start with
      | (L_OK, s2, vtop) => (L_OK, set_map s2 MAP_KV_PHYS (Some vtop))
      | (l, s2, _) => (l, s2)
      end
    end
  | bad => bad
  end.

(** arm.c [map_direct] *)
Definition map_direct (s : sys) (first last : N) (off : Z) : lstatus * sys :=
  let s1 := set_meth s METH_DIRECT (mk_linear KPHYSADDR off) in
  match sys_set_layout s1 MAP_KV_PHYS
          [ {| r_first := first; r_last := last; r_meth := METH_DIRECT; r_act := ACT_NONE |} ] with
  | (L_OK, s2) =>
      let o := Z.to_N (off mod 2^64)%Z in
      sys_set_layout s2 MAP_KPHYS_DIRECT
          [ {| r_first := wadd first o; r_last := wadd last o; r_meth := METH_RDIRECT; r_act := ACT_RDIRECT |} ]
  | bad => bad
  end.
