(** Model of the layout part of src/addrxlat/sys.c: the translation system
    object ([addrxlat_sys_t]: five translation maps, sixteen methods),
    [sys_set_layout] with its region actions [act_direct], [act_rdirect],
    [act_ident_kphys], [act_ident_machphys], and [sys_set_physmaps].

    - Maps are C10's [MapModel.map]; [internal_map_set] / [internal_map_new] are
      [MapModel.map_set] on an (initially empty) map, allocations succeed (the
      allocation-failure paths of map.c are C10's and C18's subject).
    - A method is a [Step.meth] plus the bytes of [param.linear.off] as last
      written through the linear view ([sm_off]): x86_64.c stores an offset into
      a method whose kind is still [ADDRXLAT_NOMETH] and [act_rdirect] reads it
      back whatever the kind is.
    - [addrxlat_off_t] is a signed 64-bit integer: [-region->first] is computed
      in [uint64_t] and converted ([s64]); [-off] on the signed value is
      undefined for [INT64_MIN] (outcome [OVERFLOW]).
    - A layout table is a list of regions (the [SYS_REGION_END] terminator is the
      end of the list); a method index outside [sys->meth[]] is [BADIDX].

    No proofs in this file. *)
From Coq Require Import NArith ZArith List Bool.
From KdV Require Import Base.Wrap64 Map.MapModel Xlat.Step.
Import ListNotations.
Local Open Scope N_scope.

(** * Indices *)

(** [addrxlat_sys_meth_t] *)
Definition METH_NONE : Z := (-1)%Z.
Definition METH_PGT : nat := 0.
Definition METH_UPGT : nat := 1.
Definition METH_DIRECT : nat := 2.
Definition METH_KTEXT : nat := 3.
Definition METH_VMEMMAP : nat := 4.
Definition METH_RDIRECT : nat := 5.
Definition METH_MACHPHYS_KPHYS : nat := 6.
Definition METH_KPHYS_MACHPHYS : nat := 7.
Definition METH_CUSTOM : nat := 8.
Definition METH_NUM : nat := 16.

(** [addrxlat_sys_map_t] *)
Inductive sysmap := MAP_HW | MAP_KV_PHYS | MAP_KPHYS_DIRECT | MAP_MACHPHYS_KPHYS | MAP_KPHYS_MACHPHYS.

(** * The translation system *)

Record smeth := { sm : Step.meth; sm_off : Z }.

Definition smeth_zero : smeth :=
  {| sm := {| m_kind := KNone; m_target := KPHYSADDR |}; sm_off := 0%Z |}.

(** [meth->param.linear.off] read through the linear view *)
Definition lin_off (m : smeth) : Z :=
  match m_kind (sm m) with KLinear off => off | _ => sm_off m end.

(** [meth->kind = ADDRXLAT_LINEAR; meth->target_as = t; meth->param.linear.off = off] *)
Definition mk_linear (t : aspace) (off : Z) : smeth :=
  {| sm := {| m_kind := KLinear off; m_target := t |}; sm_off := off |}.

Record sys := {
  map_hw : option MapModel.map;
  map_kv_phys : option MapModel.map;
  map_kphys_direct : option MapModel.map;
  map_machphys_kphys : option MapModel.map;
  map_kphys_machphys : option MapModel.map;
  meths : list smeth            (* METH_NUM entries *)
}.

(** [calloc(1, sizeof(addrxlat_sys_t))] *)
Definition sys_new : sys :=
  {| map_hw := None; map_kv_phys := None; map_kphys_direct := None;
     map_machphys_kphys := None; map_kphys_machphys := None;
     meths := repeat smeth_zero METH_NUM |}.

Definition get_map (s : sys) (i : sysmap) : option MapModel.map :=
  match i with
  | MAP_HW => map_hw s | MAP_KV_PHYS => map_kv_phys s | MAP_KPHYS_DIRECT => map_kphys_direct s
  | MAP_MACHPHYS_KPHYS => map_machphys_kphys s | MAP_KPHYS_MACHPHYS => map_kphys_machphys s
  end.

Definition set_map (s : sys) (i : sysmap) (m : option MapModel.map) : sys :=
  match i with
  | MAP_HW => {| map_hw := m; map_kv_phys := map_kv_phys s; map_kphys_direct := map_kphys_direct s;
                 map_machphys_kphys := map_machphys_kphys s; map_kphys_machphys := map_kphys_machphys s;
                 meths := meths s |}
  | MAP_KV_PHYS => {| map_hw := map_hw s; map_kv_phys := m; map_kphys_direct := map_kphys_direct s;
                 map_machphys_kphys := map_machphys_kphys s; map_kphys_machphys := map_kphys_machphys s;
                 meths := meths s |}
  | MAP_KPHYS_DIRECT => {| map_hw := map_hw s; map_kv_phys := map_kv_phys s; map_kphys_direct := m;
                 map_machphys_kphys := map_machphys_kphys s; map_kphys_machphys := map_kphys_machphys s;
                 meths := meths s |}
  | MAP_MACHPHYS_KPHYS => {| map_hw := map_hw s; map_kv_phys := map_kv_phys s;
                 map_kphys_direct := map_kphys_direct s;
                 map_machphys_kphys := m; map_kphys_machphys := map_kphys_machphys s;
                 meths := meths s |}
  | MAP_KPHYS_MACHPHYS => {| map_hw := map_hw s; map_kv_phys := map_kv_phys s;
                 map_kphys_direct := map_kphys_direct s;
                 map_machphys_kphys := map_machphys_kphys s; map_kphys_machphys := m;
                 meths := meths s |}
  end.

Definition get_meth (s : sys) (i : nat) : smeth := nth i (meths s) smeth_zero.

Fixpoint upd {A} (l : list A) (i : nat) (v : A) : list A :=
  match l, i with
  | [], _ => []
  | _ :: t, O => v :: t
  | h :: t, S i' => h :: upd t i' v
  end.

Definition set_meth (s : sys) (i : nat) (m : smeth) : sys :=
  {| map_hw := map_hw s; map_kv_phys := map_kv_phys s; map_kphys_direct := map_kphys_direct s;
     map_machphys_kphys := map_machphys_kphys s; map_kphys_machphys := map_kphys_machphys s;
     meths := upd (meths s) i m |}.

(** * Layout tables *)

Inductive action := ACT_NONE | ACT_DIRECT | ACT_RDIRECT | ACT_IDENT_KPHYS | ACT_IDENT_MACHPHYS.

(** [struct sys_region] *)
Record region := { r_first : N; r_last : N; r_meth : nat; r_act : action }.

(** outcome of the layout functions *)
Inductive lstatus :=
| L_OK
| L_ERR (st : Step.status)      (* an [addrxlat_status] other than OK *)
| L_BADIDX                      (* sys->meth[i] with i outside the array *)
| L_OVERFLOW                    (* -INT64_MIN *)
| L_MAPOOB.                     (* map.c walked outside its array (C10: unreachable on tiled maps) *)

(** two's-complement reading of a 64-bit pattern as [int64_t] *)
Definition s64 (x : N) : Z :=
  if x <? 2^63 then Z.of_N x else (Z.of_N x - 2^64)%Z.

(** [-(uint64_t)x] as an [addrxlat_off_t] *)
Definition neg_u64 (x : N) : Z := s64 (wsub 0 x).

Definition INT64_MIN : Z := (- 2^63)%Z.

(** [act_rdirect]:
      meth->param.linear.off = -ctl->sys->meth[ADDRXLAT_SYS_METH_DIRECT].param.linear.off; *)
Definition act_rdirect (s : sys) (r : region) : lstatus * sys :=
  if (METH_NUM <=? r_meth r)%nat then (L_BADIDX, s) else
  let doff := lin_off (get_meth s METH_DIRECT) in
  if (doff =? INT64_MIN)%Z then (L_OVERFLOW, s) else
  (L_OK, set_meth s (r_meth r) (mk_linear KVADDR (- doff)%Z)).

(** [act_ident_kphys], [act_ident_machphys] *)
Definition act_ident (t : aspace) (s : sys) (r : region) : lstatus * sys :=
  if (METH_NUM <=? r_meth r)%nat then (L_BADIDX, s) else
  (L_OK, set_meth s (r_meth r) (mk_linear t 0%Z)).

(** [internal_map_set(map, region->first, &range)] with
    [range.endoff = region->last - region->first; range.meth = region->meth],
    on [ctl->sys->map[idx]], created empty when it is still NULL *)
Definition layout_map_set (s : sys) (idx : sysmap) (r : region) : lstatus * sys :=
  let m := match get_map s idx with Some m => m | None => [] end in
  let rg := {| MapModel.endoff := wsub (r_last r) (r_first r); MapModel.meth := Z.of_nat (r_meth r) |} in
  match MapModel.map_set m (r_first r) rg true with
  | MapModel.Ok m' => (L_OK, set_map s idx (Some m'))
  | MapModel.NoMem => (L_ERR NOMEM, set_map s idx (Some m))
  | MapModel.OOB => (L_MAPOOB, s)
  end.

(** the loop of [sys_set_layout] for a table without [SYS_ACT_DIRECT] regions *)
Fixpoint set_layout_plain (s : sys) (idx : sysmap) (layout : list region) : lstatus * sys :=
  match layout with
  | [] => (L_OK, match get_map s idx with Some _ => s | None => set_map s idx (Some []) end)
  | r :: rest =>
    let '(st, s1) :=
      match r_act r with
      | ACT_RDIRECT => act_rdirect s r
      | ACT_IDENT_KPHYS => act_ident KPHYSADDR s r
      | ACT_IDENT_MACHPHYS => act_ident MACHPHYSADDR s r
      | ACT_NONE | ACT_DIRECT => (L_OK, s)
      end in
    match st with
    | L_OK =>
      match layout_map_set s1 idx r with
      | (L_OK, s2) => set_layout_plain s2 idx rest
      | bad => bad
      end
    | _ => (st, s1)
    end
  end.

(** [act_direct]:
      layout[2] = { { 0, region->last - region->first, METH_RDIRECT, SYS_ACT_RDIRECT }, END };
      meth = &ctl->sys->meth[region->meth]; kind = LINEAR; target_as = KPHYSADDR;
      off = -region->first;
      return sys_set_layout(ctl, ADDRXLAT_SYS_MAP_KPHYS_DIRECT, layout); *)
Definition act_direct (s : sys) (r : region) : lstatus * sys :=
  if (METH_NUM <=? r_meth r)%nat then (L_BADIDX, s) else
  let s1 := set_meth s (r_meth r) (mk_linear KPHYSADDR (neg_u64 (r_first r))) in
  set_layout_plain s1 MAP_KPHYS_DIRECT
    [ {| r_first := 0; r_last := wsub (r_last r) (r_first r);
         r_meth := METH_RDIRECT; r_act := ACT_RDIRECT |} ].

(** [sys_set_layout] *)
Fixpoint sys_set_layout (s : sys) (idx : sysmap) (layout : list region) : lstatus * sys :=
  match layout with
  | [] => (L_OK, match get_map s idx with Some _ => s | None => set_map s idx (Some []) end)
  | r :: rest =>
    let '(st, s1) :=
      match r_act r with
      | ACT_DIRECT => act_direct s r
      | ACT_RDIRECT => act_rdirect s r
      | ACT_IDENT_KPHYS => act_ident KPHYSADDR s r
      | ACT_IDENT_MACHPHYS => act_ident MACHPHYSADDR s r
      | ACT_NONE => (L_OK, s)
      end in
    match st with
    | L_OK =>
      (* [map] was fetched before the loop: the map of [idx] as created on entry *)
      match layout_map_set s1 idx r with
      | (L_OK, s2) => sys_set_layout s2 idx rest
      | bad => bad
      end
    | _ => (st, s1)
    end
  end.

(** [sys_set_physmaps] *)
Definition sys_set_physmaps (s : sys) (maxaddr : N) : lstatus * sys :=
  match sys_set_layout s MAP_MACHPHYS_KPHYS
          [ {| r_first := 0; r_last := maxaddr; r_meth := METH_MACHPHYS_KPHYS; r_act := ACT_IDENT_KPHYS |} ] with
  | (L_OK, s1) =>
      sys_set_layout s1 MAP_KPHYS_MACHPHYS
          [ {| r_first := 0; r_last := maxaddr; r_meth := METH_KPHYS_MACHPHYS; r_act := ACT_IDENT_MACHPHYS |} ]
  | bad => bad
  end.

(** [sys_cleanup] (called by [addrxlat_sys_os_init] before every
    initialisation): the five maps are dropped, [sys->meth[]] is KEPT (only
    look-up methods that use the OS look-up table, which are not part of this
    model, are reset) *)
Definition sys_cleanup (s : sys) : sys :=
  {| map_hw := None; map_kv_phys := None; map_kphys_direct := None;
     map_machphys_kphys := None; map_kphys_machphys := None; meths := meths s |}.
