(** C08, re-initialisation of a used translation system: [sys_cleanup] keeps
    [sys->meth[]], so what an initialisation leaves in the maps and methods must
    not depend on what was there.  Proved here for [sys_set_physmaps] (the
    MACHPHYS <-> KPHYS identity set-up every [sys_<arch>] performs: the actions
    [act_ident_kphys] / [act_ident_machphys] reset their methods
    unconditionally): on a cleaned-up used system it gives the same status, the
    same five maps and the same two methods as on a fresh one. *)
From Coq Require Import NArith ZArith List Bool Lia.
From KdV Require Import Base.Wrap64 Map.MapModel Xlat.Step Sys.LayoutModel Sys.LayoutSpec Sys.LayoutProofs.
Import ListNotations.
Local Open Scope N_scope.

Definition same_maps (s1 s2 : sys) : Prop := forall k, get_map s1 k = get_map s2 k.

Lemma same_maps_set_meth s1 s2 i v w : same_maps s1 s2 -> same_maps (set_meth s1 i v) (set_meth s2 i w).
Proof. intros H k. now rewrite !get_map_set_meth. Qed.

Lemma same_maps_set_map s1 s2 idx v : same_maps s1 s2 -> same_maps (set_map s1 idx v) (set_map s2 idx v).
Proof.
  intros H k. destruct (sysmap_eq_dec idx k) as [<-|Hne].
  - now rewrite !get_set_map_same.
  - now rewrite !get_set_map_other by exact Hne.
Qed.

Lemma lms_same s1 s2 idx r : same_maps s1 s2 ->
  fst (layout_map_set s1 idx r) = fst (layout_map_set s2 idx r) /\
  same_maps (snd (layout_map_set s1 idx r)) (snd (layout_map_set s2 idx r)) /\
  meths (snd (layout_map_set s1 idx r)) = meths s1 /\ meths (snd (layout_map_set s2 idx r)) = meths s2.
Proof.
  intro H. unfold layout_map_set. rewrite (H idx).
  destruct (MapModel.map_set _ _ _ _); cbn [fst snd];
    repeat split; try apply same_maps_set_map; try apply meths_set_map; auto.
Qed.

Definition ident_target (a : action) : option aspace :=
  match a with ACT_IDENT_KPHYS => Some KPHYSADDR | ACT_IDENT_MACHPHYS => Some MACHPHYSADDR | _ => None end.

Lemma ident_one s1 s2 idx r t :
  ident_target (r_act r) = Some t -> (r_meth r < METH_NUM)%nat ->
  same_maps s1 s2 -> length (meths s1) = METH_NUM -> length (meths s2) = METH_NUM ->
  let a := sys_set_layout s1 idx [r] in let b := sys_set_layout s2 idx [r] in
  fst a = fst b /\ same_maps (snd a) (snd b) /\
  length (meths (snd a)) = METH_NUM /\ length (meths (snd b)) = METH_NUM /\
  get_meth (snd a) (r_meth r) = mk_linear t 0%Z /\ get_meth (snd b) (r_meth r) = mk_linear t 0%Z /\
  (forall j, j <> r_meth r -> get_meth (snd a) j = get_meth s1 j /\ get_meth (snd b) j = get_meth s2 j).
Proof.
  intros Ht Hm Hs L1 L2. cbv zeta. cbn [sys_set_layout].
  assert (Ha : forall s, (match r_act r with
                          | ACT_DIRECT => act_direct s r | ACT_RDIRECT => act_rdirect s r
                          | ACT_IDENT_KPHYS => act_ident KPHYSADDR s r
                          | ACT_IDENT_MACHPHYS => act_ident MACHPHYSADDR s r
                          | ACT_NONE => (L_OK, s) end) = (L_OK, set_meth s (r_meth r) (mk_linear t 0%Z))).
  { intro s. unfold act_ident. destruct (Nat.leb_spec METH_NUM (r_meth r)); [lia|].
    destruct (r_act r); try discriminate; injection Ht as <-; reflexivity. }
  rewrite !Ha. cbv iota beta.
  set (u1 := set_meth s1 (r_meth r) (mk_linear t 0%Z)). set (u2 := set_meth s2 (r_meth r) (mk_linear t 0%Z)).
  assert (Hu : same_maps u1 u2) by now apply same_maps_set_meth.
  destruct (lms_same u1 u2 idx r Hu) as (F & M & E1 & E2).
  destruct (layout_map_set u1 idx r) as [l1 v1]. destruct (layout_map_set u2 idx r) as [l2 v2].
  cbn [fst snd] in *. subst l2.
  assert (G1 : forall j, get_meth v1 j = get_meth u1 j) by (intro j; unfold get_meth; now rewrite E1).
  assert (G2 : forall j, get_meth v2 j = get_meth u2 j) by (intro j; unfold get_meth; now rewrite E2).
  assert (W1 : get_meth u1 (r_meth r) = mk_linear t 0%Z)
    by (unfold u1, get_meth, set_meth; cbn [meths]; apply nth_upd_same; lia).
  assert (W2 : get_meth u2 (r_meth r) = mk_linear t 0%Z)
    by (unfold u2, get_meth, set_meth; cbn [meths]; apply nth_upd_same; lia).
  assert (O1 : forall j, j <> r_meth r -> get_meth u1 j = get_meth s1 j)
    by (intros j Hj; unfold u1; apply get_set_meth_other; auto).
  assert (O2 : forall j, j <> r_meth r -> get_meth u2 j = get_meth s2 j)
    by (intros j Hj; unfold u2; apply get_set_meth_other; auto).
  assert (Lu1 : length (meths v1) = METH_NUM) by (rewrite E1; unfold u1, set_meth; cbn [meths]; now rewrite upd_length).
  assert (Lu2 : length (meths v2) = METH_NUM) by (rewrite E2; unfold u2, set_meth; cbn [meths]; now rewrite upd_length).
  assert (Fin : forall (w1 w2 : sys), meths w1 = meths v1 -> meths w2 = meths v2 -> same_maps w1 w2 ->
            same_maps w1 w2 /\ length (meths w1) = METH_NUM /\ length (meths w2) = METH_NUM /\
            get_meth w1 (r_meth r) = mk_linear t 0%Z /\ get_meth w2 (r_meth r) = mk_linear t 0%Z /\
            (forall j, j <> r_meth r -> get_meth w1 j = get_meth s1 j /\ get_meth w2 j = get_meth s2 j)).
  { intros w1 w2 Hw1 Hw2 Hsm. split; [exact Hsm|]. rewrite Hw1, Hw2. split; [exact Lu1|]. split; [exact Lu2|].
    unfold get_meth. rewrite Hw1, Hw2. fold (get_meth v1 (r_meth r)). fold (get_meth v2 (r_meth r)).
    rewrite G1, G2. split; [exact W1|]. split; [exact W2|].
    intros j Hj. fold (get_meth v1 j). fold (get_meth v2 j). rewrite G1, G2. split; [apply O1|apply O2]; exact Hj. }
  destruct l1; cbn [fst snd]; (split; [reflexivity|]);
    try (apply Fin; [reflexivity|reflexivity|exact M]).
  rewrite (M idx). destruct (get_map v2 idx) eqn:Eg.
  - apply Fin; [reflexivity|reflexivity|exact M].
  - apply Fin; try apply meths_set_map. now apply same_maps_set_map.
Qed.

Theorem reinit_physmaps_equals_fresh s mx :
  length (meths s) = METH_NUM ->
  let a := sys_set_physmaps (sys_cleanup s) mx in
  let b := sys_set_physmaps sys_new mx in
  fst a = fst b /\ same_maps (snd a) (snd b) /\
  (fst a = L_OK ->
   get_meth (snd a) METH_MACHPHYS_KPHYS = get_meth (snd b) METH_MACHPHYS_KPHYS /\
   get_meth (snd a) METH_KPHYS_MACHPHYS = get_meth (snd b) METH_KPHYS_MACHPHYS).
Proof.
  intros L. cbv zeta. unfold sys_set_physmaps.
  set (r1 := {| r_first := 0; r_last := mx; r_meth := METH_MACHPHYS_KPHYS; r_act := ACT_IDENT_KPHYS |}).
  set (r2 := {| r_first := 0; r_last := mx; r_meth := METH_KPHYS_MACHPHYS; r_act := ACT_IDENT_MACHPHYS |}).
  assert (H0 : same_maps (sys_cleanup s) sys_new) by (intro k; destruct k; reflexivity).
  assert (Ln : length (meths sys_new) = METH_NUM) by reflexivity.
  destruct (ident_one (sys_cleanup s) sys_new MAP_MACHPHYS_KPHYS r1 KPHYSADDR eq_refl
              ltac:(unfold r1, METH_MACHPHYS_KPHYS, METH_NUM; cbn; lia) H0 L Ln)
    as (F1 & M1 & La & Lb & Ga & Gb & Oa).
  destruct (sys_set_layout (sys_cleanup s) MAP_MACHPHYS_KPHYS [r1]) as [l1 a1].
  destruct (sys_set_layout sys_new MAP_MACHPHYS_KPHYS [r1]) as [l1' b1].
  cbn [fst snd] in *. subst l1'.
  destruct l1; cbn [fst snd]; try (split; [reflexivity|]; split; [exact M1|]; intro H; discriminate H).
  destruct (ident_one a1 b1 MAP_KPHYS_MACHPHYS r2 MACHPHYSADDR eq_refl
              ltac:(unfold r2, METH_KPHYS_MACHPHYS, METH_NUM; cbn; lia) M1 La Lb)
    as (F2 & M2 & _ & _ & Ga2 & Gb2 & Oa2).
  split; [exact F2|]. split; [exact M2|]. intros _.
  split.
  - destruct (Oa2 METH_MACHPHYS_KPHYS ltac:(unfold r2; cbn; discriminate)) as [-> ->].
    change METH_MACHPHYS_KPHYS with (r_meth r1). now rewrite Ga, Gb.
  - change METH_KPHYS_MACHPHYS with (r_meth r2). now rewrite Ga2, Gb2.
Qed.
