(** Model of the page-table scanning primitives of src/addrxlat/step.c:
    [lowest_mapped], [highest_mapped], [lowest_unmapped] (each with its
    recursive [_tbl] worker) and [highest_linear], over the step machine of
    [Xlat.Step].

    - [internal_launch] / [internal_step] are [Step.addrxlat_launch] /
      [Step.addrxlat_step]; the [memcpy] of the whole step into [mystep] and
      back is a copy of the record.
    - The [while] loop of a [_tbl] worker visits each entry of one table at most
      once ([++mystep.idx[i] >= nelem] resp. [!mystep.idx[i]--] ends it), so it
      is a structural recursion on the number of entries left; the recursion
      into the next-lower table is on an explicit level fuel ([NOFUEL] when it
      runs out; a paging form has at most 8 levels).  [highest_linear]'s outer
      loop has its own fuel.
    - [*addr] arithmetic wraps: [( *addr | tblmask) + 1], [( *addr & ~tblmask) - 1].
    - [highest_linear] converts the found address with [internal_fulladdr_conv]
      to KPHYSADDR; that conversion is the section variable [kv2kphys].

    No proofs in this file. *)
From Coq Require Import NArith ZArith List Bool.
From KdV Require Import Base.Wrap64 Xlat.Step.
Import ListNotations.
Local Open Scope N_scope.

Definition scanres : Type := status * step * N.

Section Scan.
Variable readmem : aspace -> N -> rdres.
Variable m : meth.
(** [step->meth->param.pgt.pf] *)
Variable pf : pform.

Definition internal_step (s : step) : status * step := addrxlat_step readmem m s.

(** [pf_table_size(pf, level)] = [(addrxlat_addr_t)1 << pf->fieldsz[level]] *)
Definition pf_table_size (level : nat) : option N :=
  let b := nthN (fieldsz pf) level in
  if b <? 64 then Some (wshl 1 b) else None.

(** [for (i = 0; i < n; ++i) idx[i] = 0;] *)
Fixpoint zero_below (idx : list N) (n : nat) : list N :=
  match n, idx with
  | O, _ => idx
  | S n', [] => []
  | S n', _ :: t => 0 :: zero_below t n'
  end.

(** [for (i = 0; i < n; ++i) idx[i] = pf_table_size(pf, i) - 1;] ([None]: a shift >= 64) *)
Fixpoint ones_below (fs idx : list N) (n : nat) : option (list N) :=
  match n, idx with
  | O, _ => Some idx
  | S n', [] => Some []
  | S n', _ :: t =>
      let b := match fs with [] => 0 | b :: _ => b end in
      if b <? 64 then
        match ones_below (tl fs) t n' with
        | Some t' => Some (wsub (wshl 1 b) 1 :: t')
        | None => None
        end
      else None
  end.

(** ** [lowest_mapped_tbl]

      while ( *addr <= limit) {
        status = internal_step(step);
        if (status == OK) {
          if (step->remain <= 1) return internal_step(step);
          status = lowest_mapped_tbl(step, addr, limit);
          if (status != NOTPRESENT) return status;
        } else if (status == NOTPRESENT) *addr = ( *addr | tblmask) + 1;
        else return status;
        for (i = 0; i < mystep.remain - 1; ++i) mystep.idx[i] = 0;
        if (++mystep.idx[i] >= nelem) return NOTPRESENT;
        memcpy(step, &mystep, sizeof *step);
      }
      return NOTPRESENT;                                                     *)
Fixpoint lm_loop (rec : step -> N -> scanres) (k : nat) (limit nelem tblmask : N)
         (mystep s : step) (addr : N) : scanres :=
  match k with
  | O => (NOFUEL, s, addr)       (* more iterations than table entries: impossible *)
  | S k' =>
    if negb (addr <=? limit) then (NOTPRESENT, s, addr) else
    let '(st, s1) := internal_step s in
    let after (s2 : step) (addr2 : N) : scanres :=
      let i := (s_remain mystep - 1)%nat in
      let idx := zero_below (s_idx mystep) i in
      let v := wadd (nthN idx i) 1 in
      let mystep' := set_idx mystep (set_nth idx i v) in
      if nelem <=? v then (NOTPRESENT, s2, addr2)
      else lm_loop rec k' limit nelem tblmask mystep' mystep' addr2 in
    match st with
    | OK =>
      if (s_remain s1 <=? 1)%nat then
        let '(st2, s2) := internal_step s1 in (st2, s2, addr)
      else
        let '(st2, s2, addr2) := rec s1 addr in
        match st2 with
        | NOTPRESENT => after s2 addr2
        | _ => (st2, s2, addr2)
        end
    | NOTPRESENT => after s1 (wadd (N.lor addr tblmask) 1)
    | _ => (st, s1, addr)
    end
  end.

Fixpoint lowest_mapped_tbl (lf : nat) (limit : N) (s : step) (addr : N) : scanres :=
  match lf with
  | O => (NOFUEL, s, addr)
  | S lf' =>
    match s_remain s with
    | O => (OOB, s, addr)                            (* fieldsz[remain - 1] with remain = 0 *)
    | S lvl =>
      match pf_table_size lvl, pf_table_mask pf lvl with
      | Some nelem, Some tblmask =>
          lm_loop (lowest_mapped_tbl lf' limit) (N.to_nat (nelem - nthN (s_idx s) lvl)) limit
                  nelem tblmask s s addr
      | _, _ => (BADSHIFT, s, addr)
      end
    end
  end.

(** [lowest_mapped]: [*addr &= ~page_mask; internal_launch(step, *addr); ..._tbl] *)
Definition lowest_mapped (lf : nat) (addr limit : N) : scanres :=
  match pf_page_mask pf with
  | None => (BADSHIFT, init_step addr, addr)
  | Some page_mask =>
    let addr := N.ldiff addr page_mask in
    match addrxlat_launch m (init_step addr) addr with
    | (OK, s) => lowest_mapped_tbl lf limit s addr
    | (st, s) => (st, s, addr)
    end
  end.

(** ** [highest_mapped_tbl]

      while ( *addr >= limit) {
        status = internal_step(step);
        if (status == OK) { if (step->remain <= 1) return internal_step(step);
                            status = highest_mapped_tbl(step, addr, limit);
                            if (status != NOTPRESENT) return status; }
        else if (status == NOTPRESENT) *addr = ( *addr & ~tblmask) - 1;
        else return status;
        for (i = 0; i < mystep.remain - 1; ++i) mystep.idx[i] = pf_table_size(pf, i) - 1;
        if (!mystep.idx[i]--) return NOTPRESENT;
        memcpy(step, &mystep, sizeof *step);
      }
      return NOTPRESENT;                                                     *)
Fixpoint hm_loop (rec : step -> N -> scanres) (k : nat) (limit tblmask : N)
         (mystep s : step) (addr : N) : scanres :=
  match k with
  | O => (NOFUEL, s, addr)
  | S k' =>
    if negb (limit <=? addr) then (NOTPRESENT, s, addr) else
    let '(st, s1) := internal_step s in
    let after (s2 : step) (addr2 : N) : scanres :=
      let i := (s_remain mystep - 1)%nat in
      match ones_below (fieldsz pf) (s_idx mystep) i with
      | None => (BADSHIFT, s2, addr2)
      | Some idx =>
        let v := nthN idx i in
        let mystep' := set_idx mystep (set_nth idx i (wsub v 1)) in
        if v =? 0 then (NOTPRESENT, s2, addr2)
        else hm_loop rec k' limit tblmask mystep' mystep' addr2
      end in
    match st with
    | OK =>
      if (s_remain s1 <=? 1)%nat then
        let '(st2, s2) := internal_step s1 in (st2, s2, addr)
      else
        let '(st2, s2, addr2) := rec s1 addr in
        match st2 with
        | NOTPRESENT => after s2 addr2
        | _ => (st2, s2, addr2)
        end
    | NOTPRESENT => after s1 (wsub (N.ldiff addr tblmask) 1)
    | _ => (st, s1, addr)
    end
  end.

Fixpoint highest_mapped_tbl (lf : nat) (limit : N) (s : step) (addr : N) : scanres :=
  match lf with
  | O => (NOFUEL, s, addr)
  | S lf' =>
    match s_remain s with
    | O => (OOB, s, addr)
    | S lvl =>
      match pf_table_mask pf lvl with
      | Some tblmask =>
          hm_loop (highest_mapped_tbl lf' limit) (S (N.to_nat (nthN (s_idx s) lvl))) limit
                  tblmask s s addr
      | None => (BADSHIFT, s, addr)
      end
    end
  end.

(** [highest_mapped]: [*addr |= page_mask; internal_launch(step, *addr); ..._tbl] *)
Definition highest_mapped (lf : nat) (addr limit : N) : scanres :=
  match pf_page_mask pf with
  | None => (BADSHIFT, init_step addr, addr)
  | Some page_mask =>
    let addr := N.lor addr page_mask in
    match addrxlat_launch m (init_step addr) addr with
    | (OK, s) => highest_mapped_tbl lf limit s addr
    | (st, s) => (st, s, addr)
    end
  end.

(** ** [lowest_unmapped_tbl]

      while ( *addr <= limit) {
        status = internal_step(step);
        if (status == NOTPRESENT) return OK;
        else if (status != OK) return status;
        if (step->remain > 1) { status = lowest_unmapped_tbl(step, addr, limit);
                                if (status != NOTPRESENT) return status; }
        else *addr = ( *addr | tblmask) + 1;
        for (i = 0; i < mystep.remain - 1; ++i) mystep.idx[i] = 0;
        if (++mystep.idx[i] >= nelem) break;
        memcpy(step, &mystep, sizeof *step);
      }
      return NOTPRESENT;                                                     *)
Fixpoint lu_loop (rec : step -> N -> scanres) (k : nat) (limit nelem tblmask : N)
         (mystep s : step) (addr : N) : scanres :=
  match k with
  | O => (NOFUEL, s, addr)
  | S k' =>
    if negb (addr <=? limit) then (NOTPRESENT, s, addr) else
    let '(st, s1) := internal_step s in
    let after (s2 : step) (addr2 : N) : scanres :=
      let i := (s_remain mystep - 1)%nat in
      let idx := zero_below (s_idx mystep) i in
      let v := wadd (nthN idx i) 1 in
      let mystep' := set_idx mystep (set_nth idx i v) in
      if nelem <=? v then (NOTPRESENT, s2, addr2)
      else lu_loop rec k' limit nelem tblmask mystep' mystep' addr2 in
    match st with
    | NOTPRESENT => (OK, s1, addr)
    | OK =>
      if (1 <? s_remain s1)%nat then
        let '(st2, s2, addr2) := rec s1 addr in
        match st2 with
        | NOTPRESENT => after s2 addr2
        | _ => (st2, s2, addr2)
        end
      else after s1 (wadd (N.lor addr tblmask) 1)
    | _ => (st, s1, addr)
    end
  end.

Fixpoint lowest_unmapped_tbl (lf : nat) (limit : N) (s : step) (addr : N) : scanres :=
  match lf with
  | O => (NOFUEL, s, addr)
  | S lf' =>
    match s_remain s with
    | O => (OOB, s, addr)
    | S lvl =>
      match pf_table_size lvl, pf_table_mask pf lvl with
      | Some nelem, Some tblmask =>
          lu_loop (lowest_unmapped_tbl lf' limit) (N.to_nat (nelem - nthN (s_idx s) lvl)) limit
                  nelem tblmask s s addr
      | _, _ => (BADSHIFT, s, addr)
      end
    end
  end.

Definition lowest_unmapped (lf : nat) (addr limit : N) : scanres :=
  match pf_page_mask pf with
  | None => (BADSHIFT, init_step addr, addr)
  | Some page_mask =>
    let addr := N.ldiff addr page_mask in
    match addrxlat_launch m (init_step addr) addr with
    | (OK, s) => lowest_unmapped_tbl lf limit s addr
    | (st, s) => (st, s, addr)
    end
  end.

(** ** [highest_linear]

      nextaddr = *addr; ret = NOTPRESENT;
      while ((status = lowest_mapped(step, &nextaddr, limit)) == OK) {
        faddr = KVADDR:nextaddr;
        status = internal_fulladdr_conv(&faddr, KPHYSADDR, ctx, sys);
        if (status != OK) return status;
        if (faddr.addr - nextaddr != off) break;
        status = lowest_unmapped(step, &nextaddr, limit);
        if (status != OK && status != NOTPRESENT) return status;
        *addr = nextaddr - 1; ret = OK;
      }
      return (status == OK || status == NOTPRESENT) ? ret : status;          *)
Variable kv2kphys : N -> status * N.

Fixpoint hl_loop (fuel lf : nat) (limit off : N) (nextaddr addr : N) (ret : status) : status * N :=
  match fuel with
  | O => (NOFUEL, addr)
  | S fuel' =>
    match lowest_mapped lf nextaddr limit with
    | (OK, _, nextaddr) =>
      match kv2kphys nextaddr with
      | (OK, p) =>
        if negb (wsub p nextaddr =? off) then (ret, addr) else
        match lowest_unmapped lf nextaddr limit with
        | (OK, _, nextaddr) | (NOTPRESENT, _, nextaddr) =>
            hl_loop fuel' lf limit off nextaddr (wsub nextaddr 1) OK
        | (st, _, _) => (st, addr)
        end
      | (st, _) => (st, addr)
      end
    | (NOTPRESENT, _, _) => (ret, addr)
    | (st, _, _) => (st, addr)
    end
  end.

Definition highest_linear (fuel lf : nat) (addr limit off : N) : status * N :=
  hl_loop fuel lf limit off addr addr NOTPRESENT.

End Scan.
