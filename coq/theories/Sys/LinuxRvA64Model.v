(** C08, models of the Linux set-up decisions of riscv64.c and aarch64.c
    ([sys_riscv64], [sys_aarch64]), over the same image, translation-system
    state and generic operation as the x86-64 model (Sys/LinuxX86Model.v).

    Both architectures find the linear mapping by scanning the kernel page
    table: riscv64 from PAGE_OFFSET up ([lowest_mapped], then [highest_linear]
    with the offset found there), aarch64 inside the half of the kernel range
    that the kernel version / [_stext] selects ([lowest_mapped] and
    [highest_mapped], and the two ends must have the same offset). *)
From Coq Require Import NArith ZArith List Bool Lia.
From KdV Require Import Base.Wrap64 Map.MapModel Xlat.Step Sys.LayoutModel Sys.ScanModel Sys.LinuxX86Model.
Import ListNotations.
Local Open Scope N_scope.

Section RvA64.
Variable img : image.
Variable hl_fuel : nat.

Definition ADDR_MASK (bits : N) : N := N.ones bits.

(** [direct_read_ok]: the read callback takes this address space and a read
    at the address succeeds *)
Definition direct_read_ok (fa : aspace * N) : bool :=
  rcaps img (fst fa) && match raw img (fst fa) (snd fa) with RdOk _ => true | RdErr _ => false end.

(** [get_linux_pgtroot] of both files (the number is [va_kernel_pa_offset] /
    [kimage_voffset]); the root is written as it goes *)
Definition get_linux_pgtroot (num : cbres) (root : aspace * N) : status * (aspace * N) :=
  match sym_swapper_pg_dir img with
  | CbErr e => (e, root)
  | CbOk v =>
    let root := (KVADDR, v) in
    if direct_read_ok root then (OK, root) else
    match num with
    | CbErr e => (e, root)
    | CbOk o => (OK, (KPHYSADDR, wsub v o))
    end
  end.

Definition s_highest_mapped (s : sys) (addr limit : N) : scanres :=
  highest_mapped (rd img s) (pgt_meth s) (pgt_pf s) lvl_fuel addr limit.

(** the tail of both [add_linux_linear_map]s: the direct method, the region in
    MAP_KV_PHYS, the reverse region in MAP_KPHYS_DIRECT *)
Definition install_linear (s : sys) (first last off rfirst rlast : N) : ostatus * sys :=
  let s1 := set_meth s METH_DIRECT (mk_linear KPHYSADDR (s64 off)) in
  match sys_set_layout s1 MAP_KV_PHYS
          [ {| r_first := first; r_last := last; r_meth := METH_DIRECT; r_act := ACT_NONE |} ] with
  | (L_OK, s2) =>
    match sys_set_layout s2 MAP_KPHYS_DIRECT
            [ {| r_first := rfirst; r_last := rlast; r_meth := METH_RDIRECT; r_act := ACT_RDIRECT |} ] with
    | (l, s3) => (ost_of_l l, s3)
    end
  | (l, s2) => (ost_of_l l, s2)
  end.

(** "the linear mapping is optional, but running out of memory must not be
    mistaken for no linear mapping" *)
Definition optional (r : ostatus * sys) : ostatus * sys :=
  match r with
  | (O_ST NOMEM, s) => (O_ST NOMEM, s)
  | (O_ST _, s) => (O_ST OK, s)
  | bad => bad
  end.

(** * riscv64.c *)

Definition RV_PHYSADDR_MASK : N := ADDR_MASK 56.

Definition rv_add_linux_linear_map (s : sys) : ostatus * sys :=
  match num_PAGE_OFFSET img with
  | CbErr e => (O_ST e, s)
  | CbOk po =>
    match s_lowest_mapped img s po MAXA with
    | (OK, st, first) =>
      let off := wsub (s_base st) first in
      match s_highest_linear img hl_fuel s first MAXA off with
      | (OK, last) => install_linear s first last off (wadd first off) (wadd last off)
      | (e, _) => (O_ST e, s)
      end
    | (e, _, _) => (O_ST e, s)
    end
  end.

Definition rv_map_linux (s : sys) : ostatus * sys :=
  match m_kind (pgt_meth s) with
  | KPgt ras raddr mask pf =>
    let '(st, root) := match i_rootpgt img with
                       | Some r => (OK, r)
                       | None => get_linux_pgtroot (num_va_kernel_pa_offset img) (ras, raddr)
                       end in
    let s1 := set_pgt s root mask pf in
    match st with
    | OK => optional (rv_add_linux_linear_map s1)
    | e => (O_ST e, s1)
    end
  | _ => (O_UNMODELLED, s)
  end.

Definition rv_get_virt_bits : status * N :=
  match i_virt_bits img with
  | Some v => (OK, v)
  | None =>
    match i_os img with
    | OS_LINUX => match num_VA_BITS img with CbOk v => (OK, v) | CbErr e => (e, 0) end
    | _ => (NOTIMPL, 0)
    end
  end.

Definition rv_fields (n : nat) : list N := firstn n [12; 9; 9; 9; 9; 9].

Definition sys_riscv64 : ostatus * sys :=
  let s0 := sys_new in
  let root := match i_rootpgt img with Some r => r | None => (NOADDR, 0) end in
  let pgt n := {| pte_format := PTE_RISCV64; fieldsz := rv_fields n |} in
  let s1 := set_pgt s0 root 0 (pgt 5%nat) in
  match rv_get_virt_bits with
  | (OK, vb) =>
    let nf := if vb =? 39 then Some 4%nat else if vb =? 48 then Some 5%nat
              else if vb =? 57 then Some 6%nat else None in
    match nf with
    | None => (O_ST NOTIMPL, s1)
    | Some n =>
      let s2 := set_pgt s1 root 0 (pgt n) in
      let endoff := ADDR_MASK (vb - 1) in
      match sys_set_layout s2 MAP_HW
              [ {| r_first := 0; r_last := endoff; r_meth := METH_PGT; r_act := ACT_NONE |};
                {| r_first := MAXA - endoff; r_last := MAXA; r_meth := METH_PGT; r_act := ACT_NONE |} ] with
      | (L_OK, s3) =>
        let s4 := set_map s3 MAP_KV_PHYS (get_map s3 MAP_HW) in
        match sys_set_physmaps s4 RV_PHYSADDR_MASK with
        | (L_OK, s5) =>
          match i_os img with
          | OS_LINUX => rv_map_linux s5
          | _ => (O_ST OK, s5)
          end
        | (l, s5) => (ost_of_l l, s5)
        end
      | (l, s3) => (ost_of_l l, s3)
      end
    end
  | (e, _) => (O_ST e, s1)
  end.

(** * aarch64.c *)

Definition A64_PHYSADDR_MASK : N := ADDR_MASK 52.
Definition VA_MAX_BITS : N := 52.

(** [linux_page_offset] *)
Definition a64_linux_page_offset (vb : N) : status * N :=
  let top := N.ldiff MAXA (ADDR_MASK vb) in
  let half := N.ldiff MAXA (ADDR_MASK (vb - 1)) in
  match sym_stext img with
  | CbOk stext => (OK, if half <=? stext then top else half)
  | CbErr NODATA =>
    match i_version img with
    | Some ver => (OK, if VER_LINUX 5 4 0 <=? ver then top else half)
    | None => (NODATA, 0)
    end
  | CbErr e => (e, 0)
  end.

Definition a64_add_linux_linear_map (vb : N) (s : sys) : ostatus * sys :=
  match a64_linux_page_offset vb with
  | (OK, po) =>
    let last0 := N.lor po (ADDR_MASK (vb - 1)) in
    match s_lowest_mapped img s po last0 with
    | (OK, st, first) =>
      let phys := s_base st in
      match s_highest_mapped s last0 first with
      | (OK, st2, last) =>
        if negb (wsub (s_base st2) phys =? wsub last first) then (O_ST NOTIMPL, s) else
        install_linear s first last (wsub phys first) phys (s_base st2)
      | (e, _, _) => (O_ST e, s)
      end
    | (e, _, _) => (O_ST e, s)
    end
  | (e, _) => (O_ST e, s)
  end.

Definition a64_map_linux (vb : N) (s : sys) : ostatus * sys :=
  match m_kind (pgt_meth s) with
  | KPgt ras raddr mask pf =>
    let '(st, root) := match i_rootpgt img with
                       | Some r => (OK, r)
                       | None => get_linux_pgtroot (num_kimage_voffset img) (ras, raddr)
                       end in
    let s1 := set_pgt s root mask pf in
    match st with
    | OK =>
      match sys_set_physmaps s1 A64_PHYSADDR_MASK with
      | (L_OK, s2) => optional (a64_add_linux_linear_map vb s2)
      | (l, s2) => (ost_of_l l, s2)
      end
    | e => (O_ST e, s1)
    end
  | _ => (O_UNMODELLED, s)
  end.

(** [determine_virt_bits] *)
Definition a64_virt_bits : status * N :=
  match i_virt_bits img with
  | Some v => (OK, v)
  | None =>
    match i_os img with
    | OS_LINUX =>
      match num_TCR_EL1_T1SZ img with
      | CbOk n => (OK, wsub 64 n)
      | CbErr NODATA => match num_VA_BITS img with CbOk v => (OK, v) | CbErr e => (e, 0) end
      | CbErr e => (e, 0)
      end
    | _ => (NOTIMPL, 0)
    end
  end.

(** the field sizes [init_pgt_meth] computes: the page offset, then
    [page_bits - 3] bits per level, the top level takes the rest *)
Fixpoint a64_fields_loop (fuel : nat) (page_bits num_bits field_bits : N) : option (list N) :=
  if num_bits =? 0 then Some [] else
  match fuel with
  | O => None                                  (* more than 8 fields: fieldsz[] overflows *)
  | S fuel' =>
    let num_bits' := num_bits - field_bits in
    let fb := page_bits - 3 in
    let fb := if num_bits' <? fb then num_bits' else fb in
    match a64_fields_loop fuel' page_bits num_bits' fb with
    | Some l => Some (field_bits :: l)
    | None => None
    end
  end.

Definition sys_aarch64 : ostatus * sys :=
  let s0 := sys_new in
  match i_page_shift img with
  | None => (O_ST NODATA, s0)
  | Some ps =>
    match a64_virt_bits with
    | (OK, vb) =>
      let va_min := if 16 <=? ps then ps + 1 else 16 in
      if (vb <? va_min) || (VA_MAX_BITS <? vb) then (O_ST NOTIMPL, s0) else
      if ps <? 4 then (O_UNMODELLED, s0) else             (* [page_bits - 3] must leave a field *)
      match a64_fields_loop 8 ps vb ps with
      | None => (O_UNMODELLED, s0)
      | Some fs =>
        let fmt := if vb <=? 48 then PTE_AARCH64 else if ps =? 16 then PTE_AARCH64_LPA else PTE_AARCH64_LPA2 in
        let s1 := set_pgt s0 (NOADDR, 0) 0 {| pte_format := fmt; fieldsz := fs |} in
        let s2 := set_meth s1 METH_UPGT (get_meth s1 METH_PGT) in
        let endoff := ADDR_MASK vb in
        match sys_set_layout s2 MAP_HW
                [ {| r_first := 0; r_last := endoff; r_meth := METH_UPGT; r_act := ACT_NONE |};
                  {| r_first := MAXA - endoff; r_last := MAXA; r_meth := METH_PGT; r_act := ACT_NONE |} ] with
        | (L_OK, s3) =>
          let s4 := set_map s3 MAP_KV_PHYS (get_map s3 MAP_HW) in
          match i_os img with
          | OS_LINUX => a64_map_linux vb s4
          | _ => (O_ST OK, s4)
          end
        | (l, s3) => (ost_of_l l, s3)
        end
      end
    | (e, _) => (O_ST e, s0)
    end
  end.

End RvA64.
