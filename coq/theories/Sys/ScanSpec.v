(** C08, specification of the page-table scanning primitives, as checks of a
    claimed answer against the architectural walk ([walk : N -> outcome], in
    the engine C02's [ArchSpec.spec_meth]) at a finite set of probe addresses.

    "mapped" = the architectural walk succeeds; "unmapped" = it reports
    not-present.  The answers are characterised as the property text says:
    the least (greatest) mapped address in the range, the least unmapped one,
    the end of the mapped-linearly run. *)
From Coq Require Import NArith ZArith List Bool.
From KdV Require Import Base.Wrap64 Xlat.Step.
Import ListNotations.
Local Open Scope N_scope.

Section Spec.
Variable walk : N -> outcome.

Definition mapped (a : N) : bool := match walk a with (OK, Some _) => true | _ => false end.
Definition unmapped (a : N) : bool := match walk a with (NOTPRESENT, _) => true | _ => false end.
Definition phys (a : N) : option N := match walk a with (OK, Some (_, p)) => Some p | _ => None end.

(** [lowest_mapped(start, limit)] answered [(st, r)] (page size [2^pshift]) *)
Definition check_lowest_mapped (pshift start limit : N) (probes : list N) (st : status) (r : N) : bool :=
  let start := start / 2^pshift * 2^pshift in
  match st with
  | OK => (start <=? r) && (r <=? limit) && mapped r &&
          forallb (fun p => negb ((start <=? p) && (p <? r)) || unmapped p) probes
  | NOTPRESENT => forallb (fun p => negb ((start <=? p) && (p <=? limit)) || unmapped p) probes
  | _ => false
  end.

(** [highest_mapped(start, limit)]: the greatest mapped address in [limit, start] *)
Definition check_highest_mapped (pshift start limit : N) (probes : list N) (st : status) (r : N) : bool :=
  let start := start / 2^pshift * 2^pshift + (2^pshift - 1) in
  match st with
  | OK => (limit <=? r) && (r <=? start) && mapped r &&
          forallb (fun p => negb ((r <? p) && (p <=? start)) || unmapped p) probes
  | NOTPRESENT => forallb (fun p => negb ((limit <=? p) && (p <=? start)) || unmapped p) probes
  | _ => false
  end.

(** [lowest_unmapped(start, limit)]: the least unmapped address in [start, limit] *)
Definition check_lowest_unmapped (pshift start limit : N) (probes : list N) (st : status) (r : N) : bool :=
  let start := start / 2^pshift * 2^pshift in
  match st with
  | OK => (start <=? r) && (r <=? limit) && unmapped r &&
          forallb (fun p => negb ((start <=? p) && (p <? r)) || mapped p) probes
  | NOTPRESENT => forallb (fun p => negb ((start <=? p) && (p <=? limit)) || mapped p) probes
  | _ => false
  end.

(** [highest_linear(start, limit, off)] ("assume that the whole range is
    linear": only the first address of every maximal mapped run is tested)
    answered [(OK, e)]: [e] ends a mapped run, and every mapped run that begins
    in [start, e] begins with an address mapped with offset [off];
    [(NOTPRESENT, _)]: the first mapped run at or above [start] (if any up to
    [limit]) does not begin that way *)
Definition linear_at (off a : N) : bool :=
  match phys a with Some p => wsub p a =? off | None => false end.

Definition run_head (start a : N) : bool :=
  mapped a && ((a <=? start) || unmapped (a - 1)).

Definition check_highest_linear (start limit off : N) (probes : list N) (st : status) (e : N) : bool :=
  match st with
  | OK => (start <=? e) && mapped e &&
          forallb (fun p => negb ((start <=? p) && (p <=? e)) || negb (run_head start p) || linear_at off p) probes &&
          (if e <? limit then unmapped (e + 1) else true)
  | NOTPRESENT =>
      forallb (fun p =>
                 negb ((start <=? p) && (p <=? limit)) ||
                 negb (mapped p && linear_at off p) ||
                 (* a linear mapped probe may only sit behind a mapped run that does not begin linearly *)
                 existsb (fun q => (start <=? q) && (q <? p) && run_head start q && negb (linear_at off q)) probes)
              probes
  | _ => false
  end.
End Spec.
