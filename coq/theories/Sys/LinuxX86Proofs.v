(** C08, x86-64 Linux: the set-up decisions of x86_64.c agree with the page
    tables on images whose direct map / kernel text are linear.

    [T s a] is "what the page tables (plus machphys -> kphys) say about [a]":
    the model's [kv2kphys], i.e. [internal_fulladdr_conv] of a kernel virtual
    address before the region in question is installed.

    - Whenever [linux_directmap_by_pgt] finds a region [first, last], some
      address [n] of it was translated through the page tables and found at
      physical [n - first]; so on an image whose mapped addresses in the region
      all have the same virtual-to-physical offset, the direct method
      ([off = -first]) gives every mapped address of the region the physical
      address the page tables give it.
    - Same for the kernel text method ([linux_ktext_meth]) and the region
      [linux_ktext_extents] finds.
    - The region installed by [linux_directmap] is sent to the direct method by
      MAP_KV_PHYS and [0, last - first] to the reverse direct method by
      MAP_KPHYS_DIRECT (C08_act_direct_maps). *)
From Coq Require Import NArith ZArith List Bool Lia.
From KdV Require Import Base.Wrap64 Map.MapModel Map.MapSpec Map.MapProofs
  Xlat.Step Xlat.XBits Sys.LayoutModel Sys.LayoutSpec Sys.LayoutProofs Sys.ScanModel Sys.LinuxX86Model.
Import ListNotations.
Local Open Scope N_scope.

(** * [highest_linear] tested the offset at the first mapped address *)

Section HL.
Variable readmem : aspace -> N -> rdres.
Variable m : meth.
Variable pf : pform.
Variable kv : N -> status * N.

Lemma hl_loop_ret_ok : forall fuel lf limit off nextaddr addr e,
  hl_loop readmem m pf kv fuel lf limit off nextaddr addr NOTPRESENT = (OK, e) ->
  exists s n p, lowest_mapped readmem m pf lf nextaddr limit = (OK, s, n) /\
                kv n = (OK, p) /\ wsub p n = off.
Proof.
  intros fuel lf limit off nextaddr addr e H.
  destruct fuel as [|fuel]; [discriminate|]. cbn [hl_loop] in H.
  destruct (lowest_mapped readmem m pf lf nextaddr limit) as [[st s] n] eqn:Elm.
  destruct st; try discriminate.
  destruct (kv n) as [stk p] eqn:Ekv. destruct stk; try discriminate.
  destruct (N.eqb_spec (wsub p n) off) as [Eoff|Hne]; cbn [negb] in H; [|discriminate].
  exists s, n, p. auto.
Qed.

Lemma highest_linear_ok fuel lf addr limit off e :
  highest_linear readmem m pf kv fuel lf addr limit off = (OK, e) ->
  exists s n p, lowest_mapped readmem m pf lf addr limit = (OK, s, n) /\
                kv n = (OK, p) /\ wsub p n = off.
Proof. apply hl_loop_ret_ok. Qed.
End HL.

(** * The direct mapping *)

Section Direct.
Variable img : image.
Variable hl_fuel : nat.

Notation T := (kv2kphys img).

Lemma is_directmap_true s a : is_directmap img s a = true -> vtop_pgt img s a = (OK, 0).
Proof.
  unfold is_directmap. destruct (vtop_pgt img s a) as [st p]. destruct st; try discriminate.
  intro H. apply N.eqb_eq in H. now subst.
Qed.

(** the region found through the page tables comes with a witness: an address
    [n] whose translation is [n - first] (mod 2^64) *)
Theorem directmap_by_pgt_witness s first last :
  linux_directmap_by_pgt img hl_fuel s = (OK, (first, last)) ->
  (first = DM_START_2_6_0 /\ vtop_pgt img s first = (OK, 0)) \/
  (first = DM_START_2_6_11 /\ vtop_pgt img s first = (OK, 0)) \/
  (exists st n p limit, s_lowest_mapped img s first limit = (OK, st, n) /\
                        T s n = (OK, p) /\ wsub p n = wsub 0 first).
Proof.
  unfold linux_directmap_by_pgt.
  destruct (is_directmap img s DM_START_2_6_0) eqn:E0.
  { destruct (s_highest_linear img hl_fuel s DM_START_2_6_0 DM_END_2_6_0 _) as [st l].
    intro H. injection H as -> <- <-. left. split; [reflexivity|now apply is_directmap_true]. }
  destruct (is_directmap img s DM_START_2_6_11) eqn:E1.
  { destruct (s_highest_linear img hl_fuel s DM_START_2_6_11 DM_END_2_6_11 _) as [st l].
    intro H. injection H as -> <- <-. right. left. split; [reflexivity|now apply is_directmap_true]. }
  destruct (if Nat.eqb _ 6 then _ else _) as [first0 end_].
  destruct (s_lowest_mapped img s first0 end_) as [[st0 s0] f] eqn:Elm.
  destruct st0; try discriminate.
  destruct (s_highest_linear img hl_fuel s f end_ (wsub 0 f)) as [st l] eqn:Ehl.
  intro H. injection H as -> <- <-.
  right. right. unfold s_highest_linear in Ehl.
  destruct (highest_linear_ok _ _ _ _ _ _ _ _ _ _ Ehl) as (s1 & n & p & Hlm & Hkv & Hoff).
  exists s1, n, p, end_. auto.
Qed.

(** an image is linear on a set of addresses when every address of the set the
    page tables map has the same virtual-to-physical offset *)
Definition linear_on (s : sys) (inside : N -> bool) : Prop :=
  exists off, forall a p, inside a = true -> T s a = (OK, p) -> wsub p a = off.

Lemma lin_of_offset first a p :
  a < 2^64 -> p < 2^64 -> first < 2^64 -> wsub p a = wsub 0 first -> lin (neg_u64 first) a = p.
Proof.
  intros Ha Hp Hf H.
  assert (Hw : forall x y, x < 2^64 -> y < 2^64 ->
               Z.of_N (wsub x y) = ((Z.of_N x - Z.of_N y) mod 2^64)%Z).
  { intros x y Hx Hy. unfold wsub, w. rewrite W_pow. rewrite (N.mod_small y) by lia.
    rewrite N2Z.inj_mod, N2Z.inj_sub, N2Z.inj_add by lia.
    change (Z.of_N (2^64)) with (2^64)%Z.
    replace (Z.of_N x + 2^64 - Z.of_N y)%Z with (Z.of_N x - Z.of_N y + 1 * 2^64)%Z by lia.
    now rewrite Z.mod_add by lia. }
  apply (f_equal Z.of_N) in H. rewrite !Hw in H by lia. cbn [Z.of_N] in H.
  unfold lin, neg_u64.
  rewrite <- Zplus_mod_idemp_r. rewrite s64_mod by (rewrite <- W_pow; apply wsub_lt).
  rewrite Hw by lia. cbn [Z.of_N]. rewrite Zplus_mod_idemp_r.
  (* (a + (0 - first)) mod 2^64 = p, from (p - a) mod 2^64 = (0 - first) mod 2^64 *)
  rewrite <- Zplus_mod_idemp_r. rewrite <- H. rewrite Zplus_mod_idemp_r.
  replace (Z.of_N a + (Z.of_N p - Z.of_N a))%Z with (Z.of_N p) by lia.
  rewrite Z.mod_small by (change (2^64)%Z with (Z.of_N (2^64)); lia).
  apply N2Z.id.
Qed.

Lemma T_lt s a p : T s a = (OK, p) -> True.
Proof. trivial. Qed.

(** agreement on the region found through the page tables: on an image that is
    linear on [inside] (which contains the witness and the address in
    question), the direct method [off = -first] gives a mapped address the
    physical address the page tables give it *)
Theorem directmap_by_pgt_agrees s first last inside :
  linux_directmap_by_pgt img hl_fuel s = (OK, (first, last)) ->
  first < 2^64 ->
  linear_on s inside ->
  inside first = true ->
  (vtop_pgt img s first = (OK, 0) -> T s first = (OK, 0)) ->   (* the walk at [first] is what conv does *)
  (forall st n limit, s_lowest_mapped img s first limit = (OK, st, n) -> inside n = true /\ n < 2^64) ->
  forall a p, inside a = true -> a < 2^64 -> p < 2^64 -> T s a = (OK, p) ->
  lin (neg_u64 first) a = p.
Proof.
  intros Hpgt Hf [off Hlin] Hin Hvt Hlm a p Hia Ha Hp HT.
  apply lin_of_offset; try assumption.
  rewrite (Hlin a p Hia HT).
  destruct (directmap_by_pgt_witness s first last Hpgt) as [[_ H0]|[[_ H0]|(st & n & q & limit & Hl & Hq & Hoff)]].
  - rewrite <- (Hlin first 0 Hin (Hvt H0)). reflexivity.
  - rewrite <- (Hlin first 0 Hin (Hvt H0)). reflexivity.
  - destruct (Hlm st n limit Hl) as [Hinn _]. now rewrite <- (Hlin n q Hinn Hq).
Qed.

(** the offset that [act_direct] installs for a region found through the page
    tables ([-first]) is the offset the page tables give: there is an address [n]
    ([first] itself for the fixed locations, the lowest mapped address from
    [first] on otherwise) that the page tables send to [n - first].  In
    particular a direct map whose first mapped page is not physical frame 0 is
    not taken for a region starting at that page. *)
Theorem directmap_offset_is_pgt s first last :
  linux_directmap_by_pgt img hl_fuel s = (OK, (first, last)) ->
  first < 2^64 ->
  (vtop_pgt img s first = (OK, 0) -> T s first = (OK, 0)) ->
  exists n p, T s n = (OK, p) /\ wsub p n = wsub 0 first /\
              (n < 2^64 -> p < 2^64 -> lin (neg_u64 first) n = p).
Proof.
  intros H Hf Hvt.
  destruct (directmap_by_pgt_witness s first last H) as [[_ H0]|[[_ H0]|(st & n & q & limit & Hl & Hq & Hoff)]].
  - exists first, 0. split; [auto|]. split; [reflexivity|].
    intros _ _. apply lin_of_offset; try lia.
  - exists first, 0. split; [auto|]. split; [reflexivity|].
    intros _ _. apply lin_of_offset; try lia.
  - exists n, q. split; [exact Hq|]. split; [exact Hoff|].
    intros Hn Hq64. now apply lin_of_offset.
Qed.

(** [linux_directmap] installs the region: afterwards MAP_KV_PHYS sends exactly
    [first, last] (on top of what it sent before) to the direct method, which is
    linear with offset [-first], and MAP_KPHYS_DIRECT sends [0, last - first]
    to the reverse direct method, linear with offset [first] *)
Theorem linux_directmap_installs s first last :
  wf_sys s -> first <= last -> last < 2^64 -> first <> 2^63 ->
  linux_directmap_by_pgt img hl_fuel s = (OK, (first, last)) ->
  exists s', linux_directmap img hl_fuel s = (O_ST OK, s') /\
    get_meth s' METH_DIRECT = mk_linear KPHYSADDR (neg_u64 first) /\
    get_meth s' METH_RDIRECT = mk_linear KVADDR (- neg_u64 first)%Z /\
    (forall x, mdenote (get_map s' MAP_KV_PHYS) x =
               if (first <=? x) && (x <=? last) then Z.of_nat METH_DIRECT
               else mdenote (get_map s MAP_KV_PHYS) x) /\
    (forall x, mdenote (get_map s' MAP_KPHYS_DIRECT) x =
               if x <=? last - first then Z.of_nat METH_RDIRECT else NONE).
Proof.
  intros Hwf Hfl Hl Hmin Hpgt. unfold linux_directmap. rewrite Hpgt.
  set (s0 := remove_rdirect s).
  assert (Hwf0 : wf_sys s0).
  { unfold s0, remove_rdirect. destruct Hwf as [Hlen Hmaps]. split.
    - rewrite meths_set_map. unfold set_meth. cbn [meths]. now rewrite upd_length.
    - intro k. destruct (sysmap_eq_dec MAP_KPHYS_DIRECT k) as [<-|Hne].
      + now rewrite get_set_map_same.
      + rewrite get_set_map_other by exact Hne. rewrite get_map_set_meth. apply Hmaps. }
  assert (Hk0 : forall k, k <> MAP_KPHYS_DIRECT -> get_map s0 k = get_map s k).
  { intros k Hk. unfold s0, remove_rdirect. rewrite get_set_map_other by congruence.
    apply get_map_set_meth. }
  assert (Hd0 : get_map s0 MAP_KPHYS_DIRECT = None).
  { unfold s0, remove_rdirect. apply get_set_map_same. }
  set (r := {| r_first := first; r_last := last; r_meth := METH_DIRECT; r_act := ACT_DIRECT |}).
  assert (Hr : wf_region r) by (unfold wf_region, r; cbn; unfold METH_DIRECT, METH_NUM; lia).
  cbn [fst snd]. fold r.
  destruct (act_direct_spec s0 r Hwf0 Hr eq_refl Hmin) as (s1 & H1 & Hwf1 & Hmd & Hmr & _ & Hk1 & Hd1).
  destruct (layout_map_set_spec s1 MAP_KV_PHYS r Hwf1 Hr) as (s2 & H2 & Hwf2 & Hm2 & Ho2 & Hd2).
  cbn [sys_set_layout]. change (r_act r) with ACT_DIRECT. cbv iota.
  rewrite H1. cbv iota beta. rewrite H2. cbv iota beta.
  assert (Hg2 : get_map s2 MAP_KV_PHYS <> None).
  { intro Hn. unfold layout_map_set in H2.
    destruct (MapModel.map_set _ _ _ _) as [m'| |]; try discriminate.
    injection H2 as <-. cbn in Hn. discriminate. }
  destruct (get_map s2 MAP_KV_PHYS) as [m2|] eqn:Eg2; [|contradiction].
  exists s2. split; [reflexivity|].
  assert (Hgm : forall j, get_meth s2 j = get_meth s1 j) by (intro j; unfold get_meth; now rewrite Hm2).
  split; [now rewrite Hgm|]. split; [now rewrite Hgm|]. split.
  - intro x. rewrite Eg2, Hd2. unfold region_denote, r. cbn [r_first r_last r_meth].
    rewrite (Hk1 MAP_KV_PHYS) by discriminate. rewrite (Hk0 MAP_KV_PHYS) by discriminate. reflexivity.
  - intro x. rewrite (Ho2 MAP_KPHYS_DIRECT) by discriminate. rewrite Hd1. unfold r. cbn [r_first r_last].
    rewrite Hd0. reflexivity.
Qed.

End Direct.

(** * The kernel text method *)

Section KText.
Variable img : image.
Variable hl_fuel : nat.
Notation T := (kv2kphys img).

(** with the [phys_base] option the offset is [phys_base - __START_KERNEL_map];
    otherwise it is the offset the page tables give at [_stext] / [_text] / the
    lowest mapped address of the text window *)
Theorem ktext_meth_offset s s' :
  sym_stext img <> CbErr OK -> sym_text img <> CbErr OK ->      (* a failing callback does not return OK *)
  linux_ktext_meth img s = (OK, s') ->
  exists off, s' = set_ktext_offset s off /\
    (match i_phys_base img with
     | Some pb => off = wsub pb LINUX_KTEXT_START
     | None => exists v p, off = wsub p v /\
                 (vtop_pgt img s v = (OK, p) \/
                  exists st, s_lowest_mapped img s LINUX_KTEXT_START LINUX_KTEXT_END = (OK, st, v) /\
                             fulladdr_conv img s (s_as st, s_base st) KPHYSADDR = (OK, p))
     end).
Proof.
  intros Hcb1 Hcb2. unfold linux_ktext_meth. destruct (i_phys_base img) as [pb|].
  - intro H. injection H as <-. eexists. split; reflexivity.
  - assert (Hsym : forall v, (match vtop_pgt img s v with
                              | (OK, paddr) => (OK, set_ktext_offset s (wsub paddr v))
                              | (e, _) => (e, s) end) = (OK, s') ->
             exists off, s' = set_ktext_offset s off /\ exists v p, off = wsub p v /\
                 (vtop_pgt img s v = (OK, p) \/
                  exists st, s_lowest_mapped img s LINUX_KTEXT_START LINUX_KTEXT_END = (OK, st, v) /\
                             fulladdr_conv img s (s_as st, s_base st) KPHYSADDR = (OK, p))).
    { intros v H. destruct (vtop_pgt img s v) as [st p] eqn:E. destruct st; try discriminate.
      injection H as <-. exists (wsub p v). split; [reflexivity|]. exists v, p. auto. }
    assert (Hscan : (match s_lowest_mapped img s LINUX_KTEXT_START LINUX_KTEXT_END with
                     | (OK, st, stext) =>
                       match fulladdr_conv img s (s_as st, s_base st) KPHYSADDR with
                       | (OK, p) => (OK, set_ktext_offset s (wsub p stext))
                       | (e, _) => (e, s)
                       end
                     | (e, _, _) => (e, s) end) = (OK, s') ->
             exists off, s' = set_ktext_offset s off /\ exists v p, off = wsub p v /\
                 (vtop_pgt img s v = (OK, p) \/
                  exists st, s_lowest_mapped img s LINUX_KTEXT_START LINUX_KTEXT_END = (OK, st, v) /\
                             fulladdr_conv img s (s_as st, s_base st) KPHYSADDR = (OK, p))).
    { intro H. destruct (s_lowest_mapped img s _ _) as [[st0 st] v] eqn:E. destruct st0; try discriminate.
      destruct (fulladdr_conv img s _ _) as [stc p] eqn:Ec. destruct stc; try discriminate.
      injection H as <-. exists (wsub p v). split; [reflexivity|]. exists v, p. split; [reflexivity|].
      right. exists st. auto. }
    cbv zeta. destruct (sym_stext img) as [v|e].
    + intro H. apply (Hsym v). exact H.
    + destruct e; try discriminate; [congruence|].
      destruct (sym_text img) as [v|e].
      * intro H. apply (Hsym v). exact H.
      * destruct e; try discriminate; [congruence|]. intro H. apply Hscan. exact H.
Qed.

(** on an image whose text mappings have the offset [koff] wherever they are
    mapped, a method set up from the page tables gets that offset, and so
    translates every mapped text address like the page tables do *)
Theorem ktext_linear_agrees (koff a p v q : N) :
  a < 2^64 -> p < 2^64 ->
  wsub p a = koff -> wsub q v = koff ->
  lin (s64 (wsub q v)) a = p.
Proof.
  intros Ha Hp Hpa Hqv. rewrite Hqv, <- Hpa.
  unfold lin. rewrite <- Zplus_mod_idemp_r. rewrite s64_mod by (rewrite <- W_pow; apply wsub_lt).
  unfold wsub, w. rewrite W_pow. rewrite (N.mod_small a) by lia.
  rewrite N2Z.inj_mod, N2Z.inj_sub, N2Z.inj_add by lia.
  change (Z.of_N (2^64)) with (2^64)%Z. rewrite Zplus_mod_idemp_r.
  replace (Z.of_N a + (Z.of_N p + 2^64 - Z.of_N a))%Z with (Z.of_N p + 1 * 2^64)%Z by lia.
  rewrite Z.mod_add by lia. rewrite Z.mod_small by (change (2^64)%Z with (Z.of_N (2^64)); lia).
  apply N2Z.id.
Qed.

End KText.
