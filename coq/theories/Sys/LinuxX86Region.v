(** C08, x86-64 Linux: on a canonical image the page-table scans of
    [linux_directmap_by_pgt] find the whole direct-mapping region.

    "Canonical" = in the window the code searches, the kernel page table (an
    x86-64 one, walked architecturally: Xlat.ArchSpec) maps exactly one run
    [base, top_] of whole pages.  Then an [OK] answer of
    [linux_directmap_by_pgt] is exactly [(base, top_)], the first address of the
    run was found at physical [0] by the page tables, and, when the run is
    mapped linearly, the direct method installed by [linux_directmap] sends
    every address of the run where the page tables send it.

    This rests on the full specifications of the scans (Sys.ScanProofs:
    [lowest_mapped] answers the least mapped address, [lowest_unmapped] the
    least unmapped one, [highest_linear] walks the mapped runs) and on the
    decision-level theorems of Sys.LinuxX86Proofs. *)
From Coq Require Import NArith ZArith List Bool Lia.
From KdV Require Import Base.Wrap64 Map.MapModel Map.MapSpec Map.MapProofs
  Xlat.Step Xlat.XBits Xlat.ArchSpec Xlat.FmtX86
  Sys.LayoutModel Sys.LayoutSpec Sys.LayoutProofs Sys.ScanModel Sys.ScanProofs
  Sys.LinuxX86Model Sys.LinuxX86Proofs.
Import ListNotations.
Local Open Scope N_scope.

Section Region.
Variable img : image.
Variable hl_fuel : nat.
Notation T := (kv2kphys img).

(** the window [first0, end_] that [linux_directmap_by_pgt] looks at, and
    whether its start is taken as the start of the region without a scan *)
Definition dm_window (s : sys) : N * N * bool :=
  if is_directmap img s DM_START_2_6_0 then (DM_START_2_6_0, DM_END_2_6_0, true)
  else if is_directmap img s DM_START_2_6_11 then (DM_START_2_6_11, DM_END_2_6_11, true)
  else if Nat.eqb (length (fieldsz (pgt_pf s))) 6 then (DM_START_5LEVEL, DM_END_5LEVEL, false)
  else (DM_START_2_6_31, DM_END_2_6_31, false).

Record canonical_dm (s : sys) (ras : aspace) (root mask : N) (pf : pform) (tgt : aspace)
       (base top_ : N) : Prop := {
  cd_meth : pgt_meth s = {| m_kind := KPgt ras root mask pf; m_target := tgt |};
  cd_fmt : pte_format pf = PTE_X86_64;
  cd_form : x86_64_form (fieldsz pf);
  cd_rd : forall a x, rd img s a x <> RdErr OK;
  cd_first : fst (fst (dm_window s)) <= base;
  cd_fixed : snd (dm_window s) = true -> base = fst (fst (dm_window s));
  cd_le : base <= top_;
  cd_end : top_ < snd (fst (dm_window s));
  cd_base_al : base mod 2^12 = 0;
  cd_top_al : (top_ + 1) mod 2^12 = 0;
  cd_below : forall a, fst (fst (dm_window s)) <= a -> a < base ->
             x86_unmapped (rd img s) tgt mask pf ras root a;
  cd_run : forall a, base <= a -> a <= top_ -> x86_mapped (rd img s) tgt mask pf ras root a;
  cd_above : forall a, top_ < a -> a <= snd (fst (dm_window s)) ->
             x86_unmapped (rd img s) tgt mask pf ras root a
}.

Lemma window_facts s pf : pgt_pf s = pf -> x86_64_form (fieldsz pf) ->
  let w := dm_window s in
  fst (fst w) mod 2^12 = 0 /\ fst (fst w) < 2^64 /\ snd (fst w) < 2^64 /\
  fst (fst w) / 2^(total (fieldsz pf)) = snd (fst w) / 2^(total (fieldsz pf)).
Proof.
  intros Hpf Hform. unfold dm_window. rewrite Hpf.
  destruct (is_directmap img s DM_START_2_6_0);
    [destruct Hform as [-> | ->]; vm_compute; auto|].
  destruct (is_directmap img s DM_START_2_6_11);
    [destruct Hform as [-> | ->]; vm_compute; auto|].
  destruct Hform as [-> | ->]; vm_compute; auto.
Qed.

Lemma pgt_pf_of s ras root mask pf tgt :
  pgt_meth s = {| m_kind := KPgt ras root mask pf; m_target := tgt |} -> pgt_pf s = pf.
Proof. intro H. unfold pgt_pf. now rewrite H. Qed.

(** the scans find the run *)
Lemma hl_finds s ras root mask pf tgt first0 base top_ end_ off e :
  pgt_meth s = {| m_kind := KPgt ras root mask pf; m_target := tgt |} ->
  pte_format pf = PTE_X86_64 -> x86_64_form (fieldsz pf) ->
  (forall a x, rd img s a x <> RdErr OK) ->
  first0 <= base -> base <= top_ -> top_ < end_ -> end_ < 2^64 ->
  first0 / 2^(total (fieldsz pf)) = end_ / 2^(total (fieldsz pf)) ->
  base mod 2^12 = 0 -> (top_ + 1) mod 2^12 = 0 ->
  (forall a, base <= a -> a <= top_ -> x86_mapped (rd img s) tgt mask pf ras root a) ->
  (forall a, top_ < a -> a <= end_ -> x86_unmapped (rd img s) tgt mask pf ras root a) ->
  s_highest_linear img hl_fuel s base end_ off = (OK, e) ->
  e = top_ /\ exists p, T s base = (OK, p) /\ wsub p base = off.
Proof.
  intros Hm Hfmt Hform Hrd H0 H1 H2 H3 Hspan Hb Ht Hmp Hup Hhl.
  unfold s_highest_linear in Hhl. rewrite (pgt_pf_of _ _ _ _ _ _ Hm), Hm in Hhl.
  apply (x86_64_highest_linear_single_run (rd img s) tgt mask pf ras root end_ (T s) off
           hl_fuel lvl_fuel base top_ e); try assumption.
  assert (Hs1 : base / 2^(total (fieldsz pf)) = first0 / 2^(total (fieldsz pf)))
    by (apply (div_sandwich _ first0 base end_); lia).
  assert (Hs2 : (top_ + 1) / 2^(total (fieldsz pf)) = first0 / 2^(total (fieldsz pf)))
    by (apply (div_sandwich _ first0 (top_ + 1) end_); lia).
  congruence.
Qed.

(** ** The region found is the whole run *)
Theorem directmap_by_pgt_finds s ras root mask pf tgt base top_ first last :
  canonical_dm s ras root mask pf tgt base top_ ->
  linux_directmap_by_pgt img hl_fuel s = (OK, (first, last)) ->
  first = base /\ last = top_ /\ exists p, T s base = (OK, p) /\ wsub p base = wsub 0 base.
Proof.
  intros [Hm Hfmt Hform Hrd Hfirst Hfixed Hle Hend Hbal Htal Hbelow Hrun Habove] H.
  pose proof (pgt_pf_of _ _ _ _ _ _ Hm) as Hpf.
  pose proof (window_facts s pf Hpf Hform) as Hw. cbv zeta in Hw.
  unfold linux_directmap_by_pgt in H. unfold dm_window in *.
  destruct (is_directmap img s DM_START_2_6_0).
  { cbn [fst snd] in *. specialize (Hfixed eq_refl). subst base.
    destruct Hw as (W0 & W1 & W2 & W3).
    destruct (s_highest_linear img hl_fuel s DM_START_2_6_0 DM_END_2_6_0 _) as [st l] eqn:Ehl.
    injection H as -> <- <-. split; [reflexivity|].
    eapply hl_finds; try eassumption; lia. }
  destruct (is_directmap img s DM_START_2_6_11).
  { cbn [fst snd] in *. specialize (Hfixed eq_refl). subst base.
    destruct Hw as (W0 & W1 & W2 & W3).
    destruct (s_highest_linear img hl_fuel s DM_START_2_6_11 DM_END_2_6_11 _) as [st l] eqn:Ehl.
    injection H as -> <- <-. split; [reflexivity|].
    eapply hl_finds; try eassumption; lia. }
  destruct (if Nat.eqb _ 6 then _ else _) as [[first0 end_] fixed] eqn:Ewin.
  assert (Ewin' : (if Nat.eqb (length (fieldsz (pgt_pf s))) 6
                   then (DM_START_5LEVEL, DM_END_5LEVEL) else (DM_START_2_6_31, DM_END_2_6_31))
                  = (first0, end_)).
  { destruct (Nat.eqb _ 6); injection Ewin as <- <- _; reflexivity. }
  rewrite Ewin' in H. cbn [fst snd] in *. destruct Hw as (W0 & W1 & W2 & W3).
  destruct (s_lowest_mapped img s first0 end_) as [[st0 s0] f] eqn:Elm.
  destruct st0; try discriminate.
  assert (f = base).
  { unfold s_lowest_mapped in Elm. rewrite Hpf, Hm in Elm.
    apply (x86_64_lowest_mapped_finds (rd img s) tgt mask pf ras root end_ lvl_fuel first0 base s0 f);
      try assumption. apply Hrun; lia. }
  subst f.
  destruct (s_highest_linear img hl_fuel s base end_ (wsub 0 base)) as [st l] eqn:Ehl.
  injection H as -> <- <-. split; [reflexivity|].
  eapply hl_finds; try eassumption.
Qed.

(** ** Agreement on the whole region

    On a canonical image whose run is mapped linearly (every address of the
    run that translates has the same virtual-to-physical offset), a successful
    scan makes [linux_directmap] install exactly the run: MAP_KV_PHYS sends
    [base, top_] to the direct method and MAP_KPHYS_DIRECT sends
    [0, top_ - base] to the reverse direct method; the direct method sends
    every address of the run to the physical address the page tables give it,
    and the reverse method sends that physical address back. *)
Theorem linux_directmap_agrees s ras root mask pf tgt base top_ first last :
  wf_sys s ->
  canonical_dm s ras root mask pf tgt base top_ ->
  (exists off, forall a p, base <= a -> a <= top_ -> T s a = (OK, p) -> wsub p a = off) ->
  linux_directmap_by_pgt img hl_fuel s = (OK, (first, last)) ->
  first = base /\ last = top_ /\
  exists s', linux_directmap img hl_fuel s = (O_ST OK, s') /\
    get_meth s' METH_DIRECT = mk_linear KPHYSADDR (neg_u64 base) /\
    get_meth s' METH_RDIRECT = mk_linear KVADDR (- neg_u64 base)%Z /\
    (forall x, mdenote (get_map s' MAP_KV_PHYS) x =
               if (base <=? x) && (x <=? top_) then Z.of_nat METH_DIRECT
               else mdenote (get_map s MAP_KV_PHYS) x) /\
    (forall x, mdenote (get_map s' MAP_KPHYS_DIRECT) x =
               if x <=? top_ - base then Z.of_nat METH_RDIRECT else NONE) /\
    (forall a p, base <= a -> a <= top_ -> p < 2^64 -> T s a = (OK, p) ->
       lin (neg_u64 base) a = p /\ lin (- neg_u64 base) p = a).
Proof.
  intros Hwf C [off Hlin] H.
  destruct (directmap_by_pgt_finds s ras root mask pf tgt base top_ first last C H)
    as (-> & -> & p0 & Hp0 & Hoff0).
  split; [reflexivity|]. split; [reflexivity|].
  pose proof (window_facts s pf (pgt_pf_of _ _ _ _ _ _ (cd_meth _ _ _ _ _ _ _ _ C)) (cd_form _ _ _ _ _ _ _ _ C)) as Hw.
  cbv zeta in Hw. destruct Hw as (_ & _ & Hend64 & _).
  pose proof (cd_le _ _ _ _ _ _ _ _ C) as Hle. pose proof (cd_end _ _ _ _ _ _ _ _ C) as Hend.
  assert (Hb63 : base <> 2^63).
  { (* at [base = 2^63] the offset [-base] is not representable; no window starts there *)
    pose proof (cd_first _ _ _ _ _ _ _ _ C) as Hf. pose proof (cd_fixed _ _ _ _ _ _ _ _ C) as Hfx.
    unfold dm_window in *.
    destruct (is_directmap img s DM_START_2_6_0);
      [cbn [fst snd] in *; rewrite (Hfx eq_refl); vm_compute; discriminate|].
    destruct (is_directmap img s DM_START_2_6_11);
      [cbn [fst snd] in *; rewrite (Hfx eq_refl); vm_compute; discriminate|].
    destruct (Nat.eqb _ 6); cbn [fst snd] in *; intro E; rewrite E in Hf; vm_compute in Hf; now apply Hf. }
  destruct (linux_directmap_installs img hl_fuel s base top_ Hwf Hle ltac:(lia) Hb63 H)
    as (s' & Hs' & Hd & Hr & Hkv & Hkd).
  exists s'. repeat split; try assumption.
  - apply lin_of_offset; try lia. rewrite (Hlin a p H0 H1 H3).
    rewrite <- (Hlin base p0 ltac:(lia) Hle Hp0). exact Hoff0.
  - assert (Hfw : lin (neg_u64 base) a = p).
    { apply lin_of_offset; try lia. rewrite (Hlin a p H0 H1 H3).
      rewrite <- (Hlin base p0 ltac:(lia) Hle Hp0). exact Hoff0. }
    rewrite <- Hfw. apply lin_inverse. lia.
Qed.

End Region.

(** * The kernel text region

    [linux_ktext_extents] looks for the text in [LINUX_KTEXT_START,
    LINUX_KTEXT_END] with the offset the kernel-text method already has.  In
    general the region it answers is NOT a subset of what the page tables map
    linearly: [highest_linear] tests the first address of every mapped run only,
    and the region spans the unmapped gaps between runs.  On a canonical image
    (one run [base, top_] of whole pages in the window, below the no-KASLR end)
    it is exactly the run; and if the run is mapped with the method's offset,
    the method agrees with the page tables on all of it. *)
Section KText.
Variable img : image.
Variable hl_fuel : nat.
Notation T := (kv2kphys img).

Lemma lin_of_linearoff d a p :
  a < 2^64 -> p < 2^64 -> wsub p a = Z.to_N (d mod 2^64)%Z -> lin d a = p.
Proof.
  intros Ha Hp H. apply (f_equal Z.of_N) in H.
  assert (Hw : Z.of_N (wsub p a) = ((Z.of_N p - Z.of_N a) mod 2^64)%Z).
  { unfold wsub, w. rewrite W_pow. rewrite (N.mod_small a) by lia.
    rewrite N2Z.inj_mod, N2Z.inj_sub, N2Z.inj_add by lia.
    change (Z.of_N (2^64)) with (2^64)%Z.
    replace (Z.of_N p + 2^64 - Z.of_N a)%Z with (Z.of_N p - Z.of_N a + 1 * 2^64)%Z by lia.
    now rewrite Z.mod_add by lia. }
  rewrite Hw, Z2N.id in H by (apply Z.mod_pos_bound; lia).
  unfold lin. rewrite <- Zplus_mod_idemp_r, <- H, Zplus_mod_idemp_r.
  replace (Z.of_N a + (Z.of_N p - Z.of_N a))%Z with (Z.of_N p) by lia.
  rewrite Z.mod_small by (change (2^64)%Z with (Z.of_N (2^64)); lia).
  apply N2Z.id.
Qed.

Theorem ktext_extents_finds s ras root mask pf tgt base top_ low high :
  pgt_meth s = {| m_kind := KPgt ras root mask pf; m_target := tgt |} ->
  pte_format pf = PTE_X86_64 -> x86_64_form (fieldsz pf) ->
  (forall a x, rd img s a x <> RdErr OK) ->
  LINUX_KTEXT_START <= base -> base <= top_ -> top_ < LINUX_KTEXT_END_NOKASLR ->
  base mod 2^12 = 0 -> (top_ + 1) mod 2^12 = 0 ->
  (forall a, LINUX_KTEXT_START <= a -> a < base -> x86_unmapped (rd img s) tgt mask pf ras root a) ->
  (forall a, base <= a -> a <= top_ -> x86_mapped (rd img s) tgt mask pf ras root a) ->
  (forall a, top_ < a -> a <= LINUX_KTEXT_END_NOKASLR -> x86_unmapped (rd img s) tgt mask pf ras root a) ->
  linux_ktext_extents img hl_fuel s = (OK, (low, high)) ->
  low = base /\ high = top_ /\
  exists p, T s base = (OK, p) /\
            wsub p base = Z.to_N (lin_off (get_meth s METH_KTEXT) mod 2^64)%Z.
Proof.
  intros Hm Hfmt Hform Hrd H0 H1 H2 Hb Ht Hbelow Hrun Habove H.
  pose proof (pgt_pf_of s _ _ _ _ _ Hm) as Hpf.
  unfold linux_ktext_extents in H.
  destruct (s_lowest_mapped img s LINUX_KTEXT_START LINUX_KTEXT_END) as [[st0 s0] f] eqn:Elm.
  destruct st0; try (injection H as Hst _ _; discriminate Hst).
  assert (f = base).
  { unfold s_lowest_mapped in Elm. rewrite Hpf, Hm in Elm.
    apply (x86_64_lowest_mapped_finds (rd img s) tgt mask pf ras root LINUX_KTEXT_END lvl_fuel
             LINUX_KTEXT_START base s0 f); try assumption; try reflexivity. apply Hrun; lia. }
  subst f.
  destruct (N.leb_spec base LINUX_KTEXT_END_NOKASLR) as [_|Hgt]; [|lia].
  destruct (s_highest_linear img hl_fuel s base LINUX_KTEXT_END_NOKASLR _) as [st1 h] eqn:Ehl.
  destruct st1; try (injection H as Hst _ _; discriminate Hst).
  assert (Hspan : LINUX_KTEXT_START / 2^(total (fieldsz pf)) = LINUX_KTEXT_END_NOKASLR / 2^(total (fieldsz pf)))
    by (destruct Hform as [-> | ->]; reflexivity).
  destruct (hl_finds img hl_fuel s ras root mask pf tgt LINUX_KTEXT_START base top_ LINUX_KTEXT_END_NOKASLR _ h
              Hm Hfmt Hform Hrd H0 H1 H2 ltac:(reflexivity) Hspan Hb Ht Hrun Habove Ehl) as (-> & Hp).
  destruct (N.leb_spec LINUX_KTEXT_END_NOKASLR top_) as [Hc|_]; [lia|].
  injection H as <- <-. auto.
Qed.

(** ... and where the run is mapped with one offset, the kernel-text method
    agrees with the page tables on all of it *)
Theorem ktext_extents_agree s ras root mask pf tgt base top_ low high :
  pgt_meth s = {| m_kind := KPgt ras root mask pf; m_target := tgt |} ->
  pte_format pf = PTE_X86_64 -> x86_64_form (fieldsz pf) ->
  (forall a x, rd img s a x <> RdErr OK) ->
  LINUX_KTEXT_START <= base -> base <= top_ -> top_ < LINUX_KTEXT_END_NOKASLR ->
  base mod 2^12 = 0 -> (top_ + 1) mod 2^12 = 0 ->
  (forall a, LINUX_KTEXT_START <= a -> a < base -> x86_unmapped (rd img s) tgt mask pf ras root a) ->
  (forall a, base <= a -> a <= top_ -> x86_mapped (rd img s) tgt mask pf ras root a) ->
  (forall a, top_ < a -> a <= LINUX_KTEXT_END_NOKASLR -> x86_unmapped (rd img s) tgt mask pf ras root a) ->
  (exists off, forall a p, base <= a -> a <= top_ -> T s a = (OK, p) -> wsub p a = off) ->
  linux_ktext_extents img hl_fuel s = (OK, (low, high)) ->
  low = base /\ high = top_ /\
  forall a p, base <= a -> a <= top_ -> p < 2^64 -> T s a = (OK, p) ->
              lin (lin_off (get_meth s METH_KTEXT)) a = p.
Proof.
  intros Hm Hfmt Hform Hrd H0 H1 H2 Hb Ht Hbelow Hrun Habove [off Hlin] H.
  destruct (ktext_extents_finds s ras root mask pf tgt base top_ low high Hm Hfmt Hform Hrd H0 H1 H2 Hb Ht
              Hbelow Hrun Habove H) as (-> & -> & p0 & Hp0 & Hoff0).
  split; [reflexivity|]. split; [reflexivity|].
  intros a p Ha1 Ha2 Hp HT. apply lin_of_linearoff; try assumption.
  - assert (LINUX_KTEXT_END_NOKASLR < 2^64) by reflexivity. lia.
  - rewrite (Hlin a p Ha1 Ha2 HT), <- (Hlin base p0 ltac:(lia) H1 Hp0). exact Hoff0.
Qed.

End KText.
