(** C08, layout part: [act_direct] makes the direct and the reverse direct
    method inverse linear maps (mod 2^64) between [first, last] and
    [0, last - first]; [sys_set_layout] sends exactly the regions of the table
    to their methods (later regions override earlier ones), by C10's
    [set_pointwise]. *)
From Coq Require Import NArith ZArith List Bool Lia.
From KdV Require Import Base.Wrap64 Map.MapModel Map.MapSpec Map.MapProofs
  Xlat.Step Xlat.ArchSpec Xlat.XBits Sys.LayoutModel Sys.LayoutSpec.
Import ListNotations.
Local Open Scope N_scope.

Lemma spec_linear_lin tgt off a : spec_linear tgt off a = (OK, Some (tgt, lin off a)).
Proof. reflexivity. Qed.

Lemma lin_lt off a : lin off a < 2^64.
Proof.
  unfold lin. pose proof (Z.mod_pos_bound (Z.of_N a + off) (2^64) ltac:(lia)).
  change (2^64) with (Z.to_N (2^64)%Z). apply Z2N.inj_lt; lia.
Qed.

(** linear maps with opposite offsets are inverse bijections of [0, 2^64) *)
Lemma lin_inverse off a : a < 2^64 -> lin (- off) (lin off a) = a.
Proof.
  intro Ha. unfold lin.
  pose proof (Z.mod_pos_bound (Z.of_N a + off) (2^64) ltac:(lia)) as Hb.
  rewrite Z2N.id by lia.
  rewrite Zplus_mod_idemp_l.
  replace (Z.of_N a + off + - off)%Z with (Z.of_N a) by lia.
  rewrite Z.mod_small.
  - apply N2Z.id.
  - change (2^64)%Z with (Z.of_N (2^64)). lia.
Qed.

Lemma s64_mod x : x < 2^64 -> (s64 x mod 2^64 = Z.of_N x)%Z.
Proof.
  intro Hx. unfold s64. destruct (x <? 2^63).
  - apply Z.mod_small. change (2^64)%Z with (Z.of_N (2^64)). lia.
  - replace (Z.of_N x - 2^64)%Z with (Z.of_N x + (-1) * 2^64)%Z by lia.
    rewrite Z.mod_add by lia. apply Z.mod_small. change (2^64)%Z with (Z.of_N (2^64)). lia.
Qed.

(** the direct offset [-first] moves [first + d] to [d] *)
Lemma lin_neg_first first v : first <= v -> v < 2^64 -> lin (neg_u64 first) v = v - first.
Proof.
  intros Hle Hv. unfold lin, neg_u64.
  rewrite <- Zplus_mod_idemp_r. rewrite s64_mod by (rewrite <- W_pow; apply wsub_lt).
  assert (Hw : Z.of_N (wsub 0 first) = ((2^64 - Z.of_N first) mod 2^64)%Z).
  { unfold wsub, w. rewrite W_pow. rewrite N.add_0_l.
    rewrite (N.mod_small first) by lia.
    rewrite N2Z.inj_mod, N2Z.inj_sub by lia. reflexivity. }
  rewrite Hw. rewrite Zplus_mod_idemp_r.
  replace (Z.of_N v + (2^64 - Z.of_N first))%Z with (Z.of_N (v - first) + 1 * 2^64)%Z
    by (rewrite N2Z.inj_sub by lia; lia).
  rewrite Z.mod_add by lia. rewrite Z.mod_small.
  - apply N2Z.id.
  - change (2^64)%Z with (Z.of_N (2^64)). lia.
Qed.

Lemma neg_u64_min first : first < 2^64 -> (neg_u64 first = INT64_MIN <-> first = 2^63).
Proof.
  intro Hf. unfold neg_u64, INT64_MIN, s64, wsub, w. rewrite W_pow, N.add_0_l.
  rewrite (N.mod_small first) by lia.
  destruct (N.eq_dec first 0) as [->|Hnz].
  - rewrite N.sub_0_r, N.mod_same by discriminate. cbn. split; discriminate.
  - rewrite N.mod_small by lia.
    destruct (N.ltb_spec (2^64 - first) (2^63)) as [Hlt|Hge]; split; intro H; lia.
Qed.

(** * get/set lemmas *)

Lemma upd_length {A} (l : list A) : forall i v, length (upd l i v) = length l.
Proof. induction l as [|h t IH]; intros [|i] v; cbn; auto. Qed.

Lemma nth_upd_same {A} (l : list A) d : forall i v, (i < length l)%nat -> nth i (upd l i v) d = v.
Proof. induction l as [|h t IH]; intros [|i] v Hi; cbn in *; try lia; auto. apply IH. lia. Qed.

Lemma nth_upd_other {A} (l : list A) d : forall i j v, i <> j -> nth j (upd l i v) d = nth j l d.
Proof. induction l as [|h t IH]; intros [|i] [|j] v Hij; cbn; auto; try lia. Qed.

Lemma sysmap_eq_dec (a b : sysmap) : {a = b} + {a <> b}.
Proof. decide equality. Qed.

Definition wf_sys (s : sys) : Prop :=
  length (meths s) = METH_NUM /\
  forall i, match get_map s i with Some m => tiles m | None => True end.

Lemma get_set_meth_same s i v : wf_sys s -> (i < METH_NUM)%nat -> get_meth (set_meth s i v) i = v.
Proof. intros [Hl _] Hi. unfold get_meth, set_meth. cbn [meths]. apply nth_upd_same. lia. Qed.

Lemma get_set_meth_other s i j v : i <> j -> get_meth (set_meth s i v) j = get_meth s j.
Proof. intro H. unfold get_meth, set_meth. cbn [meths]. now apply nth_upd_other. Qed.

Lemma get_map_set_meth s i v k : get_map (set_meth s i v) k = get_map s k.
Proof. destruct k; reflexivity. Qed.

Lemma get_set_map_same s k v : get_map (set_map s k v) k = v.
Proof. destruct k; reflexivity. Qed.

Lemma get_set_map_other s k k' v : k <> k' -> get_map (set_map s k v) k' = get_map s k'.
Proof. destruct k, k'; try reflexivity; intro H; contradiction. Qed.

Lemma meths_set_map s k v : meths (set_map s k v) = meths s.
Proof. destruct k; reflexivity. Qed.

Lemma wf_set_meth s i v : wf_sys s -> wf_sys (set_meth s i v).
Proof.
  intros [Hl Hm]. split.
  - unfold set_meth. cbn [meths]. now rewrite upd_length.
  - intro k. rewrite get_map_set_meth. apply Hm.
Qed.

Lemma wf_set_map s k m : wf_sys s -> tiles m -> wf_sys (set_map s k (Some m)).
Proof.
  intros [Hl Hm] Ht. split.
  - now rewrite meths_set_map.
  - intro k'. destruct (sysmap_eq_dec k k') as [<-|Hne].
    + now rewrite get_set_map_same.
    + rewrite get_set_map_other by exact Hne. apply Hm.
Qed.

Lemma wf_sys_new : wf_sys sys_new.
Proof. split; [reflexivity|]. intros []; exact I. Qed.

(** * One [internal_map_set] of a region *)

Definition wf_region (r : region) : Prop :=
  r_first r <= r_last r /\ r_last r < 2^64 /\ (r_meth r < METH_NUM)%nat.

Lemma layout_map_set_spec s idx r :
  wf_sys s -> wf_region r ->
  exists s', layout_map_set s idx r = (L_OK, s') /\ wf_sys s' /\
    meths s' = meths s /\
    (forall k, k <> idx -> get_map s' k = get_map s k) /\
    (forall x, mdenote (get_map s' idx) x = region_denote (mdenote (get_map s idx)) r x).
Proof.
  intros Hwf (Hfl & Hl & Hm). unfold layout_map_set.
  set (m := match get_map s idx with Some m => m | None => [] end).
  assert (Ht : tiles m).
  { unfold m. destruct Hwf as [_ Hmaps]. specialize (Hmaps idx).
    destruct (get_map s idx); [exact Hmaps|exact tiles_nil]. }
  assert (Hmd : forall x, denote m x = mdenote (get_map s idx) x).
  { intro x. unfold m, mdenote. destruct (get_map s idx); [reflexivity|apply denote_nil]. }
  set (rg := {| MapModel.endoff := wsub (r_last r) (r_first r); MapModel.meth := Z.of_nat (r_meth r) |}).
  assert (He : MapModel.endoff rg = r_last r - r_first r).
  { cbn [rg MapModel.endoff]. apply wsub_le; [exact Hfl|now rewrite W_pow]. }
  assert (Hr : r_first r + MapModel.endoff rg < W) by (rewrite He, W_pow; lia).
  destruct (set_pointwise m (r_first r) rg Ht Hr) as (m' & Hs & Hp).
  rewrite Hs. exists (set_map s idx (Some m')). split; [reflexivity|].
  destruct (set_tiles m (r_first r) rg true m' Ht Hr Hs) as (Htot & _ & _).
  split; [apply wf_set_map; [exact Hwf|now apply tiles_of_total]|].
  split; [apply meths_set_map|].
  split; [intros k Hk; apply get_set_map_other; congruence|].
  intro x. rewrite get_set_map_same. cbn [mdenote]. rewrite Hp.
  unfold set_spec, region_denote. rewrite He. cbn [rg MapModel.meth].
  replace (r_first r + (r_last r - r_first r)) with (r_last r) by lia.
  now rewrite Hmd.
Qed.

(** * [act_direct] *)

Theorem act_direct_spec s r :
  wf_sys s -> wf_region r -> r_meth r = METH_DIRECT -> r_first r <> 2^63 ->
  exists s', act_direct s r = (L_OK, s') /\ wf_sys s' /\
    get_meth s' METH_DIRECT = mk_linear KPHYSADDR (neg_u64 (r_first r)) /\
    get_meth s' METH_RDIRECT = mk_linear KVADDR (- neg_u64 (r_first r))%Z /\
    (forall j, j <> METH_DIRECT -> j <> METH_RDIRECT -> get_meth s' j = get_meth s j) /\
    (forall k, k <> MAP_KPHYS_DIRECT -> get_map s' k = get_map s k) /\
    (forall x, mdenote (get_map s' MAP_KPHYS_DIRECT) x =
               if x <=? r_last r - r_first r then Z.of_nat METH_RDIRECT
               else mdenote (get_map s MAP_KPHYS_DIRECT) x).
Proof.
  intros Hwf (Hfl & Hl & Hm) Hmeth Hmin. unfold act_direct. rewrite Hmeth.
  cbn [Nat.leb METH_NUM METH_DIRECT].
  set (s1 := set_meth s METH_DIRECT (mk_linear KPHYSADDR (neg_u64 (r_first r)))).
  assert (Hwf1 : wf_sys s1) by now apply wf_set_meth.
  assert (Hd1 : get_meth s1 METH_DIRECT = mk_linear KPHYSADDR (neg_u64 (r_first r))).
  { apply get_set_meth_same; [exact Hwf|unfold METH_DIRECT, METH_NUM; lia]. }
  cbn [set_layout_plain r_act]. unfold act_rdirect. cbn [r_meth Nat.leb METH_NUM METH_RDIRECT].
  rewrite Hd1. cbn [lin_off mk_linear sm m_kind].
  destruct (Z.eqb_spec (neg_u64 (r_first r)) INT64_MIN) as [E|_].
  { apply neg_u64_min in E; [contradiction|lia]. }
  set (s2 := set_meth s1 METH_RDIRECT (mk_linear KVADDR (- neg_u64 (r_first r))%Z)).
  assert (Hwf2 : wf_sys s2) by now apply wf_set_meth.
  set (rr := {| r_first := 0; r_last := wsub (r_last r) (r_first r); r_meth := METH_RDIRECT; r_act := ACT_RDIRECT |}).
  assert (Hws : wsub (r_last r) (r_first r) = r_last r - r_first r)
    by (apply wsub_le; [exact Hfl|now rewrite W_pow]).
  assert (Hwr : wf_region rr).
  { unfold wf_region, rr. cbn [r_first r_last r_meth]. rewrite Hws.
    unfold METH_RDIRECT, METH_NUM. lia. }
  destruct (layout_map_set_spec s2 MAP_KPHYS_DIRECT rr Hwf2 Hwr) as (s3 & Hs3 & Hwf3 & Hm3 & Ho3 & Hd3).
  fold s2. fold rr. rewrite Hs3.
  assert (Hg3 : get_map s3 MAP_KPHYS_DIRECT <> None).
  { intro Hn. unfold layout_map_set in Hs3.
    destruct (MapModel.map_set _ _ _ _) as [m'| |]; try discriminate.
    injection Hs3 as <-. cbn in Hn. discriminate. }
  cbn [set_layout_plain].
  destruct (get_map s3 MAP_KPHYS_DIRECT) as [m3|] eqn:Eg3; [|contradiction].
  exists s3. split; [reflexivity|]. split; [exact Hwf3|].
  assert (Hgm : forall j, get_meth s3 j = get_meth s2 j) by (intro j; unfold get_meth; now rewrite Hm3).
  split.
  { rewrite Hgm. unfold s2. rewrite get_set_meth_other by (unfold METH_RDIRECT, METH_DIRECT; lia). exact Hd1. }
  split.
  { rewrite Hgm. unfold s2. apply get_set_meth_same; [exact Hwf1|unfold METH_RDIRECT, METH_NUM; lia]. }
  split.
  { intros j Hj1 Hj2. rewrite Hgm. unfold s2, s1. rewrite !get_set_meth_other by congruence. reflexivity. }
  split.
  { intros k Hk. rewrite Ho3 by exact Hk. unfold s2, s1. now rewrite !get_map_set_meth. }
  intro x. rewrite Eg3, Hd3. unfold region_denote, rr. cbn [r_first r_last r_meth].
  rewrite Hws. unfold s2, s1. rewrite !get_map_set_meth.
  destruct (N.leb_spec 0 x); [|lia]. reflexivity.
Qed.

(** the direct and the reverse direct method are inverse of each other, and
    move [first, last] onto [0, last - first] and back *)
Theorem direct_rdirect_inverse s r s' :
  wf_sys s -> wf_region r -> r_meth r = METH_DIRECT -> r_first r <> 2^63 ->
  act_direct s r = (L_OK, s') ->
  exists d, sm (get_meth s' METH_DIRECT) = {| m_kind := KLinear d; m_target := KPHYSADDR |} /\
            sm (get_meth s' METH_RDIRECT) = {| m_kind := KLinear (- d)%Z; m_target := KVADDR |} /\
    (forall p, p < 2^64 -> lin d (lin (- d) p) = p) /\
    (forall v, v < 2^64 -> lin (- d) (lin d v) = v) /\
    (forall v, r_first r <= v <= r_last r -> lin d v = v - r_first r /\ lin d v <= r_last r - r_first r) /\
    (forall p, p <= r_last r - r_first r ->
               lin (- d) p = r_first r + p /\ r_first r <= lin (- d) p <= r_last r).
Proof.
  intros Hwf Hr Hm Hmin Hact.
  destruct (act_direct_spec s r Hwf Hr Hm Hmin) as (s'' & Hact' & _ & Hd & Hrd & _).
  rewrite Hact in Hact'. injection Hact' as <-.
  destruct Hr as (Hfl & Hl & _).
  exists (neg_u64 (r_first r)). rewrite Hd, Hrd. cbn [mk_linear sm].
  split; [reflexivity|]. split; [reflexivity|].
  assert (Hinv2 : forall v, v < 2^64 -> lin (- neg_u64 (r_first r)) (lin (neg_u64 (r_first r)) v) = v)
    by (intros v Hv; now apply lin_inverse).
  assert (Hinv1 : forall p, p < 2^64 -> lin (neg_u64 (r_first r)) (lin (- neg_u64 (r_first r)) p) = p).
  { intros p Hp. rewrite <- (Z.opp_involutive (neg_u64 (r_first r))) at 1. now apply lin_inverse. }
  split; [exact Hinv1|]. split; [exact Hinv2|].
  split.
  - intros v [Hv1 Hv2]. rewrite lin_neg_first by lia. lia.
  - intros p Hp.
    assert (Hfp : lin (neg_u64 (r_first r)) (r_first r + p) = p).
    { rewrite lin_neg_first by lia. lia. }
    rewrite <- Hfp at 1 3 4. rewrite Hinv2 by lia. lia.
Qed.

(** * [sys_set_layout]: the regions of the table, later ones on top *)

(** a table whose actions cannot fail: no stand-alone reverse-direct region
    (its offset depends on the method state), direct regions use the direct
    method and do not start at 2^63 *)
Definition plain_region (r : region) : Prop :=
  wf_region r /\
  match r_act r with
  | ACT_RDIRECT => False
  | ACT_DIRECT => r_meth r = METH_DIRECT /\ r_first r <> 2^63
  | _ => True
  end.

Theorem sys_set_layout_denote idx : idx <> MAP_KPHYS_DIRECT ->
  forall layout s, wf_sys s -> Forall plain_region layout ->
  exists s', sys_set_layout s idx layout = (L_OK, s') /\ wf_sys s' /\
    (forall x, mdenote (get_map s' idx) x = layout_denote (mdenote (get_map s idx)) layout x) /\
    (forall k, k <> idx -> k <> MAP_KPHYS_DIRECT -> get_map s' k = get_map s k).
Proof.
  intro Hidx. induction layout as [|r rest IH]; intros s Hwf Hall.
  - cbn [sys_set_layout layout_denote]. destruct (get_map s idx) as [m|] eqn:E.
    + exists s. rewrite E. auto.
    + exists (set_map s idx (Some [])). split; [reflexivity|].
      split; [apply wf_set_map; [exact Hwf|exact tiles_nil]|].
      split.
      * intro x. rewrite get_set_map_same. cbn [mdenote]. apply denote_nil.
      * intros k Hk _. apply get_set_map_other. congruence.
  - inversion Hall as [|? ? [Hr Hact] Hrest]; subst.
    cbn [sys_set_layout layout_denote].
    assert (Hstep : exists s1, (match r_act r with
                      | ACT_DIRECT => act_direct s r
                      | ACT_RDIRECT => act_rdirect s r
                      | ACT_IDENT_KPHYS => act_ident KPHYSADDR s r
                      | ACT_IDENT_MACHPHYS => act_ident MACHPHYSADDR s r
                      | ACT_NONE => (L_OK, s)
                      end) = (L_OK, s1) /\ wf_sys s1 /\
                      (forall k, k <> MAP_KPHYS_DIRECT -> get_map s1 k = get_map s k)).
    { destruct Hr as (Hfl & Hl & Hm).
      destruct (r_act r).
      - exists s. auto.
      - destruct Hact as [Hmd Hmin].
        destruct (act_direct_spec s r Hwf (conj Hfl (conj Hl Hm)) Hmd Hmin) as (s1 & H1 & Hwf1 & _ & _ & _ & Hk & _).
        exists s1. auto.
      - contradiction.
      - unfold act_ident. destruct (Nat.leb_spec METH_NUM (r_meth r)); [lia|].
        eexists. split; [reflexivity|]. split; [now apply wf_set_meth|].
        intros k _. apply get_map_set_meth.
      - unfold act_ident. destruct (Nat.leb_spec METH_NUM (r_meth r)); [lia|].
        eexists. split; [reflexivity|]. split; [now apply wf_set_meth|].
        intros k _. apply get_map_set_meth. }
    destruct Hstep as (s1 & H1 & Hwf1 & Hk1). rewrite H1.
    destruct (layout_map_set_spec s1 idx r Hwf1 Hr) as (s2 & H2 & Hwf2 & Hm2 & Ho2 & Hd2).
    rewrite H2.
    destruct (IH s2 Hwf2 Hrest) as (s' & H' & Hwf' & Hd' & Ho').
    exists s'. split; [exact H'|]. split; [exact Hwf'|]. split.
    + intro x. rewrite Hd'.
      assert (Hext : forall f g, (forall y, f y = g y) -> forall l y, layout_denote f l y = layout_denote g l y).
      { intros f g Hfg l. revert f g Hfg. induction l as [|q l IHl]; intros f g Hfg y; cbn [layout_denote].
        - apply Hfg.
        - apply IHl. intro z. unfold region_denote. now rewrite Hfg. }
      apply Hext. intro y. rewrite Hd2. unfold region_denote. now rewrite (Hk1 idx Hidx).
    + intros k Hk Hk'. rewrite Ho' by assumption. rewrite Ho2 by exact Hk. now apply Hk1.
Qed.
