(** C08, riscv64 / aarch64 Linux: what a successful [add_linux_linear_map] has
    seen in the page tables (decision level; the scans' own specifications are
    in Sys/ScanProofs.v, the installed maps in Sys/LayoutArchProofs.v). *)
From Coq Require Import NArith ZArith List Bool Lia.
From KdV Require Import Base.Wrap64 Map.MapModel Xlat.Step Sys.LayoutModel Sys.ScanModel
  Sys.LinuxX86Model Sys.LinuxRvA64Model.
Import ListNotations.
Local Open Scope N_scope.

Section RvA64.
Variable img : image.
Variable hl_fuel : nat.

(** riscv64: the region starts at the lowest address the kernel page table maps
    at or above PAGE_OFFSET, the offset of the direct method is the one the page
    table gives that address, the region ends where [highest_linear] (with that
    offset) says, and the reverse region is the image of the forward one *)
Theorem rv_linear_map_witness s s' :
  num_PAGE_OFFSET img <> CbErr OK ->            (* a failing callback does not return OK *)
  rv_add_linux_linear_map img hl_fuel s = (O_ST OK, s') ->
  exists po st first last,
    num_PAGE_OFFSET img = CbOk po /\
    s_lowest_mapped img s po MAXA = (OK, st, first) /\
    s_highest_linear img hl_fuel s first MAXA (wsub (s_base st) first) = (OK, last) /\
    install_linear s first last (wsub (s_base st) first)
      (wadd first (wsub (s_base st) first)) (wadd last (wsub (s_base st) first)) = (O_ST OK, s').
Proof.
  intro Hcb. unfold rv_add_linux_linear_map.
  destruct (num_PAGE_OFFSET img) as [po|e].
  - destruct (s_lowest_mapped img s po MAXA) as [[st0 st] first] eqn:Elm.
    destruct st0; try (intro H; discriminate).
    destruct (s_highest_linear img hl_fuel s first MAXA _) as [st1 last] eqn:Ehl.
    destruct st1; try (intro H; discriminate).
    intro H. exists po, st, first, last. auto.
  - intro H. injection H as H _. subst e. congruence.
Qed.

(** aarch64: the region [first, last] is the lowest and the highest address the
    kernel page table maps in the half of the kernel range chosen by
    [linux_page_offset]; both ends have the same virtual-to-physical offset,
    which becomes the offset of the direct method; the reverse region is
    [phys(first), phys(last)] *)
Theorem a64_linear_map_witness vb s s' :
  a64_add_linux_linear_map img vb s = (O_ST OK, s') ->
  exists po st first st2 last,
    a64_linux_page_offset img vb = (OK, po) /\
    s_lowest_mapped img s po (N.lor po (ADDR_MASK (vb - 1))) = (OK, st, first) /\
    s_highest_mapped img s (N.lor po (ADDR_MASK (vb - 1))) first = (OK, st2, last) /\
    wsub (s_base st2) (s_base st) = wsub last first /\
    install_linear s first last (wsub (s_base st) first) (s_base st) (s_base st2) = (O_ST OK, s').
Proof.
  unfold a64_add_linux_linear_map.
  destruct (a64_linux_page_offset img vb) as [st0 po] eqn:Epo.
  destruct st0;
    try (intro H; discriminate).
  destruct (s_lowest_mapped img s po _) as [[st1 st] first] eqn:Elm.
  destruct st1; try (intro H; discriminate).
  destruct (s_highest_mapped img s _ first) as [[st3 st2] last] eqn:Ehm.
  destruct st3; try (intro H; discriminate).
  destruct (N.eqb_spec (wsub (s_base st2) (s_base st)) (wsub last first)) as [Heq|Hne]; cbn [negb];
    [|intro H; discriminate].
  intro H. exists po, st, first, st2, last. auto.
Qed.

End RvA64.
