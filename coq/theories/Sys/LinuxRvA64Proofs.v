(** C08, riscv64 / aarch64 Linux: what a successful [add_linux_linear_map] has
    seen in the page tables (decision level; the scans' own specifications are
    in Sys/ScanProofs.v, the installed maps in Sys/LayoutArchProofs.v). *)
From Coq Require Import NArith ZArith List Bool Lia.
From KdV Require Import Base.Wrap64 Map.MapModel Map.MapSpec Map.MapProofs Xlat.Step Xlat.ArchSpec Xlat.XBits
  Xlat.WalkProofs Xlat.FmtA64
  Sys.LayoutModel Sys.LayoutSpec Sys.LayoutProofs Sys.ScanModel Sys.ScanProofs
  Sys.LinuxX86Model Sys.LinuxX86Proofs Sys.LinuxRvA64Model.
Import ListNotations.
Local Open Scope N_scope.

Section RvA64.
Variable img : image.
Variable hl_fuel : nat.

(** riscv64: the region starts at the lowest address the kernel page table maps
    at or above PAGE_OFFSET, the offset of the direct method is the one the page
    table gives that address, the region ends where [highest_linear] (with that
    offset) says, and the reverse region is the image of the forward one *)
Theorem rv_linear_map_witness s s' :
  num_PAGE_OFFSET img <> CbErr OK ->            (* a failing callback does not return OK *)
  rv_add_linux_linear_map img hl_fuel s = (O_ST OK, s') ->
  exists po st first last,
    num_PAGE_OFFSET img = CbOk po /\
    s_lowest_mapped img s po MAXA = (OK, st, first) /\
    s_highest_linear img hl_fuel s first MAXA (wsub (s_base st) first) = (OK, last) /\
    install_linear s first last (wsub (s_base st) first)
      (wadd first (wsub (s_base st) first)) (wadd last (wsub (s_base st) first)) = (O_ST OK, s').
Proof.
  intro Hcb. unfold rv_add_linux_linear_map.
  destruct (num_PAGE_OFFSET img) as [po|e].
  - destruct (s_lowest_mapped img s po MAXA) as [[st0 st] first] eqn:Elm.
    destruct st0; try (intro H; discriminate).
    destruct (s_highest_linear img hl_fuel s first MAXA _) as [st1 last] eqn:Ehl.
    destruct st1; try (intro H; discriminate).
    intro H. exists po, st, first, last. auto.
  - intro H. injection H as H _. subst e. congruence.
Qed.

(** aarch64: the region [first, last] is the lowest and the highest address the
    kernel page table maps in the half of the kernel range chosen by
    [linux_page_offset]; both ends have the same virtual-to-physical offset,
    which becomes the offset of the direct method; the reverse region is
    [phys(first), phys(last)] *)
Theorem a64_linear_map_witness vb s s' :
  a64_add_linux_linear_map img vb s = (O_ST OK, s') ->
  exists po st first st2 last,
    a64_linux_page_offset img vb = (OK, po) /\
    s_lowest_mapped img s po (N.lor po (ADDR_MASK (vb - 1))) = (OK, st, first) /\
    s_highest_mapped img s (N.lor po (ADDR_MASK (vb - 1))) first = (OK, st2, last) /\
    wsub (s_base st2) (s_base st) = wsub last first /\
    install_linear s first last (wsub (s_base st) first) (s_base st) (s_base st2) = (O_ST OK, s').
Proof.
  unfold a64_add_linux_linear_map.
  destruct (a64_linux_page_offset img vb) as [st0 po] eqn:Epo.
  destruct st0;
    try (intro H; discriminate).
  destruct (s_lowest_mapped img s po _) as [[st1 st] first] eqn:Elm.
  destruct st1; try (intro H; discriminate).
  destruct (s_highest_mapped img s _ first) as [[st3 st2] last] eqn:Ehm.
  destruct st3; try (intro H; discriminate).
  destruct (N.eqb_spec (wsub (s_base st2) (s_base st)) (wsub last first)) as [Heq|Hne]; cbn [negb];
    [|intro H; discriminate].
  intro H. exists po, st, first, st2, last. auto.
Qed.

(** ** aarch64's self-check

    A direct region is installed only when the lowest and the highest mapped
    address of the scanned range have the same virtual-to-physical offset.  So
    for any image, canonical or not, whose kernel page table has a format with a
    C02 simulation lemma: the direct method installed agrees with the
    architectural walk of the page tables at both ends of its region. *)

Lemma layout_map_set_meths s idx r st s1 : layout_map_set s idx r = (st, s1) -> meths s1 = meths s.
Proof.
  unfold layout_map_set. destruct (MapModel.map_set _ _ _ _); intro H; injection H as _ <-;
    try apply meths_set_map; reflexivity.
Qed.

Lemma install_linear_direct s first last off rf rl s' :
  wf_sys s -> install_linear s first last off rf rl = (O_ST OK, s') ->
  get_meth s' METH_DIRECT = mk_linear KPHYSADDR (s64 off).
Proof.
  intros Hwf. unfold install_linear.
  set (s1 := set_meth s METH_DIRECT (mk_linear KPHYSADDR (s64 off))).
  assert (Hd1 : get_meth s1 METH_DIRECT = mk_linear KPHYSADDR (s64 off)).
  { unfold s1. apply get_set_meth_same; [exact Hwf|unfold METH_DIRECT, METH_NUM; lia]. }
  cbn [sys_set_layout r_act].
  destruct (layout_map_set s1 MAP_KV_PHYS _) as [l2 s2] eqn:E2.
  pose proof (layout_map_set_meths _ _ _ _ _ E2) as Hm2.
  destruct l2 as [|st| | |]; cbn [ost_of_l]; try (intro H; discriminate H).
  2:{ intro H. injection H as _ <-. unfold get_meth. rewrite Hm2. exact Hd1. }
  set (s2' := match get_map s2 MAP_KV_PHYS with Some _ => s2 | None => set_map s2 MAP_KV_PHYS (Some []) end).
  assert (Hm2' : meths s2' = meths s1).
  { unfold s2'. destruct (get_map s2 MAP_KV_PHYS); [exact Hm2|]. now rewrite meths_set_map. }
  assert (Hd2 : get_meth s2' METH_DIRECT = mk_linear KPHYSADDR (s64 off)).
  { unfold get_meth. rewrite Hm2'. exact Hd1. }
  unfold act_rdirect. cbn [r_meth].
  destruct (METH_NUM <=? METH_RDIRECT)%nat; [intro H; discriminate H|].
  destruct (_ =? INT64_MIN)%Z; [intro H; discriminate H|].
  set (s3 := set_meth s2' METH_RDIRECT _).
  assert (Hd3 : get_meth s3 METH_DIRECT = mk_linear KPHYSADDR (s64 off)).
  { unfold s3. rewrite get_set_meth_other by (unfold METH_RDIRECT, METH_DIRECT; lia). exact Hd2. }
  destruct (layout_map_set s3 MAP_KPHYS_DIRECT _) as [l4 s4] eqn:E4.
  pose proof (layout_map_set_meths _ _ _ _ _ E4) as Hm4.
  assert (Hd4 : get_meth s4 METH_DIRECT = mk_linear KPHYSADDR (s64 off)).
  { unfold get_meth. rewrite Hm4. exact Hd3. }
  destruct l4 as [|st| | |]; cbn [ost_of_l]; try (intro H; discriminate H).
  2:{ intro H. injection H as _ <-. exact Hd4. }
  set (s5 := match get_map s4 MAP_KPHYS_DIRECT with Some _ => s4 | None => set_map s4 MAP_KPHYS_DIRECT (Some []) end).
  assert (Hd5 : get_meth s5 METH_DIRECT = mk_linear KPHYSADDR (s64 off)).
  { unfold s5. destruct (get_map s4 MAP_KPHYS_DIRECT); [exact Hd4|].
    unfold get_meth. rewrite meths_set_map. exact Hd4. }
  intro H. injection H as <-. exact Hd5.
Qed.

Lemma wsub_Z x y : x < 2^64 -> y < 2^64 -> Z.of_N (wsub x y) = ((Z.of_N x - Z.of_N y) mod 2^64)%Z.
Proof.
  intros Hx Hy. unfold wsub, w. rewrite W_pow. rewrite (N.mod_small y) by lia.
  rewrite N2Z.inj_mod, N2Z.inj_sub, N2Z.inj_add by lia.
  change (Z.of_N (2^64)) with (2^64)%Z.
  replace (Z.of_N x + 2^64 - Z.of_N y)%Z with (Z.of_N x - Z.of_N y + 1 * 2^64)%Z by lia.
  now rewrite Z.mod_add by lia.
Qed.

Lemma wsub_swap p1 p2 first last :
  p1 < 2^64 -> p2 < 2^64 -> first < 2^64 -> last < 2^64 ->
  wsub p2 p1 = wsub last first -> wsub p2 last = wsub p1 first.
Proof.
  intros H1 H2 H3 H4 H. apply N2Z.inj. apply (f_equal Z.of_N) in H.
  rewrite !wsub_Z in * by assumption.
  assert (E : ((Z.of_N p2 - Z.of_N p1 - (Z.of_N last - Z.of_N first)) mod 2^64 = 0)%Z).
  { rewrite Zminus_mod, H, Z.sub_diag. reflexivity. }
  replace (Z.of_N p2 - Z.of_N last)%Z
    with ((Z.of_N p2 - Z.of_N p1 - (Z.of_N last - Z.of_N first)) + (Z.of_N p1 - Z.of_N first))%Z by lia.
  rewrite Zplus_mod, E, Z.add_0_l, Z.mod_mod by lia. reflexivity.
Qed.

Section Checked.
Variable af : archfmt.
Variable s : sys.
Variables (ras : aspace) (root mask : N) (pf : pform) (tgt : aspace).
Hypothesis Hm : pgt_meth s = {| m_kind := KPgt ras root mask pf; m_target := tgt |}.
Hypothesis Hsim : forall va, sim (rd img s) af tgt mask pf va.
Hypothesis Herr : forall a x, rd img s a x <> RdErr OK.
Hypothesis Hlt : all_lt64 (fieldsz pf) = true.
Hypothesis Htot : total (fieldsz pf) <= 64.
Hypothesis Hlen : (2 <= length (fieldsz pf) <= 8)%nat.
Hypothesis Hnodir : forall l e va a b sh, af_decode af tgt (fieldsz pf) l e va <> DHugeDir a b sh.
Hypothesis Hdecva : forall l e va va', af_decode af tgt (fieldsz pf) l e va = af_decode af tgt (fieldsz pf) l e va'.
Hypothesis Hpos : forall j, (j < length (fieldsz pf))%nat -> 1 <= nth j (fieldsz pf) 0.
Hypothesis Hps : pte_size (pte_format pf) = Some (af_ptesz af).

Notation walk := (fun a => arch_levels (rd img s) af tgt mask (fieldsz pf) a (length (fieldsz pf) - 1) ras root).

Theorem a64_linear_map_checked vb s' :
  wf_sys s -> vb <= 64 ->
  a64_add_linux_linear_map img vb s = (O_ST OK, s') ->
  exists first last p1 p2 d,
    first <= last /\
    get_meth s' METH_DIRECT = mk_linear KPHYSADDR d /\
    walk first = (OK, Some (tgt, p1)) /\ walk last = (OK, Some (tgt, p2)) /\
    lin d first = p1 /\ lin d last = p2.
Proof.
  intros Hwf Hvb H.
  destruct (a64_linear_map_witness vb s s' H) as (po & st & first & st2 & last & Hpo & Hlm & Hhm & Heq & Hinst).
  unfold s_lowest_mapped in Hlm. unfold s_highest_mapped in Hhm.
  assert (Hpf : pgt_pf s = pf) by (unfold pgt_pf; now rewrite Hm).
  rewrite Hpf, Hm in Hlm, Hhm.
  assert (Hpo64 : po < 2^64).
  { unfold a64_linux_page_offset in Hpo.
    assert (Hld : forall k, N.ldiff MAXA (ADDR_MASK k) < 2^64).
    { intro k. apply ldiff_lt. rewrite MAXA_val. reflexivity. }
    destruct (sym_stext img) as [v|e].
    - injection Hpo as <-. destruct (_ <=? v); apply Hld.
    - destruct e; try discriminate Hpo.
      + injection Hpo as <-. reflexivity.
      + destruct (i_version img); [|discriminate Hpo].
        injection Hpo as <-. destruct (_ <=? _); apply Hld. }
  set (last0 := N.lor po (ADDR_MASK (vb - 1))) in *.
  assert (Hl064 : last0 < 2^64).
  { unfold last0, ADDR_MASK. rewrite lor_ones_div, N.ones_equiv.
    set (k := vb - 1) in *.
    assert (Hq : po / 2^k < 2^(64 - k)).
    { apply N.div_lt_upper_bound; [apply pow2_nz|]. rewrite <- N.pow_add_r.
      replace (k + (64 - k)) with 64 by lia. exact Hpo64. }
    replace (2^64) with (2^(64 - k) * 2^k) by (rewrite <- N.pow_add_r; f_equal; lia).
    pose proof (pow2_pos k).
    set (q := po / 2^k) in *. set (P := 2^k) in *. set (M := 2^(64 - k)) in *. nia. }
  destruct (lowest_mapped_least (rd img s) af tgt mask pf ras root Hsim Herr Hlt Htot Hlen Hnodir Hdecva Hpos
              last0 lvl_fuel po OK st first Hps Hpo64 Hlm) as [Hok _].
  destruct (Hok eq_refl) as (L0 & L1 & L2 & L3 & L4 & L5 & _).
  destruct (highest_mapped_greatest (rd img s) af tgt mask pf ras root Hsim Herr Hlt Htot Hlen Hnodir Hdecva Hpos
              first lvl_fuel last0 OK st2 last Hps Hl064 Hhm) as [Hok2 _].
  destruct (Hok2 eq_refl) as (G0 & G1 & G2 & G3 & G4 & _).
  pose proof (arch_levels_lt _ _ _ _ _ _ _ _ _ _ _ L5) as Hp1.
  pose proof (arch_levels_lt _ _ _ _ _ _ _ _ _ _ _ G4) as Hp2.
  assert (Hlast64 : last < 2^64).
  { eapply N.le_lt_trans; [exact G1|].
    pose proof (page_up_lt pf Htot Hlen last0 ltac:(apply all_lt64_nth; [exact Hlt|lia]) Hl064) as Hpu.
    exact Hpu. }
  exists first, last, (s_base st), (s_base st2), (s64 (wsub (s_base st) first)).
  split; [exact G0|].
  split; [exact (install_linear_direct _ _ _ _ _ _ _ Hwf Hinst)|].
  split; [exact L5|]. split; [exact G4|].
  split.
  - apply (ktext_linear_agrees (wsub (s_base st) first) first (s_base st) first (s_base st)); auto.
  - apply (ktext_linear_agrees (wsub (s_base st) first) last (s_base st2) first (s_base st)); auto.
    apply wsub_swap; assumption.
Qed.
End Checked.

End RvA64.

(** the instance for the AArch64 descriptor formats (plain, LPA, LPA2) with the
    48- and 52-bit level layouts of C02 ([a64_form]) *)
Theorem aarch64_linear_map_checked img v s ras root mask pf tgt vb s' :
  pgt_meth s = {| m_kind := KPgt ras root mask pf; m_target := tgt |} ->
  pte_format pf = a64_fmt v -> a64_form v (fieldsz pf) ->
  (forall a x, rd img s a x <> RdErr OK) ->
  wf_sys s -> vb <= 64 ->
  a64_add_linux_linear_map img vb s = (O_ST OK, s') ->
  let walk a := arch_levels (rd img s) (af_aarch64 v) tgt mask (fieldsz pf) a (length (fieldsz pf) - 1) ras root in
  exists first last p1 p2 d,
    first <= last /\
    get_meth s' METH_DIRECT = mk_linear KPHYSADDR d /\
    walk first = (OK, Some (tgt, p1)) /\ walk last = (OK, Some (tgt, p2)) /\
    lin d first = p1 /\ lin d last = p2.
Proof.
  intros Hm Hfmt Hform Herr Hwf Hvb H. cbv zeta.
  destruct (a64_layout v _ Hform) as (Hff & Hlen & _ & Ht & _).
  apply (a64_linear_map_checked img (af_aarch64 v) s ras root mask pf tgt) with (vb := vb); try assumption.
  - intro va. now apply sim_aarch64.
  - exact (ff_lt _ Hff).
  - lia.
  - lia.
  - intros l e va a b sh. cbn [af_decode af_aarch64]. unfold dec_aarch64.
    destruct (negb (bit 0 e)); [discriminate|].
    destruct (bit 1 e); destruct l as [|[|l]]; try discriminate;
      destruct (a64_block_ok _ _ _); discriminate.
  - intros l e va va'. reflexivity.
  - intros j Hj. destruct v; cbn [a64_form] in Hform;
      repeat (destruct Hform as [Hf | Hform]; [rewrite Hf in * | ]); try rewrite Hform in *;
      cbn [length] in Hj; do 7 (destruct j as [|j]; [cbn; lia|]); lia.
  - rewrite Hfmt. destruct v; reflexivity.
Qed.
