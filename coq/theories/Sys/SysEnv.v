(** C09, test environment shared by the extracted model and
    harness/sysop_drv.c: the memory behind the driver's get-page callback,
    the driver's custom translation method, and the loop that finds the
    nesting depth of a run (the least fuel that is enough).  This is a model
    of the *driver's* callbacks, not of the library.  No proofs. *)
From Coq Require Import NArith ZArith List Bool.
From KdV Require Import Base.Wrap64 Map.MapModel Sys.ChainInterp.
Import ListNotations.
Local Open Scope N_scope.

Definition PAGE : N := 4096.
Definition ST_MISALIGNED : Z := 77%Z.

(** [pages]: present pages (address space, page base); [words]: 64-bit words
    (address space, 8-aligned address, value), zero elsewhere.  A page that is
    not present makes the callback fail with [failst]; [failst = 0] means all
    memory is present.  The library only issues aligned reads (addrxlat.h,
    "the desired address is always aligned"); a misaligned one is reported
    with a status no callback uses so that the orchestrator can drop the case
    (it is outside the documented domain of the method parameters). *)
Definition env_mem (pages : list (Z * N)) (words : list (Z * N * N)) (failst : Z)
           (as_ : Z) (addr sz : N) : Z * N :=
  if negb (N.land addr (sz - 1) =? 0) then (ST_MISALIGNED, 0)      (* sz is 4 or 8 *)
  else
    let pg := N.ldiff addr (PAGE - 1) in
    if negb (failst =? 0)%Z && negb (existsb (fun p => (fst p =? as_)%Z && (snd p =? pg)) pages)
    then (failst, 0)
    else
      let wa := N.ldiff addr 7 in
      let wv := match find (fun w => (fst (fst w) =? as_)%Z && (snd (fst w) =? wa)) words with
                | Some w => snd w
                | None => 0
                end in
      (ST_OK, if sz =? 8 then wv
              else if N.land addr 7 =? 0 then N.land wv (N.ones 32) else N.shiftr wv 32).

(** the driver's custom first-step function: status [st]; on success the
    translation is complete ([remain = 0]) at [key - addr] in space [as_] *)
Definition env_custom (st : Z) (as_ : Z) (key : N) : N -> Z * fulladdr :=
  fun addr => (st, FA (xsub key addr) as_).

(** run with fuel 0, 1, 2, ... until the fuel is enough: the fuel found is the
    nesting depth reached (one unit per pushed in-flight record) *)
Fixpoint op_depth (todo fuel : nat) (lim : option nat) (osys : option sys) (rcaps : N)
         (mem : Z -> N -> N -> Z * N) (opret : fulladdr -> Z) (caps : N) (fa : fulladdr)
  : outcome * nat :=
  match todo with
  | O => (NoFuel, fuel)
  | S t =>
      match addrxlat_op lim osys rcaps mem fuel opret caps fa with
      | NoFuel => op_depth t (S fuel) lim osys rcaps mem opret caps fa
      | r => (r, fuel)
      end
  end.

(** build a map by a sequence of [addrxlat_map_set] calls (C10's model);
    [None] if a call fails or indexes outside the array *)
Fixpoint build_map (m : map) (sets : list (N * N * Z)) : option map :=
  match sets with
  | [] => Some m
  | (a, e, mm) :: tl =>
      match map_set m a {| endoff := e; meth := mm |} true with
      | Ok m' => build_map m' tl
      | _ => None
      end
  end.
