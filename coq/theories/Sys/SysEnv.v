(** C09, test environment shared by the extracted model and
    harness/sysop_drv.c: the driver's get-page callback (the memory image
    behind it, the byte order it reports, the address spaces it serves by
    re-entering the library), the driver's custom translation method, and the
    loop that finds the nesting depth of a run (the least fuel that is
    enough).  This is a model of the *driver's* callbacks, not of the library.
    No proofs. *)
From Coq Require Import NArith ZArith List Bool.
From KdV Require Import Base.Wrap64 Map.MapModel Sys.ChainInterp.
From KdV Require Xlat.Step Hist.ReadCache.
Import ListNotations.
Local Open Scope N_scope.

(** the callback answers with 256-byte regions; memory is present in units
    of 4096 bytes *)
Definition REGION : N := 256.
Definition PAGE : N := 4096.

(** little-endian bytes of a 64-bit word *)
Fixpoint le_bytes (n : nat) (v : N) : list N :=
  match n with
  | O => []
  | S n' => N.land v 255 :: le_bytes n' (N.shiftr v 8)
  end.

(** the bytes of the region starting at [base] (32 words): every word is
    stored in the byte order of its page *)
Fixpoint region_words (words : list (N * N * N)) (be : bool) (a_as base : N) (n : nat) : list N :=
  match n with
  | O => []
  | S n' =>
      let wv := match find (fun w => (fst (fst w) =? a_as) && (snd (fst w) =? base)) words with
                | Some w => snd w
                | None => 0
                end in
      (if be then rev (le_bytes 8 wv) else le_bytes 8 wv)
      ++ region_words words be a_as (base + 8) n'
  end.

(** [pages]: present pages (address space, 4096-aligned base); [words]: 64-bit
    words (address space, 8-aligned address, value), zero elsewhere; [bigs]:
    pages whose buffers are reported as ADDRXLAT_BIG_ENDIAN.  A page that is
    not present makes the callback fail with [failst]; [failst = 0] means all
    memory is present. *)
Definition env_big (bigs : list (N * N)) (a_as a : N) : bool :=
  let pg := N.ldiff a (PAGE - 1) in
  existsb (fun p => (fst p =? a_as) && (snd p =? pg)) bigs.

Definition env_gp (pages : list (N * N)) (words : list (N * N * N)) (bigs : list (N * N))
           (failst : Z) (a_as a : N) : Z + (N * N * list N) :=
  let pg := N.ldiff a (PAGE - 1) in
  if negb (failst =? 0)%Z && negb (existsb (fun p => (fst p =? a_as) && (snd p =? pg)) pages)
  then inl failst
  else
    let base := N.ldiff a (REGION - 1) in
    inr (base, REGION, region_words words (env_big bigs a_as a) a_as base 32).

(** address spaces the callback serves by converting the requested address
    to another space through the library first *)
Definition env_backing (l : list (N * N)) (a_as : N) : option N :=
  match find (fun p => fst p =? a_as) l with
  | Some p => Some (snd p)
  | None => None
  end.

(** the driver's custom first-step function: status [st]; on success the
    translation is complete ([remain = 0]) at [key - addr] in space [as_] *)
Definition env_custom (st : Z) (as_ : Z) (key : N) : N -> Z * fulladdr :=
  fun addr => (st, FA (xsub key addr) as_).

Section Run.
  Variable lim : option nat.
  Variable osys : option sys.
  Variable rcaps : N.
  Variable gp : N -> N -> Z + (N * N * list N).
  Variable big : N -> N -> bool.
  Variable backing : N -> option N.
  Variable fmt_first : Step.aspace -> N -> Step.pform -> N -> Step.status * Step.step.
  Variable fmt_next : Step.aspace -> N -> Step.pform -> Step.step -> N -> Step.status * Step.step.
  Variable fmt_ptesz : Step.pform -> option N.
  Variable wfuel : nat.

  (** run with fuel 0, 1, 2, ... (each time from the same cache) until the
      fuel is enough: the fuel found is the nesting depth reached (one unit
      per pushed in-flight record) *)
  Fixpoint op_depth (todo fuel : nat) (opret : fulladdr -> Z) (caps : N) (fa : fulladdr) (c : cache)
    : outcome * nat * cache :=
    match todo with
    | O => (NoFuel, fuel, c)
    | S t =>
        match addrxlat_op_c lim osys rcaps gp big backing fmt_first fmt_next fmt_ptesz wfuel
                            fuel opret caps fa c with
        | (NoFuel, _) => op_depth t (S fuel) opret caps fa c
        | (r, c') => (r, fuel, c')
        end
    end.
End Run.

(** build a map by a sequence of [addrxlat_map_set] calls (C10's model);
    [None] if a call fails or indexes outside the array *)
Fixpoint build_map (m : map) (sets : list (N * N * Z)) : option map :=
  match sets with
  | [] => Some m
  | (a, e, mm) :: tl =>
      match map_set m a {| endoff := e; MapModel.meth := mm |} true with
      | Ok m' => build_map m' tl
      | _ => None
      end
  end.
