(** C08, specification of the layout part: what a linear method computes, what
    a layout table means as a function from addresses to methods. *)
From Coq Require Import NArith ZArith List Bool.
From KdV Require Import Base.Wrap64 Map.MapModel Map.MapSpec Sys.LayoutModel.
Import ListNotations.
Local Open Scope N_scope.

(** the value a linear method assigns ([ArchSpec.spec_linear], C02_linear) *)
Definition lin (off : Z) (a : N) : N := Z.to_N ((Z.of_N a + off) mod 2^64)%Z.

(** the function a (possibly not yet created) map denotes *)
Definition mdenote (o : option MapModel.map) (x : N) : Z :=
  match o with Some m => denote m x | None => NONE end.

(** a region overrides the method on [first, last] *)
Definition region_denote (f : N -> Z) (r : region) (x : N) : Z :=
  if (r_first r <=? x) && (x <=? r_last r) then Z.of_nat (r_meth r) else f x.

(** a layout table: its regions, later ones on top *)
Fixpoint layout_denote (f : N -> Z) (layout : list region) (x : N) : Z :=
  match layout with
  | [] => f x
  | r :: rest => layout_denote (region_denote f r) rest x
  end.

(** the reverse-direct region a direct region [first, last] induces in the
    KPHYS -> DIRECT map *)
Definition rdirect_region (r : region) : region :=
  {| r_first := 0; r_last := r_last r - r_first r; r_meth := METH_RDIRECT; r_act := ACT_RDIRECT |}.

(** * Other architectures, layout level *)

(** ia32 Linux with VMALLOC_START = [vs]: the direct mapping is
    [0xc0000000, vs - 1], everything else below 4G goes through the page tables;
    the reverse direct map accepts exactly the image [0, vs - 1 - 0xc0000000] *)
Definition ia32_fwd_spec (vs x : N) : Z :=
  if (0xc0000000 <=? x) && (x <? vs) then Z.of_nat METH_DIRECT
  else if x <=? 0xffffffff then Z.of_nat METH_PGT else METH_NONE.
Definition ia32_rev_spec (vs p : N) : Z :=
  if p <? vs - 0xc0000000 then Z.of_nat METH_RDIRECT else METH_NONE.

(** a linear direct mapping of [first, last] with offset [off]: the reverse
    direct map accepts exactly the image [first + off, last + off] *)
Definition lindm_fwd_spec (first last x : N) : Z :=
  if (first <=? x) && (x <=? last) then Z.of_nat METH_DIRECT else METH_NONE.
Definition lindm_rev_spec (first last : N) (off : Z) (p : N) : Z :=
  if (lin off first <=? p) && (p <=? lin off last) then Z.of_nat METH_RDIRECT else METH_NONE.
