(** Model of the address-space conversion interpreter of libaddrxlat:
    src/addrxlat/sys.c  (chain tables, [map_expect_as], [do_op], [addrxlat_op],
    [addrxlat_fulladdr_conv]),  src/addrxlat/step.c  ([addrxlat_walk] with the
    first/next step functions of the method kinds none / custom / linear /
    page table (PFN32, PFN64 entries) / lookup / memory array)  and
    src/addrxlat/ctx.c  ([read32] / [read64]: read directly when the read
    callback can, otherwise through a nested [addrxlat_op] -- the recursion of
    the real code).

    Conventions.
    - Addresses are [N] with wrap-around written out ([Wrap64]); address
      spaces and statuses are [Z] (the C enumerators, which are signed).
    - Every invocation of the caller's operation in sys.c has the form
      [return ctl->op(ctl->data, x)]; the core interpreter therefore returns
      [Call x] ("the result of the call is whatever the operation returns on
      [x]") and [addrxlat_op] turns that into the event list of the operation.
    - The in-flight list of [struct inflight] records lives on the C stack and
      is pushed/popped around [do_op]; here it is the argument [infl].
    - Recursion: [op_core] recurses through [read]; the recursion is on
      explicit [fuel], one unit per nesting level of [addrxlat_op] (a unit is
      consumed exactly when a record is pushed on the in-flight list).
    - [lim] is the recursion depth limit: [None] is the pinned tree (no
      limit), [Some 16] the tree with fixes/30-op-depth-limit.patch.
    - Undefined behaviour is an outcome ([UB]): a method index outside the [meth] array,
      a field or memory-array shift of 64 bits or more.
    - The memory behind the get-page callback is the function [mem as addr
      size] returning the callback's status and the loaded value; the 4-slot
      read cache of ctx.c is transparent for such a callback and not
      modelled here (see design.d/C09.md).
    - Page tables come in two shapes.  [MPgt] is the PFN32/PFN64 table of
      step.c written out here; [MPgtF] is a page table of *any* format: the
      walk loop of [addrxlat_walk] is written here over the step record of
      Xlat/Step.v, while the format's first-step function, its next-step
      transition (given the raw PTE just read) and its PTE size are the
      section variables [fmt_first], [fmt_next], [fmt_ptesz] -- every theorem
      holds for any format.  Sys/StepGlue.v instantiates them with the walk
      agent's [Step.first_step_pgt] / [Step.next_step_pgt] / [Step.pte_size].
    - Section [Interp] is the interpreter over a memory *function* [mem];
      section [Cached] is the same interpreter with the 4-slot read cache of
      ctx.c ([Hist/ReadCache.v]: [get_cache_buf] with its LRU ring and its
      "Infinite read recursion" guard, [do_read32]/[do_read64] with the
      buffer's byte order) threaded through every read, and a get-page
      callback that may re-enter the library ([addrxlat_fulladdr_conv] on the
      same context) before it answers.  SysProofs.v shows that for a callback
      that does not re-enter the two interpreters compute the same.
    No proofs in this file. *)
From Coq Require Import NArith ZArith List Bool.
From KdV Require Import Base.Wrap64 Map.MapModel.
From KdV Require Xlat.Step Hist.ReadCache.
Import ListNotations.
Local Open Scope N_scope.

(** addrxlat_status *)
Definition ST_OK : Z := 0%Z.
Definition ST_NOTIMPL : Z := 1%Z.
Definition ST_NOTPRESENT : Z := 2%Z.
Definition ST_INVALID : Z := 3%Z.
Definition ST_NOMEM : Z := 4%Z.
Definition ST_NODATA : Z := 5%Z.
Definition ST_NOMETH : Z := 6%Z.

(** addrxlat_addrspace_t *)
Definition AS_KPHYS : Z := 0%Z.
Definition AS_MACHPHYS : Z := 1%Z.
Definition AS_KV : Z := 2%Z.
Definition AS_NOADDR : Z := (-1)%Z.

Record fulladdr := FA { fa_addr : N; fa_as : Z }.

(** 64-bit arithmetic.  These are [Wrap64.wadd] etc. with the reduction
    modulo 2^64 written as a mask, which is what runs fast after extraction;
    SysProofs.v proves [xadd = wadd], [xsub = wsub], [xmul = wmul],
    [xshl = wshl] and [xmap_search = MapModel.map_search]. *)
Definition MASK64 : N := 18446744073709551615.     (* N.ones 64 *)
Definition xw (x : N) : N := N.land x MASK64.
Definition xadd (a b : N) : N := xw (a + b).
Definition xsub (a b : N) : N := xw (a + W - xw b).
Definition xmul (a b : N) : N := xw (a * b).
Definition xshl (a k : N) : N := xw (N.shiftl a k).

(** internal_map_search (map.c), as in [MapModel.map_search] *)
Fixpoint xmap_search_from (m : map) (raddr addr : N) : Z :=
  match m with
  | [] => NONE
  | r :: m' =>
      if addr <=? xadd raddr (endoff r) then MapModel.meth r
      else xmap_search_from m' (xadd raddr (xadd (endoff r) 1)) addr
  end.
Definition xmap_search (m : map) (addr : N) : Z := xmap_search_from m 0 addr.

(** addrxlat_sys_map_t *)
Definition MAP_HW : N := 0.
Definition MAP_KV_PHYS : N := 1.
Definition MAP_KPHYS_DIRECT : N := 2.
Definition MAP_MACHPHYS_KPHYS : N := 3.
Definition MAP_KPHYS_MACHPHYS : N := 4.

(** Translation methods ([addrxlat_meth_t]).  [MCustom f]: a custom method
    whose first-step function completes the translation itself (it returns a
    status and, on success, the final [step->base] with [remain = 0]). *)
Inductive method :=
| MNone
| MBadKind
| MCustom (f : N -> Z * fulladdr)
| MLinear (tas : Z) (off : N)
| MPgt (tas : Z) (root : fulladdr) (pte64 : bool) (pte_mask : N) (fields : list N)
| MPgtF (tas : Step.aspace) (root_as : Step.aspace) (root : N) (pte_mask : N) (pf : Step.pform)
| MLookup (tas : Z) (endoff : N) (tbl : list (N * N))
| MMemarr (tas : Z) (base : fulladdr) (shift elemsz valsz : N).

(** Xlat/Step.v's enumerations as the C integers *)
Definition as_of (a : Step.aspace) : Z :=
  match a with
  | Step.KPHYSADDR => AS_KPHYS | Step.MACHPHYSADDR => AS_MACHPHYS
  | Step.KVADDR => AS_KV | Step.NOADDR => AS_NOADDR
  end.

(** [None]: the model-only outcomes of Step.v (undefined shift, index outside
    the array, step loop out of fuel) *)
Definition st_of (st : Step.status) : option Z :=
  match st with
  | Step.OK => Some ST_OK | Step.NOTIMPL => Some ST_NOTIMPL | Step.NOTPRESENT => Some ST_NOTPRESENT
  | Step.INVALID => Some ST_INVALID | Step.NOMEM => Some ST_NOMEM | Step.NODATA => Some ST_NODATA
  | Step.NOMETH => Some ST_NOMETH
  | Step.CUSTOM c => if (c =? ST_OK)%Z then None else Some c    (* (a custom code is not ADDRXLAT_OK) *)
  | Step.BADSHIFT | Step.OOB | Step.NOFUEL => None
  end.


(** [addrxlat_sys_t]: [s_map i] is [sys->map[i]] ([None] = NULL), [s_meth]
    the [meth] array ([ADDRXLAT_SYS_METH_NUM] = 16 slots). *)
Record sys := { s_map : N -> option map; s_meth : list method }.

Definition get_meth (s : sys) (idx : Z) : option method :=
  if (idx <? 0)%Z then None else nth_error (s_meth s) (Z.to_nat idx).

(** The chain tables (sys.c:434-464): a chain is a list of alternatives, an
    alternative a list of map indices. *)
Inductive chain_id := KV2PHYS | KPHYS2MACHPHYS | KPHYS2DIRECT | KPHYS2ANY | MACHPHYS2DIRECT.

Definition chain_tbl (c : chain_id) : list (list N) :=
  match c with
  | KV2PHYS => [[MAP_KV_PHYS; MAP_HW]; [MAP_MACHPHYS_KPHYS; MAP_KPHYS_MACHPHYS]]
  | KPHYS2MACHPHYS => [[MAP_KPHYS_MACHPHYS]]
  | KPHYS2DIRECT => [[MAP_KPHYS_DIRECT]]
  | KPHYS2ANY => [[MAP_KPHYS_MACHPHYS; MAP_KPHYS_DIRECT]]
  | MACHPHYS2DIRECT => [[MAP_MACHPHYS_KPHYS]; [MAP_KPHYS_DIRECT]]
  end.

Definition chain_eqb (a b : chain_id) : bool :=
  match a, b with
  | KV2PHYS, KV2PHYS | KPHYS2MACHPHYS, KPHYS2MACHPHYS | KPHYS2DIRECT, KPHYS2DIRECT
  | KPHYS2ANY, KPHYS2ANY | MACHPHYS2DIRECT, MACHPHYS2DIRECT => true
  | _, _ => false
  end.

(** map_expect_as (sys.c:467) *)
Definition map_expect_as (mapidx : N) : Z :=
  if mapidx =? MAP_HW then AS_KV
  else if mapidx =? MAP_KV_PHYS then AS_KV
  else if mapidx =? MAP_KPHYS_DIRECT then AS_KPHYS
  else if mapidx =? MAP_MACHPHYS_KPHYS then AS_MACHPHYS
  else AS_KPHYS.

(** [caps & ADDRXLAT_CAPS(as)], [ADDRXLAT_CAPS(val) = 1UL << (unsigned)(val)] *)
(** With fixes/97-caps-noaddr-shift.patch a value that has no bit (e.g.
    ADDRXLAT_NOADDR) gives the empty mask; before it, the shift was undefined.
    (The result stays an [option]: [None] no longer occurs.) *)
Definition caps_has (caps : N) (as_ : Z) : option bool :=
  if ((0 <=? as_) && (as_ <? 64))%Z then Some (N.testbit caps (Z.to_N as_)) else Some false.

(** ADDRXLAT_CAPS(as) as a mask *)
Definition caps_of (as_ : Z) : N :=
  if ((0 <=? as_) && (as_ <? 64))%Z then N.shiftl 1 (Z.to_N as_) else 0.

(** struct inflight: (faddr.addr, faddr.as, chain) *)
Definition key := (N * Z * chain_id)%type.
Definition key_eqb (a b : key) : bool :=
  let '(aa, asa, ca) := a in
  let '(ab, asb, cb) := b in
  (aa =? ab) && (asa =? asb)%Z && chain_eqb ca cb.

Inductive cres := Call (fa : fulladdr) | Err (st : Z) | OutOfFuel | UB.
Inductive rres := RVal (v : N) | RErr (st : Z) | RFuel | RUB.
Inductive wres := WOk (fa : fulladdr) | WErr (st : Z) | WFuel | WUB.
Inductive ares := AReturn (r : cres) | ABreak (pa : fulladdr) | AExhausted.

(** first_step_lookup: the first element that contains [addr]
    ([elem->orig <= addr && addr <= elem->orig + lookup->endoff], the sum wraps) *)
Fixpoint lookup_find (tbl : list (N * N)) (endoff addr : N) : option (N * N) :=
  match tbl with
  | [] => None
  | (orig, dest) :: tl =>
      if (orig <=? addr) && (addr <=? xadd orig endoff) then Some (orig, dest)
      else lookup_find tl endoff addr
  end.

(** first_step_pgt_generic: split [addr] into the index array; [None] when a
    field is 64 bits or wider ([addr >>= bits] is undefined).  Returns
    (idx[0..n-1], idx[n]). *)
Fixpoint split_fields (fields : list N) (addr : N) : option (list N * N) :=
  match fields with
  | [] => Some ([], addr)
  | bits :: tl =>
      if 64 <=? bits then None
      else match split_fields tl (N.shiftr addr bits) with
           | None => None
           | Some (idx, top) => Some (N.land addr (N.ones bits) :: idx, top)
           end
  end.

Section Interp.
  Variable lim : option nat.
  Variable osys : option sys.            (* ctl->sys, may be NULL *)
  Variable rcaps : N.                    (* ctx->cb->read_caps(ctx->cb) *)
  (** get-page callback + load (address space, address, size): the callback's
      status and, when that is ADDRXLAT_OK, the value loaded; [None]: the load
      would go outside the buffer or through a misaligned pointer *)
  Variable mem : Z -> N -> N -> option (Z * N).
  (** the page-table format: first step (no memory access), the transition
      on the raw PTE read at [step->base], the PTE size ([None]: the format's
      next-step function does not read) *)
  Variable fmt_first : Step.aspace -> N -> Step.pform -> N -> Step.status * Step.step.
  Variable fmt_next : Step.aspace -> N -> Step.pform -> Step.step -> N -> Step.status * Step.step.
  Variable fmt_ptesz : Step.pform -> option N.
  Variable wfuel : nat.                  (* bound on the steps of one walk *)

  (** do_read32 / do_read64 *)
  Definition do_read (fa : fulladdr) (sz : N) : rres :=
    match mem (fa_as fa) (fa_addr fa) sz with
    | Some (st, v) => if (st =? ST_OK)%Z then RVal v else RErr st
    | None => RUB
    end.

  Section Level.
    (** [internal_op] as called from read32/read64: ctl.caps = read_caps,
        ctl.op = read32_op/read64_op, same ctx (hence the current in-flight
        list) and same sys. *)
    Variable nested : list key -> fulladdr -> cres.

    (** read32 / read64 (ctx.c) *)
    Definition read (infl : list key) (fa : fulladdr) (sz : N) : rres :=
      match caps_has rcaps (fa_as fa) with
      | None => RUB
      | Some true => do_read fa sz
      | Some false =>
          match nested infl fa with
          | Call x => do_read x sz
          | Err st => RErr st
          | OutOfFuel => RFuel
          | UB => RUB
          end
      end.

    (** The loop of addrxlat_walk over the table levels of a PFN page table:
        [idxs] are idx[n-1] ... idx[1] (top level first), [base] is
        step->base.  Per level: base.addr += idx * elemsz (elemsz = PTE size);
        read the PTE at base; mask; zero = not present; base = pte <<
        fieldsz[0] in the target address space. *)
    Fixpoint pgt_levels (infl : list key) (tas : Z) (pte64 : bool) (mask sh0 : N)
             (idxs : list N) (base : fulladdr) : wres :=
      match idxs with
      | [] => WOk base
      | i :: tl =>
          let ptesz := if pte64 then 8 else 4 in
          let ea := FA (xadd (fa_addr base) (xmul i ptesz)) (fa_as base) in
          match read infl ea ptesz with
          | RVal raw =>
              let pte := N.ldiff raw mask in
              if pte =? 0 then WErr ST_NOTPRESENT
              else pgt_levels infl tas pte64 mask sh0 tl (FA (xshl pte sh0) tas)
          | RErr st => WErr st
          | RFuel => WFuel
          | RUB => WUB
          end
      end.

    (** The loop of addrxlat_walk for a page table of any format (entered
        with remain != 0):
          while (--step->remain) { base.addr += idx[remain] * elemsz;
                                   status = next_step(step); if (status != OK) return status; }
          base.as = target_as; base.addr += idx[0] * elemsz;
        [Step.advance] is the decrement and the addition; next_step reads the
        PTE at step->base (read_pte32/64) and hands it to the format. *)
    Fixpoint fwalk_loop (wf : nat) (infl : list key) (tgt : Step.aspace) (mask : N)
             (pf : Step.pform) (s : Step.step) : wres :=
      match wf with
      | O => WUB                                   (* the format's steps do not end *)
      | S wf' =>
          match Step.s_remain s with
          | O => WUB                               (* --remain wraps: idx[65535] *)
          | S r =>
              match Step.advance s r with
              | None => WUB                        (* idx[remain] was never stored *)
              | Some s1 =>
                  match r with
                  | O => WOk (FA (Step.s_base s1) (as_of tgt))
                  | S _ =>
                      let cont raw :=
                        let '(st, s2) := fmt_next tgt mask pf s1 raw in
                        match st_of st with
                        | None => WUB
                        | Some e => if (e =? ST_OK)%Z then fwalk_loop wf' infl tgt mask pf s2
                                    else WErr e
                        end in
                      match fmt_ptesz pf with
                      | None => cont 0
                      | Some sz =>
                          match read infl (FA (Step.s_base s1) (as_of (Step.s_as s1))) sz with
                          | RVal raw => cont raw
                          | RErr st => WErr st
                          | RFuel => WFuel
                          | RUB => WUB
                          end
                      end
                  end
              end
          end
      end.

    (** addrxlat_walk: first_step + the stepping loop, per method kind. *)
    Definition walk (infl : list key) (m : method) (addr : N) : wres :=
      match m with
      | MNone => WErr ST_NOMETH
      | MBadKind => WErr ST_NOTIMPL
      | MCustom f =>
          let '(st, fa) := f addr in
          if (st =? ST_OK)%Z then WOk fa else WErr st
      | MLinear tas off => WOk (FA (xadd off addr) tas)
      | MPgtF tgt ras root mask pf =>
          let '(st, s) := fmt_first ras root pf addr in
          match st_of st with
          | None => WUB
          | Some e =>
              if negb (e =? ST_OK)%Z then WErr e
              else match Step.s_remain s with
                   | O => WOk (FA (Step.s_base s) (as_of (Step.s_as s)))
                   | S _ => fwalk_loop wfuel infl tgt mask pf s
                   end
          end
      | MLookup tas endoff tbl =>
          match lookup_find tbl endoff addr with
          | Some (orig, dest) => WOk (FA (xadd dest (xsub addr orig)) tas)
          | None => WErr ST_NOTPRESENT
          end
      | MMemarr tas base shift elemsz valsz =>
          if 64 <=? shift then WUB
          else
            let idx0 := N.land addr (N.ones shift) in
            let idx1 := N.shiftr addr shift in
            let ea := FA (xadd (fa_addr base) (xmul idx1 elemsz)) (fa_as base) in
            if (valsz =? 4) || (valsz =? 8) then
              match read infl ea valsz with
              | RVal v => WOk (FA (xadd (xshl v shift) idx0) tas)
              | RErr st => WErr st
              | RFuel => WFuel
              | RUB => WUB
              end
            else WErr ST_NOTIMPL
      | MPgt tas root pte64 mask fields =>
          if (fa_as root =? AS_NOADDR)%Z then WErr ST_NODATA
          else if (8 <? length fields)%nat then WErr ST_NOTIMPL      (* "Too many paging levels" *)
          else match split_fields fields addr with
               | None => WUB
               | Some (idx, top) =>
                   if negb (top =? 0) then WErr ST_INVALID     (* step_check_uaddr *)
                   else match idx with
                        | [] => WOk root                        (* remain = 0 *)
                        | i0 :: upper =>
                            match pgt_levels infl tas pte64 mask (hd 0 fields)
                                             (rev upper) root with
                            | WOk b => WOk (FA (xadd (fa_addr b) i0) tas)
                            | r => r
                            end
                        end
               end
      end.

    (** do_op, inner loop: the alternatives of one chain element. *)
    Fixpoint do_alts (s : sys) (infl : list key) (caps : N) (alts : list N)
             (pa : fulladdr) : ares :=
      match alts with
      | [] => AExhausted
      | mapidx :: rest =>
          if negb (fa_as pa =? map_expect_as mapidx)%Z then do_alts s infl caps rest pa
          else match s_map s mapidx with
          | None => do_alts s infl caps rest pa
          | Some mp =>
              let methidx := xmap_search mp (fa_addr pa) in
              if (methidx =? NONE)%Z then do_alts s infl caps rest pa
              else match get_meth s methidx with
              | None => AReturn UB
              | Some (MLinear tas off) =>
                  let lastbase := FA (xadd (fa_addr pa) off) tas in
                  match caps_has caps tas with
                  | None => AReturn UB
                  | Some true => AReturn (Call lastbase)
                  | Some false => ABreak lastbase
                  end
              | Some m =>
                  match walk infl m (fa_addr pa) with
                  | WOk b =>
                      match caps_has caps (fa_as b) with
                      | None => AReturn UB
                      | Some true => AReturn (Call b)
                      | Some false => ABreak b
                      end
                  | WErr st =>
                      if (st =? ST_NOMETH)%Z || (st =? ST_NODATA)%Z
                      then do_alts s infl caps rest pa
                      else AReturn (Err st)
                  | WFuel => AReturn OutOfFuel
                  | WUB => AReturn UB
                  end
              end
          end
      end.

    (** do_op, outer loop *)
    Fixpoint do_chain (s : sys) (infl : list key) (caps : N) (ch : list (list N))
             (pa : fulladdr) : cres :=
      match ch with
      | [] => Err ST_NOMETH                      (* "No way to translate" *)
      | alts :: rest =>
          match do_alts s infl caps alts pa with
          | AReturn r => r
          | ABreak pa' => do_chain s infl caps rest pa'
          | AExhausted => do_chain s infl caps rest pa
          end
      end.
  End Level.

  (** addrxlat_op up to (not including) the push on the in-flight list:
      either the call is decided, or [do_op] must run on a chain. *)
  Definition choose_chain (caps : N) (as_ : Z) : option chain_id :=
    if (as_ =? AS_KV)%Z then Some KV2PHYS
    else if (as_ =? AS_KPHYS)%Z then
      Some (if N.testbit caps 1 then (if N.testbit caps 2 then KPHYS2ANY else KPHYS2MACHPHYS)
            else KPHYS2DIRECT)
    else if (as_ =? AS_MACHPHYS)%Z then Some MACHPHYS2DIRECT
    else None.

  Definition over_limit (infl : list key) : bool :=
    match lim with
    | None => false
    | Some n => (n <=? length infl)%nat
    end.

  Definition op_pre (infl : list key) (caps : N) (fa : fulladdr)
    : cres + (sys * key * chain_id) :=
    match caps_has caps (fa_as fa) with
    | None => inl UB
    | Some true => inl (Call fa)
    | Some false =>
        if N.land caps 7 =? 0 then inl (Err ST_NOMETH)        (* "No suitable capabilities" *)
        else match osys with
        | None => inl (Err ST_NOMETH)                         (* "No translation system" *)
        | Some s =>
            match choose_chain caps (fa_as fa) with
            | None => inl (Err ST_NOTIMPL)                    (* "Unrecognized address space" *)
            | Some c =>
                let k := (fa_addr fa, fa_as fa, c) in
                if existsb (key_eqb k) infl
                then inl (Err ST_NOMETH)                      (* "Infinite recursion loop" *)
                else if over_limit infl
                then inl (Err ST_NOMETH)                      (* "Translation nesting too deep" *)
                else inr (s, k, c)
            end
        end
    end.

  (** addrxlat_op without the final call of the operation, given the
      function that serves nested calls *)
  Definition op_body (nested : list key -> fulladdr -> cres)
             (infl : list key) (caps : N) (fa : fulladdr) : cres :=
    match op_pre infl caps fa with
    | inl r => r
    | inr (s, k, c) => do_chain nested s (k :: infl) caps (chain_tbl c) fa
    end.

  (** ... and with the recursion closed on fuel: nested calls come from
      read32/read64, hence with ctl.caps = read_caps *)
  Fixpoint op_core (fuel : nat) (infl : list key) (caps : N) (fa : fulladdr) : cres :=
    match fuel with
    | O => match op_pre infl caps fa with
           | inl r => r
           | inr _ => OutOfFuel
           end
    | S f => op_body (fun i a => op_core f i rcaps a) infl caps fa
    end.

  (** addrxlat_op: status and the list of addresses the operation was invoked
      on ([opret] is what the caller's operation returns). *)
  Inductive outcome := Done (st : Z) (calls : list fulladdr) | NoFuel | Undefined.

  Definition addrxlat_op (fuel : nat) (opret : fulladdr -> Z) (caps : N) (fa : fulladdr)
    : outcome :=
    match op_core fuel [] caps fa with
    | Call x => Done (opret x) [x]
    | Err st => Done st []
    | OutOfFuel => NoFuel
    | UB => Undefined
    end.

  (** addrxlat_fulladdr_conv: caps = ADDRXLAT_CAPS(as), op = storeaddr.
      Result: status and the content of [*faddr] afterwards. *)
  Inductive conv_outcome := Conv (st : Z) (fa : fulladdr) | ConvNoFuel | ConvUndefined.

  Definition fulladdr_conv (fuel : nat) (fa : fulladdr) (as_ : Z) : conv_outcome :=
    match addrxlat_op fuel (fun _ => ST_OK) (caps_of as_) fa with
    | Done st [] => Conv st fa
    | Done st (x :: _) => Conv st x
    | NoFuel => ConvNoFuel
    | Undefined => ConvUndefined
    end.
End Interp.

(** * The same interpreter with the read cache of ctx.c and a get-page
    callback that may re-enter the library.

    The cache ([ReadCache.cache]: four slots, the MRU ring) is threaded through
    every read.  The callback is described by
    - [gp as addr]: the region (start, size, bytes) it answers with, or the
      status it fails with, when it serves the address space itself;
    - [big as addr]: the byte order it stores in the buffer (ADDRXLAT_BIG_ENDIAN
      or not);
    - [backing as = Some as']: the callback serves space [as] by first calling
      [addrxlat_fulladdr_conv] (same context, same system) to convert the
      requested address to space [as'] -- this is how a dump reader that can
      read only one space serves the others (kdumpfile/vtop.c) -- and then
      answers with the region of [as'] around the converted address, shifted
      back; it fails with the status of the conversion if that fails.
    As in ReadCache.v the callback stores address, size and pointer into the
    buffer only when it returns.

    With a callback that can re-enter, *when* the operation of an
    [addrxlat_op] runs matters: sys.c calls it inside [do_op], i.e. while the
    record of that [addrxlat_op] is still on the in-flight list.  The
    operation is therefore a parameter ([opkind]): [KStore] is storeaddr /
    the caller's operation (the address is handed back), [KRead sz] is
    read32_op/read64_op -- the load through the cache, performed at the point
    of the call with the in-flight list of that moment. *)
Inductive opkind := KStore | KRead (sz : N).
Inductive xres := XCall (fa : fulladdr) | XVal (v : N) | XErr (st : Z) | XFuel | XUB.
Definition cache := ReadCache.cache.

(** little-/big-endian decoding of the bytes of a 32- or 64-bit load *)
Fixpoint decode_le (l : list N) : N :=
  match l with
  | [] => 0
  | b :: tl => b + 256 * decode_le tl
  end.
Definition decode (be : bool) (l : list N) : N :=
  if be then decode_le (rev l) else decode_le l.

(** what a load of [sz] bytes at ([as_], [a]) yields when the callback [gp]
    is asked directly (no cache): the memory function of section [Interp]
    that corresponds to a callback of section [Cached] *)
Definition mem_of (gp : N -> N -> Z + (N * N * list N)) (big : N -> N -> bool)
           (as_ : Z) (a sz : N) : option (Z * N) :=
  if negb (N.land a (sz - 1) =? 0) || (W <=? a) then None
  else match gp (Z.to_N as_) a with
       | inl st => Some (st, 0)
       | inr (b, s, d) =>
           if s <? (a - b) + sz then None
           else match ReadCache.cut d (a - b) sz with
                | ReadCache.RBytes l => Some (ST_OK, decode (big (Z.to_N as_) a) l)
                | _ => None
                end
       end.

Section Cached.
  Variable lim : option nat.
  Variable osys : option sys.
  Variable rcaps : N.
  Variable gp : N -> N -> Z + (N * N * list N).
  Variable big : N -> N -> bool.
  Variable backing : N -> option N.
  Variable fmt_first : Step.aspace -> N -> Step.pform -> N -> Step.status * Step.step.
  Variable fmt_next : Step.aspace -> N -> Step.pform -> Step.step -> N -> Step.status * Step.step.
  Variable fmt_ptesz : Step.pform -> option N.
  Variable wfuel : nat.

  (** [gp] as ReadCache.v wants it (status forgotten) *)
  Definition gp_region (a_as a : N) : option (N * N * list N) :=
    match gp a_as a with inr r => Some r | inl _ => None end.

  Inductive bres := BSlot (i : ReadCache.ix) | BErr (st : Z) | BFuel | BUB.

  Section LevelC.
    (** [internal_op] on the same context: from read32/read64 (caps =
        read_caps) and from the callback's addrxlat_fulladdr_conv (caps =
        the one target space) *)
    Variable nested : list key -> N -> opkind -> fulladdr -> cache -> xres * cache.

    (** the get-page callback for ([a_as], [a]), running while the slot of the
        miss is in progress: its answer and the cache it leaves *)
    Definition run_callback (infl : list key) (c : cache) (a_as a : N)
      : option (Z + (N * N * list N)) * cache * bool :=
      match backing a_as with
      | None => (Some (gp a_as a), c, false)
      | Some as' =>
            match nested infl (caps_of (Z.of_N as')) KStore (FA a (Z.of_N a_as)) c with
            | (XCall x, c') =>
                match gp as' (fa_addr x) with
                | inr (b, sz, d) =>
                    (* the region around the converted address, seen from [a] *)
                    (Some (inr (xsub a (xsub (fa_addr x) b), sz, d)), c', false)
                | inl st => (Some (inl st), c', false)
                end
            | (XErr st, c') => (Some (inl st), c', false)
            | (XFuel, c') => (None, c', true)
            | (XVal _, c') => (None, c', false)
            | (XUB, c') => (None, c', false)
            end
      end.

    (** get_cache_buf (ctx.c:114-153) *)
    Definition get_cache_buf (infl : list key) (c : cache) (a_as a : N) : bres * cache :=
      match ReadCache.find_slot c a_as a with
      | Some s =>
          match ReadCache.finish c s with
          | (c', ReadCache.GOk i) => (BSlot i, c')
          | (c', _) => (BErr ST_NODATA, c')                 (* "Infinite read recursion" *)
          end
      | None =>
          let '(c1, _, s) := ReadCache.miss_begin c a_as a in
          match run_callback infl c1 a_as a with
          | (None, c2, true) => (BFuel, c2)
          | (None, c2, false) => (BUB, c2)
          | (Some ans, c2, _) =>
              match ans with
              | inl st =>
                  let '(c3, _, _) := ReadCache.miss_end c2 s None in
                  if (st =? ST_OK)%Z then (BUB, c3)          (* "failed" with ADDRXLAT_OK *)
                  else (BErr st, c3)
              | inr r =>
                  match ReadCache.miss_end c2 s (Some r) with
                  | (c3, _, ReadCache.GOk i) => (BSlot i, c3)
                  | (c3, _, _) => (BErr ST_NODATA, c3)
                  end
              end
          end
      end.

    (** do_read32 / do_read64: the load through [buf->ptr + (addr - buf->addr)]
        and the byte-order conversion.  A misaligned pointer or a load that
        runs past the buffer is undefined. *)
    Definition do_read_c (infl : list key) (c : cache) (fa : fulladdr) (sz : N) : rres * cache :=
      let a_as := Z.to_N (fa_as fa) in
      let a := fa_addr fa in
      if negb (N.land a (sz - 1) =? 0) || (W <=? a) then (RUB, c)    (* (64-bit addresses) *)
      else match get_cache_buf infl c a_as a with
           | (BSlot i, c') =>
               match ReadCache.read_slot (ReadCache.get_slot c' i) a sz with
               | ReadCache.RBytes l => (RVal (decode (big a_as a) l), c')
               | _ => (RUB, c')
               end
           | (BErr st, c') => (RErr st, c')
           | (BFuel, c') => (RFuel, c')
           | (BUB, c') => (RUB, c')
           end.

    (** read32 / read64 *)
    Definition read_c (infl : list key) (c : cache) (fa : fulladdr) (sz : N) : rres * cache :=
      match caps_has rcaps (fa_as fa) with
      | None => (RUB, c)
      | Some true => do_read_c infl c fa sz
      | Some false =>
          match nested infl rcaps (KRead sz) fa c with
          | (XVal v, c') => (RVal v, c')
          | (XErr st, c') => (RErr st, c')
          | (XFuel, c') => (RFuel, c')
          | (XCall _, c') => (RUB, c')
          | (XUB, c') => (RUB, c')
          end
      end.

    Fixpoint pgt_levels_c (infl : list key) (tas : Z) (pte64 : bool) (mask sh0 : N)
             (idxs : list N) (base : fulladdr) (c : cache) : wres * cache :=
      match idxs with
      | [] => (WOk base, c)
      | i :: tl =>
          let ptesz := if pte64 then 8 else 4 in
          let ea := FA (xadd (fa_addr base) (xmul i ptesz)) (fa_as base) in
          match read_c infl c ea ptesz with
          | (RVal raw, c') =>
              let pte := N.ldiff raw mask in
              if pte =? 0 then (WErr ST_NOTPRESENT, c')
              else pgt_levels_c infl tas pte64 mask sh0 tl (FA (xshl pte sh0) tas) c'
          | (RErr st, c') => (WErr st, c')
          | (RFuel, c') => (WFuel, c')
          | (RUB, c') => (WUB, c')
          end
      end.

    Fixpoint fwalk_loop_c (wf : nat) (infl : list key) (tgt : Step.aspace) (mask : N)
             (pf : Step.pform) (s : Step.step) (c : cache) : wres * cache :=
      match wf with
      | O => (WUB, c)
      | S wf' =>
          match Step.s_remain s with
          | O => (WUB, c)
          | S r =>
              match Step.advance s r with
              | None => (WUB, c)
              | Some s1 =>
                  match r with
                  | O => (WOk (FA (Step.s_base s1) (as_of tgt)), c)
                  | S _ =>
                      let cont raw c' :=
                        let '(st, s2) := fmt_next tgt mask pf s1 raw in
                        match st_of st with
                        | None => (WUB, c')
                        | Some e => if (e =? ST_OK)%Z then fwalk_loop_c wf' infl tgt mask pf s2 c'
                                    else (WErr e, c')
                        end in
                      match fmt_ptesz pf with
                      | None => cont 0 c
                      | Some sz =>
                          match read_c infl c (FA (Step.s_base s1) (as_of (Step.s_as s1))) sz with
                          | (RVal raw, c') => cont raw c'
                          | (RErr st, c') => (WErr st, c')
                          | (RFuel, c') => (WFuel, c')
                          | (RUB, c') => (WUB, c')
                          end
                      end
                  end
              end
          end
      end.

    Definition walk_c (infl : list key) (m : method) (addr : N) (c : cache) : wres * cache :=
      match m with
      | MNone => (WErr ST_NOMETH, c)
      | MBadKind => (WErr ST_NOTIMPL, c)
      | MCustom f =>
          let '(st, fa) := f addr in
          if (st =? ST_OK)%Z then (WOk fa, c) else (WErr st, c)
      | MLinear tas off => (WOk (FA (xadd off addr) tas), c)
      | MLookup tas endoff tbl =>
          match lookup_find tbl endoff addr with
          | Some (orig, dest) => (WOk (FA (xadd dest (xsub addr orig)) tas), c)
          | None => (WErr ST_NOTPRESENT, c)
          end
      | MMemarr tas base shift elemsz valsz =>
          if 64 <=? shift then (WUB, c)
          else
            let idx0 := N.land addr (N.ones shift) in
            let idx1 := N.shiftr addr shift in
            let ea := FA (xadd (fa_addr base) (xmul idx1 elemsz)) (fa_as base) in
            if (valsz =? 4) || (valsz =? 8) then
              match read_c infl c ea valsz with
              | (RVal v, c') => (WOk (FA (xadd (xshl v shift) idx0) tas), c')
              | (RErr st, c') => (WErr st, c')
              | (RFuel, c') => (WFuel, c')
              | (RUB, c') => (WUB, c')
              end
            else (WErr ST_NOTIMPL, c)
      | MPgt tas root pte64 mask fields =>
          if (fa_as root =? AS_NOADDR)%Z then (WErr ST_NODATA, c)
          else if (8 <? length fields)%nat then (WErr ST_NOTIMPL, c)
          else match split_fields fields addr with
               | None => (WUB, c)
               | Some (idx, top) =>
                   if negb (top =? 0) then (WErr ST_INVALID, c)
                   else match idx with
                        | [] => (WOk root, c)
                        | i0 :: upper =>
                            match pgt_levels_c infl tas pte64 mask (hd 0 fields)
                                               (rev upper) root c with
                            | (WOk b, c') => (WOk (FA (xadd (fa_addr b) i0) tas), c')
                            | r => r
                            end
                        end
               end
      | MPgtF tgt ras root mask pf =>
          let '(st, s) := fmt_first ras root pf addr in
          match st_of st with
          | None => (WUB, c)
          | Some e =>
              if negb (e =? ST_OK)%Z then (WErr e, c)
              else match Step.s_remain s with
                   | O => (WOk (FA (Step.s_base s) (as_of (Step.s_as s))), c)
                   | S _ => fwalk_loop_c wfuel infl tgt mask pf s c
                   end
          end
      end.

    Fixpoint do_alts_c (s : sys) (infl : list key) (caps : N) (alts : list N)
             (pa : fulladdr) (c : cache) : ares * cache :=
      match alts with
      | [] => (AExhausted, c)
      | mapidx :: rest =>
          if negb (fa_as pa =? map_expect_as mapidx)%Z then do_alts_c s infl caps rest pa c
          else match s_map s mapidx with
          | None => do_alts_c s infl caps rest pa c
          | Some mp =>
              let methidx := xmap_search mp (fa_addr pa) in
              if (methidx =? NONE)%Z then do_alts_c s infl caps rest pa c
              else match get_meth s methidx with
              | None => (AReturn UB, c)
              | Some (MLinear tas off) =>
                  let lastbase := FA (xadd (fa_addr pa) off) tas in
                  match caps_has caps tas with
                  | None => (AReturn UB, c)
                  | Some true => (AReturn (Call lastbase), c)
                  | Some false => (ABreak lastbase, c)
                  end
              | Some m =>
                  match walk_c infl m (fa_addr pa) c with
                  | (WOk b, c') =>
                      match caps_has caps (fa_as b) with
                      | None => (AReturn UB, c')
                      | Some true => (AReturn (Call b), c')
                      | Some false => (ABreak b, c')
                      end
                  | (WErr st, c') =>
                      if (st =? ST_NOMETH)%Z || (st =? ST_NODATA)%Z
                      then do_alts_c s infl caps rest pa c'
                      else (AReturn (Err st), c')
                  | (WFuel, c') => (AReturn OutOfFuel, c')
                  | (WUB, c') => (AReturn UB, c')
                  end
              end
          end
      end.

    Fixpoint do_chain_c (s : sys) (infl : list key) (caps : N) (ch : list (list N))
             (pa : fulladdr) (c : cache) : cres * cache :=
      match ch with
      | [] => (Err ST_NOMETH, c)
      | alts :: rest =>
          match do_alts_c s infl caps alts pa c with
          | (AReturn r, c') => (r, c')
          | (ABreak pa', c') => do_chain_c s infl caps rest pa' c'
          | (AExhausted, c') => do_chain_c s infl caps rest pa c'
          end
      end.
    (** [ctl->op(ctl->data, x)], called with [infl] in flight *)
    Definition finish_op (kind : opkind) (infl : list key) (x : fulladdr) (c : cache)
      : xres * cache :=
      match kind with
      | KStore => (XCall x, c)
      | KRead sz =>
          match do_read_c infl c x sz with
          | (RVal v, c') => (XVal v, c')
          | (RErr st, c') => (XErr st, c')
          | (RFuel, c') => (XFuel, c')
          | (RUB, c') => (XUB, c')
          end
      end.

    (** addrxlat_op given the function that serves nested calls: the
        operation runs before the record is popped *)
    Definition op_body_c (kind : opkind) (infl : list key) (caps : N) (fa : fulladdr) (c : cache)
      : xres * cache :=
      match op_pre lim osys infl caps fa with
      | inl (Call a) => finish_op kind infl a c
      | inl (Err st) => (XErr st, c)
      | inl OutOfFuel => (XFuel, c)
      | inl UB => (XUB, c)
      | inr (s, k, ch) =>
          match do_chain_c s (k :: infl) caps (chain_tbl ch) fa c with
          | (Call x, c') => finish_op kind (k :: infl) x c'
          | (Err st, c') => (XErr st, c')
          | (OutOfFuel, c') => (XFuel, c')
          | (UB, c') => (XUB, c')
          end
      end.
  End LevelC.

  Definition no_fuel : list key -> N -> opkind -> fulladdr -> cache -> xres * cache :=
    fun _ _ _ _ c => (XFuel, c).

  Fixpoint op_core_c (fuel : nat) (infl : list key) (caps : N) (kind : opkind) (fa : fulladdr)
           (c : cache) : xres * cache :=
    match fuel with
    | O => match op_pre lim osys infl caps fa with
           | inr _ => (XFuel, c)
           | inl _ => op_body_c no_fuel kind infl caps fa c
           end
    | S f => op_body_c (op_core_c f) kind infl caps fa c
    end.

  (** addrxlat_op / addrxlat_fulladdr_conv on a context whose cache is [c] *)
  Definition addrxlat_op_c (fuel : nat) (opret : fulladdr -> Z) (caps : N) (fa : fulladdr)
             (c : cache) : outcome * cache :=
    match op_core_c fuel [] caps KStore fa c with
    | (XCall x, c') => (Done (opret x) [x], c')
    | (XErr st, c') => (Done st [], c')
    | (XFuel, c') => (NoFuel, c')
    | (XVal _, c') => (Undefined, c')
    | (XUB, c') => (Undefined, c')
    end.

  Definition fulladdr_conv_c (fuel : nat) (fa : fulladdr) (as_ : Z) (c : cache)
    : conv_outcome * cache :=
    match addrxlat_op_c fuel (fun _ => ST_OK) (caps_of as_) fa c with
    | (Done st [], c') => (Conv st fa, c')
    | (Done st (x :: _), c') => (Conv st x, c')
    | (NoFuel, c') => (ConvNoFuel, c')
    | (Undefined, c') => (ConvUndefined, c')
    end.
End Cached.

(** The depth limit of the repaired tree (MAX_OP_DEPTH in sys.c). *)
Definition MAX_OP_DEPTH : nat := 16.
