(** Model of the address-space conversion interpreter of libaddrxlat:
    src/addrxlat/sys.c  (chain tables, [map_expect_as], [do_op], [addrxlat_op],
    [addrxlat_fulladdr_conv]),  src/addrxlat/step.c  ([addrxlat_walk] with the
    first/next step functions of the method kinds none / custom / linear /
    page table (PFN32, PFN64 entries) / lookup / memory array)  and
    src/addrxlat/ctx.c  ([read32] / [read64]: read directly when the read
    callback can, otherwise through a nested [addrxlat_op] -- the recursion of
    the real code).

    Conventions.
    - Addresses are [N] with wrap-around written out ([Wrap64]); address
      spaces and statuses are [Z] (the C enumerators, which are signed).
    - Every invocation of the caller's operation in sys.c has the form
      [return ctl->op(ctl->data, x)]; the core interpreter therefore returns
      [Call x] ("the result of the call is whatever the operation returns on
      [x]") and [addrxlat_op] turns that into the event list of the operation.
    - The in-flight list of [struct inflight] records lives on the C stack and
      is pushed/popped around [do_op]; here it is the argument [infl].
    - Recursion: [op_core] recurses through [read]; the recursion is on
      explicit [fuel], one unit per nesting level of [addrxlat_op] (a unit is
      consumed exactly when a record is pushed on the in-flight list).
    - [lim] is the recursion depth limit: [None] is the pinned tree (no
      limit), [Some 16] the tree with fixes/30-op-depth-limit.patch.
    - Undefined behaviour is an outcome ([UB]): [ADDRXLAT_CAPS(as)] with [as]
      outside [0, 63] (shift count), a method index outside the [meth] array,
      more than [ADDRXLAT_FIELDS_MAX] address fields, a field or memory-array
      shift of 64 bits or more.
    - The memory behind the get-page callback is the function [mem as addr
      size] returning the callback's status and the loaded value; the 4-slot
      read cache of ctx.c is transparent for such a callback and not
      modelled here (see design.d/C09.md).
    No proofs in this file. *)
From Coq Require Import NArith ZArith List Bool.
From KdV Require Import Base.Wrap64 Map.MapModel.
Import ListNotations.
Local Open Scope N_scope.

(** addrxlat_status *)
Definition ST_OK : Z := 0%Z.
Definition ST_NOTIMPL : Z := 1%Z.
Definition ST_NOTPRESENT : Z := 2%Z.
Definition ST_INVALID : Z := 3%Z.
Definition ST_NOMEM : Z := 4%Z.
Definition ST_NODATA : Z := 5%Z.
Definition ST_NOMETH : Z := 6%Z.

(** addrxlat_addrspace_t *)
Definition AS_KPHYS : Z := 0%Z.
Definition AS_MACHPHYS : Z := 1%Z.
Definition AS_KV : Z := 2%Z.
Definition AS_NOADDR : Z := (-1)%Z.

Record fulladdr := FA { fa_addr : N; fa_as : Z }.

(** 64-bit arithmetic.  These are [Wrap64.wadd] etc. with the reduction
    modulo 2^64 written as a mask, which is what runs fast after extraction;
    SysProofs.v proves [xadd = wadd], [xsub = wsub], [xmul = wmul],
    [xshl = wshl] and [xmap_search = MapModel.map_search]. *)
Definition MASK64 : N := 18446744073709551615.     (* N.ones 64 *)
Definition xw (x : N) : N := N.land x MASK64.
Definition xadd (a b : N) : N := xw (a + b).
Definition xsub (a b : N) : N := xw (a + W - xw b).
Definition xmul (a b : N) : N := xw (a * b).
Definition xshl (a k : N) : N := xw (N.shiftl a k).

(** internal_map_search (map.c), as in [MapModel.map_search] *)
Fixpoint xmap_search_from (m : map) (raddr addr : N) : Z :=
  match m with
  | [] => NONE
  | r :: m' =>
      if addr <=? xadd raddr (endoff r) then MapModel.meth r
      else xmap_search_from m' (xadd raddr (xadd (endoff r) 1)) addr
  end.
Definition xmap_search (m : map) (addr : N) : Z := xmap_search_from m 0 addr.

(** addrxlat_sys_map_t *)
Definition MAP_HW : N := 0.
Definition MAP_KV_PHYS : N := 1.
Definition MAP_KPHYS_DIRECT : N := 2.
Definition MAP_MACHPHYS_KPHYS : N := 3.
Definition MAP_KPHYS_MACHPHYS : N := 4.

(** Translation methods ([addrxlat_meth_t]).  [MCustom f]: a custom method
    whose first-step function completes the translation itself (it returns a
    status and, on success, the final [step->base] with [remain = 0]). *)
Inductive method :=
| MNone
| MBadKind
| MCustom (f : N -> Z * fulladdr)
| MLinear (tas : Z) (off : N)
| MPgt (tas : Z) (root : fulladdr) (pte64 : bool) (pte_mask : N) (fields : list N)
| MLookup (tas : Z) (endoff : N) (tbl : list (N * N))
| MMemarr (tas : Z) (base : fulladdr) (shift elemsz valsz : N).

(** [addrxlat_sys_t]: [s_map i] is [sys->map[i]] ([None] = NULL), [s_meth]
    the [meth] array ([ADDRXLAT_SYS_METH_NUM] = 16 slots). *)
Record sys := { s_map : N -> option map; s_meth : list method }.

Definition get_meth (s : sys) (idx : Z) : option method :=
  if (idx <? 0)%Z then None else nth_error (s_meth s) (Z.to_nat idx).

(** The chain tables (sys.c:434-464): a chain is a list of alternatives, an
    alternative a list of map indices. *)
Inductive chain_id := KV2PHYS | KPHYS2MACHPHYS | KPHYS2DIRECT | KPHYS2ANY | MACHPHYS2DIRECT.

Definition chain_tbl (c : chain_id) : list (list N) :=
  match c with
  | KV2PHYS => [[MAP_KV_PHYS; MAP_HW]; [MAP_MACHPHYS_KPHYS; MAP_KPHYS_MACHPHYS]]
  | KPHYS2MACHPHYS => [[MAP_KPHYS_MACHPHYS]]
  | KPHYS2DIRECT => [[MAP_KPHYS_DIRECT]]
  | KPHYS2ANY => [[MAP_KPHYS_MACHPHYS; MAP_KPHYS_DIRECT]]
  | MACHPHYS2DIRECT => [[MAP_MACHPHYS_KPHYS]; [MAP_KPHYS_DIRECT]]
  end.

Definition chain_eqb (a b : chain_id) : bool :=
  match a, b with
  | KV2PHYS, KV2PHYS | KPHYS2MACHPHYS, KPHYS2MACHPHYS | KPHYS2DIRECT, KPHYS2DIRECT
  | KPHYS2ANY, KPHYS2ANY | MACHPHYS2DIRECT, MACHPHYS2DIRECT => true
  | _, _ => false
  end.

(** map_expect_as (sys.c:467) *)
Definition map_expect_as (mapidx : N) : Z :=
  if mapidx =? MAP_HW then AS_KV
  else if mapidx =? MAP_KV_PHYS then AS_KV
  else if mapidx =? MAP_KPHYS_DIRECT then AS_KPHYS
  else if mapidx =? MAP_MACHPHYS_KPHYS then AS_MACHPHYS
  else AS_KPHYS.

(** [caps & ADDRXLAT_CAPS(as)], [ADDRXLAT_CAPS(val) = 1UL << (unsigned)(val)] *)
Definition caps_has (caps : N) (as_ : Z) : option bool :=
  if ((0 <=? as_) && (as_ <? 64))%Z then Some (N.testbit caps (Z.to_N as_)) else None.

(** struct inflight: (faddr.addr, faddr.as, chain) *)
Definition key := (N * Z * chain_id)%type.
Definition key_eqb (a b : key) : bool :=
  let '(aa, asa, ca) := a in
  let '(ab, asb, cb) := b in
  (aa =? ab) && (asa =? asb)%Z && chain_eqb ca cb.

Inductive cres := Call (fa : fulladdr) | Err (st : Z) | OutOfFuel | UB.
Inductive rres := RVal (v : N) | RErr (st : Z) | RFuel | RUB.
Inductive wres := WOk (fa : fulladdr) | WErr (st : Z) | WFuel | WUB.
Inductive ares := AReturn (r : cres) | ABreak (pa : fulladdr) | AExhausted.

(** first_step_lookup: the first element that contains [addr]
    ([elem->orig <= addr && addr <= elem->orig + lookup->endoff], the sum wraps) *)
Fixpoint lookup_find (tbl : list (N * N)) (endoff addr : N) : option (N * N) :=
  match tbl with
  | [] => None
  | (orig, dest) :: tl =>
      if (orig <=? addr) && (addr <=? xadd orig endoff) then Some (orig, dest)
      else lookup_find tl endoff addr
  end.

(** first_step_pgt_generic: split [addr] into the index array; [None] when a
    field is 64 bits or wider ([addr >>= bits] is undefined).  Returns
    (idx[0..n-1], idx[n]). *)
Fixpoint split_fields (fields : list N) (addr : N) : option (list N * N) :=
  match fields with
  | [] => Some ([], addr)
  | bits :: tl =>
      if 64 <=? bits then None
      else match split_fields tl (N.shiftr addr bits) with
           | None => None
           | Some (idx, top) => Some (N.land addr (N.ones bits) :: idx, top)
           end
  end.

Section Interp.
  Variable lim : option nat.
  Variable osys : option sys.            (* ctl->sys, may be NULL *)
  Variable rcaps : N.                    (* ctx->cb->read_caps(ctx->cb) *)
  Variable mem : Z -> N -> N -> Z * N.   (* get-page callback + load: as, addr, size *)

  (** do_read32 / do_read64 *)
  Definition do_read (fa : fulladdr) (sz : N) : rres :=
    let '(st, v) := mem (fa_as fa) (fa_addr fa) sz in
    if (st =? ST_OK)%Z then RVal v else RErr st.

  Section Level.
    (** [internal_op] as called from read32/read64: ctl.caps = read_caps,
        ctl.op = read32_op/read64_op, same ctx (hence the current in-flight
        list) and same sys. *)
    Variable nested : list key -> fulladdr -> cres.

    (** read32 / read64 (ctx.c) *)
    Definition read (infl : list key) (fa : fulladdr) (sz : N) : rres :=
      match caps_has rcaps (fa_as fa) with
      | None => RUB
      | Some true => do_read fa sz
      | Some false =>
          match nested infl fa with
          | Call x => do_read x sz
          | Err st => RErr st
          | OutOfFuel => RFuel
          | UB => RUB
          end
      end.

    (** The loop of addrxlat_walk over the table levels of a PFN page table:
        [idxs] are idx[n-1] ... idx[1] (top level first), [base] is
        step->base.  Per level: base.addr += idx * elemsz (elemsz = PTE size);
        read the PTE at base; mask; zero = not present; base = pte <<
        fieldsz[0] in the target address space. *)
    Fixpoint pgt_levels (infl : list key) (tas : Z) (pte64 : bool) (mask sh0 : N)
             (idxs : list N) (base : fulladdr) : wres :=
      match idxs with
      | [] => WOk base
      | i :: tl =>
          let ptesz := if pte64 then 8 else 4 in
          let ea := FA (xadd (fa_addr base) (xmul i ptesz)) (fa_as base) in
          match read infl ea ptesz with
          | RVal raw =>
              let pte := N.ldiff raw mask in
              if pte =? 0 then WErr ST_NOTPRESENT
              else pgt_levels infl tas pte64 mask sh0 tl (FA (xshl pte sh0) tas)
          | RErr st => WErr st
          | RFuel => WFuel
          | RUB => WUB
          end
      end.

    (** addrxlat_walk: first_step + the stepping loop, per method kind. *)
    Definition walk (infl : list key) (m : method) (addr : N) : wres :=
      match m with
      | MNone => WErr ST_NOMETH
      | MBadKind => WErr ST_NOTIMPL
      | MCustom f =>
          let '(st, fa) := f addr in
          if (st =? ST_OK)%Z then WOk fa else WErr st
      | MLinear tas off => WOk (FA (xadd off addr) tas)
      | MLookup tas endoff tbl =>
          match lookup_find tbl endoff addr with
          | Some (orig, dest) => WOk (FA (xadd dest (xsub addr orig)) tas)
          | None => WErr ST_NOTPRESENT
          end
      | MMemarr tas base shift elemsz valsz =>
          if 64 <=? shift then WUB
          else
            let idx0 := N.land addr (N.ones shift) in
            let idx1 := N.shiftr addr shift in
            let ea := FA (xadd (fa_addr base) (xmul idx1 elemsz)) (fa_as base) in
            if (valsz =? 4) || (valsz =? 8) then
              match read infl ea valsz with
              | RVal v => WOk (FA (xadd (xshl v shift) idx0) tas)
              | RErr st => WErr st
              | RFuel => WFuel
              | RUB => WUB
              end
            else WErr ST_NOTIMPL
      | MPgt tas root pte64 mask fields =>
          if (fa_as root =? AS_NOADDR)%Z then WErr ST_NODATA
          else if (8 <? length fields)%nat then WUB
          else match split_fields fields addr with
               | None => WUB
               | Some (idx, top) =>
                   if negb (top =? 0) then WErr ST_INVALID     (* step_check_uaddr *)
                   else match idx with
                        | [] => WOk root                        (* remain = 0 *)
                        | i0 :: upper =>
                            match pgt_levels infl tas pte64 mask (hd 0 fields)
                                             (rev upper) root with
                            | WOk b => WOk (FA (xadd (fa_addr b) i0) tas)
                            | r => r
                            end
                        end
               end
      end.

    (** do_op, inner loop: the alternatives of one chain element. *)
    Fixpoint do_alts (s : sys) (infl : list key) (caps : N) (alts : list N)
             (pa : fulladdr) : ares :=
      match alts with
      | [] => AExhausted
      | mapidx :: rest =>
          if negb (fa_as pa =? map_expect_as mapidx)%Z then do_alts s infl caps rest pa
          else match s_map s mapidx with
          | None => do_alts s infl caps rest pa
          | Some mp =>
              let methidx := xmap_search mp (fa_addr pa) in
              if (methidx =? NONE)%Z then do_alts s infl caps rest pa
              else match get_meth s methidx with
              | None => AReturn UB
              | Some (MLinear tas off) =>
                  let lastbase := FA (xadd (fa_addr pa) off) tas in
                  match caps_has caps tas with
                  | None => AReturn UB
                  | Some true => AReturn (Call lastbase)
                  | Some false => ABreak lastbase
                  end
              | Some m =>
                  match walk infl m (fa_addr pa) with
                  | WOk b =>
                      match caps_has caps (fa_as b) with
                      | None => AReturn UB
                      | Some true => AReturn (Call b)
                      | Some false => ABreak b
                      end
                  | WErr st =>
                      if (st =? ST_NOMETH)%Z || (st =? ST_NODATA)%Z
                      then do_alts s infl caps rest pa
                      else AReturn (Err st)
                  | WFuel => AReturn OutOfFuel
                  | WUB => AReturn UB
                  end
              end
          end
      end.

    (** do_op, outer loop *)
    Fixpoint do_chain (s : sys) (infl : list key) (caps : N) (ch : list (list N))
             (pa : fulladdr) : cres :=
      match ch with
      | [] => Err ST_NOMETH                      (* "No way to translate" *)
      | alts :: rest =>
          match do_alts s infl caps alts pa with
          | AReturn r => r
          | ABreak pa' => do_chain s infl caps rest pa'
          | AExhausted => do_chain s infl caps rest pa
          end
      end.
  End Level.

  (** addrxlat_op up to (not including) the push on the in-flight list:
      either the call is decided, or [do_op] must run on a chain. *)
  Definition choose_chain (caps : N) (as_ : Z) : option chain_id :=
    if (as_ =? AS_KV)%Z then Some KV2PHYS
    else if (as_ =? AS_KPHYS)%Z then
      Some (if N.testbit caps 1 then (if N.testbit caps 2 then KPHYS2ANY else KPHYS2MACHPHYS)
            else KPHYS2DIRECT)
    else if (as_ =? AS_MACHPHYS)%Z then Some MACHPHYS2DIRECT
    else None.

  Definition over_limit (infl : list key) : bool :=
    match lim with
    | None => false
    | Some n => (n <=? length infl)%nat
    end.

  Definition op_pre (infl : list key) (caps : N) (fa : fulladdr)
    : cres + (sys * key * chain_id) :=
    match caps_has caps (fa_as fa) with
    | None => inl UB
    | Some true => inl (Call fa)
    | Some false =>
        if N.land caps 7 =? 0 then inl (Err ST_NOMETH)        (* "No suitable capabilities" *)
        else match osys with
        | None => inl (Err ST_NOMETH)                         (* "No translation system" *)
        | Some s =>
            match choose_chain caps (fa_as fa) with
            | None => inl (Err ST_NOTIMPL)                    (* "Unrecognized address space" *)
            | Some c =>
                let k := (fa_addr fa, fa_as fa, c) in
                if existsb (key_eqb k) infl
                then inl (Err ST_NOMETH)                      (* "Infinite recursion loop" *)
                else if over_limit infl
                then inl (Err ST_NOMETH)                      (* "Translation nesting too deep" *)
                else inr (s, k, c)
            end
        end
    end.

  (** addrxlat_op without the final call of the operation, given the
      function that serves nested calls *)
  Definition op_body (nested : list key -> fulladdr -> cres)
             (infl : list key) (caps : N) (fa : fulladdr) : cres :=
    match op_pre infl caps fa with
    | inl r => r
    | inr (s, k, c) => do_chain nested s (k :: infl) caps (chain_tbl c) fa
    end.

  (** ... and with the recursion closed on fuel: nested calls come from
      read32/read64, hence with ctl.caps = read_caps *)
  Fixpoint op_core (fuel : nat) (infl : list key) (caps : N) (fa : fulladdr) : cres :=
    match fuel with
    | O => match op_pre infl caps fa with
           | inl r => r
           | inr _ => OutOfFuel
           end
    | S f => op_body (fun i a => op_core f i rcaps a) infl caps fa
    end.

  (** addrxlat_op: status and the list of addresses the operation was invoked
      on ([opret] is what the caller's operation returns). *)
  Inductive outcome := Done (st : Z) (calls : list fulladdr) | NoFuel | Undefined.

  Definition addrxlat_op (fuel : nat) (opret : fulladdr -> Z) (caps : N) (fa : fulladdr)
    : outcome :=
    match op_core fuel [] caps fa with
    | Call x => Done (opret x) [x]
    | Err st => Done st []
    | OutOfFuel => NoFuel
    | UB => Undefined
    end.

  (** addrxlat_fulladdr_conv: caps = ADDRXLAT_CAPS(as), op = storeaddr.
      Result: status and the content of [*faddr] afterwards. *)
  Inductive conv_outcome := Conv (st : Z) (fa : fulladdr) | ConvNoFuel | ConvUndefined.

  Definition fulladdr_conv (fuel : nat) (fa : fulladdr) (as_ : Z) : conv_outcome :=
    if negb ((0 <=? as_) && (as_ <? 64))%Z then ConvUndefined
    else match addrxlat_op fuel (fun _ => ST_OK) (N.shiftl 1 (Z.to_N as_)) fa with
         | Done st [] => Conv st fa
         | Done st (x :: _) => Conv st x
         | NoFuel => ConvNoFuel
         | Undefined => ConvUndefined
         end.
End Interp.

(** The depth limit of the repaired tree (MAX_OP_DEPTH in sys.c). *)
Definition MAX_OP_DEPTH : nat := 16.
