(** C09, specification: what "address-space conversion" means, written from
    the documentation of the translation system (addrxlat.h: maps select
    methods per address, each map expects one address space, methods are
    linear / lookup / memory array / page table / custom) and not from sys.c.

    A conversion of [a] under the capability mask [caps]:
    - if [a] already lies in a usable address space it is [a] itself and
      nothing else ("an address already in a usable space is passed through
      unchanged");
    - otherwise one of the system's maps that expects [a]'s address space
      selects a translation method for [a], the method translates [a] to some
      [c], and the conversion continues from [c].
    Methods that consult target memory (memory arrays, page tables) read it at
    a full address that is itself converted to a space the read callback can
    read ([rd]), so a conversion is a finite tree of conversions.  The
    relations are indexed by the two finite measures of such a tree: [d], the
    nesting depth of memory reads, and [len], the number of methods applied
    in a row; [conv] is "for some [d] and [len]".

    There is no reference to chains, alternatives, fall-through order,
    in-flight records or fuel here.

    Page tables of an arbitrary format are described by the format's
    first-step function, its transition on a raw PTE and its PTE size (the
    parameters [fmt_first], [fmt_next], [fmt_ptesz], as in ChainInterp.v).

    [conv_all d len] enumerates exactly the conversions of measure [(d, len)]
    (SysProofs.v: sound and complete); [judge] evaluates the property on one
    observed run of an implementation. *)
From Coq Require Import NArith ZArith List Bool.
From KdV Require Import Base.Wrap64 Map.MapModel Sys.ChainInterp.
From KdV Require Xlat.Step.
Import ListNotations.
Local Open Scope N_scope.

Definition in_caps (caps : N) (as_ : Z) : Prop :=
  (0 <= as_ < 64)%Z /\ N.testbit caps (Z.to_N as_) = true.

Definition in_capsb (caps : N) (as_ : Z) : bool :=
  ((0 <=? as_) && (as_ <? 64))%Z && N.testbit caps (Z.to_N as_).

Definition ALL_MAPS : list N := [0; 1; 2; 3; 4].

Section Spec.
  Variable s : sys.
  Variable rcaps : N.
  Variable mem : Z -> N -> N -> option (Z * N).
  Variable fmt_first : Step.aspace -> N -> Step.pform -> N -> Step.status * Step.step.
  Variable fmt_next : Step.aspace -> N -> Step.pform -> Step.step -> N -> Step.status * Step.step.
  Variable fmt_ptesz : Step.pform -> option N.
  (** page-table walks of at most [wf] steps are considered (a format whose
      steps never end translates nothing) *)
  Variable wf : nat.

  (** ** One method, given what reading target memory yields *)
  Section WithReads.
    (** [rd fa sz v]: a [sz]-byte read at the full address [fa] can yield [v] *)
    Variable rd : fulladdr -> N -> N -> Prop.

    (** a hierarchy of page-frame-number tables, top level first: the entry
        for index [i] is at [base + i * (entry size)]; an entry that is zero
        after masking is not present; the next level (finally the page) starts
        at [entry << page shift] in the target address space *)
    Inductive tables (tas : Z) (pte64 : bool) (mask sh0 : N)
      : list N -> fulladdr -> fulladdr -> Prop :=
    | tables_nil base : tables tas pte64 mask sh0 [] base base
    | tables_cons i tl base raw b :
        rd (FA (wadd (fa_addr base) (wmul i (if pte64 then 8 else 4))) (fa_as base))
           (if pte64 then 8 else 4) raw ->
        N.ldiff raw mask <> 0 ->
        tables tas pte64 mask sh0 tl (FA (wshl (N.ldiff raw mask) sh0) tas) b ->
        tables tas pte64 mask sh0 (i :: tl) base b.

    (** a page table of any format: from the state the first step left, each
        level adds its index to the table base, reads the entry there and lets
        the format decide; the last index is the offset into the page *)
    Inductive fwalk (tgt : Step.aspace) (mask : N) (pf : Step.pform)
      : nat -> Step.step -> fulladdr -> Prop :=
    | fwalk_last n st s1 :
        Step.s_remain st = 1%nat -> Step.advance st 0 = Some s1 ->
        fwalk tgt mask pf (S n) st (FA (Step.s_base s1) (as_of tgt))
    | fwalk_level n st r s1 raw s2 b :
        Step.s_remain st = S (S r) -> Step.advance st (S r) = Some s1 ->
        match fmt_ptesz pf with
        | Some sz => rd (FA (Step.s_base s1) (as_of (Step.s_as s1))) sz raw
        | None => raw = 0
        end ->
        fmt_next tgt mask pf s1 raw = (Step.OK, s2) ->
        fwalk tgt mask pf n s2 b ->
        fwalk tgt mask pf (S n) st b.

    Inductive xlat : method -> N -> fulladdr -> Prop :=
    | xlat_custom f a b : f a = (ST_OK, b) -> xlat (MCustom f) a b
    | xlat_linear tas off a : xlat (MLinear tas off) a (FA (wadd a off) tas)
    | xlat_lookup tas endoff tbl a orig dest :
        In (orig, dest) tbl -> orig <= a -> a <= orig + endoff ->
        xlat (MLookup tas endoff tbl) a (FA (wadd dest (wsub a orig)) tas)
    | xlat_memarr tas base shift elemsz valsz a v :
        shift < 64 -> valsz = 4 \/ valsz = 8 ->
        rd (FA (wadd (fa_addr base) (wmul (N.shiftr a shift) elemsz)) (fa_as base)) valsz v ->
        xlat (MMemarr tas base shift elemsz valsz) a
             (FA (wadd (wshl v shift) (N.land a (N.ones shift))) tas)
    | xlat_pgt tas root pte64 mask fields a (idx : list N) b :
        fa_as root <> AS_NOADDR ->
        split_fields fields a = Some (idx, 0) ->
        tables tas pte64 mask (hd 0 fields) (rev (tl idx)) root b ->
        xlat (MPgt tas root pte64 mask fields) a
             (match idx with [] => root | i0 :: _ => FA (wadd (fa_addr b) i0) tas end)
    | xlat_pgtf_done tgt ras root mask pf a st :
        fmt_first ras root pf a = (Step.OK, st) -> Step.s_remain st = 0%nat ->
        xlat (MPgtF tgt ras root mask pf) a (FA (Step.s_base st) (as_of (Step.s_as st)))
    | xlat_pgtf_walk tgt ras root mask pf a st b :
        fmt_first ras root pf a = (Step.OK, st) -> Step.s_remain st <> 0%nat ->
        fwalk tgt mask pf wf st b ->
        xlat (MPgtF tgt ras root mask pf) a b.

    (** one map applied to an address in the space the map expects *)
    Inductive step1 : fulladdr -> fulladdr -> Prop :=
    | step1_map a b mapidx mp m :
        In mapidx ALL_MAPS ->
        fa_as a = map_expect_as mapidx ->
        s_map s mapidx = Some mp ->
        get_meth s (map_search mp (fa_addr a)) = Some m ->
        xlat m (fa_addr a) b ->
        step1 a b.

    (** at most [len] methods in a row, stopping at the first address in a
        usable space *)
    Inductive path (caps : N) : nat -> fulladdr -> fulladdr -> Prop :=
    | path_done len a : in_caps caps (fa_as a) -> path caps len a a
    | path_step len a c b :
        ~ in_caps caps (fa_as a) -> step1 a c -> path caps len c b -> path caps (S len) a b.
  End WithReads.

  (** ** Conversions of read-nesting depth at most [d] *)
  Fixpoint convB (d len : nat) (caps : N) (a b : fulladdr) : Prop :=
    match d with
    | O => in_caps caps (fa_as a) /\ b = a
    | S d' =>
        path (fun fa sz v => exists fa', convB d' len rcaps fa fa' /\
                                         mem (fa_as fa') (fa_addr fa') sz = Some (ST_OK, v))
             caps len a b
    end.

  (** the content of target memory at a full address, through a conversion
      of depth at most [d] to a space the read callback can read *)
  Definition rdB (d len : nat) (fa : fulladdr) (sz v : N) : Prop :=
    exists fa', convB d len rcaps fa fa' /\ mem (fa_as fa') (fa_addr fa') sz = Some (ST_OK, v).

  Definition conv (caps : N) (a b : fulladdr) : Prop := exists d len, convB d len caps a b.

  (** ** Executable enumeration *)

  Fixpoint lookup_all (tbl : list (N * N)) (endoff a : N) (tas : Z) : list fulladdr :=
    match tbl with
    | [] => []
    | (orig, dest) :: tl =>
        (if (orig <=? a) && (a <=? orig + endoff)
         then [FA (wadd dest (wsub a orig)) tas] else [])
        ++ lookup_all tl endoff a tas
    end.

  Section Depth.
    Variable rd : fulladdr -> N -> list N.

    Fixpoint tables_all (tas : Z) (pte64 : bool) (mask sh0 : N) (idxs : list N)
             (base : fulladdr) : list fulladdr :=
      match idxs with
      | [] => [base]
      | i :: tl =>
          let ptesz := if pte64 then 8 else 4 in
          flat_map (fun raw =>
                      if N.ldiff raw mask =? 0 then []
                      else tables_all tas pte64 mask sh0 tl
                                      (FA (wshl (N.ldiff raw mask) sh0) tas))
                   (rd (FA (wadd (fa_addr base) (wmul i ptesz)) (fa_as base)) ptesz)
      end.

    Fixpoint fwalk_all (n : nat) (tgt : Step.aspace) (mask : N) (pf : Step.pform)
             (st : Step.step) : list fulladdr :=
      match n with
      | O => []
      | S n' =>
          match Step.s_remain st with
          | O => []
          | S r =>
              match Step.advance st r with
              | None => []
              | Some s1 =>
                  match r with
                  | O => [FA (Step.s_base s1) (as_of tgt)]
                  | S _ =>
                      flat_map (fun raw =>
                                  match fmt_next tgt mask pf s1 raw with
                                  | (Step.OK, s2) => fwalk_all n' tgt mask pf s2
                                  | _ => []
                                  end)
                               (match fmt_ptesz pf with
                                | Some sz => rd (FA (Step.s_base s1) (as_of (Step.s_as s1))) sz
                                | None => [0]
                                end)
                  end
              end
          end
      end.

    Definition xlat_all (m : method) (a : N) : list fulladdr :=
      match m with
      | MNone | MBadKind => []
      | MCustom f => let '(st, b) := f a in if (st =? ST_OK)%Z then [b] else []
      | MLinear tas off => [FA (wadd a off) tas]
      | MLookup tas endoff tbl => lookup_all tbl endoff a tas
      | MMemarr tas base shift elemsz valsz =>
          if (shift <? 64) && ((valsz =? 4) || (valsz =? 8)) then
            List.map (fun v => FA (wadd (wshl v shift) (N.land a (N.ones shift))) tas)
                (rd (FA (wadd (fa_addr base) (wmul (N.shiftr a shift) elemsz)) (fa_as base)) valsz)
          else []
      | MPgt tas root pte64 mask fields =>
          if (fa_as root =? AS_NOADDR)%Z then []
          else match split_fields fields a with
               | Some (idx, 0) =>
                   List.map (fun b => match idx with [] => root | i0 :: _ => FA (wadd (fa_addr b) i0) tas end)
                       (tables_all tas pte64 mask (hd 0 fields) (rev (tl idx)) root)
               | _ => []
               end
      | MPgtF tgt ras root mask pf =>
          match fmt_first ras root pf a with
          | (Step.OK, st) =>
              match Step.s_remain st with
              | O => [FA (Step.s_base st) (as_of (Step.s_as st))]
              | S _ => fwalk_all wf tgt mask pf st
              end
          | _ => []
          end
      end.

    Definition step_all (a : fulladdr) : list fulladdr :=
      flat_map (fun mapidx =>
                  if (fa_as a =? map_expect_as mapidx)%Z then
                    match s_map s mapidx with
                    | None => []
                    | Some mp =>
                        match get_meth s (map_search mp (fa_addr a)) with
                        | None => []
                        | Some m => xlat_all m (fa_addr a)
                        end
                    end
                  else [])
               ALL_MAPS.

    Fixpoint path_all (len : nat) (caps : N) (a : fulladdr) : list fulladdr :=
      if in_capsb caps (fa_as a) then [a]
      else match len with
           | O => []
           | S l => flat_map (path_all l caps) (step_all a)
           end.
  End Depth.

  Definition rd_via (cv : fulladdr -> list fulladdr) (fa : fulladdr) (sz : N) : list N :=
    flat_map (fun fa' => match mem (fa_as fa') (fa_addr fa') sz with
                         | Some (st, v) => if (st =? ST_OK)%Z then [v] else []
                         | None => []
                         end)
             (cv fa).

  Fixpoint conv_all (d len : nat) (caps : N) (a : fulladdr) : list fulladdr :=
    match d with
    | O => if in_capsb caps (fa_as a) then [a] else []
    | S d' => path_all (rd_via (conv_all d' len rcaps)) len caps a
    end.

  Definition fa_eqb (x y : fulladdr) : bool :=
    (fa_addr x =? fa_addr y) && (fa_as x =? fa_as y)%Z.

  (** ** The property, evaluated on one observed run of an implementation:
      [addrxlat_op] with capabilities [caps] on [a] returned [st] after
      invoking the operation on [calls] (the operation returns [opret]);
      [depth] is the observed nesting depth.  0 = the run is as the property
      demands; otherwise the number of the clause that fails.  The result is
      looked for among the conversions of nesting 0, 1, ... [d]. *)
  Definition judge (d len : nat) (caps : N) (opret : Z) (a : fulladdr)
             (st : Z) (calls : list fulladdr) (depth : nat) : N :=
    if (MAX_OP_DEPTH <? depth)%nat then 5                      (* recursion beyond the bound *)
    else match calls with
    | [] =>
        if (st =? ST_OK)%Z then 1                             (* success without the operation *)
        else if in_capsb caps (fa_as a) then 3                (* usable address not passed through *)
        else 0
    | [x] =>
        if negb (st =? opret)%Z then 1                        (* status is not the operation's *)
        else if negb (in_capsb caps (fa_as x)) then 2         (* result not in a usable space *)
        else if negb (existsb (fun d' => existsb (fa_eqb x) (conv_all d' len caps a)) (seq 0 (S d)))
             then 4                                          (* not a composition (of nesting <= d) *)
        else 0
    | _ => 1                                                   (* operation invoked twice *)
    end.
End Spec.

(** the clauses of the property that do not mention the composition (used
    for runs whose get-page callback re-enters the library: the content of
    the memory it serves is then itself defined through a conversion) *)
Definition judge_basic (caps : N) (opret : Z) (a : fulladdr)
           (st : Z) (calls : list fulladdr) (depth : nat) : N :=
  if (MAX_OP_DEPTH <? depth)%nat then 5
  else match calls with
  | [] => if (st =? ST_OK)%Z then 1 else if in_capsb caps (fa_as a) then 3 else 0
  | [x] => if negb (st =? opret)%Z then 1
           else if negb (in_capsb caps (fa_as x)) then 2
           else if in_capsb caps (fa_as a) && negb (fa_eqb x a) then 3
           else 0
  | _ => 1
  end.
