(** C09, specification: what "address-space conversion" means, written from
    the documentation of the translation system (addrxlat.h: maps select
    methods per address, each map expects one address space, methods are
    linear / lookup / memory array / page table / custom) and not from sys.c.

    [conv caps a b]: [b] is obtained from [a] by applying, zero or more times,
    the translation method that one of the system's maps selects for the
    current address (a map is applicable when it expects the address space the
    current address is in), and [b] lies in one of the address spaces of
    [caps].  Methods that consult target memory (memory arrays, page tables)
    read it at an address that is itself converted to a space the reader can
    read ([rdval]): the relations are mutually inductive, so every conversion
    is a finite composition.

    There is no reference to chains, alternatives, fall-through order,
    in-flight records or fuel here.

    [conv_all] enumerates the conversions of bounded nesting depth and path
    length (proved sound in SysProofs.v); [judge] evaluates the property on an
    observed run of an implementation. *)
From Coq Require Import NArith ZArith List Bool.
From KdV Require Import Base.Wrap64 Map.MapModel Sys.ChainInterp.
Import ListNotations.
Local Open Scope N_scope.

Definition in_caps (caps : N) (as_ : Z) : Prop :=
  (0 <= as_ < 64)%Z /\ N.testbit caps (Z.to_N as_) = true.

Definition in_capsb (caps : N) (as_ : Z) : bool :=
  ((0 <=? as_) && (as_ <? 64))%Z && N.testbit caps (Z.to_N as_).

Definition ALL_MAPS : list N := [0; 1; 2; 3; 4].

Section Spec.
  Variable s : sys.
  Variable rcaps : N.
  Variable mem : Z -> N -> N -> Z * N.

  Inductive conv : N -> fulladdr -> fulladdr -> Prop :=
  | conv_done caps a : in_caps caps (fa_as a) -> conv caps a a
  | conv_step caps a c b : step1 a c -> conv caps c b -> conv caps a b

  (** one map applied to an address in the space the map expects *)
  with step1 : fulladdr -> fulladdr -> Prop :=
  | step1_map a b mapidx mp m :
      In mapidx ALL_MAPS ->
      fa_as a = map_expect_as mapidx ->
      s_map s mapidx = Some mp ->
      get_meth s (map_search mp (fa_addr a)) = Some m ->
      xlat m (fa_addr a) b ->
      step1 a b

  (** one translation method applied to an address *)
  with xlat : method -> N -> fulladdr -> Prop :=
  | xlat_custom f a b : f a = (ST_OK, b) -> xlat (MCustom f) a b
  | xlat_linear tas off a : xlat (MLinear tas off) a (FA (wadd a off) tas)
  | xlat_lookup tas endoff tbl a orig dest :
      In (orig, dest) tbl -> orig <= a -> a <= orig + endoff ->
      xlat (MLookup tas endoff tbl) a (FA (wadd dest (wsub a orig)) tas)
  | xlat_memarr tas base shift elemsz valsz a v :
      shift < 64 -> valsz = 4 \/ valsz = 8 ->
      rdval (FA (wadd (fa_addr base) (wmul (N.shiftr a shift) elemsz)) (fa_as base)) valsz v ->
      xlat (MMemarr tas base shift elemsz valsz) a
           (FA (wadd (wshl v shift) (N.land a (N.ones shift))) tas)
  | xlat_pgt tas root pte64 mask fields a (idx : list N) b :
      fa_as root <> AS_NOADDR ->
      split_fields fields a = Some (idx, 0) ->
      tables tas pte64 mask (hd 0 fields) (rev (tl idx)) root b ->
      xlat (MPgt tas root pte64 mask fields) a
           (match idx with [] => root | i0 :: _ => FA (wadd (fa_addr b) i0) tas end)

  (** a hierarchy of page-frame-number tables, top level first: the entry
      for index [i] is at [base + i * (entry size)]; an entry that is zero
      after masking is not present; the next level (finally the page) starts
      at [entry << page shift] in the target address space *)
  with tables : Z -> bool -> N -> N -> list N -> fulladdr -> fulladdr -> Prop :=
  | tables_nil tas pte64 mask sh0 base : tables tas pte64 mask sh0 [] base base
  | tables_cons tas (pte64 : bool) mask sh0 i tl base raw b :
      rdval (FA (wadd (fa_addr base) (wmul i (if pte64 then 8 else 4))) (fa_as base))
            (if pte64 then 8 else 4) raw ->
      N.ldiff raw mask <> 0 ->
      tables tas pte64 mask sh0 tl (FA (wshl (N.ldiff raw mask) sh0) tas) b ->
      tables tas pte64 mask sh0 (i :: tl) base b

  (** the content of target memory at a full address: the address is
      converted to a space the read callback can read *)
  with rdval : fulladdr -> N -> N -> Prop :=
  | rdval_intro fa fa' sz v :
      conv rcaps fa fa' -> mem (fa_as fa') (fa_addr fa') sz = (ST_OK, v) ->
      rdval fa sz v.

  (** ** Executable enumeration (bounded nesting depth [d], path length [len]). *)

  Fixpoint lookup_all (tbl : list (N * N)) (endoff a : N) (tas : Z) : list fulladdr :=
    match tbl with
    | [] => []
    | (orig, dest) :: tl =>
        (if (orig <=? a) && (a <=? orig + endoff)
         then [FA (wadd dest (wsub a orig)) tas] else [])
        ++ lookup_all tl endoff a tas
    end.

  Section Depth.
    (** [rd fa sz]: all values readable at [fa] with nesting depth below the
        current one *)
    Variable rd : fulladdr -> N -> list N.

    Fixpoint tables_all (tas : Z) (pte64 : bool) (mask sh0 : N) (idxs : list N)
             (base : fulladdr) : list fulladdr :=
      match idxs with
      | [] => [base]
      | i :: tl =>
          let ptesz := if pte64 then 8 else 4 in
          flat_map (fun raw =>
                      if N.ldiff raw mask =? 0 then []
                      else tables_all tas pte64 mask sh0 tl
                                      (FA (wshl (N.ldiff raw mask) sh0) tas))
                   (rd (FA (wadd (fa_addr base) (wmul i ptesz)) (fa_as base)) ptesz)
      end.

    Definition xlat_all (m : method) (a : N) : list fulladdr :=
      match m with
      | MNone | MBadKind => []
      | MCustom f => let '(st, b) := f a in if (st =? ST_OK)%Z then [b] else []
      | MLinear tas off => [FA (wadd a off) tas]
      | MLookup tas endoff tbl => lookup_all tbl endoff a tas
      | MMemarr tas base shift elemsz valsz =>
          if (shift <? 64) && ((valsz =? 4) || (valsz =? 8)) then
            List.map (fun v => FA (wadd (wshl v shift) (N.land a (N.ones shift))) tas)
                (rd (FA (wadd (fa_addr base) (wmul (N.shiftr a shift) elemsz)) (fa_as base)) valsz)
          else []
      | MPgt tas root pte64 mask fields =>
          if (fa_as root =? AS_NOADDR)%Z then []
          else match split_fields fields a with
               | Some (idx, 0) =>
                   List.map (fun b => match idx with [] => root | i0 :: _ => FA (wadd (fa_addr b) i0) tas end)
                       (tables_all tas pte64 mask (hd 0 fields) (rev (tl idx)) root)
               | _ => []
               end
      end.

    Definition step_all (a : fulladdr) : list fulladdr :=
      flat_map (fun mapidx =>
                  if (fa_as a =? map_expect_as mapidx)%Z then
                    match s_map s mapidx with
                    | None => []
                    | Some mp =>
                        match get_meth s (map_search mp (fa_addr a)) with
                        | None => []
                        | Some m => xlat_all m (fa_addr a)
                        end
                    end
                  else [])
               ALL_MAPS.

    (** (an address in a usable space is not converted further: [conv]
        would allow it, no implementation does it, and the enumeration of a
        subset is all the judge needs) *)
    Fixpoint path_all (len : nat) (caps : N) (a : fulladdr) : list fulladdr :=
      if in_capsb caps (fa_as a) then [a]
      else match len with
           | O => []
           | S l => flat_map (path_all l caps) (step_all a)
           end.
  End Depth.

  Definition rd_via (cv : fulladdr -> list fulladdr) (fa : fulladdr) (sz : N) : list N :=
    flat_map (fun fa' => let '(st, v) := mem (fa_as fa') (fa_addr fa') sz in
                         if (st =? ST_OK)%Z then [v] else [])
             (cv fa).

  Fixpoint conv_all (d len : nat) (caps : N) (a : fulladdr) : list fulladdr :=
    match d with
    | O => if in_capsb caps (fa_as a) then [a] else []
    | S d' => path_all (rd_via (conv_all d' len rcaps)) len caps a
    end.

  Definition fa_eqb (x y : fulladdr) : bool :=
    (fa_addr x =? fa_addr y) && (fa_as x =? fa_as y)%Z.

  (** ** The property, evaluated on one observed run of an implementation:
      [addrxlat_op] with capabilities [caps] on [a] returned [st] after
      invoking the operation on [calls] (the operation returns [opret]);
      [depth] is the observed nesting depth.  0 = the run is as the property
      demands; otherwise the number of the clause that fails. *)
  Definition judge (d len : nat) (caps : N) (opret : Z) (a : fulladdr)
             (st : Z) (calls : list fulladdr) (depth : nat) : N :=
    if (MAX_OP_DEPTH <? depth)%nat then 5                      (* recursion beyond the bound *)
    else match calls with
    | [] =>
        if (st =? ST_OK)%Z then 1                             (* success without the operation *)
        else if in_capsb caps (fa_as a) then 3                (* usable address not passed through *)
        else 0
    | [x] =>
        if negb (st =? opret)%Z then 1                        (* status is not the operation's *)
        else if negb (in_capsb caps (fa_as x)) then 2         (* result not in a usable space *)
        else if in_capsb caps (fa_as a) && negb (fa_eqb x a) then 3
        else if negb (existsb (fun d' => existsb (fa_eqb x) (conv_all d' len caps a)) (seq 0 (S d)))
             then 4                                          (* not a composition (of nesting <= d) *)
        else 0
    | _ => 1                                                   (* operation invoked twice *)
    end.
End Spec.
