(** The ELF page specification ([ElfSpec.spec_elf_page], an overlay of the
    LOAD segments on a page of zeroes) characterised byte by byte. *)
From Coq Require Import NArith List Bool Lia Arith.
From KdV Require Import Fmt.Codec Fmt.CodecProofs Fmt.ElfSpec.
Import ListNotations.
Local Open Scope N_scope.

(** * [paste] *)
Lemma paste_length page pos d :
  pos + len d <= len page -> length (paste page pos d) = length page.
Proof.
  intro H. unfold paste, len in *. rewrite !app_length, firstn_length, skipn_length. lia.
Qed.

Lemma paste_nth page pos d i :
  pos + len d <= len page ->
  nth i (paste page pos d) 0 =
  if (N.to_nat pos <=? i)%nat && (i <? N.to_nat (pos + len d))%nat
  then nth (i - N.to_nat pos) d 0 else nth i page 0.
Proof.
  intro H. unfold paste, len in *.
  destruct (Nat.leb_spec (N.to_nat pos) i) as [H1 | H1]; cbn [andb].
  - rewrite app_nth2 by (rewrite firstn_length; lia). rewrite firstn_length.
    replace (Nat.min (N.to_nat pos) (length page)) with (N.to_nat pos) by lia.
    destruct (Nat.ltb_spec i (N.to_nat (pos + N.of_nat (length d)))) as [H2 | H2].
    + rewrite app_nth1 by lia. reflexivity.
    + rewrite app_nth2 by lia. rewrite nth_skipn_add. f_equal. lia.
  - rewrite app_nth1 by (rewrite firstn_length; lia). now rewrite nth_firstn_lt by lia.
Qed.

(** * the byte a list of segments puts at an address (later segments win) *)
Section Spec.
  Variable virt : bool.

  Definition in_file (s : elf_seg) (x : N) : bool :=
    (sg_type s =? 1) && (seg_base virt s <=? x) && (x <? seg_base virt s + sg_filesz s).

  Fixpoint byteR (rsegs : list elf_seg) (x : N) : N :=
    match rsegs with
    | [] => 0
    | s :: rest => if in_file s x then nth (N.to_nat (x - seg_base virt s)) (sg_data s) 0
                   else byteR rest x
    end.

  (** does the segment reach into the page at [addr] *)
  Definition covers (zero_excluded : bool) (pgsz addr : N) (s : elf_seg) : bool :=
    (sg_type s =? 1) &&
    let a := seg_base virt s in
    let lo := N.max a addr in
    ((lo <? N.min (a + sg_filesz s) (addr + pgsz))
     || (zero_excluded && (lo <? N.min (a + sg_memsz s) (addr + pgsz)))).

  Lemma overlay_fold z pgsz addr segs :
    Forall (fun s => sg_filesz s = len (sg_data s)) segs ->
    let '(page, cov) := fold_left (overlay virt z pgsz addr) segs (zeros pgsz, false) in
    len page = pgsz /\
    (forall i, (i < N.to_nat pgsz)%nat -> nth i page 0 = byteR (rev segs) (addr + N.of_nat i)) /\
    cov = existsb (covers z pgsz addr) segs.
  Proof.
    induction segs as [| s P IH] using rev_ind; intro Hwf.
    - cbn. split; [apply len_zeros |]. split; [intros; apply nth_zeros | reflexivity].
    - apply Forall_app in Hwf as [HwfP Hs]. inversion Hs as [| ? ? Hfs _]; subst.
      specialize (IH HwfP). rewrite fold_left_app. cbn [fold_left].
      destruct (fold_left (overlay virt z pgsz addr) P (zeros pgsz, false)) as [page cov].
      destruct IH as [Hlen [Hnth Hcov]].
      rewrite rev_app_distr. cbn [rev app]. rewrite existsb_app. cbn [existsb]. rewrite orb_false_r.
      unfold overlay. destruct (N.eqb_spec (sg_type s) 1) as [Et | Et]; cbn [negb].
      2:{ split; [assumption |]. split.
          - intros i Hi. cbn [byteR]. unfold in_file. destruct (N.eqb_spec (sg_type s) 1); [contradiction |].
            cbn [andb]. now apply Hnth.
          - unfold covers. destruct (N.eqb_spec (sg_type s) 1); [contradiction |]. cbn [andb].
            now rewrite orb_false_r. }
      set (a := seg_base virt s). set (lo := N.max a addr).
      set (hi_f := N.min (a + sg_filesz s) (addr + pgsz)). set (hi_m := N.min (a + sg_memsz s) (addr + pgsz)).
      assert (Hcv : covers z pgsz addr s = (lo <? hi_f) || (z && (lo <? hi_m))).
      { unfold covers. rewrite Et. reflexivity. }
      rewrite Hcv, Hcov. rewrite orb_assoc.
      destruct (N.ltb_spec lo hi_f) as [Hf | Hf].
      + (* the file data reaches into the page *)
        assert (Hsl : len (sub (sg_data s) (lo - a) (hi_f - lo)) = hi_f - lo).
        { unfold len. rewrite sub_length by (rewrite <- Hfs; unfold lo, hi_f in *; lia). lia. }
        assert (Hfit : lo - addr + len (sub (sg_data s) (lo - a) (hi_f - lo)) <= len page)
          by (rewrite Hsl, Hlen; unfold lo, hi_f in *; lia).
        split; [unfold len; rewrite paste_length by exact Hfit; exact Hlen |].
        split; [| reflexivity].
        intros i Hi. rewrite paste_nth by exact Hfit. rewrite Hsl. cbn [byteR]. unfold in_file. rewrite Et.
        change (1 =? 1) with true. fold a. cbn [andb].
        destruct (Nat.leb_spec (N.to_nat (lo - addr)) i) as [H1 | H1];
          destruct (Nat.ltb_spec i (N.to_nat (lo - addr + (hi_f - lo)))) as [H2 | H2]; cbn [andb].
        * (* inside the pasted slice *)
          destruct (N.leb_spec a (addr + N.of_nat i)); [| unfold lo in *; lia].
          destruct (N.ltb_spec (addr + N.of_nat i) (a + sg_filesz s)); [| unfold lo, hi_f in *; lia].
          cbn [andb]. rewrite sub_nth by (unfold lo, hi_f in *; lia). f_equal. unfold lo in *. lia.
        * destruct (N.leb_spec a (addr + N.of_nat i)); cbn [andb]; [| now apply Hnth].
          destruct (N.ltb_spec (addr + N.of_nat i) (a + sg_filesz s)); [unfold lo, hi_f in *; lia | now apply Hnth].
        * destruct (N.leb_spec a (addr + N.of_nat i)); cbn [andb]; [unfold lo in *; lia | now apply Hnth].
        * destruct (N.leb_spec a (addr + N.of_nat i)); cbn [andb]; [unfold lo in *; lia | now apply Hnth].
      + split; [assumption |]. split; [| reflexivity].
        intros i Hi. cbn [byteR]. unfold in_file. rewrite Et. change (1 =? 1) with true. fold a. cbn [andb].
        destruct (N.leb_spec a (addr + N.of_nat i)); cbn [andb]; [| now apply Hnth].
        destruct (N.ltb_spec (addr + N.of_nat i) (a + sg_filesz s)); [unfold lo, hi_f in *; lia | now apply Hnth].
  Qed.

  (** segments whose file ranges do not overlap: the byte does not depend on the order *)
  Lemma byteR_in rsegs s x :
    (forall t, In t rsegs -> in_file t x = true -> t = s) ->
    In s rsegs -> in_file s x = true ->
    byteR rsegs x = nth (N.to_nat (x - seg_base virt s)) (sg_data s) 0.
  Proof.
    induction rsegs as [| t rest IH]; intros Hu Hin Hs; [destruct Hin |].
    cbn [byteR]. destruct (in_file t x) eqn:Ht.
    - rewrite (Hu t (or_introl eq_refl) Ht). reflexivity.
    - destruct Hin as [-> | Hin]; [congruence |].
      apply IH; [intros u Hu' Hf; apply Hu; [now right | assumption] | assumption | assumption].
  Qed.

  Lemma byteR_none rsegs x :
    (forall t, In t rsegs -> in_file t x = false) -> byteR rsegs x = 0.
  Proof.
    induction rsegs as [| t rest IH]; intro H; [reflexivity |].
    cbn [byteR]. rewrite (H t (or_introl eq_refl)). apply IH. intros u Hu. apply H. now right.
  Qed.
End Spec.
