(** Model of the parts of src/kdumpfile/pfn.c that the dump formats use:
    PFN regions, [pfn_regions_from_bitmap], [find_pfn_region] (binary search),
    [find_pfn_file_map], [sort_pfn_file_maps]. *)
From Coq Require Import NArith List Bool.
From KdV Require Pfn.BitmapModel.
From KdV Require Import Fmt.Codec.
Import ListNotations.
Local Open Scope N_scope.

(** * pfn.c *)

Record pfn_region := { rg_pfn : N; rg_cnt : N; rg_pos : N }.

Record pfn_file_map := {
  pm_fidx : N;
  pm_start : N;
  pm_end : N;
  pm_regions : list pfn_region
}.

(** bit [i] (LSB 0 numbering) of a byte *)
Definition bit_lsb0 (b i : N) : bool := N.testbit b i.
(** bit [i] (MSB 0 numbering) of a byte *)
Definition bit_msb0 (b i : N) : bool := N.testbit b (7 - i).

Definition bits_of_byte (msb0 : bool) (b : N) : list bool :=
  map (fun i => if msb0 then bit_msb0 b i else bit_lsb0 b i) [0; 1; 2; 3; 4; 5; 6; 7].

Definition bits_of_bytes (msb0 : bool) (bm : bytes) : list bool :=
  flat_map (bits_of_byte msb0) bm.

(** [pfn_regions_from_bitmap]: the maximal runs of set bits inside
    [start_pfn, end_pfn), each with the file position of its first element
    ([pos] advances by [cnt * elemsz] per run).  The C code finds the runs
    with [skip_clear_*]/[skip_set_*] (byte- and word-wise scans whose results
    are clamped to [end_pfn]); here the bitmap is walked bit by bit:
    [pfn] = number of the current bit, [cur] = start of the run being
    collected, [pos] = file position of the next run. *)
Fixpoint runs (elemsz start_pfn end_pfn : N) (bits : list bool) (pfn pos : N) (cur : option N)
  : list pfn_region :=
  match bits with
  | [] =>
      match cur with
      | Some st => [ {| rg_pfn := st; rg_cnt := pfn - st; rg_pos := pos |} ]
      | None => []
      end
  | b :: t =>
      let live := b && (start_pfn <=? pfn) && (pfn <? end_pfn) in
      match cur with
      | None => runs elemsz start_pfn end_pfn t (pfn + 1) pos (if live then Some pfn else None)
      | Some st =>
          if live then runs elemsz start_pfn end_pfn t (pfn + 1) pos cur
          else {| rg_pfn := st; rg_cnt := pfn - st; rg_pos := pos |}
               :: runs elemsz start_pfn end_pfn t (pfn + 1) (pos + (pfn - st) * elemsz) None
      end
  end.

Definition regions_from_bitmap (msb0 : bool) (bm : bytes)
           (start_pfn end_pfn fileoff elemsz : N) : list pfn_region :=
  runs elemsz start_pfn end_pfn (bits_of_bytes msb0 bm) 0 fileoff None.

(** What the format readers call: the word-level model of
    [pfn_regions_from_bitmap] and its scanners [skip_clear_*] / [skip_set_*]
    (Pfn/BitmapModel.v, tied to pfn.c by C07's white-box run and proved there
    to yield the maximal runs), with the repaired first-byte expression of
    [skip_set_msb0] (fix 28), an empty region array to start with and no
    allocation failure.  [al] is the address of the bitmap buffer modulo 4 (it
    decides where the aligned 32-bit loop starts; the result does not depend
    on it: [PfnBridge.regions_of_spec]).  The list-level function [runs] above
    is what the proofs reason with; the two are proved equal. *)
Definition of_region (r : BitmapModel.region) : pfn_region :=
  {| rg_pfn := BitmapModel.g_pfn r; rg_cnt := BitmapModel.g_cnt r; rg_pos := BitmapModel.g_pos r |}.

Definition regions_of (msb0 : bool) (al : N) (bm : bytes) (start_pfn end_pfn fileoff elemsz : N)
  : res (list pfn_region) :=
  match BitmapModel.regions_from_bitmap true msb0 al bm start_pfn end_pfn fileoff elemsz [] [] with
  | (BitmapModel.ROk rs, _) => Ok (map of_region rs)
  | (BitmapModel.RNoMem _, _) => Err ERR_SYSTEM
  | (BitmapModel.ROob, _) => Err ERR_UNMODELLED
  | (BitmapModel.RFuel, _) => Err ERR_UNMODELLED
  end.

(** [find_pfn_region]: binary search for the region containing [pfn] or the
    closest higher one *)
Fixpoint find_region_loop (fuel : nat) (rs : list pfn_region) (pfn : N) (left right : nat)
  : option pfn_region :=
  match fuel with
  | O => None
  | S k =>
      if Nat.eqb left right then nth_error rs right
      else
        let mid := Nat.div2 (left + right) in
        match nth_error rs mid with
        | None => None
        | Some rgn =>
            if pfn <? rg_pfn rgn then find_region_loop k rs pfn left mid
            else if rg_pfn rgn + rg_cnt rgn <=? pfn then find_region_loop k rs pfn (S mid) right
            else Some rgn
        end
  end.

Definition find_pfn_region (rs : list pfn_region) (pfn : N) : option pfn_region :=
  find_region_loop (S (length rs)) rs pfn 0 (length rs).

(** [find_pfn_file_map]: first map with [pfn < end_pfn] *)
Fixpoint find_pfn_file_map (maps : list pfn_file_map) (pfn : N) : option pfn_file_map :=
  match maps with
  | [] => None
  | m :: t => if pfn <? pm_end m then Some m else find_pfn_file_map t pfn
  end.

(** [sort_pfn_file_maps]: qsort by [end_pfn]; insertion sort here *)
Fixpoint insert_map (m : pfn_file_map) (l : list pfn_file_map) : list pfn_file_map :=
  match l with
  | [] => [m]
  | h :: t => if pm_end m <=? pm_end h then m :: l else h :: insert_map m t
  end.
Definition sort_maps (l : list pfn_file_map) : list pfn_file_map :=
  fold_right insert_map [] l.

