(** The extent walk of [sadump_read_page] in the C01 reader model
    ([SadumpModel.ext_loop], offsets in [N]) is the walk of the C11 disk-set
    model ([Flat.DiskSetModel.walk], [off_t] values in [Z] with the
    signed-overflow outcomes): on extents and positions below 2^62 - which is
    what a file system can hold - the two agree, so C11's statements about the
    walk ([DiskSetProofs.walk_concat], [walk_past_end], [walk_page]) speak
    about the walk the C01 round-trip theorems use.

    Not bridged (see design.d/C01.md): the order-dependent header checks of
    [open_common] / [init_disk_set].  C11 models them on header *fields*
    ([DiskSetModel.probe_step], [C11_diskset_accepted_any_order]); the C01
    model runs them on the file bytes, and [C01_sadump_set_roundtrip_partial]
    covers the files in disk order. *)
From Coq Require Import NArith ZArith List Bool Lia.
From KdV Require Flat.FlatModel Flat.DiskSetModel.
From KdV Require Import Fmt.Codec Fmt.SadumpModel.
Import ListNotations.

Definition to_flat (e : extent) : DiskSetModel.extent :=
  {| DiskSetModel.x_pos := Z.of_N (ex_pos e); DiskSetModel.x_len := Z.of_N (ex_len e);
     DiskSetModel.x_fidx := ex_fidx e; DiskSetModel.x_seen := true |}.

Definition small (x : N) : Prop := (x < 2^62)%N.

Lemma in_off_small z : (0 <= z < 2^63)%Z -> FlatModel.in_off z = true.
Proof.
  intro H. unfold FlatModel.in_off, FlatModel.OFF_MIN, FlatModel.OFF_MAX.
  apply andb_true_intro. split; apply Z.leb_le; lia.
Qed.

Theorem ext_loop_is_walk : forall exts pos,
  exts <> [] -> Forall (fun e => small (ex_pos e) /\ small (ex_len e)) exts -> small pos ->
  DiskSetModel.walk (map to_flat exts) (Z.of_N pos) =
  match ext_loop exts pos with
  | Some (f, o) => DiskSetModel.WAt f (Z.of_N o)
  | None => DiskSetModel.WNoData
  end.
Proof.
  unfold small. induction exts as [| e rest IH]; intros pos Hne Hall Hpos; [contradiction |].
  inversion Hall as [| ? ? [Hp Hl] Hrest]; subst.
  cbn [map DiskSetModel.walk ext_loop to_flat DiskSetModel.x_len DiskSetModel.x_pos DiskSetModel.x_fidx].
  assert (E : (Z.of_N (ex_len e) <=? Z.of_N pos)%Z = (ex_len e <=? pos)%N).
  { destruct (N.leb_spec (ex_len e) pos); [apply Z.leb_le | apply Z.leb_gt]; lia. }
  rewrite E. destruct (N.leb_spec (ex_len e) pos) as [Hle | Hgt].
  - rewrite in_off_small by (change (2^63)%Z with 9223372036854775808%Z; change (2^62)%N with 4611686018427387904%N in *; lia).
    rewrite <- N2Z.inj_sub by exact Hle.
    destruct rest as [| e2 rest']; [reflexivity |].
    change (map to_flat (e2 :: rest')) with (to_flat e2 :: map to_flat rest').
    change (to_flat e2 :: map to_flat rest') with (map to_flat (e2 :: rest')).
    apply IH; [discriminate | exact Hrest | lia].
  - rewrite <- N2Z.inj_add.
    rewrite in_off_small by (change (2^63)%Z with 9223372036854775808%Z; change (2^62)%N with 4611686018427387904%N in *; lia).
    reflexivity.
Qed.
