(** Writer side of page bitmaps: a list of booleans (index = page frame
    number) packed into bytes, LSB 0 numbering (diskdump: bit [pfn mod 8] of
    byte [pfn / 8]) or MSB 0 numbering (SADUMP: bit [7 - pfn mod 8]). *)
From Coq Require Import NArith List Bool.
From KdV Require Import Fmt.Codec.
Import ListNotations.
Local Open Scope N_scope.

(** value of up to 8 bits, least significant first *)
Definition byte_of_bits (l : list bool) : N :=
  fold_right (fun (b : bool) acc => (if b then 1 else 0) + 2 * acc) 0 l.

(** the first eight bits, padded with clear bits *)
Definition take8 (l : list bool) : list bool :=
  let f := firstn 8 l in f ++ repeat false (8 - length f).

Definition pack_byte (msb0 : bool) (l : list bool) : N :=
  byte_of_bits (if msb0 then rev (take8 l) else take8 l).

(** exactly [n] bytes: missing bits are clear, surplus bits are dropped *)
Fixpoint bits_to_bytes (msb0 : bool) (n : nat) (bits : list bool) : bytes :=
  match n with
  | O => []
  | S k => pack_byte msb0 bits :: bits_to_bytes msb0 k (skipn 8 bits)
  end.
