(** Reader model of src/kdumpfile/elfdump.c (ELF core dumps), as repaired by
    fixes 07 (virtual lookups use [last_vload], [seg_virt_cmp] compares
    [virt]) and 32 (a segment that starts exactly [dist] bytes above the
    address is not close).

    Follows [elf_probe]/[do_probe], [init_elf32/64] (ELF header, extended
    numbering through section 0, the program header loop, [next_phdr]),
    [open_common] (usable physical addresses, [load_sorted]/[load_vsorted],
    max PFN) and the page path [elf_get_page], [find_closest_{mem,file}_{,v}load]
    with the [last_load]/[last_vload] shortcut, [elf_read_page].

    All address arithmetic is modulo 2^64 as in C ([kdump_addr_t]).

    Not modelled: NOTE segments' content (VMCOREINFO etc. decide page size and
    pointer size: the page size is a parameter of the page path), sections
    other than the extended-numbering fields of section 0 (Xen xc_core dumps:
    C19), the fallback from a failed virtual lookup to address translation
    (outcome [ERR_XLAT]), the page cache. *)
From Coq Require Import NArith List Bool.
From KdV Require Import Base.Wrap64 Fmt.Codec.
Import ListNotations.
Local Open Scope N_scope.

Record load_segment := {
  ls_off : N;        (* file_offset *)
  ls_filesz : N;
  ls_phys : N;
  ls_memsz : N;
  ls_virt : N
}.

Definition ADDR_MAX : N := 2^64 - 1.
Definition PT_LOAD : N := 1.
Definition PT_NOTE : N := 4.
Definition PN_XNUM : N := 65535.
Definition ET_CORE : N := 4.

(** the model's own outcome for "the C code now asks libaddrxlat" *)
Definition ERR_XLAT : N := 98.

Record elf_state := {
  es_be : bool;
  es_64 : bool;
  es_machine : N;
  es_sorted : list load_segment;     (* load_sorted: usable phys, by phys *)
  es_vsorted : list load_segment;    (* load_vsorted: all, by virt *)
  es_notes : list load_segment;      (* note_segments *)
  es_machphys : bool;                (* ADDRXLAT_MACHPHYSADDR in the capabilities *)
  es_last_load : option nat;         (* index into es_sorted *)
  es_last_vload : option nat         (* index into es_vsorted *)
}.

(** insertion sort standing in for qsort *)
Fixpoint insert_by (key : load_segment -> N) (s : load_segment) (l : list load_segment)
  : list load_segment :=
  match l with
  | [] => [s]
  | h :: t => if key s <=? key h then s :: l else h :: insert_by key s t
  end.
Definition sort_by (key : load_segment -> N) (l : list load_segment) : list load_segment :=
  fold_right (insert_by key) [] l.

Section Reader.
  Variable rd : N -> N -> N -> bytes.

  (** one program header: (p_type, segment) *)
  Definition parse_phdr (be is64 : bool) (ph : bytes) : N * load_segment :=
    if is64 then
      (get32 be ph 0,
       let phys := get64 be ph 24 in
       {| ls_off := get64 be ph 8; ls_filesz := get64 be ph 32;
          ls_phys := if phys =? 2^64 - 1 then ADDR_MAX else phys;
          ls_memsz := get64 be ph 40; ls_virt := get64 be ph 16 |})
    else
      (get32 be ph 0,
       let phys := get32 be ph 12 in
       {| ls_off := get32 be ph 4; ls_filesz := get32 be ph 16;
          ls_phys := if phys =? 2^32 - 1 then ADDR_MAX else phys;
          ls_memsz := get32 be ph 20; ls_virt := get32 be ph 8 |}).

  (** the program header loop of [init_elf32/64]: returns (loads, notes) in file order *)
  Fixpoint phdr_loop (be is64 : bool) (n : nat) (offset entsz : N)
    : list load_segment * list load_segment :=
    match n with
    | O => ([], [])
    | S k =>
        let '(ty, seg) := parse_phdr be is64 (rd 0 offset entsz) in
        let '(loads, notes) := phdr_loop be is64 k (offset + entsz) entsz in
        if ty =? PT_LOAD then (seg :: loads, notes)
        else if ty =? PT_NOTE then (loads, seg :: notes)
        else (loads, notes)
    end.

  Definition all_phys_zero (l : list load_segment) : bool :=
    forallb (fun s => ls_phys s =? 0) l.

  Definition elf_magic : bytes := [127; 69; 76; 70].

  Definition bytes_eqb (a b : bytes) : bool :=
    Nat.eqb (length a) (length b) && forallb (fun p => fst p =? snd p) (combine a b).

  Definition KDUMP_NOPROBE : N := 100.

  (** [elf_probe] = [do_probe] + [init_elf32/64] + [open_common] *)
  Definition elf_open (nfiles : nat) : res elf_state :=
    let hdr := rd 0 0 64 in
    if negb (bytes_eqb (sub hdr 0 4) elf_magic) then Err KDUMP_NOPROBE else
    let data := get false (sub hdr 5 1) in
    if negb ((data =? 1) || (data =? 2)) then Err ERR_NOTIMPL else
    let be := data =? 2 in
    let class := get false (sub hdr 4 1) in
    let ok := (get16 be hdr 16 =? ET_CORE) && (get32 be hdr 20 =? 1) in
    if negb (((class =? 1) || (class =? 2)) && ok) then Err ERR_NOTIMPL else
    let is64 := class =? 2 in
    let machine := get16 be hdr 18 in
    let shnum := get16 be hdr (if is64 then 60 else 48) in
    let phnum := get16 be hdr (if is64 then 56 else 44) in
    let shoff := if is64 then get64 be hdr 40 else get32 be hdr 32 in
    let shentsize := get16 be hdr (if is64 then 58 else 46) in
    (* extended numbering: section header 0 *)
    let ext := negb (shoff =? 0) && ((shnum =? 0) || (phnum =? PN_XNUM)) in
    (* "Invalid ELF section header entry size" *)
    if ext && (shentsize <? (if is64 then 64 else 40)) then Err ERR_CORRUPT else
    let '(shnum, phnum) :=
      if ext then
        let sect := rd 0 shoff shentsize in
        let shnum' := if shnum =? 0
                      then (if is64 then get64 be sect 32 else get32 be sect 20) else shnum in
        let phnum' := if negb (shnum' =? 0) && (phnum =? PN_XNUM)
                      then get32 be sect (if is64 then 44 else 28) else phnum in
        (shnum', phnum')
      else (shnum, phnum) in
    let phoff := if is64 then get64 be hdr 32 else get32 be hdr 28 in
    let phentsize := get16 be hdr (if is64 then 54 else 42) in
    (* "Invalid ELF program / section header entry size" *)
    if negb (phnum =? 0) && (phentsize <? (if is64 then 56 else 32)) then Err ERR_CORRUPT else
    if negb (shnum =? 0) && (shentsize <? (if is64 then 64 else 40)) then Err ERR_CORRUPT else
    let '(loads, notes) := phdr_loop be is64 (N.to_nat phnum) phoff phentsize in
    (* open_common *)
    if (1 <? N.of_nat nfiles) then Err ERR_NOTIMPL else
    if Nat.eqb (length loads) 0 && (shnum =? 0) then Err ERR_NOTIMPL else
    (* "Check that physical addresses are usable" *)
    let unusable := all_phys_zero loads && Nat.ltb 1 (length loads) in
    let loads := if unusable
                 then map (fun s => {| ls_off := ls_off s; ls_filesz := ls_filesz s; ls_phys := ADDR_MAX;
                                       ls_memsz := ls_memsz s; ls_virt := ls_virt s |}) loads
                 else loads in
    Ok {| es_be := be; es_64 := is64; es_machine := machine;
          es_sorted := sort_by ls_phys (filter (fun s => negb (ls_phys s =? ADDR_MAX)) loads);
          es_vsorted := sort_by ls_virt loads;
          es_notes := notes;
          es_machphys := negb unusable;
          es_last_load := None; es_last_vload := None |}.

  (** "Find max PFN" of [open_common] (with fix 37: the end of a segment is
      rounded up to a page boundary), for a given page shift *)
  Definition elf_max_pfn (st : elf_state) (shift : N) : N :=
    fold_left (fun m s =>
                 N.max m (N.shiftr (wsub (wadd (wadd (ls_phys s) (ls_memsz s)) (N.shiftl 1 shift)) 1) shift))
              (es_sorted st) 0.

  (** * the page path *)

  Definition seg_size (file : bool) (s : load_segment) : N :=
    if file then ls_filesz s else ls_memsz s.
  Definition seg_addr (virt : bool) (s : load_segment) : N :=
    if virt then ls_virt s else ls_phys s.

  (** the scan of [find_closest_*]: index of the first segment that ends at or
      above [addr], unless it starts [dist] or more bytes above it *)
  Fixpoint closest_loop (file virt : bool) (segs : list load_segment) (i : nat) (addr dist : N)
    : option (nat * load_segment) :=
    match segs with
    | [] => None
    | s :: t =>
        let sz := seg_size file s in
        let a := seg_addr virt s in
        if negb (sz =? 0) && (addr <=? wsub (wadd a sz) 1) then
          if (addr <? a) && (dist <=? wsub a addr) then None else Some (i, s)
        else closest_loop file virt t (S i) addr dist
    end.

  Definition set_last (st : elf_state) (virt : bool) (i : nat) : elf_state :=
    {| es_be := es_be st; es_64 := es_64 st; es_machine := es_machine st;
       es_sorted := es_sorted st; es_vsorted := es_vsorted st; es_notes := es_notes st;
       es_machphys := es_machphys st;
       es_last_load := if virt then es_last_load st else Some i;
       es_last_vload := if virt then Some i else es_last_vload st |}.

  (** [find_closest_{mem,file}_{,v}load] *)
  Definition find_closest (file virt : bool) (st : elf_state) (addr dist : N)
    : option load_segment * elf_state :=
    let arr := if virt then es_vsorted st else es_sorted st in
    let last := if virt then es_last_vload st else es_last_load st in
    let hit :=
      match last with
      | Some i =>
          match nth_error arr i with
          | Some s => if (seg_addr virt s <=? addr) && (wsub addr (seg_addr virt s) <? seg_size file s)
                      then Some s else None
          | None => None
          end
      | None => None
      end in
    match hit with
    | Some s => (Some s, st)
    | None =>
        match closest_loop file virt arr 0 addr dist with
        | Some (i, s) => (Some s, set_last st virt i)
        | None => (None, st)
        end
    end.

  (** the three blocks of the body of [elf_read_page]'s loop, each acting on
      (bytes filled so far, their number, address of the next byte) *)

  (** if (loadaddr > addr): zero-fill up to the segment *)
  Definition stage_gap (loadaddr : N) (t : bytes * N * N) : bytes * N * N :=
    let '(acc, done, addr) := t in
    if addr <? loadaddr
    then (acc ++ zeros (wsub loadaddr addr), done + wsub loadaddr addr, loadaddr)
    else t.

  (** if (loadaddr + pls->filesz > addr): the file-backed part *)
  Definition stage_file (pgsz : N) (pls : load_segment) (loadaddr : N) (t : bytes * N * N)
    : bytes * N * N :=
    let '(acc, done, addr) := t in
    if addr <? wadd loadaddr (ls_filesz pls) then
      let size := N.min (pgsz - done) (wsub (wadd loadaddr (ls_filesz pls)) addr) in
      (acc ++ rd 0 (wsub (wadd (ls_off pls) addr) loadaddr) size, done + size, wadd addr size)
    else t.

  (** if (p < endp): the rest of the segment's memory range reads as zeroes *)
  Definition stage_mem (pgsz : N) (pls : load_segment) (loadaddr : N) (t : bytes * N * N)
    : bytes * N * N :=
    let '(acc, done, addr) := t in
    if done <? pgsz then
      let size := N.min (pgsz - done) (wsub (wadd loadaddr (ls_memsz pls)) addr) in
      (acc ++ zeros size, done + size, wadd addr size)
    else t.

  (** the loop of [elf_read_page]: [done] bytes of the page are filled (in
      [acc]), [addr] is the address of the next byte *)
  Fixpoint read_page_loop (fuel : nat) (virt : bool) (st : elf_state) (pgsz addr done : N) (acc : bytes)
    : res bytes * elf_state :=
    match fuel with
    | O => (Err ERR_UNMODELLED, st)
    | S k =>
        if pgsz <=? done then (Ok acc, st) else
        let remain := pgsz - done in
        match find_closest false virt st addr remain with
        | (None, st) => (Ok (acc ++ zeros remain), st)
        | (Some pls, st) =>
            let loadaddr := seg_addr virt pls in
            match stage_mem pgsz pls loadaddr
                    (stage_file pgsz pls loadaddr (stage_gap loadaddr (acc, done, addr))) with
            | (acc, done, addr) => read_page_loop k virt st pgsz addr done acc
            end
        end
    end.

  (** [elf_get_page] for a page-aligned address in KDUMP_MACHPHYSADDR
      ([virt = false]) or KDUMP_KVADDR ([virt = true]) *)
  Definition elf_get_page (pgsz : N) (zero_excluded virt : bool) (st : elf_state) (addr : N)
    : res bytes * elf_state :=
    match find_closest (negb zero_excluded) virt st addr pgsz with
    | (None, st) => (Err (if virt then ERR_XLAT else ERR_NODATA), st)
    | (Some pls, st) =>
        let loadaddr := seg_addr virt pls in
        if (loadaddr <=? addr) && (wadd (wsub addr loadaddr) pgsz <=? ls_filesz pls)
        then (Ok (rd 0 (wsub (wadd (ls_off pls) addr) loadaddr) pgsz), st)
        else read_page_loop (S (S (length (if virt then es_vsorted st else es_sorted st))))
                            virt st pgsz addr 0 []
    end.

  Definition elf_read (pgsz : N) (zero_excluded virt : bool) (st : elf_state) (addr n : N)
    : N * bytes * elf_state :=
    read_range (elf_get_page pgsz zero_excluded virt) pgsz st addr n.
End Reader.
