(** C01 for LKCD dumps: whatever the order of the records in the page stream
    and whatever was asked before, a page read returns the image's page. *)
From Coq Require Import NArith List Bool Lia Arith.
From KdV Require Import Fmt.Codec Fmt.CodecProofs Fmt.Rle Fmt.RleProofs Fmt.LkcdModel Fmt.LkcdSpec.
Import ListNotations.
Local Open Scope N_scope.

(** a stored record and the page content it stands for *)
Definition rec_stores (gunzip : bytes -> option bytes) (compression pgsz : N)
           (p : lk_page) (pc : N * bytes) : Prop :=
  lp_pfn p = fst pc /\ len (snd pc) = pgsz /\ len (lp_payload p) < 2^32 /\
  ((lp_flags p = 1 /\ lp_payload p = snd pc) \/
   (lp_flags p = 2 /\ len (lp_payload p) <= pgsz /\
    ((compression = 1 /\ exists ts, Forall tok_ok ts /\ lp_payload p = rle_render ts /\
                                    rle_expand ts = snd pc) \/
     (compression = 2 /\ gunzip (lp_payload p) = Some (snd pc))))).

Record lk_wf (l : lk_layout) (stream : list lk_page) : Prop := {
  lw_pgsz : exists k, 12 <= k <= 18 /\ ll_page_size l = 2^k;
  lw_version : In (ll_version l) [1; 2; 3; 5; 6; 7; 8; 9; 10];
  lw_mclx : In (ll_mclx l) [0; 2^30; 2^31; 2^30 + 2^31];
  lw_dataoff : if ll_version l <? 9 then ll_data_offset l = 65536
               else 742 <= ll_data_offset l < 2^32;
  lw_comp : if ll_version l <? 5 then ll_compression l = 1
            else ll_compression l = 1 \/ ll_compression l = 2;
  lw_uts : uts_sane (fit 390 (ll_uts l)) = true;
  lw_nodup : NoDup (map lp_pfn stream);
  lw_addr : Forall (fun p => lp_pfn p * ll_page_size l < 2^64) stream;
  lw_pfn32 : Forall (fun p => lp_pfn p < 2^32) stream;   (* what the reader's index can hold *)
  lw_size : len (encode_lkcd l stream) < 2^64;
  lw_memsize : ll_memsize l < 2^64
}.

(** position of record [i] in the file *)
Definition recs_len (be : bool) (shift : N) (s : list lk_page) : N :=
  len (flat_map (enc_page be shift) s).

Lemma len_enc_page be shift p : len (enc_page be shift p) = 16 + len (lp_payload p).
Proof. unfold enc_page. rewrite len_app, len_enc_flds. reflexivity. Qed.

Lemma recs_len_app be shift a b :
  recs_len be shift (a ++ b) = recs_len be shift a + recs_len be shift b.
Proof. unfold recs_len. now rewrite flat_map_app, len_app. Qed.

Lemma recs_len_snoc be shift a p :
  recs_len be shift (a ++ [p]) = recs_len be shift a + 16 + len (lp_payload p).
Proof.
  rewrite recs_len_app. unfold recs_len at 2. cbn [flat_map]. rewrite app_nil_r, len_enc_page. lia.
Qed.

Lemma firstn_S_snoc {A} (l : list A) n x :
  nth_error l n = Some x -> firstn (S n) l = firstn n l ++ [x].
Proof.
  revert n. induction l as [| a t IH]; intros n H; [destruct n; discriminate |].
  destruct n; [cbn in H; injection H as <-; reflexivity |].
  cbn [nth_error] in H. cbn [firstn app]. f_equal. now apply IH.
Qed.

Lemma nth_error_split' {A} (l : list A) n x :
  nth_error l n = Some x -> l = firstn n l ++ x :: skipn (S n) l.
Proof.
  revert n. induction l as [| a t IH]; intros n H; [destruct n; discriminate |].
  destruct n; [cbn in H; injection H as <-; reflexivity |].
  cbn [nth_error] in H. cbn [firstn skipn app]. f_equal. now apply IH.
Qed.

(** the first record for a page frame, if any *)
Fixpoint find_rec (s : list lk_page) (pfn : N) (i : nat) : option (nat * lk_page) :=
  match s with
  | [] => None
  | p :: t => if lp_pfn p =? pfn then Some (i, p) else find_rec t pfn (S i)
  end.

Lemma find_rec_some s pfn : forall i k p,
  find_rec s pfn i = Some (k, p) ->
  (i <= k)%nat /\ nth_error s (k - i) = Some p /\ lp_pfn p = pfn /\
  forall j q, (j < k - i)%nat -> nth_error s j = Some q -> lp_pfn q <> pfn.
Proof.
  induction s as [| a t IH]; intros i k p H; [discriminate |].
  cbn [find_rec] in H. destruct (N.eqb_spec (lp_pfn a) pfn) as [E | NE].
  - injection H as <- <-. rewrite Nat.sub_diag. repeat split; try assumption; try lia.
  - destruct (IH _ _ _ H) as [Hle [Hn [Hp Hb]]].
    split; [lia |]. split.
    + replace (k - i)%nat with (S (k - S i)) by lia. exact Hn.
    + split; [exact Hp |]. intros j q Hj Hq. destruct j; [cbn in Hq; injection Hq as <-; exact NE |].
      apply (Hb j q); [lia | exact Hq].
Qed.

Lemma find_rec_none s pfn : forall i,
  find_rec s pfn i = None -> forall q, In q s -> lp_pfn q <> pfn.
Proof.
  induction s as [| a t IH]; intros i H q Hq; [destruct Hq |].
  cbn [find_rec] in H. destruct (N.eqb_spec (lp_pfn a) pfn) as [E | NE]; [discriminate |].
  destruct Hq as [<- | Hq]; [exact NE | exact (IH _ H q Hq)].
Qed.

Lemma fold_max_pfn gunzip comp pgsz s im :
  Forall2 (rec_stores gunzip comp pgsz) s im ->
  forall m, fold_left (fun m p => N.max m (lp_pfn p + 1)) s m =
            fold_left (fun m (pc : N * bytes) => N.max m (fst pc + 1)) im m.
Proof.
  induction 1 as [| p pc s im Hp Hrest IH]; intro m; [reflexivity |].
  cbn [fold_left]. destruct Hp as [Hpf _]. rewrite Hpf. apply IH.
Qed.

Lemma spec_page_len_gen gunzip comp pgsz s im pfn c :
  Forall2 (rec_stores gunzip comp pgsz) s im -> spec_lkcd_page im pfn = Ok c -> len c = pgsz.
Proof.
  induction 1 as [| p pc s im Hp Hrest IH]; [discriminate |].
  cbn [spec_lkcd_page]. destruct pc as [pf cc]. destruct (pf =? pfn).
  - intro E. injection E as <-. destruct Hp as [_ [Hl _]]. exact Hl.
  - exact IH.
Qed.

Section Roundtrip.
  Variable gunzip : bytes -> option bytes.
  Variable l : lk_layout.
  Variable stream : list lk_page.
  Variable img : list (N * bytes).
  Hypothesis Hwf : lk_wf l stream.
  Hypothesis Hst : Forall2 (rec_stores gunzip (ll_compression l) (ll_page_size l)) stream img.

  Let be := ll_be l.
  Let pgsz := ll_page_size l.
  Let shift := N.log2 pgsz.
  Let dataoff := ll_data_offset l.
  Let F := encode_lkcd l stream.
  Let rd := read_files [F].
  Let total := length stream.

  Definition off (i : nat) : N := dataoff + recs_len be shift (firstn i stream).

  Definition dflt : lk_page := {| lp_pfn := 0; lp_flags := 0; lp_payload := [] |}.

  Fixpoint index (n : nat) : list (N * N) :=
    match n with
    | O => []
    | S k => (lp_pfn (nth k stream dflt), off k) :: index k
    end.

  Definition mx (n : nat) : N :=
    fold_left (fun m p => N.max m (lp_pfn p + 1)) (firstn n stream) 0.

  Definition state (n : nat) (fin : bool) : lk_state :=
    {| lk_be := be; lk_version := ll_version l; lk_page_size := pgsz;
       lk_compression := ll_compression l; lk_index := index n; lk_last := off n;
       lk_end := if fin then off n else 0; lk_max_pfn := mx n |}.

  Definition inv (st : lk_state) : Prop :=
    exists n, (n <= total)%nat /\ (st = state n false \/ (n = total /\ st = state n true)).

  Lemma pgsz_pow : exists k, 12 <= k <= 18 /\ pgsz = 2^k /\ shift = k.
  Proof.
    destruct (lw_pgsz _ _ Hwf) as [k [Hk E]]. exists k. split; [assumption |]. split; [exact E |].
    unfold shift, pgsz. rewrite E. apply N.log2_pow2. lia.
  Qed.

  Lemma pgsz_bounds : 4096 <= pgsz <= 262144.
  Proof.
    destruct pgsz_pow as [k [[H1 H2] [E _]]]. rewrite E.
    change 4096 with (2^12). change 262144 with (2^18). split; apply N.pow_le_mono_r; lia.
  Qed.

  Lemma dataoff_pos : 742 <= dataoff < 2^32.
  Proof.
    pose proof (lw_dataoff _ _ Hwf) as H. unfold dataoff.
    destruct (ll_version l <? 9); [rewrite H; split; [discriminate | reflexivity] | exact H].
  Qed.

  Lemma off_S i p : nth_error stream i = Some p -> off (S i) = off i + 16 + len (lp_payload p).
  Proof. intro H. unfold off. rewrite (firstn_S_snoc _ _ _ H), recs_len_snoc. lia. Qed.

  Lemma mx_S i p : nth_error stream i = Some p -> mx (S i) = N.max (mx i) (lp_pfn p + 1).
  Proof. intro H. unfold mx. rewrite (firstn_S_snoc _ _ _ H), fold_left_app. reflexivity. Qed.

  Lemma nth_dflt i p : nth_error stream i = Some p -> nth i stream dflt = p.
  Proof. intro H. now apply nth_error_nth. Qed.

  (** the file around record [i] *)
  Lemma F_split i p : nth_error stream i = Some p ->
    exists rest, F = (fit dataoff (enc_flds be (header_flds l))
                      ++ flat_map (enc_page be shift) (firstn i stream))
                     ++ enc_flds be [F64 (N.shiftl (lp_pfn p) shift); F32 (len (lp_payload p)); F32 (lp_flags p)]
                     ++ lp_payload p ++ rest.
  Proof.
    intro H. unfold F, encode_lkcd. fold be dataoff pgsz shift.
    pose proof (nth_error_split' _ _ _ H) as E.
    set (a := firstn i stream) in *. set (b := skipn (S i) stream) in *.
    rewrite E. rewrite flat_map_app. cbn [flat_map].
    unfold enc_page at 2. exists (flat_map (enc_page be shift) b ++ end_marker be).
    rewrite <- !app_assoc. reflexivity.
  Qed.

  Lemma len_prefix i :
    len (fit dataoff (enc_flds be (header_flds l)) ++ flat_map (enc_page be shift) (firstn i stream)) = off i.
  Proof. rewrite len_app, len_fit. reflexivity. Qed.

  Lemma rd_desc i p : nth_error stream i = Some p ->
    rd 0 (off i) 16 =
    enc_flds be [F64 (N.shiftl (lp_pfn p) shift); F32 (len (lp_payload p)); F32 (lp_flags p)].
  Proof.
    intro H. destruct (F_split i p H) as [rest E]. unfold rd, read_files. cbn [nth N.to_nat].
    rewrite E. apply read_of_section'; [now rewrite len_prefix | now rewrite len_enc_flds].
  Qed.

  Lemma rd_payload i p : nth_error stream i = Some p ->
    rd 0 (off i + 16) (len (lp_payload p)) = lp_payload p.
  Proof.
    intro H. destruct (F_split i p H) as [rest E]. unfold rd, read_files. cbn [nth N.to_nat].
    rewrite E. rewrite app_assoc. apply read_of_section'; [| reflexivity].
    rewrite len_app, len_prefix, len_enc_flds. reflexivity.
  Qed.

  Lemma rd_end : rd 0 (off total) 16 = end_marker be.
  Proof.
    unfold rd, read_files. cbn [nth N.to_nat]. unfold F, encode_lkcd. fold be dataoff pgsz shift.
    rewrite app_assoc. unfold off, total. rewrite firstn_all.
    apply read_of_last'; [rewrite len_app, len_fit; reflexivity |].
    unfold end_marker. now rewrite len_enc_flds.
  Qed.

  (** ** the index *)
  Lemma nodup_idx i j p q :
    nth_error stream i = Some p -> nth_error stream j = Some q -> lp_pfn p = lp_pfn q -> i = j.
  Proof.
    intros Hi Hj E. pose proof (lw_nodup _ _ Hwf) as Hnd.
    rewrite NoDup_nth_error in Hnd. apply Hnd.
    - rewrite map_length. apply nth_error_Some. now rewrite Hi.
    - rewrite !nth_error_map, Hi, Hj. cbn. now rewrite E.
  Qed.

  Lemma assoc_index n pfn : (n <= total)%nat ->
    assoc pfn (index n) =
    match find_rec (firstn n stream) pfn 0 with
    | Some (i, _) => Some (off i)
    | None => None
    end.
  Proof.
    induction n as [| n IH]; intro Hn; [reflexivity |].
    assert (Hlt : (n < length stream)%nat) by (unfold total in Hn; lia).
    destruct (nth_error stream n) as [p |] eqn:Hp; [| apply nth_error_None in Hp; lia].
    cbn [index assoc]. rewrite (nth_dflt _ _ Hp), (firstn_S_snoc _ _ _ Hp).
    rewrite IH by lia. clear IH.
    (* find_rec over the appended record *)
    assert (Hfr : forall s k, find_rec (s ++ [p]) pfn k =
              match find_rec s pfn k with
              | Some r => Some r
              | None => if lp_pfn p =? pfn then Some ((k + length s)%nat, p) else None
              end).
    { induction s as [| a t IHs]; intro k; cbn [app find_rec length].
      - rewrite Nat.add_0_r. reflexivity.
      - destruct (lp_pfn a =? pfn); [reflexivity |]. rewrite IHs. 
        destruct (find_rec t pfn (S k)); [reflexivity |].
        replace (S k + length t)%nat with (k + S (length t))%nat by lia. reflexivity. }
    rewrite Hfr. clear Hfr.
    destruct (find_rec (firstn n stream) pfn 0) as [[i q] |] eqn:Hf.
    - (* found earlier: the new record is a different page frame *)
      destruct (find_rec_some _ _ _ _ _ Hf) as [_ [Hq [Hpq _]]]. rewrite Nat.sub_0_r in Hq.
      assert (Hi : (i < n)%nat).
      { assert (nth_error (firstn n stream) i <> None) by (rewrite Hq; discriminate).
        apply nth_error_Some in H. rewrite firstn_length in H. lia. }
      rewrite nth_error_firstn_lt in Hq by assumption.
      destruct (N.eqb_spec (lp_pfn p) pfn) as [E | NE]; [| reflexivity].
      exfalso. assert (n = i) by (apply (nodup_idx n i p q); congruence). lia.
    - rewrite firstn_length. replace (0 + Nat.min n (length stream))%nat with n by lia.
      destruct (lp_pfn p =? pfn); reflexivity.
  Qed.

  (** ** decoding one record *)
  Lemma rec_info i p : nth_error stream i = Some p ->
    exists pc, nth_error img i = Some pc /\ rec_stores gunzip (ll_compression l) pgsz p pc.
  Proof.
    intro H. pose proof (Forall2_nth_error _ _ _ Hst i) as R. rewrite H in R.
    destruct (nth_error img i) as [pc |]; [| contradiction]. now exists pc.
  Qed.

  Lemma rec_flags i p : nth_error stream i = Some p -> lp_flags p = 1 \/ lp_flags p = 2.
  Proof.
    intro H. destruct (rec_info i p H) as [pc [_ [_ [_ [_ [[Hf _] | [Hf _]]]]]]]; auto.
  Qed.

  Lemma rec_addr i p : nth_error stream i = Some p -> N.shiftl (lp_pfn p) shift < 2^64.
  Proof.
    intro H. pose proof (lw_addr _ _ Hwf) as Ha. rewrite Forall_forall in Ha.
    specialize (Ha p (nth_error_In _ _ H)). destruct pgsz_pow as [k [_ [E Es]]].
    rewrite N.shiftl_mul_pow2, Es. fold pgsz in Ha. now rewrite E in Ha.
  Qed.

  Lemma rec_len i p : nth_error stream i = Some p -> len (lp_payload p) < 2^32.
  Proof. intro H. destruct (rec_info i p H) as [pc [_ [_ [_ [Hl _]]]]]. exact Hl. Qed.

  Lemma desc_fields i p : nth_error stream i = Some p ->
    get64 be (rd 0 (off i) 16) 0 = N.shiftl (lp_pfn p) shift /\
    get32 be (rd 0 (off i) 16) 8 = len (lp_payload p) /\
    get32 be (rd 0 (off i) 16) 12 = lp_flags p.
  Proof.
    intro H. rewrite (rd_desc i p H).
    pose proof (rec_addr i p H). pose proof (rec_len i p H).
    destruct (rec_flags i p H) as [Hf | Hf].
    - repeat split; [apply get64_flds | apply get32_flds | apply get32_flds];
        try reflexivity; try assumption; cbn; rewrite ?Hf; lia.
    - repeat split; [apply get64_flds | apply get32_flds | apply get32_flds];
        try reflexivity; try assumption; cbn; rewrite ?Hf; lia.
  Qed.

  Lemma curpfn_ok p : N.shiftr (N.shiftl (lp_pfn p) shift) (shift_of pgsz) = lp_pfn p.
  Proof.
    unfold shift_of. fold shift. rewrite N.shiftr_shiftl_l by lia. now rewrite N.sub_diag, N.shiftl_0_r.
  Qed.

  Lemma end_flags : get32 be (rd 0 (off total) 16) 12 = 4.
  Proof. rewrite rd_end. unfold end_marker. apply get32_flds; [reflexivity | lia | cbn; lia]. Qed.

  Lemma off_pos n : 742 <= off n.
  Proof. pose proof dataoff_pos. unfold off. lia. Qed.

  Lemma off_le n : off n + 16 <= len F.
  Proof.
    unfold off, F, encode_lkcd. fold be shift dataoff. rewrite !len_app, len_fit.
    change (len (flat_map (enc_page be (N.log2 (ll_page_size l))) stream)) with (recs_len be shift stream).
    rewrite <- (firstn_skipn n stream) at 2. rewrite recs_len_app.
    unfold end_marker. rewrite len_enc_flds. cbn [flds_len fld_len map fold_right]. lia.
  Qed.

  (** ** the scan *)
  Lemma skipn_cons i p : nth_error stream i = Some p -> skipn i stream = p :: skipn (S i) stream.
  Proof.
    intro H. pose proof (nth_error_split' _ _ _ H) as E.
    rewrite E at 1. rewrite skipn_app, firstn_length.
    assert (Hi : (i < length stream)%nat) by (apply nth_error_Some; now rewrite H).
    rewrite skipn_all2 by (rewrite firstn_length; lia).
    replace (i - Nat.min i (length stream))%nat with 0%nat by lia. reflexivity.
  Qed.

  Lemma search_from : forall fuel n pfn,
    (n <= total)%nat -> (total - n < fuel)%nat ->
    search rd fuel (state n false) pfn =
    match find_rec (skipn n stream) pfn n with
    | Some (i, _) => (KDUMP_OK, state (S i) false, off i)
    | None => (ERR_NODATA, state total true, 0)
    end.
  Proof.
    induction fuel as [| fuel IH]; intros n pfn Hn Hfuel; [lia |].
    cbn [search]. cbn [lk_last lk_end lk_be lk_page_size lk_index lk_version lk_compression lk_max_pfn state].
    pose proof (off_pos n) as Hop.
    destruct (N.eqb_spec (off n) 0); [lia |].
    destruct (Nat.eq_dec n total) as [-> | Hne].
    - (* the END marker *)
      rewrite end_flags. replace (N.land 4 DUMP_END =? 0) with false by reflexivity. cbn [negb].
      unfold total. rewrite skipn_all. reflexivity.
    - assert (Hlt : (n < length stream)%nat) by (unfold total in *; lia).
      destruct (nth_error stream n) as [p |] eqn:Hp; [| apply nth_error_None in Hp; lia].
      destruct (desc_fields n p Hp) as [Ha [Hs Hf]]. rewrite Ha, Hs, Hf, curpfn_ok.
      assert (Hend : N.land (lp_flags p) DUMP_END =? 0 = true)
        by (destruct (rec_flags n p Hp) as [-> | ->]; reflexivity).
      rewrite Hend. cbn [negb].
      assert (H32 : lp_pfn p < 2^32).
      { pose proof (lw_pfn32 _ _ Hwf) as Hall. rewrite Forall_forall in Hall.
        exact (Hall _ (nth_error_In _ _ Hp)). }
      destruct (N.leb_spec (2^32) (lp_pfn p)) as [Hbad | _]; [lia |].
      (* not seen before *)
      rewrite (assoc_index n (lp_pfn p)) by lia.
      destruct (find_rec (firstn n stream) (lp_pfn p) 0) as [[j q] |] eqn:Hfj.
      + exfalso. destruct (find_rec_some _ _ _ _ _ Hfj) as [_ [Hq [Hpq _]]]. rewrite Nat.sub_0_r in Hq.
        assert (Hj : (j < n)%nat).
        { assert (nth_error (firstn n stream) j <> None) by (rewrite Hq; discriminate).
          apply nth_error_Some in H. rewrite firstn_length in H. lia. }
        rewrite nth_error_firstn_lt in Hq by assumption.
        assert (n = j) by (apply (nodup_idx n j p q); congruence). lia.
      + assert (Hst' : {| lk_be := be; lk_version := ll_version l; lk_page_size := pgsz;
                          lk_compression := ll_compression l;
                          lk_index := (lp_pfn p, off n) :: index n;
                          lk_last := off n + 16 + len (lp_payload p); lk_end := 0;
                          lk_max_pfn := N.max (mx n) (lp_pfn p + 1) |} = state (S n) false).
        { unfold state. cbn [index]. rewrite (nth_dflt _ _ Hp), (off_S _ _ Hp), (mx_S _ _ Hp). reflexivity. }
        fold (index n). rewrite Hst'.
        rewrite (skipn_cons n p Hp). cbn [find_rec].
        destruct (N.eqb_spec (lp_pfn p) pfn) as [E | NE]; [reflexivity |].
        rewrite IH by (unfold total in *; lia). reflexivity.
  Qed.

  (** ** reading a page *)
  Lemma find_rec_app a b pfn : forall k,
    find_rec (a ++ b) pfn k =
    match find_rec a pfn k with
    | Some r => Some r
    | None => find_rec b pfn (k + length a)
    end.
  Proof.
    induction a as [| x t IH]; intro k; cbn [app find_rec length].
    - now rewrite Nat.add_0_r.
    - destruct (lp_pfn x =? pfn); [reflexivity |]. rewrite IH.
      destruct (find_rec t pfn (S k)); [reflexivity |]. f_equal. lia.
  Qed.

  Lemma find_rec_prefix n pfn : (n <= total)%nat ->
    find_rec stream pfn 0 =
    match find_rec (firstn n stream) pfn 0 with
    | Some r => Some r
    | None => find_rec (skipn n stream) pfn n
    end.
  Proof.
    intro Hn. rewrite <- (firstn_skipn n stream) at 1. rewrite find_rec_app.
    rewrite firstn_length. replace (0 + Nat.min n (length stream))%nat with n by (unfold total in Hn; lia).
    reflexivity.
  Qed.

  Lemma spec_find pfn : forall s im k,
    Forall2 (rec_stores gunzip (ll_compression l) (ll_page_size l)) s im ->
    spec_lkcd_page im pfn =
    match find_rec s pfn k with
    | Some (i, _) => match nth_error im (i - k) with Some pc => Ok (snd pc) | None => Err ERR_NODATA end
    | None => Err ERR_NODATA
    end.
  Proof.
    intros s im k H. revert k. induction H as [| p pc s im Hp Hrest IH]; intro k; [reflexivity |].
    cbn [spec_lkcd_page find_rec]. destruct pc as [pf c]. destruct Hp as [Hpf _]. cbn [fst] in Hpf.
    rewrite <- Hpf. destruct (N.eqb_spec (lp_pfn p) pfn) as [E | NE].
    - rewrite Nat.sub_diag. reflexivity.
    - rewrite (IH (S k)). destruct (find_rec s pfn (S k)) as [[i q] |] eqn:Hf; [| reflexivity].
      destruct (find_rec_some _ _ _ _ _ Hf) as [Hle _].
      replace (i - k)%nat with (S (i - S k)) by lia. reflexivity.
  Qed.

  (** the part of [lk_read_page] after the descriptor has been located *)
  Definition decode (st : lk_state) (o : N) : res bytes * lk_state :=
    let dp := rd 0 o 16 in
    let size := get32 (lk_be st) dp 8 in
    let type := N.land (get32 (lk_be st) dp 12) 3 in
    let pgsz := lk_page_size st in
    if type =? DUMP_COMPRESSED then
      if pgsz <? size then (Err ERR_CORRUPT, st) else
      let buf := rd 0 (o + 16) size in
      if lk_compression st =? COMPRESS_RLE then
        match uncompress_rle buf pgsz with
        | Some out => if len out =? pgsz then (Ok out, st) else (Err ERR_CORRUPT, st)
        | None => (Err ERR_CORRUPT, st)
        end
      else if lk_compression st =? COMPRESS_GZIP then
        match gunzip buf with
        | Some out => if len out =? pgsz then (Ok out, st) else (Err ERR_CORRUPT, st)
        | None => (Err ERR_CORRUPT, st)
        end
      else (Err ERR_NOTIMPL, st)
    else if type =? DUMP_RAW then
      if negb (size =? pgsz) then (Err ERR_CORRUPT, st)
      else (Ok (rd 0 (o + 16) size), st)
    else (Err ERR_NOTIMPL, st).

  Lemma read_page_unfold fuel st pfn :
    lk_read_page rd gunzip fuel st pfn =
    match get_page_desc rd fuel st pfn with
    | (status, st, o) => if negb (status =? KDUMP_OK) then (Err status, st) else decode st o
    end.
  Proof. reflexivity. Qed.

  Lemma decode_ok n fin i p pc :
    nth_error stream i = Some p -> nth_error img i = Some pc ->
    decode (state n fin) (off i) = (Ok (snd pc), state n fin).
  Proof.
    intros Hp Hpc. unfold decode. cbn [lk_be lk_page_size lk_compression state].
    destruct (desc_fields i p Hp) as [_ [Hs Hf]]. rewrite Hs, Hf.
    destruct (rec_info i p Hp) as [pc' [Hpc' R]]. rewrite Hpc in Hpc'. injection Hpc' as <-.
    destruct R as [_ [Hlen [Hl32 [[Hfl Hraw] | [Hfl [Hmax Hcomp]]]]]]; rewrite Hfl.
    - (* raw *)
      change (N.land 1 3 =? DUMP_COMPRESSED) with false.
      change (N.land 1 3 =? DUMP_RAW) with true. cbv iota.
      rewrite (rd_payload i p Hp). rewrite Hraw, Hlen, N.eqb_refl. reflexivity.
    - change (N.land 2 3 =? DUMP_COMPRESSED) with true. cbv iota.
      destruct (N.ltb_spec pgsz (len (lp_payload p))); [lia |].
      rewrite (rd_payload i p Hp).
      destruct Hcomp as [[Hc [ts [Hts [Hren Hexp]]]] | [Hc Hgz]]; rewrite Hc.
      + change (1 =? COMPRESS_RLE) with true. cbv iota.
        rewrite Hren, rle_decode_render by (try assumption; rewrite Hexp, Hlen; lia).
        rewrite Hexp, Hlen, N.eqb_refl. reflexivity.
      + change (2 =? COMPRESS_RLE) with false. change (2 =? COMPRESS_GZIP) with true. cbv iota.
        rewrite Hgz, Hlen, N.eqb_refl. reflexivity.
  Qed.

  Theorem read_page_inv fuel st pfn :
    inv st -> (total + 1 < fuel)%nat ->
    fst (lk_read_page rd gunzip fuel st pfn) = spec_lkcd_page img pfn /\
    inv (snd (lk_read_page rd gunzip fuel st pfn)).
  Proof.
    intros [n [Hn Hcase]] Hfuel. rewrite read_page_unfold. unfold get_page_desc.
    rewrite (spec_find pfn stream img 0 Hst), (find_rec_prefix n pfn Hn).
    assert (Hidx : lk_index st = index n) by (destruct Hcase as [-> | [_ ->]]; reflexivity).
    rewrite Hidx, (assoc_index n pfn Hn).
    destruct (find_rec (firstn n stream) pfn 0) as [[i q] |] eqn:Hf.
    - (* already indexed *)
      destruct (find_rec_some _ _ _ _ _ Hf) as [_ [Hq _]]. rewrite Nat.sub_0_r in Hq.
      assert (Hi : (i < n)%nat).
      { assert (nth_error (firstn n stream) i <> None) by (rewrite Hq; discriminate).
        apply nth_error_Some in H. rewrite firstn_length in H. lia. }
      rewrite nth_error_firstn_lt in Hq by assumption.
      destruct (rec_info i q Hq) as [pc [Hpc _]]. rewrite Nat.sub_0_r, Hpc.
      cbn [N.eqb negb].
      destruct Hcase as [-> | [E ->]]; rewrite (decode_ok _ _ i q pc Hq Hpc); cbn [fst snd];
        (split; [reflexivity |]); exists n; (split; [assumption |]); [left | right]; auto.
    - destruct Hcase as [-> | [E ->]].
      + (* scan on *)
        rewrite (search_from fuel n pfn Hn) by lia.
        destruct (find_rec (skipn n stream) pfn n) as [[i q] |] eqn:Hf2.
        * destruct (find_rec_some _ _ _ _ _ Hf2) as [Hle [Hq _]].
          rewrite nth_error_skipn_add in Hq. replace (n + (i - n))%nat with i in Hq by lia.
          destruct (rec_info i q Hq) as [pc [Hpc _]]. rewrite Nat.sub_0_r, Hpc.
          cbn [N.eqb negb]. rewrite (decode_ok _ _ i q pc Hq Hpc). cbn [fst snd].
          split; [reflexivity |]. exists (S i). split.
          -- assert (i < length stream)%nat by (apply nth_error_Some; now rewrite Hq). unfold total. lia.
          -- now left.
        * cbn [fst snd]. replace (negb (ERR_NODATA =? KDUMP_OK)) with true by reflexivity. cbn [fst snd].
          split; [reflexivity |]. exists total. split; [lia |]. right. auto.
      + (* the whole stream has been scanned *)
        subst n. destruct fuel as [| fuel']; [lia |]. cbn [search lk_last lk_end state].
        rewrite N.eqb_refl. replace (negb (ERR_NODATA =? KDUMP_OK)) with true by reflexivity.
        cbn [fst snd]. unfold total. rewrite skipn_all. cbn [find_rec].
        split; [reflexivity |]. exists (length stream). split; [lia |]. right. auto.
  Qed.

  (** ** opening *)
  Lemma hdr_len_le : flds_len (header_flds l) <= 742.
  Proof.
    unfold header_flds, common_flds.
    destruct (ll_version l =? 1); [destruct (ll_hdr64 l); cbn; lia |].
    destruct (ll_version l <? 8); [destruct (ll_hdr64 l); cbn; lia | cbn; lia].
  Qed.

  Lemma F_hdr : exists rest, F = enc_flds be (header_flds l) ++ rest.
  Proof.
    unfold F, encode_lkcd. fold be dataoff. rewrite fit_small.
    - rewrite <- app_assoc. eexists. reflexivity.
    - rewrite len_enc_flds. pose proof hdr_len_le. pose proof dataoff_pos. lia.
  Qed.

  Lemma hdr_rd o n : rd 0 o n = read_of F o n.
  Proof. reflexivity. Qed.

  Lemma hdr32 off' v :
    fld_at (header_flds l) off' = Some (F32 v) -> v < 2^32 -> off' + 4 <= 742 ->
    get32 be (rd 0 0 DH_V8_SIZE) off' = v.
  Proof.
    intros Hf Hv Ho. rewrite hdr_rd, get32_read by (unfold DH_V8_SIZE; lia).
    destruct F_hdr as [rest E]. rewrite E. now apply get32_fld.
  Qed.

  Lemma hdr64 off' v :
    fld_at (header_flds l) off' = Some (F64 v) -> v < 2^64 -> off' + 8 <= 742 ->
    get64 be (rd 0 0 DH_V8_SIZE) off' = v.
  Proof.
    intros Hf Hv Ho. rewrite hdr_rd, get64_read by (unfold DH_V8_SIZE; lia).
    destruct F_hdr as [rest E]. rewrite E. now apply get64_fld.
  Qed.

  Lemma hdr_bytes off' n b :
    fld_at (header_flds l) off' = Some (FB n b) -> off' + n <= 742 ->
    sub (rd 0 0 DH_V8_SIZE) off' n = fit n b.
  Proof.
    intros Hf Ho. rewrite hdr_rd, sub_read_of by (unfold DH_V8_SIZE; lia).
    destruct F_hdr as [rest E]. rewrite E.
    exact (read_fld be (header_flds l) rest off' (FB n b) Hf).
  Qed.

  Lemma version_masked : N.land (N.lor (ll_version l) (ll_mclx l)) 1073741823 = ll_version l.
  Proof.
    pose proof (lw_version _ _ Hwf) as Hv. pose proof (lw_mclx _ _ Hwf) as Hm. cbn [In] in Hv, Hm.
    repeat (destruct Hv as [<- | Hv]); try contradiction;
      repeat (destruct Hm as [<- | Hm]); try contradiction; reflexivity.
  Qed.

  Lemma is_pow2_pgsz : is_pow2 pgsz = true.
  Proof.
    destruct pgsz_pow as [k [Hk [E _]]]. rewrite E.
    assert (Hc : k = 12 \/ k = 13 \/ k = 14 \/ k = 15 \/ k = 16 \/ k = 17 \/ k = 18) by lia.
    destruct Hc as [-> | [-> | [-> | [-> | [-> | [-> | ->]]]]]]; vm_compute; reflexivity.
  Qed.

  Lemma state0 ver comp doff : ver = ll_version l -> comp = ll_compression l -> doff = dataoff ->
    @Ok lk_state {| lk_be := be; lk_version := ver; lk_page_size := pgsz; lk_compression := comp;
       lk_index := []; lk_last := doff; lk_end := 0; lk_max_pfn := 0 |} = Ok (state 0 false).
  Proof.
    intros -> -> ->. unfold state, off, recs_len. cbn [firstn flat_map index mx fold_left].
    rewrite len_nil, N.add_0_r. reflexivity.
  Qed.

  (** the 32-bit position of the utsname in a 64-bit header starts inside the
      (zero) time stamp: it does not look sane *)
  Lemma uts32_insane_in_64 :
    ll_hdr64 l = true -> 2 <= ll_version l -> ll_version l < 8 ->
    uts_sane (sub (rd 0 0 DH_V8_SIZE) 316 390) = false.
  Proof.
    intros H64 Hv2 Hv8. unfold uts_sane.
    assert (Hz : firstn 6 (sub (rd 0 0 DH_V8_SIZE) 316 390) = zeros 6).
    { rewrite hdr_rd, sub_read_of by (unfold DH_V8_SIZE; lia). change 6%nat with (N.to_nat 6).
      rewrite firstn_read_of by lia. change (0 + 316) with (312 + 4).
      rewrite <- (read_of_read_of F 312 16 4 6) by lia.
      destruct F_hdr as [rest E]. rewrite E.
      assert (Hf : fld_at (header_flds l) 312 = Some (FB 16 [])).
      { unfold header_flds. destruct (N.eqb_spec (ll_version l) 1); [lia |].
        destruct (N.ltb_spec (ll_version l) 8); [| lia]. rewrite H64. reflexivity. }
      pose proof (read_fld be _ rest 312 _ Hf) as R. cbn [fld_len enc_fld] in R.
      rewrite R, fit_nil. apply read_of_zeros. }
    rewrite Hz. replace (bytes_eqb (zeros 6) [76; 105; 110; 117; 120; 0]) with false by reflexivity.
    apply andb_false_r.
  Qed.

  Lemma uts_at off' :
    fld_at (header_flds l) off' = Some (FB 390 (ll_uts l)) -> off' + 390 <= 742 ->
    uts_sane (sub (rd 0 0 DH_V8_SIZE) off' 390) = true.
  Proof.
    intros Hf Ho. rewrite (hdr_bytes off' 390 (ll_uts l) Hf Ho). apply (lw_uts _ _ Hwf).
  Qed.

  (** versions 5..7: the compression field of the right header variant *)
  Lemma v5_7 ver :
    ver = ll_version l -> 5 <= ll_version l -> ll_version l < 8 ->
    (ll_compression l = 1 \/ ll_compression l = 2) -> dataoff = 65536 ->
    @Ok lk_state {| lk_be := be; lk_version := ver; lk_page_size := pgsz;
       lk_compression :=
         get32 be (rd 0 0 DH_V8_SIZE)
           (if negb (uts_sane (sub (rd 0 0 DH_V8_SIZE) 316 390)) && uts_sane (sub (rd 0 0 DH_V8_SIZE) 328 390)
            then 728 else 712);
       lk_index := []; lk_last := LKCD_OFFSET_TO_FIRST_PAGE; lk_end := 0; lk_max_pfn := 0 |}
    = Ok (state 0 false).
  Proof.
    intros Hver H5 H8 Hc Hd.
    assert (Hn1 : ll_version l =? 1 = false) by (apply N.eqb_neq; lia).
    assert (Hl8 : ll_version l <? 8 = true) by (apply N.ltb_lt; lia).
    assert (Hc32 : ll_compression l < 2^32) by (destruct Hc as [-> | ->]; reflexivity).
    apply state0; [assumption | | now symmetry].
    destruct (ll_hdr64 l) eqn:H64.
    - rewrite (uts32_insane_in_64 H64) by lia.
      rewrite uts_at by (try lia; unfold header_flds; rewrite Hn1, Hl8, H64; reflexivity).
      cbn [negb andb].
      apply hdr32; [unfold header_flds; rewrite Hn1, Hl8, H64; reflexivity | assumption | lia].
    - rewrite (uts_at 316) by (try lia; unfold header_flds; rewrite Hn1, Hl8, H64; reflexivity).
      cbn [negb andb].
      apply hdr32; [unfold header_flds; rewrite Hn1, Hl8, H64; reflexivity | assumption | lia].
  Qed.

  Theorem open_spec : lk_open rd 1 = Ok (state 0 false).
  Proof.
    unfold lk_open.
    pose proof pgsz_bounds as Hpb. pose proof dataoff_pos as Hdo. pose proof (lw_memsize _ _ Hwf) as Hms.
    assert (Hmagic : sub (rd 0 0 DH_V8_SIZE) 0 8 = lk_magic be).
    { rewrite (hdr_bytes 0 8 (lk_magic be)) by (try reflexivity; lia).
      unfold be. destruct (ll_be l); reflexivity. }
    rewrite Hmagic.
    assert (Hm1 : bytes_eqb (lk_magic be) magic_le || bytes_eqb (lk_magic be) (rev magic_le) = true)
      by (unfold be; destruct (ll_be l); reflexivity).
    assert (Hm2 : bytes_eqb (lk_magic be) (rev magic_le) = be)
      by (unfold be; destruct (ll_be l); reflexivity).
    rewrite Hm1, Hm2. cbn [negb Nat.ltb Nat.leb].
    assert (Hvm : ll_version l < 2^32 /\ N.lor (ll_version l) (ll_mclx l) < 2^32).
    { pose proof (lw_version _ _ Hwf) as Hv. pose proof (lw_mclx _ _ Hwf) as Hm. cbn [In] in Hv, Hm.
      repeat (destruct Hv as [<- | Hv]); try contradiction;
        repeat (destruct Hm as [<- | Hm]); try contradiction; split; reflexivity. }
    rewrite (hdr32 8 (N.lor (ll_version l) (ll_mclx l))) by (try reflexivity; lia).
    rewrite version_masked.
    rewrite (hdr32 20 pgsz) by (try reflexivity; lia).
    rewrite is_pow2_pgsz. cbn [negb].
    pose proof (lw_comp _ _ Hwf) as Hcomp. pose proof (lw_dataoff _ _ Hwf) as Hdoff. fold dataoff in Hdoff.
    pose proof (lw_uts _ _ Hwf) as Huts.
    pose proof (lw_version _ _ Hwf) as Hv. cbn [In] in Hv.
    destruct Hv as [Hv | [Hv | [Hv | [Hv | [Hv | [Hv | [Hv | [Hv | [Hv | []]]]]]]]]];
      rewrite <- Hv in *; cbn [N.eqb Pos.eqb orb N.leb N.compare Pos.compare Pos.compare_cont N.ltb] in *.
    - (* v1 *) apply state0; [assumption | now symmetry | now symmetry].
    - (* v2 *) apply state0; [assumption | now symmetry | now symmetry].
    - (* v3 *) apply state0; [assumption | now symmetry | now symmetry].
    - (* v5 *) apply v5_7; try assumption; rewrite <- Hv; [discriminate | reflexivity].
    - apply v5_7; try assumption; rewrite <- Hv; [discriminate | reflexivity].
    - apply v5_7; try assumption; rewrite <- Hv; [discriminate | reflexivity].
    - (* v8 *) apply state0; [assumption | | now symmetry].
      apply hdr32; [unfold header_flds; rewrite <- Hv; reflexivity | destruct Hcomp as [-> | ->]; reflexivity | lia].
    - apply state0; [assumption | |].
      + apply hdr32; [unfold header_flds; rewrite <- Hv; reflexivity | destruct Hcomp as [-> | ->]; reflexivity | lia].
      + apply hdr64; [unfold header_flds; rewrite <- Hv; reflexivity | fold dataoff; lia | lia].
    - apply state0; [assumption | |].
      + apply hdr32; [unfold header_flds; rewrite <- Hv; reflexivity | destruct Hcomp as [-> | ->]; reflexivity | lia].
      + apply hdr64; [unfold header_flds; rewrite <- Hv; reflexivity | fold dataoff; lia | lia].
  Qed.

  (** ** the highest page frame *)
  Lemma pfn_small p : In p stream -> lp_pfn p < 2^64 - 1.
  Proof.
    intro H. pose proof (lw_addr _ _ Hwf) as Ha. rewrite Forall_forall in Ha. specialize (Ha p H).
    fold pgsz in Ha. pose proof pgsz_bounds. nia.
  Qed.

  Lemma find_rec_top : forall s k, (forall p, In p s -> In p stream) -> find_rec s (2^64 - 1) k = None.
  Proof.
    induction s as [| a t IH]; intros k Hin; [reflexivity |].
    cbn [find_rec]. pose proof (pfn_small a (Hin a (or_introl eq_refl))) as Hs.
    destruct (N.eqb_spec (lp_pfn a) (2^64 - 1)); [lia |].
    apply IH. intros p Hp. apply Hin. now right.
  Qed.

  Lemma mx_spec : mx total = spec_lkcd_max_pfn img.
  Proof.
    unfold mx, total, spec_lkcd_max_pfn. rewrite firstn_all.
    exact (fold_max_pfn _ _ _ _ _ Hst 0).
  Qed.

  Theorem scan_max_pfn_inv fuel st :
    inv st -> (total + 1 < fuel)%nat ->
    fst (lk_scan_max_pfn rd fuel st) = Ok (spec_lkcd_max_pfn img) /\ inv (snd (lk_scan_max_pfn rd fuel st)).
  Proof.
    intros [n [Hn Hcase]] Hfuel. unfold lk_scan_max_pfn.
    destruct Hcase as [-> | [E ->]]; cbn [lk_last lk_end state].
    - pose proof (off_pos n). destruct (N.eqb_spec (off n) 0); [lia |].
      rewrite (search_from fuel n (2^64 - 1) Hn) by lia.
      rewrite find_rec_top by (intros p Hp; rewrite <- (firstn_skipn n stream); apply in_or_app; now right).
      change (ERR_NODATA =? ERR_NODATA) with true. cbn [fst snd lk_max_pfn state].
      split; [now rewrite mx_spec |]. exists total. split; [lia |]. right. auto.
    - rewrite N.eqb_refl. cbn [fst snd lk_max_pfn state]. subst n.
      split; [now rewrite mx_spec |]. exists total. split; [lia |]. right. auto.
  Qed.

  Lemma inv_geometry st : inv st -> lk_be st = be /\ lk_page_size st = pgsz.
  Proof. intros [n [_ [-> | [_ ->]]]]; split; reflexivity. Qed.

  Lemma inv_facts st : inv st ->
    exists n, (n <= total)%nat /\ lk_index st = index n /\ lk_last st = off n /\
              lk_end st <= lk_last st /\ lk_last st + 16 <= len F.
  Proof.
    intros [n [Hn Hc]]. exists n. pose proof (off_le n).
    destruct Hc as [-> | [_ ->]]; cbn [state lk_index lk_last lk_end]; repeat split; auto; lia.
  Qed.

  Lemma inv_open : inv (state 0 false).
  Proof. exists 0%nat. split; [lia |]. now left. Qed.

  Lemma spec_page_len pfn c : spec_lkcd_page img pfn = Ok c -> len c = pgsz.
  Proof. exact (spec_page_len_gen _ _ _ _ _ pfn c Hst). Qed.
End Roundtrip.

(** * closed statements *)

Theorem lkcd_open gunzip l stream img :
  lk_wf l stream -> Forall2 (rec_stores gunzip (ll_compression l) (ll_page_size l)) stream img ->
  exists st, lk_open (read_files [encode_lkcd l stream]) 1 = Ok st /\
    inv l stream st /\ lk_be st = ll_be l /\ lk_page_size st = ll_page_size l.
Proof.
  intros Hwf Hst. exists (state l stream 0 false). split; [exact (open_spec l stream Hwf) |].
  split; [apply inv_open | split; reflexivity].
Qed.

Theorem lkcd_read_page gunzip l stream img :
  lk_wf l stream -> Forall2 (rec_stores gunzip (ll_compression l) (ll_page_size l)) stream img ->
  forall fuel st pfn, inv l stream st -> (length stream + 1 < fuel)%nat ->
    fst (lk_read_page (read_files [encode_lkcd l stream]) gunzip fuel st pfn) = spec_lkcd_page img pfn /\
    inv l stream (snd (lk_read_page (read_files [encode_lkcd l stream]) gunzip fuel st pfn)).
Proof. intros Hwf Hst fuel st pfn. exact (read_page_inv gunzip l stream img Hwf Hst fuel st pfn). Qed.

Theorem lkcd_max_pfn gunzip l stream img :
  lk_wf l stream -> Forall2 (rec_stores gunzip (ll_compression l) (ll_page_size l)) stream img ->
  forall fuel st, inv l stream st -> (length stream + 1 < fuel)%nat ->
    fst (lk_scan_max_pfn (read_files [encode_lkcd l stream]) fuel st) = Ok (spec_lkcd_max_pfn img) /\
    inv l stream (snd (lk_scan_max_pfn (read_files [encode_lkcd l stream]) fuel st)).
Proof. intros Hwf Hst fuel st. exact (scan_max_pfn_inv gunzip l stream img Hwf Hst fuel st). Qed.
