(** Specification side of C01 for ELF core dumps: the writer ([encode_elf],
    from the ELF specification's Elf32/Elf64 header and program header
    tables) and what a page read must return ([spec_elf_page]).

    The dumped memory is given by segments: each PT_LOAD segment places
    [sg_data] (file-backed bytes) at physical address [sg_phys] / virtual
    address [sg_virt], followed by [sg_memsz - len sg_data] bytes that the dump
    *excludes* (makedumpfile -E represents excluded pages this way).  Memory
    outside every segment is absent. *)
From Coq Require Import NArith List Bool.
From KdV Require Import Fmt.Codec.
Import ListNotations.
Local Open Scope N_scope.

Record elf_seg := {
  sg_type : N;       (* p_type: 1 = PT_LOAD, 4 = PT_NOTE, anything else is ignored *)
  sg_flags : N;
  sg_phys : N;
  sg_virt : N;
  sg_data : bytes;   (* the file-backed bytes *)
  sg_filesz : N;     (* p_filesz; well-formed: = len sg_data *)
  sg_memsz : N;
  sg_align : N;
  sg_gap : N         (* unused file bytes before the segment's data *)
}.

Record elf_layout := {
  el_be : bool;
  el_64 : bool;
  el_machine : N;
  el_osabi : N;
  el_flags : N;
  el_phoff_gap : N;    (* unused bytes between the ELF header and the program headers *)
  el_phent_extra : N   (* e_phentsize - sizeof(ElfNN_Phdr) *)
}.

Definition ehdr_size (l : elf_layout) : N := if el_64 l then 64 else 52.
Definition phdr_size (l : elf_layout) : N := (if el_64 l then 56 else 32) + el_phent_extra l.
Definition phoff (l : elf_layout) : N := ehdr_size l + el_phoff_gap l.

Definition ehdr_flds (l : elf_layout) (phnum : N) : list fld :=
  [ FB 4 [127; 69; 76; 70];
    FB 1 [if el_64 l then 2 else 1];             (* EI_CLASS *)
    FB 1 [if el_be l then 2 else 1];             (* EI_DATA *)
    FB 1 [1];                                    (* EI_VERSION *)
    FB 1 [el_osabi l];
    FB 8 [];
    F16 4;                                       (* e_type = ET_CORE *)
    F16 (el_machine l);
    F32 1 ]                                      (* e_version = EV_CURRENT *)
  ++ (if el_64 l then [F64 0; F64 (phoff l); F64 0] else [F32 0; F32 (phoff l); F32 0])
                                                 (* e_entry, e_phoff, e_shoff *)
  ++ [ F32 (el_flags l);
       F16 (ehdr_size l);
       F16 (phdr_size l);                        (* e_phentsize *)
       F16 phnum;
       F16 0; F16 0; F16 0 ].                    (* e_shentsize, e_shnum, e_shstrndx *)

Definition phdr_flds (l : elf_layout) (s : elf_seg) (off : N) : list fld :=
  (if el_64 l then
     [ F32 (sg_type s); F32 (sg_flags s); F64 off; F64 (sg_virt s); F64 (sg_phys s);
       F64 (sg_filesz s); F64 (sg_memsz s); F64 (sg_align s) ]
   else
     [ F32 (sg_type s); F32 off; F32 (sg_virt s); F32 (sg_phys s);
       F32 (sg_filesz s); F32 (sg_memsz s); F32 (sg_flags s); F32 (sg_align s) ])
  ++ [FB (el_phent_extra l) []].

(** program headers and data area; [off] is the file offset where the next
    segment's gap starts *)
Fixpoint enc_phdrs (l : elf_layout) (segs : list elf_seg) (off : N) : bytes :=
  match segs with
  | [] => []
  | s :: t =>
      enc_flds (el_be l) (phdr_flds l s (off + sg_gap s))
      ++ enc_phdrs l t (off + sg_gap s + sg_filesz s)
  end.

Fixpoint enc_segdata (segs : list elf_seg) : bytes :=
  match segs with
  | [] => []
  | s :: t => zeros (sg_gap s) ++ sg_data s ++ enc_segdata t
  end.

Definition data_start (l : elf_layout) (segs : list elf_seg) : N :=
  phoff l + phdr_size l * N.of_nat (length segs).

Definition encode_elf (l : elf_layout) (segs : list elf_seg) : bytes :=
  enc_flds (el_be l) (ehdr_flds l (N.of_nat (length segs)))
  ++ zeros (el_phoff_gap l)
  ++ enc_phdrs l segs (data_start l segs)
  ++ enc_segdata segs.

(** * what a read must return *)

Definition seg_base (virt : bool) (s : elf_seg) : N := if virt then sg_virt s else sg_phys s.

(** replace [len data] bytes of [page] from position [pos] *)
Definition paste (page : bytes) (pos : N) (data : bytes) : bytes :=
  firstn (N.to_nat pos) page ++ data ++ skipn (N.to_nat (pos + len data)) page.

(** overlay one LOAD segment on the page at [addr]: (page so far, covered so far) *)
Definition overlay (virt zero_excluded : bool) (pgsz addr : N) (acc : bytes * bool) (s : elf_seg)
  : bytes * bool :=
  let '(page, covered) := acc in
  if negb (sg_type s =? 1) then acc else
  let a := seg_base virt s in
  let lo := N.max a addr in
  let hi_f := N.min (a + sg_filesz s) (addr + pgsz) in
  let hi_m := N.min (a + sg_memsz s) (addr + pgsz) in
  let page := if lo <? hi_f then paste page (lo - addr) (sub (sg_data s) (lo - a) (hi_f - lo)) else page in
  (page, covered || (lo <? hi_f) || (zero_excluded && (lo <? hi_m))).

Definition ERR_XLAT : N := 98.

(** the page at the page-aligned address [addr]: file-backed bytes where a
    segment has them, zeroes elsewhere; reported only if the page holds at
    least one file-backed byte (or, with zero-fill of excluded pages, at least
    one byte of a segment's memory range) *)
Definition spec_elf_page (segs : list elf_seg) (pgsz : N) (zero_excluded virt : bool) (addr : N)
  : res bytes :=
  let '(page, covered) := fold_left (overlay virt zero_excluded pgsz addr) segs (zeros pgsz, false) in
  if covered then Ok page else Err (if virt then ERR_XLAT else ERR_NODATA).

(** highest page frame that holds a byte of a LOAD segment's memory range, plus one *)
Definition spec_elf_max_pfn (segs : list elf_seg) (pgsz : N) : N :=
  fold_left (fun m s => if sg_type s =? 1 then N.max m ((sg_phys s + sg_memsz s + pgsz - 1) / pgsz) else m) segs 0.
