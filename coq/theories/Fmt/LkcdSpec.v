(** Specification side of C01 for LKCD dumps: header, then a stream of
    (struct dump_page, payload) records in *any* order, closed by an END
    marker.  A page is stored raw or compressed with the one method the
    header names (RLE or gzip). *)
From Coq Require Import NArith List Bool.
From KdV Require Import Fmt.Codec.
Import ListNotations.
Local Open Scope N_scope.

Record lk_page := {
  lp_pfn : N;
  lp_flags : N;          (* DUMP_RAW = 1 or DUMP_COMPRESSED = 2 *)
  lp_payload : bytes
}.

Record lk_layout := {
  ll_be : bool;
  ll_version : N;        (* 1, 2, 3, 5 .. 10 *)
  ll_mclx : N;           (* MCLX flag bits or-ed into dh_version: 0, 2^31, 2^30 *)
  ll_hdr64 : bool;       (* versions 1..7: the 64-bit header variant *)
  ll_page_size : N;
  ll_compression : N;    (* 1 = RLE, 2 = gzip *)
  ll_uts : bytes;        (* 390 bytes *)
  ll_data_offset : N;    (* where the stream starts: 65536, or anything (v9+) *)
  ll_memsize : N
}.

Definition lk_magic (be : bool) : bytes :=
  if be then [168; 25; 1; 115; 97; 143; 35; 237] else [237; 35; 143; 97; 115; 1; 25; 168].

Definition common_flds (l : lk_layout) : list fld :=
  [ FB 8 (lk_magic (ll_be l));
    F32 (N.lor (ll_version l) (ll_mclx l));
    F32 (ll_data_offset l);                      (* dh_header_size *)
    F32 0;                                       (* dh_dump_level *)
    F32 (ll_page_size l);
    F64 (ll_memsize l); F64 0; F64 (ll_memsize l) ].

Definition header_flds (l : lk_layout) : list fld :=
  let v := ll_version l in
  common_flds l ++
  (if v =? 1 then
     [F32 0; F32 0; F32 0; FB 256 []]                          (* esp, eip, num_pages, panic *)
     ++ (if ll_hdr64 l then [FB 4 []; FB 16 []] else [FB 8 []])
     ++ [FB 390 (ll_uts l); FB 2 []]
   else if v <? 8 then
     [F32 0; FB 256 []]
     ++ (if ll_hdr64 l then [FB 4 []; FB 16 []; FB 390 (ll_uts l); FB 2 []; F64 0]
         else [FB 8 []; FB 390 (ll_uts l); FB 2 []; F32 0])
     ++ [F32 (ll_compression l); F32 0; F32 0]
   else
     [F32 0; FB 256 []; FB 16 []; FB 390 (ll_uts l); F64 0;
      F32 (ll_compression l); F32 0; F32 0; F64 (ll_data_offset l)]).

Definition enc_page (be : bool) (shift : N) (p : lk_page) : bytes :=
  enc_flds be [F64 (N.shiftl (lp_pfn p) shift); F32 (len (lp_payload p)); F32 (lp_flags p)]
  ++ lp_payload p.

Definition end_marker (be : bool) : bytes := enc_flds be [F64 0; F32 0; F32 4].

Definition encode_lkcd (l : lk_layout) (stream : list lk_page) : bytes :=
  fit (ll_data_offset l) (enc_flds (ll_be l) (header_flds l))
  ++ flat_map (enc_page (ll_be l) (N.log2 (ll_page_size l))) stream
  ++ end_marker (ll_be l).

(** what a read must deliver: the first record for the page frame *)
Fixpoint spec_lkcd_page (img : list (N * bytes)) (pfn : N) : res bytes :=
  match img with
  | [] => Err ERR_NODATA
  | (p, c) :: t => if p =? pfn then Ok c else spec_lkcd_page t pfn
  end.

Definition spec_lkcd_max_pfn (img : list (N * bytes)) : N :=
  fold_left (fun m pc => N.max m (fst pc + 1)) img 0.
