(** Lemmas about byte strings, integer codecs and file slices. *)
From Coq Require Import NArith List Bool Lia Arith.
From KdV Require Import Fmt.Codec.
Import ListNotations.
Local Open Scope N_scope.

(** * lengths *)

Lemma len_app a b : len (a ++ b) = len a + len b.
Proof. unfold len. rewrite app_length. lia. Qed.

Lemma len_nil : len [] = 0.
Proof. reflexivity. Qed.

Lemma len_cons x l : len (x :: l) = 1 + len l.
Proof. unfold len. cbn [length]. lia. Qed.

Lemma len_repeat (x : N) n : len (repeat x n) = N.of_nat n.
Proof. unfold len. now rewrite repeat_length. Qed.

Lemma len_zeros n : len (zeros n) = n.
Proof. unfold zeros. rewrite len_repeat. lia. Qed.

Lemma length_zeros n : length (zeros n) = N.to_nat n.
Proof. unfold zeros. now rewrite repeat_length. Qed.

Lemma to_nat_len l : N.to_nat (len l) = length l.
Proof. unfold len. lia. Qed.

Lemma le_put_length n v : length (le_put n v) = n.
Proof. revert v. induction n; intro v; cbn [le_put length]; [reflexivity | now rewrite IHn]. Qed.

Lemma put_length be n v : length (put be n v) = n.
Proof.
  unfold put, be_put. destruct be; [rewrite rev_length |]; apply le_put_length.
Qed.

Lemma len_put be n v : len (put be n v) = N.of_nat n.
Proof. unfold len. now rewrite put_length. Qed.

Lemma len_put16 be v : len (put16 be v) = 2. Proof. apply len_put. Qed.
Lemma len_put32 be v : len (put32 be v) = 4. Proof. apply len_put. Qed.
Lemma len_put64 be v : len (put64 be v) = 8. Proof. apply len_put. Qed.

(** * round trips *)

Lemma le_get_put n v : le_get (le_put n v) = v mod 256 ^ N.of_nat n.
Proof.
  revert v. induction n; intro v.
  - cbn. now rewrite N.mod_1_r.
  - cbn [le_put le_get]. rewrite IHn.
    replace (N.of_nat (S n)) with (N.succ (N.of_nat n)) by lia.
    rewrite N.pow_succ_r'.
    rewrite N.mod_mul_r by (try apply N.pow_nonzero; discriminate). lia.
Qed.

Lemma get_put be n v : v < 256 ^ N.of_nat n -> get be (put be n v) = v.
Proof.
  intro H. unfold get, put, be_get, be_put. destruct be.
  - rewrite rev_involutive, le_get_put. now apply N.mod_small.
  - rewrite le_get_put. now apply N.mod_small.
Qed.

Lemma le_put_ok n v : bytes_ok (le_put n v).
Proof.
  revert v. induction n; intro v; cbn [le_put]; constructor.
  - apply N.mod_lt. discriminate.
  - apply IHn.
Qed.

Lemma put_ok be n v : bytes_ok (put be n v).
Proof.
  unfold put, be_put. destruct be; [| apply le_put_ok].
  unfold bytes_ok. apply Forall_rev. apply le_put_ok.
Qed.

Lemma le_get_bound l : bytes_ok l -> le_get l < 256 ^ len l.
Proof.
  induction 1 as [| b t Hb Ht IH].
  - cbn. lia.
  - rewrite len_cons. cbn [le_get].
    replace (1 + len t) with (N.succ (len t)) by lia. rewrite N.pow_succ_r'. lia.
Qed.

Lemma le_put_get l : bytes_ok l -> le_put (length l) (le_get l) = l.
Proof.
  induction 1 as [| b t Hb Ht IH]; [reflexivity |].
  cbn [length le_put le_get]. f_equal.
  - rewrite (N.mul_comm 256), N.mod_add by discriminate. now apply N.mod_small.
  - rewrite (N.mul_comm 256), N.div_add by discriminate.
    rewrite (N.div_small b) by assumption. now rewrite N.add_0_l.
Qed.

Lemma put_get be l : bytes_ok l -> put be (length l) (get be l) = l.
Proof.
  intro H. unfold put, get, be_put, be_get. destruct be.
  - rewrite <- (rev_length l). rewrite le_put_get by (now apply Forall_rev).
    apply rev_involutive.
  - now apply le_put_get.
Qed.

(** * [sub] and [read_of] *)

Lemma firstn_app_exact {A} (a b : list A) : firstn (length a) (a ++ b) = a.
Proof. rewrite firstn_app, Nat.sub_diag, firstn_all. cbn. apply app_nil_r. Qed.

Lemma skipn_app_exact {A} (a b : list A) : skipn (length a) (a ++ b) = b.
Proof. rewrite skipn_app, Nat.sub_diag, skipn_all. reflexivity. Qed.

Lemma read_of_nil n : read_of [] 0 n = zeros n.
Proof.
  unfold read_of. cbn [skipn app N.to_nat]. rewrite <- (length_zeros n) at 1. apply firstn_all.
Qed.

Lemma read_of_length f off n : length (read_of f off n) = N.to_nat n.
Proof.
  unfold read_of. rewrite firstn_length, app_length, length_zeros. lia.
Qed.

Lemma len_read_of f off n : len (read_of f off n) = n.
Proof. unfold len. rewrite read_of_length. lia. Qed.

(** reading behind a prefix *)
Lemma read_of_skip a f off n :
  len a <= off -> read_of (a ++ f) off n = read_of f (off - len a) n.
Proof.
  intro H. unfold read_of. f_equal. f_equal.
  rewrite skipn_app.
  rewrite skipn_all2 by (unfold len in H; lia). cbn [app].
  f_equal. unfold len in *. lia.
Qed.

(** reading inside a prefix *)
Lemma read_of_prefix a f off n :
  off + n <= len a -> read_of (a ++ f) off n = read_of a off n.
Proof.
  intro H. unfold read_of, len in *.
  rewrite skipn_app, <- app_assoc.
  rewrite !firstn_app.
  rewrite skipn_length.
  replace (N.to_nat n - (length a - N.to_nat off))%nat with 0%nat by lia.
  cbn [firstn]. now rewrite !app_nil_r.
Qed.

(** reading exactly a section *)
Lemma read_of_exact b f : read_of (b ++ f) 0 (len b) = b.
Proof.
  unfold read_of. cbn [N.to_nat skipn]. rewrite to_nat_len, <- app_assoc.
  apply firstn_app_exact.
Qed.

Lemma read_of_section a b f : read_of (a ++ b ++ f) (len a) (len b) = b.
Proof. rewrite read_of_skip by lia. rewrite N.sub_diag. apply read_of_exact. Qed.

Lemma read_of_head b f n : n <= len b -> read_of (b ++ f) 0 n = firstn (N.to_nat n) b.
Proof.
  intro H. rewrite read_of_prefix by lia. unfold read_of. cbn [N.to_nat skipn].
  rewrite firstn_app. unfold len in H.
  replace (N.to_nat n - length b)%nat with 0%nat by lia. cbn [firstn]. apply app_nil_r.
Qed.

(** pointwise view: byte [i] of a read is byte [off + i] of the file, 0 past EOF *)
Lemma nth_firstn_lt {A} (l : list A) n i d : (i < n)%nat -> nth i (firstn n l) d = nth i l d.
Proof.
  revert n i. induction l; intros n i H.
  - rewrite firstn_nil. reflexivity.
  - destruct n; [lia |]. destruct i; [reflexivity |]. cbn [firstn nth]. apply IHl. lia.
Qed.

Lemma nth_skipn_add {A} (l : list A) n i d : nth i (skipn n l) d = nth (n + i) l d.
Proof.
  revert n. induction l; intro n.
  - rewrite skipn_nil. destruct i, n; reflexivity.
  - destruct n; [reflexivity |]. cbn [skipn Nat.add nth]. apply IHl.
Qed.

Lemma nth_zeros n i : nth i (zeros n) 0 = 0.
Proof. unfold zeros. apply nth_repeat. Qed.

Lemma nth_app_zeros l n i : nth i (l ++ zeros n) 0 = nth i l 0.
Proof.
  destruct (Nat.lt_ge_cases i (length l)).
  - now apply app_nth1.
  - rewrite app_nth2 by lia. rewrite nth_zeros. symmetry. now apply nth_overflow.
Qed.

Lemma read_of_nth f off n i :
  (i < N.to_nat n)%nat -> nth i (read_of f off n) 0 = nth (N.to_nat off + i) f 0.
Proof.
  intro H. unfold read_of. rewrite nth_firstn_lt by assumption.
  rewrite nth_app_zeros. apply nth_skipn_add.
Qed.

Lemma sub_nth l off k i :
  (i < N.to_nat k)%nat -> nth i (sub l off k) 0 = nth (N.to_nat off + i) l 0.
Proof.
  intro H. unfold sub. rewrite nth_firstn_lt by assumption. apply nth_skipn_add.
Qed.

Lemma sub_length l off k :
  off + k <= len l -> length (sub l off k) = N.to_nat k.
Proof.
  intro H. unfold sub, len in *. rewrite firstn_length, skipn_length. lia.
Qed.

(** a slice of a slice *)
Lemma sub_read_of f o n off k :
  off + k <= n -> sub (read_of f o n) off k = read_of f (o + off) k.
Proof.
  intro H. apply (nth_ext _ _ 0 0).
  - rewrite sub_length by (rewrite len_read_of; lia). now rewrite read_of_length.
  - intros i Hi. rewrite sub_length in Hi by (rewrite len_read_of; lia).
    rewrite sub_nth by assumption. rewrite !read_of_nth by lia. f_equal. lia.
Qed.

Lemma read_of_read_of f o n off k :
  off + k <= n -> read_of (read_of f o n) off k = read_of f (o + off) k.
Proof.
  intro H. apply (nth_ext _ _ 0 0).
  - now rewrite !read_of_length.
  - intros i Hi. rewrite read_of_length in Hi.
    rewrite !read_of_nth by lia. f_equal. lia.
Qed.

Lemma sub_all l : sub l 0 (len l) = l.
Proof. unfold sub. cbn [N.to_nat skipn]. rewrite to_nat_len. apply firstn_all. Qed.

Lemma read_of_len f : read_of f 0 (len f) = f.
Proof. rewrite <- (app_nil_r f) at 1. apply read_of_exact. Qed.

(** [fit] *)
Lemma fit_length n l : length (fit n l) = N.to_nat n.
Proof. unfold fit. rewrite firstn_length, app_length, length_zeros. lia. Qed.

Lemma len_fit n l : len (fit n l) = n.
Proof. unfold len. rewrite fit_length. lia. Qed.

Lemma firstn_repeat {A} (x : A) n m : (n <= m)%nat -> firstn n (repeat x m) = repeat x n.
Proof.
  revert m. induction n; intros m H; [reflexivity |].
  destruct m; [lia |]. cbn [repeat firstn]. f_equal. apply IHn. lia.
Qed.

Lemma fit_small n l : len l <= n -> fit n l = l ++ zeros (n - len l).
Proof.
  intro H. unfold fit. rewrite firstn_app. rewrite firstn_all2 by (unfold len in H; lia).
  f_equal. unfold zeros, len in *.
  rewrite firstn_repeat by lia. f_equal. lia.
Qed.

Lemma bytes_ok_app a b : bytes_ok a -> bytes_ok b -> bytes_ok (a ++ b).
Proof. unfold bytes_ok. intros. now apply Forall_app. Qed.

Lemma bytes_ok_zeros n : bytes_ok (zeros n).
Proof. unfold bytes_ok, zeros. apply Forall_forall. intros x Hx. apply repeat_spec in Hx. subst. lia. Qed.

(** * field tables *)

Lemma len_enc_fld be f : len (enc_fld be f) = fld_len f.
Proof. destruct f; cbn [enc_fld fld_len]; [apply len_put16 | apply len_put32 | apply len_put64 | apply len_fit]. Qed.

Fixpoint flds_len (fs : list fld) : N :=
  match fs with [] => 0 | f :: t => fld_len f + flds_len t end.

Lemma len_enc_flds be fs : len (enc_flds be fs) = flds_len fs.
Proof.
  induction fs as [| f t IH]; [reflexivity |].
  unfold enc_flds in *. cbn [flat_map flds_len]. now rewrite len_app, len_enc_fld, IH.
Qed.

(** reading exactly the field that starts at [off] *)
Lemma read_fld be fs rest off f :
  fld_at fs off = Some f ->
  read_of (enc_flds be fs ++ rest) off (fld_len f) = enc_fld be f.
Proof.
  revert off. induction fs as [| g t IH]; intros off H; [discriminate |].
  cbn [fld_at] in H. unfold enc_flds in *. cbn [flat_map]. rewrite <- app_assoc.
  destruct (N.eqb_spec off 0) as [Hoff | Hoff].
  - subst off. injection H as <-. rewrite <- (len_enc_fld be g). apply read_of_exact.
  - destruct (N.ltb_spec off (fld_len g)); [discriminate |].
    rewrite read_of_skip by (rewrite len_enc_fld; lia).
    rewrite len_enc_fld. now apply IH.
Qed.

Lemma get32_fld be fs rest off v :
  fld_at fs off = Some (F32 v) -> v < 2^32 ->
  get be (read_of (enc_flds be fs ++ rest) off 4) = v.
Proof.
  intros H Hv. pose proof (read_fld be fs rest off (F32 v) H) as E.
  cbn [fld_len enc_fld] in E. rewrite E. unfold put32. now apply get_put.
Qed.

Lemma get16_fld be fs rest off v :
  fld_at fs off = Some (F16 v) -> v < 2^16 ->
  get be (read_of (enc_flds be fs ++ rest) off 2) = v.
Proof.
  intros H Hv. pose proof (read_fld be fs rest off (F16 v) H) as E.
  cbn [fld_len enc_fld] in E. rewrite E. unfold put16. now apply get_put.
Qed.

Lemma get64_fld be fs rest off v :
  fld_at fs off = Some (F64 v) -> v < 2^64 ->
  get be (read_of (enc_flds be fs ++ rest) off 8) = v.
Proof.
  intros H Hv. pose proof (read_fld be fs rest off (F64 v) H) as E.
  cbn [fld_len enc_fld] in E. rewrite E. unfold put64. now apply get_put.
Qed.

(** [getNN] on a chunk that was read from a file *)
Lemma get32_read be f o n off :
  off + 4 <= n -> get32 be (read_of f o n) off = get be (read_of f (o + off) 4).
Proof. intro H. unfold get32. now rewrite sub_read_of. Qed.

Lemma get64_read be f o n off :
  off + 8 <= n -> get64 be (read_of f o n) off = get be (read_of f (o + off) 8).
Proof. intro H. unfold get64. now rewrite sub_read_of. Qed.

(** little- and big-endian views of zero and of each other *)
Lemma get_zeros be n : get be (zeros n) = 0.
Proof.
  assert (H : forall k, le_get (repeat 0 k) = 0).
  { induction k; [reflexivity |]. cbn [repeat le_get]. rewrite IHk. reflexivity. }
  unfold get, be_get, zeros. destruct be; [| apply H].
  assert (Hr : forall k, rev (repeat 0 k) = repeat 0 k).
  { induction k; [reflexivity |]. cbn [repeat rev]. rewrite IHk.
    clear. induction k; [reflexivity |]. cbn [repeat app]. now rewrite IHk. }
  rewrite Hr. apply H.
Qed.

Lemma put_zero be n : put be n 0 = zeros (N.of_nat n).
Proof.
  assert (H : forall k, le_put k 0 = repeat 0 k).
  { induction k; [reflexivity |]. cbn [le_put repeat].
    change (0 / 256) with 0. change (0 mod 256) with 0. now rewrite IHk. }
  unfold put, be_put, zeros. rewrite Nat2N.id. destruct be; [| apply H].
  rewrite H. clear. induction n; [reflexivity |]. cbn [repeat rev]. rewrite IHn.
  clear. induction n; [reflexivity |]. cbn [repeat app]. now rewrite IHn.
Qed.

Lemma sub_eq_read_of l off k : off + k <= len l -> sub l off k = read_of l off k.
Proof.
  intro H. rewrite <- (read_of_len l) at 1. now rewrite sub_read_of.
Qed.

Lemma get32_flds be fs off v :
  fld_at fs off = Some (F32 v) -> v < 2^32 -> off + 4 <= flds_len fs ->
  get32 be (enc_flds be fs) off = v.
Proof.
  intros H Hv Hl. unfold get32. rewrite sub_eq_read_of by (now rewrite len_enc_flds).
  rewrite <- (app_nil_r (enc_flds be fs)). now apply get32_fld.
Qed.

Lemma get64_flds be fs off v :
  fld_at fs off = Some (F64 v) -> v < 2^64 -> off + 8 <= flds_len fs ->
  get64 be (enc_flds be fs) off = v.
Proof.
  intros H Hv Hl. unfold get64. rewrite sub_eq_read_of by (now rewrite len_enc_flds).
  rewrite <- (app_nil_r (enc_flds be fs)). now apply get64_fld.
Qed.

Lemma Forall2_nth_error {A B} (R : A -> B -> Prop) a b : Forall2 R a b ->
  forall k, match nth_error a k, nth_error b k with
            | Some x, Some y => R x y
            | None, None => True
            | _, _ => False
            end.
Proof.
  induction 1 as [| x y a b Hxy Hab IH]; intro k; destruct k; cbn [nth_error]; auto.
  apply IH.
Qed.

(** * concatenations and halves *)

Lemma le_get_app a b : le_get (a ++ b) = le_get a + 256 ^ len a * le_get b.
Proof.
  induction a as [| x t IH]; cbn [app le_get].
  - rewrite len_nil, N.pow_0_r. lia.
  - rewrite IH, len_cons. replace (1 + len t) with (N.succ (len t)) by lia.
    rewrite N.pow_succ_r'. lia.
Qed.

Lemma le_put_split n m v :
  le_put (n + m) v = le_put n v ++ le_put m (v / 256 ^ N.of_nat n).
Proof.
  revert v. induction n as [| n IH]; intro v.
  - cbn [Nat.add le_put app N.of_nat]. now rewrite N.pow_0_r, N.div_1_r.
  - cbn [Nat.add le_put app]. f_equal. rewrite IH. f_equal. f_equal.
    replace (N.of_nat (S n)) with (N.succ (N.of_nat n)) by lia.
    rewrite N.pow_succ_r', N.div_div by (try apply N.pow_nonzero; discriminate). reflexivity.
Qed.

Lemma le_put_mod n v : le_put n (v mod 256 ^ N.of_nat n) = le_put n v.
Proof.
  revert v. induction n as [| n IH]; intro v; [reflexivity |].
  cbn [le_put]. replace (N.of_nat (S n)) with (N.succ (N.of_nat n)) by lia.
  rewrite N.pow_succ_r'.
  assert (Hnz : 256 ^ N.of_nat n <> 0) by (apply N.pow_nonzero; discriminate).
  rewrite N.mod_mul_r by (assumption || discriminate).
  rewrite (N.mul_comm 256 ((v / 256) mod 256 ^ N.of_nat n)).
  f_equal.
  - rewrite N.mod_add by discriminate. apply N.mod_mod. discriminate.
  - rewrite N.div_add by discriminate.
    rewrite (N.div_small (v mod 256)) by (apply N.mod_lt; discriminate).
    rewrite N.add_0_l. apply IH.
Qed.

(** a 64-bit value is its two 32-bit halves, in the order of the byte order *)
Lemma put64_halves be v :
  put64 be v = if be then put32 be (v / 2^32) ++ put32 be (v mod 2^32)
               else put32 be (v mod 2^32) ++ put32 be (v / 2^32).
Proof.
  unfold put64, put32, put, be_put.
  change 8%nat with (4 + 4)%nat. rewrite le_put_split.
  change (256 ^ N.of_nat 4) with (2^32).
  rewrite <- (le_put_mod 4 v). change (256 ^ N.of_nat 4) with (2^32).
  destruct be; [rewrite rev_app_distr |]; reflexivity.
Qed.

Lemma get_zeros_app be n b :
  get be (zeros n ++ b) = if be then get be b else 256 ^ n * get be b.
Proof.
  unfold get, be_get. destruct be.
  - rewrite rev_app_distr, le_get_app.
    assert (H : le_get (rev (zeros n)) = 0) by (apply (get_zeros true)).
    rewrite H. lia.
  - rewrite le_get_app. assert (H : le_get (zeros n) = 0) by (apply (get_zeros false)).
    rewrite H, len_zeros. lia.
Qed.

Lemma read_of_add f off a b : read_of f off (a + b) = read_of f off a ++ read_of f (off + a) b.
Proof.
  apply (nth_ext _ _ 0 0).
  - rewrite app_length, !read_of_length. lia.
  - intros i Hi. rewrite read_of_length in Hi.
    rewrite read_of_nth by assumption.
    destruct (Nat.lt_ge_cases i (N.to_nat a)).
    + rewrite app_nth1 by (rewrite read_of_length; lia). now rewrite read_of_nth.
    + rewrite app_nth2 by (rewrite read_of_length; lia). rewrite read_of_length.
      rewrite read_of_nth by lia. f_equal. lia.
Qed.

Lemma read_of_exact' b f n : n = len b -> read_of (b ++ f) 0 n = b.
Proof. intros ->. apply read_of_exact. Qed.

Lemma read_of_section' a b f off n :
  off = len a -> n = len b -> read_of (a ++ b ++ f) off n = b.
Proof. intros -> ->. apply read_of_section. Qed.

Lemma read_of_last' a b off n :
  off = len a -> n = len b -> read_of (a ++ b) off n = b.
Proof. intros -> ->. rewrite <- (app_nil_r b) at 1. apply read_of_section. Qed.

Lemma nth_error_firstn_lt {A} (l : list A) n i : (i < n)%nat -> nth_error (firstn n l) i = nth_error l i.
Proof.
  revert n i. induction l as [| a t IH]; intros n i H.
  - rewrite firstn_nil. reflexivity.
  - destruct n; [lia |]. destruct i; [reflexivity |]. cbn [firstn nth_error]. apply IH. lia.
Qed.

Lemma nth_error_skipn_add {A} (l : list A) n i : nth_error (skipn n l) i = nth_error l (n + i).
Proof.
  revert n. induction l as [| a t IH]; intro n.
  - rewrite skipn_nil. destruct i, n; reflexivity.
  - destruct n; [reflexivity |]. cbn [skipn Nat.add nth_error]. apply IH.
Qed.

Lemma firstn_read_of f o n k : k <= n -> firstn (N.to_nat k) (read_of f o n) = read_of f o k.
Proof.
  intro H. apply (nth_ext _ _ 0 0).
  - rewrite firstn_length, !read_of_length. lia.
  - intros i Hi. rewrite firstn_length, read_of_length in Hi.
    rewrite nth_firstn_lt by lia. rewrite !read_of_nth by lia. reflexivity.
Qed.

Lemma read_of_zeros m o n : read_of (zeros m) o n = zeros n.
Proof.
  apply (nth_ext _ _ 0 0).
  - now rewrite read_of_length, length_zeros.
  - intros i Hi. rewrite read_of_length in Hi. rewrite read_of_nth by assumption.
    now rewrite !nth_zeros.
Qed.

Lemma fit_nil n : fit n [] = zeros n.
Proof. unfold fit. cbn [app]. rewrite <- (length_zeros n) at 1. apply firstn_all. Qed.

Lemma get16_read be f o n off :
  off + 2 <= n -> get16 be (read_of f o n) off = get be (read_of f (o + off) 2).
Proof. intro H. unfold get16. now rewrite sub_read_of. Qed.

Lemma get_single be x : get be [x] = x.
Proof. unfold get, be_get. destruct be; cbn; lia. Qed.

Lemma fit_exact n b : len b = n -> fit n b = b.
Proof. intro H. rewrite fit_small by lia. rewrite H, N.sub_diag. apply app_nil_r. Qed.

Lemma sub_flds be fs off n b :
  fld_at fs off = Some (FB n b) -> off + n <= flds_len fs ->
  sub (enc_flds be fs) off n = fit n b.
Proof.
  intros H Hl. rewrite sub_eq_read_of by (now rewrite len_enc_flds).
  rewrite <- (app_nil_r (enc_flds be fs)).
  exact (read_fld be fs [] off (FB n b) H).
Qed.

Lemma bytes_eqb_refl_gen (eqb : bytes -> bytes -> bool) :
  (forall a b, eqb a b = Nat.eqb (length a) (length b) && forallb (fun p => fst p =? snd p) (combine a b)) ->
  forall a, eqb a a = true.
Proof.
  intros H a. rewrite H, Nat.eqb_refl. cbn [andb].
  induction a as [| x t IH]; [reflexivity |]. cbn [combine forallb fst snd]. now rewrite N.eqb_refl.
Qed.

Lemma read_of_skip_add a f o n : read_of (a ++ f) (len a + o) n = read_of f o n.
Proof. rewrite read_of_skip by lia. f_equal. lia. Qed.
