(** The PFN index of src/kdumpfile/lkcd.c at the level of its blocks.

    [LkcdModel] abstracts the lazily built index to the association it is
    meant to store.  Here the blocks themselves are modelled: [struct
    pfn_block] {idx3; filepos; n; offs[]}, the per-slot linked lists sorted by
    [idx3] ([alloc_pfn_block]), [lookup_pfn_block] with its tolerance (as
    repaired by fix 35: a block is only taken if its successor does not start
    at or below the index looked for), [idx_fits_block] for the block carried
    from one record of the stream to the next, the gap entries ([offs[i] ==
    0]), [idx_is_gap], duplicate detection ([error_dup]) and the 32-bit limit
    of the index (fix 90).

    Representation: the level-1/level-2 pointer tables are the finite map
    "slot (pfn >> 12) -> list of blocks" they implement; a block's [n] is the
    length of [b_offs] ([alloc] only records how much memory is reserved:
    entries between [n] and [alloc] are zero); the "current block" pointer of
    [search_page_desc] is a (slot, position in the list) pair.

    [split_pfn_block] / [alloc_tail_pfn_block] (offsets beyond 4 GiB from the
    block start) are the subject of Hist/ (C04); here the branch ends the
    model with [ERR_UNMODELLED]. *)
From Coq Require Import NArith List Bool.
From KdV Require Import Fmt.Codec Fmt.Rle Fmt.LkcdModel.
Import ListNotations.
Local Open Scope N_scope.

Definition PFN_IDX3_SIZE : N := 4096.
Definition MAX_PFN_GAP : N := 15.
Definition PFN_IDX_LIMIT : N := 2^32.      (* PFN_IDX_MAX + 1 *)

Record block := { b_idx3 : N; b_filepos : N; b_offs : list N }.

Definition blen (b : block) : N := len (b_offs b).

Definition slot_of (pfn : N) : N := pfn / PFN_IDX3_SIZE.
Definition idx3_of (pfn : N) : N := pfn mod PFN_IDX3_SIZE.

Record kb_state := {
  kb_be : bool;
  kb_version : N;
  kb_page_size : N;
  kb_compression : N;
  kb_tbl : list (N * list block);   (* pfn_level1[][]: slot -> block list *)
  kb_last : N;
  kb_end : N;
  kb_max_pfn : N
}.

(** ** block lists *)

(** [block->next && block->next->idx3 <= idx] *)
Definition next_le (rest : list block) (idx : N) : bool :=
  match rest with nb :: _ => b_idx3 nb <=? idx | [] => false end.

(** the list walk of [lookup_pfn_block]; the result is the position of the
    block in the list *)
Fixpoint chain_lookup (c : list block) (idx tol : N) : option nat :=
  match c with
  | [] => None
  | b :: t =>
      if idx <? b_idx3 b then None
      else if (idx <=? b_idx3 b + blen b + tol) && negb (next_le t idx) then Some O
      else option_map S (chain_lookup t idx tol)
  end.

(** [idx_fits_block] for the block [b] followed by [rest] *)
Definition fits (idx : N) (b : block) (rest : list block) : bool :=
  if idx <? b_idx3 b then false
  else
    let blockend := b_idx3 b + blen b in
    if idx <=? blockend then true
    else if blockend + MAX_PFN_GAP <? idx then false
    else if N.lor (b_idx3 b) (PFN_IDX3_SIZE - 1) <? idx then false
    else negb (next_le rest idx).

(** [alloc_pfn_block]: insert before the first block whose idx3 is not lower;
    returns the new list and the position of the new block *)
Fixpoint insert_block (nb : block) (c : list block) : list block * nat :=
  match c with
  | [] => ([nb], O)
  | h :: t =>
      if b_idx3 nb <=? b_idx3 h then (nb :: c, O)
      else let '(t', p) := insert_block nb t in (h :: t', S p)
  end.

Fixpoint set_nth {A} (i : nat) (v : A) (l : list A) {struct l} : list A :=
  match l, i with
  | [], _ => []
  | _ :: t, O => v :: t
  | h :: t, S k => h :: set_nth k v t
  end.

(** what recording a page does to the block chosen for it *)
Inductive upd_result := UDup | USplit | UDone (b : block).

Definition update_block (b : block) (idx off : N) : upd_result :=
  if PFN_IDX_LIMIT <=? off - b_filepos b then USplit      (* off - filepos > UINT32_MAX *)
  else
    let d := idx - b_idx3 b in
    if d =? 0 then UDup                                   (* if (!idx--) *)
    else
      let i := d - 1 in
      let offs := if blen b <=? i then b_offs b ++ zeros (i + 1 - blen b) else b_offs b in
      if nth (N.to_nat i) offs 0 =? 0
      then UDone {| b_idx3 := b_idx3 b; b_filepos := b_filepos b;
                    b_offs := set_nth (N.to_nat i) (off - b_filepos b) offs |}
      else UDup.

(** one record of the page stream with level-3 index [idx] at file offset
    [off], for the block list of its slot; [carried] is the position of the
    block used for the previous record if that was in the same slot *)
Inductive rec_result := RDup | RSplit | RDone (c : list block) (pos : nat).

Definition chain_record (c : list block) (carried : option nat) (idx off : N) : rec_result :=
  let looked := chain_lookup c idx MAX_PFN_GAP in
  let chosen :=
    match carried with
    | Some pos =>
        match nth_error c pos with
        | Some b => if fits idx b (skipn (S pos) c) then Some pos else looked
        | None => looked
        end
    | None => looked
    end in
  match chosen with
  | Some pos =>
      match nth_error c pos with
      | Some b =>
          match update_block b idx off with
          | UDup => RDup
          | USplit => RSplit
          | UDone b' => RDone (set_nth pos b' c) pos
          end
      | None => RSplit      (* not reachable: positions come from the list *)
      end
  | None =>
      let '(c', pos) := insert_block {| b_idx3 := idx; b_filepos := off; b_offs := [] |} c in
      RDone c' pos
  end.

(** [idx_is_gap] and the offset computation of [get_page_desc] *)
Definition is_gap (b : block) (idx : N) : bool :=
  if idx <=? b_idx3 b then false
  else nth (N.to_nat (idx - b_idx3 b - 1)) (b_offs b) 0 =? 0.

Definition block_off (b : block) (idx : N) : N :=
  if b_idx3 b <? idx then b_filepos b + nth (N.to_nat (idx - b_idx3 b - 1)) (b_offs b) 0
  else b_filepos b.

Definition chain_find (c : list block) (idx : N) : option N :=
  match chain_lookup c idx 0 with
  | Some pos =>
      match nth_error c pos with
      | Some b => if is_gap b idx then None else Some (block_off b idx)
      | None => None
      end
  | None => None
  end.

(** ** the table *)

Fixpoint get_chain (slot : N) (tbl : list (N * list block)) : option (list block) :=
  match tbl with
  | [] => None
  | (k, c) :: t => if k =? slot then Some c else get_chain slot t
  end.

Fixpoint set_chain (slot : N) (c : list block) (tbl : list (N * list block))
  : list (N * list block) :=
  match tbl with
  | [] => [(slot, c)]
  | (k, c0) :: t => if k =? slot then (k, c) :: t else (k, c0) :: set_chain slot c t
  end.

(** [lookup_pfn_block(pfn, 0)] + [idx_is_gap] + offset: what the index knows *)
Definition tbl_find (tbl : list (N * list block)) (pfn : N) : option N :=
  if PFN_IDX_LIMIT <=? pfn then None
  else match get_chain (slot_of pfn) tbl with
       | Some c => chain_find c (idx3_of pfn)
       | None => None
       end.

Section Reader.
  Variable rd : N -> N -> N -> bytes.
  Variable gunzip : bytes -> option bytes.

  Definition with_scan (st : kb_state) (tbl : list (N * list block)) (last end_ mx : N) : kb_state :=
    {| kb_be := kb_be st; kb_version := kb_version st; kb_page_size := kb_page_size st;
       kb_compression := kb_compression st; kb_tbl := tbl; kb_last := last; kb_end := end_;
       kb_max_pfn := mx |}.

  (** the loop of [search_page_desc].  [cur] = (slot, position) of the local
      variable [block]; [blocktbl] is compared as (curpfn & ~PFN_IDX3_MASK) *)
  Fixpoint bsearch_loop (fuel : nat) (st : kb_state) (pfn : N) (cur : option (N * nat))
    : N * kb_state * N :=
    match fuel with
    | O => (ERR_UNMODELLED, st, 0)
    | S k =>
        let off := kb_last st in
        let dp := rd 0 off 16 in
        let flags := get32 (kb_be st) dp 12 in
        if negb (N.land flags DUMP_END =? 0) then
          (ERR_NODATA, with_scan st (kb_tbl st) (kb_last st) off (kb_max_pfn st), 0)
        else
          let curpfn := N.shiftr (get64 (kb_be st) dp 0) (shift_of (kb_page_size st)) in
          if PFN_IDX_LIMIT <=? curpfn then (ERR_NOTIMPL, st, 0) else
          let slot := slot_of curpfn in
          let c := match get_chain slot (kb_tbl st) with Some c => c | None => [] end in
          let carried := match cur with
                         | Some (s, pos) => if s =? slot then Some pos else None
                         | None => None
                         end in
          match chain_record c carried (idx3_of curpfn) off with
          | RDup => (ERR_CORRUPT, st, 0)                       (* "Duplicate PFN" *)
          | RSplit => (ERR_UNMODELLED, st, 0)
          | RDone c' pos =>
              let st' := with_scan st (set_chain slot c' (kb_tbl st))
                                   (off + 16 + get32 (kb_be st) dp 8) (kb_end st)
                                   (N.max (kb_max_pfn st) (curpfn + 1)) in
              if curpfn =? pfn then (KDUMP_OK, st', off)
              else bsearch_loop k st' pfn (Some (slot, pos))
          end
    end.

  (** [search_page_desc] *)
  Definition bsearch (fuel : nat) (st : kb_state) (pfn : N) : N * kb_state * N :=
    if kb_last st =? kb_end st then (ERR_NODATA, st, 0)
    else bsearch_loop fuel st pfn None.

  (** [get_page_desc] *)
  Definition kb_get_page_desc (fuel : nat) (st : kb_state) (pfn : N) : N * kb_state * N :=
    match tbl_find (kb_tbl st) pfn with
    | Some off => (KDUMP_OK, st, off)
    | None => bsearch fuel st pfn
    end.

  (** [lkcd_read_page]: as in [LkcdModel], on the block-level index *)
  Definition kb_read_page (fuel : nat) (st : kb_state) (pfn : N) : res bytes * kb_state :=
    match kb_get_page_desc fuel st pfn with
    | (status, st, off) =>
        if negb (status =? KDUMP_OK) then (Err status, st) else
        let dp := rd 0 off 16 in
        let size := get32 (kb_be st) dp 8 in
        let type := N.land (get32 (kb_be st) dp 12) 3 in
        let pgsz := kb_page_size st in
        if type =? DUMP_COMPRESSED then
          if pgsz <? size then (Err ERR_CORRUPT, st) else
          let buf := rd 0 (off + 16) size in
          if kb_compression st =? COMPRESS_RLE then
            match uncompress_rle buf pgsz with
            | Some out => if len out =? pgsz then (Ok out, st) else (Err ERR_CORRUPT, st)
            | None => (Err ERR_CORRUPT, st)
            end
          else if kb_compression st =? COMPRESS_GZIP then
            match gunzip buf with
            | Some out => if len out =? pgsz then (Ok out, st) else (Err ERR_CORRUPT, st)
            | None => (Err ERR_CORRUPT, st)
            end
          else (Err ERR_NOTIMPL, st)
        else if type =? DUMP_RAW then
          if negb (size =? pgsz) then (Err ERR_CORRUPT, st)
          else (Ok (rd 0 (off + 16) size), st)
        else (Err ERR_NOTIMPL, st)
    end.

  Definition kb_get_page (fuel : nat) (st : kb_state) (addr : N) : res bytes * kb_state :=
    kb_read_page fuel st (addr / kb_page_size st).

  Definition kb_read (fuel : nat) (st : kb_state) (addr n : N) : N * bytes * kb_state :=
    read_range (kb_get_page fuel) (kb_page_size st) st addr n.

  (** [lkcd_max_pfn_revalidate] *)
  Definition kb_scan_max_pfn (fuel : nat) (st : kb_state) : res N * kb_state :=
    if kb_last st =? kb_end st then (Ok (kb_max_pfn st), st) else
    match bsearch fuel st (2^64 - 1) with
    | (status, st', _) =>
        if status =? ERR_NODATA then (Ok (kb_max_pfn st'), st') else (Err status, st')
    end.

  (** a history of requests on one dump: page reads and max_pfn queries *)
  Inductive request := ReqPage (pfn : N) | ReqMaxPfn.
  Inductive answer := AnsPage (r : res bytes) | AnsMaxPfn (r : res N).

  Fixpoint kb_run (fuel : nat) (st : kb_state) (reqs : list request) : list answer * kb_state :=
    match reqs with
    | [] => ([], st)
    | ReqPage pfn :: t =>
        let '(r, st') := kb_read_page fuel st pfn in
        let '(rs, st'') := kb_run fuel st' t in (AnsPage r :: rs, st'')
    | ReqMaxPfn :: t =>
        let '(r, st') := kb_scan_max_pfn fuel st in
        let '(rs, st'') := kb_run fuel st' t in (AnsMaxPfn r :: rs, st'')
    end.

  (** the state right after [open]: same header parsing as [lk_open], empty table *)
  Definition kb_of_lk (st : lk_state) : kb_state :=
    {| kb_be := lk_be st; kb_version := lk_version st; kb_page_size := lk_page_size st;
       kb_compression := lk_compression st; kb_tbl := []; kb_last := lk_last st;
       kb_end := lk_end st; kb_max_pfn := lk_max_pfn st |}.

  Definition kb_open (nfiles : nat) : res kb_state :=
    match lk_open rd nfiles with
    | Ok st => Ok (kb_of_lk st)
    | Err e => Err e
    end.
End Reader.
