(** C01 for ELF cores: the reader's answer for a page equals the page
    specification, given that the segment arrays of the opened dump correspond
    to the LOAD segments of the specification ([seg_rel]; established for the
    encoder's output in ElfOpenProofs.v). *)
From Coq Require Import NArith List Bool Lia Arith Sorted.
From KdV Require Import Base.Wrap64 Fmt.Codec Fmt.CodecProofs Fmt.ElfModel Fmt.ElfSpec
     Fmt.ElfProofs Fmt.ElfSpecProofs.
Import ListNotations.
Local Open Scope N_scope.

Section Rel.
  Variable virt : bool.
  Variable rd : N -> N -> N -> bytes.
  Hypothesis Hrd : forall o k n sz, k + n <= sz -> rd 0 (o + k) n = sub (rd 0 o sz) k n.
  Hypothesis Hrdlen : forall o n, len (rd 0 o n) = n.
  Variable pgsz : N.
  Hypothesis Hpg : 0 < pgsz.
  Notation base := (seg_addr virt).

  (** a load segment of the reader stands for a LOAD segment of the spec *)
  Definition corresponds (ls : load_segment) (s : elf_seg) : Prop :=
    sg_type s = 1 /\ base ls = seg_base virt s /\ ls_memsz ls = sg_memsz s /\
    ls_filesz ls = sg_filesz s /\ rd 0 (ls_off ls) (ls_filesz ls) = sg_data s.

  Record seg_rel (segs : list elf_seg) (arr : list load_segment) : Prop := {
    sr_arr : forall ls, In ls arr -> exists s, In s segs /\ corresponds ls s;
    sr_segs : forall s, In s segs -> sg_type s = 1 -> exists ls, In ls arr /\ corresponds ls s;
    sr_unique : forall s t x, In s segs -> In t segs -> sg_type s = 1 -> sg_type t = 1 ->
                  seg_base virt s <= x < seg_base virt s + sg_memsz s ->
                  seg_base virt t <= x < seg_base virt t + sg_memsz t -> s = t;
    sr_sizes : Forall (fun s => sg_filesz s = len (sg_data s) /\
                              (sg_type s = 1 -> sg_filesz s <= sg_memsz s)) segs
  }.

  Variable segs : list elf_seg.
  Variable arr : list load_segment.
  Hypothesis Hok : arr_ok virt arr.
  Hypothesis Hrel : seg_rel segs arr.

  Lemma seg_sizes s : In s segs ->
    sg_filesz s = len (sg_data s) /\ (sg_type s = 1 -> sg_filesz s <= sg_memsz s).
  Proof. intro H. pose proof (sr_sizes _ _ Hrel) as Ha. rewrite Forall_forall in Ha. now apply Ha. Qed.

  (** ** coverage *)
  Lemma covered_iff z addr : addr + pgsz < 2^64 ->
    (exists s, lookup virt (negb z) arr addr pgsz = Some s) <->
    existsb (covers virt z pgsz addr) segs = true.
  Proof.
    intro Hr. unfold lookup.
    pose proof (closest_loop_spec virt (negb z) addr pgsz arr 0 Hok ltac:(lia) Hpg) as Hspec.
    split.
    - intros [s0 Hs0]. destruct (closest_loop (negb z) virt arr 0 addr pgsz) as [[k ls] |]; [| discriminate].
      destruct Hspec as [_ [Hk [Hnz [Hlt [Hnear _]]]]]. rewrite Nat.sub_0_r in Hk.
      destruct (sr_arr _ _ Hrel ls (nth_error_In _ _ Hk)) as [s [Hin [Ht [Hb [Hm [Hf _]]]]]].
      apply existsb_exists. exists s. split; [assumption |].
      destruct (seg_sizes s Hin) as [_ Hfm]. specialize (Hfm Ht).
      unfold covers. rewrite Ht. change (1 =? 1) with true. cbn [andb]. rewrite <- Hb.
      destruct z; cbn [negb seg_size] in Hnz, Hlt.
      + rewrite Hm in Hnz, Hlt. apply orb_true_iff. right. cbn [andb]. apply N.ltb_lt. lia.
      + rewrite Hf in Hnz, Hlt. apply orb_true_iff. left. apply N.ltb_lt. lia.
    - intro He. apply existsb_exists in He as [s [Hin Hc]].
      unfold covers in Hc. apply andb_prop in Hc as [Ht Hc]. apply N.eqb_eq in Ht.
      destruct (sr_segs _ _ Hrel s Hin Ht) as [ls [Hlin [_ [Hb [Hm [Hf _]]]]]].
      destruct (seg_sizes s Hin) as [_ Hfm]. specialize (Hfm Ht).
      destruct (closest_loop (negb z) virt arr 0 addr pgsz) as [[k ls'] |]; [eexists; reflexivity |].
      exfalso. specialize (Hspec ls Hlin). rewrite <- Hb in Hc.
      apply orb_true_iff in Hc as [Hc | Hc].
      + apply N.ltb_lt in Hc. destruct z; cbn [negb seg_size] in Hspec; rewrite ?Hm, ?Hf in Hspec; lia.
      + apply andb_prop in Hc as [Hz Hc]. subst z. apply N.ltb_lt in Hc.
        cbn [negb seg_size] in Hspec. rewrite Hm in Hspec. lia.
  Qed.

  (** ** contents *)
  Lemma in_file_unique s t x :
    In s segs -> In t segs -> in_file virt s x = true -> in_file virt t x = true -> t = s.
  Proof.
    intros Hs Ht Hfs Hft. unfold in_file in *.
    apply andb_prop in Hfs as [Hfs Hs2]. apply andb_prop in Hfs as [Hs0 Hs1].
    apply andb_prop in Hft as [Hft Ht2]. apply andb_prop in Hft as [Ht0 Ht1].
    apply N.eqb_eq in Hs0, Ht0. apply N.leb_le in Hs1, Ht1. apply N.ltb_lt in Hs2, Ht2.
    destruct (seg_sizes s Hs) as [_ H1]. destruct (seg_sizes t Ht) as [_ H2].
    specialize (H1 Hs0). specialize (H2 Ht0).
    apply (sr_unique _ _ Hrel t s x); try assumption; lia.
  Qed.

  Lemma byte_eq x : byte_at virt rd arr x = byteR virt (rev segs) x.
  Proof.
    destruct Hok as [Hsorted Hall].
    destruct (existsb (fun s => in_file virt s x) segs) eqn:He.
    - (* some segment has file data at x *)
      apply existsb_exists in He as [s [Hin Hf]].
      rewrite (byteR_in virt (rev segs) s x).
      + pose proof Hf as Hf'. unfold in_file in Hf'.
        apply andb_prop in Hf' as [Hf' H2]. apply andb_prop in Hf' as [H0 H1].
        apply N.eqb_eq in H0. apply N.leb_le in H1. apply N.ltb_lt in H2.
        destruct (sr_segs _ _ Hrel s Hin H0) as [ls [Hlin [_ [Hb [Hm [Hfz Hdat]]]]]].
        destruct (seg_sizes s Hin) as [_ Hfm]. specialize (Hfm H0).
        assert (Hc : contains virt ls x = true).
        { unfold contains. rewrite Hb, Hm. apply andb_true_intro. split; [apply N.leb_le | apply N.ltb_lt]; lia. }
        unfold byte_at. rewrite (owner_in virt arr ls x Hsorted Hlin Hc).
        rewrite Hb, Hfz. destruct (N.ltb_spec (x - seg_base virt s) (sg_filesz s)); [| lia].
        rewrite <- Hfz, Hdat. reflexivity.
      + intros t Ht Hft. apply in_rev in Ht. now apply (in_file_unique s t x).
      + now apply in_rev in Hin.
      + exact Hf.
    - (* no file data at x: zero *)
      rewrite byteR_none.
      2:{ intros t Ht. apply in_rev in Ht.
          destruct (in_file virt t x) eqn:Hf; [| reflexivity].
          assert (existsb (fun s => in_file virt s x) segs = true)
            by (apply existsb_exists; exists t; split; assumption).
          congruence. }
      unfold byte_at. destruct (owner virt arr x) as [ls |] eqn:Ho; [| reflexivity].
      unfold owner in Ho. apply find_some in Ho as [Hlin Hc].
      destruct (sr_arr _ _ Hrel ls Hlin) as [s [Hin [Ht [Hb [Hm [Hfz _]]]]]].
      destruct (N.ltb_spec (x - base ls) (ls_filesz ls)) as [Hlt |]; [| reflexivity].
      exfalso. unfold contains in Hc. apply andb_prop in Hc as [Hc1 Hc2]. apply N.leb_le in Hc1.
      assert (Hf : in_file virt s x = true).
      { unfold in_file. rewrite Ht. change (1 =? 1) with true. cbn [andb]. rewrite <- Hb, <- Hfz.
        apply andb_true_intro. split; [apply N.leb_le | apply N.ltb_lt]; lia. }
      assert (existsb (fun s => in_file virt s x) segs = true)
        by (apply existsb_exists; exists s; split; assumption).
      congruence.
  Qed.

  (** ** the page *)
  Theorem page_answer_is_spec z addr :
    addr + pgsz < 2^64 ->
    page_answer virt rd pgsz z arr addr = spec_elf_page segs pgsz z virt addr.
  Proof.
    intro Hr. unfold page_answer, spec_elf_page.
    pose proof (overlay_fold virt z pgsz addr segs) as Hfold.
    assert (Hfs : Forall (fun s => sg_filesz s = len (sg_data s)) segs).
    { pose proof (sr_sizes _ _ Hrel) as Ha. rewrite Forall_forall in *. intros s Hs. now apply Ha. }
    specialize (Hfold Hfs).
    destruct (fold_left (overlay virt z pgsz addr) segs (zeros pgsz, false)) as [page cov].
    destruct Hfold as [Hlen [Hnth Hcov]].
    pose proof (covered_iff z addr Hr) as Hiff.
    destruct (lookup virt (negb z) arr addr pgsz) as [ls |].
    - assert (Hc : cov = true) by (rewrite Hcov; apply Hiff; eexists; reflexivity).
      rewrite Hc. f_equal.
      apply (nth_ext _ _ 0 0).
      + rewrite bytes_from_length. unfold len in Hlen. lia.
      + intros i Hi. rewrite bytes_from_length in Hi.
        rewrite nth_bytes_from by assumption. rewrite byte_eq. symmetry. now apply Hnth.
    - assert (Hc : cov = false).
      { rewrite Hcov. destruct (existsb (covers virt z pgsz addr) segs) eqn:E; [| reflexivity].
        destruct (proj2 Hiff eq_refl) as [s Hs]. discriminate. }
      rewrite Hc. destruct virt; reflexivity.
  Qed.
End Rel.
