(** Specification side of C01 for diskdump / makedumpfile KDUMP files:
    what a well-formed dump of a memory image looks like ([encode_dd], written
    from makedumpfile's IMPLEMENTATION notes and diskdump_mod.h, not from the
    reader), and what reading it must return ([spec_read_page]).

    A memory image is a list indexed by page frame number: [Some content] for
    a page the dump contains, [None] for a page it does not (excluded, or not
    RAM).  A layout fixes everything the format leaves to the writer. *)
From Coq Require Import NArith List Bool.
From KdV Require Import Fmt.Codec Fmt.BitmapSpec Fmt.ImageSpec.
Import ListNotations.
Local Open Scope N_scope.

(** a page as the writer stores it: descriptor flags + the stored bytes *)
Record dd_page := { dp_flags : N; dp_payload : bytes }.

Record dd_layout := {
  dl_be : bool;              (* byte order of the dumped machine *)
  dl_64 : bool;              (* 64-bit header and sub-header *)
  dl_pad : bool;             (* 32-bit only: sub-header with 64-bit alignment *)
  dl_kdump_sig : bool;       (* "KDUMP   " rather than "DISKDUMP" *)
  dl_version : N;            (* header_version *)
  dl_page_size : N;          (* block_size *)
  dl_uts : bytes;            (* struct new_utsname, 390 bytes *)
  dl_status : N;
  dl_sub_blocks : N;         (* sub_hdr_size *)
  dl_two_bitmaps : bool;     (* makedumpfile: 1st + 2nd bitmap; diskdump: one *)
  dl_bmp_blocks : N;         (* blocks per bitmap *)
  dl_max_mapnr : N;
  dl_phys_base : N;
  dl_dump_level : N;
  dl_split : bool;
  dl_start_pfn : N;          (* this file's window, if split *)
  dl_end_pfn : N;
  dl_vmcoreinfo : bytes;     (* stored right after the sub-header structure *)
  dl_notes : bytes;          (* then the ELF notes (header_version >= 4) *)
  dl_eraseinfo : bytes;
  dl_mem_extra : list bool;  (* 1st bitmap = dumped pages OR these bits *)
  dl_data_gap : N            (* unused bytes between descriptors and page data *)
}.

Definition sig_diskdump : bytes := [68; 73; 83; 75; 68; 85; 77; 80].
Definition sig_kdump : bytes := [75; 68; 85; 77; 80; 32; 32; 32].

Definition bitmap_blocks (l : dd_layout) : N :=
  if dl_two_bitmaps l then 2 * dl_bmp_blocks l else dl_bmp_blocks l.

(** struct disk_dump_header_32 / _64 (packed) *)
Definition header_flds (l : dd_layout) : list fld :=
  [ FB 8 (if dl_kdump_sig l then sig_kdump else sig_diskdump);
    F32 (dl_version l);
    FB 390 (dl_uts l) ]
  ++ (if dl_64 l
      then [FB 6 []; F32 0; F32 0; F32 0; F32 0]     (* _pad1, struct timeval_64 *)
      else [FB 2 []; F32 0; F32 0])                  (* _pad1, struct timeval_32 *)
  ++ [ F32 (dl_status l);
       F32 (dl_page_size l);                         (* block_size *)
       F32 (dl_sub_blocks l);                        (* sub_hdr_size *)
       F32 (bitmap_blocks l);
       F32 (N.min (dl_max_mapnr l) (2^32 - 1));      (* max_mapnr *)
       F32 0; F32 0; F32 0; F32 0;                   (* total_ram/device/written blocks, current_cpu *)
       F32 1 ].                                      (* nr_cpus *)

Definition enc_header (l : dd_layout) : bytes := enc_flds (dl_be l) (header_flds l).

Definition sub_hdr_struct_size (l : dd_layout) : N :=
  if dl_64 l then 104 else if dl_pad l then 96 else 80.

Definition pad8 (b : bytes) : bytes := b ++ pad_to 8 (len b).

(** offsets of the three blobs inside the sub-header blocks (each starts on
    an 8-byte boundary: the note parser reads 32-bit words in place) *)
Definition vmci_off (l : dd_layout) : N := dl_page_size l + sub_hdr_struct_size l.
Definition notes_off (l : dd_layout) : N := vmci_off l + len (pad8 (dl_vmcoreinfo l)).
Definition erase_off (l : dd_layout) : N := notes_off l + len (pad8 (dl_notes l)).

Definition blob_off (off : N) (b : bytes) : N := if len b =? 0 then 0 else off.

(** struct kdump_sub_header_64 / _32pad / _32pack (packed); a field that the
    header version does not know yet is zero *)
Definition sub_hdr_flds (l : dd_layout) : list fld :=
  let v := dl_version l in
  let since (ver : N) (x : N) := if ver <=? v then x else 0 in
  let lo32 (x : N) := N.min x (2^32 - 1) in
  let split := since 2 (if dl_split l then 1 else 0) in
  let spfn := since 2 (if dl_split l then dl_start_pfn l else 0) in
  let epfn := since 2 (if dl_split l then dl_end_pfn l else 0) in
  let off_vmci := since 3 (blob_off (vmci_off l) (dl_vmcoreinfo l)) in
  let sz_vmci := since 3 (len (dl_vmcoreinfo l)) in
  let off_note := since 4 (blob_off (notes_off l) (dl_notes l)) in
  let sz_note := since 4 (len (dl_notes l)) in
  let off_erase := since 5 (blob_off (erase_off l) (dl_eraseinfo l)) in
  let sz_erase := since 5 (len (dl_eraseinfo l)) in
  let spfn64 := since 6 (if dl_split l then dl_start_pfn l else 0) in
  let epfn64 := since 6 (if dl_split l then dl_end_pfn l else 0) in
  let max64 := since 6 (dl_max_mapnr l) in
  if dl_64 l then
    [ F64 (dl_phys_base l); F32 (dl_dump_level l); F32 split; F64 spfn; F64 epfn;
      F64 off_vmci; F64 sz_vmci; F64 off_note; F64 sz_note; F64 off_erase; F64 sz_erase;
      F64 spfn64; F64 epfn64; F64 max64 ]
  else if dl_pad l then
    [ F32 (dl_phys_base l); F32 (dl_dump_level l); F32 split; F32 (lo32 spfn); F32 (lo32 epfn);
      FB 4 [];
      F64 off_vmci; F32 sz_vmci; FB 4 [];
      F64 off_note; F32 sz_note; FB 4 [];
      F64 off_erase; F32 sz_erase; FB 4 [];
      F64 spfn64; F64 epfn64; F64 max64 ]
  else
    [ F32 (dl_phys_base l); F32 (dl_dump_level l); F32 split; F32 (lo32 spfn); F32 (lo32 epfn);
      F64 off_vmci; F32 sz_vmci;
      F64 off_note; F32 sz_note;
      F64 off_erase; F32 sz_erase;
      F64 spfn64; F64 epfn64; F64 max64 ].

Definition enc_sub_hdr (l : dd_layout) : bytes := enc_flds (dl_be l) (sub_hdr_flds l).

Fixpoint orb_lists (a b : list bool) : list bool :=
  match a, b with
  | [], _ => b
  | _, [] => a
  | x :: a', y :: b' => (x || y) :: orb_lists a' b'
  end.

(** the pages this file stores: those inside its window *)
Fixpoint window (start_pfn end_pfn pfn : N) (pages : list (option dd_page))
  : list (option dd_page) :=
  match pages with
  | [] => []
  | p :: t =>
      (if (start_pfn <=? pfn) && (pfn <? end_pfn) then p else None)
        :: window start_pfn end_pfn (pfn + 1) t
  end.

(** struct page_desc *)
Definition enc_desc (be : bool) (off : N) (p : dd_page) : bytes :=
  enc_flds be [F64 off; F32 (len (dp_payload p)); F32 (dp_flags p); F64 0].

(** ... for every stored page, in PFN order; [off] is the file offset of the
    next page's data *)
Fixpoint enc_descs (be : bool) (pages : list (option dd_page)) (off : N) : bytes :=
  match pages with
  | [] => []
  | None :: t => enc_descs be t off
  | Some p :: t => enc_desc be off p ++ enc_descs be t (off + len (dp_payload p))
  end.

Fixpoint enc_data (pages : list (option dd_page)) : bytes :=
  match pages with
  | [] => []
  | None :: t => enc_data t
  | Some p :: t => dp_payload p ++ enc_data t
  end.

Definition win_start (l : dd_layout) : N := if dl_split l then dl_start_pfn l else 0.
Definition win_end (l : dd_layout) : N := if dl_split l then dl_end_pfn l else 2^64 - 1.

(** one dump file.  [pages] is the whole dump (every member of a split set
    carries the complete bitmaps and the descriptors + data of its window). *)
Definition encode_dd (l : dd_layout) (pages : list (option dd_page)) : bytes :=
  let pgsz := dl_page_size l in
  let bmbytes := N.to_nat (dl_bmp_blocks l * pgsz) in
  let bits := map is_some pages in
  let bm2 := bits_to_bytes false bmbytes bits in
  let bm1 := bits_to_bytes false bmbytes (orb_lists bits (dl_mem_extra l)) in
  let own := window (win_start l) (win_end l) 0 pages in
  let descoff := (1 + dl_sub_blocks l + bitmap_blocks l) * pgsz in
  let data_start := descoff + 24 * count_some own + dl_data_gap l in
  fit pgsz (enc_header l)
  ++ fit (dl_sub_blocks l * pgsz)
         (enc_sub_hdr l ++ pad8 (dl_vmcoreinfo l) ++ pad8 (dl_notes l) ++ dl_eraseinfo l)
  ++ (if dl_two_bitmaps l then bm1 ++ bm2 else bm2)
  ++ enc_descs (dl_be l) own data_start
  ++ zeros (dl_data_gap l)
  ++ enc_data own.

(** the flag bit that decides the decompressor, in the reader's priority order *)
Definition method_of (flags : N) : N :=
  if negb (N.land flags 1 =? 0) then 1
  else if negb (N.land flags 2 =? 0) then 2
  else if negb (N.land flags 4 =? 0) then 4
  else if negb (N.land flags 32 =? 0) then 32
  else 0.

(** page [p] stores [content] (under the decompressor [decompress]) *)
Definition page_stores (decompress : N -> bytes -> option bytes) (p : dd_page) (content : bytes)
  : Prop :=
  dp_flags p < 2^32 /\ len (dp_payload p) < 2^32 /\
  match method_of (dp_flags p) with
  | 0 => dp_payload p = content
  | 2 => False                                  (* LZO: not in this build *)
  | m => decompress m (dp_payload p) = Some content
  end.

Definition stores (decompress : N -> bytes -> option bytes)
           (op : option dd_page) (oc : option bytes) : Prop :=
  match op, oc with
  | Some p, Some c => page_stores decompress p c
  | None, None => True
  | _, _ => False
  end.

(** well-formed layout of one dump file (a whole dump, or one member of a
    split set) for an image *)
Record dd_wf (l : dd_layout) (img : image) : Prop := {
  wf_pgsz : exists k, 12 <= k <= 18 /\ dl_page_size l = 2^k;
  wf_version : dl_version l <= 6;
  wf_mapnr32 : dl_version l < 6 -> dl_max_mapnr l < 2^32;
  wf_mapnr64 : dl_max_mapnr l < 2^64;
  wf_img_len : N.of_nat (length img) <= dl_max_mapnr l;
  wf_pages : Forall (fun oc => match oc with
                               | Some c => len c = dl_page_size l /\ bytes_ok c
                               | None => True end) img;
  wf_sub : dl_sub_blocks l < 2^31 - 1;
  wf_sub_fits : 1 <= dl_version l ->
                sub_hdr_struct_size l + len (pad8 (dl_vmcoreinfo l)) + len (pad8 (dl_notes l))
                + len (dl_eraseinfo l) <= dl_sub_blocks l * dl_page_size l;
  wf_bmp : 1 <= dl_bmp_blocks l /\ bitmap_blocks l < 2^31;
  wf_cover : dl_max_mapnr l <= 8 * dl_bmp_blocks l * dl_page_size l;
  (* a single bitmap must not look like a partial dump *)
  wf_single : dl_two_bitmaps l = false -> 4 * dl_bmp_blocks l * dl_page_size l < dl_max_mapnr l;
  (* a split file: header_version 2 introduced the fields; the 32-bit fields
     of versions 2..5 hold 32 bits *)
  wf_split : dl_split l = true ->
             2 <= dl_version l /\ dl_start_pfn l < 2^64 /\ dl_end_pfn l < 2^64 /\
             (dl_64 l = false -> dl_version l < 6 -> dl_start_pfn l < 2^32 /\ dl_end_pfn l < 2^32);
  (* the 32-bit reader tells the two sub-header layouts apart by the position
     of VMCOREINFO: the padded layout needs one *)
  wf_pad : dl_64 l = false -> dl_pad l = true -> 3 <= dl_version l ->
           dl_vmcoreinfo l <> [];
  wf_small : dl_status l < 2^32 /\ dl_phys_base l < 2^32 /\ dl_dump_level l < 2^32;
  wf_blobs : len (dl_vmcoreinfo l) < 2^32 /\ len (dl_notes l) < 2^32 /\ len (dl_eraseinfo l) < 2^32
}.

(** * split sets: every member is the same dump with its own PFN window *)
Definition with_window (l : dd_layout) (w : N * N) : dd_layout :=
  {| dl_be := dl_be l; dl_64 := dl_64 l; dl_pad := dl_pad l; dl_kdump_sig := dl_kdump_sig l;
     dl_version := dl_version l; dl_page_size := dl_page_size l; dl_uts := dl_uts l;
     dl_status := dl_status l; dl_sub_blocks := dl_sub_blocks l;
     dl_two_bitmaps := dl_two_bitmaps l; dl_bmp_blocks := dl_bmp_blocks l;
     dl_max_mapnr := dl_max_mapnr l; dl_phys_base := dl_phys_base l;
     dl_dump_level := dl_dump_level l;
     dl_split := true; dl_start_pfn := fst w; dl_end_pfn := snd w;
     dl_vmcoreinfo := dl_vmcoreinfo l; dl_notes := dl_notes l; dl_eraseinfo := dl_eraseinfo l;
     dl_mem_extra := dl_mem_extra l; dl_data_gap := dl_data_gap l |}.

Definition encode_dd_set (l : dd_layout) (ws : list (N * N)) (pages : list (option dd_page))
  : list bytes :=
  map (fun w => encode_dd (with_window l w) pages) ws.

(** the windows of a split set: non-empty, pairwise disjoint, and every page
    frame of the dump belongs to one *)
Definition windows_ok (ws : list (N * N)) (max_mapnr : N) : Prop :=
  (forall w, In w ws -> fst w < snd w) /\
  NoDup ws /\
  (forall wi wj, In wi ws -> In wj ws -> wi <> wj -> snd wi <= fst wj \/ snd wj <= fst wi) /\
  (forall pfn, pfn < max_mapnr -> exists w, In w ws /\ fst w <= pfn < snd w).
