(** Specification side of C01 for the geometry of an ELF core dump: what the
    file says about pointer size and page size, independent of how elfdump.c
    finds it.

    - The pointer size is the one of the machine's ABI (e_machine, with
      EI_CLASS for the machines that exist in two widths).
    - The page size is the one announced by the last "PAGESIZE=<decimal>" line
      of the VMCOREINFO notes (makedumpfile / the kernel's vmcore write them);
      without an announcement it is the fixed page size of the architecture,
      if it has one (AArch64, IA-64 and PowerPC kernels can be configured for
      several: such dumps must announce theirs).

    ELF notes (gABI): namesz, descsz, type as 32-bit words, the name and the
    descriptor each padded to a multiple of 4 bytes. *)
From Coq Require Import NArith List Bool.
From KdV Require Import Fmt.Codec.
Import ListNotations.
Local Open Scope N_scope.

Record vnote := { vn_name : bytes; vn_type : N; vn_desc : bytes }.

Definition pad4 (b : bytes) : bytes := b ++ zeros ((4 - len b mod 4) mod 4).

Definition enc_note (be : bool) (n : vnote) : bytes :=
  enc_flds be [F32 (len (vn_name n)); F32 (len (vn_desc n)); F32 (vn_type n)]
  ++ pad4 (vn_name n) ++ pad4 (vn_desc n).

Definition enc_notes (be : bool) (ns : list vnote) : bytes := flat_map (enc_note be) ns.

(** a VMCOREINFO text: KEY=VALUE lines *)
Definition render_line (kv : bytes * bytes) : bytes := fst kv ++ [61] ++ snd kv ++ [10].
Definition render_text (kvs : list (bytes * bytes)) : bytes := flat_map render_line kvs.

(** a decimal number: one or more ASCII digits *)
Fixpoint dec_val (s : bytes) (acc : N) : option N :=
  match s with
  | [] => Some acc
  | c :: t => if (48 <=? c) && (c <=? 57) then dec_val t (acc * 10 + (c - 48)) else None
  end.
Definition decimal (s : bytes) : option N :=
  match s with [] => None | _ => dec_val s 0 end.

Definition key_PAGESIZE : bytes := [80; 65; 71; 69; 83; 73; 90; 69].
Definition name_VMCOREINFO : bytes := [86; 77; 67; 79; 82; 69; 73; 78; 70; 79].

Fixpoint bytes_eq (a b : bytes) : bool :=
  match a, b with
  | [], [] => true
  | x :: a', y :: b' => (x =? y) && bytes_eq a' b'
  | _, _ => false
  end.

(** what a dump's notes contain, as far as the geometry is concerned *)
Inductive snote :=
| SVmcoreinfo (with_nul : bool) (kvs : list (bytes * bytes))   (* name "VMCOREINFO", stored with or without NUL *)
| SOther (n : vnote).

Definition to_vnote (s : snote) : vnote :=
  match s with
  | SVmcoreinfo nul kvs =>
      {| vn_name := name_VMCOREINFO ++ (if nul then [0] else []); vn_type := 0;
         vn_desc := render_text kvs |}
  | SOther n => n
  end.

(** the page size announced by a text, given what was announced before *)
Definition announce (page : option N) (kv : bytes * bytes) : option N :=
  if bytes_eq (fst kv) key_PAGESIZE
  then match decimal (snd kv) with Some n => Some n | None => page end
  else page.

Definition announced (notes : list snote) (page : option N) : option N :=
  fold_left (fun p s => match s with
                        | SVmcoreinfo _ kvs => fold_left announce kvs p
                        | SOther _ => p
                        end) notes page.

(** e_machine values (gABI / psABI supplements) *)
Definition spec_ptr_size (machine : N) (is64 : bool) : option N :=
  if machine =? 183 then Some 8                                   (* AArch64 *)
  else if machine =? 40 then Some 4                               (* ARM *)
  else if (machine =? 36902) || (machine =? 41) then Some 8       (* Alpha *)
  else if machine =? 50 then Some 8                               (* IA-64 *)
  else if machine =? 8 then Some 4                                (* MIPS (o32) *)
  else if machine =? 20 then Some 4                               (* PowerPC *)
  else if machine =? 21 then Some 8                               (* PowerPC 64 *)
  else if machine =? 243 then Some (if is64 then 8 else 4)        (* RISC-V *)
  else if machine =? 22 then Some (if is64 then 8 else 4)         (* S/390, z/Architecture *)
  else if machine =? 3 then Some 4                                (* i386 *)
  else if machine =? 62 then Some 8                               (* x86-64 *)
  else None.

Definition spec_fixed_page_size (machine : N) : option N :=
  if (machine =? 36902) || (machine =? 41) then Some 8192
  else if (machine =? 40) || (machine =? 8) || (machine =? 243) || (machine =? 22)
          || (machine =? 3) || (machine =? 62) then Some 4096
  else None.

Definition spec_page_size (machine : N) (notes : list snote) : option N :=
  match announced notes None with
  | Some p => Some p
  | None => spec_fixed_page_size machine
  end.
