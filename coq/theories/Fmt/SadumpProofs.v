(** C01 for SADUMP, page path: with the dumpable bitmap (MSB 0 numbering) of
    the image and disk extents that lay out the page data, [sadump_read_page]
    returns the image's page. *)
From Coq Require Import NArith List Bool Lia Arith Sorted.
From KdV Require Import Fmt.Codec Fmt.CodecProofs Fmt.PfnModel Fmt.PfnProofs Fmt.BitmapSpec Fmt.ImageSpec
     Fmt.SadumpModel Fmt.SadumpSpec.
Import ListNotations.
Local Open Scope N_scope.

(** * the page data area *)
Lemma page_data_app a b : page_data (a ++ b) = page_data a ++ page_data b.
Proof.
  induction a as [| [c |] t IH]; cbn [app page_data]; [reflexivity | | exact IH].
  now rewrite IH, app_assoc.
Qed.

Lemma len_page_data img :
  Forall (fun oc => match oc with Some c => len c = 4096 | None => True end) img ->
  len (page_data img) = 4096 * count_some img.
Proof.
  induction 1 as [| [c |] t Hc Ht IH]; cbn [page_data count_some]; [reflexivity | | exact IH].
  rewrite len_app, IH, Hc. lia.
Qed.

Lemma nth_error_split3 {A} (l : list A) n x :
  nth_error l n = Some x -> l = firstn n l ++ x :: skipn (S n) l.
Proof.
  revert n. induction l as [| a t IH]; intros n H; [destruct n; discriminate |].
  destruct n; [cbn in H; injection H as <-; reflexivity |].
  cbn [nth_error] in H. cbn [firstn skipn app]. f_equal. now apply IH.
Qed.

Lemma page_in_data img pfn c :
  Forall (fun oc => match oc with Some c => len c = 4096 | None => True end) img ->
  nth_error img pfn = Some (Some c) ->
  read_of (page_data img) (4096 * count_some (firstn pfn img)) 4096 = c.
Proof.
  intros Hall H. pose proof (nth_error_split3 _ _ _ H) as E.
  assert (Hc : len c = 4096).
  { rewrite Forall_forall in Hall. exact (Hall _ (nth_error_In _ _ H)). }
  assert (Hpre : Forall (fun oc => match oc with Some c => len c = 4096 | None => True end) (firstn pfn img)).
  { rewrite Forall_forall in *. intros x Hx. apply Hall.
    rewrite <- (firstn_skipn pfn img). apply in_or_app. now left. }
  set (a := firstn pfn img) in *. set (b := skipn (S pfn) img) in *. rewrite E.
  rewrite page_data_app. cbn [page_data].
  apply read_of_section'; [now rewrite len_page_data | now symmetry].
Qed.

(** * the page path *)
Section PagePath.
  Variable rd : N -> N -> N -> bytes.
  Variable img : image.
  Variable nbytes : nat.                   (* size of the dumpable bitmap *)
  Variable exts : list extent.
  Variable max_pfn bs ptr nf : N.

  Hypothesis Hpages : Forall (fun oc => match oc with Some c => len c = 4096 | None => True end) img.
  Hypothesis Hfit : (length img <= 8 * nbytes)%nat.
  (** the extents lay out the page data: page number [k] of the data area is
      found, whole, in one of the files *)
  Hypothesis Hext : forall k, k < count_some img ->
    exists f o, ext_loop exts (4096 * k) = Some (f, o) /\
                rd f o 4096 = read_of (page_data img) (4096 * k) 4096.

  Definition bm : bytes := bits_to_bytes true nbytes (map (@is_some bytes) img).

  Definition the_state : sd_state :=
    {| sd_block_size := bs; sd_ptr_size := ptr; sd_max_pfn := max_pfn;
       sd_regions := regions_from_bitmap true bm 0 (N.of_nat (8 * nbytes)) 0 SADUMP_PAGE_SIZE;
       sd_ext := exts; sd_nfiles := nf |}.

  Lemma count_firstn_lt pfn c : nth_error img pfn = Some (Some c) ->
    count_some (firstn pfn img) < count_some img.
  Proof.
    intro H. rewrite (nth_error_split3 _ _ _ H) at 2.
    assert (Hc : forall (a b : image), count_some (a ++ b) = count_some a + count_some b).
    { induction a as [| [x |] t IH]; intro b; cbn [app count_some]; [reflexivity | rewrite IH; lia | apply IH]. }
    rewrite Hc. cbn [count_some]. lia.
  Qed.

  Lemma nth_is_some' (l : image) : forall k,
    nth k (map (@is_some bytes) l) false = match nth_error l k with Some (Some _) => true | _ => false end.
  Proof.
    induction l as [| p t IH]; intro k; destruct k; cbn [map nth nth_error]; try reflexivity. apply IH.
  Qed.

  Theorem sd_read_page_spec z pfn :
    sd_read_page rd the_state z pfn = spec_read_page img SADUMP_PAGE_SIZE max_pfn z pfn.
  Proof.
    unfold sd_read_page, spec_read_page. cbn [sd_max_pfn sd_regions sd_ext the_state].
    destruct (N.leb_spec max_pfn pfn) as [| Hlt]; [reflexivity |].
    pose proof (lookup_bitmap true nbytes (map (@is_some bytes) img) 0 SADUMP_PAGE_SIZE pfn
                  ltac:(rewrite map_length; exact Hfit)) as Hl.
    fold bm in Hl. unfold pos_of in Hl.
    rewrite nth_is_some' in Hl.
    destruct (find_pfn_region (regions_from_bitmap true bm 0 (N.of_nat (8 * nbytes)) 0 SADUMP_PAGE_SIZE) pfn)
      as [rgn |] eqn:Hr.
    - destruct (N.leb_spec (rg_pfn rgn) pfn) as [Hge | Hbelow].
      + destruct (nth_error img (N.to_nat pfn)) as [[c |] |] eqn:Hc; try discriminate.
        injection Hl as Hpos. rewrite Hpos.
        rewrite rank_in_is_some by (cbn; lia).
        destruct (Hext (count_some (firstn (N.to_nat pfn) img)) (count_firstn_lt _ _ Hc)) as [f [o [He Hd]]].
        unfold SADUMP_PAGE_SIZE. rewrite (N.mul_comm _ 4096), He, Hd.
        now rewrite (page_in_data img _ c Hpages Hc).
      + destruct (nth_error img (N.to_nat pfn)) as [[c |] |]; try discriminate; reflexivity.
    - destruct (nth_error img (N.to_nat pfn)) as [[c |] |]; try discriminate; reflexivity.
  Qed.
End PagePath.

(** one disk (single partition, media backup): the data area is one extent *)
Lemma single_extent_ok rd (data : bytes) fidx pos :
  (forall o n, o + n <= len data -> rd fidx (pos + o) n = read_of data o n) ->
  forall k, 4096 * k + 4096 <= len data ->
  exists f o, ext_loop [ {| ex_pos := pos; ex_len := len data; ex_fidx := fidx |} ] (4096 * k) = Some (f, o) /\
              rd f o 4096 = read_of data (4096 * k) 4096.
Proof.
  intros Hrd k Hk. exists fidx, (4096 * k + pos). cbn [ext_loop ex_len ex_fidx ex_pos].
  destruct (N.leb_spec (len data) (4096 * k)); [lia |]. split; [reflexivity |].
  rewrite (N.add_comm (4096 * k) pos). apply Hrd. lia.
Qed.

(** several disks: extents whose lengths are multiples of the page size *)
Lemma ext_loop_chunks rd : forall (chunks : list (extent * bytes)) pos,
  Forall (fun ec => ex_len (fst ec) = len (snd ec) /\ (len (snd ec)) mod 4096 = 0 /\
                    forall o n, o + n <= len (snd ec) ->
                                rd (ex_fidx (fst ec)) (ex_pos (fst ec) + o) n = read_of (snd ec) o n) chunks ->
  pos mod 4096 = 0 -> pos + 4096 <= len (concat (map snd chunks)) ->
  exists f o, ext_loop (map fst chunks) pos = Some (f, o) /\
              rd f o 4096 = read_of (concat (map snd chunks)) pos 4096.
Proof.
  induction chunks as [| [e d] t IH]; intros pos Hall Hal Hfit.
  - cbn in Hfit. lia.
  - apply Forall_cons_iff in Hall as [[Hlen [Hmod Hrd]] Ht]. cbn [fst snd] in *.
    cbn [map ext_loop concat fst snd]. rewrite Hlen.
    destruct (N.leb_spec (len d) pos) as [Hskip | Hin].
    + (* the page lies on a later disk *)
      cbn [map concat fst snd] in Hfit. rewrite len_app in Hfit.
      destruct (IH (pos - len d) Ht) as [f [o [He Hr]]].
      * assert (Hd : pos = (pos - len d) + len d) by lia.
        pose proof (N.div_mod (len d) 4096 ltac:(lia)) as E1. rewrite Hmod, N.add_0_r in E1.
        pose proof (N.div_mod pos 4096 ltac:(lia)) as E2. rewrite Hal, N.add_0_r in E2.
        assert (E3 : pos - len d = 4096 * (pos / 4096 - len d / 4096)) by lia.
        rewrite E3, N.mul_comm. apply N.mod_mul. lia.
      * lia.
      * exists f, o. split; [exact He |]. rewrite Hr. rewrite read_of_skip by lia. reflexivity.
    + (* the page lies on this disk, whole *)
      assert (Hwhole : pos + 4096 <= len d).
      { pose proof (N.div_mod (len d) 4096 ltac:(lia)) as E1. rewrite Hmod, N.add_0_r in E1.
        pose proof (N.div_mod pos 4096 ltac:(lia)) as E2. rewrite Hal, N.add_0_r in E2.
        assert (pos / 4096 < len d / 4096) by nia. nia. }
      exists (ex_fidx e), (pos + ex_pos e). split; [reflexivity |].
      rewrite (N.add_comm pos), Hrd by lia. now rewrite read_of_prefix by lia.
Qed.

Theorem sadump_page_path rd img nbytes exts max_pfn bs ptr nf :
  Forall (fun oc => match oc with Some c => len c = 4096 | None => True end) img ->
  (length img <= 8 * nbytes)%nat ->
  (forall k, k < count_some img ->
     exists f o, ext_loop exts (4096 * k) = Some (f, o) /\
                 rd f o 4096 = read_of (page_data img) (4096 * k) 4096) ->
  forall z pfn,
    sd_read_page rd (the_state img nbytes exts max_pfn bs ptr nf) z pfn =
    spec_read_page img SADUMP_PAGE_SIZE max_pfn z pfn.
Proof. intros H1 H2 H3 z pfn. now apply sd_read_page_spec. Qed.
