(** The page loop of [read_locked] (Codec.read_range): for a page source that
    answers every page-aligned request with [page (addr / pgsz)], an arbitrary
    (unaligned, page-crossing) range read returns exactly the bytes of the
    pages it touches, up to the first page that is not available, and the
    status of that page. *)
From Coq Require Import NArith List Bool Lia Arith.
From KdV Require Import Fmt.Codec Fmt.CodecProofs.
Import ListNotations.
Local Open Scope N_scope.

Lemma align_down a p : 0 < p -> (a - a mod p) mod p = 0 /\ (a - a mod p) / p = a / p.
Proof.
  intro H. pose proof (N.div_mod a p ltac:(lia)) as E. pose proof (N.mod_lt a p ltac:(lia)) as L.
  revert E L. generalize (a / p) (a mod p). intros q r E L.
  assert (E2 : a - r = q * p) by lia. rewrite E2.
  split; [apply N.mod_mul; lia | apply N.div_mul; lia].
Qed.

Lemma same_page a p i : 0 < p -> a mod p + i < p ->
  (a + i) / p = a / p /\ (a + i) mod p = a mod p + i.
Proof.
  intros H Hi. pose proof (N.div_mod a p ltac:(lia)) as E.
  revert E Hi. generalize (a / p) (a mod p). intros q r E Hi.
  assert (E2 : a + i = p * q + (r + i)) by lia.
  split.
  - symmetry. apply (N.div_unique _ _ _ (r + i)); [lia | exact E2].
  - symmetry. apply (N.mod_unique _ _ q); [lia | exact E2].
Qed.

Section ReadRange.
  Context {St : Type}.
  Variable get_page : St -> N -> res bytes * St.
  Variable Inv : St -> Prop.
  Variable page : N -> res bytes.
  Variable pgsz : N.
  Hypothesis Hpg : 0 < pgsz.
  Hypothesis Hget : forall st a, Inv st -> a mod pgsz = 0 ->
    fst (get_page st a) = page (a / pgsz) /\ Inv (snd (get_page st a)).
  Hypothesis Hlen : forall k c, page k = Ok c -> len c = pgsz.

  (** the byte at address [a], as far as the pages say *)
  Definition byte_at (a : N) : N :=
    match page (a / pgsz) with
    | Ok c => nth (N.to_nat (a mod pgsz)) c 0
    | Err _ => 0
    end.

  Definition bytes_from (a : N) (m : nat) : bytes :=
    map (fun i => byte_at (a + N.of_nat i)) (seq 0 m).

  Lemma bytes_from_length a m : length (bytes_from a m) = m.
  Proof. unfold bytes_from. now rewrite map_length, seq_length. Qed.

  Lemma map_seq_shift {A} (f : nat -> A) m : forall k s,
    map f (seq (m + s) k) = map (fun i => f (m + i)%nat) (seq s k).
  Proof.
    induction k as [| k IH]; intro s; [reflexivity |].
    cbn [seq map]. f_equal. rewrite <- Nat.add_succ_r. apply IH.
  Qed.

  Lemma bytes_from_app a m k :
    bytes_from a (m + k) = bytes_from a m ++ bytes_from (a + N.of_nat m) k.
  Proof.
    unfold bytes_from. rewrite seq_app, map_app. f_equal.
    replace (0 + m)%nat with (m + 0)%nat by lia. rewrite map_seq_shift.
    apply map_ext. intro i. f_equal. lia.
  Qed.

  (** one page's contribution *)
  Lemma slice_is_bytes addr c partlen :
    page (addr / pgsz) = Ok c -> partlen <= pgsz - addr mod pgsz ->
    sub c (addr mod pgsz) partlen = bytes_from addr (N.to_nat partlen).
  Proof.
    intros Hp Hpl. pose proof (Hlen _ _ Hp) as Hc.
    assert (Hmod : addr mod pgsz < pgsz) by (apply N.mod_lt; lia).
    apply (nth_ext _ _ 0 0).
    - rewrite sub_length by lia. now rewrite bytes_from_length.
    - intros i Hi. rewrite sub_length in Hi by lia.
      rewrite sub_nth by assumption.
      rewrite (nth_indep (bytes_from addr (N.to_nat partlen)) 0 (byte_at (addr + N.of_nat 0)))
        by (rewrite bytes_from_length; lia).
      unfold bytes_from.
      rewrite (map_nth (fun i => byte_at (addr + N.of_nat i)) (seq 0 (N.to_nat partlen)) 0%nat i).
      rewrite seq_nth by lia. cbn [Nat.add]. unfold byte_at.
      assert (Hsame : (addr + N.of_nat i) / pgsz = addr / pgsz /\
                      (addr + N.of_nat i) mod pgsz = addr mod pgsz + N.of_nat i)
        by (apply same_page; [exact Hpg | lia]).
      destruct Hsame as [-> ->]. rewrite Hp. f_equal. lia.
  Qed.

  (** the loop: what has been delivered when it stops *)
  Lemma read_loop_spec : forall fuel st addr remain acc,
    Inv st -> addr + remain <= 2^64 ->
    (N.to_nat ((addr mod pgsz + remain) / pgsz) + 1 < fuel)%nat ->
    let '(status, data, st') := read_loop get_page pgsz fuel st addr remain acc in
    Inv st' /\
    exists m, (N.of_nat m <= remain) /\ data = acc ++ bytes_from addr m /\
      ((status = KDUMP_OK /\ N.of_nat m = remain) \/
       (N.of_nat m < remain /\ page ((addr + N.of_nat m) / pgsz) = Err status)).
  Proof.
    induction fuel as [| fuel IH]; intros st addr remain acc HI Hrange Hfuel; [inversion Hfuel |].
    cbn [read_loop].
    destruct (N.eqb_spec remain 0) as [-> | Hrem].
    - split; [assumption |]. exists 0%nat. cbn [bytes_from seq map]. rewrite app_nil_r.
      split; [lia |]. split; [reflexivity |]. left. split; reflexivity.
    - set (off := addr mod pgsz) in *.
      assert (Hoff : off < pgsz) by (apply N.mod_lt; lia).
      destruct (align_down addr pgsz Hpg) as [Hal1 Hal2]. fold off in Hal1, Hal2.
      destruct (Hget st (addr - off) HI Hal1) as [Hres HI'].
      destruct (get_page st (addr - off)) as [r st1]. cbn [fst snd] in Hres, HI'.
      rewrite Hal2 in Hres.
      destruct r as [pg | e].
      + (* the page is there *)
        set (partlen := N.min (pgsz - off) remain).
        assert (Hslice : sub pg off partlen = bytes_from addr (N.to_nat partlen))
          by (unfold off; apply slice_is_bytes; [now symmetry | unfold partlen, off; lia]).
        destruct (N.eq_dec partlen remain) as [Eend | Emore].
        * (* the range ends inside this page *)
          rewrite Eend, N.sub_diag.
          destruct fuel as [| fuel'];
            [exfalso; revert Hfuel; generalize (N.to_nat ((off + remain) / pgsz)); intros; lia |].
          cbn [read_loop N.eqb].
          split; [assumption |]. exists (N.to_nat remain). split; [lia |]. split.
          -- rewrite Eend in Hslice. now rewrite Hslice.
          -- left. split; [reflexivity | lia].
        * (* it continues on the next page *)
          assert (Hpl : partlen = pgsz - off /\ partlen < remain) by (unfold partlen in *; lia).
          destruct Hpl as [Hpl Hlt].
          assert (Hnowrap : (addr + partlen) mod 2^64 = addr + partlen) by (apply N.mod_small; lia).
          assert (Hbound : (addr + partlen) mod pgsz = 0 /\
                           (off + remain) / pgsz = (remain - partlen) / pgsz + 1).
          { pose proof (N.div_mod addr pgsz ltac:(lia)) as E. fold off in E.
            split.
            - replace (addr + partlen) with ((addr / pgsz + 1) * pgsz) by (rewrite Hpl; lia).
              apply N.mod_mul. lia.
            - replace (off + remain) with ((remain - partlen) + 1 * pgsz) by (rewrite Hpl; lia).
              rewrite N.div_add by lia. reflexivity. }
          destruct Hbound as [Hb1 Hb2].
          rewrite Hnowrap.
          assert (Hfuel' : (N.to_nat (((addr + partlen) mod pgsz + (remain - partlen)) / pgsz) + 1 < fuel)%nat).
          { rewrite Hb1, N.add_0_l. rewrite Hb2 in Hfuel. lia. }
          specialize (IH st1 (addr + partlen) (remain - partlen) (acc ++ sub pg off partlen)
                        HI' ltac:(lia) Hfuel').
          destruct (read_loop get_page pgsz fuel st1 (addr + partlen) (remain - partlen)
                      (acc ++ sub pg off partlen)) as [[status data] st'].
          destruct IH as [HI'' [m [Hm [Hdata Hcase]]]]. split; [assumption |].
          exists (N.to_nat partlen + m)%nat.
          split; [lia |]. split.
          -- rewrite Hdata, <- app_assoc. f_equal. rewrite bytes_from_app, Hslice. f_equal. f_equal. lia.
          -- destruct Hcase as [[Hs Hmm] | [Hmm Herr]].
             ++ left. split; [assumption | lia].
             ++ right. split; [lia |]. rewrite <- Herr. f_equal. f_equal. lia.
      + split; [assumption |]. exists 0%nat. cbn [bytes_from seq map]. rewrite app_nil_r.
        split; [lia |]. split; [reflexivity |]. right. split; [lia |].
        rewrite N.add_0_r. now symmetry.
  Qed.

  Theorem read_range_spec st addr n :
    Inv st -> addr + n <= 2^64 ->
    let '(status, data, st') := read_range get_page pgsz st addr n in
    Inv st' /\
    exists m, N.of_nat m <= n /\ data = bytes_from addr m /\
      ((status = KDUMP_OK /\ N.of_nat m = n) \/
       (N.of_nat m < n /\ page ((addr + N.of_nat m) / pgsz) = Err status)).
  Proof.
    intros HI Hr. unfold read_range.
    assert (Hfuel : (N.to_nat ((addr mod pgsz + n) / pgsz) + 1 < S (S (S (N.to_nat (n / pgsz)))))%nat).
    { assert (addr mod pgsz < pgsz) by (apply N.mod_lt; lia).
      assert ((addr mod pgsz + n) / pgsz <= (n + 1 * pgsz) / pgsz) by (apply N.div_le_mono; lia).
      rewrite N.div_add in H0 by lia. lia. }
    pose proof (read_loop_spec (S (S (S (N.to_nat (n / pgsz))))) st addr n [] HI Hr Hfuel) as H.
    destruct (read_loop get_page pgsz (S (S (S (N.to_nat (n / pgsz))))) st addr n []) as [[status data] st'].
    exact H.
  Qed.
End ReadRange.
