(** [uncompress_rle] (util.c) and the RLE stream grammar.

    The C loop consumes one to three source bytes per iteration:
      byte != 0            literal
      0 0                  literal zero
      0 cnt v   (cnt > 0)  [cnt] copies of [v]
    and fails (-1) when the source ends inside an escape or the destination
    would overflow.  On success [*pdstlen] is the number of bytes produced,
    here the length of the returned list. *)
From Coq Require Import NArith List Bool.
From KdV Require Import Fmt.Codec.
Import ListNotations.
Local Open Scope N_scope.

Definition cons_opt (b : N) (o : option bytes) : option bytes :=
  match o with Some l => Some (b :: l) | None => None end.
Definition app_opt (p : bytes) (o : option bytes) : option bytes :=
  match o with Some l => Some (p ++ l) | None => None end.

(** [remain] is the room left in the destination *)
Fixpoint uncompress_rle (src : bytes) (remain : N) {struct src} : option bytes :=
  match src with
  | [] => Some []
  | byte :: s1 =>
      if byte =? 0 then
        match s1 with
        | [] => None                              (* if (src >= srcend) return -1 *)
        | cnt :: s2 =>
            if cnt =? 0 then
              (* falls through to the literal store of [byte] = 0 *)
              if remain =? 0 then None
              else cons_opt 0 (uncompress_rle s2 (remain - 1))
            else if remain <? cnt then None
            else match s2 with
                 | [] => None
                 | v :: s3 =>
                     app_opt (repeat v (N.to_nat cnt))
                             (uncompress_rle s3 (remain - cnt))
                 end
        end
      else if remain =? 0 then None
      else cons_opt byte (uncompress_rle s1 (remain - 1))
  end.

(** the stream grammar: what a writer can emit *)
Inductive rle_tok := Lit (b : N) | Run (cnt v : N).

Definition tok_ok (t : rle_tok) : Prop :=
  match t with
  | Lit b => b < 256
  | Run c v => 0 < c < 256 /\ v < 256
  end.

Definition render_tok (t : rle_tok) : bytes :=
  match t with
  | Lit b => if b =? 0 then [0; 0] else [b]
  | Run c v => [0; c; v]
  end.

Definition expand_tok (t : rle_tok) : bytes :=
  match t with
  | Lit b => [b]
  | Run c v => repeat v (N.to_nat c)
  end.

Definition rle_render (ts : list rle_tok) : bytes := flat_map render_tok ts.
Definition rle_expand (ts : list rle_tok) : bytes := flat_map expand_tok ts.

(** reference encoder (what lkcd's dump_compress_rle does in essence): maximal
    runs, capped at 255; runs shorter than 4 of a non-zero byte are literals.
    [cur]/[n] is the run being collected. *)
Definition flush_run (v n : N) : list rle_tok :=
  if n =? 0 then []
  else if (4 <=? n) || ((v =? 0) && (2 <=? n)) then [Run n v]
  else repeat (Lit v) (N.to_nat n).

Fixpoint rle_tokens (l : bytes) (v n : N) : list rle_tok :=
  match l with
  | [] => flush_run v n
  | b :: t =>
      if (b =? v) && (n <? 255) && negb (n =? 0) then rle_tokens t v (n + 1)
      else flush_run v n ++ rle_tokens t b 1
  end.

Definition rle_encode (page : bytes) : bytes := rle_render (rle_tokens page 0 0).
