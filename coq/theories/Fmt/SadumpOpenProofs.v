(** C01 for SADUMP, open path of a single-partition dump: [sd_open] on the
    encoder's output yields the state the page-path theorem needs, and the
    geometry. *)
From Coq Require Import NArith List Bool Lia Arith.
From KdV Require Import Fmt.Codec Fmt.CodecProofs Fmt.PfnModel Fmt.PfnProofs Fmt.BitmapSpec Fmt.ImageSpec
     Fmt.SadumpModel Fmt.SadumpSpec Fmt.SadumpProofs.
Import ListNotations.
Local Open Scope N_scope.

(** * the magic numbers that delimit the partition header block *)
Definition nx (m : N) : N := (11 * (m + 7)) mod 2^32.

Fixpoint magic_nth (j : nat) (m : N) : N :=
  match j with O => m | S k => magic_nth k (nx m) end.

Lemma nx_lt m : nx m < 2^32.
Proof. unfold nx. apply N.mod_lt. discriminate. Qed.

Lemma len_magic_seq n : forall m, len (magic_seq n m) = 4 * N.of_nat n.
Proof.
  induction n as [| n IH]; intro m; [reflexivity |].
  cbn [magic_seq]. rewrite len_app, len_put32, IH. lia.
Qed.

(** the loop of [verify_magic_number] runs to the end of the sequence *)
Lemma magic_loop_run f : forall k prev A rest fuel,
  f = A ++ put32 false prev ++ magic_seq k (nx prev) ++ rest ->
  (k < fuel)%nat -> prev < 2^32 ->
  get false (read_of rest 0 4) <> magic_nth (S k) prev ->
  magic_loop (read_files [f]) fuel 0 (len A) prev = Some (len A + 4 + 4 * N.of_nat k).
Proof.
  induction k as [| k IH]; intros prev A rest fuel Ef Hfuel Hprev Hbreak.
  - destruct fuel as [| fuel]; [lia |]. cbn [magic_loop].
    assert (Hw : get32 false (read_files [f] 0 (len A + 4) 4) 0 = get false (read_of rest 0 4)).
    { unfold read_files. cbn [nth N.to_nat]. rewrite get32_read by lia. rewrite Ef. cbn [magic_seq app].
      rewrite app_assoc. rewrite read_of_skip by (rewrite len_app, len_put32; lia).
      rewrite len_app, len_put32. f_equal. f_equal. lia. }
    rewrite Hw. cbn [magic_nth] in Hbreak. fold (nx prev).
    destruct (N.eqb_spec (get false (read_of rest 0 4)) (nx prev)); [contradiction |].
    cbn [negb N.of_nat]. f_equal. lia.
  - destruct fuel as [| fuel]; [lia |]. cbn [magic_loop].
    assert (Hw : get32 false (read_files [f] 0 (len A + 4) 4) 0 = nx prev).
    { unfold read_files. cbn [nth N.to_nat]. rewrite get32_read by lia. rewrite Ef. cbn [magic_seq].
      rewrite app_assoc, <- (app_assoc (put32 false (nx prev))).
      rewrite N.add_0_r. rewrite (read_of_section' (A ++ put32 false prev) (put32 false (nx prev))).
      - unfold put32. apply get_put. pose proof (nx_lt prev). cbn. lia.
      - rewrite len_app, len_put32. reflexivity.
      - now rewrite len_put32. }
    rewrite Hw. fold (nx prev). rewrite N.eqb_refl. cbn [negb].
    specialize (IH (nx prev) (A ++ put32 false prev) rest fuel).
    rewrite len_app, len_put32 in IH. rewrite IH.
    + f_equal. lia.
    + rewrite Ef. cbn [magic_seq]. now rewrite <- !app_assoc.
    + lia.
    + apply nx_lt.
    + exact Hbreak.
Qed.

(** * [setup_arch]: the CPU state loop *)
Lemma len_cpu_state l lma : 1000 <= sl_cpu_size l -> len (cpu_state l lma) = sl_cpu_size l.
Proof. intro H. unfold cpu_state. rewrite len_enc_flds. cbn [flds_len fld_len]. lia. Qed.

Lemma cpu_loop_run f l : forall lmas B rest,
  1024 <= sl_cpu_size l ->
  f = B ++ flat_map (cpu_state l) lmas ++ rest ->
  cpu_loop (read_files [f]) (length lmas) 0 (len B) (sl_cpu_size l) = if existsb (fun b => b) lmas then 8 else 4.
Proof.
  induction lmas as [| b t IH]; intros B rest Hsz Ef; [reflexivity |].
  cbn [length cpu_loop existsb].
  assert (He : get64 false (read_files [f] 0 (len B) CPU_STATE_SIZE) CPU_STATE_EFER = if b then 1025 else 1).
  { unfold read_files. cbn [nth N.to_nat]. unfold CPU_STATE_SIZE, CPU_STATE_EFER.
    rewrite get64_read by lia. rewrite Ef. cbn [flat_map]. rewrite <- app_assoc.
    rewrite read_of_skip by lia. replace (len B + 992 - len B) with 992 by lia.
    unfold cpu_state at 1.
    apply get64_fld; [reflexivity | destruct b; reflexivity]. }
  rewrite He. destruct b.
  - reflexivity.
  - change (N.testbit 1 10) with false. cbv iota. cbn [orb].
    rewrite <- (len_cpu_state l false) at 1 by lia. rewrite <- len_app.
    apply (IH (B ++ cpu_state l false) rest); [assumption |]. rewrite Ef. cbn [flat_map]. now rewrite <- !app_assoc.
Qed.

(** * well-formed single-partition layouts *)
Record sd_wf (l : sd_layout) (img : image) : Prop := {
  sw_kind : sl_kind l = SdSingle;
  sw_bs : exists k, 8 <= k <= 20 /\ sl_block_size l = 2^k;
  sw_version : sl_version l <= 1;
  sw_mapnr : (sl_version l = 0 -> sl_max_mapnr l < 2^32) /\ sl_max_mapnr l < 2^64;
  sw_cpus : sl_lma l <> [] /\ nr_cpus l < 2^16;
  sw_cpusz : 1024 <= sl_cpu_size l /\ sl_cpu_size l * nr_cpus l < 2^32;
  sw_sub : 4 + 16 * nr_cpus l + sl_cpu_size l * nr_cpus l <= sl_sub_blocks l * sl_block_size l
           /\ sl_sub_blocks l < 2^32;
  sw_bitmaps : sl_bitmap_blocks l < 2^32 /\ sl_dumpable_blocks l < 2^32;
  sw_cover : sl_max_mapnr l <= 8 * (sl_dumpable_blocks l * sl_block_size l) /\
             N.of_nat (length img) <= sl_max_mapnr l;
  sw_pages : Forall (fun oc => match oc with Some c => len c = 4096 | None => True end) img;
  sw_ids : len (sl_ids l) = 48;
  sw_vol : len (nth 0 (sl_vol_ids l) []) = 16;
  sw_magic : sl_magic0 l < 2^32 /\
             1969512819 <> magic_nth (S (N.to_nat ((sl_block_size l - 168) / 4 - 1))) (sl_magic0 l);
  sw_size : len (hd [] (encode_sadump l img)) < 2^64
}.

Section Single.
  Variable l : sd_layout.
  Variable img : image.
  Hypothesis Hwf : sd_wf l img.

  Let bs := sl_block_size l.
  Let data := page_data img.
  Let vol := nth 0 (sl_vol_ids l) [].
  Let used := bs + body_len l + len data.
  Let F := part_header l 0 vol used ++ body l img ++ data.
  Let rd := read_files [F].
  Let n := N.to_nat ((bs - 168) / 4).
  Let cpus := nr_cpus l.

  Lemma enc_single : encode_sadump l img = [F].
  Proof. unfold encode_sadump. rewrite (sw_kind _ _ Hwf). reflexivity. Qed.

  Definition phf : list fld :=
    [ F32 1969512819; F32 28781; F32 1; F32 0; F32 0; F32 0; FB 64 [];
      FB 32 (sub (sl_ids l) 0 32); FB 16 vol; FB 16 (sub (sl_ids l) 32 16);
      F32 0; F32 0; F64 used ].

  Lemma ph_is : part_header l 0 vol used = enc_flds false phf ++ magic_seq n (sl_magic0 l).
  Proof. reflexivity. Qed.

  Lemma bs_facts : 256 <= bs <= 2^20 /\ bs = 168 + 4 * N.of_nat n /\ (1 <= n)%nat.
  Proof.
    destruct (sw_bs _ _ Hwf) as [k [[H1 H2] E]]. fold bs in E.
    assert (Hb : 256 <= bs <= 2^20).
    { rewrite E. change 256 with (2^8). split; apply N.pow_le_mono_r; lia. }
    assert (Hmod : bs mod 4 = 0).
    { rewrite E. replace k with (2 + (k - 2)) by lia. rewrite N.pow_add_r. change (2^2) with 4.
      rewrite N.mul_comm. apply N.mod_mul. discriminate. }
    assert (Hq : (bs - 168) mod 4 = 0).
    { pose proof (N.div_mod bs 4 ltac:(lia)) as D. rewrite Hmod, N.add_0_r in D.
      replace (bs - 168) with ((bs / 4 - 42) * 4) by lia. apply N.mod_mul. discriminate. }
    pose proof (N.div_mod (bs - 168) 4 ltac:(lia)) as D. rewrite Hq, N.add_0_r in D.
    split; [exact Hb |]. unfold n. split; [lia |].
    assert (22 <= (bs - 168) / 4) by (apply N.div_le_lower_bound; lia). lia.
  Qed.

  Lemma is_pow2_bs : SadumpModel.is_pow2 bs = true.
  Proof.
    destruct (sw_bs _ _ Hwf) as [k [Hk E]]. fold bs in E. rewrite E.
    assert (Hc : k = 8 \/ k = 9 \/ k = 10 \/ k = 11 \/ k = 12 \/ k = 13 \/ k = 14 \/ k = 15 \/ k = 16 \/
                 k = 17 \/ k = 18 \/ k = 19 \/ k = 20) by lia.
    repeat (destruct Hc as [-> | Hc]; [vm_compute; reflexivity |]). subst. vm_compute. reflexivity.
  Qed.

  Lemma len_ph : len (part_header l 0 vol used) = bs.
  Proof.
    rewrite ph_is, len_app, len_enc_flds, len_magic_seq. destruct bs_facts as [_ [E _]].
    cbn [flds_len fld_len phf]. lia.
  Qed.

  (** ** the partition header *)
  Lemma sph_is : rd 0 0 SPH_SIZE = enc_flds false phf.
  Proof.
    unfold rd, read_files. cbn [nth N.to_nat]. unfold F. rewrite ph_is, <- !app_assoc.
    apply read_of_exact'. rewrite len_enc_flds. reflexivity.
  Qed.

  Lemma used_small : used < 2^64.
  Proof.
    pose proof (sw_size _ _ Hwf) as H. rewrite enc_single in H. cbn [hd] in H. unfold F in H.
    rewrite !len_app, len_ph in H. unfold used.
    assert (Hb : len (body l img) = body_len l).
    { unfold body, body_len. fold bs. unfold dump_header, sub_header.
      rewrite !len_app, !len_fit. fold bs.
      assert (Hl : forall m k bits, len (bits_to_bytes m k bits) = N.of_nat k).
      { intros m k. induction k; intro bits; [reflexivity |]. cbn [bits_to_bytes]. rewrite len_cons, IHk. lia. }
      rewrite !Hl. lia. }
    rewrite Hb in H. fold data in H. lia.
  Qed.

  (** ** the sections behind the partition header *)
  Definition dhf : list fld :=
    [ FB 8 [115; 97; 100; 117; 109; 112; 0; 0]; F32 (sl_version l); F32 0;
      FB 16 (sub (sl_ids l) 32 16); F32 0; F32 0; F32 bs; F32 0;
      F32 (sl_sub_blocks l); F32 (sl_bitmap_blocks l); F32 (sl_dumpable_blocks l);
      F32 (N.min (sl_max_mapnr l) (2^32 - 1)); F32 0; F32 0; F32 0; F32 0; F32 cpus; F32 0;
      F64 (if 1 <=? sl_version l then sl_max_mapnr l else 0); F64 0; F64 0; F64 0 ].

  Definition subc : bytes :=
    put32 false (sl_cpu_size l * cpus) ++ zeros (16 * cpus) ++ flat_map (cpu_state l) (sl_lma l).

  Definition MB : bytes := bits_to_bytes true (N.to_nat (sl_bitmap_blocks l * bs)) (sl_mem_bits l).
  Definition DB : bytes := bits_to_bytes true (N.to_nat (sl_dumpable_blocks l * bs)) (map (@is_some bytes) img).

  Lemma len_btb m k bits : len (bits_to_bytes m k bits) = N.of_nat k.
  Proof. revert bits. induction k; intro bits; [reflexivity |]. cbn [bits_to_bytes]. rewrite len_cons, IHk. lia. Qed.

  Lemma len_subc : len subc = 4 + 16 * cpus + sl_cpu_size l * cpus.
  Proof.
    unfold subc. rewrite !len_app, len_put32, len_zeros.
    assert (H : forall lm, len (flat_map (cpu_state l) lm) = sl_cpu_size l * N.of_nat (length lm)).
    { induction lm as [| b t IH]; [cbn; lia |]. cbn [flat_map length]. rewrite len_app, IH.
      destruct (sw_cpusz _ _ Hwf) as [Hc _]. rewrite len_cpu_state by lia. lia. }
    rewrite H. unfold cpus, nr_cpus. lia.
  Qed.

  Definition DHb : bytes := enc_flds false dhf ++ zeros (bs - 120).
  Definition SUBb : bytes := subc ++ zeros (sl_sub_blocks l * bs - len subc).
  Definition PHb : bytes := part_header l 0 vol used.

  Lemma F_sections : F = PHb ++ DHb ++ SUBb ++ MB ++ DB ++ data.
  Proof.
    unfold F, body, PHb, DHb, SUBb. fold bs MB DB. rewrite <- !app_assoc. f_equal.
    unfold dump_header. fold bs cpus. rewrite fit_small by (rewrite len_enc_flds; destruct bs_facts; cbn; lia).
    rewrite len_enc_flds. change (flds_len _) with 120. fold dhf. rewrite <- !app_assoc. do 2 f_equal.
    unfold sub_header. fold bs cpus subc.
    rewrite fit_small by (rewrite len_subc; apply (sw_sub _ _ Hwf)).
    now rewrite <- !app_assoc.
  Qed.

  Lemma len_PHb : len PHb = bs. Proof. apply len_ph. Qed.
  Lemma len_DHb : len DHb = bs.
  Proof. unfold DHb. rewrite len_app, len_enc_flds, len_zeros. change (flds_len dhf) with 120. destruct bs_facts as [[H _] _]. lia. Qed.
  Lemma len_SUBb : len SUBb = sl_sub_blocks l * bs.
  Proof. unfold SUBb. rewrite len_app, len_zeros. pose proof (sw_sub _ _ Hwf) as [Hs _]. fold cpus bs in Hs. rewrite <- len_subc in Hs. lia. Qed.
  Lemma len_MB : len MB = sl_bitmap_blocks l * bs. Proof. unfold MB. rewrite len_btb. lia. Qed.
  Lemma len_DB : len DB = sl_dumpable_blocks l * bs. Proof. unfold DB. rewrite len_btb. lia. Qed.

  Lemma rd_F o k : rd 0 o k = read_of F o k. Proof. reflexivity. Qed.

  Lemma rd_dh : rd 0 bs SH_SIZE = enc_flds false dhf.
  Proof.
    rewrite rd_F, F_sections. rewrite <- len_PHb, <- (N.add_0_r (len PHb)), read_of_skip_add.
    unfold DHb. rewrite <- !app_assoc. apply read_of_exact'. rewrite len_enc_flds. reflexivity.
  Qed.

  Lemma rd_subc off k : off + k <= len subc -> rd 0 (bs + bs + off) k = read_of subc off k.
  Proof.
    intro H. rewrite rd_F, F_sections.
    replace (bs + bs + off) with (len PHb + (len DHb + off)) by (rewrite len_PHb, len_DHb; lia).
    rewrite !read_of_skip_add. unfold SUBb. rewrite <- !app_assoc. now apply read_of_prefix.
  Qed.

  Definition bmp_pos : N := bs + bs * (1 + sl_sub_blocks l) + bs * sl_bitmap_blocks l.
  Definition data_pos : N := bmp_pos + bs * sl_dumpable_blocks l.

  Lemma rd_db : rd 0 bmp_pos (bs * sl_dumpable_blocks l) = DB.
  Proof.
    rewrite rd_F, F_sections.
    replace bmp_pos with (len PHb + (len DHb + (len SUBb + (len MB + 0))))
      by (rewrite len_PHb, len_DHb, len_SUBb, len_MB; unfold bmp_pos; lia).
    rewrite !read_of_skip_add. apply read_of_exact'. rewrite len_DB. lia.
  Qed.

  Lemma rd_data o k : o + k <= len data -> rd 0 (data_pos + o) k = read_of data o k.
  Proof.
    intro H. rewrite rd_F, F_sections.
    replace (data_pos + o) with (len PHb + (len DHb + (len SUBb + (len MB + (len DB + o)))))
      by (rewrite len_PHb, len_DHb, len_SUBb, len_MB, len_DB; unfold data_pos, bmp_pos; lia).
    now rewrite !read_of_skip_add.
  Qed.

  (** ** [verify_magic_number] finds the block size *)
  Lemma magic_unfold : magic_seq n (sl_magic0 l) = put32 false (sl_magic0 l) ++ magic_seq (n - 1) (nx (sl_magic0 l)).
  Proof.
    destruct bs_facts as [_ [_ Hn]]. destruct n as [| k] eqn:E; [lia |].
    cbn [magic_seq]. replace (S k - 1)%nat with k by lia. reflexivity.
  Qed.

  Lemma F_magic :
    F = enc_flds false phf ++ put32 false (sl_magic0 l) ++ magic_seq (n - 1) (nx (sl_magic0 l))
        ++ (DHb ++ SUBb ++ MB ++ DB ++ data).
  Proof. rewrite F_sections. unfold PHb. rewrite ph_is, magic_unfold, <- !app_assoc. reflexivity. Qed.

  Lemma dh_starts : get false (read_of (DHb ++ SUBb ++ MB ++ DB ++ data) 0 4) = 1969512819.
  Proof.
    unfold DHb.
    change (enc_flds false dhf) with ([115; 97; 100; 117] ++ ([109; 112; 0; 0] ++ enc_flds false (tl dhf))).
    rewrite <- !app_assoc. rewrite (read_of_exact' [115; 97; 100; 117]) by reflexivity. reflexivity.
  Qed.

  Lemma vmn : verify_magic_number rd 0 0 = Ok bs.
  Proof.
    unfold verify_magic_number. destruct bs_facts as [[Hb1 Hb2] [Ebs Hn]].
    destruct (sw_magic _ _ Hwf) as [Hm0 Hbreak].
    assert (Hprev : get32 false (rd 0 (0 + SPH_SIZE) 4) 0 = sl_magic0 l).
    { rewrite rd_F, get32_read by lia. rewrite F_magic. unfold SPH_SIZE. rewrite N.add_0_l, N.add_0_r.
      rewrite (read_of_section' (enc_flds false phf) (put32 false (sl_magic0 l)));
        [unfold put32; apply get_put; cbn; lia | rewrite len_enc_flds; reflexivity | now rewrite len_put32]. }
    rewrite Hprev.
    pose proof (magic_loop_run F (n - 1) (sl_magic0 l) (enc_flds false phf) (DHb ++ SUBb ++ MB ++ DB ++ data)
                  (N.to_nat 262144) F_magic) as Hrun.
    rewrite len_enc_flds in Hrun. change (flds_len phf) with 168 in Hrun.
    unfold rd, SPH_SIZE. rewrite N.add_0_l. rewrite Hrun.
    - replace (168 + 4 + 4 * N.of_nat (n - 1)) with bs by lia.
      rewrite N.sub_0_r, is_pow2_bs. reflexivity.
    - change (2^20) with 1048576 in Hb2. lia.
    - exact Hm0.
    - rewrite dh_starts. replace (S (n - 1)) with (S (N.to_nat ((sl_block_size l - 168) / 4 - 1))); [exact Hbreak |].
      fold bs. unfold n. lia.
  Qed.

  (** ** [setup_arch] *)
  Definition ptr : N := if existsb (fun b => b) (sl_lma l) then 8 else 4.

  Lemma cpus_facts : cpus <> 0 /\ cpus < 2^16 /\ N.to_nat cpus = length (sl_lma l).
  Proof.
    destruct (sw_cpus _ _ Hwf) as [Hne Hlt]. unfold cpus, nr_cpus in *.
    split; [| split; [exact Hlt | lia]]. destruct (sl_lma l); [contradiction | cbn; lia].
  Qed.

  Lemma setup_arch_ok : setup_arch rd 0 (bs + bs) cpus = Ok ptr.
  Proof.
    unfold setup_arch. destruct cpus_facts as [Hnz [Hlt Hlen]].
    destruct (sw_cpusz _ _ Hwf) as [Hcs Hprod]. fold cpus in Hprod.
    destruct (N.eqb_spec cpus 0); [contradiction |].
    assert (Hsz : get32 false (rd 0 (bs + bs) 4) 0 = sl_cpu_size l * cpus).
    { rewrite <- (N.add_0_r (bs + bs)). rewrite rd_subc by (rewrite len_subc; lia).
      unfold subc. rewrite (read_of_exact' (put32 false (sl_cpu_size l * cpus))) by (now rewrite len_put32).
      unfold get32. rewrite sub_all. unfold put32. apply get_put. cbn. lia. }
    rewrite Hsz, N.div_mul by assumption.
    destruct (N.ltb_spec (sl_cpu_size l) CPU_STATE_SIZE); [unfold CPU_STATE_SIZE in *; lia |].
    f_equal. rewrite Hlen.
    pose proof (cpu_loop_run F l (sl_lma l)
                  (PHb ++ DHb ++ put32 false (sl_cpu_size l * cpus) ++ zeros (16 * cpus))
                  (zeros (sl_sub_blocks l * bs - len subc) ++ MB ++ DB ++ data) Hcs) as Hrun.
    rewrite !len_app, len_PHb, len_DHb, len_put32, len_zeros in Hrun.
    replace (bs + bs + 4 + cpus * 16) with (bs + (bs + (4 + 16 * cpus))) by lia.
    apply Hrun. rewrite F_sections. unfold SUBb, subc. now rewrite <- !app_assoc.
  Qed.

  (** ** [open_common] and [sd_open] *)
  Definition ext0 : extent := {| ex_pos := data_pos; ex_len := len data; ex_fidx := 0 |}.

  Lemma data_pos_is : data_pos = bs + body_len l.
  Proof. unfold data_pos, bmp_pos, body_len. fold bs. lia. Qed.

  Lemma sph_fields :
    has_sig (enc_flds false phf) = true /\
    get64 false (enc_flds false phf) 160 = used /\
    get32 false (enc_flds false phf) 152 = 0.
  Proof.
    pose proof used_small. unfold has_sig.
    rewrite (get32_flds false phf 0 1969512819) by (try reflexivity; cbn; lia).
    rewrite (get32_flds false phf 4 28781) by (try reflexivity; cbn; lia).
    split; [reflexivity |]. split.
    - apply get64_flds; [reflexivity | assumption | cbn; lia].
    - apply get32_flds; [reflexivity | lia | cbn; lia].
  Qed.

  Lemma dh_fields :
    get32 false (enc_flds false dhf) 40 = bs /\
    get32 false (enc_flds false dhf) 80 = cpus /\
    (if get32 false (enc_flds false dhf) 8 <? 1 then get32 false (enc_flds false dhf) 60
     else get64 false (enc_flds false dhf) 88) = sl_max_mapnr l /\
    get32 false (enc_flds false dhf) 48 = sl_sub_blocks l /\
    get32 false (enc_flds false dhf) 52 = sl_bitmap_blocks l /\
    get32 false (enc_flds false dhf) 56 = sl_dumpable_blocks l.
  Proof.
    destruct bs_facts as [[_ Hb] _]. change (2^20) with 1048576 in Hb.
    destruct cpus_facts as [_ [Hc _]]. destruct (sw_mapnr _ _ Hwf) as [Hm0 Hm1].
    pose proof (sw_version _ _ Hwf) as Hv. destruct (sw_sub _ _ Hwf) as [_ Hsub].
    destruct (sw_bitmaps _ _ Hwf) as [Hbm Hdm].
    rewrite (get32_flds false dhf 40 bs) by (try reflexivity; cbn; lia).
    rewrite (get32_flds false dhf 80 cpus) by (try reflexivity; cbn; lia).
    rewrite (get32_flds false dhf 8 (sl_version l)) by (try reflexivity; cbn; lia).
    rewrite (get32_flds false dhf 48 (sl_sub_blocks l)) by (try reflexivity; cbn; lia).
    rewrite (get32_flds false dhf 52 (sl_bitmap_blocks l)) by (try reflexivity; cbn; lia).
    rewrite (get32_flds false dhf 56 (sl_dumpable_blocks l)) by (try reflexivity; cbn; lia).
    repeat split.
    destruct (N.ltb_spec (sl_version l) 1) as [H0 | H1].
    - rewrite (get32_flds false dhf 60 (N.min (sl_max_mapnr l) (2^32 - 1))) by (try reflexivity; cbn; lia).
      assert (sl_version l = 0) by lia. specialize (Hm0 H). lia.
    - assert (Hv1 : (1 <=? sl_version l) = true) by (apply N.leb_le; lia).
      rewrite (get64_flds false dhf 88 (sl_max_mapnr l));
        [reflexivity | unfold dhf; now rewrite Hv1 | assumption | cbn; lia].
  Qed.

  Definition nbytes : nat := N.to_nat (sl_dumpable_blocks l * bs).

  Theorem sd_open_single :
    sd_open rd 1 = Ok (the_state img nbytes [ext0] (sl_max_mapnr l) bs ptr 1).
  Proof.
    unfold sd_open. cbn [N.of_nat Pos.of_succ_nat probe_files repeat].
    unfold probe_file. rewrite sph_is.
    destruct sph_fields as [Hsig [Hused Hsds]]. rewrite Hsig.
    unfold open_common. cbn [negb]. rewrite vmn. rewrite N.sub_0_r.
    change (0 =? 0) with true. cbn [negb andb]. cbv iota.
    rewrite Hsds. change (0 =? 0) with true. cbv iota. change (1 <? 1) with false. cbv iota.
    cbn [pa_block_size pa_ptr pa_ids pa_vol pa_seen pa_ext pa_max_pfn pa_bmp_pos].
    rewrite rd_dh. destruct dh_fields as [Hbs [Hcp [Hmx [Hsb [Hbm Hdm]]]]].
    rewrite Hbs, N.eqb_refl. cbn [negb]. rewrite Hcp, setup_arch_ok, Hmx, Hsb, Hbm, Hdm, Hused.
    cbn [set_nth pa_ext pa_bmp_pos pa_max_pfn pa_block_size pa_ptr].
    fold bmp_pos. fold data_pos.
    assert (Hlen : (used + 2^64 - data_pos) mod 2^64 = len data).
    { pose proof used_small. unfold used. rewrite data_pos_is.
      replace (bs + body_len l + len data + 2^64 - (bs + body_len l)) with (len data + 1 * 2^64) by lia.
      rewrite N.mod_add by discriminate. apply N.mod_small. unfold used in H. lia. }
    rewrite Hlen. cbn [ex_pos ex_fidx].
    replace (data_pos - bmp_pos) with (bs * sl_dumpable_blocks l) by (unfold data_pos; lia).
    destruct (sw_cover _ _ Hwf) as [Hcov _]. fold bs in Hcov.
    destruct (N.ltb_spec (bs * sl_dumpable_blocks l * 8) (sl_max_mapnr l)); [lia |].
    rewrite rd_db. unfold the_state, bm. fold DB. unfold nbytes.
    replace (N.of_nat (8 * N.to_nat (sl_dumpable_blocks l * bs))) with (bs * sl_dumpable_blocks l * 8) by lia.
    reflexivity.
  Qed.
End Single.

(** * closed statement: single-partition dumps *)
Theorem sadump_single_roundtrip l img :
  sd_wf l img ->
  exists st, sd_open (read_files (encode_sadump l img)) 1 = Ok st /\
    sd_ptr_size st = (if existsb (fun b => b) (sl_lma l) then 8 else 4) /\
    sd_max_pfn st = sl_max_mapnr l /\ sd_block_size st = sl_block_size l /\
    forall z pfn,
      sd_read_page (read_files (encode_sadump l img)) st z pfn =
      spec_read_page img SADUMP_PAGE_SIZE (sl_max_mapnr l) z pfn.
Proof.
  intro Hwf. rewrite (enc_single l img Hwf).
  exists (the_state img (nbytes l) [ext0 l img] (sl_max_mapnr l) (sl_block_size l) (ptr l) 1).
  split; [exact (sd_open_single l img Hwf) |].
  split; [reflexivity |]. split; [reflexivity |]. split; [reflexivity |].
  intros z pfn. apply sadump_page_path.
  - exact (sw_pages _ _ Hwf).
  - destruct (sw_cover _ _ Hwf) as [H1 H2]. unfold nbytes. lia.
  - intros k Hk.
    pose proof (len_page_data img (sw_pages _ _ Hwf)) as Hl.
    apply (single_extent_ok _ (page_data img) 0 (data_pos l)).
    + intros o n Hon. exact (rd_data l img Hwf o n Hon).
    + rewrite Hl. lia.
Qed.
