(** C01 for SADUMP, open paths: [sd_open] on the encoder's output - a single
    partition, a media backup, or a disk set - yields the state the page-path
    theorem needs, the geometry, and extents that lay out the page data. *)
From Coq Require Import NArith List Bool Lia Arith Permutation.
From KdV Require Import Fmt.Codec Fmt.CodecProofs Fmt.PfnModel Fmt.PfnProofs Fmt.PfnBridge Fmt.BitmapSpec Fmt.ImageSpec
     Fmt.SadumpModel Fmt.SadumpSpec Fmt.SadumpProofs.
Import ListNotations.
Local Open Scope N_scope.

(** * the magic numbers that delimit the partition header block *)
Definition nx (m : N) : N := (11 * (m + 7)) mod 2^32.

Fixpoint magic_nth (j : nat) (m : N) : N :=
  match j with O => m | S k => magic_nth k (nx m) end.

Lemma nx_lt m : nx m < 2^32.
Proof. unfold nx. apply N.mod_lt. discriminate. Qed.

Lemma len_magic_seq n : forall m, len (magic_seq n m) = 4 * N.of_nat n.
Proof.
  induction n as [| n IH]; intro m; [reflexivity |].
  cbn [magic_seq]. rewrite len_app, len_put32, IH. lia.
Qed.

(** the loop of [verify_magic_number] runs to the end of the sequence *)
Lemma magic_loop_run rd fidx f (Hrd : forall off n, rd fidx off n = read_of f off n) :
  forall k prev A rest fuel,
  f = A ++ put32 false prev ++ magic_seq k (nx prev) ++ rest ->
  (k < fuel)%nat -> prev < 2^32 ->
  get false (read_of rest 0 4) <> magic_nth (S k) prev ->
  magic_loop rd fuel fidx (len A) prev = Some (len A + 4 + 4 * N.of_nat k).
Proof.
  induction k as [| k IH]; intros prev A rest fuel Ef Hfuel Hprev Hbreak.
  - destruct fuel as [| fuel]; [lia |]. cbn [magic_loop].
    assert (Hw : get32 false (rd fidx (len A + 4) 4) 0 = get false (read_of rest 0 4)).
    { rewrite Hrd. rewrite get32_read by lia. rewrite Ef. cbn [magic_seq app].
      rewrite app_assoc. rewrite read_of_skip by (rewrite len_app, len_put32; lia).
      rewrite len_app, len_put32. f_equal. f_equal. lia. }
    rewrite Hw. cbn [magic_nth] in Hbreak. fold (nx prev).
    destruct (N.eqb_spec (get false (read_of rest 0 4)) (nx prev)); [contradiction |].
    cbn [negb N.of_nat]. f_equal. lia.
  - destruct fuel as [| fuel]; [lia |]. cbn [magic_loop].
    assert (Hw : get32 false (rd fidx (len A + 4) 4) 0 = nx prev).
    { rewrite Hrd. rewrite get32_read by lia. rewrite Ef. cbn [magic_seq].
      rewrite app_assoc, <- (app_assoc (put32 false (nx prev))).
      rewrite N.add_0_r. rewrite (read_of_section' (A ++ put32 false prev) (put32 false (nx prev))).
      - unfold put32. apply get_put. pose proof (nx_lt prev). cbn. lia.
      - rewrite len_app, len_put32. reflexivity.
      - now rewrite len_put32. }
    rewrite Hw. fold (nx prev). rewrite N.eqb_refl. cbn [negb].
    specialize (IH (nx prev) (A ++ put32 false prev) rest fuel).
    rewrite len_app, len_put32 in IH. rewrite IH.
    + f_equal. lia.
    + rewrite Ef. cbn [magic_seq]. now rewrite <- !app_assoc.
    + lia.
    + apply nx_lt.
    + exact Hbreak.
Qed.

(** * [setup_arch]: the CPU state loop *)
Lemma len_cpu_state l lma : 1000 <= sl_cpu_size l -> len (cpu_state l lma) = sl_cpu_size l.
Proof. intro H. unfold cpu_state. rewrite len_enc_flds. cbn [flds_len fld_len]. lia. Qed.

Lemma cpu_loop_run rd fidx f l (Hrd : forall off n, rd fidx off n = read_of f off n) :
  forall lmas B rest,
  1024 <= sl_cpu_size l ->
  f = B ++ flat_map (cpu_state l) lmas ++ rest ->
  cpu_loop rd (length lmas) fidx (len B) (sl_cpu_size l) = if existsb (fun b => b) lmas then 8 else 4.
Proof.
  induction lmas as [| b t IH]; intros B rest Hsz Ef; [reflexivity |].
  cbn [length cpu_loop existsb].
  assert (He : get64 false (rd fidx (len B) CPU_STATE_SIZE) CPU_STATE_EFER = if b then 1025 else 1).
  { rewrite Hrd. unfold CPU_STATE_SIZE, CPU_STATE_EFER.
    rewrite get64_read by lia. rewrite Ef. cbn [flat_map]. rewrite <- app_assoc.
    rewrite read_of_skip by lia. replace (len B + 992 - len B) with 992 by lia.
    unfold cpu_state at 1.
    apply get64_fld; [reflexivity | destruct b; reflexivity]. }
  rewrite He. destruct b.
  - reflexivity.
  - change (N.testbit 1 10) with false. cbv iota. cbn [orb].
    rewrite <- (len_cpu_state l false) at 1 by lia. rewrite <- len_app.
    apply (IH (B ++ cpu_state l false) rest); [assumption |]. rewrite Ef. cbn [flat_map]. now rewrite <- !app_assoc.
Qed.

(** * what every SADUMP layout must satisfy *)
Record sd_wf_base (l : sd_layout) (img : image) : Prop := {
  sw_bs : exists k, 8 <= k <= 20 /\ sl_block_size l = 2^k;
  sw_version : sl_version l <= 1;
  sw_mapnr : (sl_version l = 0 -> sl_max_mapnr l < 2^32) /\ sl_max_mapnr l < 2^64;
  sw_cpus : sl_lma l <> [] /\ nr_cpus l < 2^16;
  sw_cpusz : 1024 <= sl_cpu_size l /\ sl_cpu_size l * nr_cpus l < 2^32;
  sw_sub : 4 + 16 * nr_cpus l + sl_cpu_size l * nr_cpus l <= sl_sub_blocks l * sl_block_size l
           /\ sl_sub_blocks l < 2^32;
  sw_bitmaps : sl_bitmap_blocks l < 2^32 /\ sl_dumpable_blocks l < 2^32;
  sw_cover : sl_max_mapnr l <= 8 * (sl_dumpable_blocks l * sl_block_size l) /\
             N.of_nat (length img) <= sl_max_mapnr l;
  sw_pages : Forall (fun oc => match oc with Some c => len c = 4096 | None => True end) img;
  sw_ids : len (sl_ids l) = 48;
  sw_magic0 : sl_magic0 l < 2^32
}.

(** the magic number that would follow the last one of the partition header block *)
Definition next_magic (l : sd_layout) : N :=
  magic_nth (S (N.to_nat ((sl_block_size l - 168) / 4 - 1))) (sl_magic0 l).

(** * the file that carries the headers: the only file, or disk 1 of a set

    [pre] is what precedes the partition header (nothing, or the media
    header), [mid] what lies between the partition header block and the dump
    header (nothing, or the disk set header), [d1] the page data stored in
    this file. *)
Section Head.
  Variable l : sd_layout.
  Variable img : image.
  Variable rd : N -> N -> N -> bytes.
  Variable fi : N.                       (* index of this file in the set as passed *)
  Variable pre mid d1 vol : bytes.
  Variable disk : N.
  Hypothesis Hwf : sd_wf_base l img.

  Let bs := sl_block_size l.
  Let base := len pre.
  Let m := len mid.
  Let used := base + bs + m + body_len l + len d1.
  Let F := pre ++ part_header l disk vol used ++ mid ++ body l img ++ d1.
  Let n := N.to_nat ((bs - 168) / 4).
  Let cpus := nr_cpus l.

  Definition phf : list fld :=
    [ F32 1969512819; F32 28781; F32 1; F32 0; F32 0; F32 0; FB 64 [];
      FB 32 (sub (sl_ids l) 0 32); FB 16 vol; FB 16 (sub (sl_ids l) 32 16);
      F32 disk; F32 0; F64 used ].

  Lemma ph_is : part_header l disk vol used = enc_flds false phf ++ magic_seq n (sl_magic0 l).
  Proof. reflexivity. Qed.

  Lemma bs_facts : 256 <= bs <= 2^20 /\ bs = 168 + 4 * N.of_nat n /\ (1 <= n)%nat.
  Proof.
    destruct (sw_bs _ _ Hwf) as [k [[H1 H2] E]]. fold bs in E.
    assert (Hb : 256 <= bs <= 2^20).
    { rewrite E. change 256 with (2^8). split; apply N.pow_le_mono_r; lia. }
    assert (Hmod : bs mod 4 = 0).
    { rewrite E. replace k with (2 + (k - 2)) by lia. rewrite N.pow_add_r. change (2^2) with 4.
      rewrite N.mul_comm. apply N.mod_mul. discriminate. }
    assert (Hq : (bs - 168) mod 4 = 0).
    { pose proof (N.div_mod bs 4 ltac:(lia)) as D. rewrite Hmod, N.add_0_r in D.
      replace (bs - 168) with ((bs / 4 - 42) * 4) by lia. apply N.mod_mul. discriminate. }
    pose proof (N.div_mod (bs - 168) 4 ltac:(lia)) as D. rewrite Hq, N.add_0_r in D.
    split; [exact Hb |]. unfold n. split; [lia |].
    assert (22 <= (bs - 168) / 4) by (apply N.div_le_lower_bound; lia). lia.
  Qed.

  Lemma is_pow2_bs : SadumpModel.is_pow2 bs = true.
  Proof.
    destruct (sw_bs _ _ Hwf) as [k [Hk E]]. fold bs in E. rewrite E.
    assert (Hc : k = 8 \/ k = 9 \/ k = 10 \/ k = 11 \/ k = 12 \/ k = 13 \/ k = 14 \/ k = 15 \/ k = 16 \/
                 k = 17 \/ k = 18 \/ k = 19 \/ k = 20) by lia.
    repeat (destruct Hc as [-> | Hc]; [vm_compute; reflexivity |]). subst. vm_compute. reflexivity.
  Qed.

  Definition PHb : bytes := part_header l disk vol used.

  Lemma len_PHb : len PHb = bs.
  Proof.
    unfold PHb. rewrite ph_is, len_app, len_enc_flds, len_magic_seq. destruct bs_facts as [_ [E _]].
    cbn [flds_len fld_len phf]. lia.
  Qed.

  (** ** the sections behind the partition header *)
  Definition dhf : list fld :=
    [ FB 8 [115; 97; 100; 117; 109; 112; 0; 0]; F32 (sl_version l); F32 0;
      FB 16 (sub (sl_ids l) 32 16); F32 0; F32 0; F32 bs; F32 0;
      F32 (sl_sub_blocks l); F32 (sl_bitmap_blocks l); F32 (sl_dumpable_blocks l);
      F32 (N.min (sl_max_mapnr l) (2^32 - 1)); F32 0; F32 0; F32 0; F32 0; F32 cpus; F32 0;
      F64 (if 1 <=? sl_version l then sl_max_mapnr l else 0); F64 0; F64 0; F64 0 ].

  Definition subc : bytes :=
    put32 false (sl_cpu_size l * cpus) ++ zeros (16 * cpus) ++ flat_map (cpu_state l) (sl_lma l).

  Definition MB : bytes := bits_to_bytes true (N.to_nat (sl_bitmap_blocks l * bs)) (sl_mem_bits l).
  Definition DB : bytes := bits_to_bytes true (N.to_nat (sl_dumpable_blocks l * bs)) (map (@is_some bytes) img).

  Lemma len_btb mm k bits : len (bits_to_bytes mm k bits) = N.of_nat k.
  Proof. revert bits. induction k; intro bits; [reflexivity |]. cbn [bits_to_bytes]. rewrite len_cons, IHk. lia. Qed.

  Lemma len_subc : len subc = 4 + 16 * cpus + sl_cpu_size l * cpus.
  Proof.
    unfold subc. rewrite !len_app, len_put32, len_zeros.
    assert (H : forall lm, len (flat_map (cpu_state l) lm) = sl_cpu_size l * N.of_nat (length lm)).
    { induction lm as [| b t IH]; [cbn; lia |]. cbn [flat_map length]. rewrite len_app, IH.
      destruct (sw_cpusz _ _ Hwf) as [Hc _]. rewrite len_cpu_state by lia. lia. }
    rewrite H. unfold cpus, nr_cpus. lia.
  Qed.

  Definition DHb : bytes := enc_flds false dhf ++ zeros (bs - 120).
  Definition SUBb : bytes := subc ++ zeros (sl_sub_blocks l * bs - len subc).

  Lemma body_sections : body l img = DHb ++ SUBb ++ MB ++ DB.
  Proof.
    unfold body, DHb, SUBb. fold bs MB DB. rewrite <- !app_assoc.
    unfold dump_header. fold bs cpus. rewrite fit_small by (rewrite len_enc_flds; destruct bs_facts; cbn; lia).
    rewrite len_enc_flds. change (flds_len _) with 120. fold dhf. rewrite <- !app_assoc. do 2 f_equal.
    unfold sub_header. fold bs cpus subc.
    rewrite fit_small by (rewrite len_subc; apply (sw_sub _ _ Hwf)).
    now rewrite <- !app_assoc.
  Qed.

  Lemma F_sections : F = pre ++ PHb ++ mid ++ DHb ++ SUBb ++ MB ++ DB ++ d1.
  Proof. unfold F, PHb. rewrite body_sections, <- !app_assoc. reflexivity. Qed.

  Lemma len_DHb : len DHb = bs.
  Proof. unfold DHb. rewrite len_app, len_enc_flds, len_zeros. change (flds_len dhf) with 120. destruct bs_facts as [[H _] _]. lia. Qed.
  Lemma len_SUBb : len SUBb = sl_sub_blocks l * bs.
  Proof. unfold SUBb. rewrite len_app, len_zeros. pose proof (sw_sub _ _ Hwf) as [Hs _]. fold cpus bs in Hs. rewrite <- len_subc in Hs. lia. Qed.
  Lemma len_MB : len MB = sl_bitmap_blocks l * bs. Proof. unfold MB. rewrite len_btb. lia. Qed.
  Lemma len_DB : len DB = sl_dumpable_blocks l * bs. Proof. unfold DB. rewrite len_btb. lia. Qed.

  Lemma len_body : len (body l img) = body_len l.
  Proof. rewrite body_sections, !len_app, len_DHb, len_SUBb, len_MB, len_DB. unfold body_len. fold bs. lia. Qed.

  (** positions *)
  Definition hdr_pos : N := base + bs + m.
  Definition bmp_pos : N := hdr_pos + bs * (1 + sl_sub_blocks l) + bs * sl_bitmap_blocks l.
  Definition data_pos : N := bmp_pos + bs * sl_dumpable_blocks l.

  Lemma data_pos_is : data_pos = hdr_pos + body_len l.
  Proof. unfold data_pos, bmp_pos, body_len. fold bs. lia. Qed.

  Hypothesis Hrd : forall off k, rd fi off k = read_of F off k.

  Lemma sph_is : rd fi base SPH_SIZE = enc_flds false phf.
  Proof.
    rewrite Hrd. unfold F, base. rewrite <- (N.add_0_r (len pre)), read_of_skip_add.
    rewrite ph_is, <- !app_assoc. apply read_of_exact'. rewrite len_enc_flds. reflexivity.
  Qed.

  Lemma rd_mid : rd fi (base + bs) m = mid.
  Proof.
    rewrite Hrd, F_sections. unfold base. rewrite <- len_PHb, <- (N.add_0_r (len PHb)).
    rewrite !read_of_skip_add. apply read_of_exact'. reflexivity.
  Qed.

  Lemma rd_mid_part off k : off + k <= m -> rd fi (base + bs + off) k = read_of mid off k.
  Proof.
    intro H. rewrite Hrd, F_sections. unfold base. rewrite <- len_PHb, <- N.add_assoc.
    rewrite !read_of_skip_add. now apply read_of_prefix.
  Qed.

  Lemma rd_dh : rd fi hdr_pos SH_SIZE = enc_flds false dhf.
  Proof.
    rewrite Hrd, F_sections. unfold hdr_pos, base, m.
    replace (len pre + bs + len mid) with (len pre + (len PHb + (len mid + 0))) by (rewrite len_PHb; lia).
    rewrite !read_of_skip_add.
    unfold DHb. rewrite <- !app_assoc. apply read_of_exact'. rewrite len_enc_flds. reflexivity.
  Qed.

  Lemma rd_subc off k : off + k <= len subc -> rd fi (hdr_pos + bs + off) k = read_of subc off k.
  Proof.
    intro H. rewrite Hrd, F_sections. unfold hdr_pos, base, m.
    replace (len pre + bs + len mid + bs + off) with (len pre + (len PHb + (len mid + (len DHb + off))))
      by (rewrite len_PHb, len_DHb; lia).
    rewrite !read_of_skip_add. unfold SUBb. rewrite <- !app_assoc. now apply read_of_prefix.
  Qed.

  Lemma rd_db : rd fi bmp_pos (bs * sl_dumpable_blocks l) = DB.
  Proof.
    rewrite Hrd, F_sections.
    replace bmp_pos with (len pre + (len PHb + (len mid + (len DHb + (len SUBb + (len MB + 0))))))
      by (rewrite len_PHb, len_DHb, len_SUBb, len_MB; unfold bmp_pos, hdr_pos, base, m; lia).
    rewrite !read_of_skip_add. apply read_of_exact'. rewrite len_DB. lia.
  Qed.

  Lemma rd_data o k : o + k <= len d1 -> rd fi (data_pos + o) k = read_of d1 o k.
  Proof.
    intro H. rewrite Hrd, F_sections.
    replace (data_pos + o) with (len pre + (len PHb + (len mid + (len DHb + (len SUBb + (len MB + (len DB + o)))))))
      by (rewrite len_PHb, len_DHb, len_SUBb, len_MB, len_DB; unfold data_pos, bmp_pos, hdr_pos, base, m; lia).
    now rewrite !read_of_skip_add.
  Qed.

  (** ** [verify_magic_number] finds the block size *)
  Lemma magic_unfold : magic_seq n (sl_magic0 l) = put32 false (sl_magic0 l) ++ magic_seq (n - 1) (nx (sl_magic0 l)).
  Proof.
    destruct bs_facts as [_ [_ Hn]]. destruct n as [| k] eqn:E; [lia |].
    cbn [magic_seq]. replace (S k - 1)%nat with k by lia. reflexivity.
  Qed.

  Definition after_block : bytes := mid ++ DHb ++ SUBb ++ MB ++ DB ++ d1.

  Lemma F_magic :
    F = (pre ++ enc_flds false phf) ++ put32 false (sl_magic0 l) ++ magic_seq (n - 1) (nx (sl_magic0 l))
        ++ after_block.
  Proof. rewrite F_sections. unfold PHb, after_block. rewrite ph_is, magic_unfold, <- !app_assoc. reflexivity. Qed.

  (** the word that follows the partition header block is not the next magic number *)
  Hypothesis Hbreak : get false (read_of after_block 0 4) <> next_magic l.

  Lemma vmn : verify_magic_number rd fi base = Ok (base + bs).
  Proof.
    unfold verify_magic_number. destruct bs_facts as [[Hb1 Hb2] [Ebs Hn]].
    pose proof (sw_magic0 _ _ Hwf) as Hm0.
    assert (Hprev : get32 false (rd fi (base + SPH_SIZE) 4) 0 = sl_magic0 l).
    { rewrite Hrd, get32_read by lia. rewrite F_magic. unfold SPH_SIZE, base. rewrite N.add_0_r.
      rewrite (read_of_section' (pre ++ enc_flds false phf) (put32 false (sl_magic0 l)));
        [unfold put32; apply get_put; cbn; lia | rewrite len_app, len_enc_flds; reflexivity | now rewrite len_put32]. }
    rewrite Hprev.
    pose proof (magic_loop_run rd fi F Hrd (n - 1) (sl_magic0 l) (pre ++ enc_flds false phf) after_block
                  (N.to_nat 262144) F_magic) as Hrun.
    rewrite len_app, len_enc_flds in Hrun. change (flds_len phf) with 168 in Hrun. fold base in Hrun.
    unfold SPH_SIZE. rewrite Hrun.
    - replace (base + 168 + 4 + 4 * N.of_nat (n - 1)) with (base + bs) by lia.
      replace (base + bs - base) with bs by lia. rewrite is_pow2_bs. reflexivity.
    - change (2^20) with 1048576 in Hb2. lia.
    - exact Hm0.
    - replace (S (n - 1)) with (S (N.to_nat ((sl_block_size l - 168) / 4 - 1))); [exact Hbreak |].
      fold bs. unfold n. lia.
  Qed.

  (** ** [setup_arch] *)
  Definition ptr : N := if existsb (fun b => b) (sl_lma l) then 8 else 4.

  Lemma cpus_facts : cpus <> 0 /\ cpus < 2^16 /\ N.to_nat cpus = length (sl_lma l).
  Proof.
    destruct (sw_cpus _ _ Hwf) as [Hne Hlt]. unfold cpus, nr_cpus in Hlt |- *.
    split; [| split; [exact Hlt | lia]].
    intro E. apply Hne. apply length_zero_iff_nil. lia.
  Qed.

  Lemma setup_arch_ok : setup_arch rd fi (hdr_pos + bs) cpus = Ok ptr.
  Proof.
    unfold setup_arch. destruct cpus_facts as [Hnz [Hlt Hlen]].
    destruct (sw_cpusz _ _ Hwf) as [Hcs Hprod]. fold cpus in Hprod.
    destruct (N.eqb_spec cpus 0); [contradiction |].
    assert (Hsz : get32 false (rd fi (hdr_pos + bs) 4) 0 = sl_cpu_size l * cpus).
    { rewrite <- (N.add_0_r (hdr_pos + bs)). rewrite rd_subc by (rewrite len_subc; lia).
      unfold subc. rewrite (read_of_exact' (put32 false (sl_cpu_size l * cpus))) by (now rewrite len_put32).
      unfold get32. rewrite sub_all. unfold put32. apply get_put. cbn. lia. }
    rewrite Hsz, N.div_mul by assumption.
    destruct (N.ltb_spec (sl_cpu_size l) CPU_STATE_SIZE); [unfold CPU_STATE_SIZE in *; lia |].
    f_equal. rewrite Hlen.
    pose proof (cpu_loop_run rd fi F l Hrd (sl_lma l)
                  (pre ++ PHb ++ mid ++ DHb ++ put32 false (sl_cpu_size l * cpus) ++ zeros (16 * cpus))
                  (zeros (sl_sub_blocks l * bs - len subc) ++ MB ++ DB ++ d1) Hcs) as Hrun.
    rewrite !len_app, len_PHb, len_DHb, len_put32, len_zeros in Hrun.
    replace (hdr_pos + bs + 4 + cpus * 16) with (len pre + (bs + (len mid + (bs + (4 + 16 * cpus)))))
      by (unfold hdr_pos, base, m; lia).
    apply Hrun. rewrite F_sections. unfold SUBb, subc. now rewrite <- !app_assoc.
  Qed.

  (** ** the header fields *)
  Hypothesis Hvol : len vol = 16.
  Hypothesis Hdisk : disk < 2^32.
  Hypothesis Hused : used < 2^64.

  Lemma sph_fields :
    has_sig (enc_flds false phf) = true /\
    get64 false (enc_flds false phf) 160 = used /\
    get32 false (enc_flds false phf) 152 = disk /\
    sub (enc_flds false phf) 88 32 ++ sub (enc_flds false phf) 136 16 = sl_ids l /\
    sub (enc_flds false phf) 120 16 = vol.
  Proof.
    unfold has_sig.
    rewrite (get32_flds false phf 0 1969512819) by (try reflexivity; cbn; lia).
    rewrite (get32_flds false phf 4 28781) by (try reflexivity; cbn; lia).
    split; [reflexivity |]. split; [apply get64_flds; [reflexivity | assumption | cbn; lia] |].
    split; [apply get32_flds; [reflexivity | assumption | cbn; lia] |].
    rewrite (sub_flds false phf 88 32 (sub (sl_ids l) 0 32)) by (try reflexivity; cbn; lia).
    rewrite (sub_flds false phf 136 16 (sub (sl_ids l) 32 16)) by (try reflexivity; cbn; lia).
    rewrite (sub_flds false phf 120 16 vol) by (try reflexivity; cbn; lia).
    pose proof (sw_ids _ _ Hwf) as Hi.
    assert (H32 : len (sub (sl_ids l) 0 32) = 32).
    { unfold len at 1. rewrite sub_length by (rewrite Hi; lia). reflexivity. }
    assert (H16 : len (sub (sl_ids l) 32 16) = 16).
    { unfold len at 1. rewrite sub_length by (rewrite Hi; lia). reflexivity. }
    rewrite !fit_exact by assumption. split; [| reflexivity].
    unfold sub. cbn [N.to_nat skipn]. change (Pos.to_nat 32) with 32%nat. change (Pos.to_nat 16) with 16%nat.
    rewrite <- (firstn_skipn 32 (sl_ids l)) at 3. f_equal.
    apply firstn_all2. rewrite skipn_length. unfold len in Hi. lia.
  Qed.

  Lemma dh_fields :
    get32 false (enc_flds false dhf) 40 = bs /\
    get32 false (enc_flds false dhf) 80 = cpus /\
    (if get32 false (enc_flds false dhf) 8 <? 1 then get32 false (enc_flds false dhf) 60
     else get64 false (enc_flds false dhf) 88) = sl_max_mapnr l /\
    get32 false (enc_flds false dhf) 48 = sl_sub_blocks l /\
    get32 false (enc_flds false dhf) 52 = sl_bitmap_blocks l /\
    get32 false (enc_flds false dhf) 56 = sl_dumpable_blocks l.
  Proof.
    destruct bs_facts as [[_ Hb] _]. change (2^20) with 1048576 in Hb.
    destruct cpus_facts as [_ [Hc _]]. destruct (sw_mapnr _ _ Hwf) as [Hm0 Hm1].
    pose proof (sw_version _ _ Hwf) as Hv. destruct (sw_sub _ _ Hwf) as [_ Hsub].
    destruct (sw_bitmaps _ _ Hwf) as [Hbm Hdm].
    rewrite (get32_flds false dhf 40 bs) by (try reflexivity; cbn; lia).
    rewrite (get32_flds false dhf 80 cpus) by (try reflexivity; cbn; lia).
    rewrite (get32_flds false dhf 8 (sl_version l)) by (try reflexivity; cbn; lia).
    rewrite (get32_flds false dhf 48 (sl_sub_blocks l)) by (try reflexivity; cbn; lia).
    rewrite (get32_flds false dhf 52 (sl_bitmap_blocks l)) by (try reflexivity; cbn; lia).
    rewrite (get32_flds false dhf 56 (sl_dumpable_blocks l)) by (try reflexivity; cbn; lia).
    repeat split.
    destruct (N.ltb_spec (sl_version l) 1) as [H0 | H1].
    - rewrite (get32_flds false dhf 60 (N.min (sl_max_mapnr l) (2^32 - 1))) by (try reflexivity; cbn; lia).
      assert (sl_version l = 0) by lia. specialize (Hm0 H). lia.
    - assert (Hv1 : (1 <=? sl_version l) = true) by (apply N.leb_le; lia).
      rewrite (get64_flds false dhf 88 (sl_max_mapnr l));
        [reflexivity | unfold dhf; now rewrite Hv1 | assumption | cbn; lia].
  Qed.

  (** ** the tail of [open_common] *)
  Definition ext0 : extent := {| ex_pos := data_pos; ex_len := len d1; ex_fidx := fi |}.

  Lemma finish_ok a :
    pa_ptr a = None ->
    oc_finish rd fi bs used a hdr_pos =
    Ok {| pa_block_size := pa_block_size a; pa_ids := pa_ids a; pa_vol := pa_vol a; pa_seen := pa_seen a;
          pa_ext := set_nth (pa_ext a) 0 ext0; pa_ptr := Some ptr; pa_max_pfn := sl_max_mapnr l;
          pa_bmp_pos := bmp_pos |}.
  Proof.
    intro Hp. unfold oc_finish. rewrite rd_dh. destruct dh_fields as [Hbs [Hcp [Hmx [Hsb [Hbm Hdm]]]]].
    rewrite Hbs, N.eqb_refl. cbn [negb]. rewrite Hp, Hcp, setup_arch_ok, Hmx, Hsb, Hbm, Hdm.
    fold bmp_pos. fold data_pos.
    assert (Hlen : (used + 2^64 - data_pos) mod 2^64 = len d1).
    { rewrite data_pos_is. unfold used, hdr_pos.
      replace (base + bs + m + body_len l + len d1 + 2^64 - (base + bs + m + body_len l))
        with (len d1 + 1 * 2^64) by lia.
      rewrite N.mod_add by discriminate. apply N.mod_small. unfold used in Hused. lia. }
    rewrite Hlen. reflexivity.
  Qed.

  (** ** the tail of [sd_open]: [read_bitmap] and the state *)
  Definition nbytes : nat := N.to_nat (sl_dumpable_blocks l * bs).

  Lemma open_tail a rest nf :
    pa_ext a = ext0 :: rest -> pa_bmp_pos a = bmp_pos -> pa_max_pfn a = sl_max_mapnr l ->
    pa_block_size a = bs -> pa_ptr a = Some ptr ->
    (match pa_ext a with
     | [] => Err ERR_UNMODELLED
     | e0 :: _ =>
         let bmp_len := ex_pos e0 - pa_bmp_pos a in
         let max_bmp_pfn := bmp_len * 8 in
         let max_pfn := if max_bmp_pfn <? pa_max_pfn a then max_bmp_pfn else pa_max_pfn a in
         let bm := rd (ex_fidx e0) (pa_bmp_pos a) bmp_len in
         match regions_of true (pa_bmp_pos a mod 4) bm 0 max_bmp_pfn 0 SADUMP_PAGE_SIZE with
         | Err e => Err e
         | Ok rgns =>
             Ok {| sd_block_size := pa_block_size a;
                   sd_ptr_size := match pa_ptr a with Some p => p | None => 0 end;
                   sd_max_pfn := max_pfn;
                   sd_regions := rgns;
                   sd_ext := pa_ext a; sd_nfiles := nf |}
         end
     end) = Ok (the_state img nbytes (ext0 :: rest) (sl_max_mapnr l) bs ptr nf).
  Proof.
    intros He Hb Hm Hbs Hp. rewrite He, Hb, Hm, Hbs, Hp. cbn [ext0 ex_pos ex_fidx].
    replace (data_pos - bmp_pos) with (bs * sl_dumpable_blocks l) by (unfold data_pos; lia).
    destruct (sw_cover _ _ Hwf) as [Hcov _]. fold bs in Hcov.
    destruct (N.ltb_spec (bs * sl_dumpable_blocks l * 8) (sl_max_mapnr l)); [lia |].
    rewrite rd_db.
    (* the word-level MSB-0 scanner on the packed bitmap gives the runs of the bit walk *)
    rewrite regions_of_spec.
    - unfold the_state, bm. fold DB. unfold nbytes.
      replace (N.of_nat (8 * N.to_nat (sl_dumpable_blocks l * bs))) with (bs * sl_dumpable_blocks l * 8) by lia.
      reflexivity.
    - apply bits_to_bytes_ok.
    - rewrite len_DB.
      assert ((bs * sl_dumpable_blocks l * 8 + 7) / 8 < sl_dumpable_blocks l * bs + 1)
        by (apply N.div_lt_upper_bound; lia). lia.
  Qed.

  (** ** [open_common] on this file *)
  Lemma beqb_refl x : SadumpModel.bytes_eqb x x = true.
  Proof. apply (bytes_eqb_refl_gen SadumpModel.bytes_eqb). reflexivity. Qed.

  Definition acc_head (a : probe_acc) : probe_acc :=
    {| pa_block_size := bs; pa_ids := sl_ids l; pa_vol := pa_vol a; pa_seen := pa_seen a;
       pa_ext := pa_ext a; pa_ptr := pa_ptr a; pa_max_pfn := pa_max_pfn a; pa_bmp_pos := pa_bmp_pos a |}.

  (** a single partition or a media backup: no disk-set bookkeeping *)
  Lemma oc_plain a smh :
    fi = 0 -> mid = [] -> (disk = 0 \/ smh <> None) ->
    match smh with Some mh => sub mh 0 48 = sl_ids l | None => True end ->
    pa_ptr a = None ->
    open_common rd 1 fi a smh (enc_flds false phf) base =
    Ok {| pa_block_size := bs; pa_ids := sl_ids l; pa_vol := pa_vol a; pa_seen := pa_seen a;
          pa_ext := set_nth (pa_ext a) 0 ext0; pa_ptr := Some ptr; pa_max_pfn := sl_max_mapnr l;
          pa_bmp_pos := bmp_pos |}.
  Proof.
    intros Hfi Hmid Hsds Hm Hp. unfold open_common.
    destruct sph_fields as [_ [Hu [Hd [Hids Hv]]]]. rewrite Hids, Hu, Hd.
    assert (Hmok : (match smh with Some mh => SadumpModel.bytes_eqb (sub mh 0 48) (sl_ids l) | None => true end) = true).
    { destruct smh as [mh |]; [rewrite Hm; apply beqb_refl | reflexivity]. }
    rewrite Hmok. cbn [negb]. rewrite vmn.
    replace (base + bs - base) with bs by lia.
    assert (Hz0 : (fi =? 0) = true) by (rewrite Hfi; reflexivity). rewrite Hz0. cbn [negb andb]. cbv iota.
    assert (Hz : (match smh with Some _ => 0 | None => disk end) = 0).
    { destruct smh; [reflexivity |]. destruct Hsds as [-> | H]; [reflexivity | contradiction]. }
    rewrite Hz. change (0 =? 0) with true. cbv iota. change (1 <? 1) with false. cbv iota.
    fold (acc_head a).
    pose proof (finish_ok (acc_head a) Hp) as Hf. unfold hdr_pos, m in Hf. rewrite Hmid in Hf.
    rewrite len_nil, N.add_0_r in Hf. rewrite Hf. unfold acc_head. reflexivity.
  Qed.

  (** disk 1 of a set, at any position among the files: volume id, disk set
      header, then as above *)
  Lemma oc_set a nfiles vol' :
    disk = 1 -> 1 <= nfiles -> pa_ptr a = None -> nth 0 (pa_seen a) false = false ->
    (fi = 0 \/ (pa_block_size a = bs /\ pa_ids a = sl_ids l)) ->
    init_disk_set rd fi (base + bs) bs nfiles
      {| pa_block_size := bs; pa_ids := sl_ids l; pa_vol := set_nth (pa_vol a) 0 (Some vol);
         pa_seen := pa_seen a; pa_ext := pa_ext a; pa_ptr := pa_ptr a; pa_max_pfn := pa_max_pfn a;
         pa_bmp_pos := pa_bmp_pos a |} = Ok (hdr_pos, vol') ->
    open_common rd nfiles fi a None (enc_flds false phf) base =
    Ok {| pa_block_size := bs; pa_ids := sl_ids l; pa_vol := vol'; pa_seen := set_nth (pa_seen a) 0 true;
          pa_ext := set_nth (pa_ext a) 0 ext0; pa_ptr := Some ptr; pa_max_pfn := sl_max_mapnr l;
          pa_bmp_pos := bmp_pos |}.
  Proof.
    intros Hd1 Hnf Hp Hseen Hfirst Hinit. unfold open_common.
    destruct sph_fields as [_ [Hu [Hd [Hids Hv]]]]. rewrite Hids, Hu, Hd, Hv.
    cbn [negb]. rewrite vmn. replace (base + bs - base) with bs by lia.
    assert (Hacc : (if fi =? 0
                    then {| pa_block_size := bs; pa_ids := sl_ids l; pa_vol := pa_vol a; pa_seen := pa_seen a;
                            pa_ext := pa_ext a; pa_ptr := pa_ptr a; pa_max_pfn := pa_max_pfn a;
                            pa_bmp_pos := pa_bmp_pos a |}
                    else a) = acc_head a).
    { destruct (fi =? 0) eqn:E; [reflexivity |]. destruct Hfirst as [-> | [Hb1 Hb2]]; [discriminate E |].
      unfold acc_head. rewrite <- Hb1, <- Hb2. destruct a; reflexivity. }
    assert (Hchk : (negb (fi =? 0) && negb (pa_block_size a =? bs) = false) /\
                   (negb (fi =? 0) && negb (SadumpModel.bytes_eqb (pa_ids a) (sl_ids l)) = false)).
    { destruct Hfirst as [-> | [Hb1 Hb2]]; [split; reflexivity |].
      rewrite Hb1, Hb2, N.eqb_refl, beqb_refl. split; apply andb_false_r. }
    destruct Hchk as [Hc1 Hc2]. rewrite Hc1, Hc2, Hacc.
    rewrite Hd1. change (1 =? 0) with false. cbv iota.
    destruct (N.ltb_spec nfiles 1); [lia |].
    change (N.to_nat (1 - 1)) with 0%nat.
    cbn [acc_head pa_seen pa_vol pa_block_size pa_ids pa_ext pa_ptr pa_max_pfn pa_bmp_pos].
    rewrite Hseen. unfold process_vol_id, acc_head. cbn [pa_seen pa_vol]. rewrite Hseen.
    change (1 <? 1) with false. cbv iota.
    cbn [pa_seen pa_vol pa_block_size pa_ids pa_ext pa_ptr pa_max_pfn pa_bmp_pos].
    rewrite Hinit.
    match goal with |- oc_finish rd fi bs used ?acc hdr_pos = _ =>
      pose proof (finish_ok acc Hp) as Hf end.
    rewrite Hf. reflexivity.
  Qed.
End Head.

Lemma after_block_plain l img d1 : get false (read_of (after_block l img [] d1) 0 4) = 1969512819.
Proof.
  unfold after_block, DHb. cbn [app].
  change (enc_flds false (dhf l)) with ([115; 97; 100; 117] ++ ([109; 112; 0; 0] ++ enc_flds false (tl (dhf l)))).
  rewrite <- !app_assoc. rewrite (read_of_exact' [115; 97; 100; 117]) by reflexivity. reflexivity.
Qed.

Definition a0 (nfiles : nat) : probe_acc :=
  {| pa_block_size := 0; pa_ids := []; pa_vol := repeat None nfiles; pa_seen := repeat false nfiles;
     pa_ext := repeat {| ex_pos := 0; ex_len := 0; ex_fidx := 0 |} nfiles;
     pa_ptr := None; pa_max_pfn := 0; pa_bmp_pos := 0 |}.

(** * a single partition *)
Record sd_wf (l : sd_layout) (img : image) : Prop := {
  sw_base : sd_wf_base l img;
  sw_kind : sl_kind l = SdSingle;
  sw_vol : len (nth 0 (sl_vol_ids l) []) = 16;
  sw_magic : 1969512819 <> next_magic l;
  sw_size : len (hd [] (encode_sadump l img)) < 2^64
}.

Section Single.
  Variable l : sd_layout.
  Variable img : image.
  Hypothesis Hwf : sd_wf l img.

  Let bs := sl_block_size l.
  Let data := page_data img.
  Let vol := nth 0 (sl_vol_ids l) [].
  Let F := part_header l 0 vol (bs + body_len l + len data) ++ body l img ++ data.
  Let rd := read_files [F].

  Lemma enc_single : encode_sadump l img = [F].
  Proof. unfold encode_sadump. rewrite (sw_kind _ _ Hwf). reflexivity. Qed.

  Let usedH := len (@nil N) + bs + len (@nil N) + body_len l + len data.

  Lemma usedH_is : usedH = bs + body_len l + len data.
  Proof. unfold usedH. rewrite len_nil. lia. Qed.

  Lemma rd_head off k : rd 0 off k = read_of ([] ++ part_header l 0 vol usedH ++ [] ++ body l img ++ data) off k.
  Proof. rewrite usedH_is. reflexivity. Qed.

  Lemma used_small : usedH < 2^64.
  Proof.
    pose proof (sw_size _ _ Hwf) as H. rewrite enc_single in H. cbn [hd] in H. unfold F in H.
    rewrite !len_app in H.
    rewrite (len_body l img rd [] [] [] (sw_base _ _ Hwf)) in H.
    pose proof (len_PHb l img rd [] [] data vol 0 (sw_base _ _ Hwf)) as Hp. unfold PHb in Hp.
    change (len (@nil N) + sl_block_size l + len (@nil N) + body_len l + len data) with usedH in Hp.
    rewrite usedH_is in Hp. rewrite Hp in H. rewrite usedH_is. fold bs in H. lia.
  Qed.

  Lemma break_single : get false (read_of (after_block l img [] data) 0 4) <> next_magic l.
  Proof. rewrite after_block_plain. exact (sw_magic _ _ Hwf). Qed.

  Theorem sd_open_single :
    sd_open rd 1 =
    Ok (the_state img (nbytes l) [ext0 l 0 [] [] data] (sl_max_mapnr l) bs (ptr l) 1).
  Proof.
    pose proof (sw_base _ _ Hwf) as Hb. pose proof (sw_vol _ _ Hwf) as Hv. fold vol in Hv.
    assert (Hd : 0 < 2^32) by reflexivity.
    unfold sd_open. cbn [N.of_nat Pos.of_succ_nat probe_files]. fold (a0 1).
    unfold probe_file.
    pose proof (sph_is l img rd 0 [] [] data vol 0 rd_head) as Hs. change (len []) with 0 in Hs.
    rewrite Hs.
    destruct (sph_fields l img rd 0 [] [] data vol 0 Hb rd_head break_single Hv Hd used_small) as [Hsig _].
    rewrite Hsig.
    pose proof (oc_plain l img rd 0 [] [] data vol 0 Hb rd_head break_single Hv Hd used_small (a0 1) None
                  eq_refl eq_refl (or_introl eq_refl) I eq_refl) as Ho.
    change (len []) with 0 in Ho. rewrite Ho. cbv beta iota.
    apply (open_tail l img rd 0 [] [] data vol 0 Hb rd_head break_single Hv Hd used_small _ []); reflexivity.
  Qed.
End Single.

Theorem sadump_single_roundtrip l img :
  sd_wf l img ->
  exists st, sd_open (read_files (encode_sadump l img)) 1 = Ok st /\
    sd_ptr_size st = (if existsb (fun b => b) (sl_lma l) then 8 else 4) /\
    sd_max_pfn st = sl_max_mapnr l /\ sd_block_size st = sl_block_size l /\
    forall z pfn,
      sd_read_page (read_files (encode_sadump l img)) st z pfn =
      spec_read_page img SADUMP_PAGE_SIZE (sl_max_mapnr l) z pfn.
Proof.
  intro Hwf. rewrite (enc_single l img Hwf). pose proof (sw_base _ _ Hwf) as Hb.
  eexists. split; [exact (sd_open_single l img Hwf) |].
  split; [reflexivity |]. split; [reflexivity |]. split; [reflexivity |].
  intros z pfn. apply sadump_page_path.
  - exact (sw_pages _ _ Hb).
  - destruct (sw_cover _ _ Hb) as [H1 H2]. unfold nbytes. lia.
  - intros k Hk.
    pose proof (len_page_data img (sw_pages _ _ Hb)) as Hl.
    apply (single_extent_ok _ (page_data img) 0 (data_pos l [] [])).
    + intros o n Hon. apply (rd_data l img _ 0 [] [] (page_data img) (nth 0 (sl_vol_ids l) []) 0 Hb).
      * apply rd_head.
      * exact Hon.
    + rewrite Hl. lia.
Qed.

(** * a media backup: the same behind a 4096-byte media header *)
Record sd_wf_media (l : sd_layout) (img : image) : Prop := {
  sm_base : sd_wf_base l img;
  sm_kind : sl_kind l = SdMedia;
  sm_vol : len (nth 0 (sl_vol_ids l) []) = 16;
  sm_magic : 1969512819 <> next_magic l;
  (* the file must not look like a partition header where the media header is *)
  sm_nosig : has_sig (read_of (media_header l) 0 168) = false;
  sm_size : len (hd [] (encode_sadump l img)) < 2^64
}.

Section Media.
  Variable l : sd_layout.
  Variable img : image.
  Hypothesis Hwf : sd_wf_media l img.

  Let bs := sl_block_size l.
  Let data := page_data img.
  Let vol := nth 0 (sl_vol_ids l) [].
  Let MH := media_header l.
  Let F := MH ++ part_header l 0 vol (4096 + bs + body_len l + len data) ++ body l img ++ data.
  Let rd := read_files [F].

  Lemma enc_media : encode_sadump l img = [F].
  Proof. unfold encode_sadump. rewrite (sm_kind _ _ Hwf). reflexivity. Qed.

  Lemma len_MH : len MH = 4096. Proof. apply len_fit. Qed.

  Let usedH := len MH + bs + len (@nil N) + body_len l + len data.

  Lemma usedM_is : usedH = 4096 + bs + body_len l + len data.
  Proof. unfold usedH. rewrite len_nil, len_MH. lia. Qed.

  Lemma rd_headM off k : rd 0 off k = read_of (MH ++ part_header l 0 vol usedH ++ [] ++ body l img ++ data) off k.
  Proof. rewrite usedM_is. reflexivity. Qed.

  Lemma used_smallM : usedH < 2^64.
  Proof.
    pose proof (sm_size _ _ Hwf) as H. rewrite enc_media in H. cbn [hd] in H. unfold F in H.
    rewrite !len_app in H.
    rewrite (len_body l img rd [] [] [] (sm_base _ _ Hwf)) in H.
    pose proof (len_PHb l img rd MH [] data vol 0 (sm_base _ _ Hwf)) as Hp. unfold PHb in Hp.
    change (len MH + sl_block_size l + len (@nil N) + body_len l + len data) with usedH in Hp.
    rewrite usedM_is in Hp. rewrite Hp, len_MH in H. rewrite usedM_is. fold bs in H. lia.
  Qed.

  Lemma break_media : get false (read_of (after_block l img [] data) 0 4) <> next_magic l.
  Proof. rewrite after_block_plain. exact (sm_magic _ _ Hwf). Qed.

  (** the media header repeats the ids of the partition header *)
  Lemma media_ids : sub (rd 0 0 SMH_SIZE) 0 48 = sl_ids l.
  Proof.
    pose proof (sw_ids _ _ (sm_base _ _ Hwf)) as Hi.
    unfold SMH_SIZE. rewrite rd_headM. rewrite sub_read_of by lia. rewrite N.add_0_l.
    rewrite read_of_prefix by (rewrite len_MH; lia).
    unfold MH, media_header.
    set (fs := [FB 32 (sub (sl_ids l) 0 32); FB 16 (sub (sl_ids l) 32 16); FB 1 [1]; FB 1 [0]; FB 1 [0]; FB 1 [1]]).
    rewrite fit_small by (rewrite len_enc_flds; cbn; lia).
    rewrite read_of_prefix by (rewrite len_enc_flds; cbn; lia).
    change 48 with (32 + 16). rewrite read_of_add.
    rewrite <- (app_nil_r (enc_flds false fs)).
    pose proof (read_fld false fs [] 0 (FB 32 (sub (sl_ids l) 0 32)) eq_refl) as R1.
    pose proof (read_fld false fs [] 32 (FB 16 (sub (sl_ids l) 32 16)) eq_refl) as R2.
    cbn [fld_len enc_fld] in R1, R2. change (0 + 32) with 32. rewrite R1, R2.
    assert (H32 : len (sub (sl_ids l) 0 32) = 32).
    { unfold len at 1. rewrite sub_length by (rewrite Hi; lia). reflexivity. }
    assert (H16 : len (sub (sl_ids l) 32 16) = 16).
    { unfold len at 1. rewrite sub_length by (rewrite Hi; lia). reflexivity. }
    rewrite !fit_exact by assumption.
    unfold sub. cbn [N.to_nat skipn]. change (Pos.to_nat 32) with 32%nat. change (Pos.to_nat 16) with 16%nat.
    rewrite <- (firstn_skipn 32 (sl_ids l)) at 3. f_equal.
    apply firstn_all2. rewrite skipn_length. unfold len in Hi. lia.
  Qed.

  Theorem sd_open_media :
    sd_open rd 1 =
    Ok (the_state img (nbytes l) [ext0 l 0 MH [] data] (sl_max_mapnr l) bs (ptr l) 1).
  Proof.
    pose proof (sm_base _ _ Hwf) as Hb. pose proof (sm_vol _ _ Hwf) as Hv. fold vol in Hv.
    assert (Hd : 0 < 2^32) by reflexivity.
    unfold sd_open. cbn [N.of_nat Pos.of_succ_nat probe_files]. fold (a0 1).
    unfold probe_file.
    assert (Hnosig : has_sig (rd 0 0 SPH_SIZE) = false).
    { rewrite rd_headM. unfold SPH_SIZE. rewrite read_of_prefix by (rewrite len_MH; lia).
      exact (sm_nosig _ _ Hwf). }
    rewrite Hnosig.
    pose proof (sph_is l img rd 0 MH [] data vol 0 rd_headM) as Hs. rewrite len_MH in Hs.
    unfold DEFAULT_BLOCK_SIZE. rewrite Hs.
    destruct (sph_fields l img rd 0 MH [] data vol 0 Hb rd_headM break_media Hv Hd used_smallM) as [Hsig _].
    rewrite Hsig.
    assert (Hne : Some (rd 0 0 SMH_SIZE) <> None) by (intro Hx; inversion Hx).
    pose proof (oc_plain l img rd 0 MH [] data vol 0 Hb rd_headM break_media Hv Hd used_smallM (a0 1)
                  (Some (rd 0 0 SMH_SIZE)) eq_refl eq_refl (or_intror Hne) media_ids eq_refl) as Ho.
    rewrite len_MH in Ho. rewrite Ho. cbv beta iota.
    apply (open_tail l img rd 0 MH [] data vol 0 Hb rd_headM break_media Hv Hd used_smallM _ []); reflexivity.
  Qed.
End Media.

Theorem sadump_media_roundtrip l img :
  sd_wf_media l img ->
  exists st, sd_open (read_files (encode_sadump l img)) 1 = Ok st /\
    sd_ptr_size st = (if existsb (fun b => b) (sl_lma l) then 8 else 4) /\
    sd_max_pfn st = sl_max_mapnr l /\ sd_block_size st = sl_block_size l /\
    forall z pfn,
      sd_read_page (read_files (encode_sadump l img)) st z pfn =
      spec_read_page img SADUMP_PAGE_SIZE (sl_max_mapnr l) z pfn.
Proof.
  intro Hwf. rewrite (enc_media l img Hwf). pose proof (sm_base _ _ Hwf) as Hb.
  eexists. split; [exact (sd_open_media l img Hwf) |].
  split; [reflexivity |]. split; [reflexivity |]. split; [reflexivity |].
  intros z pfn. apply sadump_page_path.
  - exact (sw_pages _ _ Hb).
  - destruct (sw_cover _ _ Hb) as [H1 H2]. unfold nbytes. lia.
  - intros k Hk.
    pose proof (len_page_data img (sw_pages _ _ Hb)) as Hl.
    apply (single_extent_ok _ (page_data img) 0 (data_pos l (media_header l) [])).
    + intros o n Hon. apply (rd_data l img _ 0 (media_header l) [] (page_data img) (nth 0 (sl_vol_ids l) []) 0 Hb).
      * apply rd_headM.
      * exact Hon.
    + rewrite Hl. lia.
Qed.

(** * disk sets *)

(** ** list bookkeeping of [open_common] *)
Lemma set_nth_length {A} (x : A) : forall l k, length (SadumpModel.set_nth l k x) = length l.
Proof. induction l as [| h t IH]; intros [| k]; cbn [SadumpModel.set_nth length]; auto. Qed.

Lemma nth_set_nth_eq {A} (x d : A) : forall l k, (k < length l)%nat -> nth k (SadumpModel.set_nth l k x) d = x.
Proof.
  induction l as [| h t IH]; intros [| k] H; cbn [SadumpModel.set_nth nth length] in *; try lia; [reflexivity |].
  apply IH. lia.
Qed.

Lemma nth_set_nth_ne {A} (x d : A) : forall l k j, j <> k -> nth j (SadumpModel.set_nth l k x) d = nth j l d.
Proof.
  induction l as [| h t IH]; intros [| k] [| j] H; cbn [SadumpModel.set_nth nth]; try reflexivity; try lia.
  apply IH. lia.
Qed.

Lemma set_nth_app {A} (x y : A) a b : SadumpModel.set_nth (a ++ y :: b) (length a) x = a ++ x :: b.
Proof. induction a as [| h t IH]; cbn [app length SadumpModel.set_nth]; [reflexivity | now rewrite IH]. Qed.

Lemma set_nth_app' {A} (x y : A) a b k : length a = k -> SadumpModel.set_nth (a ++ y :: b) k x = a ++ x :: b.
Proof. intros <-. apply set_nth_app. Qed.

Lemma map_seq_head {A} (f : nat -> A) m : (1 <= m)%nat -> map f (seq 0 m) = f 0%nat :: tl (map f (seq 0 m)).
Proof. destruct m; [lia | reflexivity]. Qed.

Lemma map_fst_combine {A B} : forall (a : list A) (b : list B), length a = length b -> map fst (combine a b) = a.
Proof. induction a as [| x a IH]; intros [| y b] H; cbn in *; try lia; [reflexivity |]. f_equal. apply IH. lia. Qed.

Lemma map_snd_combine {A B} : forall (a : list A) (b : list B), length a = length b -> map snd (combine a b) = b.
Proof. induction a as [| x a IH]; intros [| y b] H; cbn in *; try lia; [reflexivity |]. f_equal. apply IH. lia. Qed.

Lemma set_nth_repeat0 {A} (x y : A) m : (1 <= m)%nat ->
  SadumpModel.set_nth (repeat x m) 0 y = y :: repeat x (m - 1).
Proof. destruct m; [lia |]. intros _. cbn [repeat SadumpModel.set_nth]. replace (S m - 1)%nat with m by lia. reflexivity. Qed.

Lemma nth_in_tl {A} (l : list A) d k : (1 <= k < length l)%nat -> In (nth k l d) (tl l).
Proof.
  destruct l as [| h t]; [cbn; lia |]. destruct k; [lia |]. cbn [length tl nth]. intro H. apply nth_In. lia.
Qed.

(** ** a later disk of the set: partition header, then page data *)
Definition phfG (l : sd_layout) (disk : N) (vol : bytes) (used : N) : list fld :=
  [ F32 1969512819; F32 28781; F32 1; F32 0; F32 0; F32 0; FB 64 [];
    FB 32 (sub (sl_ids l) 0 32); FB 16 vol; FB 16 (sub (sl_ids l) 32 16);
    F32 disk; F32 0; F64 used ].

Section Later.
  Variable l : sd_layout.
  Variable img : image.
  Variable rd : N -> N -> N -> bytes.
  Variable fidx nfiles dk_idx : N.      (* position of the file; files in the set; disk number - 1 *)
  Variable vol dk : bytes.
  Hypothesis Hb : sd_wf_base l img.

  Let bs := sl_block_size l.
  Let used := bs + len dk.
  Let disk := dk_idx + 1.
  Let F := part_header l disk vol used ++ dk.
  Let n := N.to_nat ((bs - 168) / 4).

  Hypothesis Hrd : forall off k, rd fidx off k = read_of F off k.

  Lemma phL_is : part_header l disk vol used = enc_flds false (phfG l disk vol used) ++ magic_seq n (sl_magic0 l).
  Proof. reflexivity. Qed.

  Lemma len_phL : len (part_header l disk vol used) = bs.
  Proof.
    rewrite phL_is, len_app, len_enc_flds, len_magic_seq.
    destruct (bs_facts l img rd [] [] [] Hb) as [_ [E _]]. fold bs n in E. cbn [flds_len fld_len phfG]. lia.
  Qed.

  Lemma sphL_is : rd fidx 0 SPH_SIZE = enc_flds false (phfG l disk vol used).
  Proof.
    rewrite Hrd. unfold F. rewrite phL_is, <- !app_assoc. apply read_of_exact'. rewrite len_enc_flds. reflexivity.
  Qed.

  Lemma rd_dataL o k : o + k <= len dk -> rd fidx (bs + o) k = read_of dk o k.
  Proof. intro H. rewrite Hrd. unfold F. rewrite <- len_phL. now rewrite read_of_skip_add. Qed.

  Hypothesis Hbreak : get false (read_of dk 0 4) <> next_magic l.

  Lemma vmnL : verify_magic_number rd fidx 0 = Ok bs.
  Proof.
    unfold verify_magic_number. destruct (bs_facts l img rd [] [] [] Hb) as [[Hb1 Hb2] [Ebs Hn]]. fold bs n in Hb1, Hb2, Ebs, Hn.
    pose proof (sw_magic0 _ _ Hb) as Hm0.
    assert (Hmu : magic_seq n (sl_magic0 l) = put32 false (sl_magic0 l) ++ magic_seq (n - 1) (nx (sl_magic0 l))).
    { destruct n as [| k] eqn:E; [lia |]. cbn [magic_seq]. replace (S k - 1)%nat with k by lia. reflexivity. }
    assert (HF : F = enc_flds false (phfG l disk vol used) ++ put32 false (sl_magic0 l)
                     ++ magic_seq (n - 1) (nx (sl_magic0 l)) ++ dk).
    { unfold F. rewrite phL_is, Hmu, <- !app_assoc. reflexivity. }
    assert (Hprev : get32 false (rd fidx (0 + SPH_SIZE) 4) 0 = sl_magic0 l).
    { rewrite Hrd, get32_read by lia. rewrite HF. unfold SPH_SIZE. rewrite N.add_0_l, N.add_0_r.
      rewrite (read_of_section' (enc_flds false (phfG l disk vol used)) (put32 false (sl_magic0 l)));
        [unfold put32; apply get_put; cbn; lia | rewrite len_enc_flds; reflexivity | now rewrite len_put32]. }
    rewrite Hprev.
    pose proof (magic_loop_run rd fidx F Hrd (n - 1) (sl_magic0 l) (enc_flds false (phfG l disk vol used)) dk
                  (N.to_nat 262144) HF) as Hrun.
    rewrite len_enc_flds in Hrun. change (flds_len (phfG l disk vol used)) with 168 in Hrun.
    unfold SPH_SIZE. rewrite N.add_0_l. rewrite Hrun.
    - replace (168 + 4 + 4 * N.of_nat (n - 1)) with bs by lia.
      rewrite N.sub_0_r. unfold bs. rewrite (is_pow2_bs l img rd [] [] [] Hb). reflexivity.
    - change (2^20) with 1048576 in Hb2. lia.
    - exact Hm0.
    - replace (S (n - 1)) with (S (N.to_nat ((sl_block_size l - 168) / 4 - 1))); [exact Hbreak |].
      fold bs. unfold n. lia.
  Qed.

  Hypothesis Hvol : len vol = 16.
  Hypothesis Hfidx : 1 <= dk_idx /\ dk_idx < nfiles /\ nfiles < 2^32.
  Hypothesis Hused : used < 2^64.

  Lemma sphL_fields :
    has_sig (enc_flds false (phfG l disk vol used)) = true /\
    get64 false (enc_flds false (phfG l disk vol used)) 160 = used /\
    get32 false (enc_flds false (phfG l disk vol used)) 152 = disk /\
    sub (enc_flds false (phfG l disk vol used)) 88 32 ++ sub (enc_flds false (phfG l disk vol used)) 136 16 = sl_ids l /\
    sub (enc_flds false (phfG l disk vol used)) 120 16 = vol.
  Proof.
    unfold has_sig. set (fs := phfG l disk vol used).
    rewrite (get32_flds false fs 0 1969512819) by (try reflexivity; cbn; lia).
    rewrite (get32_flds false fs 4 28781) by (try reflexivity; cbn; lia).
    split; [reflexivity |]. split; [apply get64_flds; [reflexivity | assumption | cbn; lia] |].
    split; [apply get32_flds; [reflexivity | unfold disk; lia | cbn; lia] |].
    rewrite (sub_flds false fs 88 32 (sub (sl_ids l) 0 32)) by (try reflexivity; cbn; lia).
    rewrite (sub_flds false fs 136 16 (sub (sl_ids l) 32 16)) by (try reflexivity; cbn; lia).
    rewrite (sub_flds false fs 120 16 vol) by (try reflexivity; cbn; lia).
    pose proof (sw_ids _ _ Hb) as Hi.
    assert (H32 : len (sub (sl_ids l) 0 32) = 32).
    { unfold len at 1. rewrite sub_length by (rewrite Hi; lia). reflexivity. }
    assert (H16 : len (sub (sl_ids l) 32 16) = 16).
    { unfold len at 1. rewrite sub_length by (rewrite Hi; lia). reflexivity. }
    rewrite !fit_exact by assumption. split; [| reflexivity].
    unfold sub. cbn [N.to_nat skipn]. change (Pos.to_nat 32) with 32%nat. change (Pos.to_nat 16) with 16%nat.
    rewrite <- (firstn_skipn 32 (sl_ids l)) at 3. f_equal.
    apply firstn_all2. rewrite skipn_length. unfold len in Hi. lia.
  Qed.

  Definition extL : extent := {| ex_pos := bs; ex_len := len dk; ex_fidx := fidx |}.
  Let k := N.to_nat dk_idx.

  (** [probe_file] on this file, wherever it comes in the set: its extent goes
      into the slot of its disk number; its volume id is compared with the disk
      set header's entry if disk 1 has been seen, remembered otherwise *)
  Lemma probe_later a :
    (fidx = 0 \/ (pa_block_size a = bs /\ pa_ids a = sl_ids l)) ->
    nth k (pa_seen a) false = false ->
    (nth 0 (pa_seen a) false = true -> nth k (pa_vol a) None = Some vol) ->
    probe_file rd nfiles fidx a =
    Ok {| pa_block_size := bs; pa_ids := sl_ids l;
          pa_vol := if nth 0 (pa_seen a) false then pa_vol a else SadumpModel.set_nth (pa_vol a) k (Some vol);
          pa_seen := SadumpModel.set_nth (pa_seen a) k true;
          pa_ext := SadumpModel.set_nth (pa_ext a) k extL;
          pa_ptr := pa_ptr a; pa_max_pfn := pa_max_pfn a; pa_bmp_pos := pa_bmp_pos a |}.
  Proof.
    intros Hfirst Hseen Hv. destruct Hfidx as [H1 [H2 H3]].
    unfold probe_file. rewrite sphL_is.
    destruct sphL_fields as [Hsig [Hu [Hd [Hi Hvv]]]]. rewrite Hsig.
    unfold open_common. rewrite Hi, Hu, Hd, Hvv. cbn [negb]. rewrite vmnL. rewrite N.sub_0_r.
    assert (Hchk : (negb (fidx =? 0) && negb (pa_block_size a =? bs) = false) /\
                   (negb (fidx =? 0) && negb (SadumpModel.bytes_eqb (pa_ids a) (sl_ids l)) = false)).
    { destruct Hfirst as [-> | [Hb1 Hb2]]; [split; reflexivity |].
      rewrite Hb1, Hb2, N.eqb_refl, beqb_refl. split; apply andb_false_r. }
    destruct Hchk as [Hc1 Hc2]. rewrite Hc1, Hc2.
    set (a1 := if fidx =? 0 then _ else a).
    assert (Ha1 : pa_block_size a1 = bs /\ pa_ids a1 = sl_ids l /\ pa_vol a1 = pa_vol a /\
                  pa_seen a1 = pa_seen a /\ pa_ext a1 = pa_ext a /\ pa_ptr a1 = pa_ptr a /\
                  pa_max_pfn a1 = pa_max_pfn a /\ pa_bmp_pos a1 = pa_bmp_pos a).
    { unfold a1. destruct (fidx =? 0) eqn:E; [repeat split |].
      destruct Hfirst as [-> | [Hb1 Hb2]]; [discriminate E | repeat split; assumption]. }
    destruct Ha1 as (A1 & A2 & A3 & A4 & A5 & A6 & A7 & A8).
    unfold disk. destruct (N.eqb_spec (dk_idx + 1) 0); [lia |].
    destruct (N.ltb_spec nfiles (dk_idx + 1)); [lia |].
    replace (dk_idx + 1 - 1) with dk_idx by lia. fold k. rewrite A4, Hseen.
    unfold process_vol_id. rewrite A4, A3.
    assert (Hlen : (used + 2^64 - bs) mod 2^64 = len dk).
    { unfold used. replace (bs + len dk + 2^64 - bs) with (len dk + 1 * 2^64) by lia.
      rewrite N.mod_add by discriminate. apply N.mod_small. unfold used in Hused. lia. }
    destruct (nth 0 (pa_seen a) false) eqn:Es0.
    - rewrite (Hv eq_refl), (beqb_refl vol).
      destruct (N.ltb_spec 1 (dk_idx + 1)); [| lia].
      rewrite ?A1, ?A2, ?A4, ?A5, ?A6, ?A7, ?A8, Hlen. reflexivity.
    - destruct (N.ltb_spec 1 (dk_idx + 1)); [| lia].
      rewrite ?A1, ?A2, ?A4, ?A5, ?A6, ?A7, ?A8, Hlen. reflexivity.
  Qed.
End Later.

(** ** the disk set header *)
Definition set_entry (id : bytes) : bytes := enc_flds false [FB 16 id; F64 0; F32 0; F32 0].

Lemma len_set_entry id : len (set_entry id) = 32.
Proof. unfold set_entry. rewrite len_enc_flds. reflexivity. Qed.

Lemma len_set_entries ids : len (flat_map set_entry ids) = 32 * N.of_nat (length ids).
Proof.
  induction ids as [| id t IH]; [reflexivity |]. cbn [flat_map length]. rewrite len_app, len_set_entry, IH. lia.
Qed.

Lemma sub_entry : forall ids A rest j,
  Forall (fun id => len id = 16) ids -> (j < length ids)%nat ->
  sub (A ++ flat_map set_entry ids ++ rest) (len A + 32 * N.of_nat j) 16 = nth j ids [].
Proof.
  induction ids as [| id t IH]; intros A rest j Hall Hj; [cbn in Hj; lia |].
  inversion Hall as [| ? ? Hid Ht]; subst. cbn [flat_map]. destruct j.
  - rewrite N.mul_0_r, N.add_0_r. cbn [nth]. unfold set_entry.
    change (enc_flds false [FB 16 id; F64 0; F32 0; F32 0]) with (fit 16 id ++ enc_flds false [F64 0; F32 0; F32 0]).
    rewrite fit_exact by assumption. rewrite <- !app_assoc.
    unfold sub. rewrite to_nat_len, skipn_app_exact. rewrite <- Hid, to_nat_len. apply firstn_app_exact.
  - cbn [nth]. rewrite <- app_assoc.
    replace (A ++ set_entry id ++ flat_map set_entry t ++ rest) with ((A ++ set_entry id) ++ flat_map set_entry t ++ rest)
      by (now rewrite <- app_assoc).
    replace (len A + 32 * N.of_nat (S j)) with (len (A ++ set_entry id) + 32 * N.of_nat j)
      by (rewrite len_app, len_set_entry; lia).
    apply IH; [exact Ht | cbn in Hj; lia].
Qed.

(** the loop of [init_disk_set] when no other disk has been seen yet *)
Fixpoint fill (k i : nat) (hdr : bytes) (vol : list (option bytes)) : list (option bytes) :=
  match k with
  | O => vol
  | S k' => fill k' (S i) hdr (SadumpModel.set_nth vol i (Some (sub hdr (16 + 32 * N.of_nat i) 16)))
  end.

Lemma vol_loop_fill : forall k i hdr vol seen,
  (forall j, nth j seen false = false) -> vol_loop k i hdr vol seen = Ok (fill k i hdr vol).
Proof.
  induction k as [| k IH]; intros i hdr vol seen H; [reflexivity |].
  cbn [vol_loop fill]. rewrite (H i). now apply IH.
Qed.

Lemma fill_length : forall k i hdr vol, length (fill k i hdr vol) = length vol.
Proof. induction k as [| k IH]; intros; [reflexivity |]. cbn [fill]. now rewrite IH, set_nth_length. Qed.

Lemma fill_nth : forall k i hdr vol j,
  (i + k <= length vol)%nat ->
  nth j (fill k i hdr vol) None =
  if (Nat.leb i j && Nat.ltb j (i + k))%bool then Some (sub hdr (16 + 32 * N.of_nat j) 16) else nth j vol None.
Proof.
  induction k as [| k IH]; intros i hdr vol j H.
  - cbn [fill]. destruct (Nat.leb_spec i j); destruct (Nat.ltb_spec j (i + 0)); cbn [andb]; try reflexivity; lia.
  - cbn [fill]. rewrite IH by (rewrite set_nth_length; lia).
    destruct (Nat.leb_spec (S i) j); destruct (Nat.ltb_spec j (S i + k)); cbn [andb].
    + destruct (Nat.leb_spec i j); destruct (Nat.ltb_spec j (i + S k)); cbn [andb]; try reflexivity; lia.
    + rewrite nth_set_nth_ne by lia.
      destruct (Nat.leb_spec i j); destruct (Nat.ltb_spec j (i + S k)); cbn [andb]; try reflexivity; lia.
    + destruct (Nat.eq_dec j i) as [-> | Hne].
      * rewrite nth_set_nth_eq by lia.
        destruct (Nat.leb_spec i i); destruct (Nat.ltb_spec i (i + S k)); cbn [andb]; try reflexivity; lia.
      * rewrite nth_set_nth_ne by lia.
        destruct (Nat.leb_spec i j); destruct (Nat.ltb_spec j (i + S k)); cbn [andb]; try reflexivity; lia.
    + lia.
Qed.

(** the loop of [init_disk_set] in general: entries of disks already seen are
    compared with the id remembered for them, the others are copied *)
Lemma vol_loop_ok hdr seen : forall k i vol,
  (i + k <= length vol)%nat ->
  (forall j, (i <= j < i + k)%nat -> nth j seen false = true ->
             nth j vol None = Some (sub hdr (16 + 32 * N.of_nat j) 16)) ->
  exists vol', vol_loop k i hdr vol seen = Ok vol' /\ length vol' = length vol /\
    forall j, nth j vol' None =
              if (Nat.leb i j && Nat.ltb j (i + k))%bool then Some (sub hdr (16 + 32 * N.of_nat j) 16)
              else nth j vol None.
Proof.
  induction k as [| k IH]; intros i vol Hlen Hseen.
  - exists vol. split; [reflexivity |]. split; [reflexivity |]. intro j.
    destruct (Nat.leb_spec i j); destruct (Nat.ltb_spec j (i + 0)); cbn [andb]; try reflexivity; lia.
  - cbn [vol_loop]. destruct (nth i seen false) eqn:Es.
    + rewrite (Hseen i ltac:(lia) Es), beqb_refl.
      destruct (IH (S i) vol ltac:(lia)) as [vol' [Hv [Hl Hn]]].
      { intros j Hj. apply Hseen. lia. }
      exists vol'. split; [exact Hv |]. split; [exact Hl |]. intro j. rewrite Hn.
      destruct (Nat.leb_spec (S i) j); destruct (Nat.ltb_spec j (S i + k)); cbn [andb];
        destruct (Nat.leb_spec i j); destruct (Nat.ltb_spec j (i + S k)); cbn [andb]; try reflexivity; try lia.
      assert (j = i) by lia. subst j. exact (Hseen i ltac:(lia) Es).
    + destruct (IH (S i) (SadumpModel.set_nth vol i (Some (sub hdr (16 + 32 * N.of_nat i) 16)))
                  ltac:(rewrite set_nth_length; lia)) as [vol' [Hv [Hl Hn]]].
      { intros j Hj Hsj. rewrite nth_set_nth_ne by lia. apply Hseen; [lia | exact Hsj]. }
      exists vol'. split; [exact Hv |]. split; [now rewrite Hl, set_nth_length |]. intro j. rewrite Hn.
      destruct (Nat.leb_spec (S i) j); destruct (Nat.ltb_spec j (S i + k)); cbn [andb];
        destruct (Nat.leb_spec i j); destruct (Nat.ltb_spec j (i + S k)); cbn [andb]; try reflexivity; try lia.
      * rewrite nth_set_nth_ne by lia. reflexivity.
      * assert (j = i) by lia. subst j. rewrite nth_set_nth_eq by lia. reflexivity.
      * rewrite nth_set_nth_ne by lia. reflexivity.
Qed.

(** position of a disk in the order in which the files are passed *)
Fixpoint index_of (d : nat) (l : list nat) : nat :=
  match l with
  | [] => O
  | x :: t => if Nat.eqb x d then O else S (index_of d t)
  end.

Lemma index_of_nth d l : In d l -> (index_of d l < length l)%nat /\ nth (index_of d l) l 0%nat = d.
Proof.
  induction l as [| x t IH]; intro H; [destruct H |]. cbn [index_of].
  destruct (Nat.eqb_spec x d) as [-> | Hne]; [cbn; split; [lia | reflexivity] |].
  destruct H as [-> | H]; [contradiction |]. destruct (IH H). cbn [length nth]. split; [lia | assumption].
Qed.

(** ** a disk set, the files given in any order *)
Record sd_wf_set (l : sd_layout) (img : image) : Prop := {
  ss_base : sd_wf_base l img;
  ss_kind : sl_kind l = SdDiskSet;
  ss_vols : sl_vol_ids l <> [] /\ Forall (fun id => len id = 16) (sl_vol_ids l) /\
            N.of_nat (length (sl_vol_ids l)) < 2^16;
  ss_parts : length (sl_disk_pages l) = length (sl_vol_ids l) /\
             Forall (fun c => 1 <= c) (sl_disk_pages l) /\
             SD_PAGE * fold_right N.add 0 (sl_disk_pages l) = len (page_data img);
  ss_hdr : 16 + 32 * N.of_nat (length (sl_vol_ids l)) <= sl_set_hdr_blocks l * sl_block_size l /\
           sl_set_hdr_blocks l < 2^32;
  (* what follows a partition header block must not continue its magic numbers:
     the disk set header on disk 1, page data on the others *)
  ss_break1 : sl_set_hdr_blocks l <> next_magic l;
  ss_break : Forall (fun d => get false (read_of d 0 4) <> next_magic l)
                    (tl (split_data (page_data img) (sl_disk_pages l)));
  ss_size : Forall (fun f => len f < 2^64) (encode_sadump l img)
}.

Lemma split_data_length data counts : length (split_data data counts) = length counts.
Proof. revert data. induction counts as [| c t IH]; intro data; [reflexivity |]. cbn [split_data length]. now rewrite IH. Qed.

Lemma split_data_concat : forall counts data,
  SD_PAGE * fold_right N.add 0 counts = len data ->
  concat (split_data data counts) = data /\
  Forall2 (fun d c => len d = c * SD_PAGE) (split_data data counts) counts.
Proof.
  induction counts as [| c t IH]; intros data H.
  - cbn [fold_right] in H. cbn [split_data concat]. split; [| constructor].
    destruct data; [reflexivity |]. rewrite len_cons in H. lia.
  - cbn [fold_right split_data concat] in *.
    assert (Hc : c * SD_PAGE <= len data) by lia.
    assert (Hs : sub data 0 (c * SD_PAGE) = firstn (N.to_nat (c * SD_PAGE)) data) by reflexivity.
    destruct (IH (skipn (N.to_nat (c * SD_PAGE)) data)) as [Hcat Hall].
    { unfold len. rewrite skipn_length. unfold len in H, Hc. lia. }
    split.
    + rewrite Hcat, Hs. apply firstn_skipn.
    + constructor; [| exact Hall]. rewrite Hs. unfold len. rewrite firstn_length. unfold len in Hc. lia.
Qed.

Lemma parts_page_multiple (dss : list bytes) cs :
  Forall2 (fun d c => len d = c * SD_PAGE) dss cs ->
  forall j, (j < length dss)%nat -> exists c, len (nth j dss []) = c * SD_PAGE.
Proof.
  induction 1 as [| d c dt ct Hdc Hr IH]; intros j Hj; [cbn in Hj; lia |].
  destruct j; [exists c; exact Hdc |]. cbn [nth]. apply IH. cbn in Hj. lia.
Qed.

Section DiskSet.
  Variable l : sd_layout.
  Variable img : image.
  Hypothesis Hwf : sd_wf_set l img.

  Let bs := sl_block_size l.
  Let data := page_data img.
  Let ds := split_data data (sl_disk_pages l).
  Let vols := sl_vol_ids l.
  Let n := length vols.
  Let SH := disk_set_header l.
  Let d1 := nth 0 ds [].
  Let v1 := nth 0 vols [].
  Let files := encode_sadump l img.
  Let Hb := ss_base _ _ Hwf.

  (** the files are passed in the order [ord]: position [i] holds disk [nth i ord] (0-based) *)
  Variable ord : list nat.
  Hypothesis Hord : Permutation.Permutation ord (seq 0 n).
  Let rd := read_files (map (fun d => nth d files []) ord).

  Lemma n_pos : (1 <= n)%nat.
  Proof. destruct (ss_vols _ _ Hwf) as [Hne _]. unfold n, vols. destruct (sl_vol_ids l); [contradiction | cbn; lia]. Qed.

  Lemma ds_length : length ds = n.
  Proof. unfold ds. rewrite split_data_length. apply (ss_parts _ _ Hwf). Qed.

  Lemma len_SH : len SH = sl_set_hdr_blocks l * bs.
  Proof. apply len_fit. Qed.

  Definition later_file (k : nat) : bytes :=
    part_header l (N.of_nat k + 1) (nth k vols []) (bs + len (nth k ds [])) ++ nth k ds [].

  Definition head_file : bytes :=
    part_header l 1 v1 (bs + len SH + body_len l + len d1) ++ SH ++ body l img ++ d1.

  Lemma files_nth k : (k < n)%nat ->
    nth k files [] = if Nat.eqb k 0 then head_file else later_file k.
  Proof.
    intro Hk. unfold files, encode_sadump. rewrite (ss_kind _ _ Hwf).
    pose proof ds_length as Hdl. pose proof n_pos as Hn. unfold n, vols in *. fold bs data ds SH.
    unfold head_file, later_file, d1, v1, vols.
    destruct ds as [| p rest] eqn:Eds; [cbn in Hdl; lia |].
    destruct (sl_vol_ids l) as [| v vrest] eqn:Ev; [cbn in Hn; lia |].
    cbn [length] in Hdl, Hk. destruct k as [| j]; [reflexivity |].
    cbn [nth Nat.eqb].
    set (f := fun kdv : N * (bytes * bytes) => let '(k, (d, v0)) := kdv in part_header l k v0 (bs + len d) ++ d).
    assert (Hlen : length (combine (map N.of_nat (seq 2 (length rest))) (combine rest vrest)) = length rest).
    { rewrite !combine_length, map_length, seq_length. lia. }
    rewrite (nth_indep _ [] (f (0, ([], [])))) by (rewrite map_length, Hlen; lia).
    rewrite map_nth.
    assert (E1 : nth j (combine (map N.of_nat (seq 2 (length rest))) (combine rest vrest)) (0, ([], []))
                 = (nth j (map N.of_nat (seq 2 (length rest))) 0, (nth j rest [], nth j vrest []))).
    { rewrite combine_nth by (rewrite map_length, seq_length, combine_length; lia).
      f_equal. apply combine_nth. lia. }
    unfold bytes in *. rewrite E1.
    rewrite (nth_indep _ 0 (N.of_nat 0)) by (rewrite map_length, seq_length; lia).
    rewrite map_nth, seq_nth by lia. unfold f.
    replace (N.of_nat (2 + j)) with (N.of_nat (S j) + 1) by lia. reflexivity.
  Qed.

  Lemma ord_length : length ord = n.
  Proof. rewrite (Permutation.Permutation_length Hord). apply seq_length. Qed.

  Lemma ord_nodup : NoDup ord.
  Proof. apply (Permutation.Permutation_NoDup (Permutation.Permutation_sym Hord)). apply seq_NoDup. Qed.

  Lemma ord_in d : In d ord <-> (d < n)%nat.
  Proof.
    split; intro H.
    - apply (Permutation.Permutation_in _ Hord) in H. apply in_seq in H. lia.
    - apply (Permutation.Permutation_in _ (Permutation.Permutation_sym Hord)). apply in_seq. lia.
  Qed.

  Lemma ord_nth_lt i : (i < n)%nat -> (nth i ord 0 < n)%nat.
  Proof. intro H. apply ord_in. apply nth_In. rewrite ord_length. exact H. Qed.

  Lemma rd_pos i off cnt : (i < n)%nat ->
    rd (N.of_nat i) off cnt = read_of (nth (nth i ord 0%nat) files []) off cnt.
  Proof.
    intro Hi. unfold rd, read_files. rewrite Nat2N.id. f_equal.
    rewrite (nth_indep _ [] (nth 0%nat files [])) by (rewrite map_length, ord_length; exact Hi).
    now rewrite (map_nth (fun d => nth d files []) ord 0%nat).
  Qed.

  (** *** disk 1, wherever its file comes *)
  Let usedH := len (@nil N) + bs + len SH + body_len l + len d1.

  Lemma usedS_is : usedH = bs + len SH + body_len l + len d1.
  Proof. unfold usedH. rewrite len_nil. lia. Qed.

  Lemma rd_headS i off k : (i < n)%nat -> nth i ord 0%nat = 0%nat ->
    rd (N.of_nat i) off k = read_of ([] ++ part_header l 1 v1 usedH ++ SH ++ body l img ++ d1) off k.
  Proof.
    intros Hi E. rewrite usedS_is, rd_pos, E, files_nth by (try exact Hi; apply n_pos). reflexivity.
  Qed.

  Lemma v1_len : len v1 = 16.
  Proof.
    destruct (ss_vols _ _ Hwf) as [Hne [Hall _]]. unfold v1, vols.
    destruct (sl_vol_ids l) as [| v t]; [contradiction |]. inversion Hall; subst. assumption.
  Qed.

  Lemma files_small k : (k < n)%nat -> len (nth k files []) < 2^64.
  Proof.
    intro Hk. pose proof (ss_size _ _ Hwf) as Hall. fold files in Hall. rewrite Forall_forall in Hall.
    apply Hall. apply nth_In.
    unfold files, encode_sadump. rewrite (ss_kind _ _ Hwf).
    pose proof ds_length as Hdl. unfold n, vols in *. fold bs data ds SH.
    destruct ds as [| p rest]; [cbn in Hdl; lia |].
    destruct (sl_vol_ids l) as [| v vrest]; [cbn in Hk; lia |].
    cbn [length] in *. rewrite map_length, !combine_length, map_length, seq_length. lia.
  Qed.

  Lemma used_smallS : usedH < 2^64.
  Proof.
    pose proof (files_small 0 n_pos) as H. rewrite files_nth in H by apply n_pos. cbn [Nat.eqb] in H.
    unfold head_file in H. rewrite !len_app in H.
    rewrite (len_body l img rd [] [] [] Hb) in H.
    pose proof (len_PHb l img rd [] SH d1 v1 1 Hb) as Hp. unfold PHb in Hp.
    change (len (@nil N) + sl_block_size l + len SH + body_len l + len d1) with usedH in Hp.
    rewrite usedS_is in Hp. rewrite Hp in H. rewrite usedS_is. fold bs in H. lia.
  Qed.

  Definition SHc : bytes :=
    enc_flds false [F32 (sl_set_hdr_blocks l); F32 (N.of_nat n); F64 0] ++ flat_map set_entry vols.

  Lemma SH_is : SH = SHc ++ zeros (sl_set_hdr_blocks l * bs - len SHc).
  Proof.
    unfold SH, disk_set_header. fold bs. apply fit_small.
    unfold SHc. rewrite len_app, len_enc_flds, len_set_entries. destruct (ss_hdr _ _ Hwf) as [H _].
    fold bs vols n in H. cbn [flds_len fld_len]. fold n. lia.
  Qed.

  Lemma break_set : get false (read_of (after_block l img SH d1) 0 4) <> next_magic l.
  Proof.
    unfold after_block. rewrite SH_is. unfold SHc.
    change (enc_flds false [F32 (sl_set_hdr_blocks l); F32 (N.of_nat n); F64 0])
      with (put32 false (sl_set_hdr_blocks l) ++ enc_flds false [F32 (N.of_nat n); F64 0]).
    rewrite <- !app_assoc. rewrite (read_of_exact' (put32 false (sl_set_hdr_blocks l))) by (now rewrite len_put32).
    destruct (ss_hdr _ _ Hwf) as [_ Hlt].
    unfold put32. rewrite get_put by (cbn; lia). exact (ss_break1 _ _ Hwf).
  Qed.

  (** the volume ids in the header, as [init_disk_set] reads them *)
  Lemma SH_id j : (j < n)%nat -> sub SH (16 + 32 * N.of_nat j) 16 = nth j vols [].
  Proof.
    intro Hj. rewrite SH_is. unfold SHc. rewrite <- app_assoc.
    destruct (ss_vols _ _ Hwf) as [_ [Hall _]].
    apply (sub_entry vols (enc_flds false [F32 (sl_set_hdr_blocks l); F32 (N.of_nat n); F64 0]) _ j Hall Hj).
  Qed.

  Definition vol_all : list (option bytes) := map Some vols.

  Lemma vol_all_nth d : (d < n)%nat -> nth d vol_all None = Some (nth d vols []).
  Proof.
    intro H. unfold vol_all.
    transitivity (nth d (map Some vols) (Some [])); [apply nth_indep; rewrite map_length; exact H | now rewrite map_nth].
  Qed.

  (** [init_disk_set] with some disks already seen: their remembered volume ids
      agree with the table, the others are copied from it *)
  Lemma init_ok i a :
    (i < n)%nat -> nth i ord 0%nat = 0%nat ->
    length (pa_vol a) = n ->
    (forall j, (j < n)%nat -> nth j (pa_seen a) false = true -> nth j (pa_vol a) None = Some (nth j vols [])) ->
    init_disk_set rd (N.of_nat i) (len (@nil N) + bs) bs (N.of_nat n) a = Ok (hdr_pos l [] SH, vol_all).
  Proof.
    intros Hi Ei Hlen Hseen. unfold init_disk_set.
    destruct (ss_hdr _ _ Hwf) as [Hfit Hblk]. fold bs vols n in Hfit.
    destruct (ss_vols _ _ Hwf) as [_ [_ Hn16]]. fold vols n in Hn16.
    pose proof (rd_mid_part l img rd (N.of_nat i) [] SH d1 v1 1 Hb (fun off k => rd_headS i off k Hi Ei)) as Hpart.
    pose proof (rd_mid l img rd (N.of_nat i) [] SH d1 v1 1 Hb (fun off k => rd_headS i off k Hi Ei)) as Hmid.
    assert (Hblocks : get32 false (rd (N.of_nat i) (len (@nil N) + bs) 4) 0 = sl_set_hdr_blocks l).
    { rewrite <- (N.add_0_r (len [] + bs)). fold bs in Hpart. rewrite Hpart by (rewrite len_SH; lia).
      rewrite SH_is. rewrite read_of_prefix by (unfold SHc; rewrite len_app, len_enc_flds; cbn [flds_len fld_len]; lia).
      unfold SHc. unfold get32. rewrite sub_read_of by lia. rewrite N.add_0_l.
      apply get32_fld; [reflexivity | assumption]. }
    rewrite Hblocks.
    destruct (N.ltb_spec (sl_set_hdr_blocks l * bs) 16); [lia |].
    fold bs in Hmid. rewrite <- len_SH. rewrite Hmid.
    assert (Hnum : get32 false SH 4 = N.of_nat n).
    { rewrite SH_is. unfold get32. rewrite sub_eq_read_of by (rewrite len_app, len_zeros; unfold SHc; rewrite len_app, len_enc_flds; cbn [flds_len fld_len]; lia).
      unfold SHc. rewrite <- !app_assoc. apply get32_fld; [reflexivity | lia]. }
    rewrite Hnum, N.eqb_refl. cbn [negb].
    destruct (N.ltb_spec (len SH) (16 + N.of_nat n * 32)); [rewrite len_SH in *; lia |].
    rewrite Nat2N.id.
    destruct (vol_loop_ok SH (pa_seen a) n 0 (pa_vol a) ltac:(lia)) as [vol' [Hv [Hl Hn']]].
    { intros j Hj Hs. rewrite SH_id by lia. apply Hseen; [lia | exact Hs]. }
    rewrite Hv. f_equal. apply f_equal2; [reflexivity |].
    apply (nth_ext _ _ None None).
    - unfold vol_all. rewrite Hl, map_length. exact Hlen.
    - intros j Hj. rewrite Hl, Hlen in Hj. rewrite Hn'.
      destruct (Nat.leb_spec 0 j); [| lia]. destruct (Nat.ltb_spec j (0 + n)); [| lia]. cbn [andb].
      rewrite SH_id by assumption. symmetry. now apply vol_all_nth.
  Qed.

  (** *** the whole set *)
  Definition zero_ext : extent := {| ex_pos := 0; ex_len := 0; ex_fidx := 0 |}.

  (** the extent of disk [d] when its file is the [i]-th one passed *)
  Definition ext_of (d i : nat) : extent :=
    match d with
    | O => ext0 l (N.of_nat i) [] SH d1
    | S _ => {| ex_pos := bs; ex_len := len (nth d ds []); ex_fidx := N.of_nat i |}
    end.

  (** after the first [j] files *)
  Record inv (j : nat) (a : probe_acc) : Prop := {
    i_len : length (pa_seen a) = n /\ length (pa_vol a) = n /\ length (pa_ext a) = n;
    i_first : (1 <= j)%nat -> pa_block_size a = bs /\ pa_ids a = sl_ids l;
    i_seen : forall d, (d < n)%nat -> nth d (pa_seen a) false = true <-> In d (firstn j ord);
    i_vol : forall d, In d (firstn j ord) -> nth d (pa_vol a) None = Some (nth d vols []);
    i_volall : In 0%nat (firstn j ord) -> pa_vol a = vol_all;
    i_ext : forall i, (i < j)%nat -> nth (nth i ord 0%nat) (pa_ext a) zero_ext = ext_of (nth i ord 0%nat) i;
    i_head : if in_dec Nat.eq_dec 0%nat (firstn j ord)
             then pa_ptr a = Some (ptr l) /\ pa_max_pfn a = sl_max_mapnr l /\ pa_bmp_pos a = bmp_pos l [] SH
             else pa_ptr a = None
  }.

  Lemma inv0 : inv 0 (a0 n).
  Proof.
    constructor; cbn [a0 pa_seen pa_vol pa_ext pa_ptr firstn].
    - rewrite !repeat_length. auto.
    - lia.
    - intros d Hd. rewrite nth_repeat. split; [discriminate | intros []].
    - intros d [].
    - intros [].
    - intros i Hi. lia.
    - destruct (in_dec Nat.eq_dec 0%nat []) as [[] |]. reflexivity.
  Qed.

  Lemma firstn_S_ord j : (j < n)%nat -> firstn (S j) ord = firstn j ord ++ [nth j ord 0%nat].
  Proof.
    intro Hj. pose proof ord_length as Hl. clear - Hj Hl. revert j Hj Hl.
    generalize n. induction ord as [| x t IH]; intros m j Hj Hl; [cbn in Hl; lia |].
    destruct j; [reflexivity |]. cbn [firstn nth app]. f_equal. apply (IH (pred m)); cbn in Hl; lia.
  Qed.

  Lemma not_in_prefix j : (j < n)%nat -> ~ In (nth j ord 0%nat) (firstn j ord).
  Proof.
    intros Hj Hin. pose proof ord_nodup as Hnd. pose proof ord_length as Hl.
    apply (In_nth _ _ 0%nat) in Hin as [q [Hq E]]. rewrite firstn_length in Hq.
    rewrite nth_firstn_lt in E by lia.
    assert (q = j) by (apply (proj1 (NoDup_nth ord 0%nat) Hnd); [lia | lia | exact E]). lia.
  Qed.

  Lemma prefix_in i j : (i < j)%nat -> (j <= n)%nat -> In (nth i ord 0%nat) (firstn j ord).
  Proof.
    intros Hi Hj. rewrite <- (nth_firstn_lt ord j i 0%nat) by lia.
    apply nth_In. rewrite firstn_length, ord_length. lia.
  Qed.

  Lemma step j a : (j < n)%nat -> inv j a ->
    exists a', probe_file rd (N.of_nat n) (N.of_nat j) a = Ok a' /\ inv (S j) a'.
  Proof.
    intros Hj [[Ls [Lv Le]] Ifirst Iseen Ivol Ivolall Iext Ihead].
    pose proof n_pos as Hn. pose proof (ord_nth_lt j Hj) as Hd.
    pose proof (not_in_prefix j Hj) as Hnotin.
    pose proof (firstn_S_ord j Hj) as HS.
    destruct (ss_vols _ _ Hwf) as [_ [Hall Hn16]]. fold vols n in Hall, Hn16.
    assert (Hfirst : N.of_nat j = 0 \/ (pa_block_size a = bs /\ pa_ids a = sl_ids l)).
    { destruct j; [now left | right; apply Ifirst; lia]. }
    assert (Hseen_d : nth (nth j ord 0%nat) (pa_seen a) false = false).
    { destruct (nth (nth j ord 0%nat) (pa_seen a) false) eqn:E; [| reflexivity].
      exfalso. apply Hnotin. now apply Iseen. }
    set (d := nth j ord 0%nat) in *.
    destruct d as [| d'] eqn:Ed.
    - (* the file of disk 1 *)
      pose proof v1_len as Hv. assert (Hd1 : 1 < 2^32) by reflexivity.
      assert (Hnohead : ~ In 0%nat (firstn j ord)) by exact Hnotin.
      destruct (in_dec Nat.eq_dec 0%nat (firstn j ord)) as [Hc | _]; [contradiction |].
      pose proof (fun off k => rd_headS j off k Hj Ed) as Hrd.
      unfold probe_file.
      pose proof (sph_is l img rd (N.of_nat j) [] SH d1 v1 1 Hrd) as Hs. change (len []) with 0 in Hs. rewrite Hs.
      destruct (sph_fields l img rd (N.of_nat j) [] SH d1 v1 1 Hb Hrd break_set Hv Hd1 used_smallS) as [Hsig _].
      rewrite Hsig.
      pose proof (oc_set l img rd (N.of_nat j) [] SH d1 v1 1 Hb Hrd break_set Hv Hd1 used_smallS a (N.of_nat n)
                    vol_all eq_refl ltac:(lia) Ihead Hseen_d Hfirst) as Ho.
      change (len (@nil N)) with 0 in Ho at 1.
      eexists. split.
      + apply Ho. apply init_ok; [exact Hj | exact Ed | |].
        * cbn [pa_vol]. now rewrite set_nth_length.
        * intros j' Hj' Hs'. cbn [pa_seen pa_vol] in *.
          assert (Hin : In j' (firstn j ord)) by (now apply Iseen).
          assert (j' <> 0%nat) by (intros ->; contradiction).
          rewrite nth_set_nth_ne by assumption. now apply Ivol.
      + constructor; cbn [pa_block_size pa_ids pa_vol pa_seen pa_ext pa_ptr pa_max_pfn pa_bmp_pos].
        * rewrite !set_nth_length. unfold vol_all. rewrite map_length. auto.
        * auto.
        * intros e He. rewrite HS, in_app_iff. cbn [In].
          destruct (Nat.eq_dec e 0) as [-> | Hne].
          -- rewrite nth_set_nth_eq by lia. tauto.
          -- rewrite nth_set_nth_ne by assumption. rewrite (Iseen e He). intuition congruence.
        * intros e He. apply vol_all_nth. apply ord_in.
          rewrite HS in He. apply in_app_or in He as [He | [<- | []]]; [| apply ord_in; lia].
          apply (In_nth _ _ 0%nat) in He as [q [Hq <-]]. rewrite firstn_length, ord_length in Hq.
          rewrite nth_firstn_lt by lia. apply ord_in. apply ord_nth_lt. lia.
        * reflexivity.
        * intros i Hi. destruct (Nat.eq_dec i j) as [-> | Hne].
          -- fold d. rewrite Ed. rewrite nth_set_nth_eq by lia. reflexivity.
          -- assert (Hdi : nth i ord 0%nat <> 0%nat).
             { intro E0. apply Hnohead. rewrite <- E0. apply prefix_in; lia. }
             rewrite nth_set_nth_ne by assumption. apply Iext. lia.
        * destruct (in_dec Nat.eq_dec 0%nat (firstn (S j) ord)) as [_ | Hc]; [auto |].
          exfalso. apply Hc. rewrite HS. apply in_or_app. right. now left.
    - (* a later disk *)
      assert (Hdn : (S d' < n)%nat) by exact Hd.
      assert (Hvk : len (nth (S d') vols []) = 16).
      { rewrite Forall_forall in Hall. apply Hall. apply nth_In. unfold n in Hdn. lia. }
      assert (Hrdk : forall off c, rd (N.of_nat j) off c =
                read_of (part_header l (N.of_nat (S d') + 1) (nth (S d') vols []) (bs + len (nth (S d') ds []))
                         ++ nth (S d') ds []) off c).
      { intros. rewrite rd_pos by exact Hj. fold d. rewrite Ed, files_nth by exact Hdn. reflexivity. }
      assert (Hbrk : get false (read_of (nth (S d') ds []) 0 4) <> next_magic l).
      { pose proof (ss_break _ _ Hwf) as Hbr. fold data ds in Hbr. rewrite Forall_forall in Hbr.
        apply Hbr. apply nth_in_tl. rewrite ds_length. lia. }
      assert (Husedk : bs + len (nth (S d') ds []) < 2^64).
      { pose proof (files_small (S d') Hdn) as H. rewrite files_nth in H by exact Hdn.
        cbn [Nat.eqb] in H. unfold later_file in H. rewrite len_app in H.
        pose proof (len_phL l img rd (N.of_nat j) (N.of_nat (S d')) (nth (S d') vols []) (nth (S d') ds []) Hb Hrdk) as Hp.
        fold bs in Hp. rewrite Hp in H. exact H. }
      pose proof (probe_later l img rd (N.of_nat j) (N.of_nat n) (N.of_nat (S d')) (nth (S d') vols [])
                    (nth (S d') ds []) Hb Hrdk Hbrk Hvk ltac:(lia) Husedk a Hfirst) as Hp.
      rewrite Nat2N.id in Hp.
      assert (Hvol_d : nth 0 (pa_seen a) false = true -> nth (S d') (pa_vol a) None = Some (nth (S d') vols [])).
      { intro H0. rewrite Ivolall by (apply Iseen; [lia | exact H0]). now apply vol_all_nth. }
      eexists. split; [apply Hp; [exact Hseen_d | exact Hvol_d] |].
      assert (Hhead_same : In 0%nat (firstn (S j) ord) <-> In 0%nat (firstn j ord)).
      { rewrite HS, in_app_iff. cbn [In]. intuition congruence. }
      constructor; cbn [pa_block_size pa_ids pa_vol pa_seen pa_ext pa_ptr pa_max_pfn pa_bmp_pos].
      * rewrite !set_nth_length. destruct (nth 0 (pa_seen a) false); rewrite ?set_nth_length; auto.
      * auto.
      * intros e He. rewrite HS, in_app_iff. cbn [In].
        destruct (Nat.eq_dec e (S d')) as [-> | Hne].
        -- rewrite nth_set_nth_eq by lia. tauto.
        -- rewrite nth_set_nth_ne by assumption. rewrite (Iseen e He). intuition congruence.
      * intros e He. rewrite HS in He. apply in_app_or in He as [He | [<- | []]].
        -- destruct (nth 0 (pa_seen a) false); [now apply Ivol |].
           assert (e <> S d') by (intros ->; contradiction).
           rewrite nth_set_nth_ne by assumption. now apply Ivol.
        -- destruct (nth 0 (pa_seen a) false) eqn:E0; [now apply Hvol_d |].
           rewrite nth_set_nth_eq by lia. reflexivity.
      * intro H0. apply Hhead_same in H0.
        assert (Hs0 : nth 0 (pa_seen a) false = true) by (apply Iseen; [lia | exact H0]).
        rewrite Hs0. now apply Ivolall.
      * intros i Hi. destruct (Nat.eq_dec i j) as [-> | Hne].
        -- fold d. rewrite Ed. rewrite nth_set_nth_eq by lia. reflexivity.
        -- assert (Hdi : nth i ord 0%nat <> S d').
           { intro E0. apply Hnotin. rewrite <- E0. apply prefix_in; lia. }
           rewrite nth_set_nth_ne by assumption. apply Iext. lia.
      * destruct (in_dec Nat.eq_dec 0%nat (firstn (S j) ord)) as [H1 | H1];
          destruct (in_dec Nat.eq_dec 0%nat (firstn j ord)) as [H2 | H2]; try exact Ihead; exfalso; tauto.
  Qed.

  Lemma steps : forall k j a, (j + k = n)%nat -> inv j a ->
    exists a', probe_files rd k (N.of_nat n) (N.of_nat j) a = Ok a' /\ inv n a'.
  Proof.
    induction k as [| k IH]; intros j a Hsum Hinv.
    - exists a. split; [reflexivity |]. replace n with j by lia. exact Hinv.
    - cbn [probe_files]. destruct (step j a ltac:(lia) Hinv) as [a1 [Hp Hi1]]. rewrite Hp.
      replace (N.of_nat j + 1) with (N.of_nat (S j)) by lia. apply IH; [lia | exact Hi1].
  Qed.

  (** where disk 1's file is *)
  Definition head_pos : nat := index_of 0%nat ord.

  Lemma head_pos_ok : (head_pos < n)%nat /\ nth head_pos ord 0%nat = 0%nat.
  Proof.
    destruct (index_of_nth 0%nat ord (proj2 (ord_in 0%nat) n_pos)) as [H1 H2].
    rewrite ord_length in H1. auto.
  Qed.

  Theorem sd_open_set :
    exists exts, sd_open rd n = Ok (the_state img (nbytes l) exts (sl_max_mapnr l) bs (ptr l) (N.of_nat n)) /\
      length exts = n /\
      forall i, (i < n)%nat -> nth (nth i ord 0%nat) exts zero_ext = ext_of (nth i ord 0%nat) i.
  Proof.
    pose proof n_pos as Hn. pose proof v1_len as Hv. assert (Hd : 1 < 2^32) by reflexivity.
    destruct head_pos_ok as [Hh1 Hh2].
    unfold sd_open. fold (a0 n).
    destruct (steps n 0 (a0 n) ltac:(lia) inv0) as [a [Hpf [[Ls [Lv Le]] Ifirst Iseen Ivol Ivolall Iext Ihead]]].
    change (N.of_nat 0) with 0 in Hpf. rewrite Hpf. cbv beta iota.
    assert (Hall_in : forall d, (d < n)%nat -> In d (firstn n ord)).
    { intros d Hd'. rewrite firstn_all2 by (rewrite ord_length; lia). now apply ord_in. }
    destruct (in_dec Nat.eq_dec 0%nat (firstn n ord)) as [_ | Hc]; [| exfalso; apply Hc; apply Hall_in; lia].
    destruct Ihead as [Hptr [Hmax Hbmp]]. destruct (Ifirst Hn) as [Hbs _].
    pose proof (Iext head_pos Hh1) as He0. rewrite Hh2 in He0. cbn [ext_of] in He0.
    assert (Hexts : pa_ext a = ext0 l (N.of_nat head_pos) [] SH d1 :: tl (pa_ext a)).
    { destruct (pa_ext a) as [| e t]; [cbn in Le; lia |]. cbn [nth] in He0. cbn [tl]. now rewrite He0. }
    exists (pa_ext a). split; [| split; [exact Le | exact Iext]].
    rewrite Hexts at 2.
    apply (open_tail l img rd (N.of_nat head_pos) [] SH d1 v1 1 Hb (fun off k => rd_headS head_pos off k Hh1 Hh2)
             break_set Hv Hd used_smallS a (tl (pa_ext a))); assumption.
  Qed.

  (** the extents lay out the page data, whatever the order of the files *)
  Lemma set_page_path exts k :
    length exts = n ->
    (forall i, (i < n)%nat -> nth (nth i ord 0%nat) exts zero_ext = ext_of (nth i ord 0%nat) i) ->
    k < count_some img ->
    exists f o, ext_loop exts (4096 * k) = Some (f, o) /\
                rd f o 4096 = read_of (page_data img) (4096 * k) 4096.
  Proof.
    intros Hlen Hext Hk. pose proof (len_page_data img (sw_pages _ _ Hb)) as Hl.
    destruct (ss_parts _ _ Hwf) as [Hlenp [_ Hsum]].
    destruct (split_data_concat (sl_disk_pages l) (page_data img) Hsum) as [Hcat Hlens]. fold data ds in Hcat, Hlens.
    pose proof ds_length as Hdl.
    set (chunks := combine exts ds).
    assert (Hfst : map fst chunks = exts) by (unfold chunks; apply map_fst_combine; lia).
    assert (Hsnd : map snd chunks = ds) by (unfold chunks; apply map_snd_combine; lia).
    rewrite <- Hfst. fold data. rewrite <- Hcat, <- Hsnd.
    apply ext_loop_chunks.
    - apply Forall_forall. intros [e d] Hin. cbn [fst snd].
      apply (In_nth _ _ (zero_ext, [])) in Hin as [j [Hj Hnth]].
      unfold chunks in Hj, Hnth. rewrite combine_length in Hj.
      assert (E : nth j (combine exts ds) (zero_ext, []) = (nth j exts zero_ext, nth j ds []))
        by (apply combine_nth; lia).
      pose proof (eq_trans (eq_sym E) Hnth) as Hn2. injection Hn2 as He Hd'. subst e d.
      assert (Hjn : (j < n)%nat) by lia.
      (* disk j's file is the [i]-th one passed *)
      destruct (index_of_nth j ord (proj2 (ord_in j) Hjn)) as [Hi1 Hi2]. rewrite ord_length in Hi1.
      set (i := index_of j ord) in *.
      pose proof (Hext i Hi1) as Hej. rewrite Hi2 in Hej. rewrite Hej.
      assert (Hmod : len (nth j ds []) mod 4096 = 0).
      { destruct (parts_page_multiple ds (sl_disk_pages l) Hlens j ltac:(lia)) as [c ->].
        unfold SD_PAGE. apply N.mod_mul. discriminate. }
      destruct j as [| j'].
      + cbn [ext_of ext0 ex_len ex_fidx ex_pos]. fold d1. split; [reflexivity |]. split; [exact Hmod |].
        intros o c Hoc.
        apply (rd_data l img rd (N.of_nat i) [] SH d1 v1 1 Hb (fun off k0 => rd_headS i off k0 Hi1 Hi2) o c Hoc).
      + cbn [ext_of ex_len ex_fidx ex_pos]. split; [reflexivity |]. split; [exact Hmod |].
        intros o c Hoc.
        assert (Hrdk : forall off c0, rd (N.of_nat i) off c0 =
                  read_of (part_header l (N.of_nat (S j') + 1) (nth (S j') vols []) (bs + len (nth (S j') ds [])) ++ nth (S j') ds []) off c0).
        { intros. rewrite rd_pos by exact Hi1. rewrite Hi2, files_nth by lia. reflexivity. }
        apply (rd_dataL l img rd (N.of_nat i) (N.of_nat (S j')) (nth (S j') vols []) (nth (S j') ds []) Hb Hrdk o c Hoc).
    - rewrite N.mul_comm. apply N.mod_mul. discriminate.
    - rewrite Hsnd, Hcat. unfold data. rewrite Hl. lia.
  Qed.
End DiskSet.

(** the files of a disk set in the order [ord] (disk numbers - 1) *)
Definition permuted_files (l : sd_layout) (img : image) (ord : list nat) : list bytes :=
  map (fun d => nth d (encode_sadump l img) []) ord.

Theorem sadump_set_roundtrip l img ord :
  sd_wf_set l img -> Permutation.Permutation ord (seq 0 (length (sl_vol_ids l))) ->
  exists st, sd_open (read_files (permuted_files l img ord)) (length (sl_vol_ids l)) = Ok st /\
    sd_ptr_size st = (if existsb (fun b => b) (sl_lma l) then 8 else 4) /\
    sd_max_pfn st = sl_max_mapnr l /\ sd_block_size st = sl_block_size l /\
    forall z pfn,
      sd_read_page (read_files (permuted_files l img ord)) st z pfn =
      spec_read_page img SADUMP_PAGE_SIZE (sl_max_mapnr l) z pfn.
Proof.
  intros Hwf Hord. pose proof (ss_base _ _ Hwf) as Hb.
  destruct (sd_open_set l img Hwf ord Hord) as [exts [Ho [Hlen Hext]]].
  eexists. split; [exact Ho |].
  split; [reflexivity |]. split; [reflexivity |]. split; [reflexivity |].
  intros z pfn. apply sadump_page_path.
  - exact (sw_pages _ _ Hb).
  - destruct (sw_cover _ _ Hb) as [H1 H2]. unfold nbytes. lia.
  - intros k Hk. exact (set_page_path l img Hwf ord Hord exts k Hlen Hext Hk).
Qed.
