(** C01 for SADUMP, open paths: [sd_open] on the encoder's output - a single
    partition, a media backup, or a disk set - yields the state the page-path
    theorem needs, the geometry, and extents that lay out the page data. *)
From Coq Require Import NArith List Bool Lia Arith.
From KdV Require Import Fmt.Codec Fmt.CodecProofs Fmt.PfnModel Fmt.PfnProofs Fmt.PfnBridge Fmt.BitmapSpec Fmt.ImageSpec
     Fmt.SadumpModel Fmt.SadumpSpec Fmt.SadumpProofs.
Import ListNotations.
Local Open Scope N_scope.

(** * the magic numbers that delimit the partition header block *)
Definition nx (m : N) : N := (11 * (m + 7)) mod 2^32.

Fixpoint magic_nth (j : nat) (m : N) : N :=
  match j with O => m | S k => magic_nth k (nx m) end.

Lemma nx_lt m : nx m < 2^32.
Proof. unfold nx. apply N.mod_lt. discriminate. Qed.

Lemma len_magic_seq n : forall m, len (magic_seq n m) = 4 * N.of_nat n.
Proof.
  induction n as [| n IH]; intro m; [reflexivity |].
  cbn [magic_seq]. rewrite len_app, len_put32, IH. lia.
Qed.

(** the loop of [verify_magic_number] runs to the end of the sequence *)
Lemma magic_loop_run rd fidx f (Hrd : forall off n, rd fidx off n = read_of f off n) :
  forall k prev A rest fuel,
  f = A ++ put32 false prev ++ magic_seq k (nx prev) ++ rest ->
  (k < fuel)%nat -> prev < 2^32 ->
  get false (read_of rest 0 4) <> magic_nth (S k) prev ->
  magic_loop rd fuel fidx (len A) prev = Some (len A + 4 + 4 * N.of_nat k).
Proof.
  induction k as [| k IH]; intros prev A rest fuel Ef Hfuel Hprev Hbreak.
  - destruct fuel as [| fuel]; [lia |]. cbn [magic_loop].
    assert (Hw : get32 false (rd fidx (len A + 4) 4) 0 = get false (read_of rest 0 4)).
    { rewrite Hrd. rewrite get32_read by lia. rewrite Ef. cbn [magic_seq app].
      rewrite app_assoc. rewrite read_of_skip by (rewrite len_app, len_put32; lia).
      rewrite len_app, len_put32. f_equal. f_equal. lia. }
    rewrite Hw. cbn [magic_nth] in Hbreak. fold (nx prev).
    destruct (N.eqb_spec (get false (read_of rest 0 4)) (nx prev)); [contradiction |].
    cbn [negb N.of_nat]. f_equal. lia.
  - destruct fuel as [| fuel]; [lia |]. cbn [magic_loop].
    assert (Hw : get32 false (rd fidx (len A + 4) 4) 0 = nx prev).
    { rewrite Hrd. rewrite get32_read by lia. rewrite Ef. cbn [magic_seq].
      rewrite app_assoc, <- (app_assoc (put32 false (nx prev))).
      rewrite N.add_0_r. rewrite (read_of_section' (A ++ put32 false prev) (put32 false (nx prev))).
      - unfold put32. apply get_put. pose proof (nx_lt prev). cbn. lia.
      - rewrite len_app, len_put32. reflexivity.
      - now rewrite len_put32. }
    rewrite Hw. fold (nx prev). rewrite N.eqb_refl. cbn [negb].
    specialize (IH (nx prev) (A ++ put32 false prev) rest fuel).
    rewrite len_app, len_put32 in IH. rewrite IH.
    + f_equal. lia.
    + rewrite Ef. cbn [magic_seq]. now rewrite <- !app_assoc.
    + lia.
    + apply nx_lt.
    + exact Hbreak.
Qed.

(** * [setup_arch]: the CPU state loop *)
Lemma len_cpu_state l lma : 1000 <= sl_cpu_size l -> len (cpu_state l lma) = sl_cpu_size l.
Proof. intro H. unfold cpu_state. rewrite len_enc_flds. cbn [flds_len fld_len]. lia. Qed.

Lemma cpu_loop_run rd fidx f l (Hrd : forall off n, rd fidx off n = read_of f off n) :
  forall lmas B rest,
  1024 <= sl_cpu_size l ->
  f = B ++ flat_map (cpu_state l) lmas ++ rest ->
  cpu_loop rd (length lmas) fidx (len B) (sl_cpu_size l) = if existsb (fun b => b) lmas then 8 else 4.
Proof.
  induction lmas as [| b t IH]; intros B rest Hsz Ef; [reflexivity |].
  cbn [length cpu_loop existsb].
  assert (He : get64 false (rd fidx (len B) CPU_STATE_SIZE) CPU_STATE_EFER = if b then 1025 else 1).
  { rewrite Hrd. unfold CPU_STATE_SIZE, CPU_STATE_EFER.
    rewrite get64_read by lia. rewrite Ef. cbn [flat_map]. rewrite <- app_assoc.
    rewrite read_of_skip by lia. replace (len B + 992 - len B) with 992 by lia.
    unfold cpu_state at 1.
    apply get64_fld; [reflexivity | destruct b; reflexivity]. }
  rewrite He. destruct b.
  - reflexivity.
  - change (N.testbit 1 10) with false. cbv iota. cbn [orb].
    rewrite <- (len_cpu_state l false) at 1 by lia. rewrite <- len_app.
    apply (IH (B ++ cpu_state l false) rest); [assumption |]. rewrite Ef. cbn [flat_map]. now rewrite <- !app_assoc.
Qed.

(** * what every SADUMP layout must satisfy *)
Record sd_wf_base (l : sd_layout) (img : image) : Prop := {
  sw_bs : exists k, 8 <= k <= 20 /\ sl_block_size l = 2^k;
  sw_version : sl_version l <= 1;
  sw_mapnr : (sl_version l = 0 -> sl_max_mapnr l < 2^32) /\ sl_max_mapnr l < 2^64;
  sw_cpus : sl_lma l <> [] /\ nr_cpus l < 2^16;
  sw_cpusz : 1024 <= sl_cpu_size l /\ sl_cpu_size l * nr_cpus l < 2^32;
  sw_sub : 4 + 16 * nr_cpus l + sl_cpu_size l * nr_cpus l <= sl_sub_blocks l * sl_block_size l
           /\ sl_sub_blocks l < 2^32;
  sw_bitmaps : sl_bitmap_blocks l < 2^32 /\ sl_dumpable_blocks l < 2^32;
  sw_cover : sl_max_mapnr l <= 8 * (sl_dumpable_blocks l * sl_block_size l) /\
             N.of_nat (length img) <= sl_max_mapnr l;
  sw_pages : Forall (fun oc => match oc with Some c => len c = 4096 | None => True end) img;
  sw_ids : len (sl_ids l) = 48;
  sw_magic0 : sl_magic0 l < 2^32
}.

(** the magic number that would follow the last one of the partition header block *)
Definition next_magic (l : sd_layout) : N :=
  magic_nth (S (N.to_nat ((sl_block_size l - 168) / 4 - 1))) (sl_magic0 l).

(** * the file that carries the headers: the only file, or disk 1 of a set

    [pre] is what precedes the partition header (nothing, or the media
    header), [mid] what lies between the partition header block and the dump
    header (nothing, or the disk set header), [d1] the page data stored in
    this file. *)
Section Head.
  Variable l : sd_layout.
  Variable img : image.
  Variable rd : N -> N -> N -> bytes.
  Variable pre mid d1 vol : bytes.
  Variable disk : N.
  Hypothesis Hwf : sd_wf_base l img.

  Let bs := sl_block_size l.
  Let base := len pre.
  Let m := len mid.
  Let used := base + bs + m + body_len l + len d1.
  Let F := pre ++ part_header l disk vol used ++ mid ++ body l img ++ d1.
  Let n := N.to_nat ((bs - 168) / 4).
  Let cpus := nr_cpus l.

  Definition phf : list fld :=
    [ F32 1969512819; F32 28781; F32 1; F32 0; F32 0; F32 0; FB 64 [];
      FB 32 (sub (sl_ids l) 0 32); FB 16 vol; FB 16 (sub (sl_ids l) 32 16);
      F32 disk; F32 0; F64 used ].

  Lemma ph_is : part_header l disk vol used = enc_flds false phf ++ magic_seq n (sl_magic0 l).
  Proof. reflexivity. Qed.

  Lemma bs_facts : 256 <= bs <= 2^20 /\ bs = 168 + 4 * N.of_nat n /\ (1 <= n)%nat.
  Proof.
    destruct (sw_bs _ _ Hwf) as [k [[H1 H2] E]]. fold bs in E.
    assert (Hb : 256 <= bs <= 2^20).
    { rewrite E. change 256 with (2^8). split; apply N.pow_le_mono_r; lia. }
    assert (Hmod : bs mod 4 = 0).
    { rewrite E. replace k with (2 + (k - 2)) by lia. rewrite N.pow_add_r. change (2^2) with 4.
      rewrite N.mul_comm. apply N.mod_mul. discriminate. }
    assert (Hq : (bs - 168) mod 4 = 0).
    { pose proof (N.div_mod bs 4 ltac:(lia)) as D. rewrite Hmod, N.add_0_r in D.
      replace (bs - 168) with ((bs / 4 - 42) * 4) by lia. apply N.mod_mul. discriminate. }
    pose proof (N.div_mod (bs - 168) 4 ltac:(lia)) as D. rewrite Hq, N.add_0_r in D.
    split; [exact Hb |]. unfold n. split; [lia |].
    assert (22 <= (bs - 168) / 4) by (apply N.div_le_lower_bound; lia). lia.
  Qed.

  Lemma is_pow2_bs : SadumpModel.is_pow2 bs = true.
  Proof.
    destruct (sw_bs _ _ Hwf) as [k [Hk E]]. fold bs in E. rewrite E.
    assert (Hc : k = 8 \/ k = 9 \/ k = 10 \/ k = 11 \/ k = 12 \/ k = 13 \/ k = 14 \/ k = 15 \/ k = 16 \/
                 k = 17 \/ k = 18 \/ k = 19 \/ k = 20) by lia.
    repeat (destruct Hc as [-> | Hc]; [vm_compute; reflexivity |]). subst. vm_compute. reflexivity.
  Qed.

  Definition PHb : bytes := part_header l disk vol used.

  Lemma len_PHb : len PHb = bs.
  Proof.
    unfold PHb. rewrite ph_is, len_app, len_enc_flds, len_magic_seq. destruct bs_facts as [_ [E _]].
    cbn [flds_len fld_len phf]. lia.
  Qed.

  (** ** the sections behind the partition header *)
  Definition dhf : list fld :=
    [ FB 8 [115; 97; 100; 117; 109; 112; 0; 0]; F32 (sl_version l); F32 0;
      FB 16 (sub (sl_ids l) 32 16); F32 0; F32 0; F32 bs; F32 0;
      F32 (sl_sub_blocks l); F32 (sl_bitmap_blocks l); F32 (sl_dumpable_blocks l);
      F32 (N.min (sl_max_mapnr l) (2^32 - 1)); F32 0; F32 0; F32 0; F32 0; F32 cpus; F32 0;
      F64 (if 1 <=? sl_version l then sl_max_mapnr l else 0); F64 0; F64 0; F64 0 ].

  Definition subc : bytes :=
    put32 false (sl_cpu_size l * cpus) ++ zeros (16 * cpus) ++ flat_map (cpu_state l) (sl_lma l).

  Definition MB : bytes := bits_to_bytes true (N.to_nat (sl_bitmap_blocks l * bs)) (sl_mem_bits l).
  Definition DB : bytes := bits_to_bytes true (N.to_nat (sl_dumpable_blocks l * bs)) (map (@is_some bytes) img).

  Lemma len_btb mm k bits : len (bits_to_bytes mm k bits) = N.of_nat k.
  Proof. revert bits. induction k; intro bits; [reflexivity |]. cbn [bits_to_bytes]. rewrite len_cons, IHk. lia. Qed.

  Lemma len_subc : len subc = 4 + 16 * cpus + sl_cpu_size l * cpus.
  Proof.
    unfold subc. rewrite !len_app, len_put32, len_zeros.
    assert (H : forall lm, len (flat_map (cpu_state l) lm) = sl_cpu_size l * N.of_nat (length lm)).
    { induction lm as [| b t IH]; [cbn; lia |]. cbn [flat_map length]. rewrite len_app, IH.
      destruct (sw_cpusz _ _ Hwf) as [Hc _]. rewrite len_cpu_state by lia. lia. }
    rewrite H. unfold cpus, nr_cpus. lia.
  Qed.

  Definition DHb : bytes := enc_flds false dhf ++ zeros (bs - 120).
  Definition SUBb : bytes := subc ++ zeros (sl_sub_blocks l * bs - len subc).

  Lemma body_sections : body l img = DHb ++ SUBb ++ MB ++ DB.
  Proof.
    unfold body, DHb, SUBb. fold bs MB DB. rewrite <- !app_assoc.
    unfold dump_header. fold bs cpus. rewrite fit_small by (rewrite len_enc_flds; destruct bs_facts; cbn; lia).
    rewrite len_enc_flds. change (flds_len _) with 120. fold dhf. rewrite <- !app_assoc. do 2 f_equal.
    unfold sub_header. fold bs cpus subc.
    rewrite fit_small by (rewrite len_subc; apply (sw_sub _ _ Hwf)).
    now rewrite <- !app_assoc.
  Qed.

  Lemma F_sections : F = pre ++ PHb ++ mid ++ DHb ++ SUBb ++ MB ++ DB ++ d1.
  Proof. unfold F, PHb. rewrite body_sections, <- !app_assoc. reflexivity. Qed.

  Lemma len_DHb : len DHb = bs.
  Proof. unfold DHb. rewrite len_app, len_enc_flds, len_zeros. change (flds_len dhf) with 120. destruct bs_facts as [[H _] _]. lia. Qed.
  Lemma len_SUBb : len SUBb = sl_sub_blocks l * bs.
  Proof. unfold SUBb. rewrite len_app, len_zeros. pose proof (sw_sub _ _ Hwf) as [Hs _]. fold cpus bs in Hs. rewrite <- len_subc in Hs. lia. Qed.
  Lemma len_MB : len MB = sl_bitmap_blocks l * bs. Proof. unfold MB. rewrite len_btb. lia. Qed.
  Lemma len_DB : len DB = sl_dumpable_blocks l * bs. Proof. unfold DB. rewrite len_btb. lia. Qed.

  Lemma len_body : len (body l img) = body_len l.
  Proof. rewrite body_sections, !len_app, len_DHb, len_SUBb, len_MB, len_DB. unfold body_len. fold bs. lia. Qed.

  (** positions *)
  Definition hdr_pos : N := base + bs + m.
  Definition bmp_pos : N := hdr_pos + bs * (1 + sl_sub_blocks l) + bs * sl_bitmap_blocks l.
  Definition data_pos : N := bmp_pos + bs * sl_dumpable_blocks l.

  Lemma data_pos_is : data_pos = hdr_pos + body_len l.
  Proof. unfold data_pos, bmp_pos, body_len. fold bs. lia. Qed.

  Hypothesis Hrd : forall off k, rd 0 off k = read_of F off k.

  Lemma sph_is : rd 0 base SPH_SIZE = enc_flds false phf.
  Proof.
    rewrite Hrd. unfold F, base. rewrite <- (N.add_0_r (len pre)), read_of_skip_add.
    rewrite ph_is, <- !app_assoc. apply read_of_exact'. rewrite len_enc_flds. reflexivity.
  Qed.

  Lemma rd_mid : rd 0 (base + bs) m = mid.
  Proof.
    rewrite Hrd, F_sections. unfold base. rewrite <- len_PHb, <- (N.add_0_r (len PHb)).
    rewrite !read_of_skip_add. apply read_of_exact'. reflexivity.
  Qed.

  Lemma rd_mid_part off k : off + k <= m -> rd 0 (base + bs + off) k = read_of mid off k.
  Proof.
    intro H. rewrite Hrd, F_sections. unfold base. rewrite <- len_PHb, <- N.add_assoc.
    rewrite !read_of_skip_add. now apply read_of_prefix.
  Qed.

  Lemma rd_dh : rd 0 hdr_pos SH_SIZE = enc_flds false dhf.
  Proof.
    rewrite Hrd, F_sections. unfold hdr_pos, base, m.
    replace (len pre + bs + len mid) with (len pre + (len PHb + (len mid + 0))) by (rewrite len_PHb; lia).
    rewrite !read_of_skip_add.
    unfold DHb. rewrite <- !app_assoc. apply read_of_exact'. rewrite len_enc_flds. reflexivity.
  Qed.

  Lemma rd_subc off k : off + k <= len subc -> rd 0 (hdr_pos + bs + off) k = read_of subc off k.
  Proof.
    intro H. rewrite Hrd, F_sections. unfold hdr_pos, base, m.
    replace (len pre + bs + len mid + bs + off) with (len pre + (len PHb + (len mid + (len DHb + off))))
      by (rewrite len_PHb, len_DHb; lia).
    rewrite !read_of_skip_add. unfold SUBb. rewrite <- !app_assoc. now apply read_of_prefix.
  Qed.

  Lemma rd_db : rd 0 bmp_pos (bs * sl_dumpable_blocks l) = DB.
  Proof.
    rewrite Hrd, F_sections.
    replace bmp_pos with (len pre + (len PHb + (len mid + (len DHb + (len SUBb + (len MB + 0))))))
      by (rewrite len_PHb, len_DHb, len_SUBb, len_MB; unfold bmp_pos, hdr_pos, base, m; lia).
    rewrite !read_of_skip_add. apply read_of_exact'. rewrite len_DB. lia.
  Qed.

  Lemma rd_data o k : o + k <= len d1 -> rd 0 (data_pos + o) k = read_of d1 o k.
  Proof.
    intro H. rewrite Hrd, F_sections.
    replace (data_pos + o) with (len pre + (len PHb + (len mid + (len DHb + (len SUBb + (len MB + (len DB + o)))))))
      by (rewrite len_PHb, len_DHb, len_SUBb, len_MB, len_DB; unfold data_pos, bmp_pos, hdr_pos, base, m; lia).
    now rewrite !read_of_skip_add.
  Qed.

  (** ** [verify_magic_number] finds the block size *)
  Lemma magic_unfold : magic_seq n (sl_magic0 l) = put32 false (sl_magic0 l) ++ magic_seq (n - 1) (nx (sl_magic0 l)).
  Proof.
    destruct bs_facts as [_ [_ Hn]]. destruct n as [| k] eqn:E; [lia |].
    cbn [magic_seq]. replace (S k - 1)%nat with k by lia. reflexivity.
  Qed.

  Definition after_block : bytes := mid ++ DHb ++ SUBb ++ MB ++ DB ++ d1.

  Lemma F_magic :
    F = (pre ++ enc_flds false phf) ++ put32 false (sl_magic0 l) ++ magic_seq (n - 1) (nx (sl_magic0 l))
        ++ after_block.
  Proof. rewrite F_sections. unfold PHb, after_block. rewrite ph_is, magic_unfold, <- !app_assoc. reflexivity. Qed.

  (** the word that follows the partition header block is not the next magic number *)
  Hypothesis Hbreak : get false (read_of after_block 0 4) <> next_magic l.

  Lemma vmn : verify_magic_number rd 0 base = Ok (base + bs).
  Proof.
    unfold verify_magic_number. destruct bs_facts as [[Hb1 Hb2] [Ebs Hn]].
    pose proof (sw_magic0 _ _ Hwf) as Hm0.
    assert (Hprev : get32 false (rd 0 (base + SPH_SIZE) 4) 0 = sl_magic0 l).
    { rewrite Hrd, get32_read by lia. rewrite F_magic. unfold SPH_SIZE, base. rewrite N.add_0_r.
      rewrite (read_of_section' (pre ++ enc_flds false phf) (put32 false (sl_magic0 l)));
        [unfold put32; apply get_put; cbn; lia | rewrite len_app, len_enc_flds; reflexivity | now rewrite len_put32]. }
    rewrite Hprev.
    pose proof (magic_loop_run rd 0 F Hrd (n - 1) (sl_magic0 l) (pre ++ enc_flds false phf) after_block
                  (N.to_nat 262144) F_magic) as Hrun.
    rewrite len_app, len_enc_flds in Hrun. change (flds_len phf) with 168 in Hrun. fold base in Hrun.
    unfold SPH_SIZE. rewrite Hrun.
    - replace (base + 168 + 4 + 4 * N.of_nat (n - 1)) with (base + bs) by lia.
      replace (base + bs - base) with bs by lia. rewrite is_pow2_bs. reflexivity.
    - change (2^20) with 1048576 in Hb2. lia.
    - exact Hm0.
    - replace (S (n - 1)) with (S (N.to_nat ((sl_block_size l - 168) / 4 - 1))); [exact Hbreak |].
      fold bs. unfold n. lia.
  Qed.

  (** ** [setup_arch] *)
  Definition ptr : N := if existsb (fun b => b) (sl_lma l) then 8 else 4.

  Lemma cpus_facts : cpus <> 0 /\ cpus < 2^16 /\ N.to_nat cpus = length (sl_lma l).
  Proof.
    destruct (sw_cpus _ _ Hwf) as [Hne Hlt]. unfold cpus, nr_cpus in Hlt |- *.
    split; [| split; [exact Hlt | lia]].
    intro E. apply Hne. apply length_zero_iff_nil. lia.
  Qed.

  Lemma setup_arch_ok : setup_arch rd 0 (hdr_pos + bs) cpus = Ok ptr.
  Proof.
    unfold setup_arch. destruct cpus_facts as [Hnz [Hlt Hlen]].
    destruct (sw_cpusz _ _ Hwf) as [Hcs Hprod]. fold cpus in Hprod.
    destruct (N.eqb_spec cpus 0); [contradiction |].
    assert (Hsz : get32 false (rd 0 (hdr_pos + bs) 4) 0 = sl_cpu_size l * cpus).
    { rewrite <- (N.add_0_r (hdr_pos + bs)). rewrite rd_subc by (rewrite len_subc; lia).
      unfold subc. rewrite (read_of_exact' (put32 false (sl_cpu_size l * cpus))) by (now rewrite len_put32).
      unfold get32. rewrite sub_all. unfold put32. apply get_put. cbn. lia. }
    rewrite Hsz, N.div_mul by assumption.
    destruct (N.ltb_spec (sl_cpu_size l) CPU_STATE_SIZE); [unfold CPU_STATE_SIZE in *; lia |].
    f_equal. rewrite Hlen.
    pose proof (cpu_loop_run rd 0 F l Hrd (sl_lma l)
                  (pre ++ PHb ++ mid ++ DHb ++ put32 false (sl_cpu_size l * cpus) ++ zeros (16 * cpus))
                  (zeros (sl_sub_blocks l * bs - len subc) ++ MB ++ DB ++ d1) Hcs) as Hrun.
    rewrite !len_app, len_PHb, len_DHb, len_put32, len_zeros in Hrun.
    replace (hdr_pos + bs + 4 + cpus * 16) with (len pre + (bs + (len mid + (bs + (4 + 16 * cpus)))))
      by (unfold hdr_pos, base, m; lia).
    apply Hrun. rewrite F_sections. unfold SUBb, subc. now rewrite <- !app_assoc.
  Qed.

  (** ** the header fields *)
  Hypothesis Hvol : len vol = 16.
  Hypothesis Hdisk : disk < 2^32.
  Hypothesis Hused : used < 2^64.

  Lemma sph_fields :
    has_sig (enc_flds false phf) = true /\
    get64 false (enc_flds false phf) 160 = used /\
    get32 false (enc_flds false phf) 152 = disk /\
    sub (enc_flds false phf) 88 32 ++ sub (enc_flds false phf) 136 16 = sl_ids l /\
    sub (enc_flds false phf) 120 16 = vol.
  Proof.
    unfold has_sig.
    rewrite (get32_flds false phf 0 1969512819) by (try reflexivity; cbn; lia).
    rewrite (get32_flds false phf 4 28781) by (try reflexivity; cbn; lia).
    split; [reflexivity |]. split; [apply get64_flds; [reflexivity | assumption | cbn; lia] |].
    split; [apply get32_flds; [reflexivity | assumption | cbn; lia] |].
    rewrite (sub_flds false phf 88 32 (sub (sl_ids l) 0 32)) by (try reflexivity; cbn; lia).
    rewrite (sub_flds false phf 136 16 (sub (sl_ids l) 32 16)) by (try reflexivity; cbn; lia).
    rewrite (sub_flds false phf 120 16 vol) by (try reflexivity; cbn; lia).
    pose proof (sw_ids _ _ Hwf) as Hi.
    assert (H32 : len (sub (sl_ids l) 0 32) = 32).
    { unfold len at 1. rewrite sub_length by (rewrite Hi; lia). reflexivity. }
    assert (H16 : len (sub (sl_ids l) 32 16) = 16).
    { unfold len at 1. rewrite sub_length by (rewrite Hi; lia). reflexivity. }
    rewrite !fit_exact by assumption. split; [| reflexivity].
    unfold sub. cbn [N.to_nat skipn]. change (Pos.to_nat 32) with 32%nat. change (Pos.to_nat 16) with 16%nat.
    rewrite <- (firstn_skipn 32 (sl_ids l)) at 3. f_equal.
    apply firstn_all2. rewrite skipn_length. unfold len in Hi. lia.
  Qed.

  Lemma dh_fields :
    get32 false (enc_flds false dhf) 40 = bs /\
    get32 false (enc_flds false dhf) 80 = cpus /\
    (if get32 false (enc_flds false dhf) 8 <? 1 then get32 false (enc_flds false dhf) 60
     else get64 false (enc_flds false dhf) 88) = sl_max_mapnr l /\
    get32 false (enc_flds false dhf) 48 = sl_sub_blocks l /\
    get32 false (enc_flds false dhf) 52 = sl_bitmap_blocks l /\
    get32 false (enc_flds false dhf) 56 = sl_dumpable_blocks l.
  Proof.
    destruct bs_facts as [[_ Hb] _]. change (2^20) with 1048576 in Hb.
    destruct cpus_facts as [_ [Hc _]]. destruct (sw_mapnr _ _ Hwf) as [Hm0 Hm1].
    pose proof (sw_version _ _ Hwf) as Hv. destruct (sw_sub _ _ Hwf) as [_ Hsub].
    destruct (sw_bitmaps _ _ Hwf) as [Hbm Hdm].
    rewrite (get32_flds false dhf 40 bs) by (try reflexivity; cbn; lia).
    rewrite (get32_flds false dhf 80 cpus) by (try reflexivity; cbn; lia).
    rewrite (get32_flds false dhf 8 (sl_version l)) by (try reflexivity; cbn; lia).
    rewrite (get32_flds false dhf 48 (sl_sub_blocks l)) by (try reflexivity; cbn; lia).
    rewrite (get32_flds false dhf 52 (sl_bitmap_blocks l)) by (try reflexivity; cbn; lia).
    rewrite (get32_flds false dhf 56 (sl_dumpable_blocks l)) by (try reflexivity; cbn; lia).
    repeat split.
    destruct (N.ltb_spec (sl_version l) 1) as [H0 | H1].
    - rewrite (get32_flds false dhf 60 (N.min (sl_max_mapnr l) (2^32 - 1))) by (try reflexivity; cbn; lia).
      assert (sl_version l = 0) by lia. specialize (Hm0 H). lia.
    - assert (Hv1 : (1 <=? sl_version l) = true) by (apply N.leb_le; lia).
      rewrite (get64_flds false dhf 88 (sl_max_mapnr l));
        [reflexivity | unfold dhf; now rewrite Hv1 | assumption | cbn; lia].
  Qed.

  (** ** the tail of [open_common] *)
  Definition ext0 : extent := {| ex_pos := data_pos; ex_len := len d1; ex_fidx := 0 |}.

  Lemma finish_ok a :
    pa_ptr a = None ->
    oc_finish rd 0 bs used a hdr_pos =
    Ok {| pa_block_size := pa_block_size a; pa_ids := pa_ids a; pa_vol := pa_vol a; pa_seen := pa_seen a;
          pa_ext := set_nth (pa_ext a) 0 ext0; pa_ptr := Some ptr; pa_max_pfn := sl_max_mapnr l;
          pa_bmp_pos := bmp_pos |}.
  Proof.
    intro Hp. unfold oc_finish. rewrite rd_dh. destruct dh_fields as [Hbs [Hcp [Hmx [Hsb [Hbm Hdm]]]]].
    rewrite Hbs, N.eqb_refl. cbn [negb]. rewrite Hp, Hcp, setup_arch_ok, Hmx, Hsb, Hbm, Hdm.
    fold bmp_pos. fold data_pos.
    assert (Hlen : (used + 2^64 - data_pos) mod 2^64 = len d1).
    { rewrite data_pos_is. unfold used, hdr_pos.
      replace (base + bs + m + body_len l + len d1 + 2^64 - (base + bs + m + body_len l))
        with (len d1 + 1 * 2^64) by lia.
      rewrite N.mod_add by discriminate. apply N.mod_small. unfold used in Hused. lia. }
    rewrite Hlen. reflexivity.
  Qed.

  (** ** the tail of [sd_open]: [read_bitmap] and the state *)
  Definition nbytes : nat := N.to_nat (sl_dumpable_blocks l * bs).

  Lemma open_tail a rest nf :
    pa_ext a = ext0 :: rest -> pa_bmp_pos a = bmp_pos -> pa_max_pfn a = sl_max_mapnr l ->
    pa_block_size a = bs -> pa_ptr a = Some ptr ->
    (match pa_ext a with
     | [] => Err ERR_UNMODELLED
     | e0 :: _ =>
         let bmp_len := ex_pos e0 - pa_bmp_pos a in
         let max_bmp_pfn := bmp_len * 8 in
         let max_pfn := if max_bmp_pfn <? pa_max_pfn a then max_bmp_pfn else pa_max_pfn a in
         let bm := rd (ex_fidx e0) (pa_bmp_pos a) bmp_len in
         match regions_of true (pa_bmp_pos a mod 4) bm 0 max_bmp_pfn 0 SADUMP_PAGE_SIZE with
         | Err e => Err e
         | Ok rgns =>
             Ok {| sd_block_size := pa_block_size a;
                   sd_ptr_size := match pa_ptr a with Some p => p | None => 0 end;
                   sd_max_pfn := max_pfn;
                   sd_regions := rgns;
                   sd_ext := pa_ext a; sd_nfiles := nf |}
         end
     end) = Ok (the_state img nbytes (ext0 :: rest) (sl_max_mapnr l) bs ptr nf).
  Proof.
    intros He Hb Hm Hbs Hp. rewrite He, Hb, Hm, Hbs, Hp. cbn [ext0 ex_pos ex_fidx].
    replace (data_pos - bmp_pos) with (bs * sl_dumpable_blocks l) by (unfold data_pos; lia).
    destruct (sw_cover _ _ Hwf) as [Hcov _]. fold bs in Hcov.
    destruct (N.ltb_spec (bs * sl_dumpable_blocks l * 8) (sl_max_mapnr l)); [lia |].
    rewrite rd_db.
    (* the word-level MSB-0 scanner on the packed bitmap gives the runs of the bit walk *)
    rewrite regions_of_spec.
    - unfold the_state, bm. fold DB. unfold nbytes.
      replace (N.of_nat (8 * N.to_nat (sl_dumpable_blocks l * bs))) with (bs * sl_dumpable_blocks l * 8) by lia.
      reflexivity.
    - apply bits_to_bytes_ok.
    - rewrite len_DB.
      assert ((bs * sl_dumpable_blocks l * 8 + 7) / 8 < sl_dumpable_blocks l * bs + 1)
        by (apply N.div_lt_upper_bound; lia). lia.
  Qed.

  (** ** [open_common] on this file *)
  Lemma beqb_refl x : SadumpModel.bytes_eqb x x = true.
  Proof. apply (bytes_eqb_refl_gen SadumpModel.bytes_eqb). reflexivity. Qed.

  Definition acc_head (a : probe_acc) : probe_acc :=
    {| pa_block_size := bs; pa_ids := sl_ids l; pa_vol := pa_vol a; pa_seen := pa_seen a;
       pa_ext := pa_ext a; pa_ptr := pa_ptr a; pa_max_pfn := pa_max_pfn a; pa_bmp_pos := pa_bmp_pos a |}.

  (** a single partition or a media backup: no disk-set bookkeeping *)
  Lemma oc_plain a smh :
    mid = [] -> (disk = 0 \/ smh <> None) ->
    match smh with Some mh => sub mh 0 48 = sl_ids l | None => True end ->
    pa_ptr a = None ->
    open_common rd 1 0 a smh (enc_flds false phf) base =
    Ok {| pa_block_size := bs; pa_ids := sl_ids l; pa_vol := pa_vol a; pa_seen := pa_seen a;
          pa_ext := set_nth (pa_ext a) 0 ext0; pa_ptr := Some ptr; pa_max_pfn := sl_max_mapnr l;
          pa_bmp_pos := bmp_pos |}.
  Proof.
    intros Hmid Hsds Hm Hp. unfold open_common.
    destruct sph_fields as [_ [Hu [Hd [Hids Hv]]]]. rewrite Hids, Hu, Hd.
    assert (Hmok : (match smh with Some mh => SadumpModel.bytes_eqb (sub mh 0 48) (sl_ids l) | None => true end) = true).
    { destruct smh as [mh |]; [rewrite Hm; apply beqb_refl | reflexivity]. }
    rewrite Hmok. cbn [negb]. rewrite vmn.
    replace (base + bs - base) with bs by lia.
    change (0 =? 0) with true. cbn [negb andb]. cbv iota.
    assert (Hz : (match smh with Some _ => 0 | None => disk end) = 0).
    { destruct smh; [reflexivity |]. destruct Hsds as [-> | H]; [reflexivity | contradiction]. }
    rewrite Hz. change (0 =? 0) with true. cbv iota. change (1 <? 1) with false. cbv iota.
    fold (acc_head a).
    pose proof (finish_ok (acc_head a) Hp) as Hf. unfold hdr_pos, m in Hf. rewrite Hmid in Hf.
    rewrite len_nil, N.add_0_r in Hf. rewrite Hf. unfold acc_head. reflexivity.
  Qed.

  (** disk 1 of a set: volume id, disk set header, then as above *)
  Lemma oc_set a nfiles vol' :
    disk = 1 -> 1 <= nfiles -> pa_ptr a = None -> nth 0 (pa_seen a) false = false ->
    init_disk_set rd 0 (base + bs) bs nfiles
      {| pa_block_size := bs; pa_ids := sl_ids l; pa_vol := set_nth (pa_vol a) 0 (Some vol);
         pa_seen := pa_seen a; pa_ext := pa_ext a; pa_ptr := pa_ptr a; pa_max_pfn := pa_max_pfn a;
         pa_bmp_pos := pa_bmp_pos a |} = Ok (hdr_pos, vol') ->
    open_common rd nfiles 0 a None (enc_flds false phf) base =
    Ok {| pa_block_size := bs; pa_ids := sl_ids l; pa_vol := vol'; pa_seen := set_nth (pa_seen a) 0 true;
          pa_ext := set_nth (pa_ext a) 0 ext0; pa_ptr := Some ptr; pa_max_pfn := sl_max_mapnr l;
          pa_bmp_pos := bmp_pos |}.
  Proof.
    intros Hd1 Hnf Hp Hseen Hinit. unfold open_common.
    destruct sph_fields as [_ [Hu [Hd [Hids Hv]]]]. rewrite Hids, Hu, Hd, Hv.
    cbn [negb]. rewrite vmn. replace (base + bs - base) with bs by lia.
    change (0 =? 0) with true. cbn [negb andb]. cbv iota.
    rewrite Hd1. change (1 =? 0) with false. cbv iota.
    destruct (N.ltb_spec nfiles 1); [lia |].
    change (N.to_nat (1 - 1)) with 0%nat.
    cbn [pa_seen pa_vol pa_block_size pa_ids pa_ext pa_ptr pa_max_pfn pa_bmp_pos].
    rewrite Hseen. unfold process_vol_id. cbn [pa_seen pa_vol]. rewrite Hseen.
    change (1 <? 1) with false. cbv iota.
    cbn [pa_seen pa_vol pa_block_size pa_ids pa_ext pa_ptr pa_max_pfn pa_bmp_pos].
    rewrite Hinit.
    match goal with |- oc_finish rd 0 bs used ?acc hdr_pos = _ =>
      pose proof (finish_ok acc Hp) as Hf end.
    rewrite Hf. reflexivity.
  Qed.
End Head.

Lemma after_block_plain l img d1 : get false (read_of (after_block l img [] d1) 0 4) = 1969512819.
Proof.
  unfold after_block, DHb. cbn [app].
  change (enc_flds false (dhf l)) with ([115; 97; 100; 117] ++ ([109; 112; 0; 0] ++ enc_flds false (tl (dhf l)))).
  rewrite <- !app_assoc. rewrite (read_of_exact' [115; 97; 100; 117]) by reflexivity. reflexivity.
Qed.

Definition a0 (nfiles : nat) : probe_acc :=
  {| pa_block_size := 0; pa_ids := []; pa_vol := repeat None nfiles; pa_seen := repeat false nfiles;
     pa_ext := repeat {| ex_pos := 0; ex_len := 0; ex_fidx := 0 |} nfiles;
     pa_ptr := None; pa_max_pfn := 0; pa_bmp_pos := 0 |}.

(** * a single partition *)
Record sd_wf (l : sd_layout) (img : image) : Prop := {
  sw_base : sd_wf_base l img;
  sw_kind : sl_kind l = SdSingle;
  sw_vol : len (nth 0 (sl_vol_ids l) []) = 16;
  sw_magic : 1969512819 <> next_magic l;
  sw_size : len (hd [] (encode_sadump l img)) < 2^64
}.

Section Single.
  Variable l : sd_layout.
  Variable img : image.
  Hypothesis Hwf : sd_wf l img.

  Let bs := sl_block_size l.
  Let data := page_data img.
  Let vol := nth 0 (sl_vol_ids l) [].
  Let F := part_header l 0 vol (bs + body_len l + len data) ++ body l img ++ data.
  Let rd := read_files [F].

  Lemma enc_single : encode_sadump l img = [F].
  Proof. unfold encode_sadump. rewrite (sw_kind _ _ Hwf). reflexivity. Qed.

  Let usedH := len (@nil N) + bs + len (@nil N) + body_len l + len data.

  Lemma usedH_is : usedH = bs + body_len l + len data.
  Proof. unfold usedH. rewrite len_nil. lia. Qed.

  Lemma rd_head off k : rd 0 off k = read_of ([] ++ part_header l 0 vol usedH ++ [] ++ body l img ++ data) off k.
  Proof. rewrite usedH_is. reflexivity. Qed.

  Lemma used_small : usedH < 2^64.
  Proof.
    pose proof (sw_size _ _ Hwf) as H. rewrite enc_single in H. cbn [hd] in H. unfold F in H.
    rewrite !len_app in H.
    rewrite (len_body l img rd [] [] [] (sw_base _ _ Hwf)) in H.
    pose proof (len_PHb l img rd [] [] data vol 0 (sw_base _ _ Hwf)) as Hp. unfold PHb in Hp.
    change (len (@nil N) + sl_block_size l + len (@nil N) + body_len l + len data) with usedH in Hp.
    rewrite usedH_is in Hp. rewrite Hp in H. rewrite usedH_is. fold bs in H. lia.
  Qed.

  Lemma break_single : get false (read_of (after_block l img [] data) 0 4) <> next_magic l.
  Proof. rewrite after_block_plain. exact (sw_magic _ _ Hwf). Qed.

  Theorem sd_open_single :
    sd_open rd 1 =
    Ok (the_state img (nbytes l) [ext0 l [] [] data] (sl_max_mapnr l) bs (ptr l) 1).
  Proof.
    pose proof (sw_base _ _ Hwf) as Hb. pose proof (sw_vol _ _ Hwf) as Hv. fold vol in Hv.
    assert (Hd : 0 < 2^32) by reflexivity.
    unfold sd_open. cbn [N.of_nat Pos.of_succ_nat probe_files]. fold (a0 1).
    unfold probe_file.
    pose proof (sph_is l img rd [] [] data vol 0 rd_head) as Hs. change (len []) with 0 in Hs.
    rewrite Hs.
    destruct (sph_fields l img rd [] [] data vol 0 Hb rd_head break_single Hv Hd used_small) as [Hsig _].
    rewrite Hsig.
    pose proof (oc_plain l img rd [] [] data vol 0 Hb rd_head break_single Hv Hd used_small (a0 1) None
                  eq_refl (or_introl eq_refl) I eq_refl) as Ho.
    change (len []) with 0 in Ho. rewrite Ho. cbv beta iota.
    apply (open_tail l img rd [] [] data vol 0 Hb rd_head break_single Hv Hd used_small _ []); reflexivity.
  Qed.
End Single.

Theorem sadump_single_roundtrip l img :
  sd_wf l img ->
  exists st, sd_open (read_files (encode_sadump l img)) 1 = Ok st /\
    sd_ptr_size st = (if existsb (fun b => b) (sl_lma l) then 8 else 4) /\
    sd_max_pfn st = sl_max_mapnr l /\ sd_block_size st = sl_block_size l /\
    forall z pfn,
      sd_read_page (read_files (encode_sadump l img)) st z pfn =
      spec_read_page img SADUMP_PAGE_SIZE (sl_max_mapnr l) z pfn.
Proof.
  intro Hwf. rewrite (enc_single l img Hwf). pose proof (sw_base _ _ Hwf) as Hb.
  eexists. split; [exact (sd_open_single l img Hwf) |].
  split; [reflexivity |]. split; [reflexivity |]. split; [reflexivity |].
  intros z pfn. apply sadump_page_path.
  - exact (sw_pages _ _ Hb).
  - destruct (sw_cover _ _ Hb) as [H1 H2]. unfold nbytes. lia.
  - intros k Hk.
    pose proof (len_page_data img (sw_pages _ _ Hb)) as Hl.
    apply (single_extent_ok _ (page_data img) 0 (data_pos l [] [])).
    + intros o n Hon. apply (rd_data l img _ [] [] (page_data img) (nth 0 (sl_vol_ids l) []) 0 Hb).
      * apply rd_head.
      * exact Hon.
    + rewrite Hl. lia.
Qed.

(** * a media backup: the same behind a 4096-byte media header *)
Record sd_wf_media (l : sd_layout) (img : image) : Prop := {
  sm_base : sd_wf_base l img;
  sm_kind : sl_kind l = SdMedia;
  sm_vol : len (nth 0 (sl_vol_ids l) []) = 16;
  sm_magic : 1969512819 <> next_magic l;
  (* the file must not look like a partition header where the media header is *)
  sm_nosig : has_sig (read_of (media_header l) 0 168) = false;
  sm_size : len (hd [] (encode_sadump l img)) < 2^64
}.

Section Media.
  Variable l : sd_layout.
  Variable img : image.
  Hypothesis Hwf : sd_wf_media l img.

  Let bs := sl_block_size l.
  Let data := page_data img.
  Let vol := nth 0 (sl_vol_ids l) [].
  Let MH := media_header l.
  Let F := MH ++ part_header l 0 vol (4096 + bs + body_len l + len data) ++ body l img ++ data.
  Let rd := read_files [F].

  Lemma enc_media : encode_sadump l img = [F].
  Proof. unfold encode_sadump. rewrite (sm_kind _ _ Hwf). reflexivity. Qed.

  Lemma len_MH : len MH = 4096. Proof. apply len_fit. Qed.

  Let usedH := len MH + bs + len (@nil N) + body_len l + len data.

  Lemma usedM_is : usedH = 4096 + bs + body_len l + len data.
  Proof. unfold usedH. rewrite len_nil, len_MH. lia. Qed.

  Lemma rd_headM off k : rd 0 off k = read_of (MH ++ part_header l 0 vol usedH ++ [] ++ body l img ++ data) off k.
  Proof. rewrite usedM_is. reflexivity. Qed.

  Lemma used_smallM : usedH < 2^64.
  Proof.
    pose proof (sm_size _ _ Hwf) as H. rewrite enc_media in H. cbn [hd] in H. unfold F in H.
    rewrite !len_app in H.
    rewrite (len_body l img rd [] [] [] (sm_base _ _ Hwf)) in H.
    pose proof (len_PHb l img rd MH [] data vol 0 (sm_base _ _ Hwf)) as Hp. unfold PHb in Hp.
    change (len MH + sl_block_size l + len (@nil N) + body_len l + len data) with usedH in Hp.
    rewrite usedM_is in Hp. rewrite Hp, len_MH in H. rewrite usedM_is. fold bs in H. lia.
  Qed.

  Lemma break_media : get false (read_of (after_block l img [] data) 0 4) <> next_magic l.
  Proof. rewrite after_block_plain. exact (sm_magic _ _ Hwf). Qed.

  (** the media header repeats the ids of the partition header *)
  Lemma media_ids : sub (rd 0 0 SMH_SIZE) 0 48 = sl_ids l.
  Proof.
    pose proof (sw_ids _ _ (sm_base _ _ Hwf)) as Hi.
    unfold SMH_SIZE. rewrite rd_headM. rewrite sub_read_of by lia. rewrite N.add_0_l.
    rewrite read_of_prefix by (rewrite len_MH; lia).
    unfold MH, media_header.
    set (fs := [FB 32 (sub (sl_ids l) 0 32); FB 16 (sub (sl_ids l) 32 16); FB 1 [1]; FB 1 [0]; FB 1 [0]; FB 1 [1]]).
    rewrite fit_small by (rewrite len_enc_flds; cbn; lia).
    rewrite read_of_prefix by (rewrite len_enc_flds; cbn; lia).
    change 48 with (32 + 16). rewrite read_of_add.
    rewrite <- (app_nil_r (enc_flds false fs)).
    pose proof (read_fld false fs [] 0 (FB 32 (sub (sl_ids l) 0 32)) eq_refl) as R1.
    pose proof (read_fld false fs [] 32 (FB 16 (sub (sl_ids l) 32 16)) eq_refl) as R2.
    cbn [fld_len enc_fld] in R1, R2. change (0 + 32) with 32. rewrite R1, R2.
    assert (H32 : len (sub (sl_ids l) 0 32) = 32).
    { unfold len at 1. rewrite sub_length by (rewrite Hi; lia). reflexivity. }
    assert (H16 : len (sub (sl_ids l) 32 16) = 16).
    { unfold len at 1. rewrite sub_length by (rewrite Hi; lia). reflexivity. }
    rewrite !fit_exact by assumption.
    unfold sub. cbn [N.to_nat skipn]. change (Pos.to_nat 32) with 32%nat. change (Pos.to_nat 16) with 16%nat.
    rewrite <- (firstn_skipn 32 (sl_ids l)) at 3. f_equal.
    apply firstn_all2. rewrite skipn_length. unfold len in Hi. lia.
  Qed.

  Theorem sd_open_media :
    sd_open rd 1 =
    Ok (the_state img (nbytes l) [ext0 l MH [] data] (sl_max_mapnr l) bs (ptr l) 1).
  Proof.
    pose proof (sm_base _ _ Hwf) as Hb. pose proof (sm_vol _ _ Hwf) as Hv. fold vol in Hv.
    assert (Hd : 0 < 2^32) by reflexivity.
    unfold sd_open. cbn [N.of_nat Pos.of_succ_nat probe_files]. fold (a0 1).
    unfold probe_file.
    assert (Hnosig : has_sig (rd 0 0 SPH_SIZE) = false).
    { rewrite rd_headM. unfold SPH_SIZE. rewrite read_of_prefix by (rewrite len_MH; lia).
      exact (sm_nosig _ _ Hwf). }
    rewrite Hnosig.
    pose proof (sph_is l img rd MH [] data vol 0 rd_headM) as Hs. rewrite len_MH in Hs.
    unfold DEFAULT_BLOCK_SIZE. rewrite Hs.
    destruct (sph_fields l img rd MH [] data vol 0 Hb rd_headM break_media Hv Hd used_smallM) as [Hsig _].
    rewrite Hsig.
    assert (Hne : Some (rd 0 0 SMH_SIZE) <> None) by (intro Hx; inversion Hx).
    pose proof (oc_plain l img rd MH [] data vol 0 Hb rd_headM break_media Hv Hd used_smallM (a0 1)
                  (Some (rd 0 0 SMH_SIZE)) eq_refl (or_intror Hne) media_ids eq_refl) as Ho.
    rewrite len_MH in Ho. rewrite Ho. cbv beta iota.
    apply (open_tail l img rd MH [] data vol 0 Hb rd_headM break_media Hv Hd used_smallM _ []); reflexivity.
  Qed.
End Media.

Theorem sadump_media_roundtrip l img :
  sd_wf_media l img ->
  exists st, sd_open (read_files (encode_sadump l img)) 1 = Ok st /\
    sd_ptr_size st = (if existsb (fun b => b) (sl_lma l) then 8 else 4) /\
    sd_max_pfn st = sl_max_mapnr l /\ sd_block_size st = sl_block_size l /\
    forall z pfn,
      sd_read_page (read_files (encode_sadump l img)) st z pfn =
      spec_read_page img SADUMP_PAGE_SIZE (sl_max_mapnr l) z pfn.
Proof.
  intro Hwf. rewrite (enc_media l img Hwf). pose proof (sm_base _ _ Hwf) as Hb.
  eexists. split; [exact (sd_open_media l img Hwf) |].
  split; [reflexivity |]. split; [reflexivity |]. split; [reflexivity |].
  intros z pfn. apply sadump_page_path.
  - exact (sw_pages _ _ Hb).
  - destruct (sw_cover _ _ Hb) as [H1 H2]. unfold nbytes. lia.
  - intros k Hk.
    pose proof (len_page_data img (sw_pages _ _ Hb)) as Hl.
    apply (single_extent_ok _ (page_data img) 0 (data_pos l (media_header l) [])).
    + intros o n Hon. apply (rd_data l img _ (media_header l) [] (page_data img) (nth 0 (sl_vol_ids l) []) 0 Hb).
      * apply rd_headM.
      * exact Hon.
    + rewrite Hl. lia.
Qed.

(** * disk sets *)

(** ** list bookkeeping of [open_common] *)
Lemma set_nth_length {A} (x : A) : forall l k, length (SadumpModel.set_nth l k x) = length l.
Proof. induction l as [| h t IH]; intros [| k]; cbn [SadumpModel.set_nth length]; auto. Qed.

Lemma nth_set_nth_eq {A} (x d : A) : forall l k, (k < length l)%nat -> nth k (SadumpModel.set_nth l k x) d = x.
Proof.
  induction l as [| h t IH]; intros [| k] H; cbn [SadumpModel.set_nth nth length] in *; try lia; [reflexivity |].
  apply IH. lia.
Qed.

Lemma nth_set_nth_ne {A} (x d : A) : forall l k j, j <> k -> nth j (SadumpModel.set_nth l k x) d = nth j l d.
Proof.
  induction l as [| h t IH]; intros [| k] [| j] H; cbn [SadumpModel.set_nth nth]; try reflexivity; try lia.
  apply IH. lia.
Qed.

Lemma set_nth_app {A} (x y : A) a b : SadumpModel.set_nth (a ++ y :: b) (length a) x = a ++ x :: b.
Proof. induction a as [| h t IH]; cbn [app length SadumpModel.set_nth]; [reflexivity | now rewrite IH]. Qed.

Lemma set_nth_app' {A} (x y : A) a b k : length a = k -> SadumpModel.set_nth (a ++ y :: b) k x = a ++ x :: b.
Proof. intros <-. apply set_nth_app. Qed.

Lemma map_seq_head {A} (f : nat -> A) m : (1 <= m)%nat -> map f (seq 0 m) = f 0%nat :: tl (map f (seq 0 m)).
Proof. destruct m; [lia | reflexivity]. Qed.

Lemma map_fst_combine {A B} : forall (a : list A) (b : list B), length a = length b -> map fst (combine a b) = a.
Proof. induction a as [| x a IH]; intros [| y b] H; cbn in *; try lia; [reflexivity |]. f_equal. apply IH. lia. Qed.

Lemma map_snd_combine {A B} : forall (a : list A) (b : list B), length a = length b -> map snd (combine a b) = b.
Proof. induction a as [| x a IH]; intros [| y b] H; cbn in *; try lia; [reflexivity |]. f_equal. apply IH. lia. Qed.

Lemma set_nth_repeat0 {A} (x y : A) m : (1 <= m)%nat ->
  SadumpModel.set_nth (repeat x m) 0 y = y :: repeat x (m - 1).
Proof. destruct m; [lia |]. intros _. cbn [repeat SadumpModel.set_nth]. replace (S m - 1)%nat with m by lia. reflexivity. Qed.

Lemma nth_in_tl {A} (l : list A) d k : (1 <= k < length l)%nat -> In (nth k l d) (tl l).
Proof.
  destruct l as [| h t]; [cbn; lia |]. destruct k; [lia |]. cbn [length tl nth]. intro H. apply nth_In. lia.
Qed.

(** ** a later disk of the set: partition header, then page data *)
Definition phfG (l : sd_layout) (disk : N) (vol : bytes) (used : N) : list fld :=
  [ F32 1969512819; F32 28781; F32 1; F32 0; F32 0; F32 0; FB 64 [];
    FB 32 (sub (sl_ids l) 0 32); FB 16 vol; FB 16 (sub (sl_ids l) 32 16);
    F32 disk; F32 0; F64 used ].

Section Later.
  Variable l : sd_layout.
  Variable img : image.
  Variable rd : N -> N -> N -> bytes.
  Variable fidx nfiles : N.
  Variable vol dk : bytes.
  Hypothesis Hb : sd_wf_base l img.

  Let bs := sl_block_size l.
  Let used := bs + len dk.
  Let disk := fidx + 1.
  Let F := part_header l disk vol used ++ dk.
  Let n := N.to_nat ((bs - 168) / 4).

  Hypothesis Hrd : forall off k, rd fidx off k = read_of F off k.

  Lemma phL_is : part_header l disk vol used = enc_flds false (phfG l disk vol used) ++ magic_seq n (sl_magic0 l).
  Proof. reflexivity. Qed.

  Lemma len_phL : len (part_header l disk vol used) = bs.
  Proof.
    rewrite phL_is, len_app, len_enc_flds, len_magic_seq.
    destruct (bs_facts l img rd [] [] [] Hb) as [_ [E _]]. fold bs n in E. cbn [flds_len fld_len phfG]. lia.
  Qed.

  Lemma sphL_is : rd fidx 0 SPH_SIZE = enc_flds false (phfG l disk vol used).
  Proof.
    rewrite Hrd. unfold F. rewrite phL_is, <- !app_assoc. apply read_of_exact'. rewrite len_enc_flds. reflexivity.
  Qed.

  Lemma rd_dataL o k : o + k <= len dk -> rd fidx (bs + o) k = read_of dk o k.
  Proof. intro H. rewrite Hrd. unfold F. rewrite <- len_phL. now rewrite read_of_skip_add. Qed.

  Hypothesis Hbreak : get false (read_of dk 0 4) <> next_magic l.

  Lemma vmnL : verify_magic_number rd fidx 0 = Ok bs.
  Proof.
    unfold verify_magic_number. destruct (bs_facts l img rd [] [] [] Hb) as [[Hb1 Hb2] [Ebs Hn]]. fold bs n in Hb1, Hb2, Ebs, Hn.
    pose proof (sw_magic0 _ _ Hb) as Hm0.
    assert (Hmu : magic_seq n (sl_magic0 l) = put32 false (sl_magic0 l) ++ magic_seq (n - 1) (nx (sl_magic0 l))).
    { destruct n as [| k] eqn:E; [lia |]. cbn [magic_seq]. replace (S k - 1)%nat with k by lia. reflexivity. }
    assert (HF : F = enc_flds false (phfG l disk vol used) ++ put32 false (sl_magic0 l)
                     ++ magic_seq (n - 1) (nx (sl_magic0 l)) ++ dk).
    { unfold F. rewrite phL_is, Hmu, <- !app_assoc. reflexivity. }
    assert (Hprev : get32 false (rd fidx (0 + SPH_SIZE) 4) 0 = sl_magic0 l).
    { rewrite Hrd, get32_read by lia. rewrite HF. unfold SPH_SIZE. rewrite N.add_0_l, N.add_0_r.
      rewrite (read_of_section' (enc_flds false (phfG l disk vol used)) (put32 false (sl_magic0 l)));
        [unfold put32; apply get_put; cbn; lia | rewrite len_enc_flds; reflexivity | now rewrite len_put32]. }
    rewrite Hprev.
    pose proof (magic_loop_run rd fidx F Hrd (n - 1) (sl_magic0 l) (enc_flds false (phfG l disk vol used)) dk
                  (N.to_nat 262144) HF) as Hrun.
    rewrite len_enc_flds in Hrun. change (flds_len (phfG l disk vol used)) with 168 in Hrun.
    unfold SPH_SIZE. rewrite N.add_0_l. rewrite Hrun.
    - replace (168 + 4 + 4 * N.of_nat (n - 1)) with bs by lia.
      rewrite N.sub_0_r. unfold bs. rewrite (is_pow2_bs l img rd [] [] [] Hb). reflexivity.
    - change (2^20) with 1048576 in Hb2. lia.
    - exact Hm0.
    - replace (S (n - 1)) with (S (N.to_nat ((sl_block_size l - 168) / 4 - 1))); [exact Hbreak |].
      fold bs. unfold n. lia.
  Qed.

  Hypothesis Hvol : len vol = 16.
  Hypothesis Hfidx : 1 <= fidx /\ fidx < nfiles /\ nfiles < 2^32.
  Hypothesis Hused : used < 2^64.

  Lemma sphL_fields :
    has_sig (enc_flds false (phfG l disk vol used)) = true /\
    get64 false (enc_flds false (phfG l disk vol used)) 160 = used /\
    get32 false (enc_flds false (phfG l disk vol used)) 152 = disk /\
    sub (enc_flds false (phfG l disk vol used)) 88 32 ++ sub (enc_flds false (phfG l disk vol used)) 136 16 = sl_ids l /\
    sub (enc_flds false (phfG l disk vol used)) 120 16 = vol.
  Proof.
    unfold has_sig. set (fs := phfG l disk vol used).
    rewrite (get32_flds false fs 0 1969512819) by (try reflexivity; cbn; lia).
    rewrite (get32_flds false fs 4 28781) by (try reflexivity; cbn; lia).
    split; [reflexivity |]. split; [apply get64_flds; [reflexivity | assumption | cbn; lia] |].
    split; [apply get32_flds; [reflexivity | unfold disk; lia | cbn; lia] |].
    rewrite (sub_flds false fs 88 32 (sub (sl_ids l) 0 32)) by (try reflexivity; cbn; lia).
    rewrite (sub_flds false fs 136 16 (sub (sl_ids l) 32 16)) by (try reflexivity; cbn; lia).
    rewrite (sub_flds false fs 120 16 vol) by (try reflexivity; cbn; lia).
    pose proof (sw_ids _ _ Hb) as Hi.
    assert (H32 : len (sub (sl_ids l) 0 32) = 32).
    { unfold len at 1. rewrite sub_length by (rewrite Hi; lia). reflexivity. }
    assert (H16 : len (sub (sl_ids l) 32 16) = 16).
    { unfold len at 1. rewrite sub_length by (rewrite Hi; lia). reflexivity. }
    rewrite !fit_exact by assumption. split; [| reflexivity].
    unfold sub. cbn [N.to_nat skipn]. change (Pos.to_nat 32) with 32%nat. change (Pos.to_nat 16) with 16%nat.
    rewrite <- (firstn_skipn 32 (sl_ids l)) at 3. f_equal.
    apply firstn_all2. rewrite skipn_length. unfold len in Hi. lia.
  Qed.

  Definition extL : extent := {| ex_pos := bs; ex_len := len dk; ex_fidx := fidx |}.

  (** [probe_file] on this file: its extent goes into the slot of its disk number *)
  Lemma probe_later a :
    pa_block_size a = bs -> pa_ids a = sl_ids l ->
    nth (N.to_nat fidx) (pa_seen a) false = false -> nth 0 (pa_seen a) false = true ->
    nth (N.to_nat fidx) (pa_vol a) None = Some vol ->
    probe_file rd nfiles fidx a =
    Ok {| pa_block_size := bs; pa_ids := sl_ids l; pa_vol := pa_vol a;
          pa_seen := SadumpModel.set_nth (pa_seen a) (N.to_nat fidx) true;
          pa_ext := SadumpModel.set_nth (pa_ext a) (N.to_nat fidx) extL;
          pa_ptr := pa_ptr a; pa_max_pfn := pa_max_pfn a; pa_bmp_pos := pa_bmp_pos a |}.
  Proof.
    intros Hbs Hids Hseen Hseen0 Hv. destruct Hfidx as [H1 [H2 H3]].
    unfold probe_file. rewrite sphL_is.
    destruct sphL_fields as [Hsig [Hu [Hd [Hi Hvv]]]]. rewrite Hsig.
    unfold open_common. rewrite Hi, Hu, Hd, Hvv. cbn [negb]. rewrite vmnL. rewrite N.sub_0_r.
    destruct (N.eqb_spec fidx 0); [lia |]. cbn [negb andb].
    rewrite Hbs, N.eqb_refl. cbn [negb]. rewrite Hids, (beqb_refl (sl_ids l)). cbn [negb].
    unfold disk. destruct (N.eqb_spec (fidx + 1) 0); [lia |].
    destruct (N.ltb_spec nfiles (fidx + 1)); [lia |].
    replace (fidx + 1 - 1) with fidx by lia. rewrite Hseen.
    unfold process_vol_id. rewrite Hseen0, Hv, (beqb_refl vol).
    destruct (N.ltb_spec 1 (fidx + 1)); [| lia].
    assert (Hlen : (used + 2^64 - bs) mod 2^64 = len dk).
    { unfold used. replace (bs + len dk + 2^64 - bs) with (len dk + 1 * 2^64) by lia.
      rewrite N.mod_add by discriminate. apply N.mod_small. unfold used in Hused. lia. }
    rewrite Hlen. reflexivity.
  Qed.
End Later.

(** ** the disk set header *)
Definition set_entry (id : bytes) : bytes := enc_flds false [FB 16 id; F64 0; F32 0; F32 0].

Lemma len_set_entry id : len (set_entry id) = 32.
Proof. unfold set_entry. rewrite len_enc_flds. reflexivity. Qed.

Lemma len_set_entries ids : len (flat_map set_entry ids) = 32 * N.of_nat (length ids).
Proof.
  induction ids as [| id t IH]; [reflexivity |]. cbn [flat_map length]. rewrite len_app, len_set_entry, IH. lia.
Qed.

Lemma sub_entry : forall ids A rest j,
  Forall (fun id => len id = 16) ids -> (j < length ids)%nat ->
  sub (A ++ flat_map set_entry ids ++ rest) (len A + 32 * N.of_nat j) 16 = nth j ids [].
Proof.
  induction ids as [| id t IH]; intros A rest j Hall Hj; [cbn in Hj; lia |].
  inversion Hall as [| ? ? Hid Ht]; subst. cbn [flat_map]. destruct j.
  - rewrite N.mul_0_r, N.add_0_r. cbn [nth]. unfold set_entry.
    change (enc_flds false [FB 16 id; F64 0; F32 0; F32 0]) with (fit 16 id ++ enc_flds false [F64 0; F32 0; F32 0]).
    rewrite fit_exact by assumption. rewrite <- !app_assoc.
    unfold sub. rewrite to_nat_len, skipn_app_exact. rewrite <- Hid, to_nat_len. apply firstn_app_exact.
  - cbn [nth]. rewrite <- app_assoc.
    replace (A ++ set_entry id ++ flat_map set_entry t ++ rest) with ((A ++ set_entry id) ++ flat_map set_entry t ++ rest)
      by (now rewrite <- app_assoc).
    replace (len A + 32 * N.of_nat (S j)) with (len (A ++ set_entry id) + 32 * N.of_nat j)
      by (rewrite len_app, len_set_entry; lia).
    apply IH; [exact Ht | cbn in Hj; lia].
Qed.

(** the loop of [init_disk_set] when no other disk has been seen yet *)
Fixpoint fill (k i : nat) (hdr : bytes) (vol : list (option bytes)) : list (option bytes) :=
  match k with
  | O => vol
  | S k' => fill k' (S i) hdr (SadumpModel.set_nth vol i (Some (sub hdr (16 + 32 * N.of_nat i) 16)))
  end.

Lemma vol_loop_fill : forall k i hdr vol seen,
  (forall j, nth j seen false = false) -> vol_loop k i hdr vol seen = Ok (fill k i hdr vol).
Proof.
  induction k as [| k IH]; intros i hdr vol seen H; [reflexivity |].
  cbn [vol_loop fill]. rewrite (H i). now apply IH.
Qed.

Lemma fill_length : forall k i hdr vol, length (fill k i hdr vol) = length vol.
Proof. induction k as [| k IH]; intros; [reflexivity |]. cbn [fill]. now rewrite IH, set_nth_length. Qed.

Lemma fill_nth : forall k i hdr vol j,
  (i + k <= length vol)%nat ->
  nth j (fill k i hdr vol) None =
  if (Nat.leb i j && Nat.ltb j (i + k))%bool then Some (sub hdr (16 + 32 * N.of_nat j) 16) else nth j vol None.
Proof.
  induction k as [| k IH]; intros i hdr vol j H.
  - cbn [fill]. destruct (Nat.leb_spec i j); destruct (Nat.ltb_spec j (i + 0)); cbn [andb]; try reflexivity; lia.
  - cbn [fill]. rewrite IH by (rewrite set_nth_length; lia).
    destruct (Nat.leb_spec (S i) j); destruct (Nat.ltb_spec j (S i + k)); cbn [andb].
    + destruct (Nat.leb_spec i j); destruct (Nat.ltb_spec j (i + S k)); cbn [andb]; try reflexivity; lia.
    + rewrite nth_set_nth_ne by lia.
      destruct (Nat.leb_spec i j); destruct (Nat.ltb_spec j (i + S k)); cbn [andb]; try reflexivity; lia.
    + destruct (Nat.eq_dec j i) as [-> | Hne].
      * rewrite nth_set_nth_eq by lia.
        destruct (Nat.leb_spec i i); destruct (Nat.ltb_spec i (i + S k)); cbn [andb]; try reflexivity; lia.
      * rewrite nth_set_nth_ne by lia.
        destruct (Nat.leb_spec i j); destruct (Nat.ltb_spec j (i + S k)); cbn [andb]; try reflexivity; lia.
    + lia.
Qed.

(** ** a disk set, the files given in disk order *)
Record sd_wf_set (l : sd_layout) (img : image) : Prop := {
  ss_base : sd_wf_base l img;
  ss_kind : sl_kind l = SdDiskSet;
  ss_vols : sl_vol_ids l <> [] /\ Forall (fun id => len id = 16) (sl_vol_ids l) /\
            N.of_nat (length (sl_vol_ids l)) < 2^16;
  ss_parts : length (sl_disk_pages l) = length (sl_vol_ids l) /\
             Forall (fun c => 1 <= c) (sl_disk_pages l) /\
             SD_PAGE * fold_right N.add 0 (sl_disk_pages l) = len (page_data img);
  ss_hdr : 16 + 32 * N.of_nat (length (sl_vol_ids l)) <= sl_set_hdr_blocks l * sl_block_size l /\
           sl_set_hdr_blocks l < 2^32;
  (* what follows a partition header block must not continue its magic numbers:
     the disk set header on disk 1, page data on the others *)
  ss_break1 : sl_set_hdr_blocks l <> next_magic l;
  ss_break : Forall (fun d => get false (read_of d 0 4) <> next_magic l)
                    (tl (split_data (page_data img) (sl_disk_pages l)));
  ss_size : Forall (fun f => len f < 2^64) (encode_sadump l img)
}.

Lemma split_data_length data counts : length (split_data data counts) = length counts.
Proof. revert data. induction counts as [| c t IH]; intro data; [reflexivity |]. cbn [split_data length]. now rewrite IH. Qed.

Lemma split_data_concat : forall counts data,
  SD_PAGE * fold_right N.add 0 counts = len data ->
  concat (split_data data counts) = data /\
  Forall2 (fun d c => len d = c * SD_PAGE) (split_data data counts) counts.
Proof.
  induction counts as [| c t IH]; intros data H.
  - cbn [fold_right] in H. cbn [split_data concat]. split; [| constructor].
    destruct data; [reflexivity |]. rewrite len_cons in H. lia.
  - cbn [fold_right split_data concat] in *.
    assert (Hc : c * SD_PAGE <= len data) by lia.
    assert (Hs : sub data 0 (c * SD_PAGE) = firstn (N.to_nat (c * SD_PAGE)) data) by reflexivity.
    destruct (IH (skipn (N.to_nat (c * SD_PAGE)) data)) as [Hcat Hall].
    { unfold len. rewrite skipn_length. unfold len in H, Hc. lia. }
    split.
    + rewrite Hcat, Hs. apply firstn_skipn.
    + constructor; [| exact Hall]. rewrite Hs. unfold len. rewrite firstn_length. unfold len in Hc. lia.
Qed.

Lemma parts_page_multiple (dss : list bytes) cs :
  Forall2 (fun d c => len d = c * SD_PAGE) dss cs ->
  forall j, (j < length dss)%nat -> exists c, len (nth j dss []) = c * SD_PAGE.
Proof.
  induction 1 as [| d c dt ct Hdc Hr IH]; intros j Hj; [cbn in Hj; lia |].
  destruct j; [exists c; exact Hdc |]. cbn [nth]. apply IH. cbn in Hj. lia.
Qed.

Section DiskSet.
  Variable l : sd_layout.
  Variable img : image.
  Hypothesis Hwf : sd_wf_set l img.

  Let bs := sl_block_size l.
  Let data := page_data img.
  Let ds := split_data data (sl_disk_pages l).
  Let vols := sl_vol_ids l.
  Let n := length vols.
  Let SH := disk_set_header l.
  Let d1 := nth 0 ds [].
  Let v1 := nth 0 vols [].
  Let files := encode_sadump l img.
  Let rd := read_files files.
  Let Hb := ss_base _ _ Hwf.

  Lemma n_pos : (1 <= n)%nat.
  Proof. destruct (ss_vols _ _ Hwf) as [Hne _]. unfold n, vols. destruct (sl_vol_ids l); [contradiction | cbn; lia]. Qed.

  Lemma ds_length : length ds = n.
  Proof. unfold ds. rewrite split_data_length. apply (ss_parts _ _ Hwf). Qed.

  Lemma len_SH : len SH = sl_set_hdr_blocks l * bs.
  Proof. apply len_fit. Qed.

  Definition later_file (k : nat) : bytes :=
    part_header l (N.of_nat k + 1) (nth k vols []) (bs + len (nth k ds [])) ++ nth k ds [].

  Definition head_file : bytes :=
    part_header l 1 v1 (bs + len SH + body_len l + len d1) ++ SH ++ body l img ++ d1.

  Lemma files_nth k : (k < n)%nat ->
    nth k files [] = if Nat.eqb k 0 then head_file else later_file k.
  Proof.
    intro Hk. unfold files, encode_sadump. rewrite (ss_kind _ _ Hwf).
    pose proof ds_length as Hdl. pose proof n_pos as Hn. unfold n, vols in *. fold bs data ds SH.
    unfold head_file, later_file, d1, v1, vols.
    destruct ds as [| p rest] eqn:Eds; [cbn in Hdl; lia |].
    destruct (sl_vol_ids l) as [| v vrest] eqn:Ev; [cbn in Hn; lia |].
    cbn [length] in Hdl, Hk. destruct k as [| j]; [reflexivity |].
    cbn [nth Nat.eqb].
    set (f := fun kdv : N * (bytes * bytes) => let '(k, (d, v0)) := kdv in part_header l k v0 (bs + len d) ++ d).
    assert (Hlen : length (combine (map N.of_nat (seq 2 (length rest))) (combine rest vrest)) = length rest).
    { rewrite !combine_length, map_length, seq_length. lia. }
    rewrite (nth_indep _ [] (f (0, ([], [])))) by (rewrite map_length, Hlen; lia).
    rewrite map_nth.
    assert (E1 : nth j (combine (map N.of_nat (seq 2 (length rest))) (combine rest vrest)) (0, ([], []))
                 = (nth j (map N.of_nat (seq 2 (length rest))) 0, (nth j rest [], nth j vrest []))).
    { rewrite combine_nth by (rewrite map_length, seq_length, combine_length; lia).
      f_equal. apply combine_nth. lia. }
    unfold bytes in *. rewrite E1.
    rewrite (nth_indep _ 0 (N.of_nat 0)) by (rewrite map_length, seq_length; lia).
    rewrite map_nth, seq_nth by lia. unfold f.
    replace (N.of_nat (2 + j)) with (N.of_nat (S j) + 1) by lia. reflexivity.
  Qed.

  Lemma rd_file k off cnt : rd (N.of_nat k) off cnt = read_of (nth k files []) off cnt.
  Proof. unfold rd, read_files. now rewrite Nat2N.id. Qed.

  (** *** disk 1 *)
  Let usedH := len (@nil N) + bs + len SH + body_len l + len d1.

  Lemma usedS_is : usedH = bs + len SH + body_len l + len d1.
  Proof. unfold usedH. rewrite len_nil. lia. Qed.

  Lemma rd_headS off k : rd 0 off k = read_of ([] ++ part_header l 1 v1 usedH ++ SH ++ body l img ++ d1) off k.
  Proof.
    rewrite usedS_is. change 0 with (N.of_nat 0). rewrite rd_file, files_nth by apply n_pos. reflexivity.
  Qed.

  Lemma v1_len : len v1 = 16.
  Proof.
    destruct (ss_vols _ _ Hwf) as [Hne [Hall _]]. unfold v1, vols.
    destruct (sl_vol_ids l) as [| v t]; [contradiction |]. inversion Hall; subst. assumption.
  Qed.

  Lemma files_small k : (k < n)%nat -> len (nth k files []) < 2^64.
  Proof.
    intro Hk. pose proof (ss_size _ _ Hwf) as Hall. fold files in Hall. rewrite Forall_forall in Hall.
    apply Hall. apply nth_In.
    unfold files, encode_sadump. rewrite (ss_kind _ _ Hwf).
    pose proof ds_length as Hdl. unfold n, vols in *. fold bs data ds SH.
    destruct ds as [| p rest]; [cbn in Hdl; lia |].
    destruct (sl_vol_ids l) as [| v vrest]; [cbn in Hk; lia |].
    cbn [length] in *. rewrite map_length, !combine_length, map_length, seq_length. lia.
  Qed.

  Lemma used_smallS : usedH < 2^64.
  Proof.
    pose proof (files_small 0 n_pos) as H. rewrite files_nth in H by apply n_pos. cbn [Nat.eqb] in H.
    unfold head_file in H. rewrite !len_app in H.
    rewrite (len_body l img rd [] [] [] Hb) in H.
    pose proof (len_PHb l img rd [] SH d1 v1 1 Hb) as Hp. unfold PHb in Hp.
    change (len (@nil N) + sl_block_size l + len SH + body_len l + len d1) with usedH in Hp.
    rewrite usedS_is in Hp. rewrite Hp in H. rewrite usedS_is. fold bs in H. lia.
  Qed.

  Definition SHc : bytes :=
    enc_flds false [F32 (sl_set_hdr_blocks l); F32 (N.of_nat n); F64 0] ++ flat_map set_entry vols.

  Lemma SH_is : SH = SHc ++ zeros (sl_set_hdr_blocks l * bs - len SHc).
  Proof.
    unfold SH, disk_set_header. fold bs. apply fit_small.
    unfold SHc. rewrite len_app, len_enc_flds, len_set_entries. destruct (ss_hdr _ _ Hwf) as [H _].
    fold bs vols n in H. cbn [flds_len fld_len]. fold n. lia.
  Qed.

  Lemma break_set : get false (read_of (after_block l img SH d1) 0 4) <> next_magic l.
  Proof.
    unfold after_block. rewrite SH_is. unfold SHc.
    change (enc_flds false [F32 (sl_set_hdr_blocks l); F32 (N.of_nat n); F64 0])
      with (put32 false (sl_set_hdr_blocks l) ++ enc_flds false [F32 (N.of_nat n); F64 0]).
    rewrite <- !app_assoc. rewrite (read_of_exact' (put32 false (sl_set_hdr_blocks l))) by (now rewrite len_put32).
    destruct (ss_hdr _ _ Hwf) as [_ Hlt].
    unfold put32. rewrite get_put by (cbn; lia). exact (ss_break1 _ _ Hwf).
  Qed.

  (** the volume ids in the header, as [init_disk_set] reads them *)
  Lemma SH_id j : (j < n)%nat -> sub SH (16 + 32 * N.of_nat j) 16 = nth j vols [].
  Proof.
    intro Hj. rewrite SH_is. unfold SHc. rewrite <- app_assoc.
    destruct (ss_vols _ _ Hwf) as [_ [Hall _]].
    apply (sub_entry vols (enc_flds false [F32 (sl_set_hdr_blocks l); F32 (N.of_nat n); F64 0]) _ j Hall Hj).
  Qed.

  Definition vol_all : list (option bytes) := map Some vols.

  Lemma init_ok a :
    length (pa_vol a) = n -> (forall j, nth j (pa_seen a) false = false) ->
    init_disk_set rd 0 (len (@nil N) + bs) bs (N.of_nat n) a = Ok (hdr_pos l [] SH, vol_all).
  Proof.
    intros Hlen Hseen. unfold init_disk_set.
    destruct (ss_hdr _ _ Hwf) as [Hfit Hblk]. fold bs vols n in Hfit.
    destruct (ss_vols _ _ Hwf) as [_ [_ Hn16]]. fold vols n in Hn16.
    pose proof (rd_mid_part l img rd [] SH d1 v1 1 Hb rd_headS) as Hpart.
    pose proof (rd_mid l img rd [] SH d1 v1 1 Hb rd_headS) as Hmid.
    assert (Hblocks : get32 false (rd 0 (len (@nil N) + bs) 4) 0 = sl_set_hdr_blocks l).
    { rewrite <- (N.add_0_r (len [] + bs)). fold bs in Hpart. rewrite Hpart by (rewrite len_SH; lia).
      rewrite SH_is. rewrite read_of_prefix by (unfold SHc; rewrite len_app, len_enc_flds; cbn [flds_len fld_len]; lia).
      unfold SHc. unfold get32. rewrite sub_read_of by lia. rewrite N.add_0_l.
      apply get32_fld; [reflexivity | assumption]. }
    rewrite Hblocks.
    destruct (N.ltb_spec (sl_set_hdr_blocks l * bs) 16); [lia |].
    fold bs in Hmid. rewrite <- len_SH. rewrite Hmid.
    assert (Hnum : get32 false SH 4 = N.of_nat n).
    { rewrite SH_is. unfold get32. rewrite sub_eq_read_of by (rewrite len_app, len_zeros; unfold SHc; rewrite len_app, len_enc_flds; cbn [flds_len fld_len]; lia).
      unfold SHc. rewrite <- !app_assoc. apply get32_fld; [reflexivity | lia]. }
    rewrite Hnum, N.eqb_refl. cbn [negb].
    destruct (N.ltb_spec (len SH) (16 + N.of_nat n * 32)); [rewrite len_SH in *; lia |].
    rewrite Nat2N.id, (vol_loop_fill n 0 SH (pa_vol a) (pa_seen a) Hseen).
    f_equal. apply f_equal2; [reflexivity |].
    unfold vol_all. apply (nth_ext _ _ None None).
    - rewrite fill_length, map_length. exact Hlen.
    - intros j Hj. rewrite fill_length, Hlen in Hj. rewrite fill_nth by lia.
      destruct (Nat.leb_spec 0 j); [| lia]. destruct (Nat.ltb_spec j (0 + n)); [| lia]. cbn [andb].
      rewrite SH_id by assumption.
      transitivity (nth j (map Some vols) (Some [])); [now rewrite map_nth | apply nth_indep; rewrite map_length; exact Hj].
  Qed.

  (** *** the whole set *)
  Definition zero_ext : extent := {| ex_pos := 0; ex_len := 0; ex_fidx := 0 |}.

  Definition ext_of (k : nat) : extent :=
    match k with
    | O => ext0 l [] SH d1
    | S _ => {| ex_pos := bs; ex_len := len (nth k ds []); ex_fidx := N.of_nat k |}
    end.

  Definition exts : list extent := map ext_of (seq 0 n).

  Record inv (k : nat) (a : probe_acc) : Prop := {
    i_bs : pa_block_size a = bs;
    i_ids : pa_ids a = sl_ids l;
    i_vol : pa_vol a = vol_all;
    i_seen : pa_seen a = repeat true k ++ repeat false (n - k);
    i_ext : pa_ext a = map ext_of (seq 0 k) ++ repeat zero_ext (n - k);
    i_ptr : pa_ptr a = Some (ptr l);
    i_max : pa_max_pfn a = sl_max_mapnr l;
    i_bmp : pa_bmp_pos a = bmp_pos l [] SH
  }.

  Lemma head_step :
    exists a, probe_file rd (N.of_nat n) 0 (a0 n) = Ok a /\ inv 1 a.
  Proof.
    pose proof n_pos as Hn. pose proof v1_len as Hv. assert (Hd : 1 < 2^32) by reflexivity.
    unfold probe_file.
    pose proof (sph_is l img rd [] SH d1 v1 1 rd_headS) as Hs. change (len []) with 0 in Hs. rewrite Hs.
    destruct (sph_fields l img rd [] SH d1 v1 1 Hb rd_headS break_set Hv Hd used_smallS) as [Hsig _]. rewrite Hsig.
    pose proof (oc_set l img rd [] SH d1 v1 1 Hb rd_headS break_set Hv Hd used_smallS (a0 n) (N.of_nat n) vol_all
                  eq_refl ltac:(lia) eq_refl) as Ho.
    change (len (@nil N)) with 0 in Ho at 1.
    eexists. split.
    - apply Ho.
      + cbn [a0 pa_seen]. destruct n; [lia | reflexivity].
      + apply init_ok.
        * cbn [a0 pa_vol]. rewrite set_nth_length, repeat_length. reflexivity.
        * intro j. cbn [a0 pa_seen]. destruct (Nat.lt_ge_cases j n).
          -- now rewrite nth_repeat.
          -- apply nth_overflow. rewrite repeat_length. lia.
    - constructor; cbn [pa_block_size pa_ids pa_vol pa_seen pa_ext pa_ptr pa_max_pfn pa_bmp_pos a0]; try reflexivity.
      + rewrite set_nth_repeat0 by exact Hn. reflexivity.
      + rewrite set_nth_repeat0 by exact Hn. reflexivity.
  Qed.

  Lemma later_step k a :
    (1 <= k < n)%nat -> inv k a ->
    exists a', probe_file rd (N.of_nat n) (N.of_nat k) a = Ok a' /\ inv (S k) a'.
  Proof.
    intros Hk [Ibs Iids Ivol Iseen Iext Iptr Imax Ibmp].
    destruct (ss_vols _ _ Hwf) as [_ [Hall Hn16]]. fold vols n in Hall, Hn16.
    assert (Hvk : len (nth k vols []) = 16).
    { rewrite Forall_forall in Hall. apply Hall. apply nth_In. unfold n in Hk. lia. }
    assert (Hrdk : forall off c, rd (N.of_nat k) off c =
              read_of (part_header l (N.of_nat k + 1) (nth k vols []) (bs + len (nth k ds [])) ++ nth k ds []) off c).
    { intros. rewrite rd_file, files_nth by lia. destruct k; [lia | reflexivity]. }
    assert (Hbrk : get false (read_of (nth k ds []) 0 4) <> next_magic l).
    { pose proof (ss_break _ _ Hwf) as Hbr. fold data ds in Hbr. rewrite Forall_forall in Hbr.
      apply Hbr. apply nth_in_tl. rewrite ds_length. lia. }
    assert (Husedk : bs + len (nth k ds []) < 2^64).
    { pose proof (files_small k ltac:(lia)) as H. rewrite files_nth in H by lia.
      destruct k as [| j]; [lia |]. cbn [Nat.eqb] in H. unfold later_file in H. rewrite len_app in H.
      pose proof (len_phL l img rd (N.of_nat (S j)) (nth (S j) vols []) (nth (S j) ds []) Hb Hrdk) as Hp.
      fold bs in Hp. rewrite Hp in H. exact H. }
    pose proof (probe_later l img rd (N.of_nat k) (N.of_nat n) (nth k vols []) (nth k ds []) Hb Hrdk Hbrk Hvk
                  ltac:(lia) Husedk a Ibs Iids) as Hp.
    rewrite Nat2N.id in Hp.
    eexists. split.
    - apply Hp.
      + rewrite Iseen. rewrite app_nth2 by (rewrite repeat_length; lia). rewrite repeat_length.
        apply nth_repeat.
      + rewrite Iseen. rewrite app_nth1 by (rewrite repeat_length; lia).
        clear - Hk. destruct k; [lia | reflexivity].
      + rewrite Ivol. unfold vol_all.
        transitivity (nth k (map Some vols) (Some [])); [apply nth_indep; rewrite map_length; unfold n in Hk; lia | now rewrite map_nth].
    - constructor; cbn [pa_block_size pa_ids pa_vol pa_seen pa_ext pa_ptr pa_max_pfn pa_bmp_pos]; try assumption; try reflexivity.
      + rewrite Iseen. replace (n - k)%nat with (S (n - S k)) by lia. cbn [repeat].
        rewrite set_nth_app' by apply repeat_length.
        rewrite repeat_cons, <- app_assoc. reflexivity.
      + rewrite Iext. replace (n - k)%nat with (S (n - S k)) by lia. cbn [repeat].
        rewrite set_nth_app' by (now rewrite map_length, seq_length).
        rewrite seq_S, map_app. cbn [map Nat.add]. rewrite <- app_assoc. cbn [app].
        do 2 f_equal. unfold extL, ext_of. clear - Hk. destruct k; [lia | reflexivity].
  Qed.

  Lemma rest_steps : forall j k a,
    (1 <= k)%nat -> (k + j = n)%nat -> inv k a ->
    exists a', probe_files rd j (N.of_nat n) (N.of_nat k) a = Ok a' /\ inv n a'.
  Proof.
    induction j as [| j IH]; intros k a Hk Hsum Hinv.
    - exists a. split; [reflexivity |]. replace n with k by lia. exact Hinv.
    - cbn [probe_files]. destruct (later_step k a ltac:(lia) Hinv) as [a1 [Hp Hi1]]. rewrite Hp.
      replace (N.of_nat k + 1) with (N.of_nat (S k)) by lia. apply IH; [lia | lia | exact Hi1].
  Qed.

  Lemma probe_all : forall fuel, fuel = n ->
    exists a, probe_files rd fuel (N.of_nat n) 0 (a0 n) = Ok a /\ inv n a.
  Proof.
    intros fuel E. pose proof n_pos as Hn. destruct fuel as [| j]; [lia |]. cbn [probe_files].
    destruct head_step as [a1 [Hp1 Hi1]]. rewrite Hp1.
    change (0 + 1) with (N.of_nat 1). apply (rest_steps j 1 a1); [lia | lia | exact Hi1].
  Qed.

  Theorem sd_open_set :
    sd_open rd n = Ok (the_state img (nbytes l) exts (sl_max_mapnr l) bs (ptr l) (N.of_nat n)).
  Proof.
    pose proof n_pos as Hn. pose proof v1_len as Hv. assert (Hd : 1 < 2^32) by reflexivity.
    unfold sd_open. fold (a0 n).
    destruct (probe_all n eq_refl) as [a [Hpf [Ibs Iids Ivol Iseen Iext Iptr Imax Ibmp]]].
    rewrite Hpf. cbv beta iota.
    assert (Hexts' : exts = ext0 l [] SH d1 :: tl exts).
    { unfold exts. apply (map_seq_head ext_of n Hn). }
    assert (Hexts : pa_ext a = ext0 l [] SH d1 :: tl exts).
    { rewrite Iext, Nat.sub_diag. cbn [repeat]. rewrite app_nil_r. exact Hexts'. }
    rewrite Hexts' at 1.
    apply (open_tail l img rd [] SH d1 v1 1 Hb rd_headS break_set Hv Hd used_smallS a (tl exts)); assumption.
  Qed.

  (** the extents lay out the page data *)
  Lemma set_page_path k : k < count_some img ->
    exists f o, ext_loop exts (4096 * k) = Some (f, o) /\
                rd f o 4096 = read_of (page_data img) (4096 * k) 4096.
  Proof.
    intro Hk. pose proof (len_page_data img (sw_pages _ _ Hb)) as Hl.
    destruct (ss_parts _ _ Hwf) as [Hlenp [_ Hsum]].
    destruct (split_data_concat (sl_disk_pages l) (page_data img) Hsum) as [Hcat Hlens]. fold data ds in Hcat, Hlens.
    pose proof ds_length as Hdl.
    set (chunks := combine exts ds).
    assert (Hfst : map fst chunks = exts).
    { unfold chunks. apply map_fst_combine. unfold exts. rewrite map_length, seq_length. lia. }
    assert (Hsnd : map snd chunks = ds).
    { unfold chunks. apply map_snd_combine. unfold exts. rewrite map_length, seq_length. lia. }
    rewrite <- Hfst. fold data. rewrite <- Hcat, <- Hsnd.
    apply ext_loop_chunks.
    - apply Forall_forall. intros [e d] Hin. cbn [fst snd].
      apply (In_nth _ _ (zero_ext, [])) in Hin as [j [Hj Hnth]].
      unfold chunks in Hj, Hnth. rewrite combine_length in Hj. unfold exts in Hj. rewrite map_length, seq_length in Hj.
      assert (E : nth j (combine exts ds) (zero_ext, []) = (nth j exts zero_ext, nth j ds []))
        by (apply combine_nth; unfold exts; rewrite map_length, seq_length; lia).
      pose proof (eq_trans (eq_sym E) Hnth) as Hn2. injection Hn2 as He Hd'. subst e d.
      assert (Hjn : (j < n)%nat) by lia.
      unfold exts. rewrite (nth_indep _ zero_ext (ext_of 0)) by (rewrite map_length, seq_length; lia).
      rewrite map_nth, seq_nth by lia. cbn [Nat.add].
      assert (Hmod : len (nth j ds []) mod 4096 = 0).
      { assert (Hc : exists c, len (nth j ds []) = c * SD_PAGE).
        { apply (parts_page_multiple ds (sl_disk_pages l) Hlens). lia. }
        destruct Hc as [c ->]. unfold SD_PAGE. apply N.mod_mul. discriminate. }
      destruct j as [| j'].
      + cbn [ext_of ext0 ex_len ex_fidx ex_pos]. fold d1. split; [reflexivity |]. split; [exact Hmod |].
        intros o c Hoc. apply (rd_data l img rd [] SH d1 v1 1 Hb rd_headS o c Hoc).
      + cbn [ext_of ex_len ex_fidx ex_pos]. split; [reflexivity |]. split; [exact Hmod |].
        intros o c Hoc.
        assert (Hrdk : forall off c0, rd (N.of_nat (S j')) off c0 =
                  read_of (part_header l (N.of_nat (S j') + 1) (nth (S j') vols []) (bs + len (nth (S j') ds [])) ++ nth (S j') ds []) off c0).
        { intros. rewrite rd_file, files_nth by lia. reflexivity. }
        apply (rd_dataL l img rd (N.of_nat (S j')) (nth (S j') vols []) (nth (S j') ds []) Hb Hrdk o c Hoc).
    - rewrite N.mul_comm. apply N.mod_mul. discriminate.
    - rewrite Hsnd, Hcat. unfold data. rewrite Hl. lia.
  Qed.
End DiskSet.

Theorem sadump_set_roundtrip l img :
  sd_wf_set l img ->
  exists st, sd_open (read_files (encode_sadump l img)) (length (sl_vol_ids l)) = Ok st /\
    sd_ptr_size st = (if existsb (fun b => b) (sl_lma l) then 8 else 4) /\
    sd_max_pfn st = sl_max_mapnr l /\ sd_block_size st = sl_block_size l /\
    forall z pfn,
      sd_read_page (read_files (encode_sadump l img)) st z pfn =
      spec_read_page img SADUMP_PAGE_SIZE (sl_max_mapnr l) z pfn.
Proof.
  intro Hwf. pose proof (ss_base _ _ Hwf) as Hb.
  eexists. split; [exact (sd_open_set l img Hwf) |].
  split; [reflexivity |]. split; [reflexivity |]. split; [reflexivity |].
  intros z pfn. apply sadump_page_path.
  - exact (sw_pages _ _ Hb).
  - destruct (sw_cover _ _ Hb) as [H1 H2]. unfold nbytes. lia.
  - intros k Hk. exact (set_page_path l img Hwf k Hk).
Qed.
