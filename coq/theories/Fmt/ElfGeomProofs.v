(** C01, ELF geometry: the way elfdump.c derives pointer size and page size
    ([ElfGeomModel]), run on an encoded dump whose NOTE segments hold notes
    ([ElfGeomSpec]), yields what the dump announces. *)
From Coq Require Import NArith List Bool Lia Arith.
From KdV Require Base.Wrap64 Attr.AttrBase Attr.Hooks.
From KdV Require Import Fmt.Codec Fmt.CodecProofs Fmt.ElfModel Fmt.ElfSpec Fmt.ElfGeomModel Fmt.ElfGeomSpec.
Import ListNotations.
Local Open Scope N_scope.

(** * strtoul on a decimal number *)
Lemma dec_val_ge s : forall acc n, dec_val s acc = Some n -> acc <= n.
Proof.
  induction s as [| c t IH]; intros acc n H; cbn [dec_val] in H.
  - injection H as <-. lia.
  - destruct ((48 <=? c) && (c <=? 57)); [| discriminate]. apply IH in H. lia.
Qed.

Lemma digits_decimal s : forall acc any n,
  dec_val s acc = Some n -> n < Wrap64.W ->
  AttrBase.digits 10 s acc false any = (n, false, any || negb (Nat.eqb (length s) 0), []).
Proof.
  induction s as [| c t IH]; intros acc any n H Hn; cbn [dec_val] in H.
  - injection H as <-. cbn. now rewrite orb_false_r.
  - destruct ((48 <=? c) && (c <=? 57)) eqn:Hd; [| discriminate].
    cbn [AttrBase.digits]. unfold AttrBase.digit_val. rewrite Hd.
    apply andb_prop in Hd as [H1 H2]. apply N.leb_le in H1. apply N.leb_le in H2.
    destruct (N.ltb_spec (c - 48) 10); [| lia].
    pose proof (dec_val_ge t _ _ H) as Hge.
    destruct (N.leb_spec Wrap64.W (acc * 10 + (c - 48))); [lia |]. cbn [orb].
    rewrite (IH _ true n H Hn). cbn [length Nat.eqb negb orb]. now rewrite orb_true_r.
Qed.

Lemma strtoull_decimal v n :
  decimal v = Some n -> n < 2^64 -> AttrBase.strtoull 10 v = (n, []).
Proof.
  intros H Hn. destruct v as [| c t]; [discriminate |]. unfold decimal in H.
  assert (Hc : 48 <= c <= 57).
  { cbn [dec_val] in H. destruct ((48 <=? c) && (c <=? 57)) eqn:E; [| discriminate].
    apply andb_prop in E as [E1 E2]. apply N.leb_le in E1. apply N.leb_le in E2. lia. }
  unfold AttrBase.strtoull. cbn [AttrBase.skip_space].
  assert (Hsp : AttrBase.isspace c = false).
  { unfold AttrBase.isspace. destruct (N.eqb_spec c 32); [lia |].
    destruct (N.leb_spec 9 c); destruct (N.leb_spec c 13); try reflexivity; lia. }
  rewrite Hsp. destruct (N.eqb_spec c 45); [lia |]. destruct (N.eqb_spec c 43); [lia |].
  assert (E0 : (10 =? 0) = false) by reflexivity. assert (E16 : (10 =? 16) = false) by reflexivity.
  rewrite E0, E16. cbn [orb]. rewrite !andb_false_r.
  pose proof (digits_decimal (c :: t) 0 false n H ltac:(rewrite Wrap64.W_val; exact Hn)) as Hd.
  cbn [length Nat.eqb negb orb] in Hd.
  destruct t as [| x t0]; rewrite ?andb_false_r; cbv iota beta; rewrite Hd; reflexivity.
Qed.

Lemma size_test_pow2 k : k < 64 -> Hooks.size_test (2^k) = true.
Proof.
  intro Hk.
  assert (Hall : forallb (fun j => Hooks.size_test (2 ^ N.of_nat j)) (seq 0 64) = true) by (vm_compute; reflexivity).
  rewrite forallb_forall in Hall. specialize (Hall (N.to_nat k)).
  rewrite N2Nat.id in Hall. apply Hall. apply in_seq. lia.
Qed.

(** * byte string comparisons *)
Lemma bytes_eq_true a : forall b, bytes_eq a b = true <-> a = b.
Proof.
  induction a as [| x a IH]; intros [| y b]; cbn [bytes_eq]; try (split; [discriminate | discriminate]).
  - split; reflexivity.
  - rewrite andb_true_iff, N.eqb_eq, IH. split; [intros [-> ->]; reflexivity | intro E; injection E; auto].
Qed.

Lemma bytes_eqb_true a : forall b, ElfGeomModel.bytes_eqb a b = true <-> a = b.
Proof.
  unfold ElfGeomModel.bytes_eqb. induction a as [| x a IH]; intros [| y b]; cbn [length Nat.eqb combine forallb andb fst snd];
    try (split; [discriminate | discriminate]).
  - split; reflexivity.
  - specialize (IH b). rewrite andb_true_iff in *. rewrite andb_true_iff. rewrite N.eqb_eq.
    split.
    + intros [Hl [Hx Hf]]. subst y. f_equal. apply IH. split; assumption.
    + intro E. injection E as -> ->. destruct (proj2 IH eq_refl) as [Hl Hf]. repeat split; assumption.
Qed.

Lemma bytes_eqb_eq a b : ElfGeomModel.bytes_eqb a b = bytes_eq a b.
Proof.
  destruct (bytes_eq a b) eqn:E.
  - apply bytes_eq_true in E. now apply bytes_eqb_true.
  - destruct (ElfGeomModel.bytes_eqb a b) eqn:E2; [| reflexivity].
    apply bytes_eqb_true in E2. apply bytes_eq_true in E2. congruence.
Qed.

(** * VMCOREINFO texts *)
Definition no_byte (c : N) (s : bytes) : Prop := Forall (fun x => x <> c) s.

Lemma lines_of_line a rest : forall cur,
  no_byte 10 a -> lines_of (a ++ 10 :: rest) cur = (rev cur ++ a) :: lines_of rest [].
Proof.
  induction a as [| x a IH]; intros cur H; cbn [app lines_of].
  - change (10 =? NL) with true. cbv iota. now rewrite app_nil_r.
  - inversion H as [| ? ? Hx Ha]; subst. unfold NL. apply N.eqb_neq in Hx. rewrite Hx.
    rewrite IH by assumption. cbn [rev]. now rewrite <- app_assoc.
Qed.

Definition kv_shape (kv : bytes * bytes) : Prop :=
  no_byte 10 (fst kv) /\ no_byte 61 (fst kv) /\ no_byte 10 (snd kv).

Lemma lines_of_render kvs :
  Forall kv_shape kvs ->
  lines_of (render_text kvs) [] = map (fun kv => fst kv ++ 61 :: snd kv) kvs.
Proof.
  induction 1 as [| kv t [Hk [_ Hv]] Ht IH]; [reflexivity |].
  unfold render_text in *. cbn [flat_map map]. unfold render_line at 1.
  replace ((fst kv ++ [61] ++ snd kv ++ [10]) ++ flat_map render_line t)
    with ((fst kv ++ 61 :: snd kv) ++ 10 :: flat_map render_line t)
    by (rewrite <- !app_assoc; reflexivity).
  rewrite lines_of_line.
  - cbn [rev app]. now rewrite IH.
  - apply Forall_app. split; [exact Hk |]. constructor; [discriminate | exact Hv].
Qed.

Lemma split_eq_line k v : no_byte 61 k -> split_eq (k ++ 61 :: v) = (k, v).
Proof.
  induction 1 as [| x k Hx Hk IH]; cbn [app split_eq].
  - reflexivity.
  - unfold EQ. apply N.eqb_neq in Hx. rewrite Hx, IH. reflexivity.
Qed.

(** a PAGESIZE line announces a power of two in decimal *)
Definition kv_ok (kv : bytes * bytes) : Prop :=
  kv_shape kv /\
  (bytes_eq (fst kv) key_PAGESIZE = true -> exists k, k < 64 /\ decimal (snd kv) = Some (2^k)).

Lemma line_page_size_ok kv page :
  kv_ok kv -> line_page_size (fst kv ++ 61 :: snd kv) page = Ok (announce page kv).
Proof.
  intros [[_ [Hk _]] Hp]. unfold line_page_size, announce. rewrite (split_eq_line _ _ Hk).
  change s_PAGESIZE with key_PAGESIZE. rewrite bytes_eqb_eq.
  destruct (bytes_eq (fst kv) key_PAGESIZE); [| reflexivity].
  destruct (Hp eq_refl) as [k [Hk64 Hd]]. rewrite Hd.
  rewrite (strtoull_decimal _ _ Hd) by (apply N.pow_lt_mono_r; lia).
  now rewrite size_test_pow2.
Qed.

Lemma lines_page_size_ok kvs : forall page,
  Forall kv_ok kvs ->
  lines_page_size (map (fun kv => fst kv ++ 61 :: snd kv) kvs) page = Ok (fold_left announce kvs page).
Proof.
  induction kvs as [| kv t IH]; intros page H; [reflexivity |].
  inversion H as [| ? ? Hkv Ht]; subst. cbn [map lines_page_size fold_left]. cbv beta.
  replace (line_page_size _ page) with (Ok (announce page kv))
    by (symmetry; exact (line_page_size_ok kv page Hkv)).
  now apply IH.
Qed.

(** * notes *)
Lemma roundup4_pad b : len (pad4 b) = roundup4 (len b).
Proof.
  unfold pad4, roundup4. rewrite len_app, len_zeros.
  pose proof (N.div_mod (len b) 4 ltac:(lia)) as E. pose proof (N.mod_lt (len b) 4 ltac:(lia)) as Hm.
  set (q := len b / 4) in *. set (r := len b mod 4) in *.
  assert (Hcases : r = 0 \/ r = 1 \/ r = 2 \/ r = 3) by lia.
  assert (Hq : (len b + 3) / 4 = if r =? 0 then q else q + 1).
  { rewrite E. destruct Hcases as [-> | [-> | [-> | ->]]]; cbn [N.eqb];
      symmetry; [apply (N.div_unique _ 4 _ 3) | apply (N.div_unique _ 4 _ 0) | apply (N.div_unique _ 4 _ 1)
                 | apply (N.div_unique _ 4 _ 2)]; lia. }
  rewrite Hq. destruct Hcases as [-> | [-> | [-> | ->]]]; cbn; lia.
Qed.

Definition vnote_ok (n : vnote) : Prop :=
  len (vn_name n) < 2^32 /\ len (vn_desc n) < 2^32 /\ vn_type n < 2^32.

Definition to_note (n : vnote) : note :=
  {| nt_name := vn_name n; nt_type := vn_type n; nt_desc := vn_desc n |}.

Lemma len_enc_note be n : len (enc_note be n) = 12 + roundup4 (len (vn_name n)) + roundup4 (len (vn_desc n)).
Proof.
  unfold enc_note. rewrite !len_app, len_enc_flds, !roundup4_pad. cbn [flds_len fld_len]. lia.
Qed.

Lemma sub_at pre x rest k : sub (pre ++ x ++ rest) (len pre) k = sub (x ++ rest) 0 k.
Proof.
  unfold sub. rewrite to_nat_len, skipn_app_exact. reflexivity.
Qed.

Lemma sub_exact x rest : sub (x ++ rest) 0 (len x) = x.
Proof. unfold sub. cbn [N.to_nat skipn]. rewrite to_nat_len. apply firstn_app_exact. Qed.

Lemma get32_at be pre fs rest off v :
  fld_at fs off = Some (F32 v) -> v < 2^32 -> off + 4 <= flds_len fs ->
  get32 be (pre ++ enc_flds be fs ++ rest) (len pre + off) = v.
Proof.
  intros Hf Hv Hl. unfold get32.
  rewrite sub_eq_read_of by (rewrite !len_app, len_enc_flds; lia).
  rewrite read_of_skip_add. now apply get32_fld.
Qed.

Lemma notes_loop_ok be : forall ns pre fuel,
  Forall vnote_ok ns -> (length ns < fuel)%nat ->
  notes_loop fuel be (pre ++ enc_notes be ns) (len pre) (len (enc_notes be ns)) = map to_note ns.
Proof.
  induction ns as [| n t IH]; intros pre fuel Hok Hfuel.
  - destruct fuel; [cbn in Hfuel; lia |]. cbn [notes_loop enc_notes flat_map]. rewrite len_nil. reflexivity.
  - destruct fuel; [cbn in Hfuel; lia |]. inversion Hok as [| ? ? [Hn [Hd Hty]] Ht]; subst.
    cbn [enc_notes flat_map]. fold (enc_notes be t). cbn [notes_loop].
    rewrite len_app, len_enc_note.
    destruct (N.ltb_spec (12 + roundup4 (len (vn_name n)) + roundup4 (len (vn_desc n)) + len (enc_notes be t)) 12); [lia |].
    set (hf := [F32 (len (vn_name n)); F32 (len (vn_desc n)); F32 (vn_type n)]).
    assert (E : pre ++ enc_note be n ++ enc_notes be t =
                pre ++ enc_flds be hf ++ (pad4 (vn_name n) ++ pad4 (vn_desc n) ++ enc_notes be t)).
    { unfold enc_note. fold hf. now rewrite <- !app_assoc. }
    rewrite E.
    set (R := pad4 (vn_name n) ++ pad4 (vn_desc n) ++ enc_notes be t).
    pose proof (get32_at be pre hf R 0 (len (vn_name n)) eq_refl Hn ltac:(cbn; lia)) as G0.
    rewrite N.add_0_r in G0.
    pose proof (get32_at be pre hf R 4 (len (vn_desc n)) eq_refl Hd ltac:(cbn; lia)) as G4.
    pose proof (get32_at be pre hf R 8 (vn_type n) eq_refl Hty ltac:(cbn; lia)) as G8.
    rewrite G0, G4, G8. unfold R.
    pose proof (roundup4_pad (vn_name n)) as Rn. pose proof (roundup4_pad (vn_desc n)) as Rd.
    assert (Hge : forall b, len b <= roundup4 (len b)) by (intro b; rewrite <- roundup4_pad; unfold pad4; rewrite len_app; lia).
    pose proof (Hge (vn_name n)). pose proof (Hge (vn_desc n)).
    match goal with |- context [if ?a <? ?b then _ else _] => destruct (N.ltb_spec a b); [lia |] end.
    match goal with |- context [if ?a <=? ?b then _ else _] => destruct (N.leb_spec a b); [| lia] end.
    cbn [map]. f_equal.
    + unfold to_note. f_equal.
      * (* the name *)
        replace (pre ++ enc_flds be hf ++ pad4 (vn_name n) ++ pad4 (vn_desc n) ++ enc_notes be t)
          with ((pre ++ enc_flds be hf) ++ vn_name n ++ (zeros ((4 - len (vn_name n) mod 4) mod 4) ++ pad4 (vn_desc n) ++ enc_notes be t))
          by (unfold pad4; now rewrite <- !app_assoc).
        replace (len pre + 12) with (len (pre ++ enc_flds be hf)) by (rewrite len_app, len_enc_flds; reflexivity).
        rewrite sub_at. apply sub_exact.
      * (* the descriptor *)
        replace (pre ++ enc_flds be hf ++ pad4 (vn_name n) ++ pad4 (vn_desc n) ++ enc_notes be t)
          with ((pre ++ enc_flds be hf ++ pad4 (vn_name n)) ++ vn_desc n ++ (zeros ((4 - len (vn_desc n) mod 4) mod 4) ++ enc_notes be t))
          by (unfold pad4; now rewrite <- !app_assoc).
        replace (len pre + (12 + roundup4 (len (vn_name n)))) with (len (pre ++ enc_flds be hf ++ pad4 (vn_name n)))
          by (rewrite !len_app, len_enc_flds, Rn; reflexivity).
        rewrite sub_at. apply sub_exact.
    + replace (pre ++ enc_flds be hf ++ pad4 (vn_name n) ++ pad4 (vn_desc n) ++ enc_notes be t)
        with ((pre ++ enc_note be n) ++ enc_notes be t)
        by (unfold enc_note; fold hf; now rewrite <- !app_assoc).
      replace (len pre + (12 + roundup4 (len (vn_name n))) + roundup4 (len (vn_desc n)))
        with (len (pre ++ enc_note be n)) by (rewrite len_app, len_enc_note; lia).
      replace (12 + roundup4 (len (vn_name n)) + roundup4 (len (vn_desc n)) + len (enc_notes be t)
               - (12 + roundup4 (len (vn_name n))) - roundup4 (len (vn_desc n)))
        with (len (enc_notes be t)) by lia.
      apply IH; [exact Ht | cbn [length] in Hfuel; lia].
Qed.

Lemma len_enc_notes_ge be ns : 12 * N.of_nat (length ns) <= len (enc_notes be ns).
Proof.
  induction ns as [| n t IH]; [cbn; lia |].
  cbn [enc_notes flat_map length]. fold (enc_notes be t). rewrite len_app, len_enc_note. lia.
Qed.

Theorem do_notes_ok be ns :
  Forall vnote_ok ns -> do_notes be (enc_notes be ns) = map to_note ns.
Proof.
  intro H. unfold do_notes.
  pose proof (notes_loop_ok be ns [] (S (N.to_nat (len (enc_notes be ns) / 12))) H) as L.
  cbn [app] in L. rewrite len_nil in L. apply L.
  pose proof (len_enc_notes_ge be ns) as Hge.
  assert (N.of_nat (length ns) <= len (enc_notes be ns) / 12).
  { apply N.div_le_lower_bound; lia. }
  lia.
Qed.

(** * what the notes of a dump are *)
Definition snote_ok (s : snote) : Prop :=
  vnote_ok (to_vnote s) /\
  match s with
  | SVmcoreinfo _ kvs => Forall kv_ok kvs
  | SOther n => note_equal s_VMCOREINFO (vn_name n) = false
  end.

Lemma notes_page_size_ok : forall ns page,
  Forall snote_ok ns ->
  notes_page_size (map to_note (map to_vnote ns)) page = Ok (announced ns page).
Proof.
  induction ns as [| s t IH]; intros page H; [reflexivity |].
  inversion H as [| ? ? [_ Hs] Ht]; subst. cbn [map notes_page_size announced fold_left].
  destruct s as [nul kvs | n]; cbn [to_vnote to_note nt_name nt_desc vn_name vn_desc].
  - assert (Hne : note_equal s_VMCOREINFO (name_VMCOREINFO ++ (if nul then [0] else [])) = true).
    { destruct nul; reflexivity. }
    rewrite Hne. rewrite lines_of_render by (eapply Forall_impl; [| exact Hs]; intros kv [Hsh _]; exact Hsh).
    rewrite (lines_page_size_ok kvs page Hs). apply IH. exact Ht.
  - rewrite Hs. apply IH. exact Ht.
Qed.

(** * the architecture tables against the ABI tables *)
Lemma ptr_size_table machine is64 :
  option_map arch_ptr_size (mach2arch machine is64) = spec_ptr_size machine is64.
Proof.
  unfold mach2arch, spec_ptr_size, EM_AARCH64, EM_ARM, EM_ALPHA, EM_FAKE_ALPHA, EM_IA_64, EM_MIPS,
    EM_PPC, EM_PPC64, EM_RISCV, EM_S390, EM_386, EM_X86_64.
  repeat match goal with |- context [if ?c then _ else _] => destruct c; try reflexivity end.
Qed.

Lemma page_size_table machine is64 :
  match mach2arch machine is64 with
  | Some a => if default_page_shift a =? 0 then None else Some (2 ^ default_page_shift a)
  | None => None
  end = spec_fixed_page_size machine.
Proof.
  unfold mach2arch, spec_fixed_page_size, EM_AARCH64, EM_ARM, EM_ALPHA, EM_FAKE_ALPHA, EM_IA_64, EM_MIPS,
    EM_PPC, EM_PPC64, EM_RISCV, EM_S390, EM_386, EM_X86_64.
  destruct (N.eqb_spec machine 183) as [-> | H183]; [reflexivity |].
  destruct (N.eqb_spec machine 40) as [-> | H40]; [reflexivity |].
  destruct (N.eqb_spec machine 36902) as [-> | H1]; [reflexivity |].
  destruct (N.eqb_spec machine 41) as [-> | H41]; [reflexivity |]. cbn [orb].
  destruct (N.eqb_spec machine 50) as [-> | H50]; [reflexivity |].
  destruct (N.eqb_spec machine 8) as [-> | H8]; [reflexivity |].
  destruct (N.eqb_spec machine 20) as [-> | H20]; [reflexivity |].
  destruct (N.eqb_spec machine 21) as [-> | H21]; [reflexivity |].
  destruct (N.eqb_spec machine 243) as [-> | H243]; [destruct is64; reflexivity |].
  destruct (N.eqb_spec machine 22) as [-> | H22]; [destruct is64; reflexivity |].
  destruct (N.eqb_spec machine 3) as [-> | H3]; [reflexivity |].
  destruct (N.eqb_spec machine 62) as [-> | H62]; reflexivity.
Qed.
