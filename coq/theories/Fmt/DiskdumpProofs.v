(** C01 for diskdump / makedumpfile KDUMP: the reader model, run on the file
    that the spec encoder writes for an image, returns the image. *)
From Coq Require Import NArith List Bool Lia Arith Sorted.
From KdV Require Import Fmt.Codec Fmt.CodecProofs Fmt.PfnModel Fmt.PfnProofs Fmt.PfnBridge Fmt.BitmapSpec
     Fmt.ImageSpec Fmt.DiskdumpModel Fmt.DiskdumpSpec.
Import ListNotations.
Local Open Scope N_scope.

(** * descriptor table and page data as lists *)

Lemma count_some_app {A} (a b : list (option A)) : count_some (a ++ b) = count_some a + count_some b.
Proof. induction a as [| [x |] t IH]; cbn [app count_some]; [reflexivity | rewrite IH; lia | exact IH]. Qed.

Lemma enc_data_app a b : enc_data (a ++ b) = enc_data a ++ enc_data b.
Proof.
  induction a as [| [p |] t IH]; cbn [app enc_data]; [reflexivity | | exact IH].
  now rewrite IH, app_assoc.
Qed.

Lemma len_enc_desc be off p : len (enc_desc be off p) = 24.
Proof. unfold enc_desc. rewrite len_enc_flds. reflexivity. Qed.

Lemma len_enc_descs be pages : forall off, len (enc_descs be pages off) = 24 * count_some pages.
Proof.
  induction pages as [| [p |] t IH]; intro off; cbn [enc_descs count_some]; [reflexivity | | apply IH].
  rewrite len_app, len_enc_desc, IH. lia.
Qed.

Lemma enc_descs_app be a b : forall off,
  enc_descs be (a ++ b) off = enc_descs be a off ++ enc_descs be b (off + len (enc_data a)).
Proof.
  induction a as [| [p |] t IH]; intro off; cbn [app enc_descs enc_data].
  - now rewrite len_nil, N.add_0_r.
  - rewrite IH, len_app, <- app_assoc. do 3 f_equal. lia.
  - apply IH.
Qed.

Lemma nth_error_split {A} (l : list A) n x :
  nth_error l n = Some x -> l = firstn n l ++ x :: skipn (S n) l.
Proof.
  revert n. induction l as [| a t IH]; intros n H; [destruct n; discriminate |].
  destruct n; [cbn in H; injection H as <-; reflexivity |].
  cbn [nth_error] in H. cbn [firstn skipn app]. f_equal. now apply IH.
Qed.

(** the descriptor of page frame [pfn] sits at index "number of stored pages below" *)
Lemma read_desc be pages off rest pfn p :
  nth_error pages pfn = Some (Some p) ->
  exists rest',
    enc_descs be pages off ++ rest =
    enc_descs be (firstn pfn pages) off
    ++ enc_desc be (off + len (enc_data (firstn pfn pages))) p ++ rest'.
Proof.
  intro H. pose proof (nth_error_split _ _ _ H) as E.
  set (a := firstn pfn pages) in *. set (b := skipn (S pfn) pages) in *. rewrite E.
  rewrite enc_descs_app. cbn [enc_descs]. rewrite <- !app_assoc. eexists. reflexivity.
Qed.

Lemma read_data pages rest pfn p :
  nth_error pages pfn = Some (Some p) ->
  exists rest',
    enc_data pages ++ rest = enc_data (firstn pfn pages) ++ dp_payload p ++ rest'.
Proof.
  intro H. pose proof (nth_error_split _ _ _ H) as E.
  set (a := firstn pfn pages) in *. set (b := skipn (S pfn) pages) in *. rewrite E.
  rewrite enc_data_app. cbn [enc_data]. rewrite <- !app_assoc. eexists. reflexivity.
Qed.

(** windows *)
Lemma window_all s e pages : forall pfn,
  s <= pfn -> pfn + N.of_nat (length pages) <= e -> window s e pfn pages = pages.
Proof.
  induction pages as [| p t IH]; intros pfn Hs He; [reflexivity |].
  cbn [window length] in *.
  destruct (N.leb_spec s pfn); [| lia]. destruct (N.ltb_spec pfn e); [| lia].
  cbn [andb]. f_equal. apply IH; lia.
Qed.

Lemma rank_in_pages s e pages : forall pfn k,
  rank_in s e (map is_some pages) pfn k = count_some (firstn k (window s e pfn pages)).
Proof.
  induction pages as [| p t IH]; intros pfn k; [destruct k; reflexivity |].
  destruct k; [reflexivity |].
  cbn [map rank_in window firstn]. rewrite IH. unfold live.
  destruct p as [p |]; cbn [is_some andb].
  - destruct ((s <=? pfn) && (pfn <? e)); reflexivity.
  - destruct ((s <=? pfn) && (pfn <? e)); reflexivity.
Qed.

(** * the page path *)

Lemma pow2_bounds k : 12 <= k <= 18 -> 4096 <= 2^k <= 262144.
Proof.
  intros [H1 H2]. change 4096 with (2^12). change 262144 with (2^18).
  split; apply N.pow_le_mono_r; lia.
Qed.

Lemma Forall2_len {A B} (R : A -> B -> Prop) a b : Forall2 R a b -> length a = length b.
Proof. induction 1 as [| x y a b Hxy Hab IH]; [reflexivity |]. cbn [length]. now rewrite IH. Qed.

Lemma nth_is_some {A} (ps : list (option A)) : forall k,
  nth k (map (@is_some A) ps) false =
  match nth_error ps k with Some (Some _) => true | _ => false end.
Proof.
  induction ps as [| p t IH]; intro k; destruct k; cbn [map nth nth_error]; try reflexivity.
  apply IH.
Qed.

Lemma window_clip s e M pages : forall pfn,
  pfn + N.of_nat (length pages) <= M ->
  window s (if e <? M then e else M) pfn pages = window s e pfn pages.
Proof.
  induction pages as [| p t IH]; intros pfn H; [reflexivity |].
  cbn [window length] in *. rewrite IH by lia. f_equal.
  destruct (N.ltb_spec e M).
  - reflexivity.
  - destruct (N.ltb_spec pfn M); [| lia]. destruct (N.ltb_spec pfn e); [reflexivity | lia].
Qed.

Lemma nth_error_window s e pages : forall b k,
  nth_error (window s e b pages) k =
  match nth_error pages k with
  | Some p => Some (if (s <=? b + N.of_nat k) && (b + N.of_nat k <? e) then p else None)
  | None => None
  end.
Proof.
  induction pages as [| p t IH]; intros b k; [destruct k; reflexivity |].
  destruct k; cbn [window nth_error].
  - now rewrite N.add_0_r.
  - rewrite IH. replace (b + 1 + N.of_nat k) with (b + N.of_nat (S k)) by lia. reflexivity.
Qed.

Lemma window_length s e pages : forall b, length (window s e b pages) = length pages.
Proof. induction pages as [| p t IH]; intro b; [reflexivity |]. cbn [window length]. now rewrite IH. Qed.

(** the part of [dd_read_page] that follows the descriptor lookup *)
Definition page_via (rd : N -> N -> N -> bytes) (decompress : N -> bytes -> option bytes)
           (be : bool) (pgsz fidx pd_pos : N) : res bytes :=
  let pd := rd fidx pd_pos PAGE_DESC_SIZE in
  let offset := get64 be pd 0 in
  let size := get32 be pd 8 in
  let flags := get32 be pd 12 in
  if has flags DH_COMPRESSED then
    let chunk := rd fidx offset size in
    let via (bit : N) :=
      match decompress bit chunk with
      | Some out => if len out =? pgsz then Ok out else Err ERR_CORRUPT
      | None => Err ERR_CORRUPT
      end in
    if has flags DH_ZLIB then via DH_ZLIB
    else if has flags DH_LZO then Err ERR_NOTIMPL
    else if has flags DH_SNAPPY then via DH_SNAPPY
    else via DH_ZSTD
  else if negb (size =? pgsz) then Err ERR_CORRUPT
  else Ok (rd fidx offset size).

Definition hit_of (maps : list pfn_file_map) (pfn : N) : option (pfn_file_map * N) :=
  match find_pfn_file_map maps pfn with
  | Some m => if pm_start m <=? pfn
              then match pfn_to_pdpos m pfn with Some p => Some (m, p) | None => None end
              else None
  | None => None
  end.

Lemma dd_read_page_unfold rd decompress st z pfn :
  dd_read_page rd decompress st z pfn =
  if dd_max_pfn st <=? pfn then Err ERR_NODATA else
  match hit_of (dd_maps st) pfn with
  | None => if z then Ok (zeros (dd_page_size st)) else Err ERR_NODATA
  | Some (m, pd_pos) => page_via rd decompress (dd_be st) (dd_page_size st) (pm_fidx m) pd_pos
  end.
Proof. reflexivity. Qed.

(** * one file of a dump: [fi] is its index in the file set *)
Section Roundtrip.
  Variable decompress : N -> bytes -> option bytes.
  Variable rd : N -> N -> N -> bytes.
  Variable fi : N.
  Variable l : dd_layout.
  Variable pages : list (option dd_page).
  Variable img : image.
  Hypothesis Hwf : dd_wf l img.
  Hypothesis Hst : Forall2 (stores decompress) pages img.
  Hypothesis Hsize : len (encode_dd l pages) < 2^64.
  Hypothesis HrdF : forall off n, rd fi off n = read_of (encode_dd l pages) off n.

  Let F := encode_dd l pages.
  Let pgsz := dl_page_size l.
  Let bmbytes := dl_bmp_blocks l * pgsz.
  Let descoff := (1 + dl_sub_blocks l + bitmap_blocks l) * pgsz.
  Let own := window (win_start l) (win_end l) 0 pages.
  Let data_start := descoff + 24 * count_some own + dl_data_gap l.
  Let bits := map (@is_some dd_page) pages.
  Let bm2 := bits_to_bytes false (N.to_nat bmbytes) bits.

  Lemma pgsz_bounds : 4096 <= pgsz <= 262144.
  Proof. destruct (wf_pgsz _ _ Hwf) as [k [Hk E]]. unfold pgsz. rewrite E. now apply pow2_bounds. Qed.

  Lemma pages_len : length pages = length img.
  Proof. exact (Forall2_len _ _ _ Hst). Qed.

  Lemma pages_len_le : N.of_nat (length pages) <= dl_max_mapnr l.
  Proof. rewrite pages_len. apply (wf_img_len _ _ Hwf). Qed.

  Lemma rd_eq fidx off n : fidx = fi -> rd fidx off n = read_of F off n.
  Proof. intros ->. apply HrdF. Qed.

  (** the sections of the file *)
  Definition S0 := fit pgsz (enc_header l).
  Definition S1 := fit (dl_sub_blocks l * pgsz)
                       (enc_sub_hdr l ++ pad8 (dl_vmcoreinfo l) ++ pad8 (dl_notes l) ++ dl_eraseinfo l).
  Definition S2 := if dl_two_bitmaps l
                   then bits_to_bytes false (N.to_nat bmbytes) (orb_lists bits (dl_mem_extra l)) ++ bm2
                   else bm2.
  Definition S3 := enc_descs (dl_be l) own data_start.
  Definition S5 := enc_data own.

  Lemma F_sections : F = S0 ++ S1 ++ S2 ++ S3 ++ zeros (dl_data_gap l) ++ S5.
  Proof. reflexivity. Qed.

  Lemma len_bits_to_bytes msb0 n bs : len (bits_to_bytes msb0 n bs) = N.of_nat n.
  Proof.
    unfold len. f_equal. revert bs. induction n; intro bs; [reflexivity |].
    cbn [bits_to_bytes length]. now rewrite IHn.
  Qed.

  Lemma len_S0 : len S0 = pgsz. Proof. apply len_fit. Qed.
  Lemma len_S1 : len S1 = dl_sub_blocks l * pgsz. Proof. apply len_fit. Qed.
  Lemma len_bm2 : len bm2 = bmbytes.
  Proof. unfold bm2. rewrite len_bits_to_bytes. lia. Qed.
  Lemma len_S2 : len S2 = bitmap_blocks l * pgsz.
  Proof.
    unfold S2, bitmap_blocks. destruct (dl_two_bitmaps l).
    - rewrite len_app, len_bits_to_bytes, len_bm2. unfold bmbytes. lia.
    - apply len_bm2.
  Qed.
  Lemma len_S3 : len S3 = 24 * count_some own.
  Proof. apply len_enc_descs. Qed.

  Lemma len_S012 : len (S0 ++ S1 ++ S2) = descoff.
  Proof. rewrite !len_app, len_S0, len_S1, len_S2. unfold descoff. lia. Qed.

  (** reads in the descriptor table *)
  Lemma rd_desc off n : read_of F (descoff + off) n = read_of (S3 ++ zeros (dl_data_gap l) ++ S5) off n.
  Proof.
    rewrite F_sections.
    replace (S0 ++ S1 ++ S2 ++ S3 ++ zeros (dl_data_gap l) ++ S5)
      with ((S0 ++ S1 ++ S2) ++ S3 ++ zeros (dl_data_gap l) ++ S5) by (now rewrite <- !app_assoc).
    rewrite read_of_skip by (rewrite len_S012; lia). rewrite len_S012. f_equal. lia.
  Qed.

  (** reads in the page data *)
  Lemma rd_data off n : read_of F (data_start + off) n = read_of S5 off n.
  Proof.
    unfold data_start. rewrite <- !N.add_assoc, rd_desc.
    rewrite read_of_skip by (rewrite len_S3; lia). rewrite len_S3.
    rewrite read_of_skip by (rewrite len_zeros; lia). rewrite len_zeros. f_equal. lia.
  Qed.

  (** the second bitmap *)
  Definition bm2_off : N := (1 + dl_sub_blocks l) * pgsz + (if dl_two_bitmaps l then bmbytes else 0).

  Lemma rd_bm2 : read_of F bm2_off bmbytes = bm2.
  Proof.
    rewrite F_sections. unfold bm2_off, S2.
    rewrite read_of_skip by (rewrite len_S0; lia). rewrite len_S0.
    rewrite read_of_skip by (rewrite len_S1; lia). rewrite len_S1.
    destruct (dl_two_bitmaps l).
    - rewrite <- app_assoc.
      rewrite read_of_skip by (rewrite len_bits_to_bytes; lia). rewrite len_bits_to_bytes.
      replace ((1 + dl_sub_blocks l) * pgsz + bmbytes - pgsz - dl_sub_blocks l * pgsz
               - N.of_nat (N.to_nat bmbytes)) with 0 by lia.
      rewrite <- len_bm2. apply read_of_exact.
    - replace ((1 + dl_sub_blocks l) * pgsz + 0 - pgsz - dl_sub_blocks l * pgsz) with 0 by lia.
      rewrite <- len_bm2. apply read_of_exact.
  Qed.

  (** the map [do_header] is expected to build for this file: its window, and
      the runs of dumped pages inside the window *)
  Definition lim : N := if win_end l <? bmbytes * 8 then win_end l else bmbytes * 8.

  Definition the_map : pfn_file_map :=
    {| pm_fidx := fi; pm_start := win_start l; pm_end := win_end l;
       pm_regions := regions_from_bitmap false bm2 (win_start l) lim descoff PAGE_DESC_SIZE |}.

  Lemma bits_len : (length bits <= 8 * N.to_nat bmbytes)%nat.
  Proof.
    unfold bits. rewrite map_length. pose proof pages_len_le. pose proof (wf_cover _ _ Hwf).
    unfold bmbytes, pgsz. lia.
  Qed.

  Lemma nth_bits k : nth k bits false = true -> (k < length pages)%nat.
  Proof.
    intro H. destruct (Nat.lt_ge_cases k (length pages)); [assumption |].
    unfold bits in H. rewrite nth_overflow in H by (rewrite map_length; lia). discriminate.
  Qed.

  Lemma own_clip : window (win_start l) lim 0 pages = own.
  Proof.
    unfold lim, own. apply window_clip.
    pose proof bits_len as H. unfold bits in H. rewrite map_length in H. lia.
  Qed.

  (** descriptor position of a page frame: pages outside the window have none *)
  Lemma pdpos_spec pfn :
    pfn_to_pdpos the_map pfn =
    if nth (N.to_nat pfn) bits false && (win_start l <=? pfn) && (pfn <? win_end l)
    then Some (descoff + 24 * count_some (firstn (N.to_nat pfn) own))
    else None.
  Proof.
    unfold pfn_to_pdpos, the_map. cbn [pm_regions]. unfold regions_from_bitmap.
    rewrite find_pfn_region_lin by (apply runs_sorted; cbn; lia).
    change (match find_lin ?rs pfn with
            | Some rgn => if rg_pfn rgn <=? pfn
                          then Some (rg_pos rgn + (pfn - rg_pfn rgn) * PAGE_DESC_SIZE) else None
            | None => None end)
      with (pos_of PAGE_DESC_SIZE (find_lin rs pfn) pfn).
    destruct (runs_lookup PAGE_DESC_SIZE (win_start l) lim (bits_of_bytes false bm2) 0 descoff None
                ltac:(cbn; lia)) as [_ H].
    specialize (H (N.to_nat pfn)). rewrite N2Nat.id, N.add_0_l in H. rewrite H. clear H.
    unfold bm2. rewrite unpack_bits_to_bytes, (padded_short _ _ bits_len).
    rewrite live_at_app_false, rank_in_app_false. cbn [lower].
    rewrite N2Nat.id, N.add_0_l. unfold live.
    destruct (nth (N.to_nat pfn) bits false) eqn:Hb; cbn [andb]; [| reflexivity].
    pose proof (nth_bits _ Hb) as Hlt. pose proof bits_len as Hbl. unfold bits in Hbl.
    rewrite map_length in Hbl.
    destruct (N.leb_spec (win_start l) pfn); cbn [andb]; [| reflexivity].
    assert (Hl : (pfn <? lim) = (pfn <? win_end l)).
    { unfold lim. destruct (N.ltb_spec (win_end l) (bmbytes * 8)); [reflexivity |].
      destruct (N.ltb_spec pfn (bmbytes * 8)); [| lia]. destruct (N.ltb_spec pfn (win_end l)); [reflexivity | lia]. }
    rewrite Hl. destruct (pfn <? win_end l); [| reflexivity].
    unfold bits. rewrite rank_in_pages, own_clip. f_equal. unfold PAGE_DESC_SIZE. lia.
  Qed.

  Lemma land_39 f : (N.land f 39 =? 0) =
    (N.land f 1 =? 0) && (N.land f 2 =? 0) && (N.land f 4 =? 0) && (N.land f 32 =? 0).
  Proof.
    change 39 with (N.lor 1 (N.lor 2 (N.lor 4 32))).
    rewrite !N.land_lor_distr_r.
    destruct (N.eqb_spec (N.land f 1) 0) as [-> | H1];
    destruct (N.eqb_spec (N.land f 2) 0) as [-> | H2];
    destruct (N.eqb_spec (N.land f 4) 0) as [-> | H4];
    destruct (N.eqb_spec (N.land f 32) 0) as [-> | H32]; cbn [andb];
    try reflexivity; apply N.eqb_neq; intro E;
    repeat (apply N.lor_eq_0_iff in E; destruct E as [? E]); congruence.
  Qed.

  (** a page frame outside the window, or one the dump does not contain, has
      no descriptor in this file *)
  Lemma pdpos_none pfn :
    match nth_error pages (N.to_nat pfn) with Some (Some _) => False | _ => True end ->
    pfn_to_pdpos the_map pfn = None.
  Proof.
    intro H. rewrite pdpos_spec. unfold bits. rewrite nth_is_some.
    destruct (nth_error pages (N.to_nat pfn)) as [[p |] |]; [contradiction | reflexivity | reflexivity].
  Qed.

  (** a stored page frame inside the window: descriptor and data are this
      file's, and they give the page *)
  Theorem page_in_window pfn c :
    win_start l <= pfn < win_end l ->
    nth_error img (N.to_nat pfn) = Some (Some c) ->
    exists pos, pfn_to_pdpos the_map pfn = Some pos /\
                page_via rd decompress (dl_be l) pgsz fi pos = Ok c.
  Proof.
    intros [Hws Hwe] Hc. rewrite pdpos_spec.
    pose proof (Forall2_nth_error _ _ _ Hst (N.to_nat pfn)) as Hrel.
    unfold bits at 1. rewrite nth_is_some. rewrite Hc in Hrel.
    destruct (nth_error pages (N.to_nat pfn)) as [[p |] |] eqn:Hp; try contradiction.
    destruct (N.leb_spec (win_start l) pfn); [| lia]. destruct (N.ltb_spec pfn (win_end l)); [| lia].
    cbn [andb]. eexists. split; [reflexivity |].
    destruct Hrel as [Hflags [Hplen Hmeth]].
    assert (Hown : nth_error own (N.to_nat pfn) = Some (Some p)).
    { unfold own. rewrite nth_error_window, Hp, N2Nat.id, N.add_0_l.
      destruct (N.leb_spec (win_start l) pfn); [| lia]. destruct (N.ltb_spec pfn (win_end l)); [| lia].
      reflexivity. }
    assert (Hcok : len c = pgsz).
    { pose proof (wf_pages _ _ Hwf) as Hall. rewrite Forall_forall in Hall.
      specialize (Hall _ (nth_error_In _ _ Hc)). cbn in Hall. apply Hall. }
    set (rank := count_some (firstn (N.to_nat pfn) own)).
    set (doff := data_start + len (enc_data (firstn (N.to_nat pfn) own))).
    unfold page_via. cbn zeta.
    (* the descriptor *)
    assert (Hpd : rd fi (descoff + 24 * rank) PAGE_DESC_SIZE = enc_desc (dl_be l) doff p).
    { rewrite rd_eq by reflexivity. rewrite rd_desc.
      destruct (read_desc (dl_be l) own data_start (zeros (dl_data_gap l) ++ S5) _ _ Hown) as [rest' E].
      unfold S3. rewrite E. unfold rank, PAGE_DESC_SIZE.
      rewrite <- (len_enc_descs (dl_be l) (firstn (N.to_nat pfn) own) data_start).
      rewrite <- (len_enc_desc (dl_be l) doff p). apply read_of_section. }
    rewrite Hpd.
    (* where the data is *)
    assert (Hdata : doff + len (dp_payload p) <= len F).
    { destruct (read_data own [] _ _ Hown) as [rest' E]. rewrite app_nil_r in E.
      rewrite F_sections, !len_app, len_S0, len_S1, len_S2, len_S3, len_zeros.
      unfold S5. rewrite E, !len_app. unfold doff, data_start, descoff. lia. }
    assert (HsizeF : len F < 2^64) by exact Hsize.
    unfold enc_desc.
    rewrite (get64_flds _ _ 0 doff) by (try reflexivity; cbn; lia).
    rewrite (get32_flds _ _ 8 (len (dp_payload p))) by (try reflexivity; cbn; lia).
    rewrite (get32_flds _ _ 12 (dp_flags p)) by (try reflexivity; cbn; lia).
    (* the stored bytes *)
    assert (Hchunk : rd fi doff (len (dp_payload p)) = dp_payload p).
    { rewrite rd_eq by reflexivity. unfold doff. rewrite rd_data.
      destruct (read_data own [] _ _ Hown) as [rest' E]. rewrite app_nil_r in E.
      unfold S5. rewrite E. apply read_of_section. }
    rewrite Hchunk.
    unfold has, DH_COMPRESSED, DH_ZLIB, DH_LZO, DH_SNAPPY, DH_ZSTD.
    rewrite land_39. unfold method_of in Hmeth.
    destruct (N.land (dp_flags p) 1 =? 0); cbn [negb andb] in *.
    - destruct (N.land (dp_flags p) 2 =? 0); cbn [negb andb] in *.
      + destruct (N.land (dp_flags p) 4 =? 0); cbn [negb andb] in *.
        * destruct (N.land (dp_flags p) 32 =? 0); cbn [negb andb] in *.
          -- (* raw *) subst c. rewrite Hcok, N.eqb_refl. reflexivity.
          -- rewrite Hmeth, Hcok, N.eqb_refl. reflexivity.
        * rewrite Hmeth, Hcok, N.eqb_refl. reflexivity.
      + contradiction.
    - rewrite Hmeth, Hcok, N.eqb_refl. reflexivity.
  Qed.

  (** * the open path *)

  Lemma len_header : len (enc_header l) = if dl_64 l then 464 else 452.
  Proof.
    unfold enc_header. rewrite len_enc_flds. unfold header_flds. destruct (dl_64 l); reflexivity.
  Qed.

  Lemma F_hdr : exists rest, F = enc_flds (dl_be l) (header_flds l) ++ rest.
  Proof.
    rewrite F_sections. unfold S0. rewrite fit_small.
    - fold (enc_header l). rewrite <- app_assoc. eexists. reflexivity.
    - rewrite len_header. pose proof pgsz_bounds. destruct (dl_64 l); lia.
  Qed.

  (** a 32-bit header field, read in either byte order *)
  Lemma hdr_field be' n off v :
    fld_at (header_flds l) off = Some (F32 v) -> off + 4 <= n ->
    get32 be' (rd fi 0 n) off = get be' (put32 (dl_be l) v).
  Proof.
    intros Hf Hn. rewrite rd_eq by reflexivity. rewrite get32_read by assumption.
    destruct F_hdr as [rest E]. rewrite E. rewrite N.add_0_l.
    pose proof (read_fld (dl_be l) (header_flds l) rest off (F32 v) Hf) as R.
    cbn [fld_len enc_fld] in R. now rewrite R.
  Qed.

  Lemma hdr_field_ok n off v :
    fld_at (header_flds l) off = Some (F32 v) -> off + 4 <= n -> v < 2^32 ->
    get32 (dl_be l) (rd fi 0 n) off = v.
  Proof.
    intros Hf Hn Hv. rewrite (hdr_field _ _ _ _ Hf Hn). unfold put32. now apply get_put.
  Qed.

  Lemma get_put32_zero be' be'' : get be' (put32 be'' 0) = 0.
  Proof. unfold put32. rewrite put_zero. apply get_zeros. Qed.

  (** the block size read in the wrong byte order is never a page size *)
  Lemma wrong_endian_block_size be' :
    let v := get be' (put32 (negb be') pgsz) in (v <? MIN_PAGE_SIZE) || (MAX_PAGE_SIZE <? v) = true.
  Proof.
    destruct (wf_pgsz _ _ Hwf) as [k [Hk E]]. unfold pgsz. rewrite E.
    assert (Hcases : k = 12 \/ k = 13 \/ k = 14 \/ k = 15 \/ k = 16 \/ k = 17 \/ k = 18) by lia.
    destruct be'; destruct Hcases as [-> | [-> | [-> | [-> | [-> | [-> | ->]]]]]]; vm_compute; reflexivity.
  Qed.

  Lemma is_pow2_pgsz : is_pow2 pgsz = true.
  Proof.
    destruct (wf_pgsz _ _ Hwf) as [k [Hk E]]. unfold pgsz. rewrite E.
    assert (Hcases : k = 12 \/ k = 13 \/ k = 14 \/ k = 15 \/ k = 16 \/ k = 17 \/ k = 18) by lia.
    destruct Hcases as [-> | [-> | [-> | [-> | [-> | [-> | ->]]]]]]; vm_compute; reflexivity.
  Qed.

  Definition mapnr32 : N := N.min (dl_max_mapnr l) (2^32 - 1).

  Lemma bitmap_blocks_ge : dl_bmp_blocks l <= bitmap_blocks l.
  Proof. unfold bitmap_blocks. destruct (dl_two_bitmaps l); lia. Qed.

  Lemma try_header_good : try_header pgsz (bitmap_blocks l) mapnr32 = Ok (pgsz, mapnr32).
  Proof.
    unfold try_header. pose proof pgsz_bounds as Hb. unfold MIN_PAGE_SIZE, MAX_PAGE_SIZE.
    destruct (N.ltb_spec pgsz 4096); [lia |]. destruct (N.ltb_spec 262144 pgsz); [lia |].
    cbn [orb]. pose proof (wf_cover _ _ Hwf) as Hc. pose proof bitmap_blocks_ge as Hg.
    destruct (N.ltb_spec (8 * bitmap_blocks l * pgsz) mapnr32) as [Hlt |].
    - unfold mapnr32, pgsz in *. nia.
    - now rewrite is_pow2_pgsz.
  Qed.

  Lemma try_header_bad bs bb mm :
    (bs <? MIN_PAGE_SIZE) || (MAX_PAGE_SIZE <? bs) = true -> try_header bs bb mm = Err ERR_CORRUPT.
  Proof. intro H. unfold try_header. now rewrite H. Qed.

  (** ** the sub-header *)

  Lemma len_sub_hdr : len (enc_sub_hdr l) = sub_hdr_struct_size l.
  Proof.
    unfold enc_sub_hdr. rewrite len_enc_flds. unfold sub_hdr_flds, sub_hdr_struct_size.
    destruct (dl_64 l); [reflexivity |]. destruct (dl_pad l); reflexivity.
  Qed.

  Lemma F_sub : 1 <= dl_version l ->
    exists rest, F = S0 ++ enc_flds (dl_be l) (sub_hdr_flds l) ++ rest.
  Proof.
    intro Hv. rewrite F_sections. unfold S1. rewrite fit_small.
    - fold (enc_sub_hdr l). rewrite <- !app_assoc. eexists. reflexivity.
    - pose proof (wf_sub_fits _ _ Hwf Hv) as Hf. rewrite !len_app, len_sub_hdr. fold pgsz. lia.
  Qed.

  Lemma sub_read n off k :
    1 <= dl_version l -> off + k <= n ->
    exists rest,
      sub (rd fi pgsz n) off k = read_of (enc_flds (dl_be l) (sub_hdr_flds l) ++ rest) off k.
  Proof.
    intros Hv Hn. destruct (F_sub Hv) as [rest E]. exists rest.
    rewrite rd_eq by reflexivity. rewrite sub_read_of by assumption.
    rewrite E. rewrite read_of_skip by (rewrite len_S0; lia). rewrite len_S0. f_equal. lia.
  Qed.

  Lemma sub_field32 be' n off v :
    1 <= dl_version l ->
    fld_at (sub_hdr_flds l) off = Some (F32 v) -> off + 4 <= n ->
    get32 be' (rd fi pgsz n) off = get be' (put32 (dl_be l) v).
  Proof.
    intros Hv Hf Hn. unfold get32. destruct (sub_read n off 4 Hv Hn) as [rest ->].
    pose proof (read_fld (dl_be l) (sub_hdr_flds l) rest off (F32 v) Hf) as R.
    cbn [fld_len enc_fld] in R. now rewrite R.
  Qed.

  Lemma sub_field64 n off v :
    1 <= dl_version l ->
    fld_at (sub_hdr_flds l) off = Some (F64 v) -> off + 8 <= n -> v < 2^64 ->
    get64 (dl_be l) (rd fi pgsz n) off = v.
  Proof.
    intros Hv Hf Hn Hlt. unfold get64. destruct (sub_read n off 8 Hv Hn) as [rest ->].
    now apply get64_fld.
  Qed.

  Definition layout_kind : subhdr_kind :=
    if dl_64 l then SH64 else if dl_pad l then SH32pad else SH32pack.

  Definition shn : N := if dl_64 l then 104 else 96.

  Lemma split_field k :
    1 <= dl_version l -> (if dl_64 l then k = SH64 else k <> SH64) ->
    negb (get32 false (rd fi pgsz shn) (sh_split k) =? 0) = (2 <=? dl_version l) && dl_split l.
  Proof.
    intros Hv Hk.
    set (v := if 2 <=? dl_version l then (if dl_split l then 1 else 0) else 0).
    assert (E : get32 false (rd fi pgsz shn) (sh_split k) = get false (put32 (dl_be l) v)).
    { unfold shn. destruct (dl_64 l) eqn:H64.
      - subst k. cbn [sh_split]. apply (sub_field32 false 104 12); [assumption | | cbn; lia].
        unfold sub_hdr_flds. rewrite H64. reflexivity.
      - assert (Hs : sh_split k = 8) by (destruct k; [reflexivity | reflexivity | contradiction]).
        rewrite Hs. apply (sub_field32 false 96 8); [assumption | | cbn; lia].
        unfold sub_hdr_flds. rewrite H64. destruct (dl_pad l); reflexivity. }
    rewrite E. unfold v. destruct (2 <=? dl_version l); destruct (dl_split l); destruct (dl_be l); reflexivity.
  Qed.

  Lemma since_ge a x : a <= dl_version l -> (if a <=? dl_version l then x else 0) = x.
  Proof. intro H. destruct (N.leb_spec a (dl_version l)); [reflexivity | lia]. Qed.

  (** the 64-bit fields that header_version 6 added *)
  Lemma v6_field off v :
    6 <= dl_version l -> v < 2^64 ->
    (forall b64 bpad, dl_64 l = b64 -> dl_pad l = bpad ->
       fld_at (sub_hdr_flds l) (off (if b64 then SH64 else if bpad then SH32pad else SH32pack)) =
       Some (F64 v)) ->
    (forall k, off k + 8 <= sh_size k) ->
    get64 (dl_be l) (rd fi pgsz shn) (off layout_kind) = v.
  Proof.
    intros Hv Hlt Hf Hsz. unfold shn, layout_kind.
    specialize (Hf (dl_64 l) (dl_pad l) eq_refl eq_refl).
    destruct (dl_64 l) eqn:H64; [| destruct (dl_pad l) eqn:Hpad].
    - apply sub_field64; [lia | assumption | apply (Hsz SH64) | assumption].
    - apply sub_field64; [lia | assumption | apply (Hsz SH32pad) | assumption].
    - apply sub_field64; [lia | assumption | pose proof (Hsz SH32pack) as H; cbn [sh_size] in H; lia | assumption].
  Qed.

  Lemma max64_field :
    6 <= dl_version l ->
    get64 (dl_be l) (rd fi pgsz shn) (sh_max_mapnr_64 layout_kind) = dl_max_mapnr l.
  Proof.
    intro Hv. apply v6_field; [assumption | apply (wf_mapnr64 _ _ Hwf) | | intros []; cbn; lia].
    intros b64 bpad H64 Hpad. unfold sub_hdr_flds. rewrite H64, Hpad.
    destruct b64; [| destruct bpad]; cbn; now rewrite since_ge.
  Qed.

  Lemma start64_field :
    6 <= dl_version l -> dl_split l = true ->
    get64 (dl_be l) (rd fi pgsz shn) (sh_start_pfn_64 layout_kind) = dl_start_pfn l.
  Proof.
    intros Hv Hs. destruct (wf_split _ _ Hwf Hs) as [_ [H1 _]].
    apply v6_field; [assumption | assumption | | intros []; cbn; lia].
    intros b64 bpad H64 Hpad. unfold sub_hdr_flds. rewrite H64, Hpad, Hs.
    destruct b64; [| destruct bpad]; cbn; now rewrite since_ge.
  Qed.

  Lemma end64_field :
    6 <= dl_version l -> dl_split l = true ->
    get64 (dl_be l) (rd fi pgsz shn) (sh_end_pfn_64 layout_kind) = dl_end_pfn l.
  Proof.
    intros Hv Hs. destruct (wf_split _ _ Hwf Hs) as [_ [_ [H1 _]]].
    apply v6_field; [assumption | assumption | | intros []; cbn; lia].
    intros b64 bpad H64 Hpad. unfold sub_hdr_flds. rewrite H64, Hpad, Hs.
    destruct b64; [| destruct bpad]; cbn; now rewrite since_ge.
  Qed.

  (** the window fields of header versions 2..5 *)
  Lemma window_fields k :
    2 <= dl_version l -> dl_version l < 6 -> dl_split l = true ->
    (if dl_64 l then k = SH64 else k <> SH64) ->
    let w := match k with SH64 => get64 (dl_be l) (rd fi pgsz shn) | _ => get32 (dl_be l) (rd fi pgsz shn) end in
    (w (sh_start_pfn k), w (sh_end_pfn k)) = (dl_start_pfn l, dl_end_pfn l).
  Proof.
    intros Hv2 Hv6 Hs Hk. destruct (wf_split _ _ Hwf Hs) as [_ [Hs64 [He64 H32]]].
    assert (Hv1 : 1 <= dl_version l) by lia.
    unfold shn in *. destruct (dl_64 l) eqn:H64.
    - subst k. cbn zeta. cbn [sh_start_pfn sh_end_pfn]. f_equal.
      + apply sub_field64; [assumption | | cbn; lia | assumption].
        unfold sub_hdr_flds. rewrite H64, Hs. cbn. now rewrite since_ge.
      + apply sub_field64; [assumption | | cbn; lia | assumption].
        unfold sub_hdr_flds. rewrite H64, Hs. cbn. now rewrite since_ge.
    - destruct (H32 eq_refl Hv6) as [Hs32 He32].
      assert (Hw : (match k with SH64 => get64 (dl_be l) (rd fi pgsz 96) | _ => get32 (dl_be l) (rd fi pgsz 96) end)
                   = get32 (dl_be l) (rd fi pgsz 96)) by (destruct k; [reflexivity | reflexivity | contradiction]).
      cbn zeta. rewrite Hw.
      assert (Ho1 : sh_start_pfn k = 12) by (destruct k; [reflexivity | reflexivity | contradiction]).
      assert (Ho2 : sh_end_pfn k = 16) by (destruct k; [reflexivity | reflexivity | contradiction]).
      rewrite Ho1, Ho2. f_equal.
      + rewrite (sub_field32 (dl_be l) 96 12 (N.min (dl_start_pfn l) (2^32 - 1))); [| assumption | | cbn; lia].
        * unfold put32. rewrite get_put by (cbn; lia). lia.
        * unfold sub_hdr_flds. rewrite H64, Hs. destruct (dl_pad l); cbn; now rewrite since_ge.
      + rewrite (sub_field32 (dl_be l) 96 16 (N.min (dl_end_pfn l) (2^32 - 1))); [| assumption | | cbn; lia].
        * unfold put32. rewrite get_put by (cbn; lia). lia.
        * unfold sub_hdr_flds. rewrite H64, Hs. destruct (dl_pad l); cbn; now rewrite since_ge.
  Qed.

  Lemma mapnr32_small : dl_version l < 6 -> mapnr32 = dl_max_mapnr l.
  Proof. intro H. pose proof (wf_mapnr32 _ _ Hwf H). unfold mapnr32. lia. Qed.

  Lemma parse_sub_hdr_ok k :
    1 <= dl_version l ->
    (if dl_64 l then k = SH64 else k <> SH64) ->
    (6 <= dl_version l -> k = layout_kind) ->
    parse_sub_hdr (dl_be l) k (dl_version l) (rd fi pgsz shn) mapnr32 =
    (win_start l, win_end l, dl_max_mapnr l).
  Proof.
    intros Hv Hk H6. unfold parse_sub_hdr.
    rewrite (split_field k Hv Hk). unfold win_start, win_end.
    destruct (dl_split l) eqn:Hs.
    - destruct (wf_split _ _ Hwf Hs) as [Hv2 _].
      destruct (N.leb_spec 2 (dl_version l)) as [_ |]; [| lia]. cbn [andb].
      destruct (N.leb_spec 6 (dl_version l)) as [Hge | Hlt].
      + rewrite (H6 Hge), max64_field, start64_field, end64_field by assumption.
        destruct (_ : N * N). reflexivity.
      + pose proof (window_fields k Hv2 Hlt Hs Hk) as Hw. cbn zeta in Hw. rewrite Hw.
        now rewrite mapnr32_small.
    - rewrite !andb_false_r.
      destruct (N.leb_spec 6 (dl_version l)) as [Hge | Hlt].
      + rewrite (H6 Hge). now rewrite max64_field.
      + now rewrite mapnr32_small.
  Qed.


  (** ** which 32-bit sub-header layout (only matters from version 6 on) *)

  Lemma len_pad8 b : len b <= len (pad8 b).
  Proof. unfold pad8. rewrite len_app. lia. Qed.

  Lemma kind32 :
    dl_64 l = false -> 3 <= dl_version l ->
    sub_hdr_kind_32 (dl_be l) (dl_version l) pgsz (dl_sub_blocks l) (rd fi pgsz 96) = layout_kind.
  Proof.
    intros H64 Hv. unfold sub_hdr_kind_32, layout_kind. rewrite H64.
    destruct (N.ltb_spec (dl_version l) 3) as [| _]; [lia |].
    assert (Hv1 : 1 <= dl_version l) by lia.
    assert (Hs3 : forall x, (if 3 <=? dl_version l then x else 0) = x).
    { intro x. destruct (N.leb_spec 3 (dl_version l)); [reflexivity | lia]. }
    pose proof (wf_sub_fits _ _ Hwf Hv1) as Hfit. fold pgsz in Hfit.
    destruct (wf_blobs _ _ Hwf) as [Hvl _].
    pose proof pgsz_bounds as Hpb. pose proof (wf_sub _ _ Hwf) as Hsub.
    unfold sub_hdr_struct_size in Hfit. rewrite H64 in Hfit.
    pose proof (len_pad8 (dl_vmcoreinfo l)) as Hp8.
    destruct (dl_pad l) eqn:Hpad.
    - (* padded layout, looked at through the packed one *)
      assert (Hne : dl_vmcoreinfo l <> []) by (apply (wf_pad _ _ Hwf); assumption).
      assert (Hlen : len (dl_vmcoreinfo l) <> 0).
      { destruct (dl_vmcoreinfo l); [contradiction | rewrite len_cons; lia]. }
      set (X := pgsz + 96).
      assert (Hoff : fld_at (sub_hdr_flds l) 24 = Some (F64 X)).
      { unfold sub_hdr_flds. rewrite H64, Hpad. cbn. rewrite Hs3. unfold blob_off, vmci_off, sub_hdr_struct_size.
        rewrite H64, Hpad. apply N.eqb_neq in Hlen. now rewrite Hlen. }
      assert (Hpadf : fld_at (sub_hdr_flds l) 20 = Some (FB 4 [])).
      { unfold sub_hdr_flds. rewrite H64, Hpad. reflexivity. }
      destruct (F_sub Hv1) as [rest E].
      assert (Hrd : forall off k, off + k <= 96 ->
                sub (rd fi pgsz 96) off k = read_of (enc_flds (dl_be l) (sub_hdr_flds l) ++ rest) off k).
      { intros off k Hk. rewrite rd_eq by reflexivity. rewrite sub_read_of by assumption.
        rewrite E. rewrite read_of_skip by (rewrite len_S0; lia). rewrite len_S0. f_equal. lia. }
      pose proof (read_fld (dl_be l) _ rest 24 _ Hoff) as R24. cbn [fld_len enc_fld] in R24.
      pose proof (read_fld (dl_be l) _ rest 20 _ Hpadf) as R20. cbn [fld_len enc_fld] in R20.
      assert (Hx : X < 2^32) by (unfold X; lia).
      assert (Hhi : X / 2^32 = 0) by (now apply N.div_small).
      assert (Hlo : X mod 2^32 = X) by (now apply N.mod_small).
      (* the two halves of the 64-bit offset *)
      assert (Hh1 : read_of (enc_flds (dl_be l) (sub_hdr_flds l) ++ rest) 24 4 =
                    if dl_be l then put32 (dl_be l) 0 else put32 (dl_be l) X).
      { change 24 with (24 + 0) at 1.
        rewrite <- (read_of_read_of _ 24 8 0 4) by lia. rewrite R24, put64_halves, Hhi, Hlo.
        destruct (dl_be l); apply read_of_exact'; symmetry; apply len_put32. }
      assert (Hh2 : read_of (enc_flds (dl_be l) (sub_hdr_flds l) ++ rest) 28 4 =
                    if dl_be l then put32 (dl_be l) X else put32 (dl_be l) 0).
      { change 28 with (24 + 4) at 1.
        rewrite <- (read_of_read_of _ 24 8 4 4) by lia. rewrite R24, put64_halves, Hhi, Hlo.
        destruct (dl_be l); apply read_of_last'; symmetry; apply len_put32. }
      unfold get64, get32. cbn [sh_offset_vmcoreinfo sh_size_vmcoreinfo].
      rewrite !Hrd by lia.
      assert (H20 : read_of (enc_flds (dl_be l) (sub_hdr_flds l) ++ rest) 20 8 =
                    fit 4 [] ++ (if dl_be l then put32 (dl_be l) 0 else put32 (dl_be l) X)).
      { change 8 with (4 + 4). rewrite read_of_add, R20. change (20 + 4) with 24. now rewrite Hh1. }
      rewrite H20, Hh2.
      replace (fit 4 []) with (zeros 4) by reflexivity.
      rewrite get_zeros_app.
      destruct (dl_be l).
      + unfold put32. rewrite !get_put by (cbn; lia).
        destruct (N.eqb_spec X 0); [unfold X in *; lia |].
        cbn [N.eqb andb orb]. destruct (N.ltb_spec pgsz 0); [lia | reflexivity].
      + unfold put32. rewrite !get_put by (cbn; lia).
        change (256 ^ 4) with (2^32).
        destruct (N.eqb_spec (2^32 * X) 0); [unfold X in *; lia |]. cbn [andb orb].
        destruct (N.leb_spec (2^32 * X + 0) (pgsz * (1 + dl_sub_blocks l))) as [Hle |].
        * exfalso. unfold X in Hle. nia.
        * now rewrite andb_false_r.
    - (* packed layout *)
      assert (Hoff : fld_at (sub_hdr_flds l) 20 =
                     Some (F64 (blob_off (vmci_off l) (dl_vmcoreinfo l)))).
      { unfold sub_hdr_flds. rewrite H64, Hpad. cbn. now rewrite Hs3. }
      assert (Hsz : fld_at (sub_hdr_flds l) 28 = Some (F32 (len (dl_vmcoreinfo l)))).
      { unfold sub_hdr_flds. rewrite H64, Hpad. cbn. now rewrite Hs3. }
      cbn [sh_offset_vmcoreinfo sh_size_vmcoreinfo].
      assert (Hvo : vmci_off l = pgsz + 80).
      { unfold vmci_off, sub_hdr_struct_size. now rewrite H64, Hpad. }
      rewrite (sub_field64 96 20 _ Hv1 Hoff) by (try (cbn; lia); unfold blob_off;
        destruct (len (dl_vmcoreinfo l) =? 0); rewrite ?Hvo; lia).
      rewrite (sub_field32 (dl_be l) 96 28 _ Hv1 Hsz) by (cbn; lia).
      unfold put32. rewrite get_put by (cbn; lia).
      unfold blob_off. destruct (N.eqb_spec (len (dl_vmcoreinfo l)) 0) as [Hz | Hnz].
      + reflexivity.
      + rewrite Hvo. destruct (N.eqb_spec (pgsz + 80) 0); [lia |]. cbn [andb orb].
        destruct (N.ltb_spec pgsz (pgsz + 80)); [| lia].
        destruct (N.leb_spec (pgsz + 80 + len (dl_vmcoreinfo l)) (pgsz * (1 + dl_sub_blocks l))); [reflexivity | lia].
  Qed.


  Lemma read_sub_hdr_ok :
    read_sub_hdr rd (dl_be l) (dl_64 l) (dl_version l) pgsz (dl_sub_blocks l) fi mapnr32 =
    (win_start l, win_end l, dl_max_mapnr l).
  Proof.
    unfold read_sub_hdr.
    destruct (N.ltb_spec (dl_version l) 1) as [Hv0 | Hv1].
    - rewrite mapnr32_small by lia. unfold win_start, win_end.
      destruct (dl_split l) eqn:Hs; [| reflexivity].
      destruct (wf_split _ _ Hwf Hs) as [Hv2 _]. lia.
    - fold shn. destruct (dl_64 l) eqn:H64.
      + apply parse_sub_hdr_ok; [assumption | now rewrite H64 | intros _; unfold layout_kind; now rewrite H64].
      + apply parse_sub_hdr_ok; [assumption | |].
        * rewrite H64. unfold sub_hdr_kind_32.
          destruct (dl_version l <? 3); [discriminate |].
          match goal with |- (if ?c then _ else _) <> _ => destruct c; discriminate end.
        * intro H6. unfold shn. rewrite H64. apply kind32; [assumption | lia].
  Qed.

  (** ** the bitmap *)
  Lemma read_bitmap_ok :
    read_bitmap rd pgsz (dl_sub_blocks l) (bitmap_blocks l) fi (win_start l) (win_end l) (dl_max_mapnr l) =
    Ok (dl_max_mapnr l, pm_regions the_map).
  Proof.
    unfold read_bitmap. pose proof (wf_cover _ _ Hwf) as Hc. fold pgsz in Hc.
    destruct (wf_bmp _ _ Hwf) as [Hb1 Hb2]. pose proof pgsz_bounds as Hpb.
    assert (Hbm : forall off : N, off = bm2_off -> rd fi off bmbytes = bm2).
    { intros off Hoff. rewrite Hoff, rd_eq by reflexivity. apply rd_bm2. }
    (* the word-level scanner on the packed bitmap gives the runs of the bit walk *)
    assert (Hscan : forall al s e off esz, e <= bmbytes * 8 ->
              regions_of false al bm2 s e off esz = Ok (regions_from_bitmap false bm2 s e off esz)).
    { intros al s e off esz He. apply regions_of_spec; [apply bits_to_bytes_ok |].
      rewrite len_bm2. assert ((e + 7) / 8 < bmbytes + 1) by (apply N.div_lt_upper_bound; lia). lia. }
    assert (Hlim_le : lim <= bmbytes * 8) by (unfold lim; destruct (win_end l <? bmbytes * 8) eqn:E;
                                               [apply N.ltb_lt in E; lia | lia]).
    unfold bitmap_blocks, bm2_off in Hb2, Hbm |- *. destruct (dl_two_bitmaps l) eqn:Htwo.
    - (* makedumpfile: two bitmaps, the second one counts *)
      replace (2 * dl_bmp_blocks l * pgsz * 8 / 2) with (bmbytes * 8)
        by (unfold bmbytes; apply N.div_unique_exact; lia).
      destruct (N.leb_spec (dl_max_mapnr l) (bmbytes * 8)) as [_ | Hbad]; [| unfold bmbytes in Hbad; lia].
      replace (2 * dl_bmp_blocks l / 2) with (dl_bmp_blocks l)
        by (apply N.div_unique_exact; lia).
      fold bmbytes. destruct (N.ltb_spec (bmbytes * 8) (dl_max_mapnr l)) as [Hbad |]; [unfold bmbytes in Hbad; lia |].
      rewrite Hbm by lia. cbn [the_map pm_regions]. fold lim. rewrite Hscan by exact Hlim_le.
      do 3 f_equal. unfold descoff, bitmap_blocks. rewrite Htwo. lia.
    - (* diskdump: a single bitmap *)
      pose proof (wf_single _ _ Hwf Htwo) as Hs. fold pgsz in Hs.
      destruct (N.leb_spec (dl_max_mapnr l) (dl_bmp_blocks l * pgsz * 8 / 2)) as [Hbad | _].
      + exfalso. assert (dl_bmp_blocks l * pgsz * 8 / 2 = 4 * dl_bmp_blocks l * pgsz)
          by (symmetry; apply N.div_unique_exact; lia). lia.
      + fold bmbytes. destruct (N.ltb_spec (bmbytes * 8) (dl_max_mapnr l)) as [Hbad |]; [unfold bmbytes in Hbad; lia |].
        rewrite Hbm by lia. cbn [the_map pm_regions]. fold lim. rewrite Hscan by exact Hlim_le.
        do 3 f_equal. unfold descoff, bitmap_blocks. rewrite Htwo. lia.
  Qed.

  (** ** [do_header_32/64] on this file *)
  Definition dhn : N := if dl_64 l then DH64_SIZE else DH32_SIZE.

  Lemma hdr_block_size : get32 (dl_be l) (rd fi 0 dhn) (dh_block_size (dl_64 l)) = pgsz.
  Proof.
    pose proof pgsz_bounds. unfold dhn, dh_block_size.
    destruct (dl_64 l) eqn:H64; apply hdr_field_ok; try (unfold header_flds; rewrite H64; reflexivity);
      unfold DH64_SIZE, DH32_SIZE; fold pgsz; lia.
  Qed.

  Lemma hdr_sub_blocks : get32 (dl_be l) (rd fi 0 dhn) (dh_sub_hdr_size (dl_64 l)) = dl_sub_blocks l.
  Proof.
    pose proof (wf_sub _ _ Hwf). unfold dhn, dh_sub_hdr_size.
    destruct (dl_64 l) eqn:H64; apply hdr_field_ok; try (unfold header_flds; rewrite H64; reflexivity);
      unfold DH64_SIZE, DH32_SIZE; lia.
  Qed.

  Lemma hdr_bitmap_blocks : get32 (dl_be l) (rd fi 0 dhn) (dh_bitmap_blocks (dl_64 l)) = bitmap_blocks l.
  Proof.
    destruct (wf_bmp _ _ Hwf). unfold dhn, dh_bitmap_blocks.
    destruct (dl_64 l) eqn:H64; apply hdr_field_ok; try (unfold header_flds; rewrite H64; reflexivity);
      unfold DH64_SIZE, DH32_SIZE; lia.
  Qed.

  Lemma hdr_max_mapnr : get32 (dl_be l) (rd fi 0 dhn) (dh_max_mapnr (dl_64 l)) = mapnr32.
  Proof.
    unfold dhn, dh_max_mapnr.
    destruct (dl_64 l) eqn:H64; apply hdr_field_ok; try (unfold header_flds; rewrite H64; reflexivity);
      unfold DH64_SIZE, DH32_SIZE, mapnr32; lia.
  Qed.

  (** one round of the per-file loop: whatever came before, this file sets the
      geometry and contributes its map *)
  Lemma do_files_step k acc p m :
    do_files rd (dl_be l) (dl_64 l) (dl_version l) (S k) fi acc p m =
    do_files rd (dl_be l) (dl_64 l) (dl_version l) k (fi + 1) (the_map :: acc) pgsz (dl_max_mapnr l).
  Proof.
    cbn [do_files]. fold dhn.
    rewrite hdr_block_size, hdr_bitmap_blocks, hdr_max_mapnr, hdr_sub_blocks, try_header_good.
    pose proof (wf_sub _ _ Hwf). destruct (wf_bmp _ _ Hwf).
    destruct (N.leb_spec (2^31) (dl_sub_blocks l)); [lia |].
    destruct (N.leb_spec (2^31) (bitmap_blocks l)); [lia |].
    rewrite read_sub_hdr_ok, read_bitmap_ok. reflexivity.
  Qed.

  (** ** probing word size and byte order: done on the first file *)
  Section Probe.
    Variable nfiles : nat.
    Variable maps : list pfn_file_map.
    Hypothesis Hfi0 : fi = 0.
    Hypothesis Hgo : do_files rd (dl_be l) (dl_64 l) (dl_version l) nfiles 0 [] 0 0 =
                     Ok (pgsz, dl_max_mapnr l, maps).

    Lemma hdr464_field be' off v :
      fld_at (header_flds l) off = Some (F32 v) -> off + 4 <= 464 ->
      get32 be' (rd 0 0 DH64_SIZE) off = get be' (put32 (dl_be l) v).
    Proof. intros. replace (rd 0 0 DH64_SIZE) with (rd fi 0 DH64_SIZE) by (now rewrite Hfi0). now apply hdr_field. Qed.

    Lemma probe32_of_64 :
      dl_64 l = true -> try_header_w rd false (rd 0 0 DH64_SIZE) nfiles = Err ERR_CORRUPT.
    Proof.
      intro H64. unfold try_header_w.
      assert (Hz : forall be', get32 be' (rd 0 0 DH64_SIZE) (dh_block_size false) = 0).
      { intro be'. cbn [dh_block_size]. rewrite (hdr464_field be' 416 0); [apply get_put32_zero | | lia].
        unfold header_flds. rewrite H64. reflexivity. }
      rewrite !Hz. rewrite !try_header_bad by reflexivity. reflexivity.
    Qed.

    Lemma hdr464_own off v :
      fld_at (header_flds l) off = Some (F32 v) -> off + 4 <= 464 -> v < 2^32 ->
      get32 (dl_be l) (rd 0 0 DH64_SIZE) off = v.
    Proof. intros. replace (rd 0 0 DH64_SIZE) with (rd fi 0 DH64_SIZE) by (now rewrite Hfi0). now apply hdr_field_ok. Qed.

    Lemma probe_own :
      try_header_w rd (dl_64 l) (rd 0 0 DH64_SIZE) nfiles = Ok (dl_be l, pgsz, dl_max_mapnr l, maps).
    Proof.
      unfold try_header_w.
      pose proof pgsz_bounds as Hpb. pose proof (wf_sub _ _ Hwf) as Hsub. destruct (wf_bmp _ _ Hwf) as [_ Hbb].
      pose proof (wf_version _ _ Hwf) as Hver.
      assert (Hbs : fld_at (header_flds l) (dh_block_size (dl_64 l)) = Some (F32 pgsz))
        by (unfold header_flds; destruct (dl_64 l); reflexivity).
      assert (Hbm : fld_at (header_flds l) (dh_bitmap_blocks (dl_64 l)) = Some (F32 (bitmap_blocks l)))
        by (unfold header_flds; destruct (dl_64 l); reflexivity).
      assert (Hmm : fld_at (header_flds l) (dh_max_mapnr (dl_64 l)) = Some (F32 mapnr32))
        by (unfold header_flds; destruct (dl_64 l); reflexivity).
      assert (Hvf : fld_at (header_flds l) DH_VERSION = Some (F32 (dl_version l)))
        by (unfold header_flds; destruct (dl_64 l); reflexivity).
      assert (Ho1 : dh_block_size (dl_64 l) + 4 <= 464) by (destruct (dl_64 l); cbn; lia).
      assert (Ho2 : dh_bitmap_blocks (dl_64 l) + 4 <= 464) by (destruct (dl_64 l); cbn; lia).
      assert (Ho3 : dh_max_mapnr (dl_64 l) + 4 <= 464) by (destruct (dl_64 l); cbn; lia).
      assert (Hgood : try_header (get32 (dl_be l) (rd 0 0 DH64_SIZE) (dh_block_size (dl_64 l)))
                        (get32 (dl_be l) (rd 0 0 DH64_SIZE) (dh_bitmap_blocks (dl_64 l)))
                        (get32 (dl_be l) (rd 0 0 DH64_SIZE) (dh_max_mapnr (dl_64 l))) = Ok (pgsz, mapnr32)).
      { rewrite (hdr464_own _ _ Hbs Ho1) by lia. rewrite (hdr464_own _ _ Hbm Ho2) by lia.
        rewrite (hdr464_own _ _ Hmm Ho3) by (unfold mapnr32; lia). apply try_header_good. }
      assert (Hgo' : do_files rd (dl_be l) (dl_64 l) (get32 (dl_be l) (rd 0 0 DH64_SIZE) DH_VERSION) nfiles 0 [] 0 0
                    = Ok (pgsz, dl_max_mapnr l, maps)).
      { rewrite (hdr464_own _ _ Hvf) by (cbn; lia). exact Hgo. }
      destruct (dl_be l) eqn:Hbe.
      - (* big endian: the little-endian attempt sees a byte-swapped block size *)
        rewrite (hdr464_field false _ _ Hbs Ho1). rewrite Hbe.
        rewrite try_header_bad by (apply (wrong_endian_block_size false)).
        cbn [N.eqb negb]. rewrite Hgood, Hgo'. reflexivity.
      - rewrite Hgood, Hgo'. reflexivity.
    Qed.

    Lemma sig_ok :
      let sig := sub (rd 0 0 DH64_SIZE) 0 8 in
      bytes_eqb sig magic_diskdump || bytes_eqb sig magic_kdump = true.
    Proof.
      cbn zeta. rewrite rd_eq by (symmetry; exact Hfi0). rewrite sub_read_of by (unfold DH64_SIZE; lia).
      destruct F_hdr as [rest E]. rewrite E.
      assert (Hf : fld_at (header_flds l) 0 = Some (FB 8 (if dl_kdump_sig l then sig_kdump else sig_diskdump)))
        by reflexivity.
      pose proof (read_fld (dl_be l) _ rest 0 _ Hf) as R. cbn [fld_len enc_fld] in R.
      change (0 + 0) with 0. rewrite R. destruct (dl_kdump_sig l); reflexivity.
    Qed.

    (** opening the set yields the geometry the layout says and the sorted maps *)
    Theorem open_spec :
      dd_open rd nfiles =
      Ok {| dd_be := dl_be l; dd_ptr_size := if dl_64 l then 8 else 4; dd_page_size := pgsz;
            dd_max_pfn := dl_max_mapnr l; dd_maps := sort_maps maps |}.
    Proof.
      unfold dd_open. pose proof sig_ok as Hs. cbn zeta in Hs. rewrite Hs. cbn [negb].
      pose proof probe_own as Hp. pose proof probe32_of_64 as H32.
      destruct (dl_64 l) eqn:H64.
      - rewrite (H32 eq_refl). cbn [N.eqb negb]. rewrite Hp. reflexivity.
      - rewrite Hp. reflexivity.
    Qed.
  End Probe.
End Roundtrip.

(** * file sets

    The PFN -> file function of a split set ([sort_pfn_file_maps] +
    [find_pfn_file_map] + the [start_pfn] test) is the subject of C11; its
    theorem [SplitProofs.owner_spec] (the owner is the file whose window holds
    the frame, in whatever order the files were given) is imported here and
    composed with the per-file results above. *)
From KdV Require Flat.SplitModel Flat.SplitSpec Flat.SplitProofs.

Definition proj (m : pfn_file_map) : SplitModel.pfmap :=
  {| SplitModel.start_pfn := pm_start m; SplitModel.end_pfn := pm_end m;
     SplitModel.fidx := pm_fidx m |}.

Lemma insert_proj m ms : map proj (insert_map m ms) = SplitModel.insert_map (proj m) (map proj ms).
Proof.
  induction ms as [| h t IH]; [reflexivity |].
  cbn [insert_map SplitModel.insert_map map]. unfold SplitModel.map_le. cbn [proj SplitModel.end_pfn].
  destruct (pm_end m <=? pm_end h); cbn [map]; [reflexivity | now rewrite IH].
Qed.

Lemma sort_proj ms : map proj (sort_maps ms) = SplitModel.sort_pfn_file_maps (map proj ms).
Proof.
  induction ms as [| h t IH]; [reflexivity |].
  cbn [sort_maps fold_right map SplitModel.sort_pfn_file_maps]. fold (sort_maps t).
  fold (SplitModel.sort_pfn_file_maps (map proj t)). now rewrite insert_proj, IH.
Qed.

Lemma find_proj ms pfn :
  SplitModel.find_pfn_file_map (map proj ms) pfn = option_map proj (find_pfn_file_map ms pfn).
Proof.
  induction ms as [| h t IH]; [reflexivity |].
  cbn [map SplitModel.find_pfn_file_map find_pfn_file_map proj SplitModel.end_pfn].
  destruct (pfn <? pm_end h); [reflexivity | exact IH].
Qed.

Lemma insert_map_in x m ms : In x (insert_map m ms) <-> x = m \/ In x ms.
Proof.
  induction ms as [| h t IH]; cbn [insert_map In]; [intuition congruence |].
  destruct (pm_end m <=? pm_end h); cbn [In]; [intuition congruence |].
  rewrite IH. intuition congruence.
Qed.

Lemma sort_maps_in x ms : In x (sort_maps ms) <-> In x ms.
Proof.
  induction ms as [| h t IH]; [reflexivity |].
  cbn [sort_maps fold_right]. fold (sort_maps t). rewrite insert_map_in, IH. cbn [In]. intuition congruence.
Qed.

Section FileSet.
  Variable decompress : N -> bytes -> option bytes.
  Variable l : dd_layout.                 (* what the files have in common *)
  Variable ws : list (N * N).             (* their windows, in the order the files are given *)
  Variable pages : list (option dd_page).
  Variable img : image.
  Hypothesis Hwf : forall w, In w ws -> dd_wf (with_window l w) img.
  Hypothesis Hst : Forall2 (stores decompress) pages img.
  Hypothesis Hsize : forall w, In w ws -> len (encode_dd (with_window l w) pages) < 2^64.
  Hypothesis Hws : windows_ok ws (dl_max_mapnr l).
  Hypothesis Hne : ws <> [].

  Let rd := read_files (encode_dd_set l ws pages).

  Fixpoint maps_from (fi : N) (ws' : list (N * N)) : list pfn_file_map :=
    match ws' with
    | [] => []
    | w :: t => the_map fi (with_window l w) pages :: maps_from (fi + 1) t
    end.

  Lemma rd_file j w off n :
    nth_error ws j = Some w ->
    rd (N.of_nat j) off n = read_of (encode_dd (with_window l w) pages) off n.
  Proof.
    intro H. unfold rd, read_files, encode_dd_set. rewrite Nat2N.id. f_equal.
    apply nth_error_nth. rewrite nth_error_map, H. reflexivity.
  Qed.

  Lemma do_files_from : forall ws' w fi acc p m,
    (forall j w', nth_error (w :: ws') j = Some w' ->
       In w' ws /\
       forall off n, rd (fi + N.of_nat j) off n = read_of (encode_dd (with_window l w') pages) off n) ->
    do_files rd (dl_be l) (dl_64 l) (dl_version l) (S (length ws')) fi acc p m =
    Ok (dl_page_size l, dl_max_mapnr l, rev acc ++ maps_from fi (w :: ws')).
  Proof.
    induction ws' as [| w' t IH]; intros w fi acc p m H.
    - destruct (H O w eq_refl) as [Hin Hr]. rewrite N.add_0_r in Hr.
      rewrite (do_files_step rd fi (with_window l w) pages img (Hwf _ Hin) (Hsize _ Hin) Hr).
      reflexivity.
    - destruct (H O w eq_refl) as [Hin Hr]. rewrite N.add_0_r in Hr.
      rewrite (do_files_step rd fi (with_window l w) pages img (Hwf _ Hin) (Hsize _ Hin) Hr).
      cbn [with_window dl_be dl_64 dl_version dl_page_size dl_max_mapnr length].
      rewrite (IH w').
      + cbn [maps_from rev]. now rewrite <- app_assoc.
      + intros j w'' Hj. destruct (H (S j) w'' Hj) as [Hin' Hr']. split; [assumption |].
        intros off n. rewrite <- Hr'. f_equal. lia.
  Qed.

  Definition set_maps : list pfn_file_map := maps_from 0 ws.

  Definition set_state : dd_state :=
    {| dd_be := dl_be l; dd_ptr_size := if dl_64 l then 8 else 4; dd_page_size := dl_page_size l;
       dd_max_pfn := dl_max_mapnr l; dd_maps := sort_maps set_maps |}.

  Theorem set_open : dd_open rd (length ws) = Ok set_state.
  Proof.
    unfold set_state, set_maps.
    assert (exists w0 ws', ws = w0 :: ws') as [w0 [ws' Ews]] by (destruct ws; [contradiction | eauto]).
    assert (Hin0 : In w0 ws) by (rewrite Ews; now left).
    assert (Hr0 : forall off n, rd 0 off n = read_of (encode_dd (with_window l w0) pages) off n).
    { intros. apply (rd_file 0 w0). now rewrite Ews. }
    pose proof (open_spec rd 0 (with_window l w0) pages img (Hwf _ Hin0) (Hsize _ Hin0) Hr0
                  (length ws) (maps_from 0 ws) eq_refl) as Ho.
    cbn [with_window dl_be dl_64 dl_version dl_page_size dl_max_mapnr] in Ho. apply Ho.
    rewrite Ews. cbn [length]. rewrite (do_files_from ws' w0); [reflexivity |].
    intros j w' Hj. rewrite <- Ews in Hj. split; [eapply nth_error_In; eassumption |].
    intros off n. rewrite N.add_0_l. now apply rd_file.
  Qed.

  (** the maps are those of the files, with the file's position as index *)
  Lemma maps_from_in m : forall ws' fi,
    In m (maps_from fi ws') ->
    exists j w, nth_error ws' j = Some w /\ m = the_map (fi + N.of_nat j) (with_window l w) pages.
  Proof.
    induction ws' as [| w t IH]; intros fi H; [destruct H |].
    destruct H as [<- | H].
    - exists O, w. split; [reflexivity |]. now rewrite N.add_0_r.
    - destruct (IH _ H) as [j [w' [Hj ->]]]. exists (S j), w'. split; [assumption |]. f_equal. lia.
  Qed.

  Lemma maps_from_nth : forall ws' fi j w,
    nth_error ws' j = Some w -> In (the_map (fi + N.of_nat j) (with_window l w) pages) (maps_from fi ws').
  Proof.
    induction ws' as [| w' t IH]; intros fi j w H; [destruct j; discriminate |].
    destruct j.
    - injection H as ->. left. now rewrite N.add_0_r.
    - right. replace (fi + N.of_nat (S j)) with (fi + 1 + N.of_nat j) by lia. now apply IH.
  Qed.

  Lemma wf_projected : SplitSpec.wf_set (map proj set_maps).
  Proof.
    destruct Hws as [Hnonempty [Hnodup [Hdisj _]]]. unfold set_maps. split.
    - intros pm Hin. apply in_map_iff in Hin as [m [<- Hm]].
      destruct (maps_from_in _ _ _ Hm) as [j [w [Hj ->]]]. cbn.
      apply Hnonempty. eapply nth_error_In; eassumption.
    - intros a b Ha Hb. apply in_map_iff in Ha as [ma [<- Hma]]. apply in_map_iff in Hb as [mb [<- Hmb]].
      destruct (maps_from_in _ _ _ Hma) as [i [wi [Hi ->]]].
      destruct (maps_from_in _ _ _ Hmb) as [j [wj [Hj ->]]].
      destruct (Nat.eq_dec i j) as [-> | Hij].
      + left. rewrite Hi in Hj. now injection Hj as ->.
      + right. unfold SplitSpec.disjoint. cbn.
        apply Hdisj; [eapply nth_error_In; eassumption | eapply nth_error_In; eassumption |].
        intros ->. apply Hij. rewrite NoDup_nth_error in Hnodup. apply Hnodup.
        * apply nth_error_Some. now rewrite Hi.
        * now rewrite Hi, Hj.
  Qed.

  (** which descriptor table a page frame is looked up in *)
  Lemma hit_in_window j w pfn :
    nth_error ws j = Some w -> fst w <= pfn < snd w ->
    find_pfn_file_map (sort_maps set_maps) pfn = Some (the_map (N.of_nat j) (with_window l w) pages).
  Proof.
    intros Hj Hw. set (m := the_map (N.of_nat j) (with_window l w) pages).
    assert (Hin : In m set_maps).
    { unfold set_maps, m. rewrite <- (N.add_0_l (N.of_nat j)). now apply maps_from_nth. }
    pose proof (proj2 (SplitProofs.owner_spec (map proj set_maps) pfn (proj m) wf_projected)) as Ho.
    specialize (Ho (conj (in_map proj _ _ Hin) Hw)).
    unfold SplitModel.owner, SplitModel.owner_sorted in Ho.
    rewrite <- sort_proj, find_proj in Ho.
    destruct (find_pfn_file_map (sort_maps set_maps) pfn) as [m' |] eqn:E; [| discriminate].
    cbn [option_map] in Ho. destruct (SplitModel.start_pfn (proj m') <=? pfn); [| discriminate].
    injection Ho as _ _ Hp.
    assert (Hin' : In m' set_maps).
    { apply sort_maps_in. clear - E. induction (sort_maps set_maps) as [| h t IH]; [discriminate |].
      cbn [find_pfn_file_map] in E. destruct (pfn <? pm_end h); [injection E as ->; now left | right; auto]. }
    destruct (maps_from_in _ _ _ Hin') as [j' [w' [Hj' ->]]].
    assert (Ejj : j' = j).
    { unfold m in Hp. cbn in Hp. lia. }
    subst j'. rewrite Hj in Hj'. injection Hj' as <-. rewrite N.add_0_l. reflexivity.
  Qed.

  Lemma hit_is_a_file m pfn :
    find_pfn_file_map (sort_maps set_maps) pfn = Some m ->
    exists j w, nth_error ws j = Some w /\ m = the_map (N.of_nat j) (with_window l w) pages.
  Proof.
    intro E.
    assert (Hin : In m set_maps).
    { apply sort_maps_in. clear - E. induction (sort_maps set_maps) as [| h t IH]; [discriminate |].
      cbn [find_pfn_file_map] in E. destruct (pfn <? pm_end h); [injection E as ->; now left | right; auto]. }
    destruct (maps_from_in _ _ _ Hin) as [j [w [Hj ->]]]. exists j, w. now rewrite N.add_0_l.
  Qed.

  (** reading a page frame from the set: exactly the image's page *)
  Theorem set_read_page z pfn :
    dd_read_page rd decompress set_state z pfn =
    spec_read_page img (dl_page_size l) (dl_max_mapnr l) z pfn.
  Proof.
    rewrite dd_read_page_unfold. unfold spec_read_page.
    cbn [dd_max_pfn dd_page_size dd_maps dd_be set_state].
    destruct (N.leb_spec (dl_max_mapnr l) pfn) as [| Hpfn]; [reflexivity |].
    unfold hit_of.
    destruct (nth_error img (N.to_nat pfn)) as [[c |] |] eqn:Hc.
    - (* stored: some window holds the frame, that file has the descriptor and the data *)
      destruct Hws as [_ [_ [_ Hcover]]]. destruct (Hcover pfn Hpfn) as [w [Hin Hw]].
      destruct (In_nth_error _ _ Hin) as [j Hj].
      rewrite (hit_in_window j w pfn Hj Hw).
      change (pm_start (the_map (N.of_nat j) (with_window l w) pages)) with (fst w).
      destruct (N.leb_spec (fst w) pfn); [| lia].
      destruct (page_in_window decompress rd (N.of_nat j) (with_window l w) pages img
                  (Hwf _ Hin) Hst (Hsize _ Hin) (fun off n => rd_file j w off n Hj) pfn c Hw Hc)
        as [pos [Hpos Hpage]].
      rewrite Hpos. exact Hpage.
    - (* not in the dump: no file has a descriptor for it *)
      assert (Hnone : match nth_error pages (N.to_nat pfn) with Some (Some _) => False | _ => True end).
      { pose proof (Forall2_nth_error _ _ _ Hst (N.to_nat pfn)) as R. rewrite Hc in R.
        destruct (nth_error pages (N.to_nat pfn)) as [[p |] |]; [contradiction | exact I | exact I]. }
      destruct (find_pfn_file_map (sort_maps set_maps) pfn) as [m |] eqn:E; [| reflexivity].
      destruct (hit_is_a_file _ _ E) as [j [w [Hj ->]]].
      assert (Hin : In w ws) by (eapply nth_error_In; eassumption).
      rewrite (pdpos_none decompress rd (N.of_nat j) (with_window l w) pages img (Hwf _ Hin) Hst (Hsize _ Hin)
                 (fun off n => rd_file j w off n Hj) pfn Hnone).
      destruct (_ <=? pfn); reflexivity.
    - assert (Hnone : match nth_error pages (N.to_nat pfn) with Some (Some _) => False | _ => True end).
      { pose proof (Forall2_nth_error _ _ _ Hst (N.to_nat pfn)) as R. rewrite Hc in R.
        destruct (nth_error pages (N.to_nat pfn)) as [[p |] |]; [contradiction | contradiction | exact I]. }
      destruct (find_pfn_file_map (sort_maps set_maps) pfn) as [m |] eqn:E; [| reflexivity].
      destruct (hit_is_a_file _ _ E) as [j [w [Hj ->]]].
      assert (Hin : In w ws) by (eapply nth_error_In; eassumption).
      rewrite (pdpos_none decompress rd (N.of_nat j) (with_window l w) pages img (Hwf _ Hin) Hst (Hsize _ Hin)
                 (fun off n => rd_file j w off n Hj) pfn Hnone).
      destruct (_ <=? pfn); reflexivity.
  Qed.
End FileSet.

(** * closed statements *)

(** a whole dump in one file is the set with the single window "everything" *)
Lemma with_window_wf l img w :
  dd_wf l img -> 2 <= dl_version l -> fst w < 2^64 -> snd w < 2^64 ->
  (dl_64 l = false -> dl_version l < 6 -> fst w < 2^32 /\ snd w < 2^32) ->
  dd_wf (with_window l w) img.
Proof.
  intros [] Hv H1 H2 H3. constructor; cbn [with_window dl_page_size dl_version dl_max_mapnr dl_sub_blocks
    dl_vmcoreinfo dl_notes dl_eraseinfo dl_bmp_blocks dl_two_bitmaps dl_split dl_64 dl_pad dl_status
    dl_phys_base dl_dump_level dl_start_pfn dl_end_pfn]; try assumption.
  intros _. repeat split; try assumption; now apply H3.
Qed.

Lemma nth_error_nil' {A} k : @nth_error A [] k = None.
Proof. destruct k; reflexivity. Qed.

Section Single.
  Variable decompress : N -> bytes -> option bytes.
  Variable l : dd_layout.
  Variable pages : list (option dd_page).
  Variable img : image.
  Hypothesis Hwf : dd_wf l img.
  Hypothesis Hst : Forall2 (stores decompress) pages img.
  Hypothesis Hsize : len (encode_dd l pages) < 2^64.

  Let rd := read_files [encode_dd l pages].

  Definition expected_state : dd_state :=
    {| dd_be := dl_be l; dd_ptr_size := if dl_64 l then 8 else 4; dd_page_size := dl_page_size l;
       dd_max_pfn := dl_max_mapnr l; dd_maps := [the_map 0 l pages] |}.

  Lemma rd_single off n : rd 0 off n = read_of (encode_dd l pages) off n.
  Proof. reflexivity. Qed.

  Theorem single_open : dd_open rd 1 = Ok expected_state.
  Proof.
    apply (open_spec rd 0 l pages img Hwf Hsize rd_single 1 [the_map 0 l pages] eq_refl).
    rewrite (do_files_step rd 0 l pages img Hwf Hsize rd_single). reflexivity.
  Qed.

  (** a single file need not cover everything: a member of a split set opened
      on its own gives its window's pages and nothing for the rest *)
  Theorem single_read_page z pfn :
    dd_read_page rd decompress expected_state z pfn =
    spec_read_page (if (win_start l <=? pfn) && (pfn <? win_end l) then img else [])
                   (dl_page_size l) (dl_max_mapnr l) z pfn.
  Proof.
    rewrite dd_read_page_unfold. unfold spec_read_page, hit_of.
    cbn [dd_max_pfn dd_page_size dd_maps dd_be expected_state find_pfn_file_map].
    destruct (N.leb_spec (dl_max_mapnr l) pfn) as [| Hpfn]; [reflexivity |].
    change (pm_end (the_map 0 l pages)) with (win_end l).
    destruct (N.ltb_spec pfn (win_end l)) as [He | He].
    2:{ rewrite andb_false_r, nth_error_nil'. reflexivity. }
    cbn beta iota. change (pm_start (the_map 0 l pages)) with (win_start l).
    destruct (N.leb_spec (win_start l) pfn) as [Hs | Hs]; cbn [andb].
    2:{ rewrite nth_error_nil'. reflexivity. }
    destruct (nth_error img (N.to_nat pfn)) as [[c |] |] eqn:Hc.
    - destruct (page_in_window decompress rd 0 l pages img Hwf Hst Hsize rd_single pfn c (conj Hs He) Hc)
        as [pos [Hpos Hpage]].
      rewrite Hpos. exact Hpage.
    - rewrite (pdpos_none decompress rd 0 l pages img Hwf Hst Hsize rd_single pfn); [reflexivity |].
      pose proof (Forall2_nth_error _ _ _ Hst (N.to_nat pfn)) as R. rewrite Hc in R.
      destruct (nth_error pages (N.to_nat pfn)) as [[p |] |]; [contradiction | exact I | exact I].
    - rewrite (pdpos_none decompress rd 0 l pages img Hwf Hst Hsize rd_single pfn); [reflexivity |].
      pose proof (Forall2_nth_error _ _ _ Hst (N.to_nat pfn)) as R. rewrite Hc in R.
      destruct (nth_error pages (N.to_nat pfn)) as [[p |] |]; [contradiction | contradiction | exact I].
  Qed.

  (** the usual case: the file is the whole dump *)
  Theorem read_page_spec z pfn :
    dl_split l = false ->
    dd_read_page rd decompress expected_state z pfn =
    spec_read_page img (dl_page_size l) (dl_max_mapnr l) z pfn.
  Proof.
    intro Hns. rewrite single_read_page. unfold win_start, win_end. rewrite Hns.
    unfold spec_read_page. destruct (N.leb_spec (dl_max_mapnr l) pfn); [reflexivity |].
    pose proof (wf_mapnr64 _ _ Hwf).
    destruct (N.leb_spec 0 pfn); [| lia]. destruct (N.ltb_spec pfn (2^64 - 1)); [| lia]. reflexivity.
  Qed.
End Single.


Theorem diskdump_geometry decompress l pages img :
  dd_wf l img -> Forall2 (stores decompress) pages img -> len (encode_dd l pages) < 2^64 ->
  exists st, dd_open (read_files [encode_dd l pages]) 1 = Ok st /\
    dd_be st = dl_be l /\ dd_ptr_size st = (if dl_64 l then 8 else 4) /\
    dd_page_size st = dl_page_size l /\ dd_max_pfn st = dl_max_mapnr l.
Proof.
  intros Hwf Hst Hsz. exists (expected_state l pages). split.
  - exact (single_open l pages img Hwf Hsz).
  - repeat split.
Qed.

Theorem diskdump_roundtrip decompress l pages img :
  dd_wf l img -> dl_split l = false ->
  Forall2 (stores decompress) pages img -> len (encode_dd l pages) < 2^64 ->
  exists st, dd_open (read_files [encode_dd l pages]) 1 = Ok st /\
    forall zero_excluded pfn,
      dd_read_page (read_files [encode_dd l pages]) decompress st zero_excluded pfn =
      spec_read_page img (dl_page_size l) (dl_max_mapnr l) zero_excluded pfn.
Proof.
  intros Hwf Hns Hst Hsz. exists (expected_state l pages). split.
  - exact (single_open l pages img Hwf Hsz).
  - intros z pfn. exact (read_page_spec decompress l pages img Hwf Hst Hsz z pfn Hns).
Qed.

(** one member of a split set, opened on its own *)
Theorem diskdump_member_roundtrip decompress l pages img :
  dd_wf l img -> Forall2 (stores decompress) pages img -> len (encode_dd l pages) < 2^64 ->
  exists st, dd_open (read_files [encode_dd l pages]) 1 = Ok st /\
    forall zero_excluded pfn,
      dd_read_page (read_files [encode_dd l pages]) decompress st zero_excluded pfn =
      spec_read_page (if (win_start l <=? pfn) && (pfn <? win_end l) then img else [])
                     (dl_page_size l) (dl_max_mapnr l) zero_excluded pfn.
Proof.
  intros Hwf Hst Hsz. exists (expected_state l pages). split.
  - exact (single_open l pages img Hwf Hsz).
  - intros z pfn. exact (single_read_page decompress l pages img Hwf Hst Hsz z pfn).
Qed.

(** a split set, the files given in any order *)
Theorem diskdump_split_roundtrip decompress l ws pages img :
  ws <> [] ->
  (forall w, In w ws -> dd_wf (with_window l w) img) ->
  Forall2 (stores decompress) pages img ->
  (forall w, In w ws -> len (encode_dd (with_window l w) pages) < 2^64) ->
  windows_ok ws (dl_max_mapnr l) ->
  exists st, dd_open (read_files (encode_dd_set l ws pages)) (length ws) = Ok st /\
    dd_be st = dl_be l /\ dd_ptr_size st = (if dl_64 l then 8 else 4) /\
    dd_page_size st = dl_page_size l /\ dd_max_pfn st = dl_max_mapnr l /\
    forall zero_excluded pfn,
      dd_read_page (read_files (encode_dd_set l ws pages)) decompress st zero_excluded pfn =
      spec_read_page img (dl_page_size l) (dl_max_mapnr l) zero_excluded pfn.
Proof.
  intros Hne Hwf Hst Hsz Hws. exists (set_state l ws pages). split.
  - exact (set_open l ws pages img Hwf Hsz Hws Hne).
  - repeat split. intros z pfn. exact (set_read_page decompress l ws pages img Hwf Hst Hsz Hws z pfn).
Qed.

Lemma windows_ok_perm ws ws' m : Permutation.Permutation ws ws' -> windows_ok ws m -> windows_ok ws' m.
Proof.
  intros Hp [H1 [H2 [H3 H4]]]. pose proof (Permutation.Permutation_sym Hp) as Hp'.
  repeat split.
  - intros w Hw. apply H1. now apply (Permutation.Permutation_in _ Hp').
  - now apply (Permutation.Permutation_NoDup Hp).
  - intros wi wj Hi Hj. apply H3; now apply (Permutation.Permutation_in _ Hp').
  - intros pfn Hpfn. destruct (H4 pfn Hpfn) as [w [Hw Hr]]. exists w. split; [| exact Hr].
    now apply (Permutation.Permutation_in _ Hp).
Qed.

(** what the spec says, spelled out: present pages come back byte for byte,
    absent ones as NODATA or zeroes, nothing else *)
Lemma spec_read_page_cases img pgsz max_pfn z pfn :
  match spec_read_page img pgsz max_pfn z pfn with
  | Ok data =>
      pfn < max_pfn /\
      (nth_error img (N.to_nat pfn) = Some (Some data) \/
       (z = true /\ data = zeros pgsz /\
        match nth_error img (N.to_nat pfn) with Some (Some _) => False | _ => True end))
  | Err e =>
      e = ERR_NODATA /\
      (max_pfn <= pfn \/ (z = false /\
        match nth_error img (N.to_nat pfn) with Some (Some _) => False | _ => True end))
  end.
Proof.
  unfold spec_read_page. destruct (N.leb_spec max_pfn pfn).
  - split; [reflexivity | now left].
  - destruct (nth_error img (N.to_nat pfn)) as [[c |] |].
    + split; [assumption | now left].
    + destruct z; (split; [assumption || reflexivity | right; repeat split]).
    + destruct z; (split; [assumption || reflexivity | right; repeat split]).
Qed.

(** * arbitrary ranges *)
From KdV Require Import Fmt.ReadProofs.

Lemma spec_read_page_len img pgsz max_pfn z pfn c :
  Forall (fun oc => match oc with Some c => len c = pgsz /\ bytes_ok c | None => True end) img ->
  spec_read_page img pgsz max_pfn z pfn = Ok c -> len c = pgsz.
Proof.
  intros Hall H. unfold spec_read_page in H. destruct (max_pfn <=? pfn); [discriminate |].
  destruct (nth_error img (N.to_nat pfn)) as [[c' |] |] eqn:E.
  - injection H as <-. rewrite Forall_forall in Hall. now destruct (Hall _ (nth_error_In _ _ E)).
  - destruct z; [injection H as <-; apply len_zeros | discriminate].
  - destruct z; [injection H as <-; apply len_zeros | discriminate].
Qed.

Theorem diskdump_read_range decompress l pages img :
  dd_wf l img -> dl_split l = false ->
  Forall2 (stores decompress) pages img -> len (encode_dd l pages) < 2^64 ->
  exists st, dd_open (read_files [encode_dd l pages]) 1 = Ok st /\
    forall zero_excluded addr n, addr + n <= 2^64 ->
      let '(status, data) := dd_read (read_files [encode_dd l pages]) decompress st zero_excluded addr n in
      exists m, N.of_nat m <= n /\
        data = ReadProofs.bytes_from (spec_read_page img (dl_page_size l) (dl_max_mapnr l) zero_excluded)
                                     (dl_page_size l) addr m /\
        ((status = KDUMP_OK /\ N.of_nat m = n) \/
         (N.of_nat m < n /\
          spec_read_page img (dl_page_size l) (dl_max_mapnr l) zero_excluded
                         ((addr + N.of_nat m) / dl_page_size l) = Err status)).
Proof.
  intros Hwf Hns Hst Hsz. exists (expected_state l pages). split; [exact (single_open l pages img Hwf Hsz) |].
  intros z addr n Hr. unfold dd_read.
  pose proof (pgsz_bounds l img Hwf) as Hpb.
  pose proof (read_range_spec (dd_get_page (read_files [encode_dd l pages]) decompress z)
                (fun st => st = expected_state l pages)
                (spec_read_page img (dl_page_size l) (dl_max_mapnr l) z) (dl_page_size l)
                ltac:(lia)) as H.
  cbn [dd_page_size expected_state].
  assert (Hget : forall st a, (fun st => st = expected_state l pages) st -> a mod dl_page_size l = 0 ->
            fst (dd_get_page (read_files [encode_dd l pages]) decompress z st a) =
              spec_read_page img (dl_page_size l) (dl_max_mapnr l) z (a / dl_page_size l) /\
            (fun st => st = expected_state l pages)
              (snd (dd_get_page (read_files [encode_dd l pages]) decompress z st a))).
  { intros st a Hs _. cbn beta in Hs. subst st. unfold dd_get_page. cbn [fst snd dd_page_size expected_state].
    split; [apply (read_page_spec decompress l pages img Hwf Hst Hsz _ _ Hns) | reflexivity]. }
  specialize (H Hget).
  specialize (H (fun k c => spec_read_page_len img _ _ z k c (wf_pages _ _ Hwf))).
  specialize (H (expected_state l pages) addr n eq_refl Hr).
  destruct (read_range (dd_get_page (read_files [encode_dd l pages]) decompress z) (dl_page_size l)
              (expected_state l pages) addr n) as [[status data] st'].
  cbn [fst]. destruct H as [_ H]. exact H.
Qed.
