(** Reader model of src/kdumpfile/lkcd.c (Linux Kernel Crash Dump).

    Follows [lkcd_probe]/[open_common] (magic -> byte order, version, page
    size, [init_v1]/[init_v2]/[init_v8]: which header variant carries the
    compression method, where the page stream starts), the sequential scan of
    the page stream ([search_page_desc]: descriptor, END marker, duplicate
    detection, running maximum PFN) and [lkcd_read_page] (RAW / COMPRESSED
    dispatch with the exact-size checks, RLE or gzip).

    The lazily built three-level PFN index (pfn_level1 -> pfn_block lists) is
    abstracted to what it stores: the association "PFN -> file offset of its
    descriptor" for the scanned prefix of the stream, the position where the
    scan stopped ([lk_last]) and the END marker once seen ([lk_end]).  That
    the block structure implements this association is what fix 35 restores;
    it is covered by the correspondence run (random stream orders and request
    orders), not by a theorem.  zero_excluded is ignored by lkcd.c. *)
From Coq Require Import NArith List Bool.
From KdV Require Import Fmt.Codec Fmt.Rle.
Import ListNotations.
Local Open Scope N_scope.

Definition LKCD_OFFSET_TO_FIRST_PAGE : N := 65536.
Definition DUMP_RAW : N := 1.
Definition DUMP_COMPRESSED : N := 2.
Definition DUMP_END : N := 4.
Definition COMPRESS_RLE : N := 1.
Definition COMPRESS_GZIP : N := 2.
Definition MAX_PAGE_SIZE : N := 262144.
Definition DH_V8_SIZE : N := 742.

Record lk_state := {
  lk_be : bool;
  lk_version : N;
  lk_page_size : N;
  lk_compression : N;
  lk_index : list (N * N);     (* PFN -> offset of its descriptor, scanned so far *)
  lk_last : N;                 (* last_offset *)
  lk_end : N;                  (* end_offset (0 = not seen) *)
  lk_max_pfn : N
}.

Section Reader.
  Variable rd : N -> N -> N -> bytes.
  Variable gunzip : bytes -> option bytes.

  Definition bytes_eqb (a b : bytes) : bool :=
    Nat.eqb (length a) (length b) && forallb (fun p => fst p =? snd p) (combine a b).

  Definition magic_le : bytes := [237; 35; 143; 97; 115; 1; 25; 168].
  Definition KDUMP_NOPROBE : N := 100.

  (** [uts_looks_sane] on the 390 bytes of a struct new_utsname *)
  Definition uts_sane (u : bytes) : bool :=
    let b i := nth i u 0 in
    (b 64%nat =? 0) && (b 129%nat =? 0) && (b 194%nat =? 0) && (b 259%nat =? 0) && (b 324%nat =? 0)
    && negb (b 130%nat =? 0) && negb (b 195%nat =? 0) && negb (b 260%nat =? 0)
    && bytes_eqb (firstn 6 u) [76; 105; 110; 117; 120; 0].          (* "Linux\0" *)

  Definition is_pow2 (x : N) : bool := negb (x =? 0) && (N.land x (x - 1) =? 0).

  (** [lkcd_probe] + [open_common] *)
  Definition lk_open (nfiles : nat) : res lk_state :=
    let hdr := rd 0 0 DH_V8_SIZE in
    let magic := sub hdr 0 8 in
    if negb (bytes_eqb magic magic_le || bytes_eqb magic (rev magic_le)) then Err KDUMP_NOPROBE else
    let be := bytes_eqb magic (rev magic_le) in
    if Nat.ltb 1 nfiles then Err ERR_NOTIMPL else
    let version := N.land (get32 be hdr 8) 1073741823 in      (* & ~(MCLX_V0 | MCLX_V1) *)
    let pgsz := get32 be hdr 20 in
    if negb (is_pow2 pgsz) then Err ERR_CORRUPT else        (* set_page_size *)
    let mk (compression data_offset : N) :=
      Ok {| lk_be := be; lk_version := version; lk_page_size := pgsz; lk_compression := compression;
            lk_index := []; lk_last := data_offset; lk_end := 0; lk_max_pfn := 0 |} in
    if version =? 1 then mk COMPRESS_RLE LKCD_OFFSET_TO_FIRST_PAGE
    else if (version =? 2) || (version =? 3) || (version =? 5) || (version =? 6) || (version =? 7) then
      let use64 := negb (uts_sane (sub hdr 316 390)) && uts_sane (sub hdr 328 390) in
      mk (if 5 <=? version then get32 be hdr (if use64 then 728 else 712) else COMPRESS_RLE)
         LKCD_OFFSET_TO_FIRST_PAGE
    else if (version =? 8) || (version =? 9) || (version =? 10) then
      mk (get32 be hdr 722) (if 9 <=? version then get64 be hdr 734 else LKCD_OFFSET_TO_FIRST_PAGE)
    else Err ERR_NOTIMPL.

  Definition shift_of (pgsz : N) : N := N.log2 pgsz.

  Fixpoint assoc (k : N) (l : list (N * N)) : option N :=
    match l with
    | [] => None
    | (a, b) :: t => if a =? k then Some b else assoc k t
    end.

  (** [search_page_desc]: continue the scan until [pfn] is found.
      Returns (status, state, offset of the descriptor found). *)
  Fixpoint search (fuel : nat) (st : lk_state) (pfn : N) : N * lk_state * N :=
    match fuel with
    | O => (ERR_UNMODELLED, st, 0)
    | S k =>
        let off := lk_last st in
        if off =? lk_end st then (ERR_NODATA, st, 0) else
        let dp := rd 0 off 16 in
        let flags := get32 (lk_be st) dp 12 in
        if negb (N.land flags DUMP_END =? 0) then
          (ERR_NODATA,
           {| lk_be := lk_be st; lk_version := lk_version st; lk_page_size := lk_page_size st;
              lk_compression := lk_compression st; lk_index := lk_index st; lk_last := lk_last st;
              lk_end := off; lk_max_pfn := lk_max_pfn st |}, 0)
        else
          let curpfn := N.shiftr (get64 (lk_be st) dp 0) (shift_of (lk_page_size st)) in
          (* the index holds 32-bit page frame numbers (fix 90) *)
          if 2^32 <=? curpfn then (ERR_NOTIMPL, st, 0) else
          match assoc curpfn (lk_index st) with
          | Some _ => (ERR_CORRUPT, st, 0)                   (* "Duplicate PFN" *)
          | None =>
              let st' := {| lk_be := lk_be st; lk_version := lk_version st;
                            lk_page_size := lk_page_size st; lk_compression := lk_compression st;
                            lk_index := (curpfn, off) :: lk_index st;
                            lk_last := off + 16 + get32 (lk_be st) dp 8; lk_end := lk_end st;
                            lk_max_pfn := N.max (lk_max_pfn st) (curpfn + 1) |} in
              if curpfn =? pfn then (KDUMP_OK, st', off) else search k st' pfn
          end
    end.

  (** [get_page_desc] *)
  Definition get_page_desc (fuel : nat) (st : lk_state) (pfn : N) : N * lk_state * N :=
    match assoc pfn (lk_index st) with
    | Some off => (KDUMP_OK, st, off)
    | None => search fuel st pfn
    end.

  (** [lkcd_read_page] *)
  Definition lk_read_page (fuel : nat) (st : lk_state) (pfn : N) : res bytes * lk_state :=
    match get_page_desc fuel st pfn with
    | (status, st, off) =>
        if negb (status =? KDUMP_OK) then (Err status, st) else
        let dp := rd 0 off 16 in
        let size := get32 (lk_be st) dp 8 in
        let type := N.land (get32 (lk_be st) dp 12) 3 in
        let pgsz := lk_page_size st in
        if type =? DUMP_COMPRESSED then
          if pgsz <? size then (Err ERR_CORRUPT, st) else      (* the buffer holds one page *)
          let buf := rd 0 (off + 16) size in
          if lk_compression st =? COMPRESS_RLE then
            match uncompress_rle buf pgsz with
            | Some out => if len out =? pgsz then (Ok out, st) else (Err ERR_CORRUPT, st)
            | None => (Err ERR_CORRUPT, st)
            end
          else if lk_compression st =? COMPRESS_GZIP then
            match gunzip buf with
            | Some out => if len out =? pgsz then (Ok out, st) else (Err ERR_CORRUPT, st)
            | None => (Err ERR_CORRUPT, st)
            end
          else (Err ERR_NOTIMPL, st)
        else if type =? DUMP_RAW then
          if negb (size =? pgsz) then (Err ERR_CORRUPT, st)
          else (Ok (rd 0 (off + 16) size), st)
        else (Err ERR_NOTIMPL, st)
    end.

  Definition lk_get_page (fuel : nat) (st : lk_state) (addr : N) : res bytes * lk_state :=
    lk_read_page fuel st (addr / lk_page_size st).

  Definition lk_read (fuel : nat) (st : lk_state) (addr n : N) : N * bytes * lk_state :=
    read_range (lk_get_page fuel) (lk_page_size st) st addr n.

  (** [lkcd_max_pfn_revalidate]: scan the rest of the stream *)
  Definition lk_scan_max_pfn (fuel : nat) (st : lk_state) : res N * lk_state :=
    if lk_last st =? lk_end st then (Ok (lk_max_pfn st), st) else
    match search fuel st (2^64 - 1) with
    | (status, st', _) =>
        if status =? ERR_NODATA then (Ok (lk_max_pfn st'), st') else (Err status, st')
    end.
End Reader.
