(** Byte strings, fixed-width little/big-endian integers, file slices.

    Shared by every format model of C01.  A byte is an [N] below 256
    ([bytes_ok]); a file is a byte list; the library's file access
    ([flatmap_pread]/[flatmap_get_chunk] over [fcache_get_read]) returns the
    requested slice with everything past EOF read as zero ([read_of]).

    The readers take the file access function as a parameter
    [rd : fidx -> off -> len -> bytes]; the theorems instantiate it with
    [read_of] of the encoder's output, the correspondence driver with the
    bytes of the dump file on disk. *)
From Coq Require Import NArith List Bool.
Import ListNotations.
Local Open Scope N_scope.

Definition bytes := list N.
Definition bytes_ok (l : bytes) : Prop := Forall (fun b => b < 256) l.

Definition len (l : bytes) : N := N.of_nat (length l).

(** result of a library call: a value or a [kdump_status] error code *)
Inductive res (A : Type) := Ok (a : A) | Err (st : N).
Arguments Ok {A}. Arguments Err {A}.

Definition KDUMP_OK : N := 0.
Definition ERR_SYSTEM : N := 1.
Definition ERR_NOTIMPL : N := 2.
Definition ERR_NODATA : N := 3.
Definition ERR_CORRUPT : N := 4.
Definition ERR_INVALID : N := 5.
Definition ERR_NOKEY : N := 6.
Definition ERR_EOF : N := 7.
Definition ERR_BUSY : N := 8.
Definition ERR_ADDRXLAT : N := 9.
(** not a library status: the model does not cover this input (the C code
    would compute with a negative [int32_t] / overflow) *)
Definition ERR_UNMODELLED : N := 99.

(** [le_get [b0; b1; ...] = b0 + 256 * b1 + ...] *)
Fixpoint le_get (l : bytes) : N :=
  match l with
  | [] => 0
  | b :: t => b + 256 * le_get t
  end.

Fixpoint le_put (n : nat) (v : N) : bytes :=
  match n with
  | O => []
  | S k => (v mod 256) :: le_put k (v / 256)
  end.

Definition be_get (l : bytes) : N := le_get (rev l).
Definition be_put (n : nat) (v : N) : bytes := rev (le_put n v).

Definition get (be : bool) (l : bytes) : N := if be then be_get l else le_get l.
Definition put (be : bool) (n : nat) (v : N) : bytes :=
  if be then be_put n v else le_put n v.

(** [sub l off n]: [n] bytes of [l] from offset [off] (shorter at the end of [l]);
    only used with offsets inside a chunk that was just read. *)
Definition sub (l : bytes) (off n : N) : bytes :=
  firstn (N.to_nat n) (skipn (N.to_nat off) l).

Definition get16 (be : bool) (l : bytes) (off : N) : N := get be (sub l off 2).
Definition get32 (be : bool) (l : bytes) (off : N) : N := get be (sub l off 4).
Definition get64 (be : bool) (l : bytes) (off : N) : N := get be (sub l off 8).

Definition put16 (be : bool) (v : N) : bytes := put be 2 v.
Definition put32 (be : bool) (v : N) : bytes := put be 4 v.
Definition put64 (be : bool) (v : N) : bytes := put be 8 v.

Definition zeros (n : N) : bytes := repeat 0 (N.to_nat n).

(** pad / truncate to exactly [n] bytes *)
Definition fit (n : N) (l : bytes) : bytes :=
  firstn (N.to_nat n) (l ++ zeros n).

(** zero padding that brings a length [cur] up to the next multiple of [blk] *)
Definition pad_to (blk cur : N) : bytes :=
  zeros ((blk - cur mod blk) mod blk).

(** a packed C structure as a table of fields *)
Inductive fld := F16 (v : N) | F32 (v : N) | F64 (v : N) | FB (n : N) (b : bytes).

Definition enc_fld (be : bool) (f : fld) : bytes :=
  match f with
  | F16 v => put16 be v
  | F32 v => put32 be v
  | F64 v => put64 be v
  | FB n b => fit n b
  end.

Definition fld_len (f : fld) : N :=
  match f with F16 _ => 2 | F32 _ => 4 | F64 _ => 8 | FB n _ => n end.

Definition enc_flds (be : bool) (fs : list fld) : bytes := flat_map (enc_fld be) fs.

(** the field that starts exactly at offset [off] *)
Fixpoint fld_at (fs : list fld) (off : N) : option fld :=
  match fs with
  | [] => None
  | f :: t =>
      if off =? 0 then Some f
      else if off <? fld_len f then None
      else fld_at t (off - fld_len f)
  end.

(** what [pread] of a file with content [f] delivers: zero-filled past EOF *)
Definition read_of (f : bytes) (off n : N) : bytes :=
  firstn (N.to_nat n) (skipn (N.to_nat off) f ++ zeros n).

(** a set of files, addressed by index; a missing index reads as an empty file *)
Definition read_files (fs : list bytes) (fidx off n : N) : bytes :=
  read_of (nth (N.to_nat fidx) fs []) off n.

(** the page loop of [read_locked] (read.c): fetch the page that contains
    [addr], copy from the in-page offset, advance; stop at the first error and
    report the prefix delivered.  [get_page] takes a page-aligned address.
    [fuel] bounds the number of pages (len / pgsz + 3 suffices). *)
Section ReadLoop.
  Context {St : Type}.
  Variable get_page : St -> N -> res bytes * St.
  Variable pgsz : N.

  Fixpoint read_loop (fuel : nat) (st : St) (addr remain : N) (acc : bytes)
    : N * bytes * St :=
    match fuel with
    | O => (ERR_UNMODELLED, acc, st)
    | S k =>
        if remain =? 0 then (KDUMP_OK, acc, st) else
        let off := addr mod pgsz in
        match get_page st (addr - off) with
        | (Err e, st') => (e, acc, st')
        | (Ok pg, st') =>
            let partlen := N.min (pgsz - off) remain in
            read_loop k st' ((addr + partlen) mod 2^64) (remain - partlen)
                      (acc ++ sub pg off partlen)
        end
    end.

  Definition read_range (st : St) (addr n : N) : N * bytes * St :=
    read_loop (S (S (S (N.to_nat (n / pgsz))))) st addr n [].
End ReadLoop.
