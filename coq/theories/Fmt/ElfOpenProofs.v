(** C01 for ELF cores, open path: [elf_open] on the encoder's output yields
    segment arrays that correspond to the LOAD segments of the specification,
    sorted and disjoint - so that the page theorems of ElfProofs / ElfRoundtrip
    apply; and the geometry the header encodes. *)
From Coq Require Import NArith List Bool Lia Arith Sorted Permutation.
From KdV Require Import Base.Wrap64 Fmt.Codec Fmt.CodecProofs Fmt.ElfModel Fmt.ElfSpec
     Fmt.ElfProofs Fmt.ElfSpecProofs Fmt.ElfRoundtrip.
Import ListNotations.
Local Open Scope N_scope.

(** * insertion sort *)
Section Sort.
  Variable key : load_segment -> N.

  Lemma insert_perm s l : Permutation (insert_by key s l) (s :: l).
  Proof.
    induction l as [| h t IH]; [reflexivity |].
    cbn [insert_by]. destruct (key s <=? key h); [reflexivity |].
    rewrite IH. apply perm_swap.
  Qed.

  Lemma sort_perm l : Permutation (sort_by key l) l.
  Proof.
    induction l as [| h t IH]; [reflexivity |].
    unfold sort_by in *. cbn [fold_right]. rewrite insert_perm. now constructor.
  Qed.

  Definition key_le (a b : load_segment) : Prop := key a <= key b.

  Lemma insert_sorted s l : StronglySorted key_le l -> StronglySorted key_le (insert_by key s l).
  Proof.
    induction 1 as [| h t Ht IH Hall]; [repeat constructor |].
    cbn [insert_by]. destruct (N.leb_spec (key s) (key h)) as [Hle | Hgt].
    - constructor; [now constructor |]. constructor; [exact Hle |].
      rewrite Forall_forall in *. intros x Hx. specialize (Hall x Hx). unfold key_le in *. lia.
    - constructor; [exact IH |].
      rewrite Forall_forall in *. intros x Hx.
      apply (Permutation_in _ (insert_perm s t)) in Hx. destruct Hx as [<- | Hx].
      + unfold key_le. lia.
      + now apply Hall.
  Qed.

  Lemma sort_sorted l : StronglySorted key_le (sort_by key l).
  Proof.
    induction l as [| h t IH]; [constructor |].
    unfold sort_by in *. cbn [fold_right]. now apply insert_sorted.
  Qed.
End Sort.

(** sorted by start address + pairwise disjoint non-empty ranges = sorted by extent *)
Lemma sorted_disjoint virt (arr : list load_segment) :
  StronglySorted (key_le (seg_addr virt)) arr -> NoDup arr ->
  (forall a b, In a arr -> In b arr -> a <> b ->
     seg_addr virt a + ls_memsz a <= seg_addr virt b \/ seg_addr virt b + ls_memsz b <= seg_addr virt a) ->
  (forall a, In a arr -> 0 < ls_memsz a) ->
  StronglySorted (before virt) arr.
Proof.
  induction 1 as [| h t Ht IH Hall]; intros Hnd Hdisj Hpos; [constructor |].
  inversion Hnd as [| ? ? Hnotin Hnd']; subst.
  constructor.
  - apply IH; [assumption | |].
    + intros a b Ha Hb. apply Hdisj; now right.
    + intros a Ha. apply Hpos. now right.
  - rewrite Forall_forall in *. intros x Hx. specialize (Hall x Hx). unfold key_le in Hall. unfold before.
    assert (Hne : h <> x) by (intro E; subst; contradiction).
    pose proof (Hpos x (or_intror Hx)).
    destruct (Hdisj h x (or_introl eq_refl) (or_intror Hx) Hne); lia.
Qed.

(** * the encoder's output, seen by the reader *)

Definition to_ls (s : elf_seg) (off : N) : load_segment :=
  {| ls_off := off; ls_filesz := sg_filesz s; ls_phys := sg_phys s; ls_memsz := sg_memsz s;
     ls_virt := sg_virt s |}.

(** LOAD and NOTE segments with their file offsets, in file order *)
Fixpoint split_segs (segs : list elf_seg) (off : N) : list load_segment * list load_segment :=
  match segs with
  | [] => ([], [])
  | s :: t =>
      let '(lo, no) := split_segs t (off + sg_gap s + sg_filesz s) in
      let ls := to_ls s (off + sg_gap s) in
      if sg_type s =? 1 then (ls :: lo, no)
      else if sg_type s =? 4 then (lo, ls :: no)
      else (lo, no)
  end.

Definition abits (l : elf_layout) : N := if el_64 l then 2^64 else 2^32.

Definition is_load (s : elf_seg) : Prop := sg_type s = 1.

Record elf_wf (l : elf_layout) (segs : list elf_seg) : Prop := {
  ew_filesz : Forall (fun s => sg_filesz s = len (sg_data s)) segs;
  ew_fields : Forall (fun s => sg_type s < 2^32 /\ sg_flags s < 2^32 /\ sg_align s < abits l /\
                               sg_virt s < abits l /\ sg_phys s < abits l - 1 /\
                               sg_filesz s < abits l /\ sg_memsz s < abits l) segs;
  ew_loads : Forall (fun s => is_load s ->
                       sg_filesz s <= sg_memsz s /\ 0 < sg_memsz s /\
                       sg_phys s + sg_memsz s < abits l /\ sg_virt s + sg_memsz s < abits l) segs;
  ew_machine : el_machine l < 2^16 /\ el_flags l < 2^32 /\ el_osabi l < 256;
  ew_count : N.of_nat (length segs) < 65535;
  ew_phent : phdr_size l < 2^16;
  ew_size : len (encode_elf l segs) < abits l;
  ew_some_load : exists s, In s segs /\ is_load s;
  ew_phys_usable : (exists s, In s segs /\ is_load s /\ sg_phys s <> 0) \/
                   length (filter (fun s => sg_type s =? 1) segs) = 1%nat;
  (* LOAD segments are pairwise disjoint, physically and virtually *)
  ew_disjoint : ForallOrdPairs (fun s t => is_load s -> is_load t ->
                  (sg_phys s + sg_memsz s <= sg_phys t \/ sg_phys t + sg_memsz t <= sg_phys s) /\
                  (sg_virt s + sg_memsz s <= sg_virt t \/ sg_virt t + sg_memsz t <= sg_virt s)) segs
}.

(** ** the segment lists *)
Lemma split_segs_in segs : forall off a,
  In a (fst (split_segs segs off)) ->
  exists s o, In s segs /\ is_load s /\ a = to_ls s o.
Proof.
  induction segs as [| s t IH]; intros off a H; [destruct H |].
  cbn [split_segs] in H. destruct (split_segs t (off + sg_gap s + sg_filesz s)) as [lo no] eqn:E.
  assert (Hrec : forall x, In x lo -> exists s' o, In s' t /\ is_load s' /\ x = to_ls s' o).
  { intros x Hx. apply (IH (off + sg_gap s + sg_filesz s) x). now rewrite E. }
  destruct (N.eqb_spec (sg_type s) 1) as [Et | Et].
  - cbn [fst] in H. destruct H as [<- | H].
    + exists s, (off + sg_gap s). repeat split; [now left | exact Et].
    + destruct (Hrec a H) as [s' [o [Hin [Hl E']]]]. exists s', o. repeat split; [now right | assumption | assumption].
  - assert (Hlo : In a lo) by (destruct (sg_type s =? 4); exact H).
    destruct (Hrec a Hlo) as [s' [o [Hin [Hl E']]]]. exists s', o. repeat split; [now right | assumption | assumption].
Qed.

Lemma split_segs_load segs : forall off s,
  In s segs -> is_load s -> exists o, In (to_ls s o) (fst (split_segs segs off)).
Proof.
  induction segs as [| h t IH]; intros off s Hin Hl; [destruct Hin |].
  cbn [split_segs]. destruct (split_segs t (off + sg_gap h + sg_filesz h)) as [lo no] eqn:E.
  destruct Hin as [-> | Hin].
  - unfold is_load in Hl. rewrite Hl. cbn [N.eqb Pos.eqb fst]. exists (off + sg_gap s). now left.
  - destruct (IH (off + sg_gap h + sg_filesz h) s Hin Hl) as [o Ho]. rewrite E in Ho. cbn [fst] in Ho.
    exists o. destruct (sg_type h =? 1); [now right |]. destruct (sg_type h =? 4); exact Ho.
Qed.

Definition disjA (a b : load_segment) : Prop :=
  (ls_phys a + ls_memsz a <= ls_phys b \/ ls_phys b + ls_memsz b <= ls_phys a) /\
  (ls_virt a + ls_memsz a <= ls_virt b \/ ls_virt b + ls_memsz b <= ls_virt a).

Lemma split_segs_disjoint segs : forall off,
  ForallOrdPairs (fun s t => is_load s -> is_load t ->
      (sg_phys s + sg_memsz s <= sg_phys t \/ sg_phys t + sg_memsz t <= sg_phys s) /\
      (sg_virt s + sg_memsz s <= sg_virt t \/ sg_virt t + sg_memsz t <= sg_virt s)) segs ->
  ForallOrdPairs disjA (fst (split_segs segs off)).
Proof.
  induction segs as [| s t IH]; intros off H; [constructor |].
  inversion H as [| ? ? Hhead Htail]; subst.
  cbn [split_segs]. specialize (IH (off + sg_gap s + sg_filesz s) Htail).
  pose proof (split_segs_in t (off + sg_gap s + sg_filesz s)) as Hin.
  destruct (split_segs t (off + sg_gap s + sg_filesz s)) as [lo no]. cbn [fst] in *.
  destruct (N.eqb_spec (sg_type s) 1) as [Et | Et].
  - cbn [fst]. constructor; [| exact IH].
    apply Forall_forall. intros a Ha. destruct (Hin a Ha) as [s' [o [Hs' [Hl ->]]]].
    rewrite Forall_forall in Hhead. exact (Hhead s' Hs' Et Hl).
  - destruct (sg_type s =? 4); exact IH.
Qed.

(** ** layout of the encoded file *)
Fixpoint datalen (segs : list elf_seg) : N :=
  match segs with
  | [] => 0
  | s :: t => sg_gap s + sg_filesz s + datalen t
  end.

Lemma datalen_app a b : datalen (a ++ b) = datalen a + datalen b.
Proof. induction a as [| s t IH]; cbn [app datalen]; [reflexivity | rewrite IH; lia]. Qed.

Lemma len_phdr_flds l s off : flds_len (phdr_flds l s off) = phdr_size l.
Proof. unfold phdr_flds, phdr_size. destruct (el_64 l); cbn [app flds_len fld_len]; lia. Qed.

Lemma len_enc_phdrs l segs : forall off,
  len (enc_phdrs l segs off) = phdr_size l * N.of_nat (length segs).
Proof.
  induction segs as [| s t IH]; intro off; cbn [enc_phdrs length]; [cbn; lia |].
  rewrite len_app, len_enc_flds, len_phdr_flds, IH. lia.
Qed.

Lemma enc_phdrs_app l a b : forall off,
  Forall (fun s => sg_filesz s = len (sg_data s)) a ->
  enc_phdrs l (a ++ b) off = enc_phdrs l a off ++ enc_phdrs l b (off + datalen a).
Proof.
  induction a as [| s t IH]; intros off H; cbn [app enc_phdrs datalen].
  - now rewrite N.add_0_r.
  - inversion H; subst. rewrite IH by assumption. rewrite <- app_assoc. do 3 f_equal. lia.
Qed.

Lemma len_enc_segdata segs :
  Forall (fun s => sg_filesz s = len (sg_data s)) segs -> len (enc_segdata segs) = datalen segs.
Proof.
  induction 1 as [| s t Hs Ht IH]; [reflexivity |].
  cbn [enc_segdata datalen]. rewrite !len_app, len_zeros, IH, Hs. lia.
Qed.

Lemma enc_segdata_app a b : enc_segdata (a ++ b) = enc_segdata a ++ enc_segdata b.
Proof. induction a as [| s t IH]; cbn [app enc_segdata]; [reflexivity | rewrite IH, <- !app_assoc; reflexivity]. Qed.

Section Open.
  Variable l : elf_layout.
  Variable segs : list elf_seg.
  Hypothesis Hwf : elf_wf l segs.

  Let be := el_be l.
  Let is64 := el_64 l.
  Let F := encode_elf l segs.
  Let rd := read_files [F].
  Let nseg := N.of_nat (length segs).
  Let ds := data_start l segs.
  Let entsz := phdr_size l.

  Lemma rd_is o n : rd 0 o n = read_of F o n.
  Proof. reflexivity. Qed.

  Lemma Hfsz : Forall (fun s => sg_filesz s = len (sg_data s)) segs.
  Proof. exact (ew_filesz _ _ Hwf). Qed.

  Lemma abits_le : abits l <= 2^64.
  Proof. unfold abits. destruct (el_64 l); [lia | discriminate]. Qed.

  Lemma len_ehdr : flds_len (ehdr_flds l nseg) = ehdr_size l.
  Proof. unfold ehdr_flds, ehdr_size. destruct (el_64 l); reflexivity. Qed.

  (** the file = header area, program headers, data area *)
  Definition Ahead : bytes := enc_flds be (ehdr_flds l nseg) ++ zeros (el_phoff_gap l).

  Lemma len_Ahead : len Ahead = phoff l.
  Proof. unfold Ahead. rewrite len_app, len_enc_flds, len_ehdr, len_zeros. reflexivity. Qed.

  Lemma F_is : F = Ahead ++ enc_phdrs l segs ds ++ enc_segdata segs.
  Proof. unfold F, encode_elf, Ahead. fold be nseg ds. now rewrite <- app_assoc. Qed.

  Lemma ds_is : ds = phoff l + entsz * nseg.
  Proof. reflexivity. Qed.

  Lemma len_F : len F = ds + datalen segs.
  Proof.
    rewrite F_is, !len_app, len_Ahead, len_enc_phdrs, (len_enc_segdata _ Hfsz). rewrite ds_is. unfold entsz, nseg. lia.
  Qed.

  (** program header [i] and the data of segment [i] *)
  Lemma rd_phdr pre s t :
    segs = pre ++ s :: t ->
    rd 0 (phoff l + N.of_nat (length pre) * entsz) entsz =
    enc_flds be (phdr_flds l s (ds + datalen pre + sg_gap s)).
  Proof.
    intro E. rewrite rd_is, F_is.
    assert (Hpre : Forall (fun s => sg_filesz s = len (sg_data s)) pre).
    { pose proof Hfsz as H. rewrite E in H. now apply Forall_app in H as [H _]. }
    rewrite E at 1. rewrite (enc_phdrs_app l pre (s :: t) ds Hpre). cbn [enc_phdrs].
    rewrite <- !app_assoc. rewrite app_assoc.
    apply read_of_section'.
    - rewrite len_app, len_Ahead, len_enc_phdrs. unfold entsz. lia.
    - rewrite len_enc_flds, len_phdr_flds. reflexivity.
  Qed.

  Lemma rd_segdata pre s t :
    segs = pre ++ s :: t ->
    rd 0 (ds + datalen pre + sg_gap s) (sg_filesz s) = sg_data s.
  Proof.
    intro E. rewrite rd_is, F_is.
    assert (Hall : Forall (fun s => sg_filesz s = len (sg_data s)) (pre ++ s :: t)) by (rewrite <- E; exact Hfsz).
    apply Forall_app in Hall as [Hpre Hst]. apply Forall_cons_iff in Hst as [Hs _].
    rewrite E at 2. rewrite enc_segdata_app. cbn [enc_segdata].
    rewrite !app_assoc. rewrite <- (app_assoc _ (sg_data s)).
    apply read_of_section'.
    - rewrite !len_app, len_Ahead, len_enc_phdrs, (len_enc_segdata _ Hpre), len_zeros.
      rewrite ds_is. unfold entsz, nseg. lia.
    - exact Hs.
  Qed.

  (** ** one program header *)
  Lemma seg_fields s : In s segs ->
    sg_type s < 2^32 /\ sg_flags s < 2^32 /\ sg_align s < abits l /\ sg_virt s < abits l /\
    sg_phys s < abits l - 1 /\ sg_filesz s < abits l /\ sg_memsz s < abits l.
  Proof. intro H. pose proof (ew_fields _ _ Hwf) as Ha. rewrite Forall_forall in Ha. now apply Ha. Qed.

  Lemma parse_phdr_ok s o : In s segs -> o < abits l ->
    parse_phdr be is64 (enc_flds be (phdr_flds l s o)) = (sg_type s, to_ls s o).
  Proof.
    intros Hin Ho. destruct (seg_fields s Hin) as [Ht [Hfl [Hal [Hv [Hp [Hf Hm]]]]]].
    unfold parse_phdr, phdr_flds, to_ls, is64, abits in *. destruct (el_64 l).
    - rewrite (get32_flds _ _ 0 (sg_type s)) by (try reflexivity; cbn [app flds_len fld_len]; lia).
      rewrite (get64_flds _ _ 24 (sg_phys s)) by (try reflexivity; cbn [app flds_len fld_len]; lia).
      rewrite (get64_flds _ _ 8 o) by (try reflexivity; cbn [app flds_len fld_len]; lia).
      rewrite (get64_flds _ _ 32 (sg_filesz s)) by (try reflexivity; cbn [app flds_len fld_len]; lia).
      rewrite (get64_flds _ _ 40 (sg_memsz s)) by (try reflexivity; cbn [app flds_len fld_len]; lia).
      rewrite (get64_flds _ _ 16 (sg_virt s)) by (try reflexivity; cbn [app flds_len fld_len]; lia).
      destruct (N.eqb_spec (sg_phys s) (2^64 - 1)); [lia | reflexivity].
    - rewrite (get32_flds _ _ 0 (sg_type s)) by (try reflexivity; cbn [app flds_len fld_len]; lia).
      rewrite (get32_flds _ _ 12 (sg_phys s)) by (try reflexivity; cbn [app flds_len fld_len]; lia).
      rewrite (get32_flds _ _ 4 o) by (try reflexivity; cbn [app flds_len fld_len]; lia).
      rewrite (get32_flds _ _ 16 (sg_filesz s)) by (try reflexivity; cbn [app flds_len fld_len]; lia).
      rewrite (get32_flds _ _ 20 (sg_memsz s)) by (try reflexivity; cbn [app flds_len fld_len]; lia).
      rewrite (get32_flds _ _ 8 (sg_virt s)) by (try reflexivity; cbn [app flds_len fld_len]; lia).
      destruct (N.eqb_spec (sg_phys s) (2^32 - 1)); [lia | reflexivity].
  Qed.

  (** ** the program header loop *)
  Lemma offsets_small pre s t : segs = pre ++ s :: t -> ds + datalen pre + sg_gap s < abits l.
  Proof.
    intro E. pose proof (ew_size _ _ Hwf) as Hsz. fold F in Hsz. rewrite len_F in Hsz.
    assert (D : datalen segs = datalen pre + (sg_gap s + sg_filesz s + datalen t)).
    { rewrite E. rewrite datalen_app. reflexivity. }
    lia.
  Qed.

  Lemma phdr_loop_suffix : forall suffix pre,
    segs = pre ++ suffix ->
    phdr_loop rd be is64 (length suffix) (phoff l + N.of_nat (length pre) * entsz) entsz =
    split_segs suffix (ds + datalen pre).
  Proof.
    induction suffix as [| s t IH]; intros pre E; [reflexivity |].
    cbn [length phdr_loop split_segs].
    rewrite (rd_phdr pre s t E).
    assert (Hin : In s segs) by (rewrite E; apply in_or_app; right; now left).
    rewrite (parse_phdr_ok s _ Hin (offsets_small pre s t E)).
    assert (E' : segs = (pre ++ [s]) ++ t) by (rewrite <- app_assoc; exact E).
    specialize (IH (pre ++ [s]) E'). rewrite app_length in IH. cbn [length] in IH.
    replace (phoff l + N.of_nat (length pre + 1) * entsz)
      with (phoff l + N.of_nat (length pre) * entsz + entsz) in IH by lia.
    rewrite IH. rewrite datalen_app. cbn [datalen].
    replace (ds + (datalen pre + (sg_gap s + sg_filesz s + 0))) with (ds + datalen pre + sg_gap s + sg_filesz s) by lia.
    reflexivity.
  Qed.

  (** every reader LOAD segment stands for a spec LOAD segment, with its data *)
  Lemma loads_correspond virt : forall suffix pre,
    segs = pre ++ suffix ->
    forall a, In a (fst (split_segs suffix (ds + datalen pre))) ->
    exists s, In s suffix /\ corresponds virt rd a s.
  Proof.
    induction suffix as [| s t IH]; intros pre E a Ha; [destruct Ha |].
    cbn [split_segs] in Ha.
    assert (E' : segs = (pre ++ [s]) ++ t) by (rewrite <- app_assoc; exact E).
    specialize (IH (pre ++ [s]) E'). rewrite datalen_app in IH. cbn [datalen] in IH.
    replace (ds + (datalen pre + (sg_gap s + sg_filesz s + 0))) with (ds + datalen pre + sg_gap s + sg_filesz s) in IH by lia.
    destruct (split_segs t (ds + datalen pre + sg_gap s + sg_filesz s)) as [lo no]. cbn [fst] in IH.
    assert (Hrec : In a lo -> exists s', In s' (s :: t) /\ corresponds virt rd a s').
    { intro H. destruct (IH a H) as [s' [Hs' Hc]]. exists s'. split; [now right | exact Hc]. }
    destruct (N.eqb_spec (sg_type s) 1) as [Et | Et].
    - cbn [fst] in Ha. destruct Ha as [<- | Ha]; [| now apply Hrec].
      exists s. split; [now left |]. unfold corresponds, to_ls. cbn [ls_off ls_filesz ls_memsz].
      split; [exact Et |]. split; [destruct virt; reflexivity |]. split; [reflexivity |]. split; [reflexivity |].
      exact (rd_segdata pre s t E).
    - apply Hrec. destruct (sg_type s =? 4); exact Ha.
  Qed.

  (** ** the ELF header *)
  Lemma F_ehdr : exists rest, F = enc_flds be (ehdr_flds l nseg) ++ rest.
  Proof. rewrite F_is. unfold Ahead. rewrite <- !app_assoc. eexists. reflexivity. Qed.

  Lemma eh16 off v : fld_at (ehdr_flds l nseg) off = Some (F16 v) -> v < 2^16 -> off + 2 <= 64 ->
    get16 be (rd 0 0 64) off = v.
  Proof.
    intros Hf Hv Ho. rewrite rd_is, get16_read by lia. destruct F_ehdr as [rest E]. rewrite E.
    now apply get16_fld.
  Qed.

  Lemma eh32 off v : fld_at (ehdr_flds l nseg) off = Some (F32 v) -> v < 2^32 -> off + 4 <= 64 ->
    get32 be (rd 0 0 64) off = v.
  Proof.
    intros Hf Hv Ho. rewrite rd_is, get32_read by lia. destruct F_ehdr as [rest E]. rewrite E.
    now apply get32_fld.
  Qed.

  Lemma eh64 off v : fld_at (ehdr_flds l nseg) off = Some (F64 v) -> v < 2^64 -> off + 8 <= 64 ->
    get64 be (rd 0 0 64) off = v.
  Proof.
    intros Hf Hv Ho. rewrite rd_is, get64_read by lia. destruct F_ehdr as [rest E]. rewrite E.
    now apply get64_fld.
  Qed.

  Lemma ehbytes off n b : fld_at (ehdr_flds l nseg) off = Some (FB n b) -> off + n <= 64 ->
    sub (rd 0 0 64) off n = fit n b.
  Proof.
    intros Hf Ho. rewrite rd_is, sub_read_of by lia. destruct F_ehdr as [rest E]. rewrite E.
    exact (read_fld be (ehdr_flds l nseg) rest off (FB n b) Hf).
  Qed.

  Definition loads : list load_segment := fst (split_segs segs ds).
  Definition notes : list load_segment := snd (split_segs segs ds).

  Lemma loads_nonempty : loads <> [].
  Proof.
    destruct (ew_some_load _ _ Hwf) as [s [Hin Hl]].
    destruct (split_segs_load segs ds s Hin Hl) as [o Ho]. unfold loads. intro E. now rewrite E in Ho.
  Qed.

  Lemma loads_phys a : In a loads -> ls_phys a < 2^64 - 1.
  Proof.
    intro H. destruct (split_segs_in segs ds a H) as [s [o [Hin [_ ->]]]].
    destruct (seg_fields s Hin) as [_ [_ [_ [_ [Hp _]]]]]. pose proof abits_le. cbn [to_ls ls_phys]. lia.
  Qed.

  Lemma length_loads : forall sg off, length (fst (split_segs sg off)) = length (filter (fun s => sg_type s =? 1) sg).
  Proof.
    induction sg as [| s t IH]; intro off; [reflexivity |].
    cbn [split_segs filter]. specialize (IH (off + sg_gap s + sg_filesz s)).
    destruct (split_segs t (off + sg_gap s + sg_filesz s)) as [lo no]. cbn [fst] in *.
    destruct (sg_type s =? 1); [cbn [fst length]; now rewrite IH |].
    destruct (sg_type s =? 4); exact IH.
  Qed.

  Lemma phys_usable : all_phys_zero loads && Nat.ltb 1 (length loads) = false.
  Proof.
    destruct (ew_phys_usable _ _ Hwf) as [[s [Hin [Hl Hnz]]] | Hone].
    - destruct (split_segs_load segs ds s Hin Hl) as [o Ho]. fold loads in Ho.
      assert (all_phys_zero loads = false); [| now rewrite H].
      unfold all_phys_zero. destruct (forallb (fun s0 => ls_phys s0 =? 0) loads) eqn:E; [| reflexivity].
      rewrite forallb_forall in E. specialize (E _ Ho). cbn [to_ls ls_phys] in E. apply N.eqb_eq in E. contradiction.
    - unfold loads. rewrite length_loads, Hone. apply andb_false_r.
  Qed.

  Lemma filter_all {A} (f : A -> bool) (xs : list A) : (forall x, In x xs -> f x = true) -> filter f xs = xs.
  Proof.
    induction xs as [| x t IH]; intro H; [reflexivity |].
    cbn [filter]. rewrite (H x (or_introl eq_refl)). f_equal. apply IH. intros y Hy. apply H. now right.
  Qed.

  Lemma filter_usable : filter (fun s => negb (ls_phys s =? ADDR_MAX)) loads = loads.
  Proof.
    apply filter_all. intros a Ha. pose proof (loads_phys a Ha).
    unfold ADDR_MAX. destruct (N.eqb_spec (ls_phys a) (2^64 - 1)); [lia | reflexivity].
  Qed.

  Definition expected : elf_state :=
    {| es_be := be; es_64 := is64; es_machine := el_machine l;
       es_sorted := sort_by ls_phys loads; es_vsorted := sort_by ls_virt loads; es_notes := notes;
       es_machphys := true; es_last_load := None; es_last_vload := None |}.

  Theorem elf_open_spec : elf_open rd 1 = Ok expected.
  Proof.
    unfold elf_open.
    destruct (ew_machine _ _ Hwf) as [Hmach [Hfl Hosabi]].
    pose proof (ew_count _ _ Hwf) as Hcnt. fold nseg in Hcnt. pose proof (ew_phent _ _ Hwf) as Hpe.
    pose proof (ew_size _ _ Hwf) as Hsz. fold F in Hsz. rewrite len_F in Hsz. pose proof abits_le as Hab.
    assert (Hphoff : phoff l < abits l) by (rewrite ds_is in Hsz; lia).
    rewrite (ehbytes 0 4 [127; 69; 76; 70]) by (try reflexivity; lia).
    change (bytes_eqb (fit 4 [127; 69; 76; 70]) elf_magic) with true. cbn [negb].
    rewrite (ehbytes 5 1 [if el_be l then 2 else 1]) by (try reflexivity; lia).
    rewrite fit_exact by reflexivity. rewrite get_single.
    rewrite (ehbytes 4 1 [if el_64 l then 2 else 1]) by (try reflexivity; lia).
    rewrite fit_exact by reflexivity. rewrite get_single.
    assert (Hbe : ((if el_be l then 2 else 1) =? 2) = be) by (unfold be; destruct (el_be l); reflexivity).
    assert (Hd : ((if el_be l then 2 else 1) =? 1) || ((if el_be l then 2 else 1) =? 2) = true)
      by (destruct (el_be l); reflexivity).
    rewrite Hd, Hbe. cbn [negb].
    rewrite (eh16 16 4) by (try reflexivity; lia). rewrite (eh32 20 1) by (try reflexivity; lia).
    assert (Hc : ((if el_64 l then 2 else 1) =? 1) || ((if el_64 l then 2 else 1) =? 2) = true)
      by (destruct (el_64 l); reflexivity).
    assert (H64 : ((if el_64 l then 2 else 1) =? 2) = is64) by (unfold is64; destruct (el_64 l); reflexivity).
    rewrite Hc, H64. change ((4 =? ET_CORE) && (1 =? 1)) with true. cbn [andb negb].
    rewrite (eh16 18 (el_machine l)) by (try reflexivity; lia).
    assert (Hfields :
      get16 be (rd 0 0 64) (if is64 then 60 else 48) = 0 /\
      get16 be (rd 0 0 64) (if is64 then 56 else 44) = nseg /\
      (if is64 then get64 be (rd 0 0 64) 40 else get32 be (rd 0 0 64) 32) = 0 /\
      (if is64 then get64 be (rd 0 0 64) 32 else get32 be (rd 0 0 64) 28) = phoff l /\
      get16 be (rd 0 0 64) (if is64 then 54 else 42) = entsz).
    { unfold is64, abits in *. destruct (el_64 l) eqn:E64.
      - repeat split;
          [apply eh16 | apply eh16 | apply eh64 | apply eh64 | apply eh16];
          try (unfold ehdr_flds; rewrite E64; reflexivity); try lia; unfold entsz; lia.
      - repeat split;
          [apply eh16 | apply eh16 | apply eh32 | apply eh32 | apply eh16];
          try (unfold ehdr_flds; rewrite E64; reflexivity); try lia; unfold entsz; lia. }
    destruct Hfields as [Hshnum [Hphnum [Hshoff [Hpho Hent]]]].
    rewrite Hshnum, Hphnum, Hshoff, Hpho, Hent. cbn [N.eqb negb andb].
    assert (Hpsz : (entsz <? (if is64 then 56 else 32)) = false).
    { unfold entsz, phdr_size, is64. destruct (el_64 l); apply N.ltb_ge; lia. }
    rewrite Hpsz, andb_false_r. cbv iota.
    replace (N.to_nat nseg) with (length segs) by (unfold nseg; lia).
    pose proof (phdr_loop_suffix segs [] eq_refl) as Hloop. cbn [length datalen N.of_nat] in Hloop.
    rewrite N.mul_0_l, !N.add_0_r in Hloop. rewrite Hloop.
    change (split_segs segs ds) with (split_segs segs ds).
    assert (Hsp : split_segs segs ds = (loads, notes)) by (unfold loads, notes; now destruct (split_segs segs ds)).
    rewrite Hsp. change (1 <? N.of_nat 1) with false. cbv iota.
    assert (Hne : Nat.eqb (length loads) 0 = false).
    { destruct loads eqn:El; [exfalso; now apply loads_nonempty | reflexivity]. }
    rewrite Hne. cbn [andb].
    rewrite phys_usable, filter_usable. reflexivity.
  Qed.

  (** ** the arrays are sorted, disjoint and correspond to the spec *)
  Lemma loads_off_bound : forall suffix off a,
    In a (fst (split_segs suffix off)) -> ls_off a + ls_filesz a <= off + datalen suffix.
  Proof.
    induction suffix as [| s t IH]; intros off a Ha; [destruct Ha |].
    cbn [split_segs datalen] in *. specialize (IH (off + sg_gap s + sg_filesz s) a).
    destruct (split_segs t (off + sg_gap s + sg_filesz s)) as [lo no]. cbn [fst] in IH.
    assert (Hrec : In a lo -> ls_off a + ls_filesz a <= off + (sg_gap s + sg_filesz s + datalen t))
      by (intro H; specialize (IH H); lia).
    destruct (sg_type s =? 1).
    - cbn [fst] in Ha. destruct Ha as [<- | Ha]; [cbn [to_ls ls_off ls_filesz]; lia | now apply Hrec].
    - apply Hrec. destruct (sg_type s =? 4); exact Ha.
  Qed.

  Lemma loads_seg_ok virt a : In a loads -> seg_ok virt a.
  Proof.
    intro H. pose proof (loads_off_bound segs ds a H) as Hoff.
    destruct (split_segs_in segs ds a H) as [s [o [Hin [Hl E]]]].
    pose proof (ew_loads _ _ Hwf) as Hlo. rewrite Forall_forall in Hlo. destruct (Hlo s Hin Hl) as [Hfm [Hpos [Hp Hv]]].
    pose proof abits_le as Hab. pose proof (ew_size _ _ Hwf) as Hsz. fold F in Hsz. rewrite len_F in Hsz.
    subst a. unfold seg_ok. cbn [to_ls ls_filesz ls_memsz ls_off seg_addr ls_virt ls_phys] in *.
    split; [exact Hfm |]. split; [destruct virt; cbn [seg_addr to_ls ls_virt ls_phys]; lia | lia].
  Qed.

  Lemma loads_pos a : In a loads -> 0 < ls_memsz a.
  Proof.
    intro H. destruct (split_segs_in segs ds a H) as [s [o [Hin [Hl ->]]]].
    pose proof (ew_loads _ _ Hwf) as Hlo. rewrite Forall_forall in Hlo. destruct (Hlo s Hin Hl) as [_ [Hpos _]].
    exact Hpos.
  Qed.

  Lemma loads_pairs : ForallOrdPairs disjA loads.
  Proof. apply split_segs_disjoint. exact (ew_disjoint _ _ Hwf). Qed.

  Lemma disjA_irrefl a : 0 < ls_memsz a -> ~ disjA a a.
  Proof. intros Hp [[H | H] _]; lia. Qed.

  Lemma loads_nodup : NoDup loads.
  Proof.
    pose proof loads_pairs as Hp. pose proof loads_pos as Hpos. induction Hp as [| a t Ha Ht IH]; [constructor |].
    constructor.
    - intro Hin. rewrite Forall_forall in Ha. apply (disjA_irrefl a); [apply Hpos; now left | now apply Ha].
    - apply IH. intros x Hx. apply Hpos. now right.
  Qed.

  Lemma loads_disjoint a b : In a loads -> In b loads -> a <> b -> disjA a b.
  Proof.
    intros Ha Hb Hne. destruct (ForallOrdPairs_In loads_pairs a b Ha Hb) as [E | [H | H]].
    - contradiction.
    - exact H.
    - destruct H as [[H1 | H1] [H2 | H2]]; split; auto.
  Qed.

  Definition arr_of (virt : bool) : list load_segment :=
    sort_by (if virt then ls_virt else ls_phys) loads.

  Lemma arr_of_in virt a : In a (arr_of virt) <-> In a loads.
  Proof.
    unfold arr_of. split; intro H.
    - eapply Permutation_in; [apply sort_perm | exact H].
    - eapply Permutation_in; [apply Permutation_sym, sort_perm | exact H].
  Qed.

  Lemma arr_of_ok virt : arr_ok virt (arr_of virt).
  Proof.
    split.
    - apply sorted_disjoint.
      + unfold arr_of. assert (E : seg_addr virt = (if virt then ls_virt else ls_phys))
          by (destruct virt; reflexivity).
        rewrite E. apply sort_sorted.
      + eapply Permutation_NoDup; [apply Permutation_sym, sort_perm | exact loads_nodup].
      + intros a b Ha Hb Hne. apply arr_of_in in Ha, Hb.
        destruct (loads_disjoint a b Ha Hb Hne) as [Hp Hv]. destruct virt; cbn [seg_addr]; assumption.
      + intros a Ha. apply loads_pos. now apply arr_of_in in Ha.
    - apply Forall_forall. intros a Ha. apply loads_seg_ok. now apply arr_of_in in Ha.
  Qed.

  (** two LOAD segments of the spec that share an address are the same segment *)
  Lemma segs_unique virt s t x :
    In s segs -> In t segs -> sg_type s = 1 -> sg_type t = 1 ->
    seg_base virt s <= x < seg_base virt s + sg_memsz s ->
    seg_base virt t <= x < seg_base virt t + sg_memsz t -> s = t.
  Proof.
    intros Hs Ht Ls Lt Hxs Hxt.
    destruct (ForallOrdPairs_In (ew_disjoint _ _ Hwf) s t Hs Ht) as [E | [H | H]]; [exact E | |].
    - destruct (H Ls Lt) as [Hp Hv]. exfalso. destruct virt; cbn [seg_base] in *; lia.
    - destruct (H Lt Ls) as [Hp Hv]. exfalso. destruct virt; cbn [seg_base] in *; lia.
  Qed.

  Lemma arr_of_rel virt : seg_rel virt rd segs (arr_of virt).
  Proof.
    assert (Hcorr : forall a, In a loads -> exists s, In s segs /\ corresponds virt rd a s).
    { intros a Ha. apply (loads_correspond virt segs [] eq_refl a). cbn [datalen]. now rewrite N.add_0_r. }
    constructor.
    - intros ls Hls. apply Hcorr. now apply arr_of_in in Hls.
    - intros s Hin Hl. destruct (split_segs_load segs ds s Hin Hl) as [o Ho]. fold loads in Ho.
      exists (to_ls s o). split; [now apply arr_of_in |].
      destruct (Hcorr _ Ho) as [s' [Hin' Hc]].
      (* s' shares its address range with s: they are the same *)
      assert (s' = s).
      { destruct Hc as [Ht' [Hb [Hm _]]]. cbn [to_ls ls_memsz] in Hm.
        pose proof (ew_loads _ _ Hwf) as Hlo. rewrite Forall_forall in Hlo. destruct (Hlo s Hin Hl) as [_ [Hpos _]].
        assert (Hbb : seg_base virt s' = seg_base virt s) by (rewrite <- Hb; destruct virt; reflexivity).
        apply (segs_unique virt s' s (seg_base virt s)); try assumption; lia. }
      now subst s'.
    - intros s t x. apply segs_unique.
    - apply Forall_forall. intros s Hin. split.
      + pose proof (ew_filesz _ _ Hwf) as H. rewrite Forall_forall in H. now apply H.
      + intro Hl. pose proof (ew_loads _ _ Hwf) as Hlo. rewrite Forall_forall in Hlo.
        now destruct (Hlo s Hin Hl) as [Hfm _].
  Qed.
End Open.

(** * closed statements *)

Lemma read_files_slices f : forall o k n sz, k + n <= sz ->
  read_files [f] 0 (o + k) n = sub (read_files [f] 0 o sz) k n.
Proof. intros o k n sz H. unfold read_files. cbn [nth N.to_nat]. now rewrite sub_read_of. Qed.

Lemma read_files_len f : forall o n, len (read_files [f] 0 o n) = n.
Proof. intros. unfold read_files. apply len_read_of. Qed.

Theorem elf_roundtrip l segs pgsz :
  elf_wf l segs -> 0 < pgsz ->
  exists st0,
    elf_open (read_files [encode_elf l segs]) 1 = Ok st0 /\
    es_be st0 = el_be l /\ es_64 st0 = el_64 l /\ es_machine st0 = el_machine l /\
    forall virt st, same_arrays st st0 ->
    forall z addr, addr + pgsz < 2^64 ->
      fst (elf_get_page (read_files [encode_elf l segs]) pgsz z virt st addr)
        = spec_elf_page segs pgsz z virt addr /\
      same_arrays (snd (elf_get_page (read_files [encode_elf l segs]) pgsz z virt st addr)) st0.
Proof.
  intros Hwf Hpg. exists (expected l segs). split; [exact (elf_open_spec l segs Hwf) |].
  split; [reflexivity |]. split; [reflexivity |]. split; [reflexivity |].
  intros virt st Hsame z addr Hr.
  set (rd := read_files [encode_elf l segs]).
  assert (Harr : arrays virt st = arr_of l segs virt).
  { rewrite (arrays_same virt _ _ Hsame). unfold arrays, expected, arr_of. destruct virt; reflexivity. }
  destruct (elf_get_page_spec virt rd (read_files_slices _) (read_files_len _) pgsz Hpg z st
              (arr_of l segs virt) addr (arr_of_ok l segs Hwf virt) Harr Hr) as [Hres Hs].
  split.
  - rewrite Hres. apply (page_answer_is_spec virt rd pgsz Hpg segs
                           (arr_of l segs virt) (arr_of_ok l segs Hwf virt) (arr_of_rel l segs Hwf virt) z addr Hr).
  - destruct Hs as [E1 E2]. destruct Hsame as [E3 E4]. split; congruence.
Qed.

(** * the highest page frame *)
Lemma fold_max_perm {A} (f : A -> N) (l l' : list A) :
  Permutation l l' -> forall m, fold_left (fun m x => N.max m (f x)) l m = fold_left (fun m x => N.max m (f x)) l' m.
Proof.
  induction 1 as [| x l l' Hp IH | x y l | l l' l'' H1 IH1 H2 IH2]; intro m; cbn [fold_left].
  - reflexivity.
  - apply IH.
  - f_equal. lia.
  - now rewrite IH1.
Qed.

Lemma fold_loads f g : forall segs off m,
  (forall s o, g (to_ls s o) = f s) ->
  fold_left (fun m x => N.max m (g x)) (fst (split_segs segs off)) m =
  fold_left (fun m s => if sg_type s =? 1 then N.max m (f s) else m) segs m.
Proof.
  induction segs as [| s t IH]; intros off m Hfg; [reflexivity |].
  cbn [split_segs fold_left]. specialize (IH (off + sg_gap s + sg_filesz s)).
  destruct (split_segs t (off + sg_gap s + sg_filesz s)) as [lo no]. cbn [fst] in IH.
  destruct (sg_type s =? 1).
  - cbn [fst fold_left]. rewrite Hfg. now apply IH.
  - destruct (sg_type s =? 4); cbn [fst]; now apply IH.
Qed.

Theorem elf_max_pfn_spec l segs shift :
  elf_wf l segs ->
  (forall s, In s segs -> is_load s -> sg_phys s + sg_memsz s + 2^shift <= 2^64) ->
  elf_max_pfn (expected l segs) shift = spec_elf_max_pfn segs (2^shift).
Proof.
  intros Hwf Hnw. unfold elf_max_pfn, spec_elf_max_pfn. cbn [es_sorted expected].
  rewrite (fold_max_perm _ _ _ (sort_perm ls_phys (loads l segs)) 0).
  unfold loads.
  (* element-wise: no wrap-around *)
  assert (Hel : forall a, In a (fst (split_segs segs (data_start l segs))) ->
            N.shiftr (Wrap64.wsub (Wrap64.wadd (Wrap64.wadd (ls_phys a) (ls_memsz a)) (N.shiftl 1 shift)) 1) shift
            = (ls_phys a + ls_memsz a + 2^shift - 1) / 2^shift).
  { intros a Ha. destruct (split_segs_in segs _ a Ha) as [s [o [Hin [Hl ->]]]].
    specialize (Hnw s Hin Hl). cbn [to_ls ls_phys ls_memsz].
    assert (Hp : 0 < 2^shift) by (apply N.neq_0_lt_0, N.pow_nonzero; discriminate).
    rewrite N.shiftl_1_l.
    rewrite (wadd_eq (sg_phys s) (sg_memsz s)) by lia.
    destruct (N.eq_dec (sg_phys s + sg_memsz s + 2^shift) (2^64)) as [E | NE].
    - (* the sum is exactly 2^64: wraps to 0, and 0 - 1 wraps to 2^64 - 1 *)
      unfold Wrap64.wadd, Wrap64.wsub, Wrap64.w. rewrite W_is, E, N.mod_same by discriminate.
      rewrite (N.mod_small 1) by reflexivity. rewrite N.add_0_l, N.mod_small by lia.
      now rewrite N.shiftr_div_pow2.
    - rewrite wadd_eq by lia. rewrite wsub_eq by lia. now rewrite N.shiftr_div_pow2. }
  transitivity (fold_left (fun m x => N.max m ((ls_phys x + ls_memsz x + 2^shift - 1) / 2^shift))
                          (fst (split_segs segs (data_start l segs))) 0).
  - generalize 0. revert Hel. generalize (fst (split_segs segs (data_start l segs))).
    induction l0 as [| a t IH]; intros Hel m; [reflexivity |]. cbn [fold_left].
    rewrite (Hel a (or_introl eq_refl)). apply IH. intros x Hx. apply Hel. now right.
  - apply (fold_loads (fun s => (sg_phys s + sg_memsz s + 2^shift - 1) / 2^shift)). reflexivity.
Qed.

Theorem elf_max_pfn_full l segs shift :
  elf_wf l segs ->
  (forall s, In s segs -> is_load s -> sg_phys s + sg_memsz s + 2^shift <= 2^64) ->
  elf_open (read_files [encode_elf l segs]) 1 = Ok (expected l segs) /\
  elf_max_pfn (expected l segs) shift = spec_elf_max_pfn segs (2^shift).
Proof. intros Hwf Hnw. split; [exact (elf_open_spec l segs Hwf) | exact (elf_max_pfn_spec l segs shift Hwf Hnw)]. Qed.
