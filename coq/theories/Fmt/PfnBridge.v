(** The region list that the format readers use ([PfnModel.regions_of]: the
    word-level scanner model of Pfn/BitmapModel.v, tied to pfn.c by C07) is the
    list of maximal runs that the C01 proofs reason about
    ([PfnModel.regions_from_bitmap], a walk over the bits).

    C07's theorem [BitmapProofs.regions_are_runs] says that the scanner model
    yields a list satisfying [runs_from]; here: [runs_from] determines the list
    (uniqueness), and the bit walk satisfies it too. *)
From Coq Require Import NArith List Bool Lia Arith.
From KdV Require Pfn.BitmapModel Pfn.PfnSpec Pfn.BitmapProofs.
From KdV Require Import Fmt.Codec Fmt.CodecProofs Fmt.PfnModel Fmt.PfnProofs.
From KdV Require Fmt.BitmapSpec.
Import ListNotations.
Local Open Scope N_scope.

Import BitmapModel.
Notation runs_from := BitmapProofs.runs_from.

(** * [runs_from] determines the region list *)
Lemma region_eq (a b : region) :
  g_pfn a = g_pfn b -> g_cnt a = g_cnt b -> g_pos a = g_pos b -> a = b.
Proof. destruct a, b. cbn. intros -> -> ->. reflexivity. Qed.

Lemma runs_from_unique bit hi esz : forall rs1 rs2 cur pos f,
  runs_from bit cur hi pos esz f rs1 -> runs_from bit cur hi pos esz f rs2 -> rs1 = rs2.
Proof.
  induction rs1 as [| r1 t1 IH]; intros rs2 cur pos f H1 H2.
  - destruct rs2 as [| r2 t2]; [reflexivity |]. exfalso. cbn [BitmapProofs.runs_from] in H1, H2.
    destruct H2 as (A1 & A2 & A3 & A4 & A5 & A6 & A7 & A8).
    assert (bit (g_pfn r2) = true) by (apply A6; lia).
    assert (bit (g_pfn r2) = false) by (apply H1; lia). congruence.
  - destruct rs2 as [| r2 t2].
    + exfalso. cbn [BitmapProofs.runs_from] in H1, H2. destruct H1 as (A1 & A2 & A3 & A4 & A5 & A6 & A7 & A8).
      assert (bit (g_pfn r1) = true) by (apply A6; lia).
      assert (bit (g_pfn r1) = false) by (apply H2; lia). congruence.
    + cbn [BitmapProofs.runs_from] in H1, H2.
      destruct H1 as (A1 & A2 & A3 & A4 & A5 & A6 & A7 & A8).
      destruct H2 as (B1 & B2 & B3 & B4 & B5 & B6 & B7 & B8).
      assert (Ep : g_pfn r1 = g_pfn r2).
      { destruct (N.lt_trichotomy (g_pfn r1) (g_pfn r2)) as [Hlt | [E | Hgt]]; [| exact E |]; exfalso.
        - assert (bit (g_pfn r1) = true) by (apply A6; lia).
          assert (bit (g_pfn r1) = false) by (apply B5; lia). congruence.
        - assert (bit (g_pfn r2) = true) by (apply B6; lia).
          assert (bit (g_pfn r2) = false) by (apply A5; lia). congruence. }
      (* the frame behind a run is clear *)
      assert (Hend : forall r t c p e, runs_from bit (g_pfn r + g_cnt r) hi p e false t ->
                g_pfn r + g_cnt r < hi -> c = g_pfn r + g_cnt r -> bit c = false).
      { intros r t c p e Ht Hhi ->. destruct t as [| r' t']; cbn [BitmapProofs.runs_from] in Ht.
        - apply Ht; lia.
        - destruct Ht as (C1 & C2 & _ & _ & C5 & _). apply C5; [lia |]. now apply C2. }
      assert (Ec : g_cnt r1 = g_cnt r2).
      { destruct (N.lt_trichotomy (g_cnt r1) (g_cnt r2)) as [Hlt | [E | Hgt]]; [| exact E |]; exfalso.
        - assert (bit (g_pfn r1 + g_cnt r1) = true) by (apply B6; lia).
          assert (bit (g_pfn r1 + g_cnt r1) = false) by (eapply Hend; [exact A8 | lia | reflexivity]). congruence.
        - assert (bit (g_pfn r2 + g_cnt r2) = true) by (apply A6; lia).
          assert (bit (g_pfn r2 + g_cnt r2) = false) by (eapply Hend; [exact B8 | lia | reflexivity]). congruence. }
      assert (Er : r1 = r2) by (apply region_eq; congruence).
      subst r2. f_equal. exact (IH t2 _ _ _ A8 B8).
Qed.

(** * the bit walk yields such a list *)
Definition to_region (r : pfn_region) : region :=
  {| g_pfn := rg_pfn r; g_cnt := rg_cnt r; g_pos := rg_pos r |}.

Lemma of_to_region r : of_region (to_region r) = r.
Proof. destruct r. reflexivity. Qed.

Section Walk.
  Variable esz s e : N.
  Variable allbits : list bool.

  Definition bitL (p : N) : bool := live s e (nth (N.to_nat p) allbits false) p.

  Lemma walk_runs hi : N.of_nat (length allbits) <= hi ->
    forall suffix pre pfn pos cur,
    allbits = pre ++ suffix -> pfn = N.of_nat (length pre) ->
    (forall st, cur = Some st -> st < pfn /\ forall p, st <= p -> p < pfn -> bitL p = true) ->
    runs_from bitL (lower pfn cur) hi pos esz true (map to_region (runs esz s e suffix pfn pos cur)).
  Proof.
    intro Hhi. induction suffix as [| b t IH]; intros pre pfn pos cur Eall Epfn Hcur.
    - assert (Hlen : pfn = N.of_nat (length allbits)) by (rewrite Eall, app_nil_r; exact Epfn).
      assert (Hout : forall p, pfn <= p -> bitL p = false).
      { intros p Hp. unfold bitL. rewrite nth_overflow by lia. reflexivity. }
      destruct cur as [st |]; cbn [runs map lower BitmapProofs.runs_from].
      + destruct (Hcur st eq_refl) as [Hlt Htrue]. cbn [to_region g_pfn g_cnt g_pos rg_pfn rg_cnt rg_pos].
        repeat split; try lia.
        * intros p Hp1 Hp2. apply Htrue; lia.
        * intros p Hp1 Hp2. apply Hout. lia.
      + intros p Hp1 Hp2. now apply Hout.
    - assert (Hb : bitL pfn = live s e b pfn).
      { unfold bitL. rewrite Epfn, Nat2N.id, Eall, app_nth2 by lia. rewrite Nat.sub_diag. reflexivity. }
      assert (Eall' : allbits = (pre ++ [b]) ++ t) by (rewrite <- app_assoc; exact Eall).
      assert (Epfn' : pfn + 1 = N.of_nat (length (pre ++ [b]))) by (rewrite app_length; cbn [length]; lia).
      assert (Hph : pfn + 1 <= hi).
      { assert (length allbits = (length pre + S (length t))%nat) by (rewrite Eall, app_length; reflexivity). lia. }
      cbn [runs]. fold (live s e b pfn). rewrite <- Hb.
      destruct cur as [st |]; cbn [lower].
      + destruct (Hcur st eq_refl) as [Hlt Htrue].
        destruct (bitL pfn) eqn:Hlive.
        * apply (IH (pre ++ [b]) (pfn + 1) pos (Some st) Eall' Epfn').
          intros st' E. injection E as <-. split; [lia |]. intros p Hp1 Hp2.
          destruct (N.eq_dec p pfn) as [-> | Hne]; [exact Hlive | apply Htrue; lia].
        * cbn [map BitmapProofs.runs_from to_region g_pfn g_cnt g_pos rg_pfn rg_cnt rg_pos].
          repeat split; try lia.
          -- intros p Hp1 Hp2. apply Htrue; lia.
          -- replace (st + (pfn - st)) with pfn by lia.
             eapply (BitmapProofs.runs_from_extend bitL pfn (pfn + 1)); [lia | | intros _; left; lia |].
             ++ intros p Hp1 Hp2. replace p with pfn by lia. exact Hlive.
             ++ apply (IH (pre ++ [b]) (pfn + 1) _ None Eall' Epfn'). intros st' E. discriminate E.
      + destruct (bitL pfn) eqn:Hlive.
        * apply (IH (pre ++ [b]) (pfn + 1) pos (Some pfn) Eall' Epfn').
          intros st' E. injection E as <-. split; [lia |]. intros p Hp1 Hp2.
          replace p with pfn by lia. exact Hlive.
        * eapply (BitmapProofs.runs_from_extend bitL pfn (pfn + 1)); [lia | | intros H; discriminate H |].
          -- intros p Hp1 Hp2. replace p with pfn by lia. exact Hlive.
          -- apply (IH (pre ++ [b]) (pfn + 1) pos None Eall' Epfn'). intros st' E. discriminate E.
  Qed.
End Walk.

(** restricting the window from "live bits anywhere" to "set bits in [s, e)" *)
Lemma window_runs bit bit' s e hi esz :
  e <= hi -> (forall p, bit' p = bit p && (s <=? p) && (p <? e)) ->
  forall rs cur pos f, s <= cur ->
  runs_from bit' cur hi pos esz f rs -> runs_from bit cur e pos esz f rs.
Proof.
  intros Hhi Hb. induction rs as [| r t IH]; intros cur pos f Hs H; cbn [BitmapProofs.runs_from] in *.
  - intros p Hp1 Hp2. specialize (H p Hp1 ltac:(lia)). rewrite Hb in H.
    destruct (N.leb_spec s p); [| lia]. destruct (N.ltb_spec p e); [| lia].
    now rewrite !andb_true_r in H.
  - destruct H as (A1 & A2 & A3 & A4 & A5 & A6 & A7 & A8).
    assert (Hin : forall p, g_pfn r <= p -> p < g_pfn r + g_cnt r -> bit p = true /\ s <= p /\ p < e).
    { intros p Hp1 Hp2. specialize (A6 p Hp1 Hp2). rewrite Hb in A6.
      apply andb_prop in A6 as [A6 Hlt]. apply andb_prop in A6 as [A6 Hle].
      apply N.leb_le in Hle. apply N.ltb_lt in Hlt. auto. }
    destruct (Hin (g_pfn r + g_cnt r - 1) ltac:(lia) ltac:(lia)) as (_ & _ & Hlast).
    repeat split; try assumption; try lia.
    + intros p Hp1 Hp2. specialize (A5 p Hp1 Hp2). rewrite Hb in A5.
      destruct (N.leb_spec s p); [| lia]. destruct (N.ltb_spec p e); [| lia].
      now rewrite !andb_true_r in A5.
    + intros p Hp1 Hp2. now destruct (Hin p Hp1 Hp2).
    + apply IH; [lia | exact A8].
Qed.

Lemma window_runs_top bit bit' s e hi esz rs pos :
  e <= hi -> (forall p, bit' p = bit p && (s <=? p) && (p <? e)) ->
  runs_from bit' 0 hi pos esz true rs -> runs_from bit s e pos esz true rs.
Proof.
  intros Hhi Hb H. destruct rs as [| r t]; cbn [BitmapProofs.runs_from] in *.
  - intros p Hp1 Hp2. specialize (H p ltac:(lia) ltac:(lia)). rewrite Hb in H.
    destruct (N.leb_spec s p); [| lia]. destruct (N.ltb_spec p e); [| lia].
    now rewrite !andb_true_r in H.
  - destruct H as (A1 & A2 & A3 & A4 & A5 & A6 & A7 & A8).
    assert (Hin : forall p, g_pfn r <= p -> p < g_pfn r + g_cnt r -> bit p = true /\ s <= p /\ p < e).
    { intros p Hp1 Hp2. specialize (A6 p Hp1 Hp2). rewrite Hb in A6.
      apply andb_prop in A6 as [A6 Hlt]. apply andb_prop in A6 as [A6 Hle].
      apply N.leb_le in Hle. apply N.ltb_lt in Hlt. auto. }
    destruct (Hin (g_pfn r + g_cnt r - 1) ltac:(lia) ltac:(lia)) as (_ & _ & Hlast).
    destruct (Hin (g_pfn r) ltac:(lia) ltac:(lia)) as (_ & Hfirst & _).
    repeat split; try assumption; try lia.
    + intros p Hp1 Hp2. specialize (A5 p ltac:(lia) Hp2). rewrite Hb in A5.
      destruct (N.leb_spec s p); [| lia]. destruct (N.ltb_spec p e); [| lia].
      now rewrite !andb_true_r in A5.
    + intros p Hp1 Hp2. now destruct (Hin p Hp1 Hp2).
    + apply (window_runs bit bit' s e hi esz Hhi Hb); [lia | exact A8].
Qed.

(** * bit [p] of the byte string, as a list of bits and as [bit_of] *)
Lemma nth_bits_of_bytes msb0 : forall bm p,
  nth (N.to_nat p) (bits_of_bytes msb0 bm) false = PfnSpec.bit_of msb0 bm p.
Proof.
  induction bm as [| b t IH]; intro p.
  - unfold PfnSpec.bit_of. cbn [bits_of_bytes flat_map length N.of_nat].
    destruct (N.leb_spec 0 (p / 8)); [| lia]. destruct (N.to_nat p); reflexivity.
  - unfold bits_of_bytes in *. cbn [flat_map].
    destruct (N.lt_ge_cases p 8) as [Hlt | Hge].
    + rewrite app_nth1 by (unfold bits_of_byte; rewrite map_length; cbn; lia).
      unfold PfnSpec.bit_of. cbn [length]. rewrite (N.div_small p 8 Hlt), (N.mod_small p 8 Hlt).
      destruct (N.leb_spec (N.of_nat (S (length t))) 0); [lia |]. cbn [N.to_nat nth_error].
      unfold bits_of_byte, bit_msb0, bit_lsb0.
      assert (Hc : p = 0 \/ p = 1 \/ p = 2 \/ p = 3 \/ p = 4 \/ p = 5 \/ p = 6 \/ p = 7) by lia.
      destruct Hc as [-> | [-> | [-> | [-> | [-> | [-> | [-> | ->]]]]]]]; destruct msb0; reflexivity.
    + rewrite app_nth2 by (unfold bits_of_byte; rewrite map_length; cbn; lia).
      unfold bits_of_byte at 1. rewrite map_length. cbn [length].
      replace (N.to_nat p - 8)%nat with (N.to_nat (p - 8)) by lia. rewrite IH.
      unfold PfnSpec.bit_of. cbn [length].
      assert (Hd : p / 8 = (p - 8) / 8 + 1).
      { replace p with ((p - 8) + 1 * 8) at 1 by lia. rewrite N.div_add by discriminate. reflexivity. }
      assert (Hm : p mod 8 = (p - 8) mod 8).
      { replace p with ((p - 8) + 1 * 8) at 1 by lia. rewrite N.mod_add by discriminate. reflexivity. }
      rewrite Hd, Hm.
      destruct (N.leb_spec (N.of_nat (length t)) ((p - 8) / 8));
        destruct (N.leb_spec (N.of_nat (S (length t))) ((p - 8) / 8 + 1)); try lia; try reflexivity.
      replace (N.to_nat ((p - 8) / 8 + 1)) with (S (N.to_nat ((p - 8) / 8))) by lia. reflexivity.
Qed.

Lemma length_bits_of_bytes msb0 bm : length (bits_of_bytes msb0 bm) = (8 * length bm)%nat.
Proof.
  induction bm as [| b t IH]; [reflexivity |]. unfold bits_of_bytes in *. cbn [flat_map length].
  rewrite app_length, IH. unfold bits_of_byte. rewrite map_length. cbn [length]. lia.
Qed.

(** * the readers' region function is the bit walk *)
Theorem regions_of_spec msb0 al bm s e off esz :
  bytes_ok bm -> (e + 7) / 8 <= len bm ->
  regions_of msb0 al bm s e off esz = Ok (PfnModel.regions_from_bitmap msb0 bm s e off esz).
Proof.
  intros Hok Hlen. unfold regions_of.
  destruct (BitmapModel.regions_from_bitmap true msb0 al bm s e off esz [] []) as [res orc'] eqn:E.
  pose proof (BitmapProofs.regions_are_runs msb0 al bm s e off esz [] [] res orc' Hok Hlen E) as H.
  destruct res as [rs' | rs' | |]; try contradiction.
  destruct H as [new [-> Hruns]]. cbn [app]. f_equal.
  (* the bit walk satisfies the same specification *)
  set (mine := PfnModel.regions_from_bitmap msb0 bm s e off esz).
  assert (Hmine : runs_from (PfnSpec.bit_of msb0 bm) s e off esz true (map to_region mine)).
  { assert (He : e <= 8 * len bm).
    { pose proof (N.div_mod (e + 7) 8 ltac:(lia)). pose proof (N.mod_lt (e + 7) 8 ltac:(lia)). lia. }
    apply (window_runs_top _ (bitL s e (bits_of_bytes msb0 bm)) s e (8 * len bm) esz _ off He).
    - intro p. unfold bitL, live. rewrite nth_bits_of_bytes. reflexivity.
    - pose proof (walk_runs esz s e (bits_of_bytes msb0 bm) (8 * len bm)
                    ltac:(rewrite length_bits_of_bytes; unfold len; lia)
                    (bits_of_bytes msb0 bm) [] 0 off None eq_refl eq_refl) as W.
      cbn [lower] in W. apply W. intros st Hst. discriminate Hst. }
  rewrite (runs_from_unique _ _ _ _ _ _ _ _ Hruns Hmine).
  rewrite map_map. rewrite <- (map_id mine) at 2. apply map_ext. intro r. apply of_to_region.
Qed.

(** packed bitmaps are byte strings *)
Lemma byte_of_bits_lt l : BitmapSpec.byte_of_bits l < 2 ^ N.of_nat (length l).
Proof.
  induction l as [| b t IH]; [cbn; lia |].
  cbn [BitmapSpec.byte_of_bits fold_right length]. fold (BitmapSpec.byte_of_bits t).
  replace (N.of_nat (S (length t))) with (N.succ (N.of_nat (length t))) by lia.
  rewrite N.pow_succ_r'. destruct b; lia.
Qed.

Lemma take8_length l : length (BitmapSpec.take8 l) = 8%nat.
Proof. unfold BitmapSpec.take8. rewrite app_length, repeat_length, firstn_length. lia. Qed.

Lemma bits_to_bytes_ok msb0 n : forall bits, bytes_ok (BitmapSpec.bits_to_bytes msb0 n bits).
Proof.
  induction n as [| n IH]; intro bits; [constructor |].
  cbn [BitmapSpec.bits_to_bytes]. constructor; [| apply IH].
  unfold BitmapSpec.pack_byte.
  pose proof (byte_of_bits_lt (if msb0 then rev (BitmapSpec.take8 bits) else BitmapSpec.take8 bits)) as H.
  replace (length (if msb0 then rev (BitmapSpec.take8 bits) else BitmapSpec.take8 bits)) with 8%nat in H
    by (destruct msb0; rewrite ?rev_length, take8_length; reflexivity).
  exact H.
Qed.
