(** [uncompress_rle] inverts every well-formed RLE stream, never produces more
    than the destination holds, and the reference encoder emits well-formed
    streams. *)
From Coq Require Import NArith List Bool Lia Arith.
From KdV Require Import Fmt.Codec Fmt.CodecProofs Fmt.Rle.
Import ListNotations.
Local Open Scope N_scope.

(** one decoding step per token *)
Lemma dec_lit b rest remain :
  uncompress_rle (render_tok (Lit b) ++ rest) remain =
  if remain =? 0 then None else cons_opt b (uncompress_rle rest (remain - 1)).
Proof.
  unfold render_tok. destruct (b =? 0) eqn:Hb.
  - apply N.eqb_eq in Hb. subst. reflexivity.
  - cbn [app uncompress_rle]. now rewrite Hb.
Qed.

Lemma dec_run c v rest remain :
  c <> 0 ->
  uncompress_rle (render_tok (Run c v) ++ rest) remain =
  if remain <? c then None
  else app_opt (repeat v (N.to_nat c)) (uncompress_rle rest (remain - c)).
Proof.
  intro Hc. cbn [render_tok app uncompress_rle]. cbn [N.eqb].
  apply N.eqb_neq in Hc. now rewrite Hc.
Qed.

Lemma len_expand_tok t : tok_ok t -> 1 <= len (expand_tok t).
Proof.
  destruct t as [b | c v]; cbn [expand_tok tok_ok].
  - intros _. cbn. lia.
  - intros [[H1 H2] _]. rewrite len_repeat. lia.
Qed.

(** every well-formed stream decodes to its expansion when it fits ... *)
Theorem rle_decode_render ts remain :
  Forall tok_ok ts -> len (rle_expand ts) <= remain ->
  uncompress_rle (rle_render ts) remain = Some (rle_expand ts).
Proof.
  intro H. revert remain. induction H as [| t ts Ht Hts IH]; intros remain Hfit.
  - reflexivity.
  - unfold rle_render, rle_expand in *. cbn [flat_map] in *.
    rewrite len_app in Hfit.
    destruct t as [b | c v].
    + rewrite dec_lit. cbn [expand_tok] in *. rewrite len_cons, len_nil in Hfit.
      destruct (N.eqb_spec remain 0); [lia |].
      rewrite IH by lia. reflexivity.
    + destruct Ht as [[Hc1 Hc2] Hv]. cbn [expand_tok] in *. rewrite len_repeat in Hfit.
      rewrite dec_run by lia.
      destruct (N.ltb_spec remain c); [lia |].
      rewrite IH by lia. reflexivity.
Qed.

(** ... and is rejected when it does not: the destination is never overrun *)
Theorem rle_decode_overflow ts remain :
  Forall tok_ok ts -> remain < len (rle_expand ts) ->
  uncompress_rle (rle_render ts) remain = None.
Proof.
  intro H. revert remain. induction H as [| t ts Ht Hts IH]; intros remain Hbig.
  - cbn in Hbig. lia.
  - unfold rle_render, rle_expand in *. cbn [flat_map] in *.
    rewrite len_app in Hbig.
    destruct t as [b | c v].
    + rewrite dec_lit. cbn [expand_tok] in *. rewrite len_cons, len_nil in Hbig.
      destruct (N.eqb_spec remain 0); [reflexivity |].
      rewrite IH by lia. reflexivity.
    + destruct Ht as [[Hc1 Hc2] Hv]. cbn [expand_tok] in *. rewrite len_repeat in Hbig.
      rewrite dec_run by lia.
      destruct (N.ltb_spec remain c); [reflexivity |].
      rewrite IH by lia. reflexivity.
Qed.

(** for *any* source bytes: what is produced fits the destination *)
Theorem rle_output_bound : forall src remain out,
  uncompress_rle src remain = Some out -> len out <= remain.
Proof.
  (* strong induction on the length of the source *)
  intro src. remember (length src) as n eqn:Hn.
  revert src Hn. induction n as [n IHn] using lt_wf_ind. intros src Hn remain out H.
  destruct src as [| byte s1]; [cbn in H; injection H as <-; cbn; lia |].
  cbn [uncompress_rle] in H.
  assert (Hlit : forall b s, (length s < n)%nat ->
            (if remain =? 0 then None else cons_opt b (uncompress_rle s (remain - 1))) = Some out ->
            len out <= remain).
  { intros b s Hs Hd. destruct (N.eqb_spec remain 0); [discriminate |].
    destruct (uncompress_rle s (remain - 1)) as [o |] eqn:E; [| discriminate].
    cbn in Hd. injection Hd as <-. rewrite len_cons.
    specialize (IHn _ Hs s eq_refl _ _ E). lia. }
  destruct (byte =? 0).
  - destruct s1 as [| cnt s2]; [discriminate |].
    destruct (cnt =? 0).
    + apply (Hlit 0 s2); [cbn in Hn; lia | exact H].
    + destruct (N.ltb_spec remain cnt); [discriminate |].
      destruct s2 as [| v s3]; [discriminate |].
      destruct (uncompress_rle s3 (remain - cnt)) as [o |] eqn:E; [| discriminate].
      cbn in H. injection H as <-. rewrite len_app, len_repeat.
      assert (Hs : (length s3 < n)%nat) by (cbn in Hn; lia).
      specialize (IHn _ Hs s3 eq_refl _ _ E). lia.
  - apply (Hlit byte s1); [cbn in Hn; lia | exact H].
Qed.

(** the reference encoder *)
Lemma flush_ok v n : v < 256 -> n < 256 -> Forall tok_ok (flush_run v n).
Proof.
  intros Hv Hn. unfold flush_run.
  destruct (N.eqb_spec n 0); [constructor |].
  destruct ((4 <=? n) || ((v =? 0) && (2 <=? n))).
  - constructor; [| constructor]. cbn. lia.
  - apply Forall_forall. intros t Ht. apply repeat_spec in Ht. subst. exact Hv.
Qed.

Lemma flat_map_repeat_lit v n : flat_map expand_tok (repeat (Lit v) n) = repeat v n.
Proof. induction n; [reflexivity |]. cbn [repeat flat_map expand_tok app]. now rewrite IHn. Qed.

Lemma flush_expand v n : rle_expand (flush_run v n) = repeat v (N.to_nat n).
Proof.
  unfold flush_run, rle_expand.
  destruct (N.eqb_spec n 0); [subst; reflexivity |].
  destruct ((4 <=? n) || ((v =? 0) && (2 <=? n))).
  - cbn. apply app_nil_r.
  - apply flat_map_repeat_lit.
Qed.

Lemma tokens_ok l : forall v n, bytes_ok l -> v < 256 -> n < 256 -> Forall tok_ok (rle_tokens l v n).
Proof.
  induction l as [| b t IH]; intros v n Hl Hv Hn; cbn [rle_tokens].
  - now apply flush_ok.
  - inversion Hl as [| ? ? Hb Ht]; subst.
    destruct ((b =? v) && (n <? 255) && negb (n =? 0)) eqn:E.
    + apply andb_prop in E as [E _]. apply andb_prop in E as [_ E]. apply N.ltb_lt in E.
      apply IH; [assumption | assumption | lia].
    + apply Forall_app. split; [now apply flush_ok | apply IH; [assumption | assumption | lia]].
Qed.

Lemma repeat_snoc {A} (x : A) n : repeat x n ++ [x] = x :: repeat x n.
Proof. induction n; [reflexivity |]. cbn [repeat app]. now rewrite IHn. Qed.

Lemma tokens_expand l : forall v n, rle_expand (rle_tokens l v n) = repeat v (N.to_nat n) ++ l.
Proof.
  induction l as [| b t IH]; intros v n; cbn [rle_tokens].
  - rewrite flush_expand. now rewrite app_nil_r.
  - destruct ((b =? v) && (n <? 255) && negb (n =? 0)) eqn:E.
    + apply andb_prop in E as [E _]. apply andb_prop in E as [E _]. apply N.eqb_eq in E. subst b.
      rewrite IH. replace (N.to_nat (n + 1)) with (S (N.to_nat n)) by lia.
      cbn [repeat]. rewrite <- repeat_snoc, <- app_assoc. reflexivity.
    + unfold rle_expand in *. rewrite flat_map_app.
      fold (rle_expand (flush_run v n)). rewrite flush_expand.
      rewrite IH. reflexivity.
Qed.

Theorem rle_roundtrip page dstlen :
  bytes_ok page -> len page <= dstlen ->
  uncompress_rle (rle_encode page) dstlen = Some page.
Proof.
  intros Hok Hfit. unfold rle_encode.
  pose proof (tokens_expand page 0 0) as He. cbn [N.to_nat repeat app] in He.
  rewrite <- He at 2. apply rle_decode_render.
  - apply tokens_ok; [assumption | lia | lia].
  - now rewrite He.
Qed.
