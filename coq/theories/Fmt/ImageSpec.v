(** Page-granular memory images and what a page read must deliver: shared by
    the formats that store whole pages selected by a bitmap (diskdump, SADUMP)
    or listed one by one (LKCD). *)
From Coq Require Import NArith List Bool.
From KdV Require Import Fmt.Codec.
Import ListNotations.
Local Open Scope N_scope.

(** index = page frame number: [Some content] for a page the dump contains,
    [None] for a page it does not (excluded, or not RAM) *)
Definition image := list (option bytes).

(** what a read of page frame [pfn] must deliver *)
Definition spec_read_page (img : image) (pgsz max_pfn : N) (zero_excluded : bool) (pfn : N)
  : res bytes :=
  if max_pfn <=? pfn then Err ERR_NODATA else
  match nth_error img (N.to_nat pfn) with
  | Some (Some content) => Ok content
  | _ => if zero_excluded then Ok (zeros pgsz) else Err ERR_NODATA
  end.


Definition is_some {A} (o : option A) : bool := match o with Some _ => true | None => false end.


Fixpoint count_some {A} (l : list (option A)) : N :=
  match l with
  | [] => 0
  | None :: t => count_some t
  | Some _ :: t => 1 + count_some t
  end.

